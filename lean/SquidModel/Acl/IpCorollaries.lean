/-
Readable sufficient conditions for the hypotheses of `verdicts_eq_union` (no special end points; IPv4-only lists), the keyword
switches for arbitrary token lists, and "lookups never change what is stored".  Core Lean only.
-/
import SquidModel.Acl.IpParse

namespace SquidModel.Acl.Ip
open SquidModel.Acl

theorem mem_cfgVals_inv {toks : List Token} {v : Val} (h : v ∈ cfgVals toks) :
    ∃ it evs, Token.item it ∈ toks ∧ isLegacyAll it = false ∧ factoryParse it = some (v, evs) := by
  unfold cfgVals at h
  rw [List.mem_filterMap] at h
  obtain ⟨t, ht, hv⟩ := h
  cases t with
  | item it =>
    unfold Token.val? at hv
    by_cases hl : isLegacyAll it = true
    · simp [hl] at hv
    · simp only [hl, if_false, Bool.false_eq_true] at hv
      cases hf : factoryParse it with
      | none => simp [hf] at hv
      | some p =>
        simp only [hf, Option.map_some, Option.some.injEq] at hv
        exact ⟨it, p.2, ht, by simpa using hl, by rw [← hv, hf]⟩
  | all => simp [Token.val?] at hv
  | ipv4 => simp [Token.val?] at hv
  | ipv6 => simp [Token.val?] at hv

/-- in a regular list every configured value is the stored form of a regular token -/
theorem cfgVals_stored {toks : List Token} (hreg : RegularList toks) {v : Val} (h : v ∈ cfgVals toks) :
    ∃ it k, Token.item it ∈ toks ∧ it.Regular k ∧ v = it.stored k := by
  obtain ⟨it, evs, ht, hl, hf⟩ := mem_cfgVals_inv h
  rcases hreg it ht with h1 | ⟨k, hk⟩
  · rw [hl] at h1; exact absurd h1 (by simp)
  · obtain ⟨evs', hf', _⟩ := factoryParse_spec hk
    rw [hf] at hf'
    simp only [Option.some.injEq, Prod.mk.injEq] at hf'
    exact ⟨it, k, ht, hk, hf'.1⟩

/-! ### no special end points -/

/-- no configured value starts or ends at `0.0.0.0`, none starts at `255.255.255.255` -/
def PlainList (toks : List Token) : Prop :=
  ∀ v ∈ cfgVals toks, v.first ≠ V4ANY ∧ v.last ≠ V4ANY ∧ v.first ≠ V4NO

/-- the client address is neither `0.0.0.0` nor `255.255.255.255`, also after masking with the mask of any configured value -/
def PlainProbe (toks : List Token) (x : Nat) : Prop :=
  x < 2 ^ 128 ∧ x ≠ V4ANY ∧ x ≠ V4NO ∧ ∀ v ∈ cfgVals toks, x &&& v.mask ≠ V4ANY ∧ x &&& v.mask ≠ V4NO

instance (toks : List Token) : Decidable (PlainList toks) := by unfold PlainList; infer_instance
instance (toks : List Token) (x : Nat) : Decidable (PlainProbe toks x) := by unfold PlainProbe; infer_instance

theorem tame_of_plain {toks : List Token} (h : PlainList toks) : Tame (ctxOf toks) := by
  refine ⟨?_, ?_, ?_⟩
  · rintro ⟨v, hv, e⟩; exact absurd e (h v hv).2.1
  · rintro ⟨v, hv, e⟩; exact absurd e (h v hv).1
  · rintro ⟨v, hv, e⟩; exact absurd e (h v hv).2.2

theorem probeOK_of_plain {toks : List Token} {x : Nat} (h : PlainProbe toks x) : ProbeOK (ctxOf toks) x := by
  refine ⟨?_, ?_, ?_⟩
  · intro v hv
    exact ⟨fun e => absurd e (h.2.2.2 v hv).1, fun e => absurd e (h.2.2.2 v hv).2⟩
  · intro e; exact absurd e h.2.1
  · intro e; exact absurd e h.2.2.1

/-! ### IPv4-only lists -/

/-- every numeric token is written in IPv4 syntax -/
def V4List (toks : List Token) : Prop := ∀ it, Token.item it ∈ toks → it.fam = Fam.v4

theorem v4_stored {it : Item} {k : Nat} (hf : it.fam = Fam.v4) (h : it.Regular k) :
    V4ANY ≤ (it.stored k).addr1 ∧ (it.stored k).addr1 ≤ V4NO ∧
    ((it.stored k).addr2 = 0 ∨ V4ANY ≤ (it.stored k).addr2) ∧
    V4ANY ≤ (it.stored k).first ∧ (it.stored k).last ≤ V4NO := by
  obtain ⟨evs, _, w, hfirst, hlast⟩ := factoryParse_spec h
  have hkw := h.k_le
  have hw : it.width = 32 := by unfold Item.width; simp [hf]
  have e : ∀ a, embed it.fam a = V4ANY + a := by intro a; unfold embed; simp [hf]
  have h1 : (it.stored k).addr1 = V4ANY + blockLo k it.a1 := by simp [Item.stored, e]
  have hr1 := h.r1
  rw [hw] at hr1 hkw
  have hb1 := blockLo_le k it.a1
  have hV : V4NO = V4ANY + (2 ^ 32 - 1) := by decide
  refine ⟨by omega, by omega, ?_, ?_, ?_⟩
  · unfold Item.stored
    cases it.a2 with
    | none => exact Or.inl rfl
    | some b => right; simp only; rw [e]; omega
  · rw [hfirst]; unfold Item.lo; rw [e]; omega
  · rw [hlast]; unfold Item.hi; rw [e]
    have hb : it.a2.getD it.a1 < 2 ^ 32 := by
      cases ha : it.a2 with
      | none => simpa using hr1
      | some b => have := (h.r2 b ha).1; rw [hw] at this; simpa using this
    have := block_top hkw hb
    omega

theorem tame_of_v4 {toks : List Token} (hreg : RegularList toks) (h4 : V4List toks) : Tame (ctxOf toks) := by
  have key : ∀ v ∈ cfgVals toks, V4ANY ≤ v.first ∧ v.last ≤ V4NO := by
    intro v hv
    obtain ⟨it, k, ht, hk, rfl⟩ := cfgVals_stored hreg hv
    have := v4_stored (h4 it ht) hk
    exact ⟨this.2.2.2.1, this.2.2.2.2⟩
  have keyOk : ∀ v ∈ cfgVals toks, v.first ≤ v.last := by
    intro v hv
    obtain ⟨it, k, ht, hk, rfl⟩ := cfgVals_stored hreg hv
    obtain ⟨_, _, w, _⟩ := factoryParse_spec hk
    exact Val.first_le_last w
  have lo_ok : ∀ e, (ctxOf toks).Elo e → ¬ LowV6 e := by
    rintro e ⟨v, hv, rfl⟩; have := key v hv; unfold LowV6; omega
  have hi_ok : ∀ e, (ctxOf toks).Ehi e → ¬ LowV6 e ∧ ¬ HighV6 e := by
    rintro e ⟨v, hv, rfl⟩; have := key v hv; have := keyOk v hv; unfold LowV6 HighV6; omega
  exact ⟨fun _ => ⟨lo_ok, fun e he => (hi_ok e he).1⟩, fun _ => lo_ok, fun _ e he => (hi_ok e he).2⟩

theorem probeOK_of_v4 {toks : List Token} (hreg : RegularList toks) (h4 : V4List toks) (x : Nat) :
    ProbeOK (ctxOf toks) x := by
  refine ⟨?_, ?_, ?_⟩
  · intro v hv
    obtain ⟨it, k, ht, hk, rfl⟩ := cfgVals_stored hreg hv
    have := v4_stored (h4 it ht) hk
    unfold LowV6 HighV6
    constructor <;> intro _ <;> omega
  · rintro _ e ⟨v, hv, rfl⟩
    obtain ⟨it, k, ht, hk, rfl⟩ := cfgVals_stored hreg hv
    have := v4_stored (h4 it ht) hk
    obtain ⟨_, _, w, _⟩ := factoryParse_spec hk
    have := Val.first_le_last w
    unfold LowV6; omega
  · rintro _ e ⟨v, hv, rfl⟩
    obtain ⟨it, k, ht, hk, rfl⟩ := cfgVals_stored hreg hv
    have := v4_stored (h4 it ht) hk
    obtain ⟨_, _, w, _⟩ := factoryParse_spec hk
    have := Val.first_le_last w
    unfold HighV6; omega

/-! ### the switches, for arbitrary token lists -/

theorem parseFrom_flags :
    ∀ (toks : List Token) (acl : Acl) (ev : List Event) (acl' : Acl) (ev' : List Event),
      parseFrom toks acl ev = .ok acl' ev' →
      (acl.any4 = true → acl'.any4 = true) ∧ (acl.any6 = true → acl'.any6 = true) ∧
      (Token.all ∈ toks → acl'.any4 = true ∧ acl'.any6 = true) ∧
      (Token.ipv4 ∈ toks → acl'.any4 = true) ∧ (Token.ipv6 ∈ toks → acl'.any6 = true) := by
  intro toks
  induction toks with
  | nil =>
    intro acl ev acl' ev' h
    simp only [parseFrom, Outcome.ok.injEq] at h
    obtain ⟨rfl, _⟩ := h
    simp
  | cons t rest ih =>
    intro acl ev acl' ev' h
    cases t with
    | all =>
      have := ih _ _ _ _ (by simpa [parseFrom] using h)
      simp only [List.mem_cons, true_or, forall_const, reduceCtorEq, false_or] at this ⊢
      exact ⟨fun _ => this.1, fun _ => this.2.1, ⟨this.1, this.2.1⟩, this.2.2.2.1, this.2.2.2.2⟩
    | ipv4 =>
      have := ih _ _ _ _ (by simpa [parseFrom] using h)
      simp only [List.mem_cons, true_or, forall_const, reduceCtorEq, false_or] at this ⊢
      exact ⟨fun _ => this.1, this.2.1, this.2.2.1, this.1, this.2.2.2.2⟩
    | ipv6 =>
      have := ih _ _ _ _ (by simpa [parseFrom] using h)
      simp only [List.mem_cons, true_or, forall_const, reduceCtorEq, false_or] at this ⊢
      exact ⟨this.1, fun _ => this.2.1, this.2.2.1, this.2.2.2.1, this.2.1⟩
    | item it =>
      unfold parseFrom at h
      simp only [List.mem_cons, reduceCtorEq, false_or]
      by_cases hl : isLegacyAll it = true
      · simp only [hl, if_true] at h
        have := ih _ _ _ _ h
        simp only [forall_const] at this
        exact ⟨fun _ => this.1, fun _ => this.2.1, this.2.2.1, this.2.2.2.1, this.2.2.2.2⟩
      · simp only [hl, if_false, Bool.false_eq_true] at h
        cases hf : factoryParse it with
        | none => simp [hf] at h
        | some p =>
          obtain ⟨v, ev1⟩ := p
          simp only [hf] at h
          cases hm : merge acl.tree v (ev ++ ev1) with
          | ok t' ev2 =>
            simp only [hm] at h
            exact ih { acl with tree := t' } _ _ _ h
          | dangling => simp [hm] at h
          | fuel => simp [hm] at h

/-- `all` (or `ipv4` together with `ipv6`) matches every address -/
theorem matchAddr_all {acl : Acl} (h4 : acl.any4 = true) (h6 : acl.any6 = true) (x : Nat) :
    matchAddr acl x = (acl, true) := by
  simp [matchAddr, h4, h6]

/-- `ipv4` matches every IPv4 address -/
theorem matchAddr_ipv4 {acl : Acl} (h4 : acl.any4 = true) {x : Nat} (hx : isIPv4 x = true) :
    (matchAddr acl x).2 = true := by
  unfold matchAddr
  by_cases h6 : acl.any6 = true <;> simp [h4, h6, hx]

/-- `ipv6` matches every address that is not IPv4 -/
theorem matchAddr_ipv6 {acl : Acl} (h6 : acl.any6 = true) {x : Nat} (hx : isIPv4 x = false) :
    (matchAddr acl x).2 = true := by
  unfold matchAddr isIPv6
  by_cases h4 : acl.any4 = true <;> simp [h4, h6, hx]

/-- a lookup never changes the switches nor the sequence of stored values -/
theorem matchAddr_keeps (acl : Acl) (x : Nat) :
    (matchAddr acl x).1.any4 = acl.any4 ∧ (matchAddr acl x).1.any6 = acl.any6 ∧
    (matchAddr acl x).1.tree.inorder = acl.tree.inorder := by
  unfold matchAddr
  split
  · exact ⟨rfl, rfl, rfl⟩
  · split
    · exact ⟨rfl, rfl, rfl⟩
    · split
      · exact ⟨rfl, rfl, rfl⟩
      · exact ⟨rfl, rfl, Tree.inorder_find _ _⟩

theorem matchAll_keeps : ∀ (xs : List Nat) (acl : Acl) (acc : List Bool),
    (matchAll acl xs acc).1.any4 = acl.any4 ∧ (matchAll acl xs acc).1.any6 = acl.any6 ∧
    (matchAll acl xs acc).1.tree.inorder = acl.tree.inorder := by
  intro xs
  induction xs with
  | nil => intro acl acc; simp [matchAll]
  | cons x xs ih =>
    intro acl acc
    unfold matchAll
    have h1 := ih (matchAddr acl x).1 ((matchAddr acl x).2 :: acc)
    have h2 := matchAddr_keeps acl x
    simp only []
    rw [h1.1, h1.2.1, h1.2.2]
    exact h2

/-! ### executable side conditions (for the examples) and permutations -/

/-- executable form of "keyword, legacy spelling of `all`, or regular numeric token" -/
def Token.okB : Token → Bool
  | .item it => isLegacyAll it || it.regularB
  | _ => true

theorem regularList_of_okB {toks : List Token} (h : toks.all Token.okB = true) : RegularList toks := by
  intro it ht
  have := (List.all_eq_true.mp h) _ ht
  simp only [Token.okB, Bool.or_eq_true] at this
  rcases this with h1 | h2
  · exact Or.inl h1
  · exact Or.inr (regular_of_regularB h2)

theorem cfgVals_perm {a b : List Token} (h : a.Perm b) (v : Val) : v ∈ cfgVals a ↔ v ∈ cfgVals b :=
  (h.filterMap Token.val?).mem_iff

theorem unionB_perm {a b : List Token} (h : a.Perm b) (x : Nat) : unionB a x = unionB b x := h.any_eq

theorem regularList_perm {a b : List Token} (h : a.Perm b) (hr : RegularList a) : RegularList b :=
  fun it ht => hr it (h.mem_iff.mpr ht)

theorem tame_perm {a b : List Token} (h : a.Perm b) (ht : Tame (ctxOf a)) : Tame (ctxOf b) := by
  have e : ∀ v, v ∈ cfgVals b ↔ v ∈ cfgVals a := fun v => (cfgVals_perm h v).symm
  have lo : ∀ x, (ctxOf b).Elo x → (ctxOf a).Elo x := by rintro x ⟨v, hv, rfl⟩; exact ⟨v, (e v).mp hv, rfl⟩
  have hi : ∀ x, (ctxOf b).Ehi x → (ctxOf a).Ehi x := by rintro x ⟨v, hv, rfl⟩; exact ⟨v, (e v).mp hv, rfl⟩
  refine ⟨?_, ?_, ?_⟩
  · intro h1
    have := ht.any_hi (hi _ h1)
    exact ⟨fun x hx => this.1 x (lo x hx), fun x hx => this.2 x (hi x hx)⟩
  · intro h1 x hx; exact ht.any_lo (lo _ h1) x (lo x hx)
  · intro h1 x hx; exact ht.no_lo (lo _ h1) x (hi x hx)

theorem probeOK_perm {a b : List Token} (h : a.Perm b) {x : Nat} (hp : ProbeOK (ctxOf a) x) : ProbeOK (ctxOf b) x := by
  have e : ∀ v, v ∈ cfgVals b ↔ v ∈ cfgVals a := fun v => (cfgVals_perm h v).symm
  refine ⟨fun v hv => hp.cfg v ((e v).mp hv), ?_, ?_⟩
  · rintro hx y ⟨v, hv, rfl⟩; exact hp.any hx _ ⟨v, (e v).mp hv, rfl⟩
  · rintro hx y ⟨v, hv, rfl⟩; exact hp.no hx _ ⟨v, (e v).mp hv, rfl⟩

end SquidModel.Acl.Ip
