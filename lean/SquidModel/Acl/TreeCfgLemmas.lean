/-
C44 — what the tree that squid builds from the configuration text means: a rule line is the conjunction of its
(possibly negated) names, an all-of ACL is true when one of its lines has all names true, an any-of ACL when one of
its names is true (model of InnerNode::lineParse, AllOf::parse, AnyOf::parse, aclParseAccessLine in `TreeSys`).
-/
import SquidModel.Acl.TreeRef

namespace SquidModel.Acl.Tree

/-! ### the meaning of the configuration text -/

/-- the value of one name on an ACL line: the value of the named ACL, reversed for `!name` -/
def itemVal (v : Nat → Bool) (gv : List Bool) (it : Item) : Bool :=
  (if it.isGroup then gv.getD it.idx false else v it.idx) != it.neg

def lineAll (v : Nat → Bool) (gv : List Bool) (l : List Item) : Bool := l.all (itemVal v gv)

def lineAny (v : Nat → Bool) (gv : List Bool) (l : List Item) : Bool := l.any (itemVal v gv)

/-- the value of a group ACL given the values `gv` of the groups defined before it -/
def groupVal (v : Nat → Bool) (gv : List Bool) (g : GroupSpec) : Bool :=
  match g.kind with
  | .allOf => g.lines.any (lineAll v gv)
  | .anyOf => g.lines.any (lineAny v gv)

def groupVals (v : Nat → Bool) : List Bool → List GroupSpec → List Bool
  | gv, [] => gv
  | gv, g :: rest => groupVals v (gv ++ [groupVal v gv g]) rest

/-- the nodes of the groups parsed so far evaluate to the values `gv` -/
def GroupsSem (v : Nat → Bool) (groups : List Node) (gv : List Bool) : Prop :=
  groups.length = gv.length ∧ ∀ (k : Nat) (n : Node), groups[k]? = some n → evalB v n = gv.getD k false

/-! ### lines -/

theorem lineParse_sem (v : Nat → Bool) (nleaves : Nat) (groups : List Node) (gv : List Bool)
    (hg : GroupsSem v groups gv) (l : List Item) (ns : List Node) (h : lineParse nleaves groups l = some ns) :
    allB v ns = lineAll v gv l ∧ anyB v ns = lineAny v gv l := by
  induction l generalizing ns with
  | nil =>
    simp only [lineParse, Option.some.injEq] at h
    subst h
    simp [allB, anyB, lineAll, lineAny]
  | cons it rest ih =>
    simp only [lineParse] at h
    cases hf : findByName nleaves groups it with
    | none => simp [hf] at h
    | some a =>
      cases hr : lineParse nleaves groups rest with
      | none => simp [hf, hr] at h
      | some ns' =>
        simp only [hf, hr, Option.some.injEq] at h
        subst h
        obtain ⟨ih1, ih2⟩ := ih ns' hr
        have ha : evalB v a = (if it.isGroup then gv.getD it.idx false else v it.idx) := by
          unfold findByName at hf
          split at hf
          · rename_i hgk
            simp only [hgk, if_true]
            exact hg.2 _ _ hf
          · rename_i hgk
            split at hf
            · simp only [Option.some.injEq] at hf
              subst hf
              simp [hgk, evalB]
            · cases hf
        have hitem : evalB v (if it.neg then Node.not a else a) = itemVal v gv it := by
          unfold itemVal
          rw [← ha]
          cases it.neg <;> simp [evalB]
        simp only [allB, anyB, lineAll, lineAny, List.all_cons, List.any_cons, hitem]
        simp only [lineAll, lineAny] at ih1 ih2
        rw [ih1, ih2]
        exact ⟨rfl, rfl⟩

/-! ### any-of -/

theorem anyB_append (v : Nat → Bool) (xs ys : List Node) : anyB v (xs ++ ys) = (anyB v xs || anyB v ys) := by
  induction xs with
  | nil => simp [anyB]
  | cons x rest ih => simp [anyB, ih, Bool.or_assoc]

theorem parseGroupLines_anyOf (v : Nat → Bool) (nleaves : Nat) (groups : List Node) (gv : List Bool)
    (hg : GroupsSem v groups gv) (cs : List Node) (lines : List (List Item)) (node' : Node)
    (h : parseGroupLines nleaves groups .anyOf (.or cs) lines = some node') :
    evalB v node' = (anyB v cs || lines.any (lineAny v gv)) := by
  induction lines generalizing cs with
  | nil =>
    simp only [parseGroupLines, Option.some.injEq] at h
    subst h
    simp [evalB]
  | cons l rest ih =>
    simp only [parseGroupLines] at h
    cases hl : lineParse nleaves groups l with
    | none => simp [hl] at h
    | some ns =>
      simp only [hl, anyOfParse] at h
      rw [ih _ h, anyB_append, (lineParse_sem v nleaves groups gv hg l ns hl).2]
      simp [Bool.or_assoc]

/-! ### all-of -/

/-- the shapes AllOf::parse produces after the lines `ls` -/
inductive AllOfShape : Node → List (List Node) → Prop where
  | zero : AllOfShape (.allOf []) []
  | one (l : List Node) : AllOfShape (.allOf [.and l]) [l]
  | many (ls : List (List Node)) : 2 ≤ ls.length → AllOfShape (.allOf [.or (ls.map Node.and)]) ls

theorem allOfParse_shape (node : Node) (ls : List (List Node)) (l : List Node) (h : AllOfShape node ls) :
    AllOfShape (allOfParse node l) (ls ++ [l]) := by
  cases h with
  | zero => exact .one l
  | one l0 =>
    have := AllOfShape.many [l0, l] (by simp)
    simpa [allOfParse] using this
  | many ls hlen =>
    have := AllOfShape.many (ls ++ [l]) (by simp; omega)
    simpa [allOfParse] using this

theorem anyB_map_and (v : Nat → Bool) (ls : List (List Node)) : anyB v (ls.map Node.and) = ls.any (allB v) := by
  induction ls with
  | nil => simp [anyB]
  | cons l rest ih => simp [anyB, evalB, ih]

theorem allOfShape_eval (v : Nat → Bool) (node : Node) (ls : List (List Node)) (h : AllOfShape node ls)
    (hne : ls ≠ []) : evalB v node = ls.any (allB v) := by
  cases h with
  | zero => exact absurd rfl hne
  | one l => simp [evalB]
  | many ls _ => simp [evalB, anyB_map_and]

theorem parseGroupLines_allOf (v : Nat → Bool) (nleaves : Nat) (groups : List Node) (gv : List Bool)
    (hg : GroupsSem v groups gv) (node : Node) (ls : List (List Node)) (hs : AllOfShape node ls)
    (lines : List (List Item)) (node' : Node)
    (h : parseGroupLines nleaves groups .allOf node lines = some node') :
    ∃ ls', AllOfShape node' (ls ++ ls') ∧ ls'.length = lines.length ∧
      ls'.any (allB v) = lines.any (lineAll v gv) := by
  induction lines generalizing node ls with
  | nil =>
    simp only [parseGroupLines, Option.some.injEq] at h
    subst h
    exact ⟨[], by simpa using hs, rfl, rfl⟩
  | cons l rest ih =>
    simp only [parseGroupLines] at h
    cases hl : lineParse nleaves groups l with
    | none => simp [hl] at h
    | some ns =>
      simp only [hl] at h
      obtain ⟨ls', h1, h2, h3⟩ := ih _ _ (allOfParse_shape node ls ns hs) h
      refine ⟨ns :: ls', by simpa using h1, by simp [h2], ?_⟩
      simp only [List.any_cons, h3, (lineParse_sem v nleaves groups gv hg l ns hl).1]

/-! ### groups -/

theorem groupsSem_snoc (v : Nat → Bool) (groups : List Node) (gv : List Bool) (hg : GroupsSem v groups gv)
    (n : Node) (b : Bool) (hn : evalB v n = b) : GroupsSem v (groups ++ [n]) (gv ++ [b]) := by
  refine ⟨by simp [hg.1], ?_⟩
  intro k m hk
  by_cases hlt : k < groups.length
  · rw [List.getElem?_append_left hlt] at hk
    rw [List.getD_eq_getElem?_getD, List.getElem?_append_left (by rw [← hg.1]; exact hlt), ← List.getD_eq_getElem?_getD]
    exact hg.2 k m hk
  · have hk' : k = groups.length := by
      rcases List.getElem?_eq_some_iff.mp hk with ⟨hl, _⟩
      simp at hl; omega
    subst hk'
    simp only [List.getElem?_append_right (Nat.le_refl _), Nat.sub_self, List.getElem?_cons_zero,
      Option.some.injEq] at hk
    subst hk
    rw [List.getD_eq_getElem?_getD, hg.1, List.getElem?_append_right (Nat.le_refl _)]
    simpa using hn

/-- parsing the `acl Gk all-of|any-of ...` directives yields nodes whose values are the group values of the
configuration text (every directive has at least one line: that is what an `acl` directive is) -/
theorem parseGroups_sem (v : Nat → Bool) (nleaves : Nat) (groups : List Node) (gv : List Bool)
    (hg : GroupsSem v groups gv) (gs : List GroupSpec) (hne : ∀ g ∈ gs, g.lines ≠ []) (groups' : List Node)
    (h : parseGroups nleaves groups gs = some groups') : GroupsSem v groups' (groupVals v gv gs) := by
  induction gs generalizing groups gv with
  | nil =>
    simp only [parseGroups, Option.some.injEq] at h
    subst h
    exact hg
  | cons g rest ih =>
    simp only [parseGroups] at h
    cases hk : g.kind with
    | allOf =>
      simp only [hk] at h
      cases hp : parseGroupLines nleaves groups .allOf (.allOf []) g.lines with
      | none => simp [hp] at h
      | some node =>
        simp only [hp] at h
        obtain ⟨ls', h1, h2, h3⟩ := parseGroupLines_allOf v nleaves groups gv hg _ _ .zero g.lines node hp
        have hls : ls' ≠ [] := by
          intro he
          have : g.lines.length = 0 := by rw [← h2, he]; rfl
          exact hne g (by simp) (List.length_eq_zero_iff.mp this)
        have hev : evalB v node = groupVal v gv g := by
          rw [allOfShape_eval v node ls' (by simpa using h1) hls, h3]
          simp [groupVal, hk]
        exact ih _ _ (groupsSem_snoc v groups gv hg node _ hev) (fun g' hg' => hne g' (by simp [hg'])) h
    | anyOf =>
      simp only [hk] at h
      cases hp : parseGroupLines nleaves groups .anyOf (.or []) g.lines with
      | none => simp [hp] at h
      | some node =>
        simp only [hp] at h
        have hev : evalB v node = groupVal v gv g := by
          rw [parseGroupLines_anyOf v nleaves groups gv hg [] g.lines node hp]
          simp [groupVal, hk, anyB]
        exact ih _ _ (groupsSem_snoc v groups gv hg node _ hev) (fun g' hg' => hne g' (by simp [hg'])) h

/-! ### rules -/

/-- the rules that make it into the Acl::Tree: aclParseAccessLine skips a rule without ACLs -/
def keptRules (viaAccessLine : Bool) (rs : List (Answer × List Item)) : List (Answer × List Item) :=
  rs.filter (fun r => !(viaAccessLine && r.2.isEmpty))

/-- rule by rule, the tree has the action of the configuration line and a node that is true exactly when all the
(possibly negated) names on the line are -/
inductive RulesMatch (v : Nat → Bool) (gv : List Bool) : Rules → List (Answer × List Item) → Prop where
  | nil : RulesMatch v gv [] []
  | cons {t : Answer × Node} {r : Answer × List Item} {ts : Rules} {rs : List (Answer × List Item)} :
      t.1 = r.1 → evalB v t.2 = lineAll v gv r.2 → RulesMatch v gv ts rs → RulesMatch v gv (t :: ts) (r :: rs)

theorem parseRules_sem (v : Nat → Bool) (nleaves : Nat) (groups : List Node) (gv : List Bool)
    (hg : GroupsSem v groups gv) (via : Bool) (rs : List (Answer × List Item)) (tree : Rules)
    (h : parseRules nleaves groups via rs = some tree) :
    RulesMatch v gv tree (keptRules via rs) := by
  induction rs generalizing tree with
  | nil =>
    simp only [parseRules, Option.some.injEq] at h
    subst h
    exact .nil
  | cons r rest ih =>
    obtain ⟨a, l⟩ := r
    simp only [parseRules] at h
    cases hl : lineParse nleaves groups l with
    | none => simp [hl] at h
    | some ns =>
      cases hr : parseRules nleaves groups via rest with
      | none => simp [hl, hr] at h
      | some rs' =>
        simp only [hl, hr, Option.some.injEq] at h
        have hlen : ns.isEmpty = l.isEmpty := by
          cases l with
          | nil => simp only [lineParse, Option.some.injEq] at hl; subst hl; rfl
          | cons it rest' =>
            simp only [lineParse] at hl
            cases hf : findByName nleaves groups it with
            | none => simp [hf] at hl
            | some a' =>
              cases hr' : lineParse nleaves groups rest' with
              | none => simp [hf, hr'] at hl
              | some ns' => simp only [hf, hr', Option.some.injEq] at hl; subst hl; rfl
        by_cases hskip : (via && ns.isEmpty) = true
        · simp only [hskip, if_true] at h
          subst h
          have hc : (via && l.isEmpty) = true := by rw [← hlen]; exact hskip
          have : keptRules via ((a, l) :: rest) = keptRules via rest := by
            simp only [keptRules, List.filter_cons, hc, Bool.not_true, Bool.false_eq_true, if_false]
          rw [this]
          exact ih rs' hr
        · simp only [hskip, Bool.false_eq_true, if_false] at h
          subst h
          have : keptRules via ((a, l) :: rest) = (a, l) :: keptRules via rest := by
            have hs : (via && l.isEmpty) = false := by rw [← hlen]; simpa using hskip
            simp only [keptRules, List.filter_cons, hs, Bool.not_false, if_true]
          rw [this]
          refine .cons rfl ?_ (ih rs' hr)
          simp only [evalB]
          exact (lineParse_sem v nleaves groups gv hg l ns hl).1

end SquidModel.Acl.Tree
