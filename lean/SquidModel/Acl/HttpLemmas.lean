/-
C45 — lemmas about the http_access decision model: the declarative reading of every piece.

* a parsed IPv4 value matches exactly the addresses of the interval `[first, last]` squid itself computes for it
  (`acl_ip_data::firstAddress()/lastAddress()`), given the shape invariants the parser establishes;
* a domain value list matches by C41's `Matches`; a port list by C43's `Range.has`;
* the rule list answers with the action of the first rule all of whose literals hold, else with the reverse of the
  last action;
* the parser invariants: every stored IPv4 value is well-formed, every stored domain value is non-empty, every ACL name
  used by a rule is defined, names are unique.
-/
import SquidModel.Acl.HttpEval
import SquidModel.Acl.DomainSets
import SquidModel.Acl.IntRangeLemmas

namespace SquidModel.Acl.Http
open SquidModel.Acl

/-! ### IPv4 values -/

/-- `acl_ip_data::lastAddress()`: the second address (or the first one) with the masked bits turned on -/
def IpItem.last (q : IpItem) : Nat := (if q.addr2 = 0 then q.addr1 else q.addr2) + 2 ^ q.maskK - 1

/-- the addresses a parsed value stands for: `firstAddress() ≤ ip ≤ lastAddress()` -/
def IpItem.Covers (q : IpItem) (ip : Nat) : Prop := q.v6 = false ∧ q.addr1 ≤ ip ∧ ip ≤ q.last

/-- what FactoryParse guarantees about a stored IPv4 value: both addresses were masked, a range is ascending -/
def IpItem.WF (q : IpItem) : Prop :=
  q.v6 = true ∨ (clearLow q.maskK q.addr1 = q.addr1 ∧ clearLow q.maskK q.addr2 = q.addr2 ∧ (q.addr2 = 0 ∨ q.addr1 ≤ q.addr2))

theorem clearLow_idem (k x : Nat) : clearLow k (clearLow k x) = clearLow k x := by
  unfold clearLow
  rw [Nat.mul_div_cancel _ (Nat.two_pow_pos k)]

theorem clearLow_le (k x : Nat) : clearLow k x ≤ x := Nat.div_mul_le_self x (2 ^ k)

theorem clearLow_mono (k : Nat) {x y : Nat} (h : x ≤ y) : clearLow k x ≤ clearLow k y := by
  unfold clearLow
  exact Nat.mul_le_mul_right _ (Nat.div_le_div_right h)

/-- for an aligned `a`: `clearLow k ip = a ↔ a ≤ ip < a + 2^k` -/
theorem clearLow_eq_iff (k ip a : Nat) (ha : clearLow k a = a) : clearLow k ip = a ↔ a ≤ ip ∧ ip < a + 2 ^ k := by
  unfold clearLow at *
  have hp : 0 < 2 ^ k := Nat.two_pow_pos k
  generalize 2 ^ k = p at *
  have h1 := Nat.div_add_mod ip p
  have h2 := Nat.mod_lt ip hp
  have h3 := Nat.div_add_mod a p
  have h4 := Nat.mod_lt a hp
  constructor
  · intro h
    rw [Nat.mul_comm] at h
    omega
  · rintro ⟨hle, hlt⟩
    have ha' : a = a / p * p := ha.symm
    have hq : ip / p = a / p := by
      apply Nat.le_antisymm
      · apply Nat.lt_succ_iff.mp
        rw [Nat.div_lt_iff_lt_mul hp]
        calc ip < a + p := hlt
          _ = a / p * p + p := by rw [← ha']
          _ = (a / p + 1) * p := by rw [Nat.add_mul, Nat.one_mul]
      · exact Nat.div_le_div_right hle
    rw [hq]; exact ha

/-- for an aligned `a`: `a ≤ clearLow k ip ↔ a ≤ ip` -/
theorem le_clearLow_iff (k ip a : Nat) (ha : clearLow k a = a) : a ≤ clearLow k ip ↔ a ≤ ip := by
  constructor
  · intro h; exact Nat.le_trans h (clearLow_le k ip)
  · intro h
    have := clearLow_mono k h
    rwa [ha] at this

/-- for an aligned `b`: `clearLow k ip ≤ b ↔ ip < b + 2^k` -/
theorem clearLow_le_iff (k ip b : Nat) (hb : clearLow k b = b) : clearLow k ip ≤ b ↔ ip < b + 2 ^ k := by
  unfold clearLow at *
  have hp : 0 < 2 ^ k := Nat.two_pow_pos k
  generalize 2 ^ k = p at *
  have hb' : b = b / p * p := hb.symm
  constructor
  · intro h
    have h1 : ip / p ≤ b / p := by
      rw [hb'] at h
      exact Nat.le_of_mul_le_mul_right h hp
    have : ip < (b / p + 1) * p := by
      rw [← Nat.div_lt_iff_lt_mul hp]; omega
    rw [Nat.add_mul, Nat.one_mul, ← hb'] at this
    exact this
  · intro h
    have : ip < (b / p + 1) * p := by
      rw [Nat.add_mul, Nat.one_mul, ← hb']; exact h
    rw [← Nat.div_lt_iff_lt_mul hp] at this
    have h1 : ip / p ≤ b / p := by omega
    calc ip / p * p ≤ b / p * p := Nat.mul_le_mul_right _ h1
      _ = b := hb

/-- **one value**: `aclIpAddrNetworkCompare(ip, q) == 0` exactly for the addresses between `firstAddress()` and
`lastAddress()` of the value -/
theorem itemMatches_iff (q : IpItem) (ip : Nat) (hq : q.WF) : itemMatches ip q = true ↔ q.Covers ip := by
  unfold itemMatches IpItem.Covers IpItem.last
  rcases hq with hv6 | ⟨h1, h2, h3⟩
  · simp [hv6]
  · by_cases hv : q.v6 = true
    · simp [hv]
    · have hv' : q.v6 = false := by simpa using hv
      simp only [hv', Bool.false_eq_true, ↓reduceIte, true_and]
      have hp : 0 < 2 ^ q.maskK := Nat.two_pow_pos _
      by_cases h0 : q.addr2 = 0
      · simp only [h0, ↓reduceIte, beq_iff_eq]
        rw [clearLow_eq_iff _ _ _ h1]
        omega
      · simp only [h0, ↓reduceIte, Bool.or_eq_true, Bool.and_eq_true, decide_eq_true_eq, beq_iff_eq, ge_iff_le]
        have hle : q.addr1 ≤ q.addr2 := by rcases h3 with h3 | h3; exact absurd h3 h0; exact h3
        rw [le_clearLow_iff _ _ _ h1, clearLow_le_iff _ _ _ h2, clearLow_eq_iff _ _ _ h1]
        omega

/-- **an ACLIP object**: 'all'/'ipv4', or some value covers the address -/
theorem ipAclMatch_iff (a : IpAcl) (ip : Nat) (hw : ∀ q ∈ a.items, q.WF) :
    ipAclMatch a ip = true ↔ a.any4 = true ∨ ∃ q ∈ a.items, q.Covers ip := by
  unfold ipAclMatch
  by_cases h4 : a.any4 = true
  · simp [h4]
  · simp only [h4, Bool.false_eq_true, ↓reduceIte, List.any_eq_true, false_or]
    constructor
    · rintro ⟨q, hq, hm⟩; exact ⟨q, hq, (itemMatches_iff q ip (hw q hq)).mp hm⟩
    · rintro ⟨q, hq, hm⟩; exact ⟨q, hq, (itemMatches_iff q ip (hw q hq)).mpr hm⟩

/-! ### domain values -/

/-- `ACLDomainData::match(host)` by the string-level relation of C41 -/
theorem domainsMatch_iff (values : List Bytes) (host : Bytes) (hne : ∀ v ∈ values, v ≠ []) :
    domainsMatch values host = true ↔ ∃ v ∈ values, Domain.Matches v host := by
  unfold domainsMatch
  simp only [List.any_eq_true, beq_iff_eq]
  constructor
  · rintro ⟨v, hv, h0⟩
    exact ⟨v, hv, (Domain.in_iff_matches v host (hne v hv)).mp ((Domain.mdn_zero_iff host v (hne v hv)).mp h0)⟩
  · rintro ⟨v, hv, hm⟩
    exact ⟨v, hv, (Domain.mdn_zero_iff host v (hne v hv)).mpr ((Domain.in_iff_matches v host (hne v hv)).mpr hm)⟩

/-! ### the rule list -/

theorem firstMatch_none_iff (acls : List Acl) (r : Req) (rules : List Rule) :
    firstMatch acls r rules = none ↔ ∀ q ∈ rules, ruleMatch acls r q = false := by
  induction rules with
  | nil => simp [firstMatch]
  | cons q rest ih =>
    unfold firstMatch
    by_cases h : ruleMatch acls r q = true
    · simp [h]
    · have h' : ruleMatch acls r q = false := by simpa using h
      simp [h', ih]

theorem firstMatch_some_iff (acls : List Acl) (r : Req) (rules : List Rule) (a : Bool) :
    firstMatch acls r rules = some a ↔
      ∃ pre q post, rules = pre ++ q :: post ∧ (∀ p ∈ pre, ruleMatch acls r p = false) ∧
        ruleMatch acls r q = true ∧ q.allow = a := by
  induction rules with
  | nil => simp [firstMatch]
  | cons q rest ih =>
    unfold firstMatch
    by_cases h : ruleMatch acls r q = true
    · simp only [h, ↓reduceIte, Option.some.injEq]
      constructor
      · intro ha; exact ⟨[], q, rest, rfl, by simp, h, ha⟩
      · rintro ⟨pre, q', post, heq, hpre, hq', ha⟩
        cases pre with
        | nil => simp at heq; rw [← heq.1] at ha; exact ha
        | cons p pre' =>
          simp at heq
          have := hpre p (by simp)
          rw [← heq.1] at this
          rw [this] at h; cases h
    · have h' : ruleMatch acls r q = false := by simpa using h
      simp only [h', Bool.false_eq_true, ↓reduceIte]
      rw [ih]
      constructor
      · rintro ⟨pre, q', post, heq, hpre, hq', ha⟩
        refine ⟨q :: pre, q', post, by simp [heq], ?_, hq', ha⟩
        intro p hp
        rcases List.mem_cons.mp hp with rfl | hp
        · exact h'
        · exact hpre p hp
      · rintro ⟨pre, q', post, heq, hpre, hq', ha⟩
        cases pre with
        | nil => simp at heq; rw [← heq.1] at hq'; rw [hq'] at h'; cases h'
        | cons p pre' =>
          simp at heq
          exact ⟨pre', q', post, heq.2, fun p' hp' => hpre p' (by simp [hp']), hq', ha⟩

/-! ### parser invariants -/

/-- every ACL the configuration stores is well-formed -/
def Acl.WF (a : Acl) : Prop := (∀ q ∈ a.ip.items, q.WF) ∧ (∀ v ∈ a.domains, v ≠ [])

theorem buildItem_wf (a : Bytes) (b : Option Bytes) (m : Bytes) (i : IpItem) (h : buildItem a b m = .item i) : i.WF := by
  unfold buildItem at h
  cases hq : quad? a with
  | none => simp [hq] at h
  | some qa =>
    cases qa with
    | tooBig => simp [hq] at h
    | val a1 =>
      simp only [hq] at h
      cases hs : secondAddr b with
      | none => simp [hs] at h
      | some s2 =>
        cases s2 with
        | none => simp [hs] at h
        | some a2 =>
          simp only [hs] at h
          cases hm : decodeMask m with
          | none => simp [hm] at h
          | some mk =>
            cases mk with
            | none => simp [hm] at h
            | some k =>
              simp only [hm] at h
              split at h
              · cases h
              · rename_i hc1
                split at h
                · cases h
                · injection h with h
                  subst h
                  right
                  refine ⟨clearLow_idem _ _, clearLow_idem _ _, ?_⟩
                  simp only
                  cases b with
                  | none =>
                    simp [secondAddr] at hs
                    left; subst hs; simp [clearLow]
                  | some bb =>
                    simp only [Option.isSome_some, true_and, not_or, Nat.not_lt] at hc1
                    right; exact clearLow_mono k hc1.1

theorem parseIpToken_wf (v6 : List Bytes) (t : Bytes) (i : IpItem) (h : parseIpToken v6 t = .item i) : i.WF := by
  unfold parseIpToken at h
  split at h
  · injection h with h; subst h; left; rfl
  · split at h
    · cases h
    · simp only at h
      split at h
      · split at h
        · cases h
        · exact buildItem_wf _ _ _ _ h
      · split at h
        · split at h
          · cases h
          · exact buildItem_wf _ _ _ _ h
        · split at h
          · exact buildItem_wf _ _ _ _ h
          · cases h

theorem parseIpTokens_wf (v6 : List Bytes) (ts : List Bytes) (a a' : IpAcl) (hw : ∀ q ∈ a.items, q.WF)
    (h : parseIpTokens v6 ts a = .ok a') : ∀ q ∈ a'.items, q.WF := by
  induction ts generalizing a with
  | nil => unfold parseIpTokens at h; injection h with h; subst h; exact hw
  | cons t ts ih =>
    unfold parseIpTokens at h
    split at h
    · refine ih _ ?_ h; exact fun q hq => hw q hq
    · refine ih _ ?_ h; exact fun q hq => hw q hq
    · refine ih _ ?_ h; exact fun q hq => hw q hq
    · split at h
      · rename_i i hi
        refine ih _ ?_ h
        intro q hq
        simp only [List.mem_append, List.mem_singleton] at hq
        rcases hq with hq | rfl
        · exact hw q hq
        · exact parseIpToken_wf _ _ _ hi
      · cases h
      · cases h

/-! ### tokens are never empty -/

theorem wsSplit_nonempty : ∀ (s cur : Bytes), ∀ t ∈ wsSplit s cur, t ≠ []
  | [], cur => by
    intro t ht
    unfold wsSplit at ht
    split at ht
    · simp at ht
    · rename_i hne
      simp only [List.mem_singleton] at ht
      subst ht
      intro h
      apply hne
      have : cur = [] := by simpa using h
      simp [this]
  | c :: r, cur => by
    intro t ht
    unfold wsSplit at ht
    split at ht
    · split at ht
      · exact wsSplit_nonempty r [] t ht
      · rename_i hne
        rcases List.mem_cons.mp ht with rfl | ht
        · intro h
          apply hne
          have : cur = [] := by simpa using h
          simp [this]
        · exact wsSplit_nonempty r [] t ht
    · exact wsSplit_nonempty r (c :: cur) t ht

theorem dropComment_sub : ∀ (l : List Bytes), ∀ t ∈ dropComment l, t ∈ l
  | [] => by simp [dropComment]
  | x :: xs => by
    intro t ht
    unfold dropComment at ht
    split at ht
    · simp at ht
    · rcases List.mem_cons.mp ht with rfl | ht
      · simp
      · exact List.mem_cons_of_mem _ (dropComment_sub xs t ht)

theorem tokens_nonempty (line : Bytes) : ∀ t ∈ tokens line, t ≠ [] := fun t ht =>
  wsSplit_nonempty line [] t (dropComment_sub _ t ht)

theorem parseFlags_sub (ty : AclType) : ∀ (l : List Bytes) (ban ban' : Bool) (vals : List Bytes),
    parseFlags ty l ban = some (ban', vals) → ∀ t ∈ vals, t ∈ l
  | [], ban, ban', vals => by
    intro h; unfold parseFlags at h; injection h with h; injection h with _ h2; subst h2; simp
  | x :: xs, ban, ban', vals => by
    intro h t ht
    unfold parseFlags at h
    split at h
    · split at h
      · injection h with h; injection h with _ h2; subst h2
        exact List.mem_cons_of_mem _ ht
      · split at h
        · exact List.mem_cons_of_mem _ (parseFlags_sub ty xs true ban' vals h t ht)
        · cases h
    · injection h with h; injection h with _ h2; subst h2; exact ht

/-! ### the configuration invariant -/

/-- every stored ACL is well-formed and every name a rule uses is defined -/
def Conf.WF (c : Conf) : Prop :=
  (∀ a ∈ c.acls, a.WF) ∧ (∀ rule ∈ c.rules, ∀ l ∈ rule.lits, (findAcl c.acls l.2).isSome = true)

theorem fold_ne_nil {v : Bytes} (h : v ≠ []) : Domain.fold v ≠ [] := by
  unfold Domain.fold
  intro h'
  apply h
  simpa using h'

theorem parseValues_wf (a a' : Acl) (vals : List Bytes) (hw : a.WF) (hv : ∀ t ∈ vals, t ≠ [])
    (h : parseValues a vals = .ok a') : a'.WF ∧ a'.name = a.name := by
  unfold parseValues at h
  split at h
  · -- src
    split at h <;> try cases h
    rename_i ip hip
    exact ⟨⟨parseIpTokens_wf _ _ _ _ hw.1 hip, hw.2⟩, rfl⟩
  · -- dst
    split at h <;> try cases h
    rename_i ip hip
    exact ⟨⟨parseIpTokens_wf _ _ _ _ hw.1 hip, hw.2⟩, rfl⟩
  · split at h
    · cases h
    · cases h
      refine ⟨⟨hw.1, ?_⟩, rfl⟩
      intro v hv'
      simp only [List.mem_append, List.mem_map] at hv'
      rcases hv' with hv' | ⟨t, ht, rfl⟩
      · exact hw.2 v hv'
      · exact fold_ne_nil (hv t ht)
  · split at h
    · cases h
      exact ⟨⟨hw.1, hw.2⟩, rfl⟩
    · cases h
  · split at h
    · cases h
    · cases h
      exact ⟨⟨hw.1, hw.2⟩, rfl⟩
  · cases h

theorem findAcl_isSome_iff (acls : List Acl) (n : Bytes) : (findAcl acls n).isSome = true ↔ n ∈ acls.map (·.name) := by
  unfold findAcl
  rw [List.find?_isSome]
  simp only [List.mem_map, beq_iff_eq]

theorem findAcl_mem {acls : List Acl} {n : Bytes} {a : Acl} (h : findAcl acls n = some a) : a ∈ acls ∧ a.name = n := by
  unfold findAcl at h
  exact ⟨List.mem_of_find?_eq_some h, by simpa using List.find?_some h⟩

theorem replaceAcl_names (acls : List Acl) (a : Acl) : (replaceAcl acls a).map (·.name) = acls.map (·.name) := by
  unfold replaceAcl
  rw [List.map_map]
  apply List.map_congr_left
  intro x _
  simp only [Function.comp]
  split
  · rename_i h; exact (by simpa using h : x.name = a.name).symm
  · rfl

theorem replaceAcl_mem {acls : List Acl} {a x : Acl} (h : x ∈ replaceAcl acls a) : x = a ∨ x ∈ acls := by
  unfold replaceAcl at h
  simp only [List.mem_map] at h
  obtain ⟨y, hy, rfl⟩ := h
  split
  · left; rfl
  · right; exact hy

theorem parseAclNamed_wf (c c' : Conf) (name ty : Bytes) (rest : List Bytes) (hw : c.WF) (hrest : ∀ t ∈ rest, t ≠ [])
    (h : parseAclNamed c name ty rest = .ok c') : c'.WF := by
  unfold parseAclNamed at h
  split at h
  · -- a new name
    split at h
    · cases h
    rename_i t _
    split at h
    · cases h
    rename_i ban vals hf
    split at h
    rotate_left
    · cases h
    · cases h
    rename_i a hpv
    cases h
    have hv : ∀ t ∈ vals, t ≠ [] := fun t h' => hrest t (parseFlags_sub _ _ _ _ _ hf t h')
    have hnew : ({ name := name, type := t, noLookup := ban } : Acl).WF := ⟨by simp, by simp⟩
    have ⟨haw, _⟩ := parseValues_wf _ _ _ hnew hv hpv
    refine ⟨?_, ?_⟩
    · intro x hx
      simp only [List.mem_append, List.mem_singleton] at hx
      rcases hx with hx | rfl
      · exact hw.1 x hx
      · exact haw
    · intro rule hr l hl
      have := hw.2 rule hr l hl
      rw [findAcl_isSome_iff] at this ⊢
      simp only [List.map_append, List.mem_append]
      left; exact this
  · -- an existing name: values are appended
    rename_i a hfind
    split at h
    · cases h
    rename_i t _
    split at h
    · cases h
    · split at h
      · cases h
      rename_i ban vals hf
      split at h
      rotate_left
      · cases h
      · cases h
      rename_i a' hpv
      cases h
      have hv : ∀ t ∈ vals, t ≠ [] := fun t h' => hrest t (parseFlags_sub _ _ _ _ _ hf t h')
      have hold : a.WF := hw.1 a (findAcl_mem hfind).1
      have hold' : ({ a with noLookup := ban } : Acl).WF := hold
      have ⟨haw, _⟩ := parseValues_wf _ _ _ hold' hv hpv
      refine ⟨?_, ?_⟩
      · intro x hx
        rcases replaceAcl_mem hx with rfl | hx
        · exact haw
        · exact hw.1 x hx
      · intro rule hr l hl
        have := hw.2 rule hr l hl
        rw [findAcl_isSome_iff] at this ⊢
        simp only
        rw [replaceAcl_names]; exact this

theorem parseAclLine_wf (c c' : Conf) (toks : List Bytes) (hw : c.WF) (ht : ∀ t ∈ toks, t ≠ [])
    (h : parseAclLine c toks = .ok c') : c'.WF := by
  unfold parseAclLine at h
  split at h
  · cases h
  · cases h
  rename_i name ty rest
  exact parseAclNamed_wf _ _ _ _ _ hw (fun t h' => ht t (by simp [h'])) h

theorem lineParse_defined (acls : List Acl) : ∀ (ts : List Bytes) (lits : List (Bool × Bytes)),
    lineParse acls ts = .ok lits → ∀ l ∈ lits, (findAcl acls l.2).isSome = true
  | [], lits => by
    intro h; unfold lineParse at h; injection h with h; subst h; simp
  | t :: ts, lits => by
    intro h l hl
    unfold lineParse at h
    split at h
    · cases h
    · rename_i a hfa
      split at h
      · cases h
      · split at h
        rotate_left
        · cases h
        · cases h
        rename_i rest hrest
        cases h
        rcases List.mem_cons.mp hl with rfl | hl
        · simp [hfa]
        · exact lineParse_defined acls ts rest hrest l hl

theorem parseAccessLine_wf (c c' : Conf) (toks : List Bytes) (hw : c.WF) (h : parseAccessLine c toks = .ok c') : c'.WF := by
  unfold parseAccessLine at h
  split at h
  · injection h with h; subst h; exact hw
  · split at h
    · injection h with h; subst h; exact hw
    · split at h
      · cases h
      · cases h
      · cases h; exact hw
      · rename_i lits _ hlp
        cases h
        refine ⟨hw.1, ?_⟩
        intro rule hr l hl
        simp only [List.mem_append, List.mem_singleton] at hr
        rcases hr with hr | rfl
        · exact hw.2 rule hr l hl
        · exact lineParse_defined _ _ _ hlp l hl

theorem parseLine_wf (c c' : Conf) (line : Bytes) (hw : c.WF) (h : parseLine c line = .ok c') : c'.WF := by
  unfold parseLine at h
  split at h
  · injection h with h; subst h; exact hw
  · rename_i d rest htok
    have hne : ∀ t ∈ rest, t ≠ [] := fun t ht => tokens_nonempty line t (by rw [htok]; simp [ht])
    split at h
    · exact parseAclLine_wf _ _ _ hw hne h
    · split at h
      · exact parseAccessLine_wf _ _ _ hw h
      · cases h

theorem parseLines_wf : ∀ (ls : List Bytes) (c c' : Conf), c.WF → parseLines c ls = .ok c' → c'.WF
  | [], c, c' => by
    intro hw h; unfold parseLines at h; injection h with h; subst h; exact hw
  | l :: ls, c, c' => by
    intro hw h
    unfold parseLines at h
    split at h <;> try cases h
    rename_i c1 h1
    exact parseLines_wf ls c1 c' (parseLine_wf _ _ _ hw h1) h

theorem builtinLine_wf (c : Conf) (line : Bytes) (hw : c.WF) : (builtinLine c line).WF := by
  unfold builtinLine
  split
  · rename_i c' h; exact parseLine_wf _ _ _ hw h
  · split
    · refine ⟨?_, ?_⟩
      · intro x hx
        simp only [List.mem_append, List.mem_singleton] at hx
        rcases hx with hx | rfl
        · exact hw.1 x hx
        · exact ⟨by simp, by simp⟩
      · intro rule hr l hl
        have := hw.2 rule hr l hl
        rw [findAcl_isSome_iff] at this ⊢
        simp only [List.map_append, List.mem_append]
        left; exact this
    · exact hw

theorem foldl_builtin_wf : ∀ (ls : List Bytes) (c : Conf), c.WF → (ls.foldl builtinLine c).WF
  | [], _, hw => hw
  | l :: ls, c, hw => foldl_builtin_wf ls _ (builtinLine_wf c l hw)

theorem builtins_wf : builtins.WF := foldl_builtin_wf _ _ ⟨by simp, by simp⟩

/-- **every configuration the parser accepts satisfies the invariant** -/
theorem parseConf_wf (lines : List Bytes) (c : Conf) (h : parseConf lines = .ok c) : c.WF := by
  unfold parseConf at h
  split at h
  · rename_i c1 h1
    have hw1 := parseLines_wf _ _ _ builtins_wf h1
    split at h
    · exact parseLines_wf _ _ _ hw1 h
    · injection h with h; subst h; exact hw1
  · rename_i r hr
    rw [h] at hr
    exact absurd rfl (hr c)

/-! ### the reference evaluation -/

/-- the set of IPv4 addresses an ACLIP object stands for -/
def IpAcl.Has (a : IpAcl) (ip : Nat) : Prop := a.any4 = true ∨ ∃ q ∈ a.items, q.Covers ip

/-- **what a named ACL says about a request**, stated with sets only: address intervals, C41's `Matches`, C43's
`Range.has`, method equality.  `dst` looks at every address of the URL host; `dstdomain` also accepts the PTR name of a
numeric host (or the word `none` when it has none); `-n` forbids the lookups. -/
def AclHolds (a : Acl) (r : Req) : Prop :=
  match a.type with
  | .src => a.ip.Has r.src
  | .dst => (a.noLookup = true → r.numeric = true) ∧ ∃ ip ∈ r.ips, a.ip.Has ip
  | .dstdomain =>
    (∃ v ∈ a.domains, Domain.Matches v r.host) ∨
    (a.noLookup = false ∧ r.numeric = true ∧ ∃ v ∈ a.domains, Domain.Matches v (r.rdns.getD (bytes! "none")))
  | .port => ∃ rg ∈ a.ports, rg.has (r.port : Int)
  | .method => ∃ m ∈ a.methods, m.same (requestMethod r.method) = true
  | .other => False

/-- a literal `[!]name` of a rule holds -/
def LitHolds (acls : List Acl) (r : Req) (l : Bool × Bytes) : Prop :=
  ∃ a, findAcl acls l.2 = some a ∧ (if l.1 then ¬ AclHolds a r else AclHolds a r)

/-- a rule applies: all its literals hold -/
def RuleApplies (acls : List Acl) (r : Req) (rule : Rule) : Prop := ∀ l ∈ rule.lits, LitHolds acls r l

/-- **the reference first-match evaluation**: the first applicable rule says `allow`, or no rule applies and the last
rule says `deny` -/
def RefAllows (c : Conf) (r : Req) : Prop :=
  (∃ pre rule post, c.rules = pre ++ rule :: post ∧ (∀ p ∈ pre, ¬ RuleApplies c.acls r p) ∧
      RuleApplies c.acls r rule ∧ rule.allow = true) ∨
  ((∀ p ∈ c.rules, ¬ RuleApplies c.acls r p) ∧ ∃ last, c.rules.getLast? = some last ∧ last.allow = false)

theorem aclMatch_iff (a : Acl) (r : Req) (hw : a.WF) : aclMatch a r = true ↔ AclHolds a r := by
  unfold aclMatch AclHolds
  cases hty : a.type <;> simp only []
  · exact ipAclMatch_iff _ _ hw.1
  · -- dst
    unfold dstIpMatch IpAcl.Has
    by_cases hn : a.noLookup = true
    · simp only [hn, ↓reduceIte, true_implies]
      by_cases hnum : r.numeric = true
      · simp only [hnum, Bool.not_true, Bool.false_eq_true, ↓reduceIte, List.any_eq_true, true_and]
        constructor
        · rintro ⟨ip, hip, hm⟩; exact ⟨ip, hip, (ipAclMatch_iff _ _ hw.1).mp hm⟩
        · rintro ⟨ip, hip, hm⟩; exact ⟨ip, hip, (ipAclMatch_iff _ _ hw.1).mpr hm⟩
      · simp [hnum]
    · simp only [hn, Bool.false_eq_true, ↓reduceIte, List.any_eq_true, false_implies, true_and]
      constructor
      · rintro ⟨ip, hip, hm⟩; exact ⟨ip, hip, (ipAclMatch_iff _ _ hw.1).mp hm⟩
      · rintro ⟨ip, hip, hm⟩; exact ⟨ip, hip, (ipAclMatch_iff _ _ hw.1).mpr hm⟩
  · -- dstdomain
    unfold dstDomainMatch
    by_cases h1 : domainsMatch a.domains r.host = true
    · simp only [h1, ↓reduceIte, true_iff]
      left; exact (domainsMatch_iff _ _ hw.2).mp h1
    · have h1' : ¬ ∃ v ∈ a.domains, Domain.Matches v r.host := fun h => h1 ((domainsMatch_iff _ _ hw.2).mpr h)
      simp only [h1, Bool.false_eq_true, ↓reduceIte]
      by_cases hn : a.noLookup = true
      · simp only [hn, ↓reduceIte, Bool.false_eq_true, false_iff]
        rintro (h | ⟨h, _⟩)
        · exact h1' h
        · cases h
      · have hn' : a.noLookup = false := by simpa using hn
        simp only [hn', Bool.false_eq_true, ↓reduceIte, true_and]
        by_cases hnum : r.numeric = true
        · simp only [hnum, Bool.not_true, Bool.false_eq_true, ↓reduceIte, true_and]
          cases hr : r.rdns with
          | none =>
            simp only [Option.getD_none]
            rw [domainsMatch_iff _ _ hw.2]
            constructor
            · intro h; right; exact h
            · rintro (h | h); exact absurd h h1'; exact h
          | some name =>
            simp only [Option.getD_some]
            rw [domainsMatch_iff _ _ hw.2]
            constructor
            · intro h; right; exact h
            · rintro (h | h); exact absurd h h1'; exact h
        · simp only [hnum, Bool.not_false, ↓reduceIte, Bool.false_eq_true, false_and, or_false, false_iff]
          exact h1'
  · exact IntRange.matchInt_spec _ _
  · simp only [List.any_eq_true]
  · simp

theorem litMatch_iff (c : Conf) (hw : c.WF) (r : Req) (l : Bool × Bytes) (hd : (findAcl c.acls l.2).isSome = true) :
    litMatch c.acls r l = true ↔ LitHolds c.acls r l := by
  unfold litMatch LitHolds
  cases hf : findAcl c.acls l.2 with
  | none => rw [hf] at hd; cases hd
  | some a =>
    have haw : a.WF := hw.1 a (findAcl_mem hf).1
    simp only [Option.some.injEq, exists_eq_left']
    by_cases hn : l.1 = true
    · simp only [hn, ↓reduceIte, Bool.not_eq_true', ← aclMatch_iff a r haw]
      cases aclMatch a r <;> simp
    · simp only [hn, Bool.false_eq_true, ↓reduceIte, aclMatch_iff a r haw]

theorem ruleMatch_iff (c : Conf) (hw : c.WF) (r : Req) (rule : Rule) (hr : rule ∈ c.rules) :
    ruleMatch c.acls r rule = true ↔ RuleApplies c.acls r rule := by
  unfold ruleMatch RuleApplies
  rw [List.all_eq_true]
  constructor
  · intro h l hl; exact (litMatch_iff c hw r l (hw.2 rule hr l hl)).mp (h l hl)
  · intro h l hl; exact (litMatch_iff c hw r l (hw.2 rule hr l hl)).mpr (h l hl)

/-- **the model's answer is the reference first-match evaluation**, for every well-formed configuration -/
theorem allowed_iff_ref (c : Conf) (hw : c.WF) (r : Req) : allowed c r = true ↔ RefAllows c r := by
  unfold allowed RefAllows
  have hrm : ∀ p ∈ c.rules, (ruleMatch c.acls r p = false ↔ ¬ RuleApplies c.acls r p) := by
    intro p hp
    rw [← ruleMatch_iff c hw r p hp]
    cases ruleMatch c.acls r p <;> simp
  cases hfm : firstMatch c.acls r c.rules with
  | some a =>
    obtain ⟨pre, q, post, heq, hpre, hq, ha⟩ := (firstMatch_some_iff _ _ _ _).mp hfm
    have hqm : q ∈ c.rules := by rw [heq]; simp
    have hprem : ∀ p ∈ pre, p ∈ c.rules := fun p hp => by rw [heq]; simp [hp]
    simp only
    constructor
    · intro hat
      left
      refine ⟨pre, q, post, heq, fun p hp => (hrm p (hprem p hp)).mp (hpre p hp), (ruleMatch_iff c hw r q hqm).mp hq, ?_⟩
      rw [ha]; exact hat
    · rintro (⟨pre', q', post', heq', hpre', hq', ha'⟩ | ⟨hnone, _⟩)
      · -- the first applicable rule is unique
        have hfm' : firstMatch c.acls r c.rules = some true := by
          rw [firstMatch_some_iff]
          have hq'm : q' ∈ c.rules := by rw [heq']; simp
          refine ⟨pre', q', post', heq', ?_, (ruleMatch_iff c hw r q' hq'm).mpr hq', ha'⟩
          intro p hp
          have hpm : p ∈ c.rules := by rw [heq']; simp [hp]
          exact (hrm p hpm).mpr (hpre' p hp)
        rw [hfm] at hfm'
        injection hfm'
      · exact absurd ((ruleMatch_iff c hw r q hqm).mp hq) (hnone q hqm)
  | none =>
    have hnone := (firstMatch_none_iff _ _ _).mp hfm
    simp only
    unfold implicitAnswer
    constructor
    · intro h
      right
      refine ⟨fun p hp => (hrm p hp).mp (hnone p hp), ?_⟩
      cases hl : c.rules.getLast? with
      | none => rw [hl] at h; cases h
      | some last =>
        rw [hl] at h
        exact ⟨last, rfl, by simpa using h⟩
    · rintro (⟨pre', q', post', heq', _, hq', _⟩ | ⟨_, last, hl, ha⟩)
      · have hq'm : q' ∈ c.rules := by rw [heq']; simp
        have := hnone q' hq'm
        rw [(ruleMatch_iff c hw r q' hq'm).mpr hq'] at this
        cases this
      · rw [hl]; simp [ha]

/-! ### the built-in `all` and the default rule -/

/-- `all` is a src ACL that matches every IPv4 address -/
def AllInv (c : Conf) : Prop :=
  ∃ a, findAcl c.acls (bytes! "all") = some a ∧ a.type = .src ∧ a.ip.any4 = true

theorem parseIpTokens_any4 (v6 : List Bytes) : ∀ (ts : List Bytes) (a a' : IpAcl),
    parseIpTokens v6 ts a = .ok a' → a.any4 = true → a'.any4 = true
  | [], a, a' => by
    intro h h4; unfold parseIpTokens at h; injection h with h; subst h; exact h4
  | t :: ts, a, a' => by
    intro h h4
    unfold parseIpTokens at h
    split at h
    · exact parseIpTokens_any4 v6 ts _ a' h rfl
    · exact parseIpTokens_any4 v6 ts _ a' h rfl
    · exact parseIpTokens_any4 v6 ts _ a' h h4
    · split at h
      · exact parseIpTokens_any4 v6 ts _ a' h h4
      · cases h
      · cases h

theorem parseValues_src (a a' : Acl) (vals : List Bytes) (hty : a.type = .src) (h : parseValues a vals = .ok a') :
    a'.type = .src ∧ a'.name = a.name ∧ (a.ip.any4 = true → a'.ip.any4 = true) := by
  unfold parseValues at h
  rw [hty] at h
  simp only at h
  split at h
  · rename_i ip hip
    cases h
    exact ⟨rfl, rfl, fun h4 => parseIpTokens_any4 _ _ _ _ hip h4⟩
  · cases h
  · cases h
  · cases h

theorem parseValues_name (a a' : Acl) (vals : List Bytes) (h : parseValues a vals = .ok a') : a'.name = a.name := by
  unfold parseValues at h
  split at h
  · split at h <;> cases h; rfl
  · split at h <;> cases h; rfl
  · split at h <;> cases h; rfl
  · split at h <;> cases h; rfl
  · split at h <;> cases h; rfl
  · cases h

theorem findAcl_append_of_some {acls : List Acl} {n : Bytes} {a : Acl} (x : Acl) (h : findAcl acls n = some a) :
    findAcl (acls ++ [x]) n = some a := by
  unfold findAcl at *
  rw [List.find?_append, h]
  rfl

theorem find?_map_of_pred_eq {α : Type} (p : α → Bool) (f : α → α) (hp : ∀ x, p (f x) = p x) :
    ∀ xs : List α, List.find? p (xs.map f) = (List.find? p xs).map f
  | [] => rfl
  | x :: xs => by
    simp only [List.map_cons, List.find?_cons, hp x]
    cases p x
    · exact find?_map_of_pred_eq p f hp xs
    · rfl

theorem findAcl_replace (acls : List Acl) (a' : Acl) (n : Bytes) :
    findAcl (replaceAcl acls a') n =
      (findAcl acls n).map (fun x => if x.name == a'.name then a' else x) := by
  unfold findAcl replaceAcl
  apply find?_map_of_pred_eq
  intro x
  by_cases ha : (x.name == a'.name) = true
  · have h1 : x.name = a'.name := by simpa using ha
    simp only [ha, ↓reduceIte]
    rw [h1]
  · simp only [ha, Bool.false_eq_true, ↓reduceIte]

theorem parseAclNamed_all (c c' : Conf) (name ty : Bytes) (rest : List Bytes) (hinv : AllInv c)
    (h : parseAclNamed c name ty rest = .ok c') : AllInv c' := by
  obtain ⟨all, hfa, hty, h4⟩ := hinv
  unfold parseAclNamed at h
  split at h
  · -- a new name: `all` is still found first
    split at h
    · cases h
    split at h
    · cases h
    split at h
    rotate_left
    · cases h
    · cases h
    cases h
    exact ⟨all, findAcl_append_of_some _ hfa, hty, h4⟩
  · rename_i a hfind
    split at h
    · cases h
    rename_i t _
    split at h
    · cases h
    · rename_i hteq
      split at h
      · cases h
      rename_i ban vals hf
      split at h
      rotate_left
      · cases h
      · cases h
      rename_i a' hpv
      cases h
      show ∃ a, findAcl (replaceAcl c.acls a') (bytes! "all") = some a ∧ a.type = .src ∧ a.ip.any4 = true
      rw [findAcl_replace, hfa]
      simp only [Option.map_some]
      by_cases hn : (all.name == a'.name) = true
      · -- the line appends to `all` itself
        simp only [hn, ↓reduceIte]
        have hallname : all.name = bytes! "all" := (findAcl_mem hfa).2
        have haname : a.name = name := (findAcl_mem hfind).2
        have ha'name : a'.name = a.name := parseValues_name { a with noLookup := ban } a' vals hpv
        have hnm : name = bytes! "all" := by
          rw [← haname, ← ha'name, ← hallname]; exact ((by simpa using hn : all.name = a'.name)).symm
        subst hnm
        rw [hfa] at hfind
        injection hfind with hfind
        subst hfind
        have hsrc : ({ all with noLookup := ban } : Acl).type = .src := hty
        have ⟨t1, _, t3⟩ := parseValues_src _ _ _ hsrc hpv
        exact ⟨a', rfl, t1, t3 h4⟩
      · simp only [hn, Bool.false_eq_true, ↓reduceIte]
        exact ⟨all, rfl, hty, h4⟩

theorem parseAclLine_all (c c' : Conf) (toks : List Bytes) (hinv : AllInv c) (h : parseAclLine c toks = .ok c') : AllInv c' := by
  unfold parseAclLine at h
  split at h
  · cases h
  · cases h
  exact parseAclNamed_all _ _ _ _ _ hinv h

theorem parseLine_all (c c' : Conf) (line : Bytes) (hinv : AllInv c) (h : parseLine c line = .ok c') : AllInv c' := by
  unfold parseLine at h
  split at h
  · cases h; exact hinv
  · split at h
    · exact parseAclLine_all _ _ _ hinv h
    · split at h
      · -- http_access lines leave the ACL table alone
        rename_i rest _ _ _
        have hacls : c'.acls = c.acls := by
          unfold parseAccessLine at h
          split at h
          · cases h; rfl
          · split at h
            · cases h; rfl
            · split at h
              · cases h
              · cases h
              · cases h; rfl
              · cases h; rfl
        unfold AllInv
        rw [hacls]; exact hinv
      · cases h

theorem parseLines_all : ∀ (ls : List Bytes) (c c' : Conf), AllInv c → parseLines c ls = .ok c' → AllInv c'
  | [], c, c' => by
    intro hw h; unfold parseLines at h; cases h; exact hw
  | l :: ls, c, c' => by
    intro hw h
    unfold parseLines at h
    split at h
    · rename_i c1 h1
      exact parseLines_all ls c1 c' (parseLine_all _ _ _ hw h1) h
    · cases h
    · cases h

theorem builtins_all : AllInv builtins := by
  have h : ((findAcl builtins.acls (bytes! "all")).any fun a => a.type == .src && a.ip.any4) = true := by decide +kernel
  cases hf : findAcl builtins.acls (bytes! "all") with
  | none => rw [hf] at h; cases h
  | some a =>
    rw [hf] at h
    simp only [Option.any_some, Bool.and_eq_true, beq_iff_eq] at h
    exact ⟨a, hf, h.1, h.2⟩

/-- the line defaults_if_none() adds is `http_access deny all` -/
theorem defaultAccessLines_eq : Gen.HttpAccessCfg.defaultAccessLines = [bytes! "http_access deny all"] := by decide

/-- **a section without a usable http_access rule denies every request** (defaults_if_none) -/
theorem no_rule_denies_all (lines : List Bytes) (c1 c : Conf) (h1 : parseLines builtins lines = .ok c1)
    (hnone : c1.rules = []) (h : parseConf lines = .ok c) (r : Req) : observe c r = .deny := by
  obtain ⟨all, hfa, hty, h4⟩ := parseLines_all _ _ _ builtins_all h1
  unfold parseConf at h
  rw [h1] at h
  simp only [hnone, List.isEmpty_nil, ↓reduceIte] at h
  rw [defaultAccessLines_eq] at h
  have htok : tokens (bytes! "http_access deny all") = [bytes! "http_access", bytes! "deny", bytes! "all"] := by decide
  have hlit : litOf (bytes! "all") = (false, bytes! "all") := by decide
  have hne : all.type ≠ .other := by rw [hty]; decide
  have hc : c = { c1 with rules := [{ allow := false, lits := [(false, bytes! "all")] }] } := by
    unfold parseLines parseLine at h
    rw [htok] at h
    simp only [show (bytes! "http_access" = bytes! "acl") = False by decide, ↓reduceIte] at h
    unfold parseAccessLine lineParse at h
    simp only [hlit, hfa, hne, ↓reduceIte] at h
    unfold lineParse at h
    simp only [hnone, List.nil_append] at h
    unfold parseLines at h
    simp at h
    rw [← h]
  subst hc
  unfold observe allowed firstMatch ruleMatch litMatch
  simp only [List.all_cons, List.all_nil, Bool.and_true, hfa]
  have : aclMatch all r = true := by
    unfold aclMatch ipAclMatch
    rw [hty]
    simp [h4]
  simp [this]

end SquidModel.Acl.Http
