/-
C45 — from squid.conf text to the http_access rule list.

  src/cache_cf.cc        parseOneConfigFile (line trimming, `#` lines), parse_line dispatch for `acl` and `http_access`,
                         Configuration::Parse: default_all() before the file, defaults_if_none() after it
  src/ConfigParser.cc    TokenParse with RecognizeQuotedValues off (tokens = runs of non-`w_space`; a token that
                         begins with `#` ends the line)
  src/acl/Acl.cc         Acl::Node::ParseNamedAcl / ParseNamed (missing name / type, FindByName, "already exists with
                         different type", parseFlags, parse, empty ACL warning, registration)
  src/acl/Options.cc     the `-n` flag of dst / dstdomain and the `--` marker (other flags are outside the scope)
  src/acl/Gadgets.cc     aclParseAccessLine (missing / bad action → line skipped; empty rule → skipped)
  src/acl/InnerNode.cc   Acl::InnerNode::lineParse (`!` negation, FindByName, "ACL not found" → self_destruct)
  src/acl/DomainData.cc  ACLDomainData::parse (Tolower; the stored set = the list of values, see C41 for the tree)
  src/acl/IntRange.cc    ACLIntRange::parse  = `SquidModel.Acl.IntRange.parse` (C43)
  src/acl/MethodData.cc  ACLMethodData::parse, HttpRequestMethod::HttpRequestMethodXXX

`self_destruct()` / `fatalf()` end the configuration attempt: outcome `reject` with the class of the message squid
logs.  Text outside the modelled grammar is `unmodelled` (the harness refuses the same scenarios before running squid).
Core Lean only.
-/
import SquidModel.Acl.HttpIp
import SquidModel.Acl.Domain
import SquidModel.Acl.IntRange
import SquidModel.Gen.HttpAccessCfg

namespace SquidModel.Acl.Http
open SquidModel.Acl

/-! ### ConfigParser -/

/-- `w_space` = " \t\n\r" -/
def isWs (c : UInt8) : Bool := c == 32 || c == 9 || c == 10 || c == 13

/-- runs of non-`w_space` characters -/
def wsSplit : Bytes → Bytes → List Bytes
  | [], cur => if cur.isEmpty then [] else [cur.reverse]
  | c :: r, cur =>
    if isWs c then (if cur.isEmpty then wsSplit r [] else cur.reverse :: wsSplit r [])
    else wsSplit r (c :: cur)

/-- `if (*nextToken == '#') return nullptr;` — a token that begins with `#` ends the line -/
def dropComment : List Bytes → List Bytes
  | [] => []
  | t :: ts => if t.head? = some 35 then [] else t :: dropComment ts

/-- the tokens `ConfigParser::NextToken()` / `strtokFile()` hand out for one configuration line -/
def tokens (line : Bytes) : List Bytes := dropComment (wsSplit line [])

/-! ### methods -/

/-- HttpRequestMethod: `theMethod` and, for METHOD_OTHER, `theImage` -/
structure Meth where
  id : Nat
  image : Bytes := []
  deriving DecidableEq, Repr

def methodOther : Nat := Gen.HttpAccessCfg.methodOther

/-- `HttpRequestMethod::image()` of the method with id `i` and an empty `theImage` -/
def imageOf (i : Nat) : Bytes :=
  if i = methodOther then bytes! "METHOD_OTHER" else Gen.HttpAccessCfg.methodImages.getD i []

/-- `SBuf::compare(const char *s, caseInsensitive, n)` of the image against the `n` characters of a token: the scan
covers `min(length(), n)` characters, and only when the image is the *shorter* side is its terminator compared —
so the result is 0 exactly when the token is a (case-insensitive) prefix of the image.  A tree whose
HttpRequestMethodXXX also compares the lengths (`Gen.HttpAccessCfg.methodTokenExact`) accepts the whole image only. -/
def imageCaseCmpToken (image tok : Bytes) : Bool :=
  (if Gen.HttpAccessCfg.methodTokenExact then decide (tok.length = image.length) else decide (tok.length ≤ image.length)) &&
  Domain.fold (image.take tok.length) == Domain.fold tok

/-- the same with `caseSensitive` -/
def imageCmpToken (image tok : Bytes) : Bool :=
  (if Gen.HttpAccessCfg.methodTokenExact then decide (tok.length = image.length) else decide (tok.length ≤ image.length)) &&
  image.take tok.length == tok

/-- the `for (++theMethod; theMethod < METHOD_ENUM_END; ++theMethod)` search of `HttpRequestMethodXXX(char const *)`
(used by ACLMethodData::parse): ids `i .. METHOD_OTHER` in enum order, `image().caseCmp(begin, end-begin)`, and with
`relaxed_header_parser` off also `image().cmp(begin, end-begin)` -/
def methodSearchAcl (relaxed : Bool) (tok : Bytes) : Nat → Nat → Option Nat
  | 0, _ => none
  | fuel + 1, i =>
    if i > methodOther then none
    else if imageCaseCmpToken (imageOf i) tok && (relaxed || imageCmpToken (imageOf i) tok) then some i
    else methodSearchAcl relaxed tok fuel (i + 1)

/-- the search of `HttpRequestMethod(const SBuf &)` (used for the request line): `image().caseCmp(s)` / `image().cmp(s)`
compare whole strings -/
def methodSearchReq (relaxed : Bool) (tok : Bytes) : Nat → Nat → Option Nat
  | 0, _ => none
  | fuel + 1, i =>
    if i > methodOther then none
    else if Domain.fold (imageOf i) == Domain.fold tok && (relaxed || imageOf i == tok) then some i
    else methodSearchReq relaxed tok fuel (i + 1)

/-- HttpRequestMethodXXX on a non-empty configuration token -/
def parseMethod (tok : Bytes) : Meth :=
  match methodSearchAcl Gen.HttpAccessCfg.relaxedHeaderParser tok (methodOther + 1) 1 with
  | some i => { id := i }
  | none => { id := methodOther, image := tok }

/-- HttpRequestMethod(SBuf) on the method token of a request line -/
def requestMethod (tok : Bytes) : Meth :=
  match methodSearchReq Gen.HttpAccessCfg.relaxedHeaderParser tok (methodOther + 1) 1 with
  | some i => { id := i }
  | none => { id := methodOther, image := tok }

/-- `HttpRequestMethod::operator==` -/
def Meth.same (a b : Meth) : Bool := a.id == b.id && (a.id != methodOther || a.image == b.image)

/-! ### named ACLs -/

inductive AclType where
  | src | dst | dstdomain | port | method
  /-- a type of the built-in ACLs that this model does not interpret (url_regex) -/
  | other
  deriving DecidableEq, Repr

def aclTypeOf (t : Bytes) : Option AclType :=
  if t = bytes! "src" then some .src
  else if t = bytes! "dst" then some .dst
  else if t = bytes! "dstdomain" then some .dstdomain
  else if t = bytes! "port" then some .port
  else if t = bytes! "method" then some .method
  else none

/-- the data of one named ACL -/
structure Acl where
  name : Bytes
  type : AclType
  ip : IpAcl := {}
  domains : List Bytes := []
  ports : List IntRange.Range := []
  methods : List Meth := []
  /-- `-n`: `lookupBanned` of dst / dstdomain -/
  noLookup : Bool := false
  deriving Repr

inductive Reject where
  | aclNoName        -- "aclParseAclLine: missing ACL name."
  | aclNoType        -- "aclParseAclLine: missing ACL type."
  | aclTypeMismatch  -- "ACL '...' already exists with different type."
  | badIp            -- "aclIpParseIpData: unknown first / second address"
  | badMask          -- "aclParseIpData: unknown netmask"
  | badPort (r : IntRange.Reject)
  | aclNotFound      -- "ERROR: ACL not found: ..."
  deriving DecidableEq, Repr

def Reject.token : Reject → String
  | .aclNoName => "acl-no-name"
  | .aclNoType => "acl-no-type"
  | .aclTypeMismatch => "acl-type-mismatch"
  | .badIp => "bad-ip"
  | .badMask => "bad-mask"
  | .badPort _ => "bad-port"
  | .aclNotFound => "acl-not-found"

/-- one `http_access` rule: the action and the `[!]aclname` list -/
structure Rule where
  allow : Bool
  lits : List (Bool × Bytes)     -- (negated, ACL name)
  deriving DecidableEq, Repr

/-- `Config.namedAcls` and `Config.accessList.http` -/
structure Conf where
  acls : List Acl := []
  rules : List Rule := []
  deriving Repr

inductive Step (α : Type) where
  | ok (a : α)
  | reject (r : Reject)
  | unmodelled
  deriving Repr

def Step.isOk {α : Type} : Step α → Bool
  | .ok _ => true
  | _ => false

def findAcl (acls : List Acl) (name : Bytes) : Option Acl := acls.find? (·.name == name)

def replaceAcl (acls : List Acl) (a : Acl) : List Acl :=
  acls.map fun x => if x.name == a.name then a else x

/-- Acl::ParseFlags for the scoped flags: `-n` (dst, dstdomain) and `--`; returns the remaining value tokens -/
def parseFlags (ty : AclType) : List Bytes → Bool → Option (Bool × List Bytes)
  | [], ban => some (ban, [])
  | t :: ts, ban =>
    if t.head? = some 45 ∨ t.head? = some 43 then
      if t = bytes! "--" then some (ban, ts)
      else if t = bytes! "-n" ∧ (ty = .dst ∨ ty = .dstdomain) then parseFlags ty ts true
      else none
    else some (ban, t :: ts)

/-- `A->parse()` of the five types: the values of this line are added to what the ACL already has -/
def parseValues (a : Acl) (vals : List Bytes) : Step Acl :=
  match a.type with
  | .src | .dst =>
    match parseIpTokens Gen.HttpAccessCfg.v6Literals vals a.ip with
    | .ok ip => .ok { a with ip := ip }
    | .reject .badIp => .reject .badIp
    | .reject .badMask => .reject .badMask
    | .unmodelled => .unmodelled
  | .dstdomain =>
    -- quoted values would be file names (`strtokFile`): outside the scope; so are values that begin with two dots
    -- (C41's finding; squid commit 7fcae3a makes ACLDomainData::parse refuse them)
    if vals.any (fun v => v.head? = some 34 ∨ v.head? = some 39 ∨ v.take 2 = [46, 46]) then .unmodelled
    else .ok { a with domains := a.domains ++ vals.map Domain.fold }
  | .port =>
    match IntRange.parse vals with
    | .ok rs => .ok { a with ports := a.ports ++ rs }
    | .error e => .reject (.badPort e)
  | .method =>
    if vals.any (fun v => v.head? = some 34 ∨ v.head? = some 39) then .unmodelled
    else .ok { a with methods := a.methods ++ vals.map parseMethod }
  | .other => .unmodelled

/-- Acl::Node::ParseNamed for the (already case-folded) name -/
def parseAclNamed (c : Conf) (name ty : Bytes) (rest : List Bytes) : Step Conf :=
  match findAcl c.acls name with
  | none =>
    match aclTypeOf ty with
    | none => .unmodelled          -- other ACL types (and unknown ones: FATAL "Invalid ACL type")
    | some t =>
      match parseFlags t rest false with
      | none => .unmodelled
      | some (ban, vals) =>
        match parseValues { name := name, type := t, noLookup := ban } vals with
        | .ok a => .ok { c with acls := c.acls ++ [a] }      -- (an empty new ACL only earns a WARNING)
        | .reject r => .reject r
        | .unmodelled => .unmodelled
  | some a =>
    match aclTypeOf ty with
    | none => .unmodelled
    | some t =>
      if t ≠ a.type then .reject .aclTypeMismatch           -- strcmp(A->typeString(), theType)
      else
        match parseFlags t rest a.noLookup with
        | none => .unmodelled
        | some (ban, vals) =>
          match parseValues { a with noLookup := ban } vals with
          | .ok a' => .ok { c with acls := replaceAcl c.acls a' }
          | .reject r => .reject r
          | .unmodelled => .unmodelled

/-- `acl` directive: Acl::Node::ParseNamedAcl + ParseNamed.  `Config.namedAcls` compares names without regard to case
(`CaseInsensitiveSBufHash/Equal`): modelled by storing and looking up the lower-cased name. -/
def parseAclLine (c : Conf) (toks : List Bytes) : Step Conf :=
  match toks with
  | [] => .reject .aclNoName
  | [_] => .reject .aclNoType
  | name :: ty :: rest => parseAclNamed c (Domain.fold name) ty rest

/-- `const bool negated = (*t == '!'); if (negated) ++t;` — and the name as `Config.namedAcls` keys it: the table
compares names without regard to case (`CaseInsensitiveSBufHash/Equal`), modelled by storing and looking up the
lower-cased name -/
def litOf (t : Bytes) : Bool × Bytes :=
  match t with
  | 33 :: r => (true, Domain.fold r)
  | _ => (false, Domain.fold t)

/-- Acl::InnerNode::lineParse: `[!]aclname ...`, every name must already be defined -/
def lineParse (acls : List Acl) : List Bytes → Step (List (Bool × Bytes))
  | [] => .ok []
  | t :: ts =>
    match findAcl acls (litOf t).2 with
    | none => .reject .aclNotFound                            -- "ACL not found" → self_destruct()
    | some a =>
      if a.type = .other then .unmodelled                     -- a built-in ACL of a type outside the scope
      else
        match lineParse acls ts with
        | .ok l => .ok (litOf t :: l)
        | .reject r => .reject r
        | .unmodelled => .unmodelled

/-- `http_access` directive: aclParseAccessLine -/
def parseAccessLine (c : Conf) (toks : List Bytes) : Step Conf :=
  match toks with
  | [] => .ok c                                               -- "missing 'allow' or 'deny'": the line is skipped
  | act :: rest =>
    if act ≠ bytes! "allow" ∧ act ≠ bytes! "deny" then .ok c  -- "expecting 'allow' or 'deny'": skipped
    else
      match lineParse c.acls rest with
      | .reject r => .reject r
      | .unmodelled => .unmodelled
      | .ok [] => .ok c                                       -- "Access line contains no ACL's, skipping"
      | .ok lits => .ok { c with rules := c.rules ++ [{ allow := act = bytes! "allow", lits := lits }] }

/-- one line of the generated section, as parseOneConfigFile + parse_line treat it -/
def parseLine (c : Conf) (line : Bytes) : Step Conf :=
  match tokens line with
  | [] => .ok c                                               -- blank line or comment
  | d :: rest =>
    if d = bytes! "acl" then parseAclLine c rest
    else if d = bytes! "http_access" then parseAccessLine c rest
    else .unmodelled

def parseLines : Conf → List Bytes → Step Conf
  | c, [] => .ok c
  | c, l :: ls =>
    match parseLine c l with
    | .ok c' => parseLines c' ls
    | .reject r => .reject r
    | .unmodelled => .unmodelled

/-- the built-in ACLs: default_all() runs its `acl` lines through the same parser; a built-in line the model does not
interpret (`manager url_regex ...`) leaves a named ACL of type `other` behind -/
def builtinLine (c : Conf) (line : Bytes) : Conf :=
  match parseLine c line with
  | .ok c' => c'
  | _ =>
    match tokens line with
    | _ :: name :: _ => { c with acls := c.acls ++ [{ name := Domain.fold name, type := .other }] }
    | _ => c

def builtins : Conf := Gen.HttpAccessCfg.defaultAclLines.foldl builtinLine {}

/-- Configuration::Parse for the generated section: default_all(), the lines, defaults_if_none() -/
def parseConf (lines : List Bytes) : Step Conf :=
  match parseLines builtins lines with
  | .ok c =>
    if c.rules.isEmpty then parseLines c Gen.HttpAccessCfg.defaultAccessLines   -- check_null_acl_access(Config.accessList.http)
    else .ok c
  | r => r

end SquidModel.Acl.Http
