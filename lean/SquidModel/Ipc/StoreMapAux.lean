/-
Small invariants and consequences of `AInv` used by the property theorems of C55.
-/
import SquidModel.Ipc.StoreMapStep

namespace SquidModel.Ipc.StoreMap
open PC
set_option linter.unusedSimpArgs false

/-- keys carried by openForReadingAt pcs are non-zero (the caller contract of `call`) -/
def PC.keyOK : PC → Bool
  | orLock _ k | orW _ k => k != 0
  | _ => true

theorem keyOK_act (sh : Sh) (p : PC) (ch : Bool) (h : p.keyOK = true) : (act sh p ch).2.1.keyOK = true := by
  cases p <;> simp only [act, Anchor.lockExclusive, Anchor.lockShared, Anchor.stopAppending, Anchor.unlockSharedAndSwitch, enterFC] <;>
    (repeat' split) <;> simp_all [PC.keyOK]

theorem keyOK_call (tid : Nat) (sh : Sh) (p : PC) (op : Op) (sh' : Sh) (p' : PC) (res : Option String)
    (hc : call tid sh p op = some (sh', p', res)) : p'.keyOK = true := by
  cases p <;> cases op <;> simp only [call, reduceCtorEq] at hc <;> (try split at hc) <;> (try split at hc) <;> (try split at hc)
  all_goals (try simp only [reduceCtorEq] at hc)
  all_goals (simp only [Option.some.injEq, Prod.mk.injEq] at hc; obtain ⟨_, rfl, _⟩ := hc; simp_all [PC.keyOK])

theorem keyOK_reachable {c : Cfg} (hr : Reachable c) : ∀ p ∈ c.2, p.keyOK = true := by
  induction hr with
  | init n k => intro p hp; rw [List.eq_of_mem_replicate hp]; rfl
  | step _ hs ih =>
    cases hs with
    | call sh ts i h op sh' p' res hc =>
      intro p hp
      rcases List.mem_or_eq_of_mem_set hp with h1 | h1
      · exact ih p h1
      · rw [h1]; exact keyOK_call i sh _ op sh' p' res hc
    | act sh ts i h hn ch =>
      intro p hp
      rcases List.mem_or_eq_of_mem_set hp with h1 | h1
      · exact ih p h1
      · rw [h1]; exact keyOK_act sh _ ch (ih _ (List.getElem_mem h))

/-- holds the lock of `g` exclusively in some mode -/
def PC.holdsX (g : Nat) (p : PC) : Bool := PC.xE g p || PC.xA g p || PC.xD g p

theorem activeW_holdsX (g : Nat) (p : PC) (h : PC.activeW g p = true) : PC.holdsX g p = true := by
  cases p <;> simp [PC.activeW] at h <;> simp [PC.holdsX, PC.xE, PC.xA, PC.xD, h] <;> (rename_i app; cases app <;> simp)

/-- two sessions never hold the exclusive lock of the same anchor -/
theorem xx_false {g : Nat} {sh : Sh} {ts : List PC} (hA : AInv g (sh, ts)) (i j : Nat) (hi : i < ts.length) (hj : j < ts.length)
    (hij : i ≠ j) (xi : PC.holdsX g ts[i] = true) (xj : PC.holdsX g ts[j] = true) : False := by
  obtain ⟨_, xe, xa, xd, _, _, _, _, _, _, _⟩ := hA
  simp only at xe xa xd
  have pE := fun k (hk : k < ts.length) => cnt_pos_of_mem (PC.xE g) ts k hk
  have pA := fun k (hk : k < ts.length) => cnt_pos_of_mem (PC.xA g) ts k hk
  have pD := fun k (hk : k < ts.length) => cnt_pos_of_mem (PC.xD g) ts k hk
  have tE := two_le_cnt (PC.xE g) ts i j hi hj hij
  have tA := two_le_cnt (PC.xA g) ts i j hi hj hij
  have tD := two_le_cnt (PC.xD g) ts i j hi hj hij
  have pEi := pE i hi; have pEj := pE j hj; have pAi := pA i hi; have pAj := pA j hj; have pDi := pD i hi; have pDj := pD j hj
  simp only [PC.holdsX, Bool.or_eq_true] at xi xj
  cases hw : (sh.a g).writer <;> simp only [hw, reduceCtorEq, if_true, if_false] at xe xa xd <;>
    rcases xi with (xi | xi) | xi <;> rcases xj with (xj | xj) | xj <;> simp_all <;> omega

/-- a strictly exclusive holder excludes every shared holder -/
theorem xs_false {g : Nat} {sh : Sh} {ts : List PC} (hA : AInv g (sh, ts)) (i j : Nat) (hi : i < ts.length) (hj : j < ts.length)
    (xi : PC.xE g ts[i] = true) (rj : PC.holdsS g ts[j] = true) : False := by
  obtain ⟨rd, xe, _, _, ex, _, _, _, _, _, _⟩ := hA
  simp only at rd xe ex
  have h1 := cnt_pos_of_mem (PC.xE g) ts i hi xi
  have h2 := cnt_pos_of_mem (PC.holdsS g) ts j hj rj
  cases hw : (sh.a g).writer <;> simp_all <;> omega

/-- the lock mode seen by a strictly exclusive holder -/
theorem xE_writer {g : Nat} {sh : Sh} {ts : List PC} (hA : AInv g (sh, ts)) (i : Nat) (hi : i < ts.length)
    (xi : PC.xE g ts[i] = true) : (sh.a g).writer = .E := by
  have h1 := cnt_pos_of_mem (PC.xE g) ts i hi xi
  have := hA.xe
  simp only at this
  cases hw : (sh.a g).writer <;> simp_all

end SquidModel.Ipc.StoreMap
