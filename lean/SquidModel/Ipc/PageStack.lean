/-
Model of `Ipc::Mem::PageStack` and its `IdSet` counting tree (src/ipc/mem/PageStack.{h,cc}) at the granularity of single
atomic operations.

The tree is perfect and binary. A node is addressed as in the C++ (`IdSetPosition`): `level` (0 = root) and `offset` (number of
nodes to its left at that level). Levels `0 .. H-1` hold inner nodes = packed pairs `(left,right)` of counters, level
`H` (= `innerLevelCount`) holds the leaves = 64-bit sets of ids. The C++ stores all nodes in one flat array at index
`2^level - 1 + offset` (`nodeAt`); the model keeps inner nodes and leaves as functions of `(level, offset)` and prints the
flat index in the trace (`idxInner`, `idxLeaf`; injectivity: `PageStackInit.nodeIndex_inj`).

A thread is a program counter (one constructor per pending atomic operation, carrying the local variables of the method:
position, the `oldValue` of a CAS loop, the id) plus the list of page ids it holds between calls. `begin` starts `pop`/`push`
(only where the caller contract allows: one pushes only a page one holds), `act` performs the pending atomic operation.
Loads made only inside `assert(...)` are not steps; the asserted conditions are theorems (Properties/C53.lean). A failing
`assert` moves the thread to `bad`, which is proved unreachable. Sequentially consistent atomics are assumed.
Page *numbers* (1-based, `PageId::number`) are `id + 1` for tree ids `id` (0-based).
-/
namespace SquidModel.Ipc.PageStack

/-! ### IdSetMeasurements -/

/-- the `while (leafNodeCount < requestedLeafNodeCount)` loop; fuel 32 suffices for 32-bit capacities -/
def growLeaves : Nat → Nat → Nat → Nat → Nat × Nat
  | 0, _, n, h => (n, h)
  | f + 1, req, n, h => if n < req then growLeaves f req (n * 2) (h + 1) else (n, h)

structure Measurements where
  capacity : Nat
  requestedLeafNodeCount : Nat
  treeHeight : Nat
  leafNodeCount : Nat
  innerLevelCount : Nat
  deriving Repr, DecidableEq

def BitsPerLeaf : Nat := 64

/-- `IdSetMeasurements::IdSetMeasurements`. `capacity + (BitsPerLeaf-1)` is computed in `uint32_t` and wraps for capacities
above `2^32 - 64` (the tree is then far too small: `PageStackInit.measure_wraps`); all theorems assume `cap + 63 < 2^32`. -/
def measure (cap : Nat) : Measurements :=
  let req := ((cap + (BitsPerLeaf - 1)) % 4294967296) / BitsPerLeaf
  let r := growLeaves 32 req 2 (1 + 1)
  { capacity := cap, requestedLeafNodeCount := req, treeHeight := r.2, leafNodeCount := r.1, innerLevelCount := r.2 - 1 }

/-- `IdSetMeasurements::nodeCount` -/
def Measurements.nodeCount (m : Measurements) : Nat := if m.leafNodeCount ≠ 0 then m.leafNodeCount * 2 - 1 else 0

/-! ### shared state -/

structure Sh where
  size : Nat                      -- PageStack::size_
  inner : Nat → Nat → Nat × Nat   -- level, offset ↦ (left, right)          (IdSetInnerNode)
  leaf : Nat → Nat                -- leaf offset ↦ bitset of available ids  (leaf Node)

def setInner (f : Nat → Nat → Nat × Nat) (l o : Nat) (v : Nat × Nat) : Nat → Nat → Nat × Nat :=
  fun l' o' => if l' = l ∧ o' = o then v else f l' o'

def setLeaf (f : Nat → Nat) (o v : Nat) : Nat → Nat := fun o' => if o' = o then v else f o'

/-- `IdSetInnerNode::pack` (for counters below 2^32 this is `(left << 32) | right`, see `PageStackInit.pack_eq_shift_or`) -/
def pack (c : Nat × Nat) : Nat := c.1 * 4294967296 + c.2

/-- `nodeAt`: index into the flattened array -/
def idxInner (l o : Nat) : Nat := 2 ^ l - 1 + o
def idxLeaf (H o : Nat) : Nat := 2 ^ H - 1 + o

/-- the C loop of `trailingZeros` for `x ≠ 0`: test bit `c`, else move on (`fuel` bounds the scan) -/
def tzLoop (x : Nat) : Nat → Nat → Nat
  | 0, c => c
  | f + 1, c => if x.testBit c then c else tzLoop x f (c + 1)

/-- `trailingZeros` -/
def trailingZeros (x : Nat) : Nat := if x = 0 then 64 else tzLoop x 64 0

/-- `oldValue & (oldValue - 1)` in `leafPop`: clears the rightmost 1 -/
def clearLowest (x : Nat) : Nat := x &&& (x - 1)

/-! ### threads -/

inductive PC where
  | idle
  /-- `innerPop(pos)`: about to `node.load()` -/
  | popLoad (l o : Nat)
  /-- `innerPop(pos)`: about to `compare_exchange_weak(oldValue = (a,b), …)` -/
  | popCas (l o a b : Nat)
  /-- `leafPop(pos)`: about to `node.load()` -/
  | leafLoad (o : Nat)
  /-- `leafPop(pos)`: about to `compare_exchange_weak(oldValue = old, …)` -/
  | leafCas (o old : Nat)
  /-- `PageStack::pop`: id extracted, about to `--size_` -/
  | popDec (id : Nat)
  /-- `PageStack::push`: about to `++size_` -/
  | pushInc (id : Nat)
  /-- `leafPush`: about to `fetch_or` -/
  | pushLeaf (id : Nat)
  /-- `IdSet::push` loop: the node at `(l,o)` already counts the id; about to `innerPush` its parent -/
  | pushInner (l o : Nat)
  /-- an `assert` of the C++ failed (proved unreachable) -/
  | bad
  deriving DecidableEq, Repr

structure Th where
  pc : PC
  held : List Nat      -- ids of the pages this thread holds, most recent first
  deriving DecidableEq, Repr

inductive Op where
  | pop
  | push (id : Nat)
  deriving DecidableEq, Repr

inductive Res where
  | popFail
  | popOk (number : Nat)
  | pushDone
  deriving DecidableEq, Repr

def PC.isRest : PC → Bool
  | .idle | .bad => true
  | _ => false

/-- start a method. `pop` with `capacity == 0` returns false without touching an atomic. `push(id)` is within the caller
contract only for a page the caller holds. -/
def begin (cap : Nat) (t : Th) : Op → Option (Th × Option Res)
  | .pop =>
    match t.pc with
    | .idle => if cap = 0 then some (t, some .popFail) else some ({ t with pc := .popLoad 0 0 }, none)
    | _ => none
  | .push id =>
    match t.pc with
    | .idle => if id ∈ t.held then some ({ pc := .pushInc id, held := t.held.erase id }, none) else none
    | _ => none

/-- what an atomic operation did, for trace validation: object (`none` = `size_`, `some i` = `nodes_[i]`), kind, old, new -/
structure Ev where
  obj : Option Nat
  kind : String
  old : Nat
  new : Nat
  deriving DecidableEq, Repr

/-- `innerPop`'s loop body for a just obtained `oldValue = v` (from the load or from a failed CAS):
both counters zero ⇒ `dirEnd`: at the root `IdSet::pop` returns false, below the root `descend()` asserts -/
def afterInnerRead (l o : Nat) (v : Nat × Nat) : PC × Option Res :=
  if v.1 = 0 ∧ v.2 = 0 then
    if l = 0 then (.idle, some .popFail) else (.bad, none)
  else (.popCas l o v.1 v.2, none)

/-- `leafPop`'s loop body for a just obtained `oldValue = v`: `assert(oldValue > 0)` -/
def afterLeafRead (o v : Nat) : PC := if v = 0 then .bad else .leafCas o v

/-- the pending atomic operation of thread `t` (tree with `H` inner levels) -/
def act (H : Nat) (s : Sh) (t : Th) : Sh × Th × Ev × Option Res :=
  match t.pc with
  | .popLoad l o =>
    let v := s.inner l o
    let r := afterInnerRead l o v
    (s, { t with pc := r.1 }, ⟨some (idxInner l o), "load", pack v, pack v⟩, r.2)
  | .popCas l o a b =>
    let cur := s.inner l o
    if cur = (a, b) then
      -- prefer the left subtree
      let nv : Nat × Nat := if a ≠ 0 then (a - 1, b) else (a, b - 1)
      let d : Nat := if a ≠ 0 then 0 else 1
      let pc' := if l + 1 = H then PC.leafLoad (2 * o + d) else PC.popLoad (l + 1) (2 * o + d)
      ({ s with inner := setInner s.inner l o nv }, { t with pc := pc' }, ⟨some (idxInner l o), "cas", pack cur, pack nv⟩, none)
    else
      let r := afterInnerRead l o cur
      (s, { t with pc := r.1 }, ⟨some (idxInner l o), "casf", pack cur, pack cur⟩, r.2)
  | .leafLoad o =>
    let v := s.leaf o
    (s, { t with pc := afterLeafRead o v }, ⟨some (idxLeaf H o), "load", v, v⟩, none)
  | .leafCas o old =>
    let cur := s.leaf o
    if cur = old then
      let nv := clearLowest old
      ({ s with leaf := setLeaf s.leaf o nv }, { t with pc := .popDec (o * BitsPerLeaf + trailingZeros old) },
        ⟨some (idxLeaf H o), "cas", cur, nv⟩, none)
    else
      (s, { t with pc := afterLeafRead o cur }, ⟨some (idxLeaf H o), "casf", cur, cur⟩, none)
  | .popDec id =>
    ({ s with size := s.size - 1 }, { pc := .idle, held := id :: t.held }, ⟨none, "sub", s.size, s.size - 1⟩, some (.popOk (id + 1)))
  | .pushInc id =>
    ({ s with size := s.size + 1 }, { t with pc := .pushLeaf id }, ⟨none, "add", s.size, s.size + 1⟩, none)
  | .pushLeaf id =>
    let o := id / BitsPerLeaf
    let mask := 1 <<< (id % BitsPerLeaf)
    let old := s.leaf o
    -- assert((oldValue & mask) == 0)
    let pc' := if old &&& mask = 0 then PC.pushInner H o else PC.bad
    ({ s with leaf := setLeaf s.leaf o (old ||| mask) }, { t with pc := pc' }, ⟨some (idxLeaf H o), "or", old, old ||| mask⟩, none)
  | .pushInner l o =>
    -- ascendDirection, ascend, innerPush
    let pl := l - 1
    let po := o / 2
    let cur := s.inner pl po
    let nv : Nat × Nat := if o % 2 = 0 then (cur.1 + 1, cur.2) else (cur.1, cur.2 + 1)
    let done := pl = 0    -- pos.atRoot()
    ({ s with inner := setInner s.inner pl po nv }, { t with pc := if done then .idle else .pushInner pl po },
      ⟨some (idxInner pl po), "add", pack cur, pack nv⟩, if done then some .pushDone else none)
  | .idle => (s, t, ⟨none, "none", 0, 0⟩, none)
  | .bad => (s, t, ⟨none, "none", 0, 0⟩, none)

/-! ### initial states -/

/-- number of nodes at `level` whose id range starts below `cap` ("live" nodes): `ceil(cap/64)` leaves, and a parent is live
iff its left child is. Nodes beyond are never visited (`Inv.wf`); `makeFullBeforeSharing` leaves stale values in them. -/
def halfUp : Nat → Nat → Nat
  | 0, n => n
  | k + 1, n => (halfUp k n + 1) / 2

def liveCount (cap H : Nat) (level : Nat) : Nat := halfUp (H - level) ((cap + (BitsPerLeaf - 1)) / BitsPerLeaf)

/-- number of ids `< cap` below the node at offset `o` of the level that is `k` levels above the leaves -/
def fullTotal (cap : Nat) : Nat → Nat → Nat
  | 0, o => min BitsPerLeaf (cap - o * BitsPerLeaf)
  | k + 1, o => fullTotal cap k (2 * o) + fullTotal cap k (2 * o + 1)

/-- what `makeFullBeforeSharing` leaves in the leaves: every id `< cap` available. The leaves wholly beyond `cap` are zeroed by
`truncateExtras` except the last one when `cap` is not a multiple of 64 (its `fill_n(…, rightLeaves-1, 0)` stops one short;
the stale bits are unreachable because every counter above them is 0). For `cap % 64 = 0` the first unused leaf is set to 0
by `leafTruncate(pos, 0)` (since fix 1ff5fc0; before it this was `node >>= 64`, undefined behaviour: `fullUB`). -/
def fullLeaf (cap H o : Nat) : Nat :=
  if o * BitsPerLeaf < cap then 2 ^ (fullTotal cap 0 o) - 1
  else if cap % BitsPerLeaf ≠ 0 ∧ o + 1 = 2 ^ H then 2 ^ 64 - 1
  else 0

/-- PRE-FIX code only (before commit 1ff5fc0): `truncateExtras` runs and calls `leafTruncate(pos, 0)`, which shifted a 64-bit
word by 64 -/
def fullUB (cap H : Nat) : Bool := cap % BitsPerLeaf = 0 && cap != 2 ^ H * BitsPerLeaf

/-- inner nodes after `makeFullBeforeSharing`: exact subtree totals in live nodes. Dead nodes keep what `fillAllNodes` wrote
(`truncateExtras` only walks up from the first truncated leaf), except those on that walk, which become (0,0). -/
def fullInner (cap H l o : Nat) : Nat × Nat :=
  if o < liveCount cap H l then (fullTotal cap (H - l - 1) (2 * o), fullTotal cap (H - l - 1) (2 * o + 1))
  else if cap % BitsPerLeaf = 0 ∧ o = (cap / BitsPerLeaf) / 2 ^ (H - l) then (0, 0)
  else (BitsPerLeaf / 2 * 2 ^ (H - l), BitsPerLeaf / 2 * 2 ^ (H - l))

def Sh.full (cap H : Nat) : Sh := { size := cap, inner := fullInner cap H, leaf := fullLeaf cap H }

/-- a stack constructed with `createFull = false` in zeroed memory -/
def Sh.empty : Sh := { size := 0, inner := fun _ _ => (0, 0), leaf := fun _ => 0 }

/-! ### the transition system -/

abbrev Cfg := Sh × List Th

/-- one step of the system: some thread starts a method it may call, or performs its pending atomic operation -/
inductive Step (cap H : Nat) : Cfg → Cfg → Prop where
  | begin (s : Sh) (ts : List Th) (i : Nat) (h : i < ts.length) (op : Op) (t' : Th) (r : Option Res)
      (hb : begin cap ts[i] op = some (t', r)) : Step cap H (s, ts) (s, ts.set i t')
  | act (s : Sh) (ts : List Th) (i : Nat) (h : i < ts.length) (hn : ts[i].pc.isRest = false) :
      Step cap H (s, ts) ((act H s ts[i]).1, ts.set i (act H s ts[i]).2.1)

/-- the initially held pages of all threads together are exactly the ids `< cap`, each once -/
def Partition (cap : Nat) (hs : List (List Nat)) : Prop :=
  ∀ id, ((hs.map fun h => h.count id).sum) = if id < cap then 1 else 0

inductive Reachable (cap H : Nat) : Cfg → Prop where
  /-- created full, `n` threads holding nothing -/
  | initFull (n : Nat) : Reachable cap H (Sh.full cap H, List.replicate n ⟨.idle, []⟩)
  /-- created empty, all pages initially in the hands of the threads -/
  | initEmpty (hs : List (List Nat)) (hp : Partition cap hs) : Reachable cap H (Sh.empty, hs.map fun h => ⟨.idle, h⟩)
  | step {c c' : Cfg} : Reachable cap H c → Step cap H c c' → Reachable cap H c'

end SquidModel.Ipc.PageStack
