/-
Both invariants of the StoreMap model hold in every reachable configuration.
-/
import SquidModel.Ipc.StoreMapSStepL

namespace SquidModel.Ipc.StoreMap
open PC
set_option linter.unusedVariables false

theorem sinv_act {sh : Sh} {ts : List PC} (hs : SInv (sh, ts)) (hA : ∀ g, AInv g (sh, ts)) (i : Nat) (h : i < ts.length)
    (hn : ts[i].isRest = false) (ch : Bool) : SInv ((act sh ts[i] ch).1, ts.set i (act sh ts[i] ch).2.1) := by
  generalize hp : ts[i] = p at hn ⊢
  cases p with
  | idle => simp [PC.isRest] at hn
  | holdW _ _ _ => simp [PC.isRest] at hn
  | holdR _ => simp [PC.isRest] at hn
  | owLock f ow => exact sinv_owLock f ow ch i h hp hs hA
  | owW1 f ow => exact sinv_owW1 f ow ch i h hp hs hA
  | owBail f => exact sinv_owBail f ch i h hp hs hA
  | owW2 f => exact sinv_owW2 f ch i h hp hs hA
  | owS f => exact sinv_owS f ch i h hp hs hA
  | owSp f => exact sinv_owSp f ch i h hp hs hA
  | owCnt f => exact sinv_owCnt f ch i h hp hs hA
  | fcSp f r => exact sinv_fcSp f r ch i h hp hs hA
  | fcSt f sp r => exact sinv_fcSt f sp r ch i h hp hs hA
  | fcNext f cur sp r => exact sinv_fcNext f cur sp r ch i h hp hs hA
  | fcClrS f cur nx sp r => exact sinv_fcClrS f cur nx sp r ch i h hp hs hA
  | fcClrN f cur nx sp r => exact sinv_fcClrN f cur nx sp r ch i h hp hs hA
  | rwStart f r => exact sinv_rwStart f r ch i h hp hs hA
  | rwSplice f r => exact sinv_rwSplice f r ch i h hp hs hA
  | rwSz f r => exact sinv_rwSz f r ch i h hp hs hA
  | rwWtbf f r => exact sinv_rwWtbf f r ch i h hp hs hA
  | rwHalt f r => exact sinv_rwHalt f r ch i h hp hs hA
  | fcUnl f b => exact sinv_fcUnl f b ch i h hp hs hA
  | fcCnt f r => exact sinv_fcCnt f r ch i h hp hs hA
  | skW f last m => exact sinv_skW f last m ch i h hp hs hA
  | asClrS f app last s n => exact sinv_asClrS f app last s n ch i h hp hs hA
  | asClrN f app last s n => exact sinv_asClrN f app last s n ch i h hp hs hA
  | asSize f app last s n => exact sinv_asSize f app last s n ch i h hp hs hA
  | asLink f app last s => exact sinv_asLink f app last s ch i h hp hs hA
  | saLock f last => exact sinv_saLock f last ch i h hp hs hA
  | cwU f app => exact sinv_cwU f app ch i h hp hs hA
  | awA f app => exact sinv_awA f app ch i h hp hs hA
  | awStop f => exact sinv_awStop f ch i h hp hs hA
  | awW f => exact sinv_awW f ch i h hp hs hA
  | awH f => exact sinv_awH f ch i h hp hs hA
  | awU f => exact sinv_awU f ch i h hp hs hA
  | orLock f k => exact sinv_orLock f k ch i h hp hs hA
  | orW f k => exact sinv_orW f k ch i h hp hs hA
  | orU f => exact sinv_orU f ch i h hp hs hA
  | rdStart f => exact sinv_rdStart f ch i h hp hs hA
  | rdSize f cur acc => exact sinv_rdSize f cur acc ch i h hp hs hA
  | rdNext f cur acc => exact sinv_rdNext f cur acc ch i h hp hs hA
  | crU f => exact sinv_crU f ch i h hp hs hA
  | cfX f => exact sinv_cfX f ch i h hp hs hA
  | feLock f => exact sinv_feLock f ch i h hp hs hA
  | feW f => exact sinv_feW f ch i h hp hs hA
  | feCas f g0 => exact sinv_feCas f g0 ch i h hp hs hA
  | fkFn k =>
    simp only [act]
    exact sinv_quiet hs i h _ rfl rfl (fun g => ⟨rfl, rfl, rfl, rfl⟩) hs.key_live (by simp [TOK])
  | fkLockE f k g0 => exact sinv_fkLockE f k g0 ch i h hp hs hA
  | fkUE f => exact sinv_fkUE f ch i h hp hs hA
  | fkLockS f k g0 => exact sinv_fkLockS f k g0 ch i h hp hs hA
  | fkMarkS f g0 => exact sinv_fkMarkS f g0 ch i h hp hs hA
  | fkUS f hit g0 => exact sinv_fkUS f hit g0 ch i h hp hs hA
  | fkMark f g0 => exact sinv_fkMark f g0 ch i h hp hs hA

theorem sinv_step {c c' : Cfg} (hs : SInv c) (hA : ∀ g, AInv g c) (st : Step c c') : SInv c' := by
  cases st with
  | call sh ts i h op sh' p' res hc => exact sinv_call hs hA i h op sh' p' res hc
  | act sh ts i h hn ch => exact sinv_act hs hA i h hn ch

theorem inv_reachable {c : Cfg} (hr : Reachable c) : (∀ g, AInv g c) ∧ SInv c := by
  induction hr with
  | init n k => exact ⟨fun g => ainv_init g n k, sinv_init n k⟩
  | step _ hs ih => exact ⟨ainv_step ih.1 hs, sinv_step ih.2 ih.1 hs⟩

theorem sinv_reachable {c : Cfg} (hr : Reachable c) : SInv c := (inv_reachable hr).2

end SquidModel.Ipc.StoreMap
