/-
Preservation of the PageStack invariant: one lemma per kind of atomic action (and per way a method starts).
-/
import SquidModel.Ipc.PageStackInv

namespace SquidModel.Ipc.PageStack

/-- replacing a thread by one with the same contributions (and a well-formed pc) preserves the invariant: loads, failed
compare-exchanges and the start of `pop` -/
theorem inv_same {cap H : Nat} {s : Sh} {ts : List Th} (hinv : Inv cap H (s, ts)) (i : Nat) (h : i < ts.length) (t' : Th)
    (hwf : WF cap H t') (hr : ∀ l o, resv H t' l o = resv H ts[i] l o) (hp : ∀ l o, pend t' l o = pend ts[i] l o)
    (ho : ∀ id, owns t' id = owns ts[i] id) (h1 : prePush t' = prePush ts[i]) (h2 : postPop t' = postPop ts[i])
    (h3 : outCount t' = outCount ts[i]) : Inv cap H (s, ts.set i t') := by
  obtain ⟨wf, cnt, own, lf, sz, szc⟩ := hinv
  refine ⟨wf_set wf i t' hwf, ?_, ?_, lf, ?_, ?_⟩
  · intro l o d hl ho' hd
    have := cnt l o d hl ho' hd
    have e1 := tsum_set (fun t => resv H t (l + 1) (2 * o + d)) ts i h t'
    have e2 := tsum_set (fun t => pend t (l + 1) (2 * o + d)) ts i h t'
    simp only [hr, hp] at e1 e2
    simp only at this ⊢
    split <;> rename_i hc <;> simp only [hc, if_true, if_false] at this
    · omega
    · exact this
  · intro id
    have := own id
    have e := tsum_set (fun t => owns t id) ts i h t'
    simp only [ho] at e
    simp only at this ⊢
    split <;> rename_i hc <;> simp only [hc, if_true, if_false] at this <;> omega
  · have e1 := tsum_set prePush ts i h t'
    have e2 := tsum_set postPop ts i h t'
    simp only at sz ⊢
    omega
  · have e := tsum_set outCount ts i h t'
    simp only at szc ⊢
    omega

/-- a popper positioned below the root always finds a unit in its inner node -/
theorem popper_inner_pos {cap H : Nat} {s : Sh} {ts : List Th} (hinv : Inv cap H (s, ts)) (i : Nat) (h : i < ts.length)
    (l o : Nat) (hl : l ≠ 0) (hlH : l < H) (hlive : o < liveCount cap H l)
    (hpc : resv H ts[i] l o = 1) : 0 < (s.inner l o).1 + (s.inner l o).2 := by
  have hc := hinv.cnt (l - 1) (o / 2) (o % 2) (by omega)
    (by have := liveCount_step cap H (l - 1) (by omega); rw [show l - 1 + 1 = l by omega] at this; omega) (by omega)
  have e1 : l - 1 + 1 = l := by omega
  have e2 : 2 * (o / 2) + o % 2 = o := by omega
  simp only [e1, e2, hlive, if_true] at hc
  have := tsum_ge (fun t => resv H t l o) ts i h
  simp only [hpc] at this
  unfold total at hc
  simp only [show ¬ l = H by omega, if_false] at hc
  omega

/-- a popper positioned at a leaf always finds a set bit there -/
theorem popper_leaf_pos {cap H : Nat} (hH : 1 ≤ H) {s : Sh} {ts : List Th} (hinv : Inv cap H (s, ts)) (i : Nat) (h : i < ts.length)
    (o : Nat) (hlive : o < liveCount cap H H) (hpc : resv H ts[i] H o = 1) : 0 < pop64 (s.leaf o) := by
  have hc := hinv.cnt (H - 1) (o / 2) (o % 2) (by omega)
    (by have := liveCount_step cap H (H - 1) (by omega); rw [show H - 1 + 1 = H by omega] at this; omega) (by omega)
  have e1 : H - 1 + 1 = H := by omega
  have e2 : 2 * (o / 2) + o % 2 = o := by omega
  simp only [e1, e2, hlive, if_true] at hc
  have := tsum_ge (fun t => resv H t H o) ts i h
  simp only [hpc] at this
  unfold total at hc
  simp only [if_true] at hc
  omega

/-- the loop body of `innerPop` after obtaining `oldValue` (by the load or by a failed CAS) keeps the invariant -/
theorem inv_afterInnerRead {cap H : Nat} {s : Sh} {ts : List Th} (hinv : Inv cap H (s, ts)) (i : Nat) (h : i < ts.length)
    (l o : Nat) (held : List Nat) (hlH : l < H) (hlive : o < liveCount cap H l) (hroot : l = 0 → o = 0)
    (hresv : ∀ l' o', resv H ts[i] l' o' = if l = l' ∧ o = o' ∧ l' ≠ 0 then 1 else 0) (hpend : ∀ l' o', pend ts[i] l' o' = 0)
    (hown : ∀ id, owns ts[i] id = held.count id) (hpre : prePush ts[i] = 0) (hpost : postPop ts[i] = if l ≠ 0 then 1 else 0)
    (hout : outCount ts[i] = held.length) :
    Inv cap H (s, ts.set i ⟨(afterInnerRead l o (s.inner l o)).1, held⟩) := by
  unfold afterInnerRead
  split
  · rename_i hz
    split
    · rename_i hl0
      apply inv_same hinv i h
      · simp [WF]
      · intro l' o'; rw [hresv]; simp [resv]; omega
      · intro l' o'; rw [hpend]; simp [pend]
      · intro id; rw [hown]; simp [owns]
      · rw [hpre]; simp [prePush]
      · rw [hpost]; simp [postPop, hl0]
      · rw [hout]; simp [outCount]
    · rename_i hl0
      exfalso
      have := popper_inner_pos hinv i h l o hl0 hlH hlive (by rw [hresv]; simp [hl0])
      omega
  · rename_i hz
    apply inv_same hinv i h
    · simp only [WF]; exact ⟨hlH, hlive, hroot, by omega⟩
    · intro l' o'; rw [hresv]; simp [resv]
    · intro l' o'; rw [hpend]; simp [pend]
    · intro id; rw [hown]; simp [owns]
    · rw [hpre]; simp [prePush]
    · rw [hpost]; simp [postPop]
    · rw [hout]; simp [outCount]

theorem inv_popLoad {cap H : Nat} {s : Sh} {ts : List Th} (hinv : Inv cap H (s, ts)) (i : Nat) (h : i < ts.length)
    (l o : Nat) (held : List Nat) (ht : ts[i] = ⟨.popLoad l o, held⟩) :
    Inv cap H ((act H s ⟨.popLoad l o, held⟩).1, ts.set i (act H s ⟨.popLoad l o, held⟩).2.1) := by
  have hwf := hinv.wf _ (List.getElem_mem h)
  rw [ht] at hwf; simp only [WF] at hwf
  simp only [act]
  exact inv_afterInnerRead hinv i h l o held hwf.1 hwf.2.1 hwf.2.2
    (by intro l' o'; rw [ht]; simp [resv]) (by intro l' o'; rw [ht]; simp [pend]) (by intro id; rw [ht]; simp [owns])
    (by rw [ht]; simp [prePush]) (by rw [ht]; simp [postPop]) (by rw [ht]; simp [outCount])

/-- successful compare-exchange of `innerPop`: one unit moves from the counter of direction `d` to a reservation at that child -/
theorem inv_popCas_ok {cap H : Nat} {s : Sh} {ts : List Th} (hinv : Inv cap H (s, ts)) (i : Nat) (h : i < ts.length)
    (l o a b : Nat) (held : List Nat) (ht : ts[i] = ⟨.popCas l o a b, held⟩) (hcur : s.inner l o = (a, b))
    (t' : Th) (d : Nat) (nv : Nat × Nat)
    (hnv : (nv.1 + 1 = a ∧ nv.2 = b ∧ d = 0) ∨ (nv.1 = a ∧ nv.2 + 1 = b ∧ d = 1))
    (hwf' : 2 * o + d < liveCount cap H (l + 1) → WF cap H t')
    (hresv' : ∀ L O, resv H t' L O = if L = l + 1 ∧ O = 2 * o + d then 1 else 0)
    (hpend' : ∀ L O, pend t' L O = 0) (hown' : ∀ id, owns t' id = held.count id) (hpre' : prePush t' = 0)
    (hpost' : postPop t' = 1) (hout' : outCount t' = held.length) :
    Inv cap H ({ s with inner := setInner s.inner l o nv }, ts.set i t') := by
  have hwf := hinv.wf _ (List.getElem_mem h)
  rw [ht] at hwf; simp only [WF] at hwf
  obtain ⟨hlH, hlive, hroot, _⟩ := hwf
  obtain ⟨wf, cnt, own, lf, sz, szc⟩ := hinv
  dsimp only at wf cnt own lf sz szc
  have hresv : ∀ L O, resv H ts[i] L O = if l = L ∧ o = O ∧ L ≠ 0 then 1 else 0 := by intro L O; rw [ht]; simp [resv]
  have hpend : ∀ L O, pend ts[i] L O = 0 := by intro L O; rw [ht]; simp [pend]
  have hd2 : d < 2 := by omega
  -- the chosen child is live, because its counter was positive
  have hchild : 2 * o + d < liveCount cap H (l + 1) := by
    have c := cnt l o d hlH hlive hd2
    split at c
    · assumption
    · exfalso; rw [hcur] at c; unfold side at c; rcases hnv with ⟨h1, h2, h3⟩ | ⟨h1, h2, h3⟩ <;> simp [h3] at c <;> omega
  refine ⟨wf_set wf i t' (hwf' hchild), ?_, ?_, lf, ?_, ?_⟩
  · intro l1 o1 d1 hl1 ho1 hd1
    have c := cnt l1 o1 d1 hl1 ho1 hd1
    have e1 := tsum_set (fun t => resv H t (l1 + 1) (2 * o1 + d1)) ts i h t'
    have e2 := tsum_set (fun t => pend t (l1 + 1) (2 * o1 + d1)) ts i h t'
    simp only [hresv, hresv', hpend, hpend'] at e1 e2
    simp only at c ⊢
    split
    · rename_i hlv
      simp only [hlv, if_true] at c
      unfold total at c ⊢
      simp only [setInner]
      by_cases hA : l1 = l ∧ o1 = o
      · obtain ⟨rfl, rfl⟩ := hA
        have hne : ¬ (l1 + 1 = l1 ∧ 2 * o1 + d1 = o1) := by omega
        simp only [hne, if_false, and_self, if_true]
        rw [hcur] at c
        unfold side at c ⊢
        rcases hnv with ⟨h1, h2, h3⟩ | ⟨h1, h2, h3⟩ <;> subst h3 <;>
          (have : d1 = 0 ∨ d1 = 1 := by omega) <;> rcases this with rfl | rfl <;> simp at c e1 e2 ⊢ <;> omega
      · by_cases hB : l1 + 1 = l ∧ 2 * o1 + d1 = o
        · obtain ⟨rfl, rfl⟩ := hB
          have hnH : ¬ (l1 + 1 = H) := by omega
          simp only [hnH, if_false, and_self, if_true, hA] at c ⊢
          rw [hcur] at c
          have hne : ¬ (l1 + 1 = l1 + 1 + 1 ∧ 2 * o1 + d1 = 2 * (2 * o1 + d1) + d) := by omega
          simp only [hne, if_false] at e1
          simp at e1
          rcases hnv with ⟨h1, h2, h3⟩ | ⟨h1, h2, h3⟩ <;> omega
        · simp only [hA, hB, if_false]
          have hne1 : ¬ (l = l1 + 1 ∧ o = 2 * o1 + d1 ∧ l1 + 1 ≠ 0) := by omega
          have hne2 : ¬ (l1 + 1 = l + 1 ∧ 2 * o1 + d1 = 2 * o + d) := by omega
          simp only [hne1, hne2, if_false] at e1
          omega
    · rename_i hlv
      simp only [hlv, if_false] at c
      simp only [setInner]
      by_cases hA : l1 = l ∧ o1 = o
      · obtain ⟨rfl, rfl⟩ := hA
        simp only [and_self, if_true]
        rw [hcur] at c
        unfold side at c ⊢
        rcases hnv with ⟨h1, h2, h3⟩ | ⟨h1, h2, h3⟩ <;> subst h3 <;>
          (have : d1 = 0 ∨ d1 = 1 := by omega) <;> rcases this with rfl | rfl <;> simp at c ⊢ <;> omega
      · simp only [hA, if_false]; exact c
  · intro id
    have := own id
    have e := tsum_set (fun t => owns t id) ts i h t'
    have hown : owns ts[i] id = held.count id := by rw [ht]; simp [owns]
    rw [hown', hown] at e
    simp only [bit] at this ⊢
    split <;> rename_i hc <;> simp only [hc, if_true, if_false] at this <;> omega
  · have e1 := tsum_set prePush ts i h t'
    have e2 := tsum_set postPop ts i h t'
    have hpre : prePush ts[i] = 0 := by rw [ht]; simp [prePush]
    have hpost : postPop ts[i] = if l ≠ 0 then 1 else 0 := by rw [ht]; simp [postPop]
    rw [hpre', hpre] at e1; rw [hpost', hpost] at e2
    dsimp only at sz ⊢
    have hH0 : ¬ (0 = H) := by omega
    unfold total at sz ⊢
    simp only [hH0, if_false, setInner] at sz ⊢
    by_cases hl0 : l = 0
    · have ho0 := hroot hl0
      subst hl0; subst ho0
      simp only [and_self, if_true]
      rw [hcur] at sz
      simp at e2
      dsimp only at sz
      rcases hnv with ⟨h1, h2, h3⟩ | ⟨h1, h2, h3⟩ <;> omega
    · have : ¬ (0 = l ∧ 0 = o) := by omega
      simp only [this, if_false] at e2 ⊢
      rw [if_pos hl0] at e2
      omega
  · have e := tsum_set outCount ts i h t'
    have hout : outCount ts[i] = held.length := by rw [ht]; simp [outCount]
    rw [hout', hout] at e
    dsimp only at szc ⊢
    omega

theorem inv_popCas {cap H : Nat} {s : Sh} {ts : List Th} (hinv : Inv cap H (s, ts)) (i : Nat) (h : i < ts.length)
    (l o a b : Nat) (held : List Nat) (ht : ts[i] = ⟨.popCas l o a b, held⟩) :
    Inv cap H ((act H s ⟨.popCas l o a b, held⟩).1, ts.set i (act H s ⟨.popCas l o a b, held⟩).2.1) := by
  have hwf := hinv.wf _ (List.getElem_mem h)
  rw [ht] at hwf; simp only [WF] at hwf
  obtain ⟨hlH, hlive, hroot, hab⟩ := hwf
  simp only [act]
  split
  · rename_i hcur
    dsimp only
    apply inv_popCas_ok hinv i h l o a b held ht hcur _ (if a ≠ 0 then 0 else 1)
    · by_cases ha : a = 0
      · simp [ha]; omega
      · simp [ha]; omega
    · intro hchild
      split
      · rename_i hl; simp only [WF]; rw [hl] at hchild; exact hchild
      · simp only [WF]; exact ⟨by omega, hchild, by omega⟩
    · intro L O
      split
      · rename_i hl; simp only [resv]; rw [← hl]
        by_cases hc : L = l + 1 ∧ O = 2 * o + (if a ≠ 0 then 0 else 1)
        · obtain ⟨rfl, rfl⟩ := hc; simp
        · rw [if_neg hc, if_neg]; omega
      · simp only [resv]
        by_cases hc : L = l + 1 ∧ O = 2 * o + (if a ≠ 0 then 0 else 1)
        · obtain ⟨rfl, rfl⟩ := hc; simp
        · rw [if_neg hc, if_neg]; omega
    · intro L O; split <;> simp [pend]
    · intro id; split <;> simp [owns]
    · split <;> simp [prePush]
    · split <;> simp [postPop]
    · split <;> simp [outCount]
  · exact inv_afterInnerRead hinv i h l o held hlH hlive hroot
      (by intro l' o'; rw [ht]; simp [resv]) (by intro l' o'; rw [ht]; simp [pend]) (by intro id; rw [ht]; simp [owns])
      (by rw [ht]; simp [prePush]) (by rw [ht]; simp [postPop]) (by rw [ht]; simp [outCount])

/-- the loop body of `leafPop` after obtaining `oldValue` keeps the invariant (`assert(oldValue > 0)` holds) -/
theorem inv_afterLeafRead {cap H : Nat} (hH : 1 ≤ H) {s : Sh} {ts : List Th} (hinv : Inv cap H (s, ts)) (i : Nat) (h : i < ts.length)
    (o : Nat) (held : List Nat) (hlive : o < liveCount cap H H)
    (hresv : ∀ l' o', resv H ts[i] l' o' = if l' = H ∧ o = o' then 1 else 0) (hpend : ∀ l' o', pend ts[i] l' o' = 0)
    (hown : ∀ id, owns ts[i] id = held.count id) (hpre : prePush ts[i] = 0) (hpost : postPop ts[i] = 1)
    (hout : outCount ts[i] = held.length) :
    Inv cap H (s, ts.set i ⟨afterLeafRead o (s.leaf o), held⟩) := by
  unfold afterLeafRead
  split
  · rename_i hz
    exfalso
    have := popper_leaf_pos hH hinv i h o hlive (by rw [hresv]; simp)
    exact ne_zero_of_pop64_pos _ this hz
  · rename_i hz
    apply inv_same hinv i h
    · simp only [WF]; exact ⟨hlive, hz⟩
    · intro l' o'; rw [hresv]; simp [resv]
    · intro l' o'; rw [hpend]; simp [pend]
    · intro id; rw [hown]; simp [owns]
    · rw [hpre]; simp [prePush]
    · rw [hpost]; simp [postPop]
    · rw [hout]; simp [outCount]

theorem inv_leafLoad {cap H : Nat} (hH : 1 ≤ H) {s : Sh} {ts : List Th} (hinv : Inv cap H (s, ts)) (i : Nat) (h : i < ts.length)
    (o : Nat) (held : List Nat) (ht : ts[i] = ⟨.leafLoad o, held⟩) :
    Inv cap H ((act H s ⟨.leafLoad o, held⟩).1, ts.set i (act H s ⟨.leafLoad o, held⟩).2.1) := by
  have hwf := hinv.wf _ (List.getElem_mem h)
  rw [ht] at hwf; simp only [WF] at hwf
  simp only [act]
  exact inv_afterLeafRead hH hinv i h o held hwf
    (by intro l' o'; rw [ht]; simp [resv]) (by intro l' o'; rw [ht]; simp [pend]) (by intro id; rw [ht]; simp [owns])
    (by rw [ht]; simp [prePush]) (by rw [ht]; simp [postPop]) (by rw [ht]; simp [outCount])

/-- `id = o*64 + k` in terms of the leaf coordinates -/
theorem id_coords (id o k : Nat) (hk : k < 64) : id = o * 64 + k ↔ (id / 64 = o ∧ id % 64 = k) := by omega

theorem bit_setLeaf (s : Sh) (o v id : Nat) :
    bit { s with leaf := setLeaf s.leaf o v } id = if id / 64 = o then (if v.testBit (id % 64) then 1 else 0) else bit s id := by
  unfold bit setLeaf
  dsimp only
  split <;> rfl

theorem total_setLeaf (H : Nat) (s : Sh) (o v l o' : Nat) :
    total H { s with leaf := setLeaf s.leaf o v } l o' = if l = H ∧ o' = o then pop64 v else total H s l o' := by
  unfold total setLeaf
  dsimp only
  by_cases h1 : l = H <;> by_cases h2 : o' = o <;> simp [h1, h2]

theorem total_setInner (H : Nat) (s : Sh) (l o : Nat) (v : Nat × Nat) (l' o' : Nat) (hl : l < H) :
    total H { s with inner := setInner s.inner l o v } l' o' = if l' = l ∧ o' = o then v.1 + v.2 else total H s l' o' := by
  unfold total setInner
  dsimp only
  by_cases h1 : l' = l ∧ o' = o
  · have : ¬ l' = H := by omega
    rw [if_neg this, if_pos h1, if_pos h1]
  · simp only [h1, if_false]

/-- successful compare-exchange of `leafPop`: the lowest set bit leaves the leaf, the thread now carries that id -/
theorem inv_leafCas_ok {cap H : Nat} (hH : 1 ≤ H) {s : Sh} {ts : List Th} (hinv : Inv cap H (s, ts)) (i : Nat) (h : i < ts.length)
    (o old : Nat) (held : List Nat) (ht : ts[i] = ⟨.leafCas o old, held⟩) (hcur : s.leaf o = old) (t' : Th)
    (hwf' : WF cap H t') (hresv' : ∀ L O, resv H t' L O = 0) (hpend' : ∀ L O, pend t' L O = 0)
    (hown' : ∀ id, owns t' id = held.count id + if o * 64 + trailingZeros old = id then 1 else 0)
    (hpre' : prePush t' = 0) (hpost' : postPop t' = 1) (hout' : outCount t' = held.length) :
    Inv cap H ({ s with leaf := setLeaf s.leaf o (clearLowest old) }, ts.set i t') := by
  have hwf := hinv.wf _ (List.getElem_mem h)
  rw [ht] at hwf; simp only [WF] at hwf
  obtain ⟨hlive, hold⟩ := hwf
  have hresv : ∀ L O, resv H ts[i] L O = if L = H ∧ o = O then 1 else 0 := by intro L O; rw [ht]; simp [resv]
  have hpend : ∀ L O, pend ts[i] L O = 0 := by intro L O; rw [ht]; simp [pend]
  obtain ⟨wf, cnt, own, lf, sz, szc⟩ := hinv
  dsimp only at wf cnt own lf sz szc
  have hlt : old < 2 ^ 64 := hcur ▸ (lf o).1
  obtain ⟨hk64, hkbit, hklow⟩ := trailingZeros_spec old hold hlt
  have hclr := clearLowest_testBit (trailingZeros old) old hkbit hklow
  have hidcap : o * 64 + trailingZeros old < cap := (lf o).2 hlive _ (hcur ▸ hkbit)
  refine ⟨wf_set wf i _ hwf', ?_, ?_, ?_, ?_, ?_⟩
  · intro l1 o1 d1 hl1 ho1 hd1
    have c := cnt l1 o1 d1 hl1 ho1 hd1
    have e1 := tsum_set (fun t => resv H t (l1 + 1) (2 * o1 + d1)) ts i h t'
    have e2 := tsum_set (fun t => pend t (l1 + 1) (2 * o1 + d1)) ts i h t'
    rw [hresv, hresv'] at e1
    rw [hpend, hpend'] at e2
    dsimp only
    rw [total_setLeaf]
    split
    · rename_i hlv
      rw [if_pos hlv] at c
      by_cases hA : l1 + 1 = H ∧ 2 * o1 + d1 = o
      · have hA' : l1 + 1 = H ∧ o = 2 * o1 + d1 := ⟨hA.1, hA.2.symm⟩
        rw [if_pos hA'] at e1
        rw [if_pos hA]
        have hp := pop64_clearLowest old hold hlt
        have ht : total H s (l1 + 1) (2 * o1 + d1) = pop64 old := by
          unfold total; rw [if_pos hA.1, hA.2, hcur]
        omega
      · have hA' : ¬ (l1 + 1 = H ∧ o = 2 * o1 + d1) := fun e => hA ⟨e.1, e.2.symm⟩
        rw [if_neg hA'] at e1
        rw [if_neg hA]
        omega
    · rename_i hlv
      rw [if_neg hlv] at c
      exact c
  · intro id
    have := own id
    have e := tsum_set (fun t => owns t id) ts i h t'
    have hown : owns ts[i] id = held.count id := by rw [ht]; simp [owns]
    rw [hown, hown'] at e
    dsimp only
    rw [bit_setLeaf]
    have hco := id_coords id o (trailingZeros old) hk64
    by_cases hid : o * 64 + trailingZeros old = id
    · have h1 := hco.mp hid.symm
      have hlt' : id < cap := by omega
      have hb : (clearLowest old).testBit (id % 64) = false := by rw [hclr, h1.2]; simp
      have hb0 : bit s id = 1 := by unfold bit; rw [h1.1, h1.2, hcur, if_pos hkbit]
      rw [if_pos hid] at e
      rw [if_pos hlt'] at this ⊢
      rw [if_pos h1.1, hb]
      simp only [Bool.false_eq_true, if_false]
      omega
    · rw [if_neg hid] at e
      by_cases ho : id / 64 = o
      · have hk : ¬ (id % 64 = trailingZeros old) := fun e => hid (hco.mpr ⟨ho, e⟩).symm
        have hb : (clearLowest old).testBit (id % 64) = old.testBit (id % 64) := by rw [hclr]; simp [hk]
        have hb0 : bit s id = if old.testBit (id % 64) then 1 else 0 := by unfold bit; rw [ho, hcur]
        rw [if_pos ho, hb, ← hb0]
        split <;> rename_i hc <;> simp only [hc, if_true, if_false] at this <;> omega
      · rw [if_neg ho]
        split <;> rename_i hc <;> simp only [hc, if_true, if_false] at this <;> omega
  · intro o'
    simp only [setLeaf]
    split
    · rename_i ho; subst ho
      refine ⟨Nat.lt_of_le_of_lt (clearLowest_le old) hlt, fun hl b hb => ?_⟩
      rw [hclr] at hb
      simp only [Bool.and_eq_true] at hb
      exact (lf o').2 hl b (hcur ▸ hb.1)
    · exact lf o'
  · have e1 := tsum_set prePush ts i h t'
    have e2 := tsum_set postPop ts i h t'
    have hpre : prePush ts[i] = 0 := by rw [ht]; simp [prePush]
    have hpost : postPop ts[i] = 1 := by rw [ht]; simp [postPop]
    rw [hpre, hpre'] at e1; rw [hpost, hpost'] at e2
    have hH0 : ¬ (0 = H) := by omega
    unfold total at sz ⊢
    simp only [hH0, if_false] at sz ⊢
    omega
  · have e := tsum_set outCount ts i h t'
    have hout : outCount ts[i] = held.length := by rw [ht]; simp [outCount]
    rw [hout, hout'] at e
    dsimp only
    omega

theorem inv_leafCas {cap H : Nat} (hH : 1 ≤ H) {s : Sh} {ts : List Th} (hinv : Inv cap H (s, ts)) (i : Nat) (h : i < ts.length)
    (o old : Nat) (held : List Nat) (ht : ts[i] = ⟨.leafCas o old, held⟩) :
    Inv cap H ((act H s ⟨.leafCas o old, held⟩).1, ts.set i (act H s ⟨.leafCas o old, held⟩).2.1) := by
  have hwf := hinv.wf _ (List.getElem_mem h)
  rw [ht] at hwf; simp only [WF] at hwf
  obtain ⟨hlive, hold⟩ := hwf
  simp only [act]
  split
  · rename_i hcur
    dsimp only
    exact inv_leafCas_ok hH hinv i h o old held ht hcur _ (by simp [WF]) (by intro L O; simp [resv]) (by intro L O; simp [pend])
      (by intro id; simp only [owns, BitsPerLeaf]; rfl) (by simp [prePush]) (by simp [postPop]) (by simp [outCount])
  · exact inv_afterLeafRead hH hinv i h o held hlive
      (by intro l' o'; rw [ht]; simp [resv]) (by intro l' o'; rw [ht]; simp [pend]) (by intro id; rw [ht]; simp [owns])
      (by rw [ht]; simp [prePush]) (by rw [ht]; simp [postPop]) (by rw [ht]; simp [outCount])

/-- a step that changes neither the tree nor any reservation/pending unit: only `size_`, the ownership bookkeeping and the
size classes move (`--size_`, `++size_`) -/
theorem inv_sizeStep {cap H : Nat} {s : Sh} {ts : List Th} (hinv : Inv cap H (s, ts)) (i : Nat) (h : i < ts.length)
    (t' : Th) (size' : Nat) (hwf' : WF cap H t')
    (hr : ∀ l o, resv H t' l o = resv H ts[i] l o) (hp : ∀ l o, pend t' l o = pend ts[i] l o)
    (ho : ∀ id, owns t' id = owns ts[i] id)
    (hsz : size' + prePush ts[i] + postPop ts[i] = s.size + prePush t' + postPop t')
    (hszc : size' + outCount t' = s.size + outCount ts[i]) :
    Inv cap H ({ s with size := size' }, ts.set i t') := by
  obtain ⟨wf, cnt, own, lf, sz, szc⟩ := hinv
  dsimp only at wf cnt own lf sz szc
  refine ⟨wf_set wf i t' hwf', ?_, ?_, lf, ?_, ?_⟩
  · intro l o d hl ho' hd
    have c := cnt l o d hl ho' hd
    have e1 := tsum_set (fun t => resv H t (l + 1) (2 * o + d)) ts i h t'
    have e2 := tsum_set (fun t => pend t (l + 1) (2 * o + d)) ts i h t'
    rw [hr] at e1; rw [hp] at e2
    dsimp only
    have ht : total H { s with size := size' } (l + 1) (2 * o + d) = total H s (l + 1) (2 * o + d) := rfl
    rw [ht]
    split <;> rename_i hc
    · rw [if_pos hc] at c; omega
    · rw [if_neg hc] at c; exact c
  · intro id
    have := own id
    have e := tsum_set (fun t => owns t id) ts i h t'
    rw [ho] at e
    have hb : bit { s with size := size' } id = bit s id := rfl
    dsimp only
    rw [hb]
    split <;> rename_i hc
    · rw [if_pos hc] at this; omega
    · rw [if_neg hc] at this; omega
  · have e1 := tsum_set prePush ts i h t'
    have e2 := tsum_set postPop ts i h t'
    have ht : total H { s with size := size' } 0 0 = total H s 0 0 := rfl
    dsimp only
    rw [ht]
    omega
  · have e := tsum_set outCount ts i h t'
    dsimp only
    omega

theorem inv_popDec {cap H : Nat} {s : Sh} {ts : List Th} (hinv : Inv cap H (s, ts)) (i : Nat) (h : i < ts.length)
    (id : Nat) (held : List Nat) (ht : ts[i] = ⟨.popDec id, held⟩) :
    Inv cap H ((act H s ⟨.popDec id, held⟩).1, ts.set i (act H s ⟨.popDec id, held⟩).2.1) := by
  simp only [act]
  -- `size_` is at least the number of poppers that have not yet decremented it: no underflow
  have hpos : 1 ≤ s.size := by
    have := tsum_ge postPop ts i h
    rw [ht] at this; simp only [postPop] at this
    have := hinv.sz; dsimp only at this
    omega
  apply inv_sizeStep hinv i h
  · simp [WF]
  · intro l o; rw [ht]; simp [resv]
  · intro l o; rw [ht]; simp [pend]
  · intro id'; rw [ht]; simp only [owns, List.count_cons]
    by_cases e : id = id' <;> simp [e] <;> omega
  · rw [ht]; simp only [prePush, postPop]; omega
  · rw [ht]; simp only [outCount, List.length_cons]; omega

theorem inv_pushInc {cap H : Nat} {s : Sh} {ts : List Th} (hinv : Inv cap H (s, ts)) (i : Nat) (h : i < ts.length)
    (id : Nat) (held : List Nat) (ht : ts[i] = ⟨.pushInc id, held⟩) :
    Inv cap H ((act H s ⟨.pushInc id, held⟩).1, ts.set i (act H s ⟨.pushInc id, held⟩).2.1) := by
  simp only [act]
  apply inv_sizeStep hinv i h
  · simp [WF]
  · intro l o; rw [ht]; simp [resv]
  · intro l o; rw [ht]; simp [pend]
  · intro id'; rw [ht]; simp only [owns]
  · rw [ht]; simp only [prePush, postPop] <;> omega
  · rw [ht]; simp only [outCount] <;> omega

/-- a thread that carries an id owns it exclusively: the id is valid and its bit in the leaf is clear
(`assert((oldValue & mask) == 0)` in `leafPush`) -/
theorem carried_id_free {cap H : Nat} {s : Sh} {ts : List Th} (hinv : Inv cap H (s, ts)) (i : Nat) (h : i < ts.length)
    (id : Nat) (hown : 1 ≤ owns ts[i] id) : id < cap ∧ (s.leaf (id / 64)).testBit (id % 64) = false := by
  have := hinv.own id
  have hge := tsum_ge (fun t => owns t id) ts i h
  dsimp only at this hge
  by_cases hc : id < cap
  · rw [if_pos hc] at this
    refine ⟨hc, ?_⟩
    unfold bit at this
    cases hb : (s.leaf (id / 64)).testBit (id % 64)
    · rfl
    · rw [hb] at this; simp only [if_true] at this; omega
  · rw [if_neg hc] at this; omega

theorem inv_pushLeaf_ok {cap H : Nat} (hH : 1 ≤ H) {s : Sh} {ts : List Th} (hinv : Inv cap H (s, ts)) (i : Nat) (h : i < ts.length)
    (id : Nat) (held : List Nat) (ht : ts[i] = ⟨.pushLeaf id, held⟩) (t' : Th)
    (hwf' : id / 64 < liveCount cap H H → WF cap H t')
    (hresv' : ∀ L O, resv H t' L O = 0) (hpend' : ∀ L O, pend t' L O = if H = L ∧ id / 64 = O then 1 else 0)
    (hown' : ∀ id', owns t' id' = held.count id') (hpre' : prePush t' = 1) (hpost' : postPop t' = 0)
    (hout' : outCount t' = held.length) :
    Inv cap H ({ s with leaf := setLeaf s.leaf (id / 64) (s.leaf (id / 64) ||| 1 <<< (id % 64)) }, ts.set i t') := by
  obtain ⟨hidcap, hclear⟩ := carried_id_free hinv i h id (by rw [ht]; simp [owns])
  have hresv : ∀ L O, resv H ts[i] L O = 0 := by intro L O; rw [ht]; simp [resv]
  have hpend : ∀ L O, pend ts[i] L O = 0 := by intro L O; rw [ht]; simp [pend]
  obtain ⟨wf, cnt, own, lf, sz, szc⟩ := hinv
  dsimp only at wf cnt own lf sz szc
  have hk64 : id % 64 < 64 := by omega
  have hlive : id / 64 < liveCount cap H H := by rw [liveCount_leaf]; omega
  refine ⟨wf_set wf i _ (hwf' hlive), ?_, ?_, ?_, ?_, ?_⟩
  · intro l1 o1 d1 hl1 ho1 hd1
    have c := cnt l1 o1 d1 hl1 ho1 hd1
    have e1 := tsum_set (fun t => resv H t (l1 + 1) (2 * o1 + d1)) ts i h t'
    have e2 := tsum_set (fun t => pend t (l1 + 1) (2 * o1 + d1)) ts i h t'
    rw [hresv, hresv'] at e1
    rw [hpend, hpend'] at e2
    dsimp only
    rw [total_setLeaf]
    split
    · rename_i hlv
      rw [if_pos hlv] at c
      by_cases hA : l1 + 1 = H ∧ 2 * o1 + d1 = id / 64
      · have hA' : H = l1 + 1 ∧ id / 64 = 2 * o1 + d1 := ⟨hA.1.symm, hA.2.symm⟩
        rw [if_pos hA'] at e2
        rw [if_pos hA]
        have hp := pop64_orBit (s.leaf (id / 64)) (id % 64) hk64 hclear
        have ht : total H s (l1 + 1) (2 * o1 + d1) = pop64 (s.leaf (id / 64)) := by
          unfold total; rw [if_pos hA.1, hA.2]
        omega
      · have hA' : ¬ (H = l1 + 1 ∧ id / 64 = 2 * o1 + d1) := fun e => hA ⟨e.1.symm, e.2.symm⟩
        rw [if_neg hA'] at e2
        rw [if_neg hA]
        omega
    · rename_i hlv
      rw [if_neg hlv] at c
      exact c
  · intro id'
    have := own id'
    have e := tsum_set (fun t => owns t id') ts i h t'
    have hown : owns ts[i] id' = held.count id' + if id = id' then 1 else 0 := by rw [ht]; simp only [owns]
    rw [hown, hown'] at e
    dsimp only
    rw [bit_setLeaf]
    by_cases hid : id = id'
    · subst hid
      rw [if_pos rfl] at e
      rw [if_pos hidcap] at this ⊢
      have hb : (s.leaf (id / 64) ||| 1 <<< (id % 64)).testBit (id % 64) = true := by rw [orBit_testBit]; simp
      have hb0 : bit s id = 0 := by unfold bit; rw [hclear]; rfl
      rw [if_pos rfl, hb]
      simp only [if_true]
      omega
    · rw [if_neg hid] at e
      by_cases ho : id' / 64 = id / 64
      · have hk : ¬ (id % 64 = id' % 64) := by omega
        have hb : (s.leaf (id / 64) ||| 1 <<< (id % 64)).testBit (id' % 64) = (s.leaf (id / 64)).testBit (id' % 64) := by
          rw [orBit_testBit]; simp [hk]
        have hb0 : bit s id' = if (s.leaf (id / 64)).testBit (id' % 64) then 1 else 0 := by unfold bit; rw [ho]
        rw [if_pos ho, hb, ← hb0]
        split <;> rename_i hc
        · rw [if_pos hc] at this; omega
        · rw [if_neg hc] at this; omega
      · rw [if_neg ho]
        split <;> rename_i hc
        · rw [if_pos hc] at this; omega
        · rw [if_neg hc] at this; omega
  · intro o'
    simp only [setLeaf]
    split
    · rename_i ho; subst ho
      refine ⟨orBit_lt _ _ (lf _).1 hk64, fun hl b hb => ?_⟩
      rw [orBit_testBit] at hb
      simp only [Bool.or_eq_true, decide_eq_true_eq] at hb
      rcases hb with hb | hb
      · exact (lf _).2 hl b hb
      · omega
    · exact lf o'
  · have e1 := tsum_set prePush ts i h t'
    have e2 := tsum_set postPop ts i h t'
    have hpre : prePush ts[i] = 1 := by rw [ht]; simp [prePush]
    have hpost : postPop ts[i] = 0 := by rw [ht]; simp [postPop]
    rw [hpre, hpre'] at e1; rw [hpost, hpost'] at e2
    have hH0 : ¬ (0 = H) := by omega
    unfold total at sz ⊢
    simp only [hH0, if_false] at sz ⊢
    omega
  · have e := tsum_set outCount ts i h t'
    have hout : outCount ts[i] = held.length := by rw [ht]; simp [outCount]
    rw [hout, hout'] at e
    dsimp only
    omega

theorem inv_pushLeaf {cap H : Nat} (hH : 1 ≤ H) {s : Sh} {ts : List Th} (hinv : Inv cap H (s, ts)) (i : Nat) (h : i < ts.length)
    (id : Nat) (held : List Nat) (ht : ts[i] = ⟨.pushLeaf id, held⟩) :
    Inv cap H ((act H s ⟨.pushLeaf id, held⟩).1, ts.set i (act H s ⟨.pushLeaf id, held⟩).2.1) := by
  obtain ⟨_, hclear⟩ := carried_id_free hinv i h id (by rw [ht]; simp [owns])
  have hz : s.leaf (id / BitsPerLeaf) &&& 1 <<< (id % BitsPerLeaf) = 0 := (andBit_eq_zero_iff _ _).mpr hclear
  simp only [act]
  rw [if_pos hz]
  exact inv_pushLeaf_ok hH hinv i h id held ht _ (by intro hl; simp only [WF, BitsPerLeaf]; exact ⟨hH, Nat.le_refl _, hl⟩)
    (by intro L O; simp [resv]) (by intro L O; simp only [pend, BitsPerLeaf]; rfl) (by intro id'; simp [owns])
    (by simp [prePush]) (by simp [postPop]) (by simp [outCount])

/-- `innerPush`: the pending unit of the pusher moves from its child node into the parent's counter for that direction -/
theorem inv_pushInner_ok {cap H : Nat} (hfit : liveCount cap H 0 ≤ 1) {s : Sh} {ts : List Th} (hinv : Inv cap H (s, ts))
    (i : Nat) (h : i < ts.length) (l o : Nat) (held : List Nat) (ht : ts[i] = ⟨.pushInner l o, held⟩) (t' : Th) (nv : Nat × Nat)
    (hnv : (o % 2 = 0 ∧ nv.1 = (s.inner (l - 1) (o / 2)).1 + 1 ∧ nv.2 = (s.inner (l - 1) (o / 2)).2) ∨
           (o % 2 = 1 ∧ nv.1 = (s.inner (l - 1) (o / 2)).1 ∧ nv.2 = (s.inner (l - 1) (o / 2)).2 + 1))
    (hwf' : o / 2 < liveCount cap H (l - 1) → WF cap H t')
    (hresv' : ∀ L O, resv H t' L O = 0)
    (hpend' : ∀ L O, pend t' L O = if l - 1 ≠ 0 ∧ l - 1 = L ∧ o / 2 = O then 1 else 0)
    (hown' : ∀ id', owns t' id' = held.count id') (hpre' : prePush t' = if l - 1 ≠ 0 then 1 else 0) (hpost' : postPop t' = 0)
    (hout' : outCount t' = held.length) :
    Inv cap H ({ s with inner := setInner s.inner (l - 1) (o / 2) nv }, ts.set i t') := by
  have hwf := hinv.wf _ (List.getElem_mem h)
  rw [ht] at hwf; simp only [WF] at hwf
  obtain ⟨hl1, hlH, hlive⟩ := hwf
  have hresv : ∀ L O, resv H ts[i] L O = 0 := by intro L O; rw [ht]; simp [resv]
  have hpend : ∀ L O, pend ts[i] L O = if l = L ∧ o = O then 1 else 0 := by intro L O; rw [ht]; simp [pend]
  obtain ⟨wf, cnt, own, lf, sz, szc⟩ := hinv
  dsimp only at wf cnt own lf sz szc
  have hstep := liveCount_step cap H (l - 1) (by omega)
  rw [show l - 1 + 1 = l by omega] at hstep
  have hplive : o / 2 < liveCount cap H (l - 1) := by omega
  have hpl : l - 1 < H := by omega
  refine ⟨wf_set wf i _ (hwf' hplive), ?_, ?_, lf, ?_, ?_⟩
  · intro l1 o1 d1 hl1' ho1 hd1
    have c := cnt l1 o1 d1 hl1' ho1 hd1
    have e1 := tsum_set (fun t => resv H t (l1 + 1) (2 * o1 + d1)) ts i h t'
    have e2 := tsum_set (fun t => pend t (l1 + 1) (2 * o1 + d1)) ts i h t'
    rw [hresv, hresv'] at e1
    rw [hpend, hpend'] at e2
    dsimp only
    rw [total_setInner H s (l - 1) (o / 2) nv _ _ hpl]
    simp only [setInner]
    by_cases hA : l1 = l - 1 ∧ o1 = o / 2
    · -- the incremented node seen as a parent
      have hne : ¬ (l1 + 1 = l - 1 ∧ 2 * o1 + d1 = o / 2) := by omega
      have hne2 : ¬ (l - 1 ≠ 0 ∧ l - 1 = l1 + 1 ∧ o / 2 = 2 * o1 + d1) := by omega
      rw [if_neg hne, if_pos hA]
      rw [if_neg hne2] at e2
      clear hne hne2
      obtain ⟨rfl, rfl⟩ := hA
      by_cases hd : d1 = o % 2
      · have hchild : l = l - 1 + 1 ∧ o = 2 * (o / 2) + d1 := by omega
        have hlv : 2 * (o / 2) + d1 < liveCount cap H (l - 1 + 1) := by rw [← hchild.1, ← hchild.2]; exact hlive
        rw [if_pos hchild] at e2
        rw [if_pos hlv] at c ⊢
        unfold side at c ⊢
        rcases hnv with ⟨h1, h2, h3⟩ | ⟨h1, h2, h3⟩
        · have hd0 : d1 = 0 := by omega
          rw [if_pos hd0] at c ⊢; omega
        · have hd0 : ¬ d1 = 0 := by omega
          rw [if_neg hd0] at c ⊢; omega
      · have hchild : ¬ (l = l - 1 + 1 ∧ o = 2 * (o / 2) + d1) := by omega
        rw [if_neg hchild] at e2
        have hside : side nv d1 = side (s.inner (l - 1) (o / 2)) d1 := by
          unfold side
          rcases hnv with ⟨h1, h2, h3⟩ | ⟨h1, h2, h3⟩
          · have hd0 : ¬ d1 = 0 := by omega
            rw [if_neg hd0, if_neg hd0]; exact h3
          · have hd0 : d1 = 0 := by omega
            rw [if_pos hd0, if_pos hd0]; exact h2
        rw [hside]
        split <;> rename_i hc
        · rw [if_pos hc] at c; omega
        · rw [if_neg hc] at c; exact c
    · rw [if_neg hA]
      by_cases hB : l1 + 1 = l - 1 ∧ 2 * o1 + d1 = o / 2
      · -- the incremented node seen as a child: its total and the new pending unit both grow by one
        have hl0 : l - 1 ≠ 0 := by omega
        have hB' : l - 1 ≠ 0 ∧ l - 1 = l1 + 1 ∧ o / 2 = 2 * o1 + d1 := ⟨hl0, hB.1.symm, hB.2.symm⟩
        have hne : ¬ (l = l1 + 1 ∧ o = 2 * o1 + d1) := by omega
        have hlv : 2 * o1 + d1 < liveCount cap H (l1 + 1) := by rw [hB.1, hB.2]; exact hplive
        rw [if_pos hB'] at e2
        rw [if_neg hne] at e2
        rw [if_pos hB, if_pos hlv]
        rw [if_pos hlv] at c
        have ht : total H s (l1 + 1) (2 * o1 + d1) = (s.inner (l - 1) (o / 2)).1 + (s.inner (l - 1) (o / 2)).2 := by
          unfold total; rw [if_neg (by omega), hB.1, hB.2]
        rcases hnv with ⟨h1, h2, h3⟩ | ⟨h1, h2, h3⟩ <;> omega
      · have hB' : ¬ (l - 1 ≠ 0 ∧ l - 1 = l1 + 1 ∧ o / 2 = 2 * o1 + d1) := fun e => hB ⟨e.2.1.symm, e.2.2.symm⟩
        rw [if_neg hB'] at e2
        rw [if_neg hB]
        by_cases hchild : l = l1 + 1 ∧ o = 2 * o1 + d1
        · exfalso; omega
        · rw [if_neg hchild] at e2
          split <;> rename_i hc
          · rw [if_pos hc] at c; omega
          · rw [if_neg hc] at c; exact c
  · intro id'
    have := own id'
    have e := tsum_set (fun t => owns t id') ts i h t'
    have hown : owns ts[i] id' = held.count id' := by rw [ht]; simp [owns]
    rw [hown, hown'] at e
    have hb : bit { s with inner := setInner s.inner (l - 1) (o / 2) nv } id' = bit s id' := rfl
    dsimp only
    rw [hb]
    split <;> rename_i hc
    · rw [if_pos hc] at this; omega
    · rw [if_neg hc] at this; omega
  · have e1 := tsum_set prePush ts i h t'
    have e2 := tsum_set postPop ts i h t'
    have hpre : prePush ts[i] = 1 := by rw [ht]; simp [prePush]
    have hpost : postPop ts[i] = 0 := by rw [ht]; simp [postPop]
    rw [hpre, hpre'] at e1; rw [hpost, hpost'] at e2
    dsimp only
    rw [total_setInner H s (l - 1) (o / 2) nv _ _ hpl]
    have ht0 : total H s 0 0 = (s.inner 0 0).1 + (s.inner 0 0).2 := by unfold total; rw [if_neg (by omega)]
    by_cases hl0 : l - 1 = 0
    · have ho0 : o / 2 = 0 := by rw [hl0] at hplive; omega
      have hroot : 0 = l - 1 ∧ 0 = o / 2 := ⟨hl0.symm, ho0.symm⟩
      rw [if_pos hroot]
      rw [if_neg (by omega)] at e1
      rw [hl0, ho0] at hnv
      rcases hnv with ⟨h1, h2, h3⟩ | ⟨h1, h2, h3⟩ <;> omega
    · have hroot : ¬ (0 = l - 1 ∧ 0 = o / 2) := by omega
      rw [if_neg hroot]
      rw [if_pos hl0] at e1
      omega
  · have e := tsum_set outCount ts i h t'
    have hout : outCount ts[i] = held.length := by rw [ht]; simp [outCount]
    rw [hout, hout'] at e
    dsimp only
    omega

theorem inv_pushInner {cap H : Nat} (hfit : liveCount cap H 0 ≤ 1) {s : Sh} {ts : List Th} (hinv : Inv cap H (s, ts))
    (i : Nat) (h : i < ts.length) (l o : Nat) (held : List Nat) (ht : ts[i] = ⟨.pushInner l o, held⟩) :
    Inv cap H ((act H s ⟨.pushInner l o, held⟩).1, ts.set i (act H s ⟨.pushInner l o, held⟩).2.1) := by
  have hwf := hinv.wf _ (List.getElem_mem h)
  rw [ht] at hwf; simp only [WF] at hwf
  obtain ⟨hl1, hlH, hlive⟩ := hwf
  simp only [act]
  apply inv_pushInner_ok hfit hinv i h l o held ht
  · by_cases ho : o % 2 = 0
    · left; simp [ho]
    · right; simp [ho]; omega
  · intro hpl
    by_cases hl0 : l - 1 = 0
    · simp [hl0, WF]
    · simp only [hl0, if_false, WF]; exact ⟨by omega, by omega, hpl⟩
  · intro L O; by_cases hl0 : l - 1 = 0 <;> simp [hl0, resv]
  · intro L O; by_cases hl0 : l - 1 = 0 <;> simp [hl0, pend]
  · intro id'; by_cases hl0 : l - 1 = 0 <;> simp [hl0, owns]
  · by_cases hl0 : l - 1 = 0 <;> simp [hl0, prePush]
  · by_cases hl0 : l - 1 = 0 <;> simp [hl0, postPop]
  · by_cases hl0 : l - 1 = 0 <;> simp [hl0, outCount]

theorem halfUp_pos (k n : Nat) (h : 0 < n) : 0 < halfUp k n := by
  induction k with
  | zero => exact h
  | succ k ih => unfold halfUp; omega

theorem liveCount_pos (cap H l : Nat) (h : 0 < cap) : 0 < liveCount cap H l := by
  unfold liveCount
  apply halfUp_pos
  simp only [BitsPerLeaf]; omega

theorem inv_begin {cap H : Nat} (hH : 1 ≤ H) {s : Sh} {ts : List Th} (hinv : Inv cap H (s, ts)) (i : Nat) (h : i < ts.length)
    (op : Op) (t' : Th) (r : Option Res) (hb : begin cap ts[i] op = some (t', r)) : Inv cap H (s, ts.set i t') := by
  generalize ht : ts[i] = t at hb
  obtain ⟨pc, held⟩ := t
  cases op with
  | pop =>
    simp only [begin] at hb
    split at hb
    · split at hb
      · simp only [Option.some.injEq, Prod.mk.injEq] at hb
        rw [← hb.1, ← ht, List.set_getElem_self]
        exact hinv
      · rename_i hcap
        simp only [Option.some.injEq, Prod.mk.injEq] at hb
        rw [← hb.1]
        apply inv_same hinv i h
        · simp only [WF]; exact ⟨by omega, liveCount_pos cap H 0 (by omega), fun _ => trivial⟩
        · intro l o; rw [ht]; simp [resv]; omega
        · intro l o; rw [ht]; simp [pend]
        · intro id; rw [ht]; simp [owns]
        · rw [ht]; simp [prePush]
        · rw [ht]; simp [postPop]
        · rw [ht]; simp [outCount]
    · cases hb
  | push id =>
    simp only [begin] at hb
    split at hb
    · split at hb
      · rename_i hmem
        simp only [Option.some.injEq, Prod.mk.injEq] at hb
        rw [← hb.1]
        have hcnt : 0 < held.count id := List.count_pos_iff.mpr hmem
        have hlen : 0 < held.length := List.length_pos_of_mem hmem
        apply inv_same hinv i h
        · simp [WF]
        · intro l o; rw [ht]; simp [resv]
        · intro l o; rw [ht]; simp [pend]
        · intro id'; rw [ht]; simp only [owns]
          by_cases e : id = id'
          · subst e; rw [List.count_erase_self]; simp; omega
          · rw [List.count_erase_of_ne (fun h => e h.symm)]; simp [e]
        · rw [ht]; simp [prePush]
        · rw [ht]; simp [postPop]
        · rw [ht]; simp only [outCount]; rw [List.length_erase_of_mem hmem]; omega
      · cases hb
    · cases hb

theorem inv_act {cap H : Nat} (hH : 1 ≤ H) (hfit : liveCount cap H 0 ≤ 1) {s : Sh} {ts : List Th} (hinv : Inv cap H (s, ts))
    (i : Nat) (h : i < ts.length) (hn : ts[i].pc.isRest = false) :
    Inv cap H ((act H s ts[i]).1, ts.set i (act H s ts[i]).2.1) := by
  generalize ht : ts[i] = t at hn
  obtain ⟨pc, held⟩ := t
  cases pc with
  | idle => simp [PC.isRest] at hn
  | bad => simp [PC.isRest] at hn
  | popLoad l o => exact inv_popLoad hinv i h l o held ht
  | popCas l o a b => exact inv_popCas hinv i h l o a b held ht
  | leafLoad o => exact inv_leafLoad hH hinv i h o held ht
  | leafCas o old => exact inv_leafCas hH hinv i h o old held ht
  | popDec id => exact inv_popDec hinv i h id held ht
  | pushInc id => exact inv_pushInc hinv i h id held ht
  | pushLeaf id => exact inv_pushLeaf hH hinv i h id held ht
  | pushInner l o => exact inv_pushInner hfit hinv i h l o held ht

/-- every step of the system preserves the invariant -/
theorem inv_step {cap H : Nat} (hH : 1 ≤ H) (hfit : liveCount cap H 0 ≤ 1) {c c' : Cfg} (hinv : Inv cap H c)
    (hs : Step cap H c c') : Inv cap H c' := by
  cases hs with
  | begin s ts i h op t' r hb => exact inv_begin hH hinv i h op t' r hb
  | act s ts i h hn => exact inv_act hH hfit hinv i h hn

end SquidModel.Ipc.PageStack
