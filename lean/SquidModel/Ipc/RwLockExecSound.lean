/-
Every configuration the executable scheduler (`RwLockExec`, the one compared with the real code) visits is `Reachable`,
so the property theorems apply to exactly the runs that the trace validation exercises.
-/
import SquidModel.Ipc.RwLockExec

namespace SquidModel.Ipc.RwLock

def cfgOf (s : Sys) : Cfg := (s.sh, s.ths.map (·.pc))

theorem advance_go_pc (t : Th) (ops : List (String × Op)) :
    (advance.go t ops).pc = t.pc ∨ ∃ op, begin t.pc op = some (advance.go t ops).pc := by
  induction ops with
  | nil => left; rfl
  | cons a rest ih =>
    obtain ⟨n, op⟩ := a
    unfold advance.go
    split
    · rename_i p hp; right; exact ⟨op, hp⟩
    · exact ih

theorem advance_pc (t : Th) : (advance t).pc = t.pc ∨ ∃ op, begin t.pc op = some (advance t).pc := by
  unfold advance
  split
  · exact advance_go_pc t t.ops
  · left; rfl

theorem reachable_set_advance {sh : Sh} {ths : List Th} (i : Nat) (h : i < ths.length) (t : Th)
    (hr : Reachable (sh, (ths.set i t).map (·.pc))) :
    Reachable (sh, (ths.set i (advance t)).map (·.pc)) := by
  rcases advance_pc t with heq | ⟨op, hb⟩
  · simpa [List.map_set, heq] using hr
  · have hlen : i < ((ths.set i t).map (·.pc)).length := by simpa using h
    have hget : ((ths.set i t).map (·.pc))[i] = t.pc := by simp
    have := Reachable.step hr (Step.begin sh _ i hlen op (advance t).pc (by rw [hget]; exact hb))
    simpa [List.map_set] using this

theorem stepSys_reachable (s : Sys) (tid : Nat) (hr : Reachable (cfgOf s)) : Reachable (cfgOf (stepSys s tid)) := by
  unfold stepSys
  split
  · exact hr
  · rename_i t ht
    split
    · exact hr
    · rename_i hrest
      have hlt : tid < s.ths.length := by
        rcases List.getElem?_eq_some_iff.mp ht with ⟨h, _⟩; exact h
      have hget : s.ths[tid] = t := by
        rcases List.getElem?_eq_some_iff.mp ht with ⟨_, h⟩; exact h
      have hlen : tid < (s.ths.map (·.pc)).length := by simpa using hlt
      have hpc : (s.ths.map (·.pc))[tid] = t.pc := by simp [hget]
      have hr' : Reachable (s.sh, s.ths.map (·.pc)) := hr
      have hstep := Reachable.step hr' (Step.act s.sh (s.ths.map (·.pc)) tid hlen (by rw [hpc]; simpa using hrest))
      rw [hpc] at hstep
      simp only [cfgOf]
      generalize hact : act s.sh t.pc = r at hstep ⊢
      obtain ⟨sh', pc', ev, res⟩ := r
      simp only at hstep ⊢
      apply reachable_set_advance tid hlt
      simpa [List.map_set] using hstep

theorem foldl_stepSys_reachable (sched : List Nat) (s : Sys) (hr : Reachable (cfgOf s)) :
    Reachable (cfgOf (sched.foldl stepSys s)) := by
  induction sched generalizing s with
  | nil => exact hr
  | cons a rest ih => exact ih _ (stepSys_reachable s a hr)

theorem drain_reachable (fuel : Nat) (s : Sys) (hr : Reachable (cfgOf s)) : Reachable (cfgOf (drain fuel s)) := by
  induction fuel generalizing s with
  | zero => exact hr
  | succ n ih =>
    unfold drain
    split
    · exact hr
    · exact ih _ (foldl_stepSys_reachable _ s hr)


theorem initSys_reachable (opsPer : List (List (String × Op))) : Reachable (cfgOf (initSys opsPer)) := by
  have : cfgOf (initSys opsPer) = (Sh.init, List.replicate opsPer.length PC.idle) := by
    simp only [cfgOf, initSys, List.map_map]
    congr 1
    induction opsPer with
    | nil => rfl
    | cons a rest ih => simp [List.replicate_succ, ih]
  rw [this]
  exact Reachable.init _

theorem primeFrom_reachable (s : Sys) (k : Nat) (hr : Reachable (cfgOf s)) : Reachable (cfgOf (primeFrom s k)) := by
  induction k with
  | zero => exact hr
  | succ k ih =>
    unfold primeFrom
    simp only
    split
    · rename_i t ht
      have hlt : k < (primeFrom s k).ths.length := by
        rcases List.getElem?_eq_some_iff.mp ht with ⟨h, _⟩; exact h
      have hget : (primeFrom s k).ths[k] = t := by
        rcases List.getElem?_eq_some_iff.mp ht with ⟨_, h⟩; exact h
      simp only [cfgOf]
      apply reachable_set_advance k hlt
      have : (primeFrom s k).ths.set k t = (primeFrom s k).ths := by rw [← hget]; exact List.set_getElem_self _
      rw [this]
      exact ih
    · exact ih

/-- the configuration the executable model ends in (and every one it passes through) is reachable -/
theorem finalSys_reachable (opsPer : List (List (String × Op))) (schedule : List Nat) :
    Reachable (cfgOf (finalSys opsPer schedule)) := by
  unfold finalSys
  exact drain_reachable _ _ (foldl_stepSys_reachable _ _ (primeFrom_reachable _ _ (initSys_reachable opsPer)))

end SquidModel.Ipc.RwLock
