/-
Explicit executions of the StoreMap model (used for witnesses and counterexamples): a list of commands, each a step of one session.
-/
import SquidModel.Ipc.StoreMap

namespace SquidModel.Ipc.StoreMap

inductive Cmd where
  | call (i : Nat) (op : Op)
  | act (i : Nat) (ch : Bool)
  deriving Repr

def applyCmd (c : Cfg) : Cmd → Cfg
  | .call i op =>
    if h : i < c.2.length then
      match call i c.1 c.2[i] op with
      | some (sh', p', _) => (sh', c.2.set i p')
      | none => c
    else c
  | .act i ch =>
    if h : i < c.2.length then
      if c.2[i].isRest then c else ((act c.1 c.2[i] ch).1, c.2.set i (act c.1 c.2[i] ch).2.1)
    else c

def run (c : Cfg) (cmds : List Cmd) : Cfg := cmds.foldl applyCmd c

theorem applyCmd_reachable {c : Cfg} (hr : Reachable c) (cmd : Cmd) : Reachable (applyCmd c cmd) := by
  obtain ⟨sh, ts⟩ := c
  cases cmd with
  | call i op =>
    simp only [applyCmd]
    split
    · rename_i h
      split
      · rename_i sh' p' res hc
        exact Reachable.step hr (Step.call sh ts i h op sh' p' res hc)
      · exact hr
    · exact hr
  | act i ch =>
    simp only [applyCmd]
    split
    · rename_i h
      split
      · exact hr
      · rename_i hn
        exact Reachable.step hr (Step.act sh ts i h (by simpa using hn) ch)
    · exact hr

theorem run_reachable {c : Cfg} (hr : Reachable c) (cmds : List Cmd) : Reachable (run c cmds) := by
  induction cmds generalizing c with
  | nil => exact hr
  | cons a as ih => exact ih (applyCmd_reachable hr a)

end SquidModel.Ipc.StoreMap
