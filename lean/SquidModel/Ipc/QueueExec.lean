/-
Executable scheduler over the queue model; mirrors harness/c56.cc so that the two traces can be compared line by line.
A scheduler step of a thread performs exactly its pending memory operation (`stepP` / `stepC`: an atomic operation or a slot
memcpy) — and, for the producer, the return from push() into the next call — exactly as a virtual thread of the harness does.
-/
import SquidModel.Ipc.Queue

namespace SquidModel.Ipc.Queue

inductive POp where
  | push (v : Nat)
  | large              -- an item with sizeof(value) > theMaxItemSize: push() throws ItemTooLarge before touching anything
  deriving DecidableEq, Repr

structure Sys where
  st : St
  ops : List POp       -- the producer's remaining calls
  cur : Nat            -- value of the push in progress
  res : String
  log : List String    -- reversed

def b2n (b : Bool) : Nat := if b then 1 else 0

/-- the event the producer's pending memory operation will log -/
def evP (s : St) : String :=
  match s.p with
  | .full _ => s!"0:S.load.{s.size}>{s.size}"
  | .write v => s!"0:M.wr.{s.tin % s.cap}>{v}"
  | .inc => s!"0:S.add.{s.size}>{s.size + 1}"
  | .blk => s!"0:B.load.{b2n s.blocked}>{b2n s.blocked}"
  | .xchg => s!"0:G.xchg.{b2n s.signal}>1"
  | .notify => s!"0:N.add.{s.notif}>{s.notif + 1}"
  | .rest => "0:?"

def evC (s : St) : String :=
  match s.c with
  | .init1 | .clr1 | .unblock => s!"1:B.store.{b2n s.blocked}>0"
  | .block => s!"1:B.store.{b2n s.blocked}>1"
  | .init2 | .clr2 => s!"1:G.store.{b2n s.signal}>0"
  | .e1 | .e2 => s!"1:S.load.{s.size}>{s.size}"
  | .read => s!"1:M.rd.{s.tout % s.cap}>{s.buf.getD (s.tout % s.cap) 0}"
  | .dec => s!"1:S.sub.{s.size}>{s.size - 1}"
  | .idle => if 0 < s.notif then s!"1:N.recv.{s.notif}>{s.notif - 1}" else "1:N.poll.0>0"

/-- what push() reports to its caller when the pending operation ends the call -/
def pushResult (s : St) : String :=
  match s.p with
  | .full _ => "F"       -- only used when the call ended here: Full thrown
  | _ => "0"

/-- producer at rest: enter the next call (oversized pushes throw at once, before any memory operation) -/
def enterCalls (st : St) (res : String) : List POp → St × List POp × Nat × String
  | [] => (st, [], 0, res)
  | .large :: rest => enterCalls st (res ++ "L=T,") rest
  | .push v :: rest => (if st.p = .rest then callPush st v else st, rest, v, res)

def producerDone (s : Sys) : Bool := s.st.p == .rest && s.ops.isEmpty

/-- one scheduler step of the producer = its pending memory operation; when that ends the call, the result is recorded and
the next call is entered (up to its first memory operation) -/
def stepProducer (s : Sys) : Sys :=
  if s.st.p == .rest then s
  else
    let ev := evP s.st
    let st1 := stepP s.st
    let res1 := match s.st.p, st1.p with
      | .notify, _ => s.res                                 -- result was recorded when push() returned true
      | _, .notify => s.res ++ s!"P{s.cur}=1,"              -- push() returned true; the caller is about to notify
      | _, .rest => s.res ++ s!"P{s.cur}={pushResult s.st},"
      | _, _ => s.res
    if st1.p == .rest then
      let (st2, ops2, cur2, res2) := enterCalls st1 res1 s.ops
      { st := st2, ops := ops2, cur := cur2, res := res2, log := ev :: s.log }
    else
      { s with st := st1, res := res1, log := ev :: s.log }

/-- one scheduler step of the consumer = its pending memory operation (or one poll of the notification channel) -/
def stepConsumer (s : Sys) : Sys :=
  { s with st := stepC s.st, log := evC s.st :: s.log }

def schedStep (s : Sys) (tid : Nat) : Sys :=
  if tid = 0 then stepProducer s else stepConsumer s

def quiescent (s : Sys) : Bool := producerDone s && s.st.c == .idle && s.st.notif == 0

def drain : Nat → Sys → Sys
  | 0, s => s
  | fuel + 1, s => if quiescent s then s else drain fuel (schedStep (schedStep s 0) 1)

def joinNat (l : List Nat) : String := if l.isEmpty then "-" else ",".intercalate (l.map toString)

def runScenario (cap start : Nat) (ops : List POp) (schedule : List Nat) : String :=
  let st0 := St.init cap start (List.replicate cap 0)
  let (st1, ops1, cur1, res1) := enterCalls st0 "" ops
  let s0 : Sys := { st := st1, ops := ops1, cur := cur1, res := res1, log := [] }
  let s1 := schedule.foldl schedStep s0
  let s2 := drain (40 * (ops.length + 2)) s1
  let log := if s2.log.isEmpty then "-" else ",".intercalate s2.log.reverse
  let f := s2.st
  let res := if s2.res.isEmpty then "-" else s2.res
  s!"log={log} res={res} recv={joinNat f.recv} final={f.size},{b2n f.blocked},{b2n f.signal},{f.notif},{f.tin},{f.tout} buf={joinNat f.buf} viol=-"

/-! every state the scheduler visits is a state of the verified transition system -/

theorem enterCalls_reachable (st : St) (res : String) (ops : List POp) (hr : Reachable st) : Reachable (enterCalls st res ops).1 := by
  induction ops generalizing res with
  | nil => exact hr
  | cons o rest ih =>
    cases o with
    | large => exact ih _
    | push v =>
      simp only [enterCalls]
      split
      · exact .step hr (.call st v (by assumption))
      · exact hr

theorem schedStep_reachable (s : Sys) (tid : Nat) (hr : Reachable s.st) : Reachable (schedStep s tid).st := by
  unfold schedStep
  split
  · unfold stepProducer
    split
    · exact hr
    · simp only
      split
      · exact enterCalls_reachable _ _ _ (.step hr (.prod s.st))
      · exact .step hr (.prod s.st)
  · exact .step hr (.cons s.st)

end SquidModel.Ipc.Queue
