/-
Inductive invariant of the one-producer/one-consumer queue model (`SquidModel.Ipc.Queue`).
-/
import SquidModel.Ipc.Queue

namespace SquidModel.Ipc.Queue

/-! ### list and modular arithmetic helpers (core only) -/

theorem mod_ne_of_lt (a b c : Nat) (h1 : a < b) (h2 : b - a < c) : a % c ≠ b % c := by
  intro h
  have h3 : (b - a) % c = 0 := Nat.sub_mod_eq_zero_of_mod_eq h.symm
  rw [Nat.mod_eq_of_lt h2] at h3
  omega

theorem getD_set_ne (l : List Nat) (i j v d : Nat) (h : i ≠ j) : (l.set i v).getD j d = l.getD j d := by
  simp [List.getD_eq_getElem?_getD, List.getElem?_set_ne h]

theorem getD_set_eq (l : List Nat) (i v d : Nat) (h : i < l.length) : (l.set i v).getD i d = v := by
  simp [List.getD_eq_getElem?_getD, h]

theorem getD_append_left (l : List Nat) (k v d : Nat) (h : k < l.length) : (l ++ [v]).getD k d = l.getD k d := by
  simp [List.getD_eq_getElem?_getD, List.getElem?_append_left h]

theorem getD_append_right (l : List Nat) (v d : Nat) : (l ++ [v]).getD l.length d = v := by
  simp [List.getD_eq_getElem?_getD]

theorem take_succ_getD (l : List Nat) (n d : Nat) (h : n < l.length) : l.take (n + 1) = l.take n ++ [l.getD n d] := by
  induction l generalizing n with
  | nil => simp at h
  | cons a as ih =>
    cases n with
    | zero => simp
    | succ m =>
      simp only [List.length_cons] at h
      simp only [List.take_succ_cons, List.cons_append, List.getD_cons_succ]
      rw [ih m (by omega)]

/-- the C `unsigned int` index and the unbounded count address the same slot when the capacity divides 2^32 -/
theorem wrap_slot (x c : Nat) (hd : c ∣ W) : (x % W) % c = x % c := Nat.mod_mod_of_dvd x hd

/-! ### pc classes -/

/-- the slot is written but `theSize` not yet incremented -/
def PPC.incI : PPC → Nat | .inc => 1 | _ => 0
/-- the slot is read but `theSize` not yet decremented -/
def CPC.decI : CPC → Nat | .dec => 1 | _ => 0
/-- push() returned true, the notification is not yet sent -/
def PPC.notI : PPC → Nat | .notify => 1 | _ => 0
/-- a notification was taken, `popSignal` is not yet cleared -/
def CPC.clrI : CPC → Nat | .clr1 | .clr2 => 1 | _ => 0
/-- passed the `full()` test, `theSize` not yet incremented -/
def PPC.preInc : PPC → Bool | .write _ | .inc => true | _ => false
/-- passed an `empty()` test, `theSize` not yet decremented -/
def CPC.taking : CPC → Bool | .unblock | .read | .dec => true | _ => false
/-- inside raiseSignal() after an increment that saw `theSize == 0` -/
def PPC.raising : PPC → Bool | .blk | .xchg => true | _ => false
/-- start-up clearSignal() -/
def CPC.starting : CPC → Bool | .init1 | .init2 => true | _ => false
/-- `popBlocked` was stored true and not yet false -/
def CPC.blockedPc : CPC → Bool | .e2 | .idle => true | _ => false

structure Inv (s : St) : Prop where
  capPos : 0 < s.cap
  bufLen : s.buf.length = s.cap
  le : s.recv.length ≤ s.pushed.length
  tinEq : s.tin = (s.base + s.pushed.length) % W
  toutEq : s.tout = (s.base + s.recv.length) % W
  /-- theSize counts the written-and-unread slots, up to the two in-progress adjustments -/
  sizeEq : s.size + s.p.incI + s.recv.length = s.pushed.length + s.c.decI
  /-- the unread window of the slot array holds the pushed values (when the capacity divides 2^32) -/
  slots : s.cap ∣ W → ∀ k, s.recv.length ≤ k → k < s.pushed.length → s.buf.getD ((s.base + k) % s.cap) 0 = s.pushed.getD k 0
  fifo : s.cap ∣ W → s.pushed.take s.recv.length = s.recv
  room : s.p.preInc = true → s.size < s.cap
  bound : s.size ≤ s.cap
  avail : s.c.taking = true → 0 < s.size
  /-- at most one notification per raised signal: signal is set iff a notification is about to be sent, in flight, or being handled -/
  sig : (if s.signal then 1 else 0) = s.notif + s.p.notI + s.c.clrI
  start : s.c.starting = true → s.blocked = false ∧ s.signal = false ∧ s.p ≠ .xchg
  blk : s.c.blockedPc = true → s.blocked = true
  /-- an idle consumer with counted items: the signal is raised or the producer that made the queue non-empty is raising it -/
  wake : s.c = .idle → 0 < s.size → s.signal = true ∨ s.p.raising = true

theorem inv_init (cap base : Nat) (buf : List Nat) (hc : 0 < cap) (hb : buf.length = cap) : Inv (St.init cap base buf) := by
  constructor
  all_goals simp only [St.init, PPC.incI, CPC.decI, PPC.notI, CPC.clrI, PPC.preInc, CPC.taking, PPC.raising, CPC.starting, CPC.blockedPc]
  all_goals first | assumption | omega | simp

theorem inv_call {s : St} (h : Inv s) (v : Nat) (hp : s.p = .rest) : Inv (callPush s v) := by
  obtain ⟨capPos, bufLen, le, tinEq, toutEq, sizeEq, slots, fifo, room, bound, avail, sig, start, blk, wake⟩ := h
  obtain ⟨cap, base, size, blocked, signal, buf, tin, tout, notif, pushed, recv, p, c⟩ := s
  simp only at hp
  subst hp
  simp only [PPC.incI, PPC.notI, PPC.preInc, PPC.raising] at *
  refine ⟨capPos, bufLen, le, tinEq, toutEq, sizeEq, slots, fifo, ?_, bound, avail, sig, ?_, blk, ?_⟩
  · simp [callPush, PPC.preInc]
  · intro hs; have := start hs; simp [callPush]; exact ⟨this.1, this.2.1⟩
  · intro hc hz; have := wake hc hz; simp [callPush, PPC.raising]; simpa using this

theorem inv_stepP {s : St} (h : Inv s) : Inv (stepP s) := by
  obtain ⟨capPos, bufLen, le, tinEq, toutEq, sizeEq, slots, fifo, room, bound, avail, sig, start, blk, wake⟩ := h
  obtain ⟨cap, base, size, blocked, signal, buf, tin, tout, notif, pushed, recv, p, c⟩ := s
  simp only at *
  cases p with
  | rest => exact ⟨capPos, bufLen, le, tinEq, toutEq, sizeEq, slots, fifo, room, bound, avail, sig, start, blk, wake⟩
  | full v =>
    simp only [stepP]
    split
    · refine ⟨capPos, bufLen, le, tinEq, toutEq, sizeEq, slots, fifo, ?_, bound, avail, sig, ?_, blk, ?_⟩
      · simp [PPC.preInc]
      · intro hs; have := start hs; simp; exact ⟨this.1, this.2.1⟩
      · intro hc hz; have := wake hc hz; simpa [PPC.raising] using this
    · refine ⟨capPos, bufLen, le, tinEq, toutEq, sizeEq, slots, fifo, ?_, bound, avail, sig, ?_, blk, ?_⟩
      · intro _; simp only; omega
      · intro hs; have := start hs; simp; exact ⟨this.1, this.2.1⟩
      · intro hc hz; have := wake hc hz; simpa [PPC.raising] using this
  | write v =>
    simp only [stepP]
    simp only [PPC.preInc, PPC.incI, PPC.notI, PPC.raising] at room sizeEq sig wake
    have hroom := room trivial
    have hwin : pushed.length - recv.length < cap := by omega
    refine ⟨capPos, ?_, ?_, ?_, toutEq, ?_, ?_, ?_, fun _ => hroom, bound, avail, ?_, ?_, blk, ?_⟩
    · simp [bufLen]
    · simp; omega
    · simp only [List.length_append, List.length_singleton]; rw [tinEq, Nat.mod_add_mod]; rfl
    · simp [PPC.incI]; omega
    · intro hd k hk1 hk2
      have hslot : tin % cap = (base + pushed.length) % cap := by rw [tinEq]; exact wrap_slot _ _ hd
      simp only [List.length_append, List.length_singleton] at hk1 hk2
      rw [hslot]
      by_cases hkn : k = pushed.length
      · subst hkn
        rw [getD_set_eq _ _ _ _ (by rw [bufLen]; exact Nat.mod_lt _ capPos), getD_append_right]
      · have hlt : k < pushed.length := by omega
        rw [getD_set_ne _ _ _ _ _ (Ne.symm (mod_ne_of_lt (base + k) (base + pushed.length) cap (by omega) (by omega))),
          getD_append_left _ _ _ _ hlt]
        exact slots hd k hk1 hlt
    · intro hd; rw [List.take_append_of_le_length le]; exact fifo hd
    · simpa [PPC.notI] using sig
    · intro hs; have := start hs; simp; exact ⟨this.1, this.2.1⟩
    · intro hc hz; have := wake hc hz; simpa [PPC.raising] using this
  | inc =>
    simp only [PPC.preInc, PPC.incI, PPC.notI, PPC.raising] at room sizeEq sig wake
    have hroom := room trivial
    by_cases h0 : size = 0
    · subst h0
      simp only [stepP, ↓reduceIte]
      refine ⟨capPos, bufLen, le, tinEq, toutEq, ?_, slots, fifo, ?_, by simp only; omega, fun _ => by simp only; omega, ?_, ?_, blk, ?_⟩
      · simp only [PPC.incI]; omega
      · simp [PPC.preInc]
      · simpa [PPC.notI] using sig
      · intro hs; have := start hs; simp; exact ⟨this.1, this.2.1⟩
      · intro _ _; simp [PPC.raising]
    · simp only [stepP, h0, ↓reduceIte]
      refine ⟨capPos, bufLen, le, tinEq, toutEq, ?_, slots, fifo, ?_, by simp only; omega, fun _ => by simp only; omega, ?_, ?_, blk, ?_⟩
      · simp only [PPC.incI]; omega
      · simp [PPC.preInc]
      · simpa [PPC.notI] using sig
      · intro hs; have := start hs; simp; exact ⟨this.1, this.2.1⟩
      · intro hc hz; have := wake hc (by omega); simp at this; exact Or.inl this
  | blk =>
    simp only [PPC.preInc, PPC.incI, PPC.notI, PPC.raising] at room sizeEq sig wake
    cases blocked with
    | true =>
      simp only [stepP, ↓reduceIte]
      refine ⟨capPos, bufLen, le, tinEq, toutEq, sizeEq, slots, fifo, ?_, bound, avail, ?_, ?_, blk, ?_⟩
      · simp [PPC.preInc]
      · simpa [PPC.notI] using sig
      · intro hs; have := start hs; simp at this
      · intro _ _; simp [PPC.raising]
    | false =>
      simp only [stepP, Bool.false_eq_true, ↓reduceIte]
      refine ⟨capPos, bufLen, le, tinEq, toutEq, sizeEq, slots, fifo, ?_, bound, avail, ?_, ?_, blk, ?_⟩
      · simp [PPC.preInc]
      · simpa [PPC.notI] using sig
      · intro hs; have := start hs; simp; exact this.2.1
      · intro hc hz; simp only at hc; have hb := blk (by rw [hc]; rfl); simp at hb
  | xchg =>
    simp only [PPC.preInc, PPC.incI, PPC.notI, PPC.raising] at room sizeEq sig wake
    cases signal with
    | true =>
      simp only [stepP, ↓reduceIte]
      refine ⟨capPos, bufLen, le, tinEq, toutEq, sizeEq, slots, fifo, ?_, bound, avail, ?_, ?_, blk, ?_⟩
      · simp [PPC.preInc]
      · simpa [PPC.notI] using sig
      · intro hs; have := start hs; simp at this
      · intro _ _; exact Or.inl rfl
    | false =>
      simp only [stepP, Bool.false_eq_true, ↓reduceIte]
      refine ⟨capPos, bufLen, le, tinEq, toutEq, sizeEq, slots, fifo, ?_, bound, avail, ?_, ?_, blk, ?_⟩
      · simp [PPC.preInc]
      · simp [PPC.notI] at sig ⊢; omega
      · intro hs; have := start hs; simp at this
      · intro _ _; exact Or.inl rfl
  | notify =>
    simp only [stepP]
    simp only [PPC.preInc, PPC.incI, PPC.notI, PPC.raising] at room sizeEq sig wake
    refine ⟨capPos, bufLen, le, tinEq, toutEq, sizeEq, slots, fifo, ?_, bound, avail, ?_, ?_, blk, ?_⟩
    · simp [PPC.preInc]
    · simp only [PPC.notI]; omega
    · intro hs; have := start hs; simp; exact ⟨this.1, this.2.1⟩
    · intro hc hz; have := wake hc hz; simpa [PPC.raising] using this

theorem inv_stepC {s : St} (h : Inv s) : Inv (stepC s) := by
  obtain ⟨capPos, bufLen, le, tinEq, toutEq, sizeEq, slots, fifo, room, bound, avail, sig, start, blk, wake⟩ := h
  obtain ⟨cap, base, size, blocked, signal, buf, tin, tout, notif, pushed, recv, p, c⟩ := s
  simp only at *
  cases c with
  | init1 =>
    simp only [CPC.decI, CPC.clrI, CPC.taking, CPC.starting, CPC.blockedPc] at *
    simp only [stepC]
    refine ⟨capPos, bufLen, le, tinEq, toutEq, sizeEq, slots, fifo, room, bound, nofun, sig, ?_, nofun, nofun⟩
    intro _; exact ⟨rfl, (start trivial).2⟩
  | init2 =>
    simp only [CPC.decI, CPC.clrI, CPC.taking, CPC.starting, CPC.blockedPc] at *
    simp only [stepC]
    have hs := (start trivial).2.1
    subst hs
    exact ⟨capPos, bufLen, le, tinEq, toutEq, sizeEq, slots, fifo, room, bound, nofun, sig, nofun, nofun, nofun⟩
  | e1 =>
    simp only [CPC.decI, CPC.clrI, CPC.taking, CPC.starting, CPC.blockedPc] at *
    by_cases h0 : size = 0
    · simp only [stepC, h0, ↓reduceIte]
      subst h0
      exact ⟨capPos, bufLen, le, tinEq, toutEq, sizeEq, slots, fifo, room, bound, nofun, sig, nofun, nofun, nofun⟩
    · simp only [stepC, h0, ↓reduceIte]
      exact ⟨capPos, bufLen, le, tinEq, toutEq, sizeEq, slots, fifo, room, bound, fun _ => by simp only; omega, sig, nofun, nofun, nofun⟩
  | block =>
    simp only [CPC.decI, CPC.clrI, CPC.taking, CPC.starting, CPC.blockedPc] at *
    simp only [stepC]
    exact ⟨capPos, bufLen, le, tinEq, toutEq, sizeEq, slots, fifo, room, bound, nofun, sig, nofun, fun _ => rfl, nofun⟩
  | e2 =>
    simp only [CPC.decI, CPC.clrI, CPC.taking, CPC.starting, CPC.blockedPc] at *
    by_cases h0 : size = 0
    · simp only [stepC, h0, ↓reduceIte]
      subst h0
      exact ⟨capPos, bufLen, le, tinEq, toutEq, sizeEq, slots, fifo, room, bound, nofun, sig, nofun, fun _ => blk trivial,
        fun _ hz => by simp at hz⟩
    · simp only [stepC, h0, ↓reduceIte]
      exact ⟨capPos, bufLen, le, tinEq, toutEq, sizeEq, slots, fifo, room, bound, fun _ => by simp only; omega, sig, nofun, nofun, nofun⟩
  | unblock =>
    simp only [CPC.decI, CPC.clrI, CPC.taking, CPC.starting, CPC.blockedPc] at *
    simp only [stepC]
    exact ⟨capPos, bufLen, le, tinEq, toutEq, sizeEq, slots, fifo, room, bound, fun _ => avail trivial, sig, nofun, nofun, nofun⟩
  | read =>
    simp only [CPC.decI, CPC.clrI, CPC.taking, CPC.starting, CPC.blockedPc] at *
    simp only [stepC]
    have hav := avail trivial
    have hlt : recv.length < pushed.length := by
      have : p.incI ≤ 1 := by cases p <;> simp [PPC.incI]
      omega
    refine ⟨capPos, bufLen, ?_, tinEq, ?_, ?_, ?_, ?_, room, bound, fun _ => hav, sig, nofun, nofun, nofun⟩
    · simp; omega
    · simp only [List.length_append, List.length_singleton]; rw [toutEq, Nat.mod_add_mod]; rfl
    · simp only [List.length_append, List.length_singleton, CPC.decI]; omega
    · intro hd k hk1 hk2
      simp only [List.length_append, List.length_singleton] at hk1
      exact slots hd k (by omega) hk2
    · intro hd
      have hslot : tout % cap = (base + recv.length) % cap := by rw [toutEq]; exact wrap_slot _ _ hd
      simp only [List.length_append, List.length_singleton]
      rw [take_succ_getD _ _ 0 hlt, fifo hd, hslot, slots hd _ (Nat.le_refl _) hlt]
  | dec =>
    simp only [CPC.decI, CPC.clrI, CPC.taking, CPC.starting, CPC.blockedPc] at *
    simp only [stepC]
    have hav := avail trivial
    refine ⟨capPos, bufLen, le, tinEq, toutEq, ?_, slots, fifo, ?_, by simp only; omega, nofun, sig, nofun, nofun, nofun⟩
    · simp only [CPC.decI]; omega
    · intro hp; have := room hp; simp only; omega
  | idle =>
    simp only [CPC.decI, CPC.clrI, CPC.taking, CPC.starting, CPC.blockedPc] at *
    by_cases hn : 0 < notif
    · simp only [stepC, hn, ↓reduceIte]
      refine ⟨capPos, bufLen, le, tinEq, toutEq, sizeEq, slots, fifo, room, bound, nofun, ?_, nofun, nofun, nofun⟩
      simp only [CPC.clrI]; omega
    · simp only [stepC, hn, ↓reduceIte]
      exact ⟨capPos, bufLen, le, tinEq, toutEq, sizeEq, slots, fifo, room, bound, nofun, sig, nofun, fun _ => blk trivial, fun _ => wake trivial⟩
  | clr1 =>
    simp only [CPC.decI, CPC.clrI, CPC.taking, CPC.starting, CPC.blockedPc] at *
    simp only [stepC]
    exact ⟨capPos, bufLen, le, tinEq, toutEq, sizeEq, slots, fifo, room, bound, nofun, sig, nofun, nofun, nofun⟩
  | clr2 =>
    simp only [CPC.decI, CPC.clrI, CPC.taking, CPC.starting, CPC.blockedPc] at *
    simp only [stepC]
    refine ⟨capPos, bufLen, le, tinEq, toutEq, sizeEq, slots, fifo, room, bound, nofun, ?_, nofun, nofun, nofun⟩
    cases signal <;> simp [CPC.clrI] at sig ⊢ <;> omega

theorem step_cap {s s' : St} (h : Step s s') : s'.cap = s.cap := by
  cases h with
  | call v hp => rfl
  | prod =>
    obtain ⟨cap, base, size, blocked, signal, buf, tin, tout, notif, pushed, recv, p, c⟩ := s
    cases p <;> simp only [stepP] <;> (try split) <;> rfl
  | cons =>
    obtain ⟨cap, base, size, blocked, signal, buf, tin, tout, notif, pushed, recv, p, c⟩ := s
    cases c <;> simp only [stepC] <;> (try split) <;> rfl

theorem inv_step {s s' : St} (h : Inv s) (hs : Step s s') : Inv s' := by
  cases hs with
  | call v hp => exact inv_call h v hp
  | prod => exact inv_stepP h
  | cons => exact inv_stepC h

theorem inv_reachable {s : St} (hr : Reachable s) : Inv s := by
  induction hr with
  | init cap base buf hc hb => exact inv_init cap base buf hc hb
  | step _ hs ih => exact inv_step ih hs

end SquidModel.Ipc.Queue
