/-
Inductive invariant of the one-producer/one-consumer queue model (`SquidModel.Ipc.Queue`).
-/
import SquidModel.Ipc.Queue

namespace SquidModel.Ipc.Queue

/-! ### list and modular arithmetic helpers (core only) -/

theorem mod_ne_of_lt (a b c : Nat) (h1 : a < b) (h2 : b - a < c) : a % c ≠ b % c := by
  intro h
  have h3 : (b - a) % c = 0 := Nat.sub_mod_eq_zero_of_mod_eq h.symm
  rw [Nat.mod_eq_of_lt h2] at h3
  omega

theorem getD_set_ne (l : List Nat) (i j v d : Nat) (h : i ≠ j) : (l.set i v).getD j d = l.getD j d := by
  simp [List.getD_eq_getElem?_getD, List.getElem?_set_ne h]

theorem getD_set_eq (l : List Nat) (i v d : Nat) (h : i < l.length) : (l.set i v).getD i d = v := by
  simp [List.getD_eq_getElem?_getD, h]

theorem getD_append_left (l : List Nat) (k v d : Nat) (h : k < l.length) : (l ++ [v]).getD k d = l.getD k d := by
  simp [List.getD_eq_getElem?_getD, List.getElem?_append_left h]

theorem getD_append_right (l : List Nat) (v d : Nat) : (l ++ [v]).getD l.length d = v := by
  simp [List.getD_eq_getElem?_getD]

theorem take_succ_getD (l : List Nat) (n d : Nat) (h : n < l.length) : l.take (n + 1) = l.take n ++ [l.getD n d] := by
  induction l generalizing n with
  | nil => simp at h
  | cons a as ih =>
    cases n with
    | zero => simp
    | succ m =>
      simp only [List.length_cons] at h
      simp only [List.take_succ_cons, List.cons_append, List.getD_cons_succ]
      rw [ih m (by omega)]

/-- the C `unsigned int` index and the unbounded count address the same slot when the capacity divides 2^32 -/
theorem wrap_slot (x c : Nat) (hd : c ∣ W) : (x % W) % c = x % c := Nat.mod_mod_of_dvd x hd

/-! ### pc classes -/

/-- the slot is written but `theSize` not yet incremented -/
def PPC.incI : PPC → Nat | .inc => 1 | _ => 0
/-- the slot is read but `theSize` not yet decremented -/
def CPC.decI : CPC → Nat | .dec => 1 | _ => 0
/-- push() returned true, the notification is not yet sent -/
def PPC.notI : PPC → Nat | .notify => 1 | _ => 0
/-- a notification was taken, `popSignal` is not yet cleared -/
def CPC.clrI : CPC → Nat | .clr1 | .clr2 => 1 | _ => 0
/-- passed the `full()` test, `theSize` not yet incremented -/
def PPC.preInc : PPC → Bool | .write _ | .inc => true | _ => false
/-- passed an `empty()` test, `theSize` not yet decremented -/
def CPC.taking : CPC → Bool | .unblock | .read | .dec => true | _ => false
/-- inside raiseSignal() after an increment that saw `theSize == 0` -/
def PPC.raising : PPC → Bool | .blk | .xchg => true | _ => false
/-- start-up clearSignal() -/
def CPC.starting : CPC → Bool | .init1 | .init2 => true | _ => false
/-- `popBlocked` was stored true and not yet false -/
def CPC.blockedPc : CPC → Bool | .e2 | .idle => true | _ => false

structure Inv (s : St) : Prop where
  capPos : 0 < s.cap
  bufLen : s.buf.length = s.cap
  le : s.recv.length ≤ s.pushed.length
  tinEq : s.tin = (s.base + s.pushed.length) % W
  toutEq : s.tout = (s.base + s.recv.length) % W
  /-- theSize counts the written-and-unread slots, up to the two in-progress adjustments -/
  sizeEq : s.size + s.p.incI + s.recv.length = s.pushed.length + s.c.decI
  /-- the unread window of the slot array holds the pushed values -/
  slots : ∀ k, s.recv.length ≤ k → k < s.pushed.length → s.buf.getD ((s.base + k) % s.cap) 0 = s.pushed.getD k 0
  fifo : s.recv = s.pushed.take s.recv.length
  room : s.p.preInc = true → s.size < s.cap
  bound : s.size ≤ s.cap
  avail : s.c.taking = true → 0 < s.size
  /-- at most one notification per raised signal: signal is set iff a notification is about to be sent, in flight, or being handled -/
  sig : (if s.signal then 1 else 0) = s.notif + s.p.notI + s.c.clrI
  start : s.c.starting = true → s.blocked = false ∧ s.signal = false ∧ s.p ≠ .xchg
  blk : s.c.blockedPc = true → s.blocked = true
  /-- an idle consumer with counted items: the signal is raised or the producer that made the queue non-empty is raising it -/
  wake : s.c = .idle → 0 < s.size → s.signal = true ∨ s.p.raising = true

theorem inv_init (cap base : Nat) (buf : List Nat) (hc : 0 < cap) (hb : buf.length = cap) : Inv (St.init cap base buf) := by
  constructor <;> simp [St.init, PPC.incI, CPC.decI, PPC.notI, CPC.clrI, PPC.preInc, CPC.taking, PPC.raising, CPC.starting, CPC.blockedPc, hc, hb]

theorem inv_call {s : St} (h : Inv s) (v : Nat) (hp : s.p = .rest) : Inv (callPush s v) := by
  obtain ⟨capPos, bufLen, le, tinEq, toutEq, sizeEq, slots, fifo, room, bound, avail, sig, start, blk, wake⟩ := h
  obtain ⟨cap, base, size, blocked, signal, buf, tin, tout, notif, pushed, recv, p, c⟩ := s
  simp only at hp
  subst hp
  simp only [callPush]
  constructor <;> simp_all [PPC.incI, PPC.notI, PPC.preInc, PPC.raising]
