/-
Preservation of the StoreMap invariant `AInv f` by the pending atomic operation of a session working on anchor `f`:
one lemma per pc (part B). Generated skeleton, proofs by the tactics of StoreMapTac.
-/
import SquidModel.Ipc.StoreMapStepA

namespace SquidModel.Ipc.StoreMap
open PC
set_option linter.unusedSimpArgs false
set_option linter.unusedVariables false

theorem ainv_saLock {sh : Sh} {ts : List PC} (f : Nat) (last : Int) (ch : Bool) (i : Nat) (h : i < ts.length) (hp : ts[i] = (.saLock f last))
    (hi : AInv f (sh, ts)) : AInv f ((act sh (.saLock f last) ch).1, ts.set i (act sh (.saLock f last) ch).2.1) := by
  sm_prep
  simp only [act, Anchor.lockExclusive, Anchor.lockShared, Anchor.stopAppending, Anchor.unlockSharedAndSwitch]
  sm_splitfin

theorem ainv_cwU {sh : Sh} {ts : List PC} (f : Nat) (app : Bool) (ch : Bool) (i : Nat) (h : i < ts.length) (hp : ts[i] = (.cwU f app))
    (hi : AInv f (sh, ts)) : AInv f ((act sh (.cwU f app) ch).1, ts.set i (act sh (.cwU f app) ch).2.1) := by
  cases app
  all_goals (
    sm_prep
    simp only [act, Anchor.lockExclusive, Anchor.lockShared, Anchor.stopAppending, Anchor.unlockSharedAndSwitch]
    sm_splitfin)

theorem ainv_awA {sh : Sh} {ts : List PC} (f : Nat) (app : Bool) (ch : Bool) (i : Nat) (h : i < ts.length) (hp : ts[i] = (.awA f app))
    (hi : AInv f (sh, ts)) : AInv f ((act sh (.awA f app) ch).1, ts.set i (act sh (.awA f app) ch).2.1) := by
  cases app
  all_goals (
    sm_prep
    simp only [act, Anchor.lockExclusive, Anchor.lockShared, Anchor.stopAppending, Anchor.unlockSharedAndSwitch]
    sm_splitfin)

theorem ainv_awStop {sh : Sh} {ts : List PC} (f : Nat) (ch : Bool) (i : Nat) (h : i < ts.length) (hp : ts[i] = (.awStop f))
    (hi : AInv f (sh, ts)) : AInv f ((act sh (.awStop f) ch).1, ts.set i (act sh (.awStop f) ch).2.1) := by
  sm_prep
  simp only [act, Anchor.lockExclusive, Anchor.lockShared, Anchor.stopAppending, Anchor.unlockSharedAndSwitch]
  sm_splitfin

theorem ainv_awW {sh : Sh} {ts : List PC} (f : Nat) (ch : Bool) (i : Nat) (h : i < ts.length) (hp : ts[i] = (.awW f))
    (hi : AInv f (sh, ts)) : AInv f ((act sh (.awW f) ch).1, ts.set i (act sh (.awW f) ch).2.1) := by
  sm_prep
  simp only [act, Anchor.lockExclusive, Anchor.lockShared, Anchor.stopAppending, Anchor.unlockSharedAndSwitch]
  sm_splitfin

theorem ainv_awH {sh : Sh} {ts : List PC} (f : Nat) (ch : Bool) (i : Nat) (h : i < ts.length) (hp : ts[i] = (.awH f))
    (hi : AInv f (sh, ts)) : AInv f ((act sh (.awH f) ch).1, ts.set i (act sh (.awH f) ch).2.1) := by
  sm_prep
  simp only [act, Anchor.lockExclusive, Anchor.lockShared, Anchor.stopAppending, Anchor.unlockSharedAndSwitch]
  sm_splitfin

theorem ainv_awU {sh : Sh} {ts : List PC} (f : Nat) (ch : Bool) (i : Nat) (h : i < ts.length) (hp : ts[i] = (.awU f))
    (hi : AInv f (sh, ts)) : AInv f ((act sh (.awU f) ch).1, ts.set i (act sh (.awU f) ch).2.1) := by
  sm_prep
  simp only [act, Anchor.lockExclusive, Anchor.lockShared, Anchor.stopAppending, Anchor.unlockSharedAndSwitch]
  sm_splitfin

set_option maxHeartbeats 1600000 in
theorem ainv_orLock {sh : Sh} {ts : List PC} (f : Nat) (k : Nat) (ch : Bool) (i : Nat) (h : i < ts.length) (hp : ts[i] = (.orLock f k))
    (hi : AInv f (sh, ts)) : AInv f ((act sh (.orLock f k) ch).1, ts.set i (act sh (.orLock f k) ch).2.1) := by
  sm_prep
  simp only [act, Anchor.lockExclusive, Anchor.lockShared, Anchor.stopAppending, Anchor.unlockSharedAndSwitch]
  sm_splitfin

theorem ainv_orW {sh : Sh} {ts : List PC} (f : Nat) (k : Nat) (ch : Bool) (i : Nat) (h : i < ts.length) (hp : ts[i] = (.orW f k))
    (hi : AInv f (sh, ts)) : AInv f ((act sh (.orW f k) ch).1, ts.set i (act sh (.orW f k) ch).2.1) := by
  sm_prep
  simp only [act, Anchor.lockExclusive, Anchor.lockShared, Anchor.stopAppending, Anchor.unlockSharedAndSwitch]
  sm_splitfin

theorem ainv_orU {sh : Sh} {ts : List PC} (f : Nat) (ch : Bool) (i : Nat) (h : i < ts.length) (hp : ts[i] = (.orU f))
    (hi : AInv f (sh, ts)) : AInv f ((act sh (.orU f) ch).1, ts.set i (act sh (.orU f) ch).2.1) := by
  sm_prep
  simp only [act, Anchor.lockExclusive, Anchor.lockShared, Anchor.stopAppending, Anchor.unlockSharedAndSwitch]
  sm_splitfin

theorem ainv_rdStart {sh : Sh} {ts : List PC} (f : Nat) (ch : Bool) (i : Nat) (h : i < ts.length) (hp : ts[i] = (.rdStart f))
    (hi : AInv f (sh, ts)) : AInv f ((act sh (.rdStart f) ch).1, ts.set i (act sh (.rdStart f) ch).2.1) := by
  sm_prep
  simp only [act, Anchor.lockExclusive, Anchor.lockShared, Anchor.stopAppending, Anchor.unlockSharedAndSwitch]
  sm_splitfin

theorem ainv_rdSize {sh : Sh} {ts : List PC} (f : Nat) (cur : Nat) (acc : List Nat) (ch : Bool) (i : Nat) (h : i < ts.length) (hp : ts[i] = (.rdSize f cur acc))
    (hi : AInv f (sh, ts)) : AInv f ((act sh (.rdSize f cur acc) ch).1, ts.set i (act sh (.rdSize f cur acc) ch).2.1) := by
  sm_prep
  simp only [act, Anchor.lockExclusive, Anchor.lockShared, Anchor.stopAppending, Anchor.unlockSharedAndSwitch]
  sm_splitfin

theorem ainv_rdNext {sh : Sh} {ts : List PC} (f : Nat) (cur : Nat) (acc : List Nat) (ch : Bool) (i : Nat) (h : i < ts.length) (hp : ts[i] = (.rdNext f cur acc))
    (hi : AInv f (sh, ts)) : AInv f ((act sh (.rdNext f cur acc) ch).1, ts.set i (act sh (.rdNext f cur acc) ch).2.1) := by
  sm_prep
  simp only [act, Anchor.lockExclusive, Anchor.lockShared, Anchor.stopAppending, Anchor.unlockSharedAndSwitch]
  sm_splitfin

theorem ainv_crU {sh : Sh} {ts : List PC} (f : Nat) (ch : Bool) (i : Nat) (h : i < ts.length) (hp : ts[i] = (.crU f))
    (hi : AInv f (sh, ts)) : AInv f ((act sh (.crU f) ch).1, ts.set i (act sh (.crU f) ch).2.1) := by
  sm_prep
  simp only [act, Anchor.lockExclusive, Anchor.lockShared, Anchor.stopAppending, Anchor.unlockSharedAndSwitch]
  sm_splitfin

set_option maxHeartbeats 1600000 in
theorem ainv_cfX {sh : Sh} {ts : List PC} (f : Nat) (ch : Bool) (i : Nat) (h : i < ts.length) (hp : ts[i] = (.cfX f))
    (hi : AInv f (sh, ts)) : AInv f ((act sh (.cfX f) ch).1, ts.set i (act sh (.cfX f) ch).2.1) := by
  sm_prep
  simp only [act, Anchor.lockExclusive, Anchor.lockShared, Anchor.stopAppending, Anchor.unlockSharedAndSwitch]
  sm_splitfin

set_option maxHeartbeats 1600000 in
theorem ainv_feLock {sh : Sh} {ts : List PC} (f : Nat) (ch : Bool) (i : Nat) (h : i < ts.length) (hp : ts[i] = (.feLock f))
    (hi : AInv f (sh, ts)) : AInv f ((act sh (.feLock f) ch).1, ts.set i (act sh (.feLock f) ch).2.1) := by
  sm_prep
  simp only [act, Anchor.lockExclusive, Anchor.lockShared, Anchor.stopAppending, Anchor.unlockSharedAndSwitch]
  sm_splitfin

theorem ainv_feW {sh : Sh} {ts : List PC} (f : Nat) (ch : Bool) (i : Nat) (h : i < ts.length) (hp : ts[i] = (.feW f))
    (hi : AInv f (sh, ts)) : AInv f ((act sh (.feW f) ch).1, ts.set i (act sh (.feW f) ch).2.1) := by
  sm_prep
  simp only [act, Anchor.lockExclusive, Anchor.lockShared, Anchor.stopAppending, Anchor.unlockSharedAndSwitch]
  sm_splitfin

theorem ainv_feCas {sh : Sh} {ts : List PC} (f : Nat) (g0 : Nat) (ch : Bool) (i : Nat) (h : i < ts.length) (hp : ts[i] = (.feCas f g0))
    (hi : AInv f (sh, ts)) : AInv f ((act sh (.feCas f g0) ch).1, ts.set i (act sh (.feCas f g0) ch).2.1) := by
  sm_prep
  simp only [act, Anchor.lockExclusive, Anchor.lockShared, Anchor.stopAppending, Anchor.unlockSharedAndSwitch]
  sm_splitfin

set_option maxHeartbeats 1600000 in
theorem ainv_fkLockE {sh : Sh} {ts : List PC} (f : Nat) (k : Nat) (g0 : Nat) (ch : Bool) (i : Nat) (h : i < ts.length) (hp : ts[i] = (.fkLockE f k g0))
    (hi : AInv f (sh, ts)) : AInv f ((act sh (.fkLockE f k g0) ch).1, ts.set i (act sh (.fkLockE f k g0) ch).2.1) := by
  sm_prep
  simp only [act, Anchor.lockExclusive, Anchor.lockShared, Anchor.stopAppending, Anchor.unlockSharedAndSwitch]
  sm_splitfin

theorem ainv_fkUE {sh : Sh} {ts : List PC} (f : Nat) (ch : Bool) (i : Nat) (h : i < ts.length) (hp : ts[i] = (.fkUE f))
    (hi : AInv f (sh, ts)) : AInv f ((act sh (.fkUE f) ch).1, ts.set i (act sh (.fkUE f) ch).2.1) := by
  sm_prep
  simp only [act, Anchor.lockExclusive, Anchor.lockShared, Anchor.stopAppending, Anchor.unlockSharedAndSwitch]
  sm_splitfin

set_option maxHeartbeats 1600000 in
theorem ainv_fkLockS {sh : Sh} {ts : List PC} (f : Nat) (k : Nat) (g0 : Nat) (ch : Bool) (i : Nat) (h : i < ts.length) (hp : ts[i] = (.fkLockS f k g0))
    (hi : AInv f (sh, ts)) : AInv f ((act sh (.fkLockS f k g0) ch).1, ts.set i (act sh (.fkLockS f k g0) ch).2.1) := by
  sm_prep
  simp only [act, Anchor.lockExclusive, Anchor.lockShared, Anchor.stopAppending, Anchor.unlockSharedAndSwitch]
  sm_splitfin

theorem ainv_fkMarkS {sh : Sh} {ts : List PC} (f : Nat) (g0 : Nat) (ch : Bool) (i : Nat) (h : i < ts.length) (hp : ts[i] = (.fkMarkS f g0))
    (hi : AInv f (sh, ts)) : AInv f ((act sh (.fkMarkS f g0) ch).1, ts.set i (act sh (.fkMarkS f g0) ch).2.1) := by
  sm_prep
  simp only [act, Anchor.lockExclusive, Anchor.lockShared, Anchor.stopAppending, Anchor.unlockSharedAndSwitch]
  sm_splitfin

theorem ainv_fkUS {sh : Sh} {ts : List PC} (f : Nat) (hit : Bool) (g0 : Nat) (ch : Bool) (i : Nat) (h : i < ts.length) (hp : ts[i] = (.fkUS f hit g0))
    (hi : AInv f (sh, ts)) : AInv f ((act sh (.fkUS f hit g0) ch).1, ts.set i (act sh (.fkUS f hit g0) ch).2.1) := by
  cases hit
  all_goals (
    sm_prep
    simp only [act, Anchor.lockExclusive, Anchor.lockShared, Anchor.stopAppending, Anchor.unlockSharedAndSwitch]
    sm_splitfin)

theorem ainv_fkMark {sh : Sh} {ts : List PC} (f : Nat) (g0 : Nat) (ch : Bool) (i : Nat) (h : i < ts.length) (hp : ts[i] = (.fkMark f g0))
    (hi : AInv f (sh, ts)) : AInv f ((act sh (.fkMark f g0) ch).1, ts.set i (act sh (.fkMark f g0) ch).2.1) := by
  sm_prep
  simp only [act, Anchor.lockExclusive, Anchor.lockShared, Anchor.stopAppending, Anchor.unlockSharedAndSwitch]
  sm_splitfin

end SquidModel.Ipc.StoreMap
