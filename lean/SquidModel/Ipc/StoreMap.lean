/-
Model of `Ipc::StoreMap` (src/ipc/StoreMap.{h,cc}) on top of the *specification* of `Ipc::ReadWriteLock` proved in C54.

Layering. Every lock method is ONE atomic step of an abstract lock whose state is "who holds what" (`readers`, `writer`):
an acquiring method may succeed only when the C54 theorems allow a new holder of that kind next to the present holders
(`exclusive_holders_unique`, `exclusive_excludes_shared`, `shared_with_writer_only_if_appending`), and it may always fail
(the real lock fails spuriously while other threads are inside lock methods): the Boolean `ch` of `act` is that freedom.
Everything else is modelled at the granularity of single atomic operations of StoreMap.cc (loads, stores, CAS, inc/dec of the
std::atomic members of anchors and slices); non-atomic accesses (`key`, `basics`) are fused with the atomic operation
that precedes them in program order, exactly as the scheduler-controlled harness executes them.

A thread is a *session* that works on one entry at a time (a Squid worker = several sessions that never run at once).
Between calls a session is `idle`, holds an entry for writing (`holdW`) or for reading (`holdR`).
`call` starts an API call from a rest state (the caller contract), `act` performs the pending atomic operation.

Modelled, branch by branch: openForWritingAt, startAppending, closeForWriting, abortWriting, openForReadingAt, closeForReading,
closeForReadingAndFreeIdle, freeEntry, freeEntryByKey, freeChain, freeChainAt, StoreMapAnchor::rewind, StoreMapAnchor::setKey,
fileNoByKey; plus the caller protocol used by MemStore/Rock around them: take a free slice, prepFreeSlice, fill it, link it
(`AS`), walk the chain as a reader (`RD`), and the StoreMapCleaner that returns freed slices to the free pool.

Ghost state (no influence on the behaviour, used to state the properties): `chain`, `live`, `complete`, `gen`, `delDone`,
`lost` of an anchor and `owner` of a slice.
-/
import SquidModel.Gen.StoreMapCfg

namespace SquidModel.Ipc.StoreMap

open SquidModel.Gen.StoreMapCfg (setKeyOnlySets)   -- generated from the staged source: does setKey() only ever set waitingToBeFreed?

inductive WMode where
  | none | E | A | D      -- nobody / strictly exclusive / appending / after a failed stopAppendingAndRestoreExclusive
  deriving DecidableEq, Repr

inductive Owner where
  | free | anchor (f : Nat) | priv (t : Nat)
  deriving DecidableEq, Repr

structure Anchor where
  -- abstract lock
  readers : Nat := 0
  writer : WMode := .none
  -- StoreMapAnchor
  key : Nat := 0                -- 0 = empty()
  wtbf : Bool := false          -- waitingToBeFreed
  halted : Bool := false        -- writerHalted
  start : Int := 0
  splice : Int := -1            -- splicingPoint
  sz : Nat := 0                 -- basics.swap_file_sz (only written here)
  -- ghost
  chain : List Nat := []        -- the slices linked into this entry, in order
  live : Bool := false          -- `start` describes `chain`
  complete : Bool := false      -- the writer called closeForWriting
  gen : Nat := 0                -- number of completed rewind()s ("periods" of the anchor)
  delDone : Bool := false       -- a delete request issued in this period has returned
  lost : Bool := false          -- setKey() overwrote a set waitingToBeFreed in this period

structure Slice where
  size : Nat := 0
  next : Int := -1
  owner : Owner := .free        -- ghost

structure Sh where
  n : Nat                       -- entryLimit() = sliceLimit()
  anchors : Nat → Anchor
  slices : Nat → Slice
  count : Int                   -- anchors->count
  fileNos : Nat → Nat           -- fileNos->items
  pool : List Nat               -- the caller's free slices (top first); the cleaner pushes here

def upd {α : Type} (m : Nat → α) (i : Nat) (v : α) : Nat → α := fun j => if j = i then v else m j

@[simp] theorem upd_same {α : Type} (m : Nat → α) (i : Nat) (v : α) : upd m i v i = v := by simp [upd]
theorem upd_other {α : Type} (m : Nat → α) (i j : Nat) (v : α) (h : j ≠ i) : upd m i v j = m j := by simp [upd, h]

def Sh.init (n : Nat) : Sh := { n := n, anchors := fun _ => {}, slices := fun _ => {}, count := 0, fileNos := fun _ => 0, pool := List.range n }

def Sh.a (sh : Sh) (f : Nat) : Anchor := sh.anchors f
def Sh.s (sh : Sh) (i : Nat) : Slice := sh.slices i
def Sh.setA (sh : Sh) (f : Nat) (a : Anchor) : Sh := { sh with anchors := upd sh.anchors f a }
def Sh.setS (sh : Sh) (i : Nat) (s : Slice) : Sh := { sh with slices := upd sh.slices i s }

/-- continuation of freeChain(): back into openForWritingAt (keepLocked), return `r` to the API caller, or the
unlockExclusive of freeEntryByKey (keepLocked) -/
inductive Ret where
  | ow | done (r : Bool) | fk
  deriving DecidableEq, Repr

def Ret.keep : Ret → Bool
  | .ow | .fk => true
  | .done _ => false

inductive PC where
  -- rest states
  | idle
  | holdW (f : Nat) (app : Bool) (last : Int)     -- `last`: the slice this writer linked last (-1: none yet)
  | holdR (f : Nat)
  -- openForWritingAt(f, overwriteExisting)
  | owLock (f : Nat) (ow : Bool) | owW1 (f : Nat) (ow : Bool) | owBail (f : Nat) | owW2 (f : Nat)
  | owS (f : Nat) | owSp (f : Nat) | owCnt (f : Nat)
  -- freeChain / freeChainAt / rewind
  | fcSp (f : Nat) (r : Ret) | fcSt (f : Nat) (sp : Int) (r : Ret)
  | fcNext (f cur : Nat) (sp : Int) (r : Ret) | fcClrS (f cur : Nat) (nx sp : Int) (r : Ret) | fcClrN (f cur : Nat) (nx sp : Int) (r : Ret)
  | rwStart (f : Nat) (r : Ret) | rwSplice (f : Nat) (r : Ret) | rwSz (f : Nat) (r : Ret) | rwWtbf (f : Nat) (r : Ret)
  | rwHalt (f : Nat) (r : Ret) | fcUnl (f : Nat) (b : Bool) | fcCnt (f : Nat) (r : Ret)
  -- setKey
  | skW (f : Nat) (last : Int) (m : Bool)
  -- caller protocol: append a slice
  | asClrS (f : Nat) (app : Bool) (last : Int) (s n : Nat) | asClrN (f : Nat) (app : Bool) (last : Int) (s n : Nat)
  | asSize (f : Nat) (app : Bool) (last : Int) (s n : Nat) | asLink (f : Nat) (app : Bool) (last : Int) (s : Nat)
  -- startAppending / closeForWriting
  | saLock (f : Nat) (last : Int) | cwU (f : Nat) (app : Bool)
  -- abortWriting
  | awA (f : Nat) (app : Bool) | awStop (f : Nat) | awW (f : Nat) | awH (f : Nat) | awU (f : Nat)
  -- openForReadingAt(f, key)
  | orLock (f k : Nat) | orW (f k : Nat) | orU (f : Nat)
  -- caller protocol: walk the chain
  | rdStart (f : Nat) | rdSize (f cur : Nat) (acc : List Nat) | rdNext (f cur : Nat) (acc : List Nat)
  -- closeForReading / closeForReadingAndFreeIdle
  | crU (f : Nat) | cfX (f : Nat)
  -- freeEntry
  | feLock (f : Nat) | feW (f : Nat) | feCas (f g0 : Nat)
  -- freeEntryByKey
  | fkFn (k : Nat) | fkLockE (f k g0 : Nat) | fkUE (f : Nat) | fkLockS (f k g0 : Nat)
  | fkMarkS (f g0 : Nat) | fkUS (f : Nat) (hit : Bool) (g0 : Nat) | fkMark (f g0 : Nat)
  deriving DecidableEq, Repr

def PC.isRest : PC → Bool
  | .idle | .holdW .. | .holdR _ => true
  | _ => false

inductive Op where
  | OW (f : Nat) (ow : Bool) | SK (k : Nat) (m : Bool) | AS (n : Nat) | SA | CW | AW
  | OR (f k : Nat) | RD | CR | CF | FE (f : Nat) | FK (k : Nat)
  deriving DecidableEq, Repr

/-- what an atomic operation did, for trace validation -/
structure Ev where
  obj : String
  kind : String
  old : Nat
  new : Nat
  deriving DecidableEq, Repr

def b2n (b : Bool) : Nat := if b then 1 else 0
/-- how the harness prints a signed 32-bit value -/
def u64 (v : Int) : Nat := if v < 0 then (18446744073709551616 + v).toNat else v.toNat

/-! ### the abstract lock (specification of Ipc::ReadWriteLock, see Properties/C54.lean) -/

def Anchor.lockExclusive (a : Anchor) (ch : Bool) : Anchor × Bool :=
  if ch && a.writer == .none && a.readers == 0 then ({ a with writer := .E }, true) else (a, false)
def Anchor.lockShared (a : Anchor) (ch : Bool) : Anchor × Bool :=
  if ch && a.writer != .E then ({ a with readers := a.readers + 1 }, true) else (a, false)
def Anchor.unlockShared (a : Anchor) : Anchor := { a with readers := a.readers - 1 }
def Anchor.unlockExclusive (a : Anchor) : Anchor := { a with writer := .none }
def Anchor.startAppending (a : Anchor) : Anchor := { a with writer := .A }
def Anchor.stopAppending (a : Anchor) (ch : Bool) : Anchor × Bool :=
  if ch && a.readers == 0 then ({ a with writer := .E }, true) else ({ a with writer := .D }, false)
def Anchor.unlockSharedAndSwitch (a : Anchor) (ch : Bool) : Anchor × Bool :=
  if ch && a.writer == .none && a.readers - 1 == 0 then ({ a with readers := a.readers - 1, writer := .E }, true)
  else ({ a with readers := a.readers - 1 }, false)

/-- readers*4 + writing*2 + appending: how a lock event shows the lock -/
def Anchor.pack (a : Anchor) : Nat := a.readers * 4 + (if a.writer == .none then 0 else 2) + (if a.writer == .A then 1 else 0)

def lockEv (f : Nat) (m : String) (a a' : Anchor) : Ev := ⟨s!"L{f}", m, a.pack, a'.pack⟩

/-- `if (!inode.empty()) freeChainAt(...)`: the emptiness test is a plain read made in the step that enters freeChain -/
def enterFC (sh : Sh) (f : Nat) (r : Ret) : PC := if (sh.a f).key = 0 then .rwStart f r else .fcSp f r

def resB (b : Bool) : Option String := some (if b then "1" else "0")

def fmtSizes (l : List Nat) : String := if l.isEmpty then "e" else ".".intercalate (l.map toString)

/-- fileNoByName(nameByKey(key)) given the loaded fileNos item -/
def fileNoOf (n k item : Nat) : Nat := if item ≠ 0 then item - 1 else k % n

/-- start an API call; `none` when the caller contract does not allow the call in this rest state.
Returns the new shared state (plain accesses made before the first atomic operation), the new pc and, when the call
completes without any atomic operation, its result. -/
def call (tid : Nat) (sh : Sh) : PC → Op → Option (Sh × PC × Option String)
  | .idle, .OW f ow => some (sh, .owLock f ow, none)
  | .idle, .OR f k => if k = 0 then none else some (sh, .orLock f k, none)
  | .idle, .FE f => some (sh, .feLock f, none)
  | .idle, .FK k => if k = 0 then none else some (sh, .fkFn k, none)
  -- setKey: memcpy(key) now, the store to waitingToBeFreed is the pending atomic operation
  | .holdW f false last, .SK k m =>
    if k = 0 then none
    else if setKeyOnlySets && !m then some (sh.setA f { sh.a f with key := k }, .holdW f false last, some "1")   -- `if (marked)` not taken
    else some (sh.setA f { sh.a f with key := k }, .skW f last m, none)
  | .holdW f app last, .AS n =>
    match sh.pool with
    | [] => some (sh, .holdW f app last, some "x")
    | s :: rest => some ({ sh.setS s { sh.s s with owner := .priv tid } with pool := rest }, .asClrS f app last s n, none)
  | .holdW f false last, .SA => some (sh, .saLock f last, none)
  | .holdW f app _, .CW => some (sh, .cwU f app, none)
  | .holdW f app _, .AW => some (sh, .awA f app, none)
  | .holdR f, .RD => some (sh, .rdStart f, none)
  | .holdR f, .CR => some (sh, .crU f, none)
  | .holdR f, .CF => some (sh, .cfX f, none)
  | _, _ => none

/-- the pending atomic operation of a non-rest pc; `ch` resolves the freedom of the lock specification -/
def act (sh : Sh) (pc : PC) (ch : Bool) : Sh × PC × Ev × Option String :=
  match pc with
  -- openForWritingAt
  | .owLock f ow =>
    let a := sh.a f
    let (a', ok) := a.lockExclusive ch
    (sh.setA f a', if ok then .owW1 f ow else .idle, lockEv f "lockExclusive" a a', if ok then none else resB false)
  | .owW1 f ow =>
    let a := sh.a f
    -- if (!s.waitingToBeFreed && !s.empty() && !overwriteExisting) bail
    (sh, if !a.wtbf && a.key != 0 && !ow then .owBail f else .owW2 f, ⟨s!"W{f}", "load", b2n a.wtbf, b2n a.wtbf⟩, none)
  | .owBail f =>
    let a := sh.a f
    (sh.setA f a.unlockExclusive, .idle, lockEv f "unlockExclusive" a a.unlockExclusive, resB false)
  | .owW2 f =>
    let a := sh.a f
    -- if (s.waitingToBeFreed || !s.empty()) freeChain(fileno, s, true)
    (sh, if a.wtbf || a.key != 0 then enterFC sh f .ow else .owS f, ⟨s!"W{f}", "load", b2n a.wtbf, b2n a.wtbf⟩, none)
  | .owS f =>
    let a := sh.a f
    (sh.setA f { a with start := -1, chain := [], live := true }, .owSp f, ⟨s!"S{f}", "store", u64 a.start, u64 (-1)⟩, none)
  | .owSp f =>
    let a := sh.a f
    (sh.setA f { a with splice := -1 }, .owCnt f, ⟨s!"P{f}", "store", u64 a.splice, u64 (-1)⟩, none)
  | .owCnt f =>
    ({ sh with count := sh.count + 1 }, .holdW f false (-1), ⟨"CNT", "add", u64 sh.count, u64 (sh.count + 1)⟩, resB true)
  -- freeChain: freeChainAt(inode.start, inode.splicingPoint) (g++ evaluates the arguments right to left)
  | .fcSp f r =>
    let a := sh.a f
    (sh, .fcSt f a.splice r, ⟨s!"P{f}", "load", u64 a.splice, u64 a.splice⟩, none)
  | .fcSt f sp r =>
    let a := sh.a f
    (sh.setA f { a with live := false }, if a.start ≥ 0 then .fcNext f a.start.toNat sp r else .rwStart f r,
     ⟨s!"S{f}", "load", u64 a.start, u64 a.start⟩, none)
  | .fcNext f cur sp r =>
    let s := sh.s cur
    (sh, .fcClrS f cur s.next sp r, ⟨s!"N{cur}", "load", u64 s.next, u64 s.next⟩, none)
  | .fcClrS f cur nx sp r =>
    let s := sh.s cur
    (sh.setS cur { s with size := 0 }, .fcClrN f cur nx sp r, ⟨s!"Q{cur}", "store", s.size, 0⟩, none)
  | .fcClrN f cur nx sp r =>
    let s := sh.s cur
    let a := sh.a f
    -- slice.clear() done; cleaner->noteFreeMapSlice(sliceId); if (sliceId == splicingPoint) break; sliceId = nextId
    ({ (sh.setS cur { s with next := -1, owner := .free }).setA f { a with chain := a.chain.tail } with pool := cur :: sh.pool },
     if (cur : Int) = sp then .rwStart f r else if nx ≥ 0 then .fcNext f nx.toNat sp r else .rwStart f r,
     ⟨s!"N{cur}", "store", u64 s.next, u64 (-1)⟩, none)
  -- rewind()
  | .rwStart f r =>
    let a := sh.a f
    (sh.setA f { a with start := 0, live := false }, .rwSplice f r, ⟨s!"S{f}", "store", u64 a.start, 0⟩, none)
  | .rwSplice f r =>
    let a := sh.a f
    (sh.setA f { a with splice := -1, key := 0, complete := false }, .rwSz f r, ⟨s!"P{f}", "store", u64 a.splice, u64 (-1)⟩, none)
  | .rwSz f r =>
    let a := sh.a f
    (sh.setA f { a with sz := 0 }, .rwWtbf f r, ⟨s!"Z{f}", "store", a.sz, 0⟩, none)
  | .rwWtbf f r =>
    let a := sh.a f
    (sh.setA f { a with wtbf := false, gen := a.gen + 1, delDone := false, lost := false }, .rwHalt f r,
     ⟨s!"W{f}", "store", b2n a.wtbf, 0⟩, none)
  | .rwHalt f r =>
    let a := sh.a f
    -- if (!keepLocked) inode.lock.unlockExclusive()
    (sh.setA f { a with halted := false }, match r with | .done b => .fcUnl f b | _ => .fcCnt f r, ⟨s!"H{f}", "store", b2n a.halted, 0⟩, none)
  | .fcUnl f b =>
    let a := sh.a f
    (sh.setA f a.unlockExclusive, .fcCnt f (.done b), lockEv f "unlockExclusive" a a.unlockExclusive, none)
  | .fcCnt f r =>
    ({ sh with count := sh.count - 1 },
     match r with | .ow => .owS f | .done _ => .idle | .fk => .fkUE f,
     ⟨"CNT", "sub", u64 sh.count, u64 (sh.count - 1)⟩,
     match r with | .done b => resB b | _ => none)
  -- setKey: waitingToBeFreed = Store::Root().markedForDeletion(aKey)   (or, when `setKeyOnlySets`, `= true` under `if (marked)`)
  | .skW f last m =>
    let a := sh.a f
    let w := if setKeyOnlySets then a.wtbf || m else m
    (sh.setA f { a with wtbf := w, lost := a.lost || (a.wtbf && !w) }, .holdW f false last, ⟨s!"W{f}", "store", b2n a.wtbf, b2n w⟩, resB true)
  -- append a slice: prepFreeSlice(s); slice.size = n; link
  | .asClrS f app last s n =>
    let sl := sh.s s
    (sh.setS s { sl with size := 0 }, .asClrN f app last s n, ⟨s!"Q{s}", "store", sl.size, 0⟩, none)
  | .asClrN f app last s n =>
    let sl := sh.s s
    (sh.setS s { sl with next := -1 }, .asSize f app last s n, ⟨s!"N{s}", "store", u64 sl.next, u64 (-1)⟩, none)
  | .asSize f app last s n =>
    let sl := sh.s s
    (sh.setS s { sl with size := n }, .asLink f app last s, ⟨s!"Q{s}", "store", sl.size, n⟩, none)
  | .asLink f app last s =>
    let a := sh.a f
    let sh1 := sh.setS s { sh.s s with owner := .anchor f }
    if last < 0 then
      (sh1.setA f { a with start := s, chain := a.chain ++ [s] }, .holdW f app s, ⟨s!"S{f}", "store", u64 a.start, s⟩, some (toString s))
    else
      let l := sh1.s last.toNat
      ((sh1.setS last.toNat { l with next := s }).setA f { a with chain := a.chain ++ [s] }, .holdW f app s,
       ⟨s!"N{last.toNat}", "store", u64 l.next, s⟩, some (toString s))
  -- startAppending / closeForWriting
  | .saLock f last =>
    let a := sh.a f
    (sh.setA f a.startAppending, .holdW f true last, lockEv f "startAppending" a a.startAppending, resB true)
  | .cwU f _ =>
    let a := sh.a f
    (sh.setA f { a.unlockExclusive with complete := true }, .idle, lockEv f "unlockExclusive" a a.unlockExclusive, resB true)
  -- abortWriting: if (!s.lock.appending || s.lock.stopAppendingAndRestoreExclusive()) freeChain else mark, halt, unlock
  | .awA f _ =>
    let a := sh.a f
    let ap := a.writer == .A
    (sh, if ap then .awStop f else enterFC sh f (.done true), ⟨s!"l{f}A", "load", b2n ap, b2n ap⟩, none)
  | .awStop f =>
    let a := sh.a f
    let (a', ok) := a.stopAppending ch
    (sh.setA f a', if ok then enterFC sh f (.done true) else .awW f, lockEv f "stopAppendingAndRestoreExclusive" a a', none)
  | .awW f =>
    let a := sh.a f
    (sh.setA f { a with wtbf := true }, .awH f, ⟨s!"W{f}", "store", b2n a.wtbf, 1⟩, none)
  | .awH f =>
    let a := sh.a f
    (sh.setA f { a with halted := true }, .awU f, ⟨s!"H{f}", "store", b2n a.halted, 1⟩, none)
  | .awU f =>
    let a := sh.a f
    (sh.setA f a.unlockExclusive, .idle, lockEv f "unlockExclusive" a a.unlockExclusive, resB true)
  -- openForReadingAt
  | .orLock f k =>
    let a := sh.a f
    let (a', ok) := a.lockShared ch
    (sh.setA f a', if ok then (if a.key = 0 then .orU f else .orW f k) else .idle, lockEv f "lockShared" a a', if ok then none else resB false)
  | .orW f k =>
    let a := sh.a f
    (sh, if a.wtbf then .orU f else if a.key = k then .holdR f else .orU f, ⟨s!"W{f}", "load", b2n a.wtbf, b2n a.wtbf⟩,
     if !a.wtbf && a.key = k then resB true else none)
  | .orU f =>
    let a := sh.a f
    (sh.setA f a.unlockShared, .idle, lockEv f "unlockShared" a a.unlockShared, resB false)
  -- reader walk
  | .rdStart f =>
    let a := sh.a f
    (sh, if a.start ≥ 0 then .rdSize f a.start.toNat [] else .holdR f, ⟨s!"S{f}", "load", u64 a.start, u64 a.start⟩,
     if a.start ≥ 0 then none else some (fmtSizes []))
  | .rdSize f cur acc =>
    let s := sh.s cur
    (sh, .rdNext f cur (acc ++ [s.size]), ⟨s!"Q{cur}", "load", s.size, s.size⟩, none)
  | .rdNext f cur acc =>
    let s := sh.s cur
    (sh, if s.next ≥ 0 then .rdSize f s.next.toNat acc else .holdR f, ⟨s!"N{cur}", "load", u64 s.next, u64 s.next⟩,
     if s.next ≥ 0 then none else some (fmtSizes acc))
  -- closeForReading / closeForReadingAndFreeIdle
  | .crU f =>
    let a := sh.a f
    (sh.setA f a.unlockShared, .idle, lockEv f "unlockShared" a a.unlockShared, resB true)
  | .cfX f =>
    let a := sh.a f
    let (a', ok) := a.unlockSharedAndSwitch ch
    (sh.setA f a', if ok then enterFC sh f (.done true) else .idle, lockEv f "unlockSharedAndSwitchToExclusive" a a',
     if ok then none else resB true)
  -- freeEntry
  | .feLock f =>
    let a := sh.a f
    let (a', ok) := a.lockExclusive ch
    (sh.setA f a', if ok then .feW f else .feCas f a.gen, lockEv f "lockExclusive" a a', none)
  | .feW f =>
    let a := sh.a f
    -- const bool result = !s.waitingToBeFreed && !s.empty(); freeChain(fileno, s, false); return result
    (sh, enterFC sh f (.done (!a.wtbf && a.key != 0)), ⟨s!"W{f}", "load", b2n a.wtbf, b2n a.wtbf⟩, none)
  | .feCas f g0 =>
    let a := sh.a f
    (sh.setA f { a with wtbf := true, delDone := a.delDone || a.gen == g0 }, .idle,
     ⟨s!"W{f}", if a.wtbf then "casf" else "cas", b2n a.wtbf, 1⟩, resB (!a.wtbf))
  -- freeEntryByKey
  | .fkFn k =>
    let item := sh.fileNos (k % sh.n)
    let f := fileNoOf sh.n k item
    (sh, .fkLockE f k (sh.a f).gen, ⟨s!"F{k % sh.n}", "load", item, item⟩, none)
  | .fkLockE f k g0 =>
    let a := sh.a f
    let (a', ok) := a.lockExclusive ch
    let sh' := sh.setA f a'
    (sh', if ok then (if a.key = k then enterFC sh f .fk else .fkUE f) else .fkLockS f k g0, lockEv f "lockExclusive" a a', none)
  | .fkUE f =>
    let a := sh.a f
    (sh.setA f a.unlockExclusive, .idle, lockEv f "unlockExclusive" a a.unlockExclusive, resB true)
  | .fkLockS f k g0 =>
    let a := sh.a f
    let (a', ok) := a.lockShared ch
    (sh.setA f a',
     if ok then (if a.key = k then .fkMarkS f g0 else .fkUS f false g0) else (if a.key = k then .fkMark f g0 else .idle),
     lockEv f "lockShared" a a', if !ok && a.key ≠ k then resB true else none)
  | .fkMarkS f g0 =>
    let a := sh.a f
    (sh.setA f { a with wtbf := true }, .fkUS f true g0, ⟨s!"W{f}", "store", b2n a.wtbf, 1⟩, none)
  | .fkUS f hit g0 =>
    let a := sh.a f
    (sh.setA f { a.unlockShared with delDone := a.delDone || (hit && a.gen == g0) }, .idle, lockEv f "unlockShared" a a.unlockShared, resB true)
  | .fkMark f g0 =>
    let a := sh.a f
    (sh.setA f { a with wtbf := true, delDone := a.delDone || a.gen == g0 }, .idle, ⟨s!"W{f}", "store", b2n a.wtbf, 1⟩, resB true)
  -- rest states perform nothing
  | p => (sh, p, ⟨"-", "none", 0, 0⟩, none)

abbrev Cfg := Sh × List PC

/-- one step of the system: a session starts an API call its contract allows, or performs its pending atomic operation
(with either resolution of the lock's freedom) -/
inductive Step : Cfg → Cfg → Prop where
  | call (sh : Sh) (ts : List PC) (i : Nat) (h : i < ts.length) (op : Op) (sh' : Sh) (p' : PC) (res : Option String)
      (hc : call i sh ts[i] op = some (sh', p', res)) : Step (sh, ts) (sh', ts.set i p')
  | act (sh : Sh) (ts : List PC) (i : Nat) (h : i < ts.length) (hn : ts[i].isRest = false) (ch : Bool) :
      Step (sh, ts) ((act sh ts[i] ch).1, ts.set i (act sh ts[i] ch).2.1)

inductive Reachable : Cfg → Prop where
  | init (n k : Nat) : Reachable (Sh.init n, List.replicate k PC.idle)
  | step {c c' : Cfg} : Reachable c → Step c c' → Reachable c'

end SquidModel.Ipc.StoreMap
