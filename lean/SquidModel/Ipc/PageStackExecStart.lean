/-
The start configuration of `runScenario` (stack created full, or created empty with the pages dealt round-robin to the
threads; every thread advanced to its first atomic operation) is `Reachable`.
-/
import SquidModel.Ipc.PageStackExecSound
import SquidModel.Ipc.PageStackInit

namespace SquidModel.Ipc.PageStack

theorem count_initialHeld (cap n t id : Nat) :
    (initialHeld cap n t).count id = if id < cap ∧ id % n = t then 1 else 0 := by
  unfold initialHeld
  by_cases h : id < cap ∧ id % n = t
  · rw [if_pos h, List.count_filter (by simpa using h.2), List.count_range, if_pos h.1]
  · rw [if_neg h]
    apply List.count_eq_zero_of_not_mem
    intro hm
    rw [List.mem_filter, List.mem_range] at hm
    exact h ⟨hm.1, by simpa using hm.2⟩

/-- dealing the pages round-robin to `n ≥ 1` threads is a partition of the pool -/
theorem partition_initialHeld (cap n : Nat) (hn : 0 < n) : Partition cap ((List.range n).map (initialHeld cap n)) := by
  intro id
  rw [List.map_map]
  have : ((List.range n).map ((fun h => List.count id h) ∘ initialHeld cap n)).sum
      = sumTo n (fun t => if id % n = t then (if id < cap then 1 else 0) else 0) := by
    unfold sumTo
    congr 1
    apply List.map_congr_left
    intro t _
    simp only [Function.comp, count_initialHeld]
    by_cases h1 : id < cap <;> by_cases h2 : id % n = t <;> simp [h1, h2]
  rw [this]
  by_cases h1 : id < cap
  · simp only [h1, if_true]
    rw [sumTo_indicator, if_pos (Nat.mod_lt _ hn)]
  · simp only [h1, if_false]
    have : (fun t : Nat => if id % n = t then 0 else 0) = fun _ => 0 := by funext t; split <;> rfl
    rw [this, sumTo_zero]

/-- advancing the threads one after the other (each `advance` is a sequence of `begin` steps) -/
theorem advance_all {cap H : Nat} (sh : Sh) : ∀ (zs : List (Nat × XTh)) (pre : List Th),
    Reachable cap H (sh, pre ++ zs.map (·.2.th)) →
    Reachable cap H (sh, pre ++ zs.map (fun p => (advance cap p.1 p.2).1.th)) := by
  intro zs
  induction zs with
  | nil => intro pre h; exact h
  | cons z rest ih =>
    intro pre h
    obtain ⟨tid, x⟩ := z
    simp only [List.map_cons] at h ⊢
    have h1 : Reachable cap H (sh, pre ++ (advance cap tid x).1.th :: rest.map (·.2.th)) := by
      rcases advance_th cap tid x with heq | ⟨op, r, hb⟩
      · rw [heq]; exact h
      · have hlen : pre.length < (pre ++ x.th :: rest.map (·.2.th)).length := by simp
        have hget : (pre ++ x.th :: rest.map (·.2.th))[pre.length] = x.th := by simp
        have := Reachable.step h (Step.begin sh _ pre.length hlen op _ r (by rw [hget]; exact hb))
        simpa using this
    have := ih (pre ++ [(advance cap tid x).1.th]) (by simpa using h1)
    simpa using this

theorem startSys_reachable (cap : Nat) (full : Bool) (opsPer : List (List Tok)) (hn : 0 < opsPer.length) :
    Reachable cap (measure cap).innerLevelCount (cfgOf (startSys cap full opsPer)) := by
  let n := opsPer.length
  let mk : Nat × List Tok → Nat × XTh := fun p =>
    (p.1, { th := ⟨.idle, if full then [] else initialHeld cap n p.1⟩, ops := p.2, cur := "", res := "" })
  have hshape : cfgOf (startSys cap full opsPer) =
      (if full then Sh.full cap (measure cap).innerLevelCount else Sh.empty,
        [] ++ (((List.range n).zip opsPer).map mk).map (fun p => (advance cap p.1 p.2).1.th)) := by
    simp only [cfgOf, startSys, List.map_map, List.nil_append]
    rfl
  rw [hshape]
  apply advance_all
  simp only [List.nil_append, List.map_map]
  have hfst : ((List.range n).zip opsPer).map Prod.fst = List.range n := by
    apply List.map_fst_zip; simp [n]
  cases full with
  | true =>
    have : ((List.range n).zip opsPer).map ((fun p : Nat × XTh => p.2.th) ∘ mk) = List.replicate n ⟨.idle, []⟩ := by
      have e : ((fun p : Nat × XTh => p.2.th) ∘ mk) = fun _ => (⟨.idle, []⟩ : Th) := by funext p; rfl
      rw [e, List.map_const']
      simp [n]
    simp only [if_true]
    rw [this]
    exact Reachable.initFull n
  | false =>
    have : ((List.range n).zip opsPer).map ((fun p : Nat × XTh => p.2.th) ∘ mk)
        = ((List.range n).map (initialHeld cap n)).map (fun h => (⟨.idle, h⟩ : Th)) := by
      have e : ((fun p : Nat × XTh => p.2.th) ∘ mk) = (fun t => (⟨.idle, initialHeld cap n t⟩ : Th)) ∘ Prod.fst := by funext p; rfl
      rw [e, ← List.map_map, hfst, List.map_map]
      rfl
    simp only [Bool.false_eq_true, if_false]
    rw [this]
    exact Reachable.initEmpty _ (partition_initialHeld cap n hn)

/-- every configuration a scenario of the driver passes through (any prefix of the schedule) and its final configuration
are reachable: the property theorems speak about exactly the runs that are compared with the real code -/
theorem scenario_reachable (cap : Nat) (full : Bool) (opsPer : List (List Tok)) (schedule : List Nat) (hn : 0 < opsPer.length) :
    (∀ k, Reachable cap (measure cap).innerLevelCount
      (cfgOf ((schedule.take k).foldl (stepSys cap (measure cap).innerLevelCount) (startSys cap full opsPer)))) ∧
    Reachable cap (measure cap).innerLevelCount (cfgOf (finalSys cap full opsPer schedule)) := by
  have h0 := startSys_reachable cap full opsPer hn
  exact ⟨fun k => foldl_stepSys_reachable _ _ h0, drain_reachable _ _ (foldl_stepSys_reachable _ _ h0)⟩

end SquidModel.Ipc.PageStack
