/-
Tactics and general facts for the preservation proofs of the StoreMap invariant (generated skeleton: tools of C55).
-/
import SquidModel.Ipc.StoreMapInv

namespace SquidModel.Ipc.StoreMap
open PC
set_option linter.unusedSimpArgs false
set_option linter.unusedVariables false

set_option hygiene false in
/-- unpack the invariant of anchor `f` and the counting facts about session `i` -/
macro "sm_prep" : tactic => `(tactic| (
  obtain ⟨rd, xe, xa, xd, ex, mkd, kz, aw, dd, fm, lf⟩ := hi
  simp only [Sh.a] at rd xe xa xd ex mkd kz aw dd fm lf
  have E := fun (c : PC → Bool) (p' : PC) => cnt_set_eq c ts i h p'
  have p1 := cnt_pos_of_mem (PC.holdsS f) ts i h
  have p2 := cnt_pos_of_mem (PC.xE f) ts i h
  have p3 := cnt_pos_of_mem (PC.xA f) ts i h
  have p4 := cnt_pos_of_mem (PC.xD f) ts i h
  have p5 := cnt_pos_of_mem (PC.awHU f) ts i h
  have p6 := cnt_pos_of_mem (PC.keyZero f) ts i h
  have p7 := cnt_pos_of_mem (PC.activeW f) ts i h
  have p8 := cnt_pos_of_mem (PC.fkUSm f) ts i h
  have s1 := keyZero_le_xE f ts
  have s2 := awHU_le_xD f ts
  have s3 := fkUSm_le_holdsS f ts
  have s4 := keyZero_xEnk_le_xE f ts
  have p9 := cnt_pos_of_mem (PC.xEnk f) ts i h
  rw [hp] at E p1 p2 p3 p4 p5 p6 p7 p8 p9))

set_option hygiene false in
/-- close one case: split on the lock mode, then arithmetic on the counts -/
macro "sm_fin" : tactic => `(tactic| (
  cases hw : (sh.anchors f).writer <;> constructor <;> simp only [] <;>
    simp_all [PC.holdsS, PC.xE, PC.xA, PC.xD, PC.awHU, PC.keyZero, PC.activeW, PC.fkUSm, PC.xEnk, Sh.a, Sh.setA, Sh.setS, Ret.keep, enterFC,
      Anchor.unlockShared, Anchor.unlockExclusive, Anchor.startAppending] <;> first | omega | grind))

set_option hygiene false in
macro "sm_splitfin" : tactic => `(tactic| ((try split) <;> (try split) <;> (try split) <;> sm_fin))

/-- all classes of anchor `g` are off for this pc -/
def PC.off (g : Nat) (p : PC) : Prop :=
  PC.holdsS g p = false ∧ PC.xE g p = false ∧ PC.xA g p = false ∧ PC.xD g p = false ∧ PC.awHU g p = false ∧
  PC.keyZero g p = false ∧ PC.activeW g p = false ∧ PC.fkUSm g p = false

theorem off_of_anch (g : Nat) (p : PC) (h : p.anch ≠ some g) : PC.off g p := classes_off g p h

/-- frame: a step of a session outside every class of `g`, leaving anchor `g` alone, preserves `AInv g` -/
theorem ainv_frame' {g : Nat} {sh sh' : Sh} {ts : List PC} (hi : AInv g (sh, ts)) (i : Nat) (h : i < ts.length) (p' : PC)
    (h1 : PC.off g ts[i]) (h2 : PC.off g p') (ha : sh'.a g = sh.a g) : AInv g (sh', ts.set i p') := by
  obtain ⟨a1, a2, a3, a4, a5, a6, a7, a8⟩ := h1
  obtain ⟨b1, b2, b3, b4, b5, b6, b7, b8⟩ := h2
  have E := fun (f : PC → Bool) => cnt_set_eq f ts i h p'
  obtain ⟨rd, xe, xa, xd, ex, mkd, kz, aw, dd, fm, lf⟩ := hi
  constructor <;> simp only [ha, E, a1, a2, a3, a4, a5, a6, a7, a8, b1, b2, b3, b4, b5, b6, b7, b8] <;> simp_all

end SquidModel.Ipc.StoreMap
