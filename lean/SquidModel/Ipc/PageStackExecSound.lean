/-
Every configuration the executable scheduler (`PageStackExec`, the one compared with the real code) visits is `Reachable`,
so the property theorems apply to exactly the runs that the trace validation exercises.
-/
import SquidModel.Ipc.PageStackExec

namespace SquidModel.Ipc.PageStack

def cfgOf (s : Sys) : Cfg := (s.sh, s.ths.map (·.th))

theorem begin_pop_done (cap : Nat) (t t' : Th) (r : Res) (h : begin cap t .pop = some (t', some r)) : t' = t := by
  simp only [begin] at h
  split at h
  · split at h
    · simp only [Option.some.injEq, Prod.mk.injEq] at h; exact h.1.symm
    · simp at h
  · cases h

theorem advanceGo_th (cap tid : Nat) (ops : List Tok) (x : XTh) (evs : List String) :
    (advanceGo cap tid ops x evs).1.th = x.th ∨ ∃ op r, begin cap x.th op = some ((advanceGo cap tid ops x evs).1.th, r) := by
  induction ops generalizing x evs with
  | nil => left; rfl
  | cons tok rest ih =>
    cases tok with
    | P =>
      simp only [advanceGo]
      split
      · rename_i t' hb; right; exact ⟨.pop, none, hb⟩
      · rename_i t' r hb
        have ht' := begin_pop_done cap x.th t' r hb
        have := ih { x with th := t', res := x.res ++ "P=0," } (s!"{tid}:rP0" :: s!"{tid}:cP" :: evs)
        simp only [ht'] at this ⊢
        exact this
      · exact ih x evs
    | U k =>
      simp only [advanceGo]
      split
      · exact ih x evs
      · rename_i id hid
        split
        · rename_i t' r hb; right; exact ⟨.push id, r, hb⟩
        · exact ih x evs

theorem advance_th (cap tid : Nat) (x : XTh) :
    (advance cap tid x).1.th = x.th ∨ ∃ op r, begin cap x.th op = some ((advance cap tid x).1.th, r) := by
  unfold advance
  split
  · exact advanceGo_th cap tid x.ops x []
  · left; rfl

theorem reachable_set_advance {cap H : Nat} {sh : Sh} {ths : List XTh} (tid i : Nat) (h : i < ths.length) (x : XTh)
    (hr : Reachable cap H (sh, (ths.set i x).map (·.th))) :
    Reachable cap H (sh, (ths.set i (advance cap tid x).1).map (·.th)) := by
  rcases advance_th cap tid x with heq | ⟨op, r, hb⟩
  · simpa [List.map_set, heq] using hr
  · have hlen : i < ((ths.set i x).map (·.th)).length := by simpa using h
    have hget : ((ths.set i x).map (·.th))[i] = x.th := by simp
    have := Reachable.step hr (Step.begin sh _ i hlen op (advance cap tid x).1.th r (by rw [hget]; exact hb))
    simpa [List.map_set] using this

theorem stepSys_reachable {cap H : Nat} (s : Sys) (tid : Nat) (hr : Reachable cap H (cfgOf s)) :
    Reachable cap H (cfgOf (stepSys cap H s tid)) := by
  unfold stepSys
  split
  · exact hr
  · rename_i x hx
    split
    · exact hr
    · rename_i hrest
      have hlt : tid < s.ths.length := (List.getElem?_eq_some_iff.mp hx).1
      have hget : s.ths[tid] = x := (List.getElem?_eq_some_iff.mp hx).2
      have hlen : tid < (s.ths.map (·.th)).length := by simpa using hlt
      have hpc : (s.ths.map (·.th))[tid] = x.th := by simp [hget]
      have hstep := Reachable.step hr (Step.act s.sh (s.ths.map (·.th)) tid hlen (by rw [hpc]; simpa using hrest))
      rw [hpc] at hstep
      simp only [cfgOf]
      apply reachable_set_advance tid tid hlt
      simpa [List.map_set] using hstep

theorem foldl_stepSys_reachable {cap H : Nat} (sched : List Nat) (s : Sys) (hr : Reachable cap H (cfgOf s)) :
    Reachable cap H (cfgOf (sched.foldl (stepSys cap H) s)) := by
  induction sched generalizing s with
  | nil => exact hr
  | cons a rest ih => exact ih _ (stepSys_reachable s a hr)

theorem drain_reachable {cap H : Nat} (fuel : Nat) (s : Sys) (hr : Reachable cap H (cfgOf s)) :
    Reachable cap H (cfgOf (drain cap H fuel s)) := by
  induction fuel generalizing s with
  | zero => exact hr
  | succ n ih =>
    unfold drain
    split
    · exact hr
    · exact ih _ (foldl_stepSys_reachable _ s hr)

end SquidModel.Ipc.PageStack
