/-
Consequences of the PageStack invariant used by the property theorems: two distinct threads' contributions both count,
quiescent sums vanish, and at quiescence every counter equals the number of free ids below it.
-/
import SquidModel.Ipc.PageStackInit

namespace SquidModel.Ipc.PageStack

theorem tsum_ge_two (f : Th → Nat) (ts : List Th) (i j : Nat) (hi : i < ts.length) (hj : j < ts.length) (hij : i ≠ j) :
    f ts[i] + f ts[j] ≤ tsum f ts := by
  unfold tsum
  induction ts generalizing i j with
  | nil => simp at hi
  | cons a as ih =>
    simp only [List.map_cons, List.sum_cons]
    cases i with
    | zero =>
      cases j with
      | zero => exact absurd rfl hij
      | succ j =>
        have := tsum_ge f as j (by simpa using hj)
        unfold tsum at this
        simp only [List.getElem_cons_zero, List.getElem_cons_succ]; omega
    | succ i =>
      cases j with
      | zero =>
        have := tsum_ge f as i (by simpa using hi)
        unfold tsum at this
        simp only [List.getElem_cons_zero, List.getElem_cons_succ]; omega
      | succ j =>
        have := ih i j (by simpa using hi) (by simpa using hj) (by omega)
        simp only [List.getElem_cons_succ]; omega

/-- all threads are between calls -/
def Quiescent (ts : List Th) : Prop := ∀ t ∈ ts, t.pc = .idle

theorem tsum_quiescent (f : Th → Nat) (ts : List Th) (hq : Quiescent ts) (hf : ∀ held, f ⟨.idle, held⟩ = 0) : tsum f ts = 0 := by
  apply tsum_zero
  intro t ht
  have := hq t ht
  obtain ⟨pc, held⟩ := t
  simp only at this
  subst this
  exact hf held

/-- number of free ids recorded in the leaves below the node at offset `o`, `k` levels above the leaves (live nodes only:
the leaves beyond the capacity may carry stale bits that no counter covers) -/
def freeBelow (cap : Nat) (s : Sh) : Nat → Nat → Nat
  | 0, o => if o < (cap + 63) / 64 then pop64 (s.leaf o) else 0
  | k + 1, o => freeBelow cap s k (2 * o) + freeBelow cap s k (2 * o + 1)

theorem freeBelow_dead (cap : Nat) (s : Sh) (k o : Nat) (h : halfUp k ((cap + 63) / 64) ≤ o) : freeBelow cap s k o = 0 := by
  induction k generalizing o with
  | zero => simp only [halfUp] at h; simp only [freeBelow]; rw [if_neg (by omega)]
  | succ k ih =>
    simp only [halfUp] at h
    simp only [freeBelow]
    rw [ih (2 * o) (by omega), ih (2 * o + 1) (by omega)]

/-- at quiescence every live node's total is exactly the number of free ids below it -/
theorem quiescent_total {cap H : Nat} {s : Sh} {ts : List Th} (hinv : Inv cap H (s, ts)) (hq : Quiescent ts) :
    ∀ k l o, l + k = H → o < liveCount cap H l → total H s l o = freeBelow cap s k o := by
  intro k
  induction k with
  | zero =>
    intro l o hl hlive
    have : l = H := by omega
    subst this
    rw [liveCount_leaf] at hlive
    unfold total
    simp only [if_true, freeBelow]
    rw [if_pos hlive]
  | succ k ih =>
    intro l o hl hlive
    have hlH : l < H := by omega
    have c0 := hinv.cnt l o 0 hlH hlive (by omega)
    have c1 := hinv.cnt l o 1 hlH hlive (by omega)
    dsimp only at c0 c1
    rw [tsum_quiescent _ ts hq (fun h => by simp [resv]), tsum_quiescent _ ts hq (fun h => by simp [pend])] at c0 c1
    have ht : total H s l o = side (s.inner l o) 0 + side (s.inner l o) 1 := by
      unfold total side; rw [if_neg (by omega)]; simp
    rw [ht]
    simp only [freeBelow]
    have hk : H - (l + 1) = k := by omega
    have d0 : side (s.inner l o) 0 = freeBelow cap s k (2 * o) := by
      simp only [Nat.add_zero] at c0
      split at c0
      · rename_i hlv
        have := ih (l + 1) (2 * o) (by omega) hlv
        omega
      · rename_i hlv
        rw [c0, freeBelow_dead]
        rw [liveCount_eq, hk] at hlv; omega
    have d1 : side (s.inner l o) 1 = freeBelow cap s k (2 * o + 1) := by
      split at c1
      · rename_i hlv
        have := ih (l + 1) (2 * o + 1) (by omega) hlv
        omega
      · rename_i hlv
        rw [c1, freeBelow_dead]
        rw [liveCount_eq, hk] at hlv; omega
    rw [d0, d1]

end SquidModel.Ipc.PageStack
