/-
Preservation of the StoreMap invariant `AInv f` by the pending atomic operation of a session working on anchor `f`:
one lemma per pc (part A). Generated skeleton, proofs by the tactics of StoreMapTac.
-/
import SquidModel.Ipc.StoreMapTac

namespace SquidModel.Ipc.StoreMap
open PC
set_option linter.unusedSimpArgs false
set_option linter.unusedVariables false

set_option maxHeartbeats 1600000 in
theorem ainv_owLock {sh : Sh} {ts : List PC} (f : Nat) (ow : Bool) (ch : Bool) (i : Nat) (h : i < ts.length) (hp : ts[i] = (.owLock f ow))
    (hi : AInv f (sh, ts)) : AInv f ((act sh (.owLock f ow) ch).1, ts.set i (act sh (.owLock f ow) ch).2.1) := by
  sm_prep
  simp only [act, Anchor.lockExclusive, Anchor.lockShared, Anchor.stopAppending, Anchor.unlockSharedAndSwitch]
  sm_splitfin

theorem ainv_owW1 {sh : Sh} {ts : List PC} (f : Nat) (ow : Bool) (ch : Bool) (i : Nat) (h : i < ts.length) (hp : ts[i] = (.owW1 f ow))
    (hi : AInv f (sh, ts)) : AInv f ((act sh (.owW1 f ow) ch).1, ts.set i (act sh (.owW1 f ow) ch).2.1) := by
  sm_prep
  simp only [act, Anchor.lockExclusive, Anchor.lockShared, Anchor.stopAppending, Anchor.unlockSharedAndSwitch]
  sm_splitfin

theorem ainv_owBail {sh : Sh} {ts : List PC} (f : Nat) (ch : Bool) (i : Nat) (h : i < ts.length) (hp : ts[i] = (.owBail f))
    (hi : AInv f (sh, ts)) : AInv f ((act sh (.owBail f) ch).1, ts.set i (act sh (.owBail f) ch).2.1) := by
  sm_prep
  simp only [act, Anchor.lockExclusive, Anchor.lockShared, Anchor.stopAppending, Anchor.unlockSharedAndSwitch]
  sm_splitfin

theorem ainv_owW2 {sh : Sh} {ts : List PC} (f : Nat) (ch : Bool) (i : Nat) (h : i < ts.length) (hp : ts[i] = (.owW2 f))
    (hi : AInv f (sh, ts)) : AInv f ((act sh (.owW2 f) ch).1, ts.set i (act sh (.owW2 f) ch).2.1) := by
  sm_prep
  simp only [act, Anchor.lockExclusive, Anchor.lockShared, Anchor.stopAppending, Anchor.unlockSharedAndSwitch]
  sm_splitfin

theorem ainv_owS {sh : Sh} {ts : List PC} (f : Nat) (ch : Bool) (i : Nat) (h : i < ts.length) (hp : ts[i] = (.owS f))
    (hi : AInv f (sh, ts)) : AInv f ((act sh (.owS f) ch).1, ts.set i (act sh (.owS f) ch).2.1) := by
  sm_prep
  simp only [act, Anchor.lockExclusive, Anchor.lockShared, Anchor.stopAppending, Anchor.unlockSharedAndSwitch]
  sm_splitfin

theorem ainv_owSp {sh : Sh} {ts : List PC} (f : Nat) (ch : Bool) (i : Nat) (h : i < ts.length) (hp : ts[i] = (.owSp f))
    (hi : AInv f (sh, ts)) : AInv f ((act sh (.owSp f) ch).1, ts.set i (act sh (.owSp f) ch).2.1) := by
  sm_prep
  simp only [act, Anchor.lockExclusive, Anchor.lockShared, Anchor.stopAppending, Anchor.unlockSharedAndSwitch]
  sm_splitfin

theorem ainv_owCnt {sh : Sh} {ts : List PC} (f : Nat) (ch : Bool) (i : Nat) (h : i < ts.length) (hp : ts[i] = (.owCnt f))
    (hi : AInv f (sh, ts)) : AInv f ((act sh (.owCnt f) ch).1, ts.set i (act sh (.owCnt f) ch).2.1) := by
  sm_prep
  simp only [act, Anchor.lockExclusive, Anchor.lockShared, Anchor.stopAppending, Anchor.unlockSharedAndSwitch]
  sm_splitfin

theorem ainv_fcSp {sh : Sh} {ts : List PC} (f : Nat) (r : Ret) (ch : Bool) (i : Nat) (h : i < ts.length) (hp : ts[i] = (.fcSp f r))
    (hi : AInv f (sh, ts)) : AInv f ((act sh (.fcSp f r) ch).1, ts.set i (act sh (.fcSp f r) ch).2.1) := by
  sm_prep
  simp only [act, Anchor.lockExclusive, Anchor.lockShared, Anchor.stopAppending, Anchor.unlockSharedAndSwitch]
  sm_splitfin

theorem ainv_fcSt {sh : Sh} {ts : List PC} (f : Nat) (sp : Int) (r : Ret) (ch : Bool) (i : Nat) (h : i < ts.length) (hp : ts[i] = (.fcSt f sp r))
    (hi : AInv f (sh, ts)) : AInv f ((act sh (.fcSt f sp r) ch).1, ts.set i (act sh (.fcSt f sp r) ch).2.1) := by
  sm_prep
  simp only [act, Anchor.lockExclusive, Anchor.lockShared, Anchor.stopAppending, Anchor.unlockSharedAndSwitch]
  sm_splitfin

theorem ainv_fcNext {sh : Sh} {ts : List PC} (f : Nat) (cur : Nat) (sp : Int) (r : Ret) (ch : Bool) (i : Nat) (h : i < ts.length) (hp : ts[i] = (.fcNext f cur sp r))
    (hi : AInv f (sh, ts)) : AInv f ((act sh (.fcNext f cur sp r) ch).1, ts.set i (act sh (.fcNext f cur sp r) ch).2.1) := by
  sm_prep
  simp only [act, Anchor.lockExclusive, Anchor.lockShared, Anchor.stopAppending, Anchor.unlockSharedAndSwitch]
  sm_splitfin

theorem ainv_fcClrS {sh : Sh} {ts : List PC} (f : Nat) (cur : Nat) (nx : Int) (sp : Int) (r : Ret) (ch : Bool) (i : Nat) (h : i < ts.length) (hp : ts[i] = (.fcClrS f cur nx sp r))
    (hi : AInv f (sh, ts)) : AInv f ((act sh (.fcClrS f cur nx sp r) ch).1, ts.set i (act sh (.fcClrS f cur nx sp r) ch).2.1) := by
  sm_prep
  simp only [act, Anchor.lockExclusive, Anchor.lockShared, Anchor.stopAppending, Anchor.unlockSharedAndSwitch]
  sm_splitfin

set_option maxHeartbeats 1600000 in
theorem ainv_fcClrN {sh : Sh} {ts : List PC} (f : Nat) (cur : Nat) (nx : Int) (sp : Int) (r : Ret) (ch : Bool) (i : Nat) (h : i < ts.length) (hp : ts[i] = (.fcClrN f cur nx sp r))
    (hi : AInv f (sh, ts)) : AInv f ((act sh (.fcClrN f cur nx sp r) ch).1, ts.set i (act sh (.fcClrN f cur nx sp r) ch).2.1) := by
  sm_prep
  simp only [act, Anchor.lockExclusive, Anchor.lockShared, Anchor.stopAppending, Anchor.unlockSharedAndSwitch]
  sm_splitfin

theorem ainv_rwStart {sh : Sh} {ts : List PC} (f : Nat) (r : Ret) (ch : Bool) (i : Nat) (h : i < ts.length) (hp : ts[i] = (.rwStart f r))
    (hi : AInv f (sh, ts)) : AInv f ((act sh (.rwStart f r) ch).1, ts.set i (act sh (.rwStart f r) ch).2.1) := by
  sm_prep
  simp only [act, Anchor.lockExclusive, Anchor.lockShared, Anchor.stopAppending, Anchor.unlockSharedAndSwitch]
  sm_splitfin

theorem ainv_rwSplice {sh : Sh} {ts : List PC} (f : Nat) (r : Ret) (ch : Bool) (i : Nat) (h : i < ts.length) (hp : ts[i] = (.rwSplice f r))
    (hi : AInv f (sh, ts)) : AInv f ((act sh (.rwSplice f r) ch).1, ts.set i (act sh (.rwSplice f r) ch).2.1) := by
  sm_prep
  simp only [act, Anchor.lockExclusive, Anchor.lockShared, Anchor.stopAppending, Anchor.unlockSharedAndSwitch]
  sm_splitfin

theorem ainv_rwSz {sh : Sh} {ts : List PC} (f : Nat) (r : Ret) (ch : Bool) (i : Nat) (h : i < ts.length) (hp : ts[i] = (.rwSz f r))
    (hi : AInv f (sh, ts)) : AInv f ((act sh (.rwSz f r) ch).1, ts.set i (act sh (.rwSz f r) ch).2.1) := by
  sm_prep
  simp only [act, Anchor.lockExclusive, Anchor.lockShared, Anchor.stopAppending, Anchor.unlockSharedAndSwitch]
  sm_splitfin

theorem ainv_rwWtbf {sh : Sh} {ts : List PC} (f : Nat) (r : Ret) (ch : Bool) (i : Nat) (h : i < ts.length) (hp : ts[i] = (.rwWtbf f r))
    (hi : AInv f (sh, ts)) : AInv f ((act sh (.rwWtbf f r) ch).1, ts.set i (act sh (.rwWtbf f r) ch).2.1) := by
  sm_prep
  simp only [act, Anchor.lockExclusive, Anchor.lockShared, Anchor.stopAppending, Anchor.unlockSharedAndSwitch]
  sm_splitfin

theorem ainv_rwHalt {sh : Sh} {ts : List PC} (f : Nat) (r : Ret) (ch : Bool) (i : Nat) (h : i < ts.length) (hp : ts[i] = (.rwHalt f r))
    (hi : AInv f (sh, ts)) : AInv f ((act sh (.rwHalt f r) ch).1, ts.set i (act sh (.rwHalt f r) ch).2.1) := by
  cases r
  all_goals (
    sm_prep
    simp only [act, Anchor.lockExclusive, Anchor.lockShared, Anchor.stopAppending, Anchor.unlockSharedAndSwitch]
    sm_splitfin)

theorem ainv_fcUnl {sh : Sh} {ts : List PC} (f : Nat) (b : Bool) (ch : Bool) (i : Nat) (h : i < ts.length) (hp : ts[i] = (.fcUnl f b))
    (hi : AInv f (sh, ts)) : AInv f ((act sh (.fcUnl f b) ch).1, ts.set i (act sh (.fcUnl f b) ch).2.1) := by
  sm_prep
  simp only [act, Anchor.lockExclusive, Anchor.lockShared, Anchor.stopAppending, Anchor.unlockSharedAndSwitch]
  sm_splitfin

theorem ainv_fcCnt {sh : Sh} {ts : List PC} (f : Nat) (r : Ret) (ch : Bool) (i : Nat) (h : i < ts.length) (hp : ts[i] = (.fcCnt f r))
    (hi : AInv f (sh, ts)) : AInv f ((act sh (.fcCnt f r) ch).1, ts.set i (act sh (.fcCnt f r) ch).2.1) := by
  cases r
  all_goals (
    sm_prep
    simp only [act, Anchor.lockExclusive, Anchor.lockShared, Anchor.stopAppending, Anchor.unlockSharedAndSwitch]
    sm_splitfin)

set_option maxHeartbeats 1600000 in
theorem ainv_skW {sh : Sh} {ts : List PC} (f : Nat) (last : Int) (m : Bool) (ch : Bool) (i : Nat) (h : i < ts.length) (hp : ts[i] = (.skW f last m))
    (hi : AInv f (sh, ts)) : AInv f ((act sh (.skW f last m) ch).1, ts.set i (act sh (.skW f last m) ch).2.1) := by
  rcases Bool.eq_false_or_eq_true SquidModel.Gen.StoreMapCfg.setKeyOnlySets with hfl | hfl
  all_goals (
    sm_prep
    simp only [act, hfl, Bool.false_eq_true, if_false, if_true] at lf ⊢
    cases m <;> sm_splitfin)

theorem ainv_asClrS {sh : Sh} {ts : List PC} (f : Nat) (app : Bool) (last : Int) (s : Nat) (n : Nat) (ch : Bool) (i : Nat) (h : i < ts.length) (hp : ts[i] = (.asClrS f app last s n))
    (hi : AInv f (sh, ts)) : AInv f ((act sh (.asClrS f app last s n) ch).1, ts.set i (act sh (.asClrS f app last s n) ch).2.1) := by
  cases app
  all_goals (
    sm_prep
    simp only [act, Anchor.lockExclusive, Anchor.lockShared, Anchor.stopAppending, Anchor.unlockSharedAndSwitch]
    sm_splitfin)

theorem ainv_asClrN {sh : Sh} {ts : List PC} (f : Nat) (app : Bool) (last : Int) (s : Nat) (n : Nat) (ch : Bool) (i : Nat) (h : i < ts.length) (hp : ts[i] = (.asClrN f app last s n))
    (hi : AInv f (sh, ts)) : AInv f ((act sh (.asClrN f app last s n) ch).1, ts.set i (act sh (.asClrN f app last s n) ch).2.1) := by
  cases app
  all_goals (
    sm_prep
    simp only [act, Anchor.lockExclusive, Anchor.lockShared, Anchor.stopAppending, Anchor.unlockSharedAndSwitch]
    sm_splitfin)

theorem ainv_asSize {sh : Sh} {ts : List PC} (f : Nat) (app : Bool) (last : Int) (s : Nat) (n : Nat) (ch : Bool) (i : Nat) (h : i < ts.length) (hp : ts[i] = (.asSize f app last s n))
    (hi : AInv f (sh, ts)) : AInv f ((act sh (.asSize f app last s n) ch).1, ts.set i (act sh (.asSize f app last s n) ch).2.1) := by
  cases app
  all_goals (
    sm_prep
    simp only [act, Anchor.lockExclusive, Anchor.lockShared, Anchor.stopAppending, Anchor.unlockSharedAndSwitch]
    sm_splitfin)

theorem ainv_asLink {sh : Sh} {ts : List PC} (f : Nat) (app : Bool) (last : Int) (s : Nat) (ch : Bool) (i : Nat) (h : i < ts.length) (hp : ts[i] = (.asLink f app last s))
    (hi : AInv f (sh, ts)) : AInv f ((act sh (.asLink f app last s) ch).1, ts.set i (act sh (.asLink f app last s) ch).2.1) := by
  cases app
  all_goals (
    sm_prep
    simp only [act, Anchor.lockExclusive, Anchor.lockShared, Anchor.stopAppending, Anchor.unlockSharedAndSwitch]
    sm_splitfin)

end SquidModel.Ipc.StoreMap
