/-
Bit-level facts about the leaf words of the PageStack model: `trailingZeros` finds the lowest set bit, `x & (x-1)` clears exactly
that bit, `x | (1 << k)` sets exactly bit `k`, and how the number of set bits among the low 64 changes.
-/
import SquidModel.Ipc.PageStack

namespace SquidModel.Ipc.PageStack

/-- number of set bits among the low 64 -/
def pop64 (x : Nat) : Nat := (List.range 64).countP fun b => x.testBit b

theorem tzLoop_spec (x : Nat) (f c : Nat) (h : ∃ j, c ≤ j ∧ j < c + f ∧ x.testBit j = true) :
    c ≤ tzLoop x f c ∧ tzLoop x f c < c + f ∧ x.testBit (tzLoop x f c) = true ∧
      ∀ j, c ≤ j → j < tzLoop x f c → x.testBit j = false := by
  induction f generalizing c with
  | zero => obtain ⟨j, h1, h2, _⟩ := h; omega
  | succ f ih =>
    unfold tzLoop
    by_cases hc : x.testBit c = true
    · rw [if_pos hc]
      exact ⟨Nat.le_refl _, by omega, hc, fun j h1 h2 => by omega⟩
    · rw [if_neg hc]
      obtain ⟨j, h1, h2, h3⟩ := h
      have hjc : j ≠ c := fun e => hc (e ▸ h3)
      have := ih (c + 1) ⟨j, by omega, by omega, h3⟩
      obtain ⟨a, b, c', d⟩ := this
      refine ⟨by omega, by omega, c', fun j' h1' h2' => ?_⟩
      by_cases e : j' = c
      · subst e; simpa using hc
      · exact d j' (by omega) h2'

/-- `trailingZeros x` is the position of the lowest set bit of a non-zero 64-bit word -/
theorem trailingZeros_spec (x : Nat) (h0 : x ≠ 0) (hlt : x < 2 ^ 64) :
    trailingZeros x < 64 ∧ x.testBit (trailingZeros x) = true ∧ ∀ j, j < trailingZeros x → x.testBit j = false := by
  obtain ⟨i, hi⟩ := Nat.exists_testBit_of_ne_zero h0
  have hi64 : i < 64 := by
    by_cases h : i < 64
    · exact h
    · have : x < 2 ^ i := Nat.lt_of_lt_of_le hlt (Nat.pow_le_pow_right (by decide) (by omega))
      rw [Nat.testBit_lt_two_pow this] at hi; cases hi
  have := tzLoop_spec x 64 0 ⟨i, by omega, by omega, hi⟩
  unfold trailingZeros
  simp only [h0, if_false]
  obtain ⟨_, b, c, d⟩ := this
  exact ⟨by omega, c, fun j hj => d j (by omega) hj⟩

/-- `x & (x-1)` clears the lowest set bit and nothing else -/
theorem clearLowest_testBit (k : Nat) : ∀ (x : Nat), x.testBit k = true → (∀ j, j < k → x.testBit j = false) →
    ∀ j, (clearLowest x).testBit j = (x.testBit j && decide (j ≠ k)) := by
  induction k with
  | zero =>
    intro x hk _ j
    have hodd : x % 2 = 1 := by simpa [Nat.testBit_zero] using hk
    unfold clearLowest
    rw [Nat.testBit_and]
    cases j with
    | zero => simp [Nat.testBit_zero]; omega
    | succ j =>
      have : (x - 1) / 2 = x / 2 := by omega
      simp [Nat.testBit_succ, this]
  | succ k ih =>
    intro x hk hlow j
    have h0 : x.testBit 0 = false := hlow 0 (by omega)
    have heven : x % 2 = 0 := by
      have := h0; simp [Nat.testBit_zero] at this; omega
    have hk' : (x / 2).testBit k = true := by rw [Nat.testBit_div_two]; exact hk
    have hlow' : ∀ j, j < k → (x / 2).testBit j = false := fun j hj => by
      rw [Nat.testBit_div_two]; exact hlow (j + 1) (by omega)
    have hxpos : x / 2 ≠ 0 := by
      intro e; rw [e] at hk'; simp at hk'
    unfold clearLowest
    rw [Nat.testBit_and]
    cases j with
    | zero => simp [h0]
    | succ j =>
      have e1 : (x - 1) / 2 = x / 2 - 1 := by omega
      have := ih (x / 2) hk' hlow' j
      unfold clearLowest at this
      rw [Nat.testBit_and] at this
      simp only [Nat.testBit_succ, e1]
      rw [this]
      simp

theorem clearLowest_le (x : Nat) : clearLowest x ≤ x := Nat.and_le_left

theorem orBit_testBit (x k j : Nat) : (x ||| 1 <<< k).testBit j = (x.testBit j || decide (k = j)) := by
  rw [Nat.testBit_or, Nat.one_shiftLeft, Nat.testBit_two_pow]

theorem andBit_eq_zero_iff (x k : Nat) : x &&& 1 <<< k = 0 ↔ x.testBit k = false := by
  constructor
  · intro h
    have := congrArg (fun y => y.testBit k) h
    simp only [Nat.testBit_and, Nat.one_shiftLeft, Nat.testBit_two_pow_self, Nat.zero_testBit, Bool.and_true] at this
    exact this
  · intro h
    apply Nat.eq_of_testBit_eq
    intro i
    rw [Nat.testBit_and, Nat.one_shiftLeft, Nat.testBit_two_pow, Nat.zero_testBit]
    by_cases e : k = i
    · subst e; simp [h]
    · simp [e]

theorem orBit_lt (x k : Nat) (hx : x < 2 ^ 64) (hk : k < 64) : x ||| 1 <<< k < 2 ^ 64 := by
  apply Nat.or_lt_two_pow hx
  rw [Nat.one_shiftLeft]
  exact Nat.pow_lt_pow_right (by decide) hk

/-- two predicates that differ exactly at `k < n` (true in `g`, false in `f`): one more hit -/
theorem countP_range_flip (f g : Nat → Bool) (n k : Nat) (hk : k < n) (hf : f k = false) (hg : g k = true)
    (hrest : ∀ j, j ≠ k → f j = g j) : (List.range n).countP g = (List.range n).countP f + 1 := by
  induction n with
  | zero => omega
  | succ n ih =>
    simp only [List.range_succ, List.countP_append, List.countP_cons, List.countP_nil]
    by_cases e : k = n
    · subst e
      have : (List.range k).countP g = (List.range k).countP f := by
        apply List.countP_congr
        intro j hj
        have : j ≠ k := by have := List.mem_range.mp hj; omega
        rw [hrest j this]
      simp [hf, hg, this]
    · have := ih (by omega)
      have e2 := hrest n (fun h => e h.symm)
      rw [this, e2]; omega

theorem countP_range_same (f g : Nat → Bool) (n : Nat) (h : ∀ j, j < n → f j = g j) :
    (List.range n).countP f = (List.range n).countP g := by
  apply List.countP_congr
  intro j hj
  rw [h j (List.mem_range.mp hj)]

theorem pop64_clearLowest (x : Nat) (h0 : x ≠ 0) (hlt : x < 2 ^ 64) : pop64 x = pop64 (clearLowest x) + 1 := by
  obtain ⟨h1, h2, h3⟩ := trailingZeros_spec x h0 hlt
  have hb := clearLowest_testBit (trailingZeros x) x h2 h3
  unfold pop64
  apply countP_range_flip _ _ 64 (trailingZeros x) h1
  · rw [hb]; simp
  · exact h2
  · intro j hj; rw [hb]; simp [hj]

theorem pop64_orBit (x k : Nat) (hk : k < 64) (hb : x.testBit k = false) : pop64 (x ||| 1 <<< k) = pop64 x + 1 := by
  unfold pop64
  apply countP_range_flip _ _ 64 k hk hb
  · rw [orBit_testBit]; simp
  · intro j hj; rw [orBit_testBit]
    have : ¬ k = j := fun e => hj e.symm
    simp [this]

theorem pop64_pos_of_testBit (x k : Nat) (hk : k < 64) (hb : x.testBit k = true) : 0 < pop64 x := by
  unfold pop64
  exact List.countP_pos_iff.mpr ⟨k, List.mem_range.mpr hk, hb⟩

theorem ne_zero_of_pop64_pos (x : Nat) (h : 0 < pop64 x) : x ≠ 0 := by
  intro e; subst e
  unfold pop64 at h
  obtain ⟨a, _, ha⟩ := List.countP_pos_iff.mp h
  simp at ha

theorem pop64_two_pow_sub_one (n : Nat) (h : n ≤ 64) : pop64 (2 ^ n - 1) = n := by
  unfold pop64
  have : ∀ m, m ≤ 64 → (List.range m).countP (fun b => (2 ^ n - 1).testBit b) = min m n := by
    intro m
    induction m with
    | zero => intro _; simp
    | succ m ih =>
      intro hm
      simp only [List.range_succ, List.countP_append, List.countP_cons, List.countP_nil]
      rw [ih (by omega), Nat.testBit_two_pow_sub_one]
      by_cases e : m < n <;> simp [e] <;> omega
  rw [this 64 (Nat.le_refl _)]; omega

end SquidModel.Ipc.PageStack
