/-
Inductive invariant of the StoreMap model (lock layer, entry life cycle, deletion marks), for any number of sessions:
per anchor `g`, counting clauses tie the abstract lock and the anchor's flags to the number of sessions whose pc lies in a class.
-/
import SquidModel.Ipc.StoreMap

namespace SquidModel.Ipc.StoreMap
open PC

/-- the anchor a pc works on -/
def PC.anch : PC → Option Nat
  | idle | fkFn _ => none
  | holdW f .. | holdR f | owLock f _ | owW1 f _ | owBail f | owW2 f | owS f | owSp f | owCnt f
  | fcSp f _ | fcSt f _ _ | fcNext f .. | fcClrS f .. | fcClrN f .. | rwStart f _ | rwSplice f _ | rwSz f _ | rwWtbf f _
  | rwHalt f _ | fcUnl f _ | fcCnt f _ | skW f .. | asClrS f .. | asClrN f .. | asSize f .. | asLink f ..
  | saLock f _ | cwU f _ | awA f _ | awStop f | awW f | awH f | awU f | orLock f _ | orW f _ | orU f
  | rdStart f | rdSize f .. | rdNext f .. | crU f | cfX f | feLock f | feW f | feCas f _
  | fkLockE f .. | fkUE f | fkLockS f .. | fkMarkS f _ | fkUS f .. | fkMark f _ => some f

/-- holds the lock of `g` shared -/
def PC.holdsS (g : Nat) : PC → Bool
  | orW f _ | orU f | holdR f | rdStart f | rdSize f .. | rdNext f .. | crU f | cfX f | fkMarkS f _ | fkUS f .. => f == g
  | _ => false

/-- holds the lock of `g` strictly exclusively -/
def PC.xE (g : Nat) : PC → Bool
  | owW1 f _ | owBail f | owW2 f | owS f | owSp f | owCnt f
  | fcSp f _ | fcSt f _ _ | fcNext f .. | fcClrS f .. | fcClrN f .. | rwStart f _ | rwSplice f _ | rwSz f _ | rwWtbf f _
  | rwHalt f _ | fcUnl f _ | skW f .. | saLock f _ | feW f | fkUE f => f == g
  | fcCnt f r => f == g && r.keep
  | holdW f app _ | cwU f app | awA f app | asClrS f app .. | asClrN f app .. | asSize f app .. | asLink f app .. => f == g && !app
  | _ => false

/-- holds the lock of `g` as an appending writer -/
def PC.xA (g : Nat) : PC → Bool
  | holdW f app _ | cwU f app | awA f app | asClrS f app .. | asClrN f app .. | asSize f app .. | asLink f app .. => f == g && app
  | awStop f => f == g
  | _ => false

/-- holds the lock of `g` after stopAppendingAndRestoreExclusive() returned false -/
def PC.xD (g : Nat) : PC → Bool
  | awW f | awH f | awU f => f == g
  | _ => false

/-- abortWriting after it stored waitingToBeFreed -/
def PC.awHU (g : Nat) : PC → Bool
  | awH f | awU f => f == g
  | _ => false

/-- exclusive holder that knows the anchor is empty (after rewind(), or at `assert(s.empty())`) -/
def PC.keyZero (g : Nat) : PC → Bool
  | rwSz f _ | rwWtbf f _ | rwHalt f _ | fcUnl f _ | owS f | owSp f | owCnt f => f == g
  | fcCnt f r => f == g && r.keep
  | _ => false

/-- exclusive holder in whose hands the entry may be keyed, unmarked and not complete -/
def PC.activeW (g : Nat) : PC → Bool
  | holdW f .. | skW f .. | asClrS f .. | asClrN f .. | asSize f .. | asLink f .. | saLock f _ | cwU f _ | awA f _ | awStop f | awW f
  | fcSp f _ | fcSt f _ _ | fcNext f .. | fcClrS f .. | fcClrN f .. | rwStart f _ | rwSplice f _ => f == g
  | _ => false

/-- freeEntryByKey about to unlock after it marked the entry under a shared lock -/
def PC.fkUSm (g : Nat) : PC → Bool
  | fkUS f hit _ => f == g && hit
  | _ => false

def cnt (f : PC → Bool) (ts : List PC) : Nat := ts.countP f

structure AInv (g : Nat) (c : Cfg) : Prop where
  rd : (c.1.a g).readers = cnt (PC.holdsS g) c.2
  xe : cnt (PC.xE g) c.2 = if (c.1.a g).writer = .E then 1 else 0
  xa : cnt (PC.xA g) c.2 = if (c.1.a g).writer = .A then 1 else 0
  xd : cnt (PC.xD g) c.2 = if (c.1.a g).writer = .D then 1 else 0
  ex : (c.1.a g).writer = .E → (c.1.a g).readers = 0
  mkd : 0 < cnt (PC.awHU g) c.2 → (c.1.a g).wtbf = true
  kz : 0 < cnt (PC.keyZero g) c.2 → (c.1.a g).key = 0
  aw : (c.1.a g).key ≠ 0 → (c.1.a g).wtbf = false → (c.1.a g).complete = false → 0 < cnt (PC.activeW g) c.2
  dd : (c.1.a g).delDone = true → (c.1.a g).wtbf = true ∨ (c.1.a g).lost = true
  fm : 0 < cnt (PC.fkUSm g) c.2 → (c.1.a g).wtbf = true
  lf : SquidModel.Gen.StoreMapCfg.setKeyOnlySets = true → (c.1.a g).lost = false

theorem cnt_set (f : PC → Bool) (ts : List PC) (i : Nat) (h : i < ts.length) (p : PC) :
    cnt f (ts.set i p) + (if f ts[i] then 1 else 0) = cnt f ts + (if f p then 1 else 0) := by
  induction ts generalizing i with
  | nil => simp at h
  | cons a as ih =>
    cases i with
    | zero => simp [cnt, List.countP_cons]; split <;> split <;> omega
    | succ j =>
      simp only [List.set_cons_succ, List.getElem_cons_succ]
      have := ih j (by simpa using h)
      simp only [cnt, List.countP_cons] at *
      omega

theorem cnt_set_eq (f : PC → Bool) (ts : List PC) (i : Nat) (h : i < ts.length) (p : PC) :
    cnt f (ts.set i p) = cnt f ts + (if f p then 1 else 0) - (if f ts[i] then 1 else 0) := by
  have := cnt_set f ts i h p
  omega

theorem cnt_pos_of_mem (f : PC → Bool) (ts : List PC) (i : Nat) (h : i < ts.length) (hf : f ts[i] = true) :
    0 < cnt f ts := by
  unfold cnt
  exact List.countP_pos_iff.mpr ⟨ts[i], List.getElem_mem h, hf⟩

theorem cnt_le_of_imp (f g : PC → Bool) (ts : List PC) (h : ∀ p, f p = true → g p = true) : cnt f ts ≤ cnt g ts := by
  unfold cnt; apply List.countP_mono_left; intro x _ hx; exact h x hx

theorem cnt_replicate_idle (f : PC → Bool) (hf : f .idle = false) (n : Nat) : cnt f (List.replicate n PC.idle) = 0 := by
  unfold cnt
  induction n with
  | zero => rfl
  | succ n ih => simp [List.replicate_succ, hf, ih]

theorem two_le_cnt (f : PC → Bool) (ts : List PC) (i j : Nat) (hi : i < ts.length) (hj : j < ts.length) (hij : i ≠ j)
    (fi : f ts[i] = true) (fj : f ts[j] = true) : 2 ≤ cnt f ts := by
  induction ts generalizing i j with
  | nil => simp at hi
  | cons a as ih =>
    unfold cnt at *
    simp only [List.countP_cons]
    cases i with
    | zero =>
      cases j with
      | zero => exact absurd rfl hij
      | succ j =>
        have hj' : j < as.length := by simpa using hj
        simp only [List.getElem_cons_zero] at fi
        simp only [List.getElem_cons_succ] at fj
        have : 0 < List.countP f as := List.countP_pos_iff.mpr ⟨as[j], List.getElem_mem hj', fj⟩
        rw [if_pos fi]; omega
    | succ i =>
      cases j with
      | zero =>
        have hi' : i < as.length := by simpa using hi
        simp only [List.getElem_cons_zero] at fj
        simp only [List.getElem_cons_succ] at fi
        have : 0 < List.countP f as := List.countP_pos_iff.mpr ⟨as[i], List.getElem_mem hi', fi⟩
        rw [if_pos fj]; omega
      | succ j =>
        simp only [List.getElem_cons_succ] at fi fj
        have := ih i j (by simpa using hi) (by simpa using hj) (by omega) fi fj
        omega

/-- strictly exclusive holder that does not (yet) know the anchor to be empty -/
def PC.xEnk (g : Nat) (p : PC) : Bool := PC.xE g p && !PC.keyZero g p

theorem cnt_disjoint_le (f g h : PC → Bool) (ts : List PC)
    (hd : ∀ p, f p = true → g p = true → False) (hf : ∀ p, f p = true → h p = true) (hg : ∀ p, g p = true → h p = true) :
    cnt f ts + cnt g ts ≤ cnt h ts := by
  unfold cnt
  induction ts with
  | nil => simp
  | cons a as ih =>
    simp only [List.countP_cons]
    have h1 := hd a; have h2 := hf a; have h3 := hg a
    cases hfa : f a <;> cases hga : g a <;> cases hha : h a <;> simp_all <;> omega

section
variable (g : Nat) (ts : List PC)
theorem keyZero_xEnk_le_xE : cnt (PC.keyZero g) ts + cnt (PC.xEnk g) ts ≤ cnt (PC.xE g) ts :=
  cnt_disjoint_le _ _ _ ts (by intro p a b; simp [PC.xEnk, a] at b)
    (by intro p; cases p <;> simp [PC.keyZero, PC.xE]) (by intro p a; simp [PC.xEnk] at a; exact a.1)
theorem keyZero_le_xE : cnt (PC.keyZero g) ts ≤ cnt (PC.xE g) ts :=
  cnt_le_of_imp _ _ ts (by intro p; cases p <;> simp [PC.keyZero, PC.xE])
theorem awHU_le_xD : cnt (PC.awHU g) ts ≤ cnt (PC.xD g) ts :=
  cnt_le_of_imp _ _ ts (by intro p; cases p <;> simp [PC.awHU, PC.xD])
theorem fkUSm_le_holdsS : cnt (PC.fkUSm g) ts ≤ cnt (PC.holdsS g) ts :=
  cnt_le_of_imp _ _ ts (by intro p; cases p <;> simp [PC.fkUSm, PC.holdsS] <;> intro h _ <;> exact h)
end

theorem ainv_init (g n k : Nat) : AInv g (Sh.init n, List.replicate k PC.idle) := by
  have h1 := cnt_replicate_idle (PC.holdsS g) rfl k
  have h2 := cnt_replicate_idle (PC.xE g) rfl k
  have h3 := cnt_replicate_idle (PC.xA g) rfl k
  have h4 := cnt_replicate_idle (PC.xD g) rfl k
  have h5 := cnt_replicate_idle (PC.awHU g) rfl k
  have h6 := cnt_replicate_idle (PC.keyZero g) rfl k
  have h7 := cnt_replicate_idle (PC.activeW g) rfl k
  have h8 := cnt_replicate_idle (PC.fkUSm g) rfl k
  constructor <;> simp [Sh.init, Sh.a, h1, h2, h3, h4, h5, h6, h7, h8]

/-- a pc that does not work on `g` belongs to no class of `g` -/
theorem classes_off (g : Nat) (p : PC) (h : p.anch ≠ some g) :
    PC.holdsS g p = false ∧ PC.xE g p = false ∧ PC.xA g p = false ∧ PC.xD g p = false ∧ PC.awHU g p = false ∧
    PC.keyZero g p = false ∧ PC.activeW g p = false ∧ PC.fkUSm g p = false := by
  cases p <;> simp [PC.anch] at h <;>
    simp [PC.holdsS, PC.xE, PC.xA, PC.xD, PC.awHU, PC.keyZero, PC.activeW, PC.fkUSm, h]

/-- frame: a step of a session that neither works on `g` before nor after, and leaves anchor `g` alone, preserves `AInv g` -/
theorem ainv_frame {g : Nat} {sh sh' : Sh} {ts : List PC} (hi : AInv g (sh, ts)) (i : Nat) (h : i < ts.length) (p' : PC)
    (h1 : ts[i].anch ≠ some g) (h2 : p'.anch ≠ some g) (ha : sh'.a g = sh.a g) : AInv g (sh', ts.set i p') := by
  obtain ⟨a1, a2, a3, a4, a5, a6, a7, a8⟩ := classes_off g ts[i] h1
  obtain ⟨b1, b2, b3, b4, b5, b6, b7, b8⟩ := classes_off g p' h2
  have E := fun (f : PC → Bool) => cnt_set_eq f ts i h p'
  obtain ⟨rd, xe, xa, xd, ex, mkd, kz, aw, dd, fm, lf⟩ := hi
  constructor <;> simp only [ha, E, a1, a2, a3, a4, a5, a6, a7, a8, b1, b2, b3, b4, b5, b6, b7, b8] <;> simp_all

end SquidModel.Ipc.StoreMap
