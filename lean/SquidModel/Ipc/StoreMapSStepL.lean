/-
Preservation of the slice ownership invariant `SInv` by the linking store of the writer (`asLink`) and by the `call` steps.
-/
import SquidModel.Ipc.StoreMapSStepN

namespace SquidModel.Ipc.StoreMap
open PC
set_option linter.unusedSimpArgs false
set_option linter.unusedVariables false

/-- common part of the two ways of linking (first slice: `start = s`; later: `slices[last].next = s`) -/
theorem sinv_link {sh sh' : Sh} {ts : List PC} (hs : SInv (sh, ts)) (hA : ∀ g, AInv g (sh, ts)) (i : Nat) (h : i < ts.length)
    (f : Nat) (app : Bool) (last : Int) (s : Nat) (hp : ts[i] = .asLink f app last s)
    (m : Option Nat)     -- the slice whose `next` is redirected
    (hm : ∀ y, m = some y → y ∈ (sh.a f).chain)
    (e_pool : sh'.pool = sh.pool)
    (e_own_s : (sh'.s s).owner = .anchor f)
    (e_own : ∀ y, y ≠ s → (sh'.s y).owner = (sh.s y).owner)
    (e_s : ∀ y, y ≠ s → m ≠ some y → sh'.s y = sh.s y)
    (e_af : (sh'.a f).chain = (sh.a f).chain ++ [s] ∧ (sh'.a f).key = (sh.a f).key ∧ (sh'.a f).live = (sh.a f).live ∧
      (sh'.a f).writer = (sh.a f).writer)
    (e_ag : ∀ g, g ≠ f → sh'.a g = sh.a g)
    (e_chain : ChainFrom sh'.slices (sh'.a f).start ((sh.a f).chain ++ [s])) :
    SInv (sh', ts.set i (.holdW f app s)) := by
  have ht := hs.thr i h
  simp only [] at ht
  rw [hp] at ht
  simp only [TOK] at ht
  obtain ⟨hl, hlast, hos, hns⟩ := ht
  have hx : PC.holdsX f ts[i] = true := by rw [hp]; cases app <;> simp [PC.holdsX, PC.xE, PC.xA]
  obtain ⟨a1, a2, a3, a4, a5, a6, a7⟩ := hs
  simp only at a1 a2 a3 a4 a5 a6
  have hsn : ∀ g, s ∉ (sh.a g).chain := by intro g hm'; have := a4 g s hm'; rw [hos] at this; simp at this
  have hmo : ∀ y, m = some y → (sh.s y).owner = .anchor f := fun y hy => a4 f y (hm y hy)
  refine sinv_step_x ⟨a1, a2, a3, a4, a5, a6, a7⟩ hA i h f _ hx ?_ ?_ ?_ ?_ ?_ ?_ ?_ e_ag ?_ ?_
  · rw [e_pool]; exact a1
  · intro y hy; rw [e_pool] at hy
    have ho := a2 y hy
    have : y ≠ s := by intro e; rw [e, hos] at ho; simp at ho
    rw [e_own y this]; exact ho
  · intro g; by_cases hg : g = f
    · subst hg; rw [e_af.1]
      refine List.nodup_append.mpr ⟨a3 g, by simp, ?_⟩
      intro x hx y hy
      simp only [List.mem_singleton] at hy
      intro e; rw [e, hy] at hx; exact hsn g hx
    · rw [e_ag g hg]; exact a3 g
  · intro g y hy; by_cases hg : g = f
    · subst hg; rw [e_af.1] at hy
      rcases List.mem_append.mp hy with hy | hy
      · have : y ≠ s := by intro e; rw [e] at hy; exact hsn g hy
        rw [e_own y this]; exact a4 g y hy
      · simp only [List.mem_singleton] at hy; rw [hy]; exact e_own_s
    · rw [e_ag g hg] at hy
      have : y ≠ s := by intro e; rw [e] at hy; exact hsn g hy
      rw [e_own y this]; exact a4 g y hy
  · intro g hlg; by_cases hg : g = f
    · subst hg; rw [e_af.1]; exact e_chain
    · rw [e_ag g hg] at hlg ⊢
      refine chainFrom_congr ?_ (a5 g hlg)
      intro y hy
      have h1 : y ≠ s := by intro e; rw [e] at hy; exact hsn g hy
      have h2 : m ≠ some y := by
        intro e; have := hmo y e; rw [a4 g y hy] at this; simp only [Owner.anchor.injEq] at this; exact hg this
      exact congrArg Slice.next (e_s y h1 h2)
  · intro g; by_cases hg : g = f
    · subst hg; rw [e_af.2.1, e_af.2.2.1, e_af.2.2.2]; exact a6 g
    · rw [e_ag g hg]; exact a6 g
  · simp only [TOK]; rw [e_af.2.2.1, e_af.1]; exact ⟨hl, (lastOf_append _ _).symm⟩
  · intro y; by_cases e1 : y = s
    · right; right; left; rw [e1]; exact hos
    · by_cases e2 : m = some y
      · right; left; exact hmo y e2
      · left; exact e_s y e1 e2
  · intro _; refine ⟨e_af.2.2.1, ?_⟩
    intro y hy; rw [e_af.1]; exact List.mem_append_left _ hy

theorem sinv_asLink {sh : Sh} {ts : List PC} (f : Nat) (app : Bool) (last : Int) (s : Nat) (ch : Bool) (i : Nat) (h : i < ts.length)
    (hp : ts[i] = .asLink f app last s) (hs : SInv (sh, ts)) (hA : ∀ g, AInv g (sh, ts)) :
    SInv ((act sh (.asLink f app last s) ch).1, ts.set i (act sh (.asLink f app last s) ch).2.1) := by
  have ht := hs.thr i h
  simp only [] at ht
  rw [hp] at ht
  simp only [TOK] at ht
  obtain ⟨hl, hlast, hos, hns⟩ := ht
  have hlc := hs.live_chain f hl
  have hnd := hs.chain_nodup f
  have hsn : s ∉ (sh.a f).chain := by intro hm'; have := hs.chain_own f s hm'; simp only [] at this; rw [hos] at this; simp at this
  simp only [] at hlc hnd
  simp only [act]
  split
  · -- first slice of the chain
    rename_i hneg
    have hnil : (sh.a f).chain = [] := lastOf_neg.mp (by rw [← hlast]; exact hneg)
    refine sinv_link hs hA i h f app last s hp none (by simp) rfl ?_ ?_ ?_ ?_ ?_ ?_
    · simp [Sh.s, Sh.setA, Sh.setS]
    · intro y hy; simp [Sh.s, Sh.setA, Sh.setS, upd, hy]
    · intro y hy _; simp [Sh.s, Sh.setA, Sh.setS, upd, hy]
    · simp
    · intro g hg; simp [Sh.a, Sh.setA, Sh.setS, upd, hg]
    · simp only [setA_a_same, hnil, List.nil_append, ChainFrom, setA_slices, true_and]
      have : ((sh.setS s { sh.s s with owner := Owner.anchor f }).slices s).next = -1 := by
        simp [Sh.setS, Sh.s] at hns ⊢; exact hns
      rw [this]; omega
  · -- behind the last slice
    rename_i hge
    have hne : (sh.a f).chain ≠ [] := by intro e; have := lastOf_neg.mpr e; rw [← hlast] at this; exact hge this
    obtain ⟨hmem, hcast⟩ := lastOf_mem hne
    rw [← hlast] at hmem hcast
    have hms : last.toNat ≠ s := by intro e; rw [e] at hmem; exact hsn hmem
    refine sinv_link hs hA i h f app last s hp (some last.toNat) (by intro y hy; cases hy; exact hmem) rfl ?_ ?_ ?_ ?_ ?_ ?_
    · simp [Sh.s, Sh.setA, Sh.setS, upd, Ne.symm hms]
    · intro y hy; by_cases e : y = last.toNat
      · subst e; simp [Sh.s, Sh.setA, Sh.setS, upd, hy]
      · simp [Sh.s, Sh.setA, Sh.setS, upd, hy, e]
    · intro y hy hy2
      have : y ≠ last.toNat := by intro e; apply hy2; rw [e]
      simp [Sh.s, Sh.setA, Sh.setS, upd, hy, this]
    · simp
    · intro g hg; simp [Sh.a, Sh.setA, Sh.setS, upd, hg]
    · simp only [setA_a_same, setA_slices]
      have h1 : ChainFrom (sh.setS s { sh.s s with owner := Owner.anchor f }).slices (sh.a f).start (sh.a f).chain := by
        refine chainFrom_congr ?_ hlc
        intro y hy
        have : y ≠ s := by intro e; rw [e] at hy; exact hsn hy
        simp [Sh.setS, upd, this]
      have h2 : ((sh.setS s { sh.s s with owner := Owner.anchor f }).slices s).next = -1 := by
        simp [Sh.setS, Sh.s] at hns ⊢; exact hns
      have hnd2 : ((sh.a f).chain ++ [s]).Nodup := by
        refine List.nodup_append.mpr ⟨hnd, by simp, ?_⟩
        intro x hx y hy e; simp only [List.mem_singleton] at hy; rw [e, hy] at hx; exact hsn hx
      have := chainFrom_append s hnd2 h1 h2 hne
      rw [← hlast] at this
      exact this

/-- taking a slice from the free pool: it becomes private to the session -/
theorem sinv_call_AS {sh : Sh} {ts : List PC} (f : Nat) (app : Bool) (last : Int) (n s : Nat) (rest : List Nat) (i : Nat) (h : i < ts.length)
    (hp : ts[i] = .holdW f app last) (hpool : sh.pool = s :: rest) (hs : SInv (sh, ts)) (hA : ∀ g, AInv g (sh, ts)) :
    SInv ({ sh.setS s { sh.s s with owner := .priv i } with pool := rest }, ts.set i (.asClrS f app last s n)) := by
  have ht := hs.thr i h
  simp only [] at ht
  rw [hp] at ht
  simp only [TOK] at ht
  have hx : PC.holdsX f ts[i] = true := by rw [hp]; cases app <;> simp [PC.holdsX, PC.xE, PC.xA]
  obtain ⟨a1, a2, a3, a4, a5, a6, a7⟩ := hs
  simp only at a1 a2 a3 a4 a5 a6
  rw [hpool] at a1 a2
  have hfree : (sh.s s).owner = .free := a2 s (by simp)
  have hsr : s ∉ rest := (List.nodup_cons.mp a1).1
  generalize hsh' : ({ sh.setS s { sh.s s with owner := .priv i } with pool := rest } : Sh) = sh'
  have e_pool : sh'.pool = rest := by rw [← hsh']
  have e_ss : sh'.s s = { sh.s s with owner := .priv i } := by rw [← hsh']; simp [Sh.s, Sh.setS]
  have e_s : ∀ y, y ≠ s → sh'.s y = sh.s y := by intro y hy; rw [← hsh']; simp [Sh.s, Sh.setS, upd, hy]
  have e_a : ∀ g, sh'.a g = sh.a g := by intro g; rw [← hsh']; rfl
  have e_next : ∀ y, (sh'.slices y).next = (sh.slices y).next := by
    intro y; by_cases e : y = s
    · rw [e]; have := congrArg Slice.next e_ss; simpa [Sh.s] using this
    · exact congrArg Slice.next (e_s y e)
  have hsn : ∀ g, s ∉ (sh.a g).chain := by intro g hm; have := a4 g s hm; rw [hfree] at this; simp at this
  refine sinv_step_x ⟨by rw [hpool]; exact a1, by rw [hpool]; exact a2, a3, a4, a5, a6, a7⟩ hA i h f _ hx ?_ ?_ ?_ ?_ ?_ ?_ ?_ (fun g _ => e_a g) ?_ ?_
  · rw [e_pool]; exact (List.nodup_cons.mp a1).2
  · intro y hy; rw [e_pool] at hy
    have : y ≠ s := by intro e; rw [e] at hy; exact hsr hy
    rw [e_s y this]; exact a2 y (by simp [hy])
  · intro g; rw [e_a]; exact a3 g
  · intro g y hy; rw [e_a] at hy
    have : y ≠ s := by intro e; rw [e] at hy; exact hsn g hy
    rw [e_s y this]; exact a4 g y hy
  · intro g hl; rw [e_a] at hl ⊢
    exact chainFrom_congr (fun y _ => e_next y) (a5 g hl)
  · intro g; rw [e_a]; exact a6 g
  · simp only [TOK, e_a, e_ss]; exact ⟨ht.1, ht.2, trivial⟩
  · intro y; by_cases e : y = s
    · right; right; right; rw [e]; exact hfree
    · left; exact e_s y e
  · intro _; rw [e_a]; exact ⟨rfl, fun y hy => hy⟩

theorem sinv_call {sh : Sh} {ts : List PC} (hs : SInv (sh, ts)) (hA : ∀ g, AInv g (sh, ts)) (i : Nat) (h : i < ts.length) (op : Op)
    (sh' : Sh) (p' : PC) (res : Option String) (hc : call i sh ts[i] op = some (sh', p', res)) : SInv (sh', ts.set i p') := by
  have ht := hs.thr i h
  simp only [] at ht
  have hkl := hs.key_live
  simp only [] at hkl
  generalize hp : ts[i] = p at hc ht
  have hq0 : ∀ g, (sh.a g).key = (sh.a g).key ∧ (sh.a g).live = (sh.a g).live ∧ (sh.a g).chain = (sh.a g).chain ∧
      (sh.a g).start = (sh.a g).start := fun g => ⟨rfl, rfl, rfl, rfl⟩
  cases p <;> cases op <;> simp only [call, reduceCtorEq] at hc
  case idle.OW f ow =>
    simp only [Option.some.injEq, Prod.mk.injEq] at hc; obtain ⟨rfl, rfl, rfl⟩ := hc
    exact sinv_quiet hs i h _ rfl rfl hq0 hkl (by simp [TOK])
  case idle.OR f k =>
    split at hc
    · simp at hc
    · simp only [Option.some.injEq, Prod.mk.injEq] at hc; obtain ⟨rfl, rfl, rfl⟩ := hc
      exact sinv_quiet hs i h _ rfl rfl hq0 hkl (by simp [TOK])
  case idle.FE f =>
    simp only [Option.some.injEq, Prod.mk.injEq] at hc; obtain ⟨rfl, rfl, rfl⟩ := hc
    exact sinv_quiet hs i h _ rfl rfl hq0 hkl (by simp [TOK])
  case idle.FK k =>
    split at hc
    · simp at hc
    · simp only [Option.some.injEq, Prod.mk.injEq] at hc; obtain ⟨rfl, rfl, rfl⟩ := hc
      exact sinv_quiet hs i h _ rfl rfl hq0 hkl (by simp [TOK])
  case holdW.SK f app last k m =>
    cases app <;> simp only [reduceCtorEq] at hc
    split at hc
    · simp at hc
    · simp only [TOK] at ht
      split at hc
      · simp only [Option.some.injEq, Prod.mk.injEq] at hc; obtain ⟨rfl, rfl, rfl⟩ := hc
        exact sinv_anchor_only hs hA i h f _ _ (by rw [hp]; simp [PC.xE]) rfl rfl (by simp) (by simpa [TOK] using ht)
      · simp only [Option.some.injEq, Prod.mk.injEq] at hc; obtain ⟨rfl, rfl, rfl⟩ := hc
        exact sinv_anchor_only hs hA i h f _ _ (by rw [hp]; simp [PC.xE]) rfl rfl (by simp) (by simpa [TOK] using ht)
  case holdW.AS f app last n =>
    split at hc
    · simp only [Option.some.injEq, Prod.mk.injEq] at hc; obtain ⟨rfl, rfl, rfl⟩ := hc
      exact sinv_quiet hs i h _ rfl rfl hq0 hkl ht
    · rename_i s rest hpool
      simp only [Option.some.injEq, Prod.mk.injEq] at hc; obtain ⟨rfl, rfl, rfl⟩ := hc
      exact sinv_call_AS f app last n s rest i h hp hpool hs hA
  case holdW.SA f app last =>
    cases app <;> simp only [reduceCtorEq, Option.some.injEq, Prod.mk.injEq] at hc
    obtain ⟨rfl, rfl, rfl⟩ := hc
    exact sinv_quiet hs i h _ rfl rfl hq0 hkl (by simpa [TOK] using ht)
  case holdW.CW f app last =>
    simp only [Option.some.injEq, Prod.mk.injEq] at hc; obtain ⟨rfl, rfl, rfl⟩ := hc
    exact sinv_quiet hs i h _ rfl rfl hq0 hkl (by simp only [TOK] at ht ⊢; exact ht.1)
  case holdW.AW f app last =>
    simp only [Option.some.injEq, Prod.mk.injEq] at hc; obtain ⟨rfl, rfl, rfl⟩ := hc
    exact sinv_quiet hs i h _ rfl rfl hq0 hkl (by simp only [TOK] at ht ⊢; exact ht.1)
  case holdR.RD f =>
    simp only [Option.some.injEq, Prod.mk.injEq] at hc; obtain ⟨rfl, rfl, rfl⟩ := hc
    exact sinv_quiet hs i h _ rfl rfl hq0 hkl (by simpa [TOK] using ht)
  case holdR.CR f =>
    simp only [Option.some.injEq, Prod.mk.injEq] at hc; obtain ⟨rfl, rfl, rfl⟩ := hc
    exact sinv_quiet hs i h _ rfl rfl hq0 hkl (by simpa [TOK] using ht)
  case holdR.CF f =>
    simp only [Option.some.injEq, Prod.mk.injEq] at hc; obtain ⟨rfl, rfl, rfl⟩ := hc
    exact sinv_quiet hs i h _ rfl rfl hq0 hkl (by simpa [TOK] using ht)

end SquidModel.Ipc.StoreMap
