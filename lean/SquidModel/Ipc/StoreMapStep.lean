/-
The StoreMap invariant is inductive: every step of every session preserves `AInv g` for every anchor `g`
(dispatch over the per-pc lemmas of StoreMapStepA/B, frame argument for the anchors a step does not work on, the `call` steps).
-/
import SquidModel.Ipc.StoreMapStepB

namespace SquidModel.Ipc.StoreMap
open PC
set_option linter.unusedSimpArgs false
set_option linter.unusedVariables false

/-- the pending operation of a session working on anchor `f` leaves it on `f` or at rest/idle -/
theorem act_anch (sh : Sh) (p : PC) (ch : Bool) (f : Nat) (h : p.anch = some f) :
    (act sh p ch).2.1.anch = some f ∨ (act sh p ch).2.1.anch = none := by
  cases p <;> simp only [PC.anch, Option.some.injEq, reduceCtorEq] at h <;> subst h <;>
    simp only [act, Anchor.lockExclusive, Anchor.lockShared, Anchor.stopAppending, Anchor.unlockSharedAndSwitch, enterFC] <;>
    (repeat' split) <;> simp [PC.anch]

/-- ... and does not touch any other anchor -/
theorem act_other (sh : Sh) (p : PC) (ch : Bool) (f g : Nat) (h : p.anch = some f) (hg : g ≠ f) :
    (act sh p ch).1.a g = sh.a g := by
  cases p <;> simp only [PC.anch, Option.some.injEq, reduceCtorEq] at h <;> subst h <;>
    simp only [act, Anchor.lockExclusive, Anchor.lockShared, Anchor.stopAppending, Anchor.unlockSharedAndSwitch] <;>
    (repeat' split) <;> simp [Sh.a, Sh.setA, Sh.setS, upd, hg]

theorem ainv_act {sh : Sh} {ts : List PC} (hi : ∀ g, AInv g (sh, ts)) (i : Nat) (h : i < ts.length) (hn : ts[i].isRest = false)
    (ch : Bool) (g : Nat) : AInv g ((act sh ts[i] ch).1, ts.set i (act sh ts[i] ch).2.1) := by
  by_cases hg : ts[i].anch = some g
  · generalize hp : ts[i] = p at hn hg ⊢
    cases p with
    | idle => simp [PC.isRest] at hn
    | holdW _ _ _ => simp [PC.isRest] at hn
    | holdR _ => simp [PC.isRest] at hn
    | fkFn k => simp [PC.anch] at hg
    | owLock f ow => simp only [PC.anch, Option.some.injEq] at hg; subst hg; exact ainv_owLock f ow ch i h hp (hi f)
    | owW1 f ow => simp only [PC.anch, Option.some.injEq] at hg; subst hg; exact ainv_owW1 f ow ch i h hp (hi f)
    | owBail f => simp only [PC.anch, Option.some.injEq] at hg; subst hg; exact ainv_owBail f ch i h hp (hi f)
    | owW2 f => simp only [PC.anch, Option.some.injEq] at hg; subst hg; exact ainv_owW2 f ch i h hp (hi f)
    | owS f => simp only [PC.anch, Option.some.injEq] at hg; subst hg; exact ainv_owS f ch i h hp (hi f)
    | owSp f => simp only [PC.anch, Option.some.injEq] at hg; subst hg; exact ainv_owSp f ch i h hp (hi f)
    | owCnt f => simp only [PC.anch, Option.some.injEq] at hg; subst hg; exact ainv_owCnt f ch i h hp (hi f)
    | fcSp f r => simp only [PC.anch, Option.some.injEq] at hg; subst hg; exact ainv_fcSp f r ch i h hp (hi f)
    | fcSt f sp r => simp only [PC.anch, Option.some.injEq] at hg; subst hg; exact ainv_fcSt f sp r ch i h hp (hi f)
    | fcNext f cur sp r => simp only [PC.anch, Option.some.injEq] at hg; subst hg; exact ainv_fcNext f cur sp r ch i h hp (hi f)
    | fcClrS f cur nx sp r => simp only [PC.anch, Option.some.injEq] at hg; subst hg; exact ainv_fcClrS f cur nx sp r ch i h hp (hi f)
    | fcClrN f cur nx sp r => simp only [PC.anch, Option.some.injEq] at hg; subst hg; exact ainv_fcClrN f cur nx sp r ch i h hp (hi f)
    | rwStart f r => simp only [PC.anch, Option.some.injEq] at hg; subst hg; exact ainv_rwStart f r ch i h hp (hi f)
    | rwSplice f r => simp only [PC.anch, Option.some.injEq] at hg; subst hg; exact ainv_rwSplice f r ch i h hp (hi f)
    | rwSz f r => simp only [PC.anch, Option.some.injEq] at hg; subst hg; exact ainv_rwSz f r ch i h hp (hi f)
    | rwWtbf f r => simp only [PC.anch, Option.some.injEq] at hg; subst hg; exact ainv_rwWtbf f r ch i h hp (hi f)
    | rwHalt f r => simp only [PC.anch, Option.some.injEq] at hg; subst hg; exact ainv_rwHalt f r ch i h hp (hi f)
    | fcUnl f b => simp only [PC.anch, Option.some.injEq] at hg; subst hg; exact ainv_fcUnl f b ch i h hp (hi f)
    | fcCnt f r => simp only [PC.anch, Option.some.injEq] at hg; subst hg; exact ainv_fcCnt f r ch i h hp (hi f)
    | skW f last m => simp only [PC.anch, Option.some.injEq] at hg; subst hg; exact ainv_skW f last m ch i h hp (hi f)
    | asClrS f app last s n => simp only [PC.anch, Option.some.injEq] at hg; subst hg; exact ainv_asClrS f app last s n ch i h hp (hi f)
    | asClrN f app last s n => simp only [PC.anch, Option.some.injEq] at hg; subst hg; exact ainv_asClrN f app last s n ch i h hp (hi f)
    | asSize f app last s n => simp only [PC.anch, Option.some.injEq] at hg; subst hg; exact ainv_asSize f app last s n ch i h hp (hi f)
    | asLink f app last s => simp only [PC.anch, Option.some.injEq] at hg; subst hg; exact ainv_asLink f app last s ch i h hp (hi f)
    | saLock f last => simp only [PC.anch, Option.some.injEq] at hg; subst hg; exact ainv_saLock f last ch i h hp (hi f)
    | cwU f app => simp only [PC.anch, Option.some.injEq] at hg; subst hg; exact ainv_cwU f app ch i h hp (hi f)
    | awA f app => simp only [PC.anch, Option.some.injEq] at hg; subst hg; exact ainv_awA f app ch i h hp (hi f)
    | awStop f => simp only [PC.anch, Option.some.injEq] at hg; subst hg; exact ainv_awStop f ch i h hp (hi f)
    | awW f => simp only [PC.anch, Option.some.injEq] at hg; subst hg; exact ainv_awW f ch i h hp (hi f)
    | awH f => simp only [PC.anch, Option.some.injEq] at hg; subst hg; exact ainv_awH f ch i h hp (hi f)
    | awU f => simp only [PC.anch, Option.some.injEq] at hg; subst hg; exact ainv_awU f ch i h hp (hi f)
    | orLock f k => simp only [PC.anch, Option.some.injEq] at hg; subst hg; exact ainv_orLock f k ch i h hp (hi f)
    | orW f k => simp only [PC.anch, Option.some.injEq] at hg; subst hg; exact ainv_orW f k ch i h hp (hi f)
    | orU f => simp only [PC.anch, Option.some.injEq] at hg; subst hg; exact ainv_orU f ch i h hp (hi f)
    | rdStart f => simp only [PC.anch, Option.some.injEq] at hg; subst hg; exact ainv_rdStart f ch i h hp (hi f)
    | rdSize f cur acc => simp only [PC.anch, Option.some.injEq] at hg; subst hg; exact ainv_rdSize f cur acc ch i h hp (hi f)
    | rdNext f cur acc => simp only [PC.anch, Option.some.injEq] at hg; subst hg; exact ainv_rdNext f cur acc ch i h hp (hi f)
    | crU f => simp only [PC.anch, Option.some.injEq] at hg; subst hg; exact ainv_crU f ch i h hp (hi f)
    | cfX f => simp only [PC.anch, Option.some.injEq] at hg; subst hg; exact ainv_cfX f ch i h hp (hi f)
    | feLock f => simp only [PC.anch, Option.some.injEq] at hg; subst hg; exact ainv_feLock f ch i h hp (hi f)
    | feW f => simp only [PC.anch, Option.some.injEq] at hg; subst hg; exact ainv_feW f ch i h hp (hi f)
    | feCas f g0 => simp only [PC.anch, Option.some.injEq] at hg; subst hg; exact ainv_feCas f g0 ch i h hp (hi f)
    | fkLockE f k g0 => simp only [PC.anch, Option.some.injEq] at hg; subst hg; exact ainv_fkLockE f k g0 ch i h hp (hi f)
    | fkUE f => simp only [PC.anch, Option.some.injEq] at hg; subst hg; exact ainv_fkUE f ch i h hp (hi f)
    | fkLockS f k g0 => simp only [PC.anch, Option.some.injEq] at hg; subst hg; exact ainv_fkLockS f k g0 ch i h hp (hi f)
    | fkMarkS f g0 => simp only [PC.anch, Option.some.injEq] at hg; subst hg; exact ainv_fkMarkS f g0 ch i h hp (hi f)
    | fkUS f hit g0 => simp only [PC.anch, Option.some.injEq] at hg; subst hg; exact ainv_fkUS f hit g0 ch i h hp (hi f)
    | fkMark f g0 => simp only [PC.anch, Option.some.injEq] at hg; subst hg; exact ainv_fkMark f g0 ch i h hp (hi f)
  · cases ha : ts[i].anch with
    | none =>
      generalize hp : ts[i] = p at hn ha ⊢
      cases p <;> simp only [PC.anch, reduceCtorEq] at ha
      · simp [PC.isRest] at hn
      · -- fkFn: a plain load of fileNos
        refine ainv_frame' (hi g) i h _ (by rw [hp]; exact off_of_anch g _ (by simp [PC.anch])) ?_ (by simp [act])
        simp [act, PC.off, PC.holdsS, PC.xE, PC.xA, PC.xD, PC.awHU, PC.keyZero, PC.activeW, PC.fkUSm]
    | some f =>
      have hgf : g ≠ f := by intro e; apply hg; rw [ha, e]
      refine ainv_frame' (hi g) i h _ (off_of_anch g _ hg) ?_ (act_other sh _ ch f g ha hgf)
      rcases act_anch sh _ ch f ha with h1 | h1 <;> exact off_of_anch g _ (by rw [h1]; simp [Ne.symm hgf])

set_option hygiene false in
/-- a `call` step of a session resting on anchor `f`: the anchor itself by the counting tactic, every other anchor by the frame -/
macro "sm_call" : tactic => `(tactic| (
  by_cases hgf : f = g
  · subst hgf
    have hi := hi f
    sm_prep
    sm_fin
  · exact ainv_frame' (hi g) i h _ (by rw [hp]; exact off_of_anch g _ (by simp [PC.anch, hgf]))
      (off_of_anch g _ (by simp [PC.anch, hgf])) (by simp [Sh.a, Sh.setA, Sh.setS, upd, Ne.symm hgf])))

set_option hygiene false in
/-- a `call` step from `idle`: the new pc holds nothing yet -/
macro "sm_call_idle" : tactic => `(tactic| (
  exact ainv_frame' (hi g) i h _ (by rw [hp]; exact off_of_anch g _ (by simp [PC.anch]))
    (by simp [PC.off, PC.holdsS, PC.xE, PC.xA, PC.xD, PC.awHU, PC.keyZero, PC.activeW, PC.fkUSm]) rfl))

set_option maxHeartbeats 1600000 in
theorem ainv_call {sh : Sh} {ts : List PC} (hi : ∀ g, AInv g (sh, ts)) (i : Nat) (h : i < ts.length) (op : Op) (sh' : Sh) (p' : PC)
    (res : Option String) (hc : call i sh ts[i] op = some (sh', p', res)) (g : Nat) : AInv g (sh', ts.set i p') := by
  generalize hp : ts[i] = p at hc
  cases p <;> cases op <;> simp only [call, reduceCtorEq] at hc
  case idle.OW f ow =>
    simp only [Option.some.injEq, Prod.mk.injEq] at hc; obtain ⟨rfl, rfl, rfl⟩ := hc
    sm_call_idle
  case idle.OR f k =>
    split at hc
    · simp at hc
    · simp only [Option.some.injEq, Prod.mk.injEq] at hc; obtain ⟨rfl, rfl, rfl⟩ := hc
      sm_call_idle
  case idle.FE f =>
    simp only [Option.some.injEq, Prod.mk.injEq] at hc; obtain ⟨rfl, rfl, rfl⟩ := hc
    sm_call_idle
  case idle.FK k =>
    split at hc
    · simp at hc
    · simp only [Option.some.injEq, Prod.mk.injEq] at hc; obtain ⟨rfl, rfl, rfl⟩ := hc
      sm_call_idle
  case holdW.SK f app last k m =>
    cases app <;> simp only [reduceCtorEq] at hc
    split at hc
    · simp at hc
    · split at hc
      · simp only [Option.some.injEq, Prod.mk.injEq] at hc; obtain ⟨rfl, rfl, rfl⟩ := hc
        sm_call
      · simp only [Option.some.injEq, Prod.mk.injEq] at hc; obtain ⟨rfl, rfl, rfl⟩ := hc
        sm_call
  case holdW.AS f app last n =>
    split at hc
    · simp only [Option.some.injEq, Prod.mk.injEq] at hc; obtain ⟨rfl, rfl, rfl⟩ := hc
      cases app <;> sm_call
    · simp only [Option.some.injEq, Prod.mk.injEq] at hc; obtain ⟨rfl, rfl, rfl⟩ := hc
      cases app <;> sm_call
  case holdW.SA f app last =>
    cases app <;> simp only [reduceCtorEq, Option.some.injEq, Prod.mk.injEq] at hc
    obtain ⟨rfl, rfl, rfl⟩ := hc
    sm_call
  case holdW.CW f app last =>
    simp only [Option.some.injEq, Prod.mk.injEq] at hc; obtain ⟨rfl, rfl, rfl⟩ := hc
    cases app <;> sm_call
  case holdW.AW f app last =>
    simp only [Option.some.injEq, Prod.mk.injEq] at hc; obtain ⟨rfl, rfl, rfl⟩ := hc
    cases app <;> sm_call
  case holdR.RD f =>
    simp only [Option.some.injEq, Prod.mk.injEq] at hc; obtain ⟨rfl, rfl, rfl⟩ := hc
    sm_call
  case holdR.CR f =>
    simp only [Option.some.injEq, Prod.mk.injEq] at hc; obtain ⟨rfl, rfl, rfl⟩ := hc
    sm_call
  case holdR.CF f =>
    simp only [Option.some.injEq, Prod.mk.injEq] at hc; obtain ⟨rfl, rfl, rfl⟩ := hc
    sm_call

theorem ainv_step {c c' : Cfg} (hi : ∀ g, AInv g c) (hs : Step c c') : ∀ g, AInv g c' := by
  cases hs with
  | call sh ts i h op sh' p' res hc => exact ainv_call hi i h op sh' p' res hc
  | act sh ts i h hn ch => exact ainv_act hi i h hn ch

theorem ainv_reachable {c : Cfg} (hr : Reachable c) : ∀ g, AInv g c := by
  induction hr with
  | init n k => exact fun g => ainv_init g n k
  | step _ hs ih => exact ainv_step ih hs

end SquidModel.Ipc.StoreMap
