/-
Preservation of the slice ownership invariant `SInv` by the steps that do touch slices, pool, chains, `start`, `live` or `key`
(allocation, linking, freeing, rewind) and by the reader's walk.
-/
import SquidModel.Ipc.StoreMapSStepQ

namespace SquidModel.Ipc.StoreMap
open PC
set_option linter.unusedSimpArgs false
set_option linter.unusedVariables false

@[simp] theorem setA_a_same (sh : Sh) (f : Nat) (a : Anchor) : (sh.setA f a).a f = a := by simp [Sh.a, Sh.setA]
theorem setA_a_other (sh : Sh) (f g : Nat) (a : Anchor) (h : g ≠ f) : (sh.setA f a).a g = sh.a g := by simp [Sh.a, Sh.setA, upd, h]
@[simp] theorem setA_s (sh : Sh) (f : Nat) (a : Anchor) (s : Nat) : (sh.setA f a).s s = sh.s s := rfl
@[simp] theorem setA_pool (sh : Sh) (f : Nat) (a : Anchor) : (sh.setA f a).pool = sh.pool := rfl
@[simp] theorem setA_slices (sh : Sh) (f : Nat) (a : Anchor) : (sh.setA f a).slices = sh.slices := rfl
@[simp] theorem setS_a (sh : Sh) (i : Nat) (x : Slice) (g : Nat) : (sh.setS i x).a g = sh.a g := rfl
@[simp] theorem setS_s_same (sh : Sh) (i : Nat) (x : Slice) : (sh.setS i x).s i = x := by simp [Sh.s, Sh.setS]
theorem setS_s_other (sh : Sh) (i s : Nat) (x : Slice) (h : s ≠ i) : (sh.setS i x).s s = sh.s s := by simp [Sh.s, Sh.setS, upd, h]
@[simp] theorem setS_pool (sh : Sh) (i : Nat) (x : Slice) : (sh.setS i x).pool = sh.pool := rfl
theorem setS_slices (sh : Sh) (i : Nat) (x : Slice) : (sh.setS i x).slices = upd sh.slices i x := rfl

/-- assemble `SInv` after a step of an exclusive holder of `f` from its parts -/
theorem sinv_step_x {sh sh' : Sh} {ts : List PC} (hs : SInv (sh, ts)) (hA : ∀ g, AInv g (sh, ts)) (i : Nat) (hi : i < ts.length) (f : Nat)
    (p' : PC) (hx : PC.holdsX f ts[i] = true)
    (g1 : sh'.pool.Nodup) (g2 : ∀ s ∈ sh'.pool, (sh'.s s).owner = .free)
    (g3 : ∀ g, (sh'.a g).chain.Nodup) (g4 : ∀ g, ∀ s ∈ (sh'.a g).chain, (sh'.s s).owner = .anchor g)
    (g5 : ∀ g, (sh'.a g).live = true → ChainFrom sh'.slices (sh'.a g).start (sh'.a g).chain)
    (g6 : ∀ g, (sh'.a g).key ≠ 0 → (sh'.a g).live = true ∨ (sh'.a g).writer = .E)
    (htok : TOK i sh' p')
    (h_anch : ∀ g, g ≠ f → sh'.a g = sh.a g)
    (h_sl : ∀ s, sh'.s s = sh.s s ∨ (sh.s s).owner = .anchor f ∨ (sh.s s).owner = .priv i ∨ (sh.s s).owner = .free)
    (h_rd : PC.xE f ts[i] = false → (sh'.a f).live = (sh.a f).live ∧ ∀ s ∈ (sh.a f).chain, s ∈ (sh'.a f).chain) :
    SInv (sh', ts.set i p') := by
  refine ⟨g1, g2, g3, g4, g5, g6, ?_⟩
  intro j hj
  simp only [List.length_set] at hj
  by_cases hji : j = i
  · subst hji; simpa using htok
  · have : (ts.set i p')[j] = ts[j] := by simp [List.getElem_set, Ne.symm hji]
    simp only [this]
    exact frame_others hs hA i hi f hx h_anch h_sl h_rd j hj hji

theorem sinv_fcNext {sh : Sh} {ts : List PC} (f cur : Nat) (sp : Int) (r : Ret) (ch : Bool) (i : Nat) (h : i < ts.length)
    (hp : ts[i] = .fcNext f cur sp r) (hs : SInv (sh, ts)) (hA : ∀ g, AInv g (sh, ts)) :
    SInv ((act sh (.fcNext f cur sp r) ch).1, ts.set i (act sh (.fcNext f cur sp r) ch).2.1) := by
  sq_prep
  simp only [act]
  refine sinv_quiet hs i h _ rfl rfl (fun g => ⟨rfl, rfl, rfl, rfl⟩) hkl ?_
  simp only [TOK]
  obtain ⟨r', hr, hc⟩ := chainFrom_head ht.2 (by omega)
  exact ⟨ht.1, r', by simpa using hr, by simpa [Sh.s] using hc⟩

theorem sinv_rdStart {sh : Sh} {ts : List PC} (f : Nat) (ch : Bool) (i : Nat) (h : i < ts.length)
    (hp : ts[i] = .rdStart f) (hs : SInv (sh, ts)) (hA : ∀ g, AInv g (sh, ts)) :
    SInv ((act sh (.rdStart f) ch).1, ts.set i (act sh (.rdStart f) ch).2.1) := by
  sq_prep
  simp only [act]
  refine sinv_quiet hs i h _ rfl rfl (fun g => ⟨rfl, rfl, rfl, rfl⟩) hkl ?_
  split
  · rename_i hge
    obtain ⟨r', hr, _⟩ := chainFrom_head (hlc f ht) hge
    simp only [TOK]; exact ⟨ht, by rw [hr]; simp⟩
  · simpa [TOK] using ht

theorem sinv_rdNext {sh : Sh} {ts : List PC} (f cur : Nat) (acc : List Nat) (ch : Bool) (i : Nat) (h : i < ts.length)
    (hp : ts[i] = .rdNext f cur acc) (hs : SInv (sh, ts)) (hA : ∀ g, AInv g (sh, ts)) :
    SInv ((act sh (.rdNext f cur acc) ch).1, ts.set i (act sh (.rdNext f cur acc) ch).2.1) := by
  sq_prep
  simp only [act]
  refine sinv_quiet hs i h _ rfl rfl (fun g => ⟨rfl, rfl, rfl, rfl⟩) hkl ?_
  split
  · rename_i hge
    simp only [TOK]; exact ⟨ht.1, chainFrom_next_mem (hlc f ht.1) cur ht.2 hge⟩
  · simpa [TOK] using ht.1

theorem sinv_owS {sh : Sh} {ts : List PC} (f : Nat) (ch : Bool) (i : Nat) (h : i < ts.length)
    (hp : ts[i] = .owS f) (hs : SInv (sh, ts)) (hA : ∀ g, AInv g (sh, ts)) :
    SInv ((act sh (.owS f) ch).1, ts.set i (act sh (.owS f) ch).2.1) := by
  have hx : PC.holdsX f ts[i] = true := by rw [hp]; simp [PC.holdsX, PC.xE]
  have hxe : PC.xE f ts[i] = true := by rw [hp]; simp [PC.xE]
  obtain ⟨a1, a2, a3, a4, a5, a6, a7⟩ := hs
  simp only [act]
  refine sinv_step_x ⟨a1, a2, a3, a4, a5, a6, a7⟩ hA i h f _ hx (by simpa using a1) (by simpa using a2) ?_ ?_ ?_ ?_ ?_ ?_ ?_ ?_
  · intro g; by_cases hg : g = f
    · subst hg; simp
    · rw [setA_a_other _ _ _ _ hg]; exact a3 g
  · intro g; by_cases hg : g = f
    · subst hg; simp
    · rw [setA_a_other _ _ _ _ hg]; simpa using a4 g
  · intro g; by_cases hg : g = f
    · subst hg; simp [ChainFrom]
    · rw [setA_a_other _ _ _ _ hg]; simpa using a5 g
  · intro g; by_cases hg : g = f
    · subst hg; simp
    · rw [setA_a_other _ _ _ _ hg]; exact a6 g
  · simp [TOK]
  · intro g hg; exact setA_a_other _ _ _ _ hg
  · intro s; left; rfl
  · intro hh; rw [hxe] at hh; simp at hh

/-- a step of an exclusive holder of `f` that changes only fields of anchor `f` other than its chain, keeps `start` unless it drops `live`,
and may clear `live` or `key` -/
theorem sinv_anchor_only {sh : Sh} {ts : List PC} (hs : SInv (sh, ts)) (hA : ∀ g, AInv g (sh, ts)) (i : Nat) (h : i < ts.length) (f : Nat)
    (a' : Anchor) (p' : PC) (hxe : PC.xE f ts[i] = true)
    (hc : a'.chain = (sh.a f).chain) (hw : a'.writer = (sh.a f).writer)
    (hl : a'.live = true → (sh.a f).live = true ∧ a'.start = (sh.a f).start)
    (htok : TOK i (sh.setA f a') p') : SInv (sh.setA f a', ts.set i p') := by
  have hx : PC.holdsX f ts[i] = true := by simp [PC.holdsX, hxe]
  have hwE := xE_writer (hA f) i h hxe
  obtain ⟨a1, a2, a3, a4, a5, a6, a7⟩ := hs
  simp only at a1 a2 a3 a4 a5 a6
  refine sinv_step_x ⟨a1, a2, a3, a4, a5, a6, a7⟩ hA i h f _ hx (by simpa using a1) (by simpa using a2) ?_ ?_ ?_ ?_ htok ?_ ?_ ?_
  · intro g; by_cases hg : g = f
    · subst hg; simp only [setA_a_same, hc]; exact a3 g
    · rw [setA_a_other _ _ _ _ hg]; exact a3 g
  · intro g; by_cases hg : g = f
    · subst hg; simp only [setA_a_same, hc, setA_s]; exact a4 g
    · rw [setA_a_other _ _ _ _ hg]; simpa using a4 g
  · intro g; by_cases hg : g = f
    · subst hg; simp only [setA_a_same, setA_slices, hc]; intro hl'; rw [(hl hl').2]; exact a5 g (hl hl').1
    · rw [setA_a_other _ _ _ _ hg]; simpa using a5 g
  · intro g; by_cases hg : g = f
    · subst hg; simp only [setA_a_same]; intro _; right; rw [hw]; exact hwE
    · rw [setA_a_other _ _ _ _ hg]; exact a6 g
  · intro g hg; exact setA_a_other _ _ _ _ hg
  · intro s; left; rfl
  · intro hh; rw [hxe] at hh; simp at hh

theorem sinv_fcSt {sh : Sh} {ts : List PC} (f : Nat) (sp : Int) (r : Ret) (ch : Bool) (i : Nat) (h : i < ts.length)
    (hp : ts[i] = .fcSt f sp r) (hs : SInv (sh, ts)) (hA : ∀ g, AInv g (sh, ts)) :
    SInv ((act sh (.fcSt f sp r) ch).1, ts.set i (act sh (.fcSt f sp r) ch).2.1) := by
  sq_prep
  simp only [act]
  refine sinv_anchor_only hs hA i h f _ _ (by rw [hp]; simp [PC.xE]) rfl rfl (by simp) ?_
  split
  · rename_i hge
    simp only [TOK, setA_a_same, setA_slices]
    refine ⟨trivial, ?_⟩
    have := hlc f ht
    rwa [Int.toNat_of_nonneg hge]
  · simp [TOK]

theorem sinv_rwStart {sh : Sh} {ts : List PC} (f : Nat) (r : Ret) (ch : Bool) (i : Nat) (h : i < ts.length)
    (hp : ts[i] = .rwStart f r) (hs : SInv (sh, ts)) (hA : ∀ g, AInv g (sh, ts)) :
    SInv ((act sh (.rwStart f r) ch).1, ts.set i (act sh (.rwStart f r) ch).2.1) := by
  simp only [act]
  exact sinv_anchor_only hs hA i h f _ _ (by rw [hp]; simp [PC.xE]) rfl rfl (by simp) (by simp [TOK])

theorem sinv_rwSplice {sh : Sh} {ts : List PC} (f : Nat) (r : Ret) (ch : Bool) (i : Nat) (h : i < ts.length)
    (hp : ts[i] = .rwSplice f r) (hs : SInv (sh, ts)) (hA : ∀ g, AInv g (sh, ts)) :
    SInv ((act sh (.rwSplice f r) ch).1, ts.set i (act sh (.rwSplice f r) ch).2.1) := by
  simp only [act]
  exact sinv_anchor_only hs hA i h f _ _ (by rw [hp]; simp [PC.xE]) rfl rfl (by simp) (by simp [TOK])

/-- a step of an exclusive holder of `f` that rewrites one slice it owns (through the anchor or privately), keeping the owner and,
for a slice inside a chain, the `next` pointer -/
theorem sinv_setS {sh : Sh} {ts : List PC} (hs : SInv (sh, ts)) (hA : ∀ g, AInv g (sh, ts)) (i : Nat) (h : i < ts.length) (f : Nat)
    (m : Nat) (x : Slice) (p' : PC) (hx : PC.holdsX f ts[i] = true)
    (ho : x.owner = (sh.s m).owner) (hown : (sh.s m).owner = .anchor f ∨ (sh.s m).owner = .priv i)
    (hnext : x.next = (sh.s m).next ∨ (sh.s m).owner = .priv i)
    (htok : TOK i (sh.setS m x) p') : SInv (sh.setS m x, ts.set i p') := by
  obtain ⟨a1, a2, a3, a4, a5, a6, a7⟩ := hs
  simp only at a1 a2 a3 a4 a5 a6
  have hown' : ∀ s, ((sh.setS m x).s s).owner = (sh.s s).owner := by
    intro s; by_cases e : s = m
    · subst e; simp [ho]
    · rw [setS_s_other _ _ _ _ e]
  refine sinv_step_x ⟨a1, a2, a3, a4, a5, a6, a7⟩ hA i h f _ hx (by simpa using a1) ?_ (by simpa using a3) ?_ ?_ (by simpa using a6) htok ?_ ?_ ?_
  · intro s hsm; rw [hown']; exact a2 s (by simpa using hsm)
  · intro g s hsm; rw [hown']; exact a4 g s (by simpa using hsm)
  · intro g hl
    simp only [setS_a] at hl ⊢
    refine chainFrom_congr ?_ (a5 g hl)
    intro y hy
    by_cases e : y = m
    · subst e
      have hoy := a4 g y hy
      rcases hnext with hn | hn
      · simp [setS_slices, hn, Sh.s]
      · rw [hoy] at hn; simp at hn
    · simp [setS_slices, upd, e]
  · intro g _; rfl
  · intro s; by_cases e : s = m
    · subst e; right; rcases hown with o | o
      · exact Or.inl o
      · exact Or.inr (Or.inl o)
    · left; exact setS_s_other _ _ _ _ e
  · intro _; exact ⟨rfl, fun s hs => hs⟩

theorem sinv_fcClrS {sh : Sh} {ts : List PC} (f cur : Nat) (nx sp : Int) (r : Ret) (ch : Bool) (i : Nat) (h : i < ts.length)
    (hp : ts[i] = .fcClrS f cur nx sp r) (hs : SInv (sh, ts)) (hA : ∀ g, AInv g (sh, ts)) :
    SInv ((act sh (.fcClrS f cur nx sp r) ch).1, ts.set i (act sh (.fcClrS f cur nx sp r) ch).2.1) := by
  sq_prep
  obtain ⟨hl, rest, hr, hc⟩ := ht
  have hcur : (sh.s cur).owner = .anchor f := hs.chain_own f cur (by rw [hr]; simp)
  have hnd := hs.chain_nodup f
  simp only [] at hnd
  simp only [act]
  refine sinv_setS hs hA i h f cur _ _ (by rw [hp]; simp [PC.holdsX, PC.xE]) rfl (Or.inl hcur) (Or.inl rfl) ?_
  simp only [TOK, setS_a]
  refine ⟨hl, rest, hr, chainFrom_congr ?_ hc⟩
  intro y hy
  have : y ≠ cur := by intro e; subst e; rw [hr] at hnd; simp at hnd; exact hnd.1 hy
  simp [setS_slices, upd, this]

theorem sinv_asClrS {sh : Sh} {ts : List PC} (f : Nat) (app : Bool) (last : Int) (s n : Nat) (ch : Bool) (i : Nat) (h : i < ts.length)
    (hp : ts[i] = .asClrS f app last s n) (hs : SInv (sh, ts)) (hA : ∀ g, AInv g (sh, ts)) :
    SInv ((act sh (.asClrS f app last s n) ch).1, ts.set i (act sh (.asClrS f app last s n) ch).2.1) := by
  sq_prep
  simp only [act]
  refine sinv_setS hs hA i h f s _ _ (by rw [hp]; cases app <;> simp [PC.holdsX, PC.xE, PC.xA]) rfl (Or.inr ht.2.2) (Or.inl rfl) ?_
  simp only [TOK, setS_a, setS_s_same]
  exact ht

theorem sinv_asClrN {sh : Sh} {ts : List PC} (f : Nat) (app : Bool) (last : Int) (s n : Nat) (ch : Bool) (i : Nat) (h : i < ts.length)
    (hp : ts[i] = .asClrN f app last s n) (hs : SInv (sh, ts)) (hA : ∀ g, AInv g (sh, ts)) :
    SInv ((act sh (.asClrN f app last s n) ch).1, ts.set i (act sh (.asClrN f app last s n) ch).2.1) := by
  sq_prep
  simp only [act]
  refine sinv_setS hs hA i h f s _ _ (by rw [hp]; cases app <;> simp [PC.holdsX, PC.xE, PC.xA]) rfl (Or.inr ht.2.2) (Or.inr ht.2.2) ?_
  simp only [TOK, setS_a, setS_s_same]
  exact ⟨ht.1, ht.2.1, ht.2.2, trivial⟩

theorem sinv_asSize {sh : Sh} {ts : List PC} (f : Nat) (app : Bool) (last : Int) (s n : Nat) (ch : Bool) (i : Nat) (h : i < ts.length)
    (hp : ts[i] = .asSize f app last s n) (hs : SInv (sh, ts)) (hA : ∀ g, AInv g (sh, ts)) :
    SInv ((act sh (.asSize f app last s n) ch).1, ts.set i (act sh (.asSize f app last s n) ch).2.1) := by
  sq_prep
  simp only [act]
  refine sinv_setS hs hA i h f s _ _ (by rw [hp]; cases app <;> simp [PC.holdsX, PC.xE, PC.xA]) rfl (Or.inr ht.2.2.1) (Or.inl rfl) ?_
  simp only [TOK, setS_a, setS_s_same]
  exact ht

/-- freeChainAt(): the slice just cleared goes back to the free pool (StoreMapCleaner) and leaves the chain -/
theorem sinv_fcClrN {sh : Sh} {ts : List PC} (f cur : Nat) (nx sp : Int) (r : Ret) (ch : Bool) (i : Nat) (h : i < ts.length)
    (hp : ts[i] = .fcClrN f cur nx sp r) (hs : SInv (sh, ts)) (hA : ∀ g, AInv g (sh, ts)) :
    SInv ((act sh (.fcClrN f cur nx sp r) ch).1, ts.set i (act sh (.fcClrN f cur nx sp r) ch).2.1) := by
  sq_prep
  obtain ⟨hl, rest, hr, hc⟩ := ht
  have hx : PC.holdsX f ts[i] = true := by rw [hp]; simp [PC.holdsX, PC.xE]
  have hxe : PC.xE f ts[i] = true := by rw [hp]; simp [PC.xE]
  obtain ⟨a1, a2, a3, a4, a5, a6, a7⟩ := hs
  simp only at a1 a2 a3 a4 a5 a6
  have hcur : (sh.s cur).owner = .anchor f := a4 f cur (by rw [hr]; simp)
  have hnd := a3 f
  rw [hr] at hnd
  have hnotin : cur ∉ rest := (List.nodup_cons.mp hnd).1
  have hnp : cur ∉ sh.pool := by intro hm; have := a2 cur hm; rw [hcur] at this; simp at this
  simp only [act]
  -- name the new state
  generalize hsh' : ({ (sh.setS cur { sh.s cur with next := -1, owner := .free }).setA f { sh.a f with chain := (sh.a f).chain.tail } with
      pool := cur :: sh.pool } : Sh) = sh'
  have e_pool : sh'.pool = cur :: sh.pool := by rw [← hsh']
  have e_s_cur : (sh'.s cur).owner = .free := by rw [← hsh']; simp [Sh.s, Sh.setA, Sh.setS]
  have e_s : ∀ s, s ≠ cur → sh'.s s = sh.s s := by intro s hne; rw [← hsh']; simp [Sh.s, Sh.setA, Sh.setS, upd, hne]
  have hr' : (sh.anchors f).chain = cur :: rest := hr
  have e_af : sh'.a f = { sh.a f with chain := rest } := by rw [← hsh']; simp [Sh.a, Sh.setA, Sh.setS, hr']
  have e_ag : ∀ g, g ≠ f → sh'.a g = sh.a g := by intro g hg; rw [← hsh']; simp [Sh.a, Sh.setA, Sh.setS, upd, hg]
  have e_next : ∀ s, s ≠ cur → (sh'.slices s).next = (sh.slices s).next := by intro s hne; exact congrArg Slice.next (e_s s hne)
  refine sinv_step_x ⟨a1, a2, a3, a4, a5, a6, a7⟩ hA i h f _ hx ?_ ?_ ?_ ?_ ?_ ?_ ?_ e_ag ?_ ?_
  · rw [e_pool]; exact List.nodup_cons.mpr ⟨hnp, a1⟩
  · intro s hsm; rw [e_pool] at hsm
    rcases List.mem_cons.mp hsm with e | e
    · rw [e]; exact e_s_cur
    · have : s ≠ cur := by intro e'; rw [e'] at e; exact hnp e
      rw [e_s s this]; exact a2 s e
  · intro g; by_cases hg : g = f
    · subst hg; rw [e_af]; exact (List.nodup_cons.mp hnd).2
    · rw [e_ag g hg]; exact a3 g
  · intro g s hsm; by_cases hg : g = f
    · subst hg; rw [e_af] at hsm; simp only at hsm
      have : s ≠ cur := by intro e'; rw [e'] at hsm; exact hnotin hsm
      rw [e_s s this]; exact a4 g s (by rw [hr]; simp [hsm])
    · rw [e_ag g hg] at hsm
      have ho := a4 g s hsm
      have : s ≠ cur := by intro e'; rw [e', hcur] at ho; simp only [Owner.anchor.injEq] at ho; exact hg ho.symm
      rw [e_s s this]; exact ho
  · intro g hlg; by_cases hg : g = f
    · subst hg; rw [e_af] at hlg; simp only at hlg; rw [hl] at hlg; simp at hlg
    · rw [e_ag g hg] at hlg ⊢
      refine chainFrom_congr ?_ (a5 g hlg)
      intro y hy
      have ho := a4 g y hy
      have : y ≠ cur := by intro e'; rw [e', hcur] at ho; simp only [Owner.anchor.injEq] at ho; exact hg ho.symm
      exact e_next y this
  · intro g; by_cases hg : g = f
    · subst hg; rw [e_af]; exact a6 g
    · rw [e_ag g hg]; exact a6 g
  · -- the walker's next position
    have hrest : ChainFrom sh'.slices nx rest := chainFrom_congr (fun y hy => e_next y (by intro e'; rw [e'] at hy; exact hnotin hy)) hc
    split
    · simp [TOK]
    · split
      · rename_i hge
        simp only [TOK, e_af]
        refine ⟨hl, ?_⟩
        rwa [Int.toNat_of_nonneg hge]
      · simp [TOK]
  · intro s; by_cases e : s = cur
    · right; left; rw [e]; exact hcur
    · left; exact e_s s e
  · intro hh; rw [hxe] at hh; simp at hh

end SquidModel.Ipc.StoreMap
