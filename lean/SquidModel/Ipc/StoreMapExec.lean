/-
Executable scheduler over the StoreMap model: sessions with op lists, a schedule of thread ids, one atomic operation (or one
call marker) per step; mirrors harness/c55.cc in mode A (every lock method is one step) so that the traces can be compared.
-/
import SquidModel.Ipc.StoreMap

namespace SquidModel.Ipc.StoreMap

structure Th where
  pc : PC
  pending : Option (Nat × String × Op)     -- the applicable call this thread is parked at (index in its op list, name)
  ops : List (Nat × String × Op)           -- the calls after it
  marker : Nat                             -- value of the thread's call marker
  cur : String                             -- name of the call in progress
  res : String

def applicable (pc : PC) (op : Op) : Bool :=
  match pc, op with
  | .idle, .OW .. | .idle, .OR .. | .idle, .FE _ | .idle, .FK _ => true
  | .holdW _ false _, .SK .. | .holdW _ false _, .SA => true
  | .holdW .., .AS _ | .holdW .., .CW | .holdW .., .AW => true
  | .holdR _, .RD | .holdR _, .CR | .holdR _, .CF => true
  | _, _ => false

/-- a thread at rest runs on to its next applicable call and parks at the marker store -/
def advance (t : Th) : Th :=
  if t.pc.isRest then
    let rec go : List (Nat × String × Op) → Th
      | [] => { t with pending := none, ops := [] }
      | (i, n, op) :: rest => if applicable t.pc op then { t with pending := some (i, n, op), ops := rest } else go rest
    go t.ops
  else t

def evString (tid : Nat) (e : Ev) : String := s!"{tid}:{e.obj}.{e.kind}.{e.old}>{e.new}"

structure Sys where
  sh : Sh
  ths : List Th
  log : List String    -- reversed

/-- how the real lock, run as one uninterrupted step, resolves the freedom of the specification -/
def chAtomic (sh : Sh) : PC → Bool
  | .orLock f _ | .fkLockS f _ _ => (sh.a f).writer != .D
  | _ => true

def addRes (t : Th) (r : Option String) : String :=
  match r with
  | some v => t.res ++ t.cur ++ "=" ++ v ++ ","
  | none => t.res

def stepSys (s : Sys) (tid : Nat) : Sys :=
  match s.ths[tid]? with
  | none => s
  | some t =>
    if t.pc.isRest then
      match t.pending with
      | none => s
      | some (i, n, op) =>
        let ev := s!"{tid}:c.store.{t.marker}>{i + 1}"
        match call tid s.sh t.pc op with
        | none => s      -- cannot happen: `pending` is applicable
        | some (sh', pc', r) =>
          let t1 := { t with pc := pc', pending := none, marker := i + 1, cur := n }
          let t2 := advance { t1 with res := addRes t1 r }
          { sh := sh', ths := s.ths.set tid t2, log := ev :: s.log }
    else
      let (sh', pc', ev, r) := act s.sh t.pc (chAtomic s.sh t.pc)
      let t2 := advance { t with pc := pc', res := addRes t r }
      { sh := sh', ths := s.ths.set tid t2, log := evString tid ev :: s.log }

def thDone (t : Th) : Bool := t.pc.isRest && t.pending.isNone
def allDone (s : Sys) : Bool := s.ths.all thDone

def drain : Nat → Sys → Sys
  | 0, s => s
  | fuel + 1, s => if allDone s then s else drain fuel ((List.range s.ths.length).foldl stepSys s)

def fmtAnchor (a : Anchor) : String :=
  let w := if a.writer == .none then 0 else 1
  let ap := if a.writer == .A then 1 else 0
  s!"{a.key},{b2n a.wtbf},{b2n a.halted},{u64 a.start},{u64 a.splice},l{a.readers}:{w}:{ap}:{a.readers}:{w}"

def initSys (n : Nat) (opsPer : List (List (String × Op))) : Sys :=
  let ths := opsPer.map fun ops =>
    advance { pc := .idle, pending := none, ops := (List.range ops.length).zip ops |>.map (fun (i, n, o) => (i, n, o)), marker := 0, cur := "", res := "" }
  { sh := Sh.init n, ths := ths, log := [] }

def render (n : Nat) (s : Sys) : String :=
  let log := if s.log.isEmpty then "-" else ",".intercalate s.log.reverse
  let res := ";".intercalate (s.ths.map fun t => if t.res.isEmpty then "-" else t.res)
  let fin := "|".intercalate ((List.range n).map fun f => fmtAnchor (s.sh.a f))
  let sl := "|".intercalate ((List.range n).map fun i => s!"{(s.sh.s i).size},{u64 (s.sh.s i).next}")
  let pool := if s.sh.pool.isEmpty then "-" else ".".intercalate (s.sh.pool.map toString)
  s!"log={log} res={res} final={fin} slices={sl} count={u64 s.sh.count} pool={pool} viol=-"

def runScenario (n : Nat) (opsPer : List (List (String × Op))) (schedule : List Nat) : String :=
  let s1 := schedule.foldl stepSys (initSys n opsPer)
  let total := (opsPer.map List.length).foldl (· + ·) 0
  render n (drain (40 * total + 40 + 8 * n * total) s1)

end SquidModel.Ipc.StoreMap

