/-
The invariant holds in the initial states (stack created full, or created empty with all pages in the hands of the threads),
hence in every reachable configuration. Also: facts about `IdSetMeasurements` (the tree is big enough for the capacity), the
flattened node index (`nodeAt`) and the packing of inner nodes.
-/
import SquidModel.Ipc.PageStackStep

namespace SquidModel.Ipc.PageStack

/-! ### the tree computed by `IdSetMeasurements` fits the capacity -/

theorem growLeaves_spec (f req n h k : Nat) (hn : n = 2 ^ k) (hh : h = k + 1) (hfuel : req ≤ 2 ^ (k + f)) :
    (growLeaves f req n h).1 = 2 ^ ((growLeaves f req n h).2 - 1) ∧ req ≤ (growLeaves f req n h).1 ∧
      k + 1 ≤ (growLeaves f req n h).2 ∧ (growLeaves f req n h).2 ≤ k + 1 + f := by
  induction f generalizing n h k with
  | zero =>
    simp only [growLeaves]
    subst hn; subst hh
    exact ⟨by simp, by simpa using hfuel, Nat.le_refl _, Nat.le_refl _⟩
  | succ f ih =>
    unfold growLeaves
    split
    · have := ih (n * 2) (h + 1) (k + 1) (by rw [hn, Nat.pow_succ]) (by omega) (by rw [show k + 1 + f = k + (f + 1) by omega]; exact hfuel)
      omega
    · subst hn; subst hh
      exact ⟨by simp, by omega, Nat.le_refl _, by omega⟩

/-- for every 32-bit capacity: at least one inner level, `2^H` leaves, enough bits for `cap` ids, and `treeHeight < 32`
(the `assert` at the end of the constructor) -/
theorem measure_fits (cap : Nat) (hcap : cap + 63 < 2 ^ 32) :
    1 ≤ (measure cap).innerLevelCount ∧ (measure cap).leafNodeCount = 2 ^ (measure cap).innerLevelCount ∧
      cap ≤ 64 * 2 ^ (measure cap).innerLevelCount ∧ (measure cap).treeHeight < 32 ∧
      (measure cap).treeHeight = (measure cap).innerLevelCount + 1 := by
  have hreq : (cap + 63) / 64 ≤ 2 ^ (1 + 27) := by
    have : (2:Nat) ^ 32 = 4294967296 := by decide
    have : (2:Nat) ^ (1 + 27) = 268435456 := by decide
    omega
  have := growLeaves_spec 27 ((cap + 63) / 64) 2 2 1 (by decide) (by decide) hreq
  have hmono : growLeaves 32 ((cap + 63) / 64) 2 2 = growLeaves 27 ((cap + 63) / 64) 2 2 := by
    -- more fuel does not change the result once the loop has stopped
    have key : ∀ f g req n h, req ≤ (growLeaves f req n h).1 → growLeaves (f + g) req n h = growLeaves f req n h := by
      intro f
      induction f with
      | zero =>
        intro g req n h hle
        simp only [growLeaves] at hle
        cases g with
        | zero => rfl
        | succ g => simp only [Nat.zero_add, growLeaves]; rw [if_neg (by omega)]
      | succ f ih =>
        intro g req n h hle
        rw [show f + 1 + g = (f + g) + 1 by omega]
        unfold growLeaves at hle ⊢
        split
        · rename_i hlt; rw [if_pos hlt] at hle; exact ih g req _ _ hle
        · rfl
    exact key 27 5 _ 2 2 this.2.1
  have hmod : (cap + (64 - 1)) % 4294967296 = cap + 63 := by
    have : (2:Nat) ^ 32 = 4294967296 := by decide
    omega
  unfold measure
  simp only [BitsPerLeaf, hmod, hmono]
  obtain ⟨h1, h2, h3, h4⟩ := this
  refine ⟨by omega, h1, ?_, by omega, by omega⟩
  rw [← h1]; omega

/-- above `2^32 - 64` the 32-bit addition wraps: e.g. for `2^32 - 1` pages the constructor builds a tree with two leaves -/
theorem measure_wraps : (measure 4294967295).leafNodeCount = 2 ∧ (measure 4294967295).requestedLeafNodeCount = 0 ∧
    ¬ (4294967295 ≤ 64 * 2 ^ (measure 4294967295).innerLevelCount) := by decide

/-! ### live nodes -/

theorem halfUp_le (k n m : Nat) (h : n ≤ 2 ^ (k + m)) : halfUp k n ≤ 2 ^ m := by
  induction k generalizing m with
  | zero => simpa [halfUp] using h
  | succ k ih =>
    unfold halfUp
    have := ih (m + 1) (by rw [show k + (m + 1) = k + 1 + m by omega]; exact h)
    rw [Nat.pow_succ] at this
    omega

/-- at most `2^l` nodes are live at level `l`; in particular only the root at level 0 -/
theorem liveCount_le (cap H l : Nat) (hl : l ≤ H) (hfit : cap ≤ 64 * 2 ^ H) : liveCount cap H l ≤ 2 ^ l := by
  unfold liveCount
  apply halfUp_le
  rw [show H - l + l = H by omega]
  simp only [BitsPerLeaf]
  omega

theorem liveCount_root (cap H : Nat) (hfit : cap ≤ 64 * 2 ^ H) : liveCount cap H 0 ≤ 1 := by
  simpa using liveCount_le cap H 0 (Nat.zero_le _) hfit

theorem liveCount_eq (cap H l : Nat) : liveCount cap H l = halfUp (H - l) ((cap + 63) / 64) := by
  simp [liveCount, BitsPerLeaf]

/-! ### created full -/

theorem fullTotal_dead (cap : Nat) (k o : Nat) (h : halfUp k ((cap + 63) / 64) ≤ o) : fullTotal cap k o = 0 := by
  induction k generalizing o with
  | zero =>
    simp only [halfUp] at h
    simp only [fullTotal, BitsPerLeaf]
    omega
  | succ k ih =>
    simp only [halfUp] at h
    simp only [fullTotal]
    rw [ih (2 * o) (by omega), ih (2 * o + 1) (by omega)]

theorem fullTotal_closed (cap : Nat) (k o : Nat) : fullTotal cap k o = min (64 * 2 ^ k) (cap - o * (64 * 2 ^ k)) := by
  induction k generalizing o with
  | zero => simp [fullTotal, BitsPerLeaf]
  | succ k ih =>
    simp only [fullTotal]
    rw [ih, ih]
    have e1 : 2 * o * (64 * 2 ^ k) = 2 * (o * (64 * 2 ^ k)) := by rw [Nat.mul_assoc]
    have e2 : (2 * o + 1) * (64 * 2 ^ k) = 2 * (o * (64 * 2 ^ k)) + 64 * 2 ^ k := by rw [Nat.add_mul, Nat.mul_assoc, Nat.one_mul]
    have e3 : o * (64 * 2 ^ (k + 1)) = 2 * (o * (64 * 2 ^ k)) := by
      rw [Nat.pow_succ, ← Nat.mul_assoc 64, Nat.mul_comm _ 2, ← Nat.mul_assoc o 2, Nat.mul_comm o 2, Nat.mul_assoc]
    have e4 : 64 * 2 ^ (k + 1) = 2 * (64 * 2 ^ k) := by rw [Nat.pow_succ]; omega
    rw [e1, e2, e3, e4]
    omega

theorem tsum_replicate_idle (f : Th → Nat) (hf : f ⟨.idle, []⟩ = 0) (n : Nat) : tsum f (List.replicate n ⟨.idle, []⟩) = 0 := by
  apply tsum_zero
  intro t ht
  rw [List.eq_of_mem_replicate ht]; exact hf

theorem inv_initFull (cap H n : Nat) (hH : 1 ≤ H) (hfit : cap ≤ 64 * 2 ^ H) :
    Inv cap H (Sh.full cap H, List.replicate n ⟨.idle, []⟩) := by
  have z1 : ∀ l o, tsum (fun t => resv H t l o) (List.replicate n ⟨.idle, []⟩) = 0 :=
    fun l o => tsum_replicate_idle _ (by simp [resv]) n
  have z2 : ∀ l o, tsum (fun t => pend t l o) (List.replicate n ⟨.idle, []⟩) = 0 :=
    fun l o => tsum_replicate_idle _ (by simp [pend]) n
  have z3 : ∀ id, tsum (fun t => owns t id) (List.replicate n ⟨.idle, []⟩) = 0 :=
    fun id => tsum_replicate_idle _ (by simp [owns]) n
  have z4 := tsum_replicate_idle prePush (by simp [prePush]) n
  have z5 := tsum_replicate_idle postPop (by simp [postPop]) n
  have z6 := tsum_replicate_idle outCount (by simp [outCount]) n
  have hleafpop : ∀ o, o * 64 < cap → pop64 (fullLeaf cap H o) = fullTotal cap 0 o := by
    intro o ho
    unfold fullLeaf
    rw [if_pos (by simpa [BitsPerLeaf] using ho)]
    apply pop64_two_pow_sub_one
    simp only [fullTotal, BitsPerLeaf]; omega
  refine ⟨?_, ?_, ?_, ?_, ?_, ?_⟩
  · intro t ht
    rw [List.eq_of_mem_replicate ht]; simp [WF]
  · intro l o d hl ho hd
    dsimp only
    rw [z1, z2]
    have hinner : (Sh.full cap H).inner l o = (fullTotal cap (H - l - 1) (2 * o), fullTotal cap (H - l - 1) (2 * o + 1)) := by
      simp only [Sh.full, fullInner]; rw [if_pos ho]
    have hside : side ((Sh.full cap H).inner l o) d = fullTotal cap (H - l - 1) (2 * o + d) := by
      rw [hinner]; unfold side
      have : d = 0 ∨ d = 1 := by omega
      rcases this with rfl | rfl <;> simp
    rw [hside]
    split
    · rename_i hlv
      unfold total
      split
      · rename_i hlH
        have hk : H - l - 1 = 0 := by omega
        rw [hk]
        have : (2 * o + d) * 64 < cap := by
          rw [hlH, liveCount_leaf] at hlv; omega
        simp only [Sh.full]
        rw [hleafpop _ this]; omega
      · rename_i hlH
        have hk : H - l - 1 = (H - (l + 1) - 1) + 1 := by omega
        simp only [Sh.full, fullInner]
        rw [if_pos hlv, hk]
        simp only [fullTotal]; omega
    · rename_i hlv
      apply fullTotal_dead
      rw [liveCount_eq, show H - (l + 1) = H - l - 1 by omega] at hlv
      omega
  · intro id
    dsimp only
    rw [z3]
    split
    · rename_i hid
      have ho : id / 64 * 64 < cap := by omega
      have : bit (Sh.full cap H) id = 1 := by
        have hl : (Sh.full cap H).leaf (id / 64) = 2 ^ (fullTotal cap 0 (id / 64)) - 1 := by
          simp only [Sh.full, fullLeaf]; rw [if_pos (by simpa [BitsPerLeaf] using ho)]
        have hlt : id % 64 < fullTotal cap 0 (id / 64) := by simp only [fullTotal, BitsPerLeaf]; omega
        unfold bit
        simp only [hl, Nat.testBit_two_pow_sub_one, hlt, decide_true, if_true]
      omega
    · rfl
  · intro o
    dsimp only
    simp only [Sh.full]
    constructor
    · unfold fullLeaf
      split
      · have : fullTotal cap 0 o ≤ 64 := by simp only [fullTotal, BitsPerLeaf]; omega
        have := Nat.pow_le_pow_right (n := 2) (by decide) this
        have : 0 < 2 ^ fullTotal cap 0 o := Nat.two_pow_pos _
        omega
      · split
        · decide
        · decide
    · intro hlive b hb
      rw [liveCount_leaf] at hlive
      unfold fullLeaf at hb
      rw [if_pos (by simp only [BitsPerLeaf]; omega), Nat.testBit_two_pow_sub_one] at hb
      have hb' := of_decide_eq_true hb
      simp only [fullTotal, BitsPerLeaf] at hb'
      omega
  · dsimp only
    rw [z4, z5]
    unfold total
    rw [if_neg (by omega)]
    simp only [Sh.full, fullInner]
    by_cases hc : cap = 0
    · subst hc
      have : ¬ (0 < liveCount 0 H 0) := by
        have h0 : ∀ k, halfUp k 0 = 0 := by
          intro k; induction k with
          | zero => rfl
          | succ k ih => simp [halfUp, ih]
        rw [liveCount_eq, show (0 + 63) / 64 = 0 by decide, h0]; omega
      rw [if_neg this]
      simp [BitsPerLeaf]
    · rw [if_pos (liveCount_pos cap H 0 (by omega))]
      have hk : H - 0 - 1 + 1 = H := by omega
      have := fullTotal_closed cap H 0
      rw [← hk] at this
      simp only [fullTotal] at this
      rw [hk] at this
      simp only [Nat.mul_zero, Nat.zero_mul, Nat.sub_zero, Nat.zero_add] at this ⊢
      omega
  · dsimp only
    rw [z6]; rfl

/-! ### created empty -/

def sumTo (N : Nat) (f : Nat → Nat) : Nat := ((List.range N).map f).sum

theorem sumTo_succ (N : Nat) (f : Nat → Nat) : sumTo (N + 1) f = sumTo N f + f N := by
  simp [sumTo, List.range_succ]

theorem sumTo_add (N : Nat) (f g : Nat → Nat) : sumTo N (fun i => f i + g i) = sumTo N f + sumTo N g := by
  induction N with
  | zero => rfl
  | succ N ih => rw [sumTo_succ, sumTo_succ, sumTo_succ, ih]; omega

theorem sumTo_zero (N : Nat) : sumTo N (fun _ => 0) = 0 := by
  induction N with
  | zero => rfl
  | succ N ih => rw [sumTo_succ, ih]

theorem sumTo_indicator (N a : Nat) : sumTo N (fun id => if a = id then 1 else 0) = if a < N then 1 else 0 := by
  induction N with
  | zero => rfl
  | succ N ih =>
    rw [sumTo_succ, ih]
    by_cases h1 : a < N
    · have : ¬ a = N := by omega
      simp [h1, this]; omega
    · by_cases h2 : a = N
      · simp [h2]
      · have : ¬ a < N + 1 := by omega
        simp [h1, h2, this]

theorem length_eq_sumTo_count (N : Nat) (l : List Nat) (h : ∀ a ∈ l, a < N) : l.length = sumTo N (fun id => l.count id) := by
  induction l with
  | nil =>
    simp only [List.length_nil, List.count_nil]
    induction N with
    | zero => rfl
    | succ N ih => rw [sumTo_succ]; simpa using ih (by intro a ha; cases ha)
  | cons a l ih =>
    have h1 := ih (fun b hb => h b (by simp [hb]))
    have h2 : sumTo N (fun id => (a :: l).count id) = sumTo N (fun id => l.count id + if a = id then 1 else 0) := by
      unfold sumTo
      congr 1
      apply List.map_congr_left
      intro id _
      rw [List.count_cons]
      by_cases e : a = id <;> simp [e]
    rw [h2, sumTo_add, sumTo_indicator, if_pos (h a (by simp)), List.length_cons, h1]

theorem sumTo_congr (N : Nat) (f g : Nat → Nat) (h : ∀ i, i < N → f i = g i) : sumTo N f = sumTo N g := by
  unfold sumTo
  congr 1
  apply List.map_congr_left
  intro i hi
  exact h i (List.mem_range.mp hi)

theorem sumTo_one (N : Nat) : sumTo N (fun _ => 1) = N := by
  induction N with
  | zero => rfl
  | succ N ih => rw [sumTo_succ, ih]

/-- pages partitioned among the threads: together they hold exactly `cap` pages -/
theorem partition_total_length (cap : Nat) (hs : List (List Nat)) (hp : Partition cap hs) :
    (hs.map List.length).sum = cap := by
  have hbound : ∀ h ∈ hs, ∀ a ∈ h, a < cap := by
    intro h hh a ha
    have := hp a
    by_cases hc : a < cap
    · exact hc
    · rw [if_neg hc] at this
      have hpos : 0 < h.count a := List.count_pos_iff.mpr ha
      have hmem : h.count a ∈ hs.map (fun h => h.count a) := List.mem_map.mpr ⟨h, hh, rfl⟩
      have := List.sum_eq_zero_iff_forall_eq_nat.mp this _ hmem
      omega
  have key : ∀ (gs : List (List Nat)), (∀ h ∈ gs, ∀ a ∈ h, a < cap) →
      (gs.map List.length).sum = sumTo cap (fun id => (gs.map fun h => h.count id).sum) := by
    intro gs
    induction gs with
    | nil =>
      intro _
      simp only [List.map_nil, List.sum_nil]
      exact (sumTo_zero cap).symm
    | cons g gs ih =>
      intro hb
      simp only [List.map_cons, List.sum_cons]
      rw [sumTo_add, ← ih (fun h hh => hb h (by simp [hh])), ← length_eq_sumTo_count cap g (hb g (by simp))]
  rw [key hs hbound]
  rw [sumTo_congr cap _ (fun _ => 1) (fun i hi => by have := hp i; rw [if_pos hi] at this; exact this)]
  exact sumTo_one cap

theorem tsum_map_idle (f : Th → Nat) (hs : List (List Nat)) :
    tsum f (hs.map fun h => ⟨.idle, h⟩) = (hs.map fun h => f ⟨.idle, h⟩).sum := by
  unfold tsum
  rw [List.map_map]
  rfl

theorem inv_initEmpty (cap H : Nat) (hH : 1 ≤ H) (hs : List (List Nat)) (hp : Partition cap hs) :
    Inv cap H (Sh.empty, hs.map fun h => ⟨.idle, h⟩) := by
  have z : ∀ (f : Th → Nat), (∀ h, f ⟨.idle, h⟩ = 0) → tsum f (hs.map fun h => ⟨.idle, h⟩) = 0 := by
    intro f hf
    apply tsum_zero
    intro t ht
    obtain ⟨h, _, rfl⟩ := List.mem_map.mp ht
    exact hf h
  have hpop0 : pop64 0 = 0 := by decide
  refine ⟨?_, ?_, ?_, ?_, ?_, ?_⟩
  · intro t ht
    obtain ⟨h, _, rfl⟩ := List.mem_map.mp ht
    simp [WF]
  · intro l o d hl ho hd
    dsimp only
    rw [z _ (fun h => by simp [resv]), z _ (fun h => by simp [pend])]
    have hs0 : side (Sh.empty.inner l o) d = 0 := by simp [Sh.empty, side]
    have ht0 : total H Sh.empty (l + 1) (2 * o + d) = 0 := by
      unfold total; simp only [Sh.empty]; split
      · exact hpop0
      · rfl
    rw [hs0, ht0]
    split <;> rfl
  · intro id
    dsimp only
    have hb : bit Sh.empty id = 0 := by simp [bit, Sh.empty]
    have : tsum (fun t => owns t id) (hs.map fun h => ⟨.idle, h⟩) = (hs.map fun h => h.count id).sum := by
      rw [tsum_map_idle]
      congr 1
    rw [hb, this]
    have := hp id
    split <;> rename_i hc
    · rw [if_pos hc] at this; omega
    · rw [if_neg hc] at this; exact this
  · intro o
    simp only [Sh.empty]
    exact ⟨by decide, fun _ b hb => by simp at hb⟩
  · dsimp only
    rw [z _ (fun h => by simp [prePush]), z _ (fun h => by simp [postPop])]
    unfold total
    rw [if_neg (by omega)]
    rfl
  · dsimp only
    have : tsum outCount (hs.map fun h => ⟨.idle, h⟩) = (hs.map List.length).sum := by
      rw [tsum_map_idle]
      congr 1
    rw [this, partition_total_length cap hs hp]
    simp [Sh.empty]

/-- the invariant holds in every reachable configuration -/
theorem inv_reachable {cap H : Nat} (hH : 1 ≤ H) (hfit : cap ≤ 64 * 2 ^ H) {c : Cfg} (hr : Reachable cap H c) : Inv cap H c := by
  induction hr with
  | initFull n => exact inv_initFull cap H n hH hfit
  | initEmpty hs hp => exact inv_initEmpty cap H hH hs hp
  | step _ hs ih => exact inv_step hH (liveCount_root cap H hfit) ih hs

/-! ### the flattened array and the packed inner nodes -/

/-- `nodeAt`: distinct positions of the perfect tree map to distinct array slots -/
theorem nodeIndex_inj (l o l' o' : Nat) (ho : o < 2 ^ l) (ho' : o' < 2 ^ l') (h : idxInner l o = idxInner l' o') :
    l = l' ∧ o = o' := by
  unfold idxInner at h
  have hp : ∀ a b : Nat, a < b → 2 ^ a * 2 ≤ 2 ^ b := by
    intro a b hab
    rw [← Nat.pow_succ]
    exact Nat.pow_le_pow_right (by decide) hab
  have h1 : 0 < 2 ^ l := Nat.two_pow_pos _
  have h2 : 0 < 2 ^ l' := Nat.two_pow_pos _
  rcases Nat.lt_trichotomy l l' with hl | hl | hl
  · have := hp l l' hl; omega
  · subst hl; exact ⟨rfl, by omega⟩
  · have := hp l' l hl; omega

/-- `IdSetInnerNode::pack` is `(left << 32) | right` for 32-bit counters, and `Unpack` inverts it -/
theorem pack_eq_shift_or (a b : Nat) (hb : b < 2 ^ 32) : pack (a, b) = a <<< 32 ||| b := by
  unfold pack
  rw [Nat.shiftLeft_eq, Nat.mul_comm, show (4294967296 : Nat) = 2 ^ 32 by decide, ← Nat.two_pow_add_eq_or_of_lt hb]

theorem unpack_pack (a b : Nat) (hb : b < 2 ^ 32) : (pack (a, b) >>> 32, pack (a, b) % 2 ^ 32) = (a, b) := by
  unfold pack
  rw [Nat.shiftRight_eq_div_pow]
  have : (4294967296 : Nat) = 2 ^ 32 := by decide
  rw [this] at *
  have h32 : (2:Nat) ^ 32 = 4294967296 := by decide
  rw [h32] at *
  congr 1 <;> omega

/-- `innerPush`'s `fetch_add(increment)` adds one to exactly one counter (no carry between the halves) -/
theorem pack_add_left (a b : Nat) : pack (a, b) + pack (1, 0) = pack (a + 1, b) := by unfold pack; omega
theorem pack_add_right (a b : Nat) : pack (a, b) + pack (0, 1) = pack (a, b + 1) := by unfold pack; omega

end SquidModel.Ipc.PageStack
