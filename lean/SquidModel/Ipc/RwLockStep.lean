import SquidModel.Ipc.RwLockInv

namespace SquidModel.Ipc.RwLock
open PC

theorem cnt_disjoint_le (f g h : PC → Bool) (ts : List PC)
    (hd : ∀ p, f p = true → g p = true → False) (hf : ∀ p, f p = true → h p = true) (hg : ∀ p, g p = true → h p = true) :
    cnt f ts + cnt g ts ≤ cnt h ts := by
  unfold cnt
  induction ts with
  | nil => simp
  | cons a as ih =>
    simp only [List.countP_cons]
    have h1 := hd a; have h2 := hf a; have h3 := hg a
    cases hfa : f a <;> cases hga : g a <;> cases hha : h a <;> simp_all <;> omega

section
variable (ts : List PC)

theorem wX_le_fw : cnt PC.wX ts ≤ cnt PC.fw ts := cnt_le_of_imp _ _ ts (by intro p; cases p <;> simp [PC.wX, PC.fw])
theorem fw_le_inW : cnt PC.fw ts ≤ cnt PC.inW ts := cnt_le_of_imp _ _ ts (by intro p; cases p <;> simp [PC.fw, PC.inW])
theorem wset_le_fw : cnt PC.wset ts ≤ cnt PC.fw ts := cnt_le_of_imp _ _ ts (by intro p; cases p <;> simp [PC.wset, PC.fw])
theorem rOk_le_inR : cnt PC.rOk ts ≤ cnt PC.inR ts := cnt_le_of_imp _ _ ts (by intro p; cases p <;> simp [PC.rOk, PC.inR])
/-- first writer that is not strictly exclusive -/
def PC.fwo (p : PC) : Bool := PC.fw p && !PC.wX p
theorem fwo_wX_le_fw : cnt PC.fwo ts + cnt PC.wX ts ≤ cnt PC.fw ts :=
  cnt_disjoint_le _ _ _ ts (by intro p; cases p <;> simp [PC.fwo, PC.fw, PC.wX])
    (by intro p; cases p <;> simp [PC.fwo, PC.fw, PC.wX]) (by intro p; cases p <;> simp [PC.wX, PC.fw])
theorem aset_le_fw : cnt PC.aset ts ≤ cnt PC.fw ts := cnt_le_of_imp _ _ ts (by intro p; cases p <;> simp [PC.aset, PC.fw])
/-- first writer that is not in the certainly-appending class -/
def PC.fwna (p : PC) : Bool := PC.fw p && !PC.aset p
theorem fwna_aset_le_fw : cnt PC.fwna ts + cnt PC.aset ts ≤ cnt PC.fw ts :=
  cnt_disjoint_le _ _ _ ts (by intro p; cases p <;> simp [PC.fwna, PC.fw, PC.aset])
    (by intro p; cases p <;> simp [PC.fwna, PC.fw, PC.aset]) (by intro p; cases p <;> simp [PC.aset, PC.fw])
theorem amay_wX_le_fw : cnt PC.amay ts + cnt PC.wX ts ≤ cnt PC.fw ts :=
  cnt_disjoint_le _ _ _ ts (by intro p; cases p <;> simp [PC.amay, PC.wX])
    (by intro p; cases p <;> simp [PC.amay, PC.fw]) (by intro p; cases p <;> simp [PC.wX, PC.fw])
end

/-- the facts about one thread index used in every case of the preservation proof -/
structure Facts (ts : List PC) (i : Nat) (h : i < ts.length) (p' : PC) : Prop where
  cR : cnt PC.inR (ts.set i p') + (if PC.inR ts[i] then 1 else 0) = cnt PC.inR ts + (if PC.inR p' then 1 else 0)
  cD : cnt PC.rdr (ts.set i p') + (if PC.rdr ts[i] then 1 else 0) = cnt PC.rdr ts + (if PC.rdr p' then 1 else 0)
  cW : cnt PC.inW (ts.set i p') + (if PC.inW ts[i] then 1 else 0) = cnt PC.inW ts + (if PC.inW p' then 1 else 0)
  cF : cnt PC.fw (ts.set i p') + (if PC.fw ts[i] then 1 else 0) = cnt PC.fw ts + (if PC.fw p' then 1 else 0)
  cS : cnt PC.wset (ts.set i p') + (if PC.wset ts[i] then 1 else 0) = cnt PC.wset ts + (if PC.wset p' then 1 else 0)
  cA : cnt PC.amay (ts.set i p') + (if PC.amay ts[i] then 1 else 0) = cnt PC.amay ts + (if PC.amay p' then 1 else 0)
  cU : cnt PC.uset (ts.set i p') + (if PC.uset ts[i] then 1 else 0) = cnt PC.uset ts + (if PC.uset p' then 1 else 0)
  cX : cnt PC.wX (ts.set i p') + (if PC.wX ts[i] then 1 else 0) = cnt PC.wX ts + (if PC.wX p' then 1 else 0)
  cO : cnt PC.rOk (ts.set i p') + (if PC.rOk ts[i] then 1 else 0) = cnt PC.rOk ts + (if PC.rOk p' then 1 else 0)
  pR : PC.inR ts[i] = true → 0 < cnt PC.inR ts
  pD : PC.rdr ts[i] = true → 0 < cnt PC.rdr ts
  pW : PC.inW ts[i] = true → 0 < cnt PC.inW ts
  pF : PC.fw ts[i] = true → 0 < cnt PC.fw ts
  pS : PC.wset ts[i] = true → 0 < cnt PC.wset ts
  pA : PC.amay ts[i] = true → 0 < cnt PC.amay ts
  pU : PC.uset ts[i] = true → 0 < cnt PC.uset ts
  s1 : cnt PC.wX ts ≤ cnt PC.fw ts
  s2 : cnt PC.fw ts ≤ cnt PC.inW ts
  s3 : cnt PC.wset ts ≤ cnt PC.fw ts
  s4 : cnt PC.rOk ts ≤ cnt PC.inR ts
  s5 : cnt PC.amay ts + cnt PC.wX ts ≤ cnt PC.fw ts

theorem facts (ts : List PC) (i : Nat) (h : i < ts.length) (p' : PC) : Facts ts i h p' :=
  ⟨cnt_set _ ts i h p', cnt_set _ ts i h p', cnt_set _ ts i h p', cnt_set _ ts i h p', cnt_set _ ts i h p',
   cnt_set _ ts i h p', cnt_set _ ts i h p', cnt_set _ ts i h p', cnt_set _ ts i h p',
   cnt_pos_of_mem _ ts i h, cnt_pos_of_mem _ ts i h, cnt_pos_of_mem _ ts i h, cnt_pos_of_mem _ ts i h,
   cnt_pos_of_mem _ ts i h, cnt_pos_of_mem _ ts i h, cnt_pos_of_mem _ ts i h,
   wX_le_fw ts, fw_le_inW ts, wset_le_fw ts, rOk_le_inR ts, amay_wX_le_fw ts⟩

theorem inv_begin {s : Sh} {ts : List PC} (hi : Inv (s, ts)) (i : Nat) (h : i < ts.length) (op : Op) (p' : PC)
    (hb : begin ts[i] op = some p') : Inv (s, ts.set i p') := by
  obtain ⟨rl, wl, rd, fw1, wr, ap, apA, up, up1, excl⟩ := hi
  simp only at rl wl rd fw1 wr ap apA up up1 excl
  obtain ⟨cR, cD, cW, cF, cS, cA, cU, cX, cO, pR, pD, pW, pF, pS, pA, pU, s1, s2, s3, s4, s5⟩ := facts ts i h p'
  have cAs := cnt_set PC.aset ts i h p'
  have pAs := cnt_pos_of_mem PC.aset ts i h
  have s7 := aset_le_fw ts
  generalize hp : ts[i] = p at *
  cases p <;> cases op <;> simp only [begin] at hb <;> cases hb <;>
    (constructor <;> simp only [] <;>
     simp_all [PC.inR, PC.inW, PC.rdr, PC.fw, PC.wset, PC.amay, PC.uset, PC.wX, PC.rOk, PC.aset] <;> omega)


theorem cnt_set_eq (f : PC → Bool) (ts : List PC) (i : Nat) (h : i < ts.length) (p : PC) :
    cnt f (ts.set i p) = cnt f ts + (if f p then 1 else 0) - (if f ts[i] then 1 else 0) := by
  have := cnt_set f ts i h p
  omega

set_option hygiene false in
/-- common proof of one case of `inv_act` -/
macro "rw_case" : tactic => `(tactic| (
  obtain ⟨rl, wl, rd, fw1, wr, ap, apA, up, up1, excl⟩ := hi
  simp only at rl wl rd fw1 wr ap apA up up1 excl
  have E := fun (f : PC → Bool) (p' : PC) => cnt_set_eq f ts i h p'
  have pR := cnt_pos_of_mem PC.inR ts i h
  have pD := cnt_pos_of_mem PC.rdr ts i h
  have pW := cnt_pos_of_mem PC.inW ts i h
  have pF := cnt_pos_of_mem PC.fw ts i h
  have pS := cnt_pos_of_mem PC.wset ts i h
  have pA := cnt_pos_of_mem PC.amay ts i h
  have pU := cnt_pos_of_mem PC.uset ts i h
  have pX := cnt_pos_of_mem PC.wX ts i h
  have pO := cnt_pos_of_mem PC.rOk ts i h
  have s1 := wX_le_fw ts
  have s2 := fw_le_inW ts
  have s3 := wset_le_fw ts
  have s4 := rOk_le_inR ts
  have s5 := amay_wX_le_fw ts
  have s6 := fwo_wX_le_fw ts
  have s7 := aset_le_fw ts
  have pFo := cnt_pos_of_mem PC.fwo ts i h
  have pAs := cnt_pos_of_mem PC.aset ts i h
  have s8 := fwna_aset_le_fw ts
  have pFna := cnt_pos_of_mem PC.fwna ts i h
  rw [hp] at E pR pD pW pF pS pA pU pX pO pFo pAs pFna
  simp only [act]
  (try split) <;>
    (constructor <;> simp only [] <;>
     simp_all [PC.inR, PC.inW, PC.rdr, PC.fw, PC.wset, PC.amay, PC.uset, PC.wX, PC.rOk, PC.fwo, PC.aset, PC.fwna] <;> omega)))

theorem inv_act_ls0 {s : Sh} {ts : List PC} (hi : Inv (s, ts)) (i : Nat) (h : i < ts.length) (hp : ts[i] = .ls0) :
    Inv ((act s .ls0).1, ts.set i (act s .ls0).2.1) := by rw_case

theorem inv_act_ls1 {s : Sh} {ts : List PC} (hi : Inv (s, ts)) (i : Nat) (h : i < ts.length) (hp : ts[i] = .ls1) :
    Inv ((act s .ls1).1, ts.set i (act s .ls1).2.1) := by rw_case

theorem inv_act_ls2 {s : Sh} {ts : List PC} (hi : Inv (s, ts)) (i : Nat) (h : i < ts.length) (hp : ts[i] = .ls2) :
    Inv ((act s .ls2).1, ts.set i (act s .ls2).2.1) := by rw_case

theorem inv_act_lsOk {s : Sh} {ts : List PC} (hi : Inv (s, ts)) (i : Nat) (h : i < ts.length) (hp : ts[i] = .lsOk) :
    Inv ((act s .lsOk).1, ts.set i (act s .lsOk).2.1) := by rw_case

theorem inv_act_lsFail {s : Sh} {ts : List PC} (hi : Inv (s, ts)) (i : Nat) (h : i < ts.length) (hp : ts[i] = .lsFail) :
    Inv ((act s .lsFail).1, ts.set i (act s .lsFail).2.1) := by rw_case

theorem inv_act_lh0 {s : Sh} {ts : List PC} (hi : Inv (s, ts)) (i : Nat) (h : i < ts.length) (hp : ts[i] = .lh0) :
    Inv ((act s .lh0).1, ts.set i (act s .lh0).2.1) := by rw_case

theorem inv_act_lh1 {s : Sh} {ts : List PC} (hi : Inv (s, ts)) (i : Nat) (h : i < ts.length) (hp : ts[i] = .lh1) :
    Inv ((act s .lh1).1, ts.set i (act s .lh1).2.1) := by rw_case

theorem inv_act_lh2 {s : Sh} {ts : List PC} (hi : Inv (s, ts)) (i : Nat) (h : i < ts.length) (hp : ts[i] = .lh2) :
    Inv ((act s .lh2).1, ts.set i (act s .lh2).2.1) := by rw_case

theorem inv_act_lhOk {s : Sh} {ts : List PC} (hi : Inv (s, ts)) (i : Nat) (h : i < ts.length) (hp : ts[i] = .lhOk) :
    Inv ((act s .lhOk).1, ts.set i (act s .lhOk).2.1) := by rw_case

theorem inv_act_lhFail {s : Sh} {ts : List PC} (hi : Inv (s, ts)) (i : Nat) (h : i < ts.length) (hp : ts[i] = .lhFail) :
    Inv ((act s .lhFail).1, ts.set i (act s .lhFail).2.1) := by rw_case

theorem inv_act_lh3 {s : Sh} {ts : List PC} (hi : Inv (s, ts)) (i : Nat) (h : i < ts.length) (hp : ts[i] = .lh3) :
    Inv ((act s .lh3).1, ts.set i (act s .lh3).2.1) := by rw_case

theorem inv_act_lhU1 {s : Sh} {ts : List PC} (hi : Inv (s, ts)) (i : Nat) (h : i < ts.length) (hp : ts[i] = .lhU1) :
    Inv ((act s .lhU1).1, ts.set i (act s .lhU1).2.1) := by rw_case

theorem inv_act_lhU2 {s : Sh} {ts : List PC} (hi : Inv (s, ts)) (i : Nat) (h : i < ts.length) (hp : ts[i] = .lhU2) :
    Inv ((act s .lhU2).1, ts.set i (act s .lhU2).2.1) := by rw_case

theorem inv_act_le0 {s : Sh} {ts : List PC} (hi : Inv (s, ts)) (i : Nat) (h : i < ts.length) (hp : ts[i] = .le0) :
    Inv ((act s .le0).1, ts.set i (act s .le0).2.1) := by rw_case

theorem inv_act_le3 {s : Sh} {ts : List PC} (hi : Inv (s, ts)) (i : Nat) (h : i < ts.length) (hp : ts[i] = .le3) :
    Inv ((act s .le3).1, ts.set i (act s .le3).2.1) := by rw_case

theorem inv_act_leOk {s : Sh} {ts : List PC} (hi : Inv (s, ts)) (i : Nat) (h : i < ts.length) (hp : ts[i] = .leOk) :
    Inv ((act s .leOk).1, ts.set i (act s .leOk).2.1) := by rw_case

theorem inv_act_leFail {s : Sh} {ts : List PC} (hi : Inv (s, ts)) (i : Nat) (h : i < ts.length) (hp : ts[i] = .leFail) :
    Inv ((act s .leFail).1, ts.set i (act s .leFail).2.1) := by rw_case

theorem inv_act_leNF {s : Sh} {ts : List PC} (hi : Inv (s, ts)) (i : Nat) (h : i < ts.length) (hp : ts[i] = .leNF) :
    Inv ((act s .leNF).1, ts.set i (act s .leNF).2.1) := by rw_case

theorem inv_act_us1 {s : Sh} {ts : List PC} (hi : Inv (s, ts)) (i : Nat) (h : i < ts.length) (hp : ts[i] = .us1) :
    Inv ((act s .us1).1, ts.set i (act s .us1).2.1) := by rw_case

theorem inv_act_us2 {s : Sh} {ts : List PC} (hi : Inv (s, ts)) (i : Nat) (h : i < ts.length) (hp : ts[i] = .us2) :
    Inv ((act s .us2).1, ts.set i (act s .us2).2.1) := by rw_case

theorem inv_act_ue1 {s : Sh} {ts : List PC} (hi : Inv (s, ts)) (i : Nat) (h : i < ts.length) (hp : ts[i] = .ue1) :
    Inv ((act s .ue1).1, ts.set i (act s .ue1).2.1) := by rw_case

theorem inv_act_ue2 {s : Sh} {ts : List PC} (hi : Inv (s, ts)) (i : Nat) (h : i < ts.length) (hp : ts[i] = .ue2) :
    Inv ((act s .ue2).1, ts.set i (act s .ue2).2.1) := by rw_case

theorem inv_act_ue3 {s : Sh} {ts : List PC} (hi : Inv (s, ts)) (i : Nat) (h : i < ts.length) (hp : ts[i] = .ue3) :
    Inv ((act s .ue3).1, ts.set i (act s .ue3).2.1) := by rw_case

theorem inv_act_uh1 {s : Sh} {ts : List PC} (hi : Inv (s, ts)) (i : Nat) (h : i < ts.length) (hp : ts[i] = .uh1) :
    Inv ((act s .uh1).1, ts.set i (act s .uh1).2.1) := by rw_case

theorem inv_act_uh3 {s : Sh} {ts : List PC} (hi : Inv (s, ts)) (i : Nat) (h : i < ts.length) (hp : ts[i] = .uh3) :
    Inv ((act s .uh3).1, ts.set i (act s .uh3).2.1) := by rw_case

theorem inv_act_uh4 {s : Sh} {ts : List PC} (hi : Inv (s, ts)) (i : Nat) (h : i < ts.length) (hp : ts[i] = .uh4) :
    Inv ((act s .uh4).1, ts.set i (act s .uh4).2.1) := by rw_case

theorem inv_act_sw1 {s : Sh} {ts : List PC} (hi : Inv (s, ts)) (i : Nat) (h : i < ts.length) (hp : ts[i] = .sw1) :
    Inv ((act s .sw1).1, ts.set i (act s .sw1).2.1) := by rw_case

theorem inv_act_sw2 {s : Sh} {ts : List PC} (hi : Inv (s, ts)) (i : Nat) (h : i < ts.length) (hp : ts[i] = .sw2) :
    Inv ((act s .sw2).1, ts.set i (act s .sw2).2.1) := by rw_case

theorem inv_act_sw4 {s : Sh} {ts : List PC} (hi : Inv (s, ts)) (i : Nat) (h : i < ts.length) (hp : ts[i] = .sw4) :
    Inv ((act s .sw4).1, ts.set i (act s .sw4).2.1) := by rw_case

theorem inv_act_sw5 {s : Sh} {ts : List PC} (hi : Inv (s, ts)) (i : Nat) (h : i < ts.length) (hp : ts[i] = .sw5) :
    Inv ((act s .sw5).1, ts.set i (act s .sw5).2.1) := by rw_case

theorem inv_act_sw6 {s : Sh} {ts : List PC} (hi : Inv (s, ts)) (i : Nat) (h : i < ts.length) (hp : ts[i] = .sw6) :
    Inv ((act s .sw6).1, ts.set i (act s .sw6).2.1) := by rw_case

theorem inv_act_ux1 {s : Sh} {ts : List PC} (hi : Inv (s, ts)) (i : Nat) (h : i < ts.length) (hp : ts[i] = .ux1) :
    Inv ((act s .ux1).1, ts.set i (act s .ux1).2.1) := by rw_case

theorem inv_act_ux3 {s : Sh} {ts : List PC} (hi : Inv (s, ts)) (i : Nat) (h : i < ts.length) (hp : ts[i] = .ux3) :
    Inv ((act s .ux3).1, ts.set i (act s .ux3).2.1) := by rw_case

theorem inv_act_ux4 {s : Sh} {ts : List PC} (hi : Inv (s, ts)) (i : Nat) (h : i < ts.length) (hp : ts[i] = .ux4) :
    Inv ((act s .ux4).1, ts.set i (act s .ux4).2.1) := by rw_case

theorem inv_act_ux7 {s : Sh} {ts : List PC} (hi : Inv (s, ts)) (i : Nat) (h : i < ts.length) (hp : ts[i] = .ux7) :
    Inv ((act s .ux7).1, ts.set i (act s .ux7).2.1) := by rw_case

theorem inv_act_uxOk {s : Sh} {ts : List PC} (hi : Inv (s, ts)) (i : Nat) (h : i < ts.length) (hp : ts[i] = .uxOk) :
    Inv ((act s .uxOk).1, ts.set i (act s .uxOk).2.1) := by rw_case

theorem inv_act_uxFail {s : Sh} {ts : List PC} (hi : Inv (s, ts)) (i : Nat) (h : i < ts.length) (hp : ts[i] = .uxFail) :
    Inv ((act s .uxFail).1, ts.set i (act s .uxFail).2.1) := by rw_case

theorem inv_act_uy3 {s : Sh} {ts : List PC} (hi : Inv (s, ts)) (i : Nat) (h : i < ts.length) (hp : ts[i] = .uy3) :
    Inv ((act s .uy3).1, ts.set i (act s .uy3).2.1) := by rw_case

theorem inv_act_uy4 {s : Sh} {ts : List PC} (hi : Inv (s, ts)) (i : Nat) (h : i < ts.length) (hp : ts[i] = .uy4) :
    Inv ((act s .uy4).1, ts.set i (act s .uy4).2.1) := by rw_case

theorem inv_act_uy5 {s : Sh} {ts : List PC} (hi : Inv (s, ts)) (i : Nat) (h : i < ts.length) (hp : ts[i] = .uy5) :
    Inv ((act s .uy5).1, ts.set i (act s .uy5).2.1) := by rw_case

theorem inv_act_sa1 {s : Sh} {ts : List PC} (hi : Inv (s, ts)) (i : Nat) (h : i < ts.length) (hp : ts[i] = .sa1) :
    Inv ((act s .sa1).1, ts.set i (act s .sa1).2.1) := by rw_case

theorem inv_act_st2 {s : Sh} {ts : List PC} (hi : Inv (s, ts)) (i : Nat) (h : i < ts.length) (hp : ts[i] = .st2) :
    Inv ((act s .st2).1, ts.set i (act s .st2).2.1) := by rw_case

theorem inv_act_st3 {s : Sh} {ts : List PC} (hi : Inv (s, ts)) (i : Nat) (h : i < ts.length) (hp : ts[i] = .st3) :
    Inv ((act s .st3).1, ts.set i (act s .st3).2.1) := by rw_case

theorem inv_act {s : Sh} {ts : List PC} (hi : Inv (s, ts)) (i : Nat) (h : i < ts.length) (hn : ts[i].isRest = false) :
    Inv ((act s ts[i]).1, ts.set i (act s ts[i]).2.1) := by
  generalize hp : ts[i] = p at hn ⊢
  cases p <;> simp only [PC.isRest, Bool.true_eq_false] at hn
  · exact inv_act_ls0 hi i h hp
  · exact inv_act_ls1 hi i h hp
  · exact inv_act_ls2 hi i h hp
  · exact inv_act_lsOk hi i h hp
  · exact inv_act_lsFail hi i h hp
  · exact inv_act_lh0 hi i h hp
  · exact inv_act_lh1 hi i h hp
  · exact inv_act_lh2 hi i h hp
  · exact inv_act_lhOk hi i h hp
  · exact inv_act_lhFail hi i h hp
  · exact inv_act_lh3 hi i h hp
  · exact inv_act_lhU1 hi i h hp
  · exact inv_act_lhU2 hi i h hp
  · exact inv_act_le0 hi i h hp
  · exact inv_act_le3 hi i h hp
  · exact inv_act_leOk hi i h hp
  · exact inv_act_leFail hi i h hp
  · exact inv_act_leNF hi i h hp
  · exact inv_act_us1 hi i h hp
  · exact inv_act_us2 hi i h hp
  · exact inv_act_ue1 hi i h hp
  · exact inv_act_ue2 hi i h hp
  · exact inv_act_ue3 hi i h hp
  · exact inv_act_uh1 hi i h hp
  · exact inv_act_uh3 hi i h hp
  · exact inv_act_uh4 hi i h hp
  · exact inv_act_sw1 hi i h hp
  · exact inv_act_sw2 hi i h hp
  · exact inv_act_sw4 hi i h hp
  · exact inv_act_sw5 hi i h hp
  · exact inv_act_sw6 hi i h hp
  · exact inv_act_ux1 hi i h hp
  · exact inv_act_ux3 hi i h hp
  · exact inv_act_ux4 hi i h hp
  · exact inv_act_ux7 hi i h hp
  · exact inv_act_uxOk hi i h hp
  · exact inv_act_uxFail hi i h hp
  · exact inv_act_uy3 hi i h hp
  · exact inv_act_uy4 hi i h hp
  · exact inv_act_uy5 hi i h hp
  · exact inv_act_sa1 hi i h hp
  · exact inv_act_st2 hi i h hp
  · exact inv_act_st3 hi i h hp

theorem inv_step {c c' : Cfg} (hi : Inv c) (hs : Step c c') : Inv c' := by
  cases hs with
  | begin s ts i h op p' hb => exact inv_begin hi i h op p' hb
  | act s ts i h hn => exact inv_act hi i h hn

theorem inv_reachable {c : Cfg} (hr : Reachable c) : Inv c := by
  induction hr with
  | init n => exact inv_init n
  | step _ hs ih => exact inv_step ih hs


end SquidModel.Ipc.RwLock
