/-
The slice ownership invariant `SInv` is inductive (given the lock/life-cycle invariant `AInv`): generic frame lemmas.
-/
import SquidModel.Ipc.StoreMapSInv

namespace SquidModel.Ipc.StoreMap
open PC
set_option linter.unusedSimpArgs false
set_option linter.unusedVariables false

/-- the other sessions keep their local knowledge across a step of an exclusive holder of `f` that changes only anchor `f`,
slices of `f`, its private slices or free slices, and (unless strictly exclusive) only appends to the chain -/
theorem frame_others {sh sh' : Sh} {ts : List PC} (hs : SInv (sh, ts)) (hA : ∀ g, AInv g (sh, ts)) (i : Nat) (hi : i < ts.length) (f : Nat)
    (hx : PC.holdsX f ts[i] = true)
    (h_anch : ∀ g, g ≠ f → sh'.a g = sh.a g)
    (h_sl : ∀ s, sh'.s s = sh.s s ∨ (sh.s s).owner = .anchor f ∨ (sh.s s).owner = .priv i ∨ (sh.s s).owner = .free)
    (h_rd : PC.xE f ts[i] = false → (sh'.a f).live = (sh.a f).live ∧ ∀ s ∈ (sh.a f).chain, s ∈ (sh'.a f).chain)
    (j : Nat) (hj : j < ts.length) (hij : j ≠ i) : TOK j sh' ts[j] := by
  have ht := hs.thr j hj
  simp only at ht
  cases hq : ts[j].anch with
  | none => exact tok_none j sh' _ hq
  | some g =>
    by_cases hg : g = f
    · subst hg
      cases hxj : PC.holdsX g ts[j] with
      | true => exact absurd (xx_false (hA g) i j hi hj (Ne.symm hij) hx hxj) id
      | false =>
        cases hsj : PC.holdsS g ts[j] with
        | true =>
          cases hxe : PC.xE g ts[i] with
          | true => exact absurd (xs_false (hA g) i j hi hj hxe hsj) id
          | false => exact tok_reader_mono hsj (h_rd hxe).1 (h_rd hxe).2 ht
        | false => exact tok_trivial j sh' _ g hq hxj hsj
    · have e := h_anch g hg
      refine tok_congr hq (by rw [e]) (by rw [e]) (by rw [e]) ?_ ?_ ht
      · intro s hsm
        have ho := hs.chain_own g s hsm
        simp only at ho
        rcases h_sl s with h | h | h | h
        · rw [h]
        · rw [ho] at h; simp only [Owner.anchor.injEq] at h; exact absurd h hg
        · rw [ho] at h; simp at h
        · rw [ho] at h; simp at h
      · intro s ho
        rcases h_sl s with h | h | h | h
        · exact h
        · rw [ho] at h; simp at h
        · rw [ho] at h; simp only [Owner.priv.injEq] at h; exact absurd h hij
        · rw [ho] at h; simp at h

/-- a step that leaves slices, pool, and `key`/`live`/`chain`/`start` of every anchor alone -/
theorem sinv_quiet {sh sh' : Sh} {ts : List PC} (hs : SInv (sh, ts)) (i : Nat) (hi : i < ts.length) (p' : PC)
    (hsl : sh'.slices = sh.slices) (hpl : sh'.pool = sh.pool)
    (hq : ∀ g, (sh'.a g).key = (sh.a g).key ∧ (sh'.a g).live = (sh.a g).live ∧ (sh'.a g).chain = (sh.a g).chain ∧
      (sh'.a g).start = (sh.a g).start)
    (hkl : ∀ g, (sh'.a g).key ≠ 0 → (sh'.a g).live = true ∨ (sh'.a g).writer = .E)
    (htok : TOK i sh' p') : SInv (sh', ts.set i p') := by
  obtain ⟨a1, a2, a3, a4, a5, a6, a7⟩ := hs
  simp only at a1 a2 a3 a4 a5 a6 a7
  have hss : ∀ s, sh'.s s = sh.s s := fun s => by simp [Sh.s, hsl]
  refine ⟨by simpa [hpl] using a1, ?_, ?_, ?_, ?_, hkl, ?_⟩
  · intro s hsm; simp only [hpl] at hsm; rw [hss]; exact a2 s hsm
  · intro g; rw [(hq g).2.2.1]; exact a3 g
  · intro g s hsm; rw [(hq g).2.2.1] at hsm; rw [hss]; exact a4 g s hsm
  · intro g hl; rw [(hq g).2.1] at hl; simp only [hsl, (hq g).2.2.1, (hq g).2.2.2]; exact a5 g hl
  · intro j hj
    simp only [List.length_set] at hj
    by_cases hji : j = i
    · subst hji; simpa using htok
    · have ht := a7 j hj
      have : (ts.set i p')[j] = ts[j] := by simp [List.getElem_set, Ne.symm hji]
      simp only [this]
      cases hqa : ts[j].anch with
      | none => exact tok_none j sh' _ hqa
      | some g =>
        exact tok_congr hqa (hq g).1 (hq g).2.1 (hq g).2.2.1 (fun s _ => by rw [hss]) (fun s _ => hss s) ht

end SquidModel.Ipc.StoreMap
