/-
The ghost constant `base` is not an assumption: a queue that starts from the genuine initial state (`base = 0`, indices 0)
and has carried `n` items one at a time is in the loop-head state with indices `n mod 2^32`. Used to show that the
index-wrap counterexample is reachable from a fresh queue.
-/
import SquidModel.Ipc.QueueRun

namespace SquidModel.Ipc.Queue

/-- consumer at the head of its pop loop, producer between calls, queue empty, `h` = everything pushed and delivered so far -/
def loopHead (cap : Nat) (buf h : List Nat) : St :=
  { cap := cap, base := 0, size := 0, blocked := false, signal := false, buf := buf, tin := h.length % W, tout := h.length % W,
    notif := 0, pushed := h, recv := h, p := .rest, c := .e1 }

/-- consumer goes to sleep; one push with its notification; consumer wakes up, clears the signal and pops the item -/
def cycleActs (v : Nat) : List Act :=
  [.c, .c, .c, .call v, .p, .p, .p, .p, .p, .p, .c, .c, .c, .c, .c, .c, .c]

theorem W_pos : 0 < W := by decide

theorem cycle (cap : Nat) (buf h : List Nat) (v : Nat) (hc : 0 < cap) (hb : buf.length = cap) :
    run (loopHead cap buf h) (cycleActs v) = loopHead cap (buf.set (h.length % W % cap) v) (h ++ [v]) := by
  have hne : ¬ (0 = cap) := by omega
  have hlt : h.length % W % cap < buf.length := by rw [hb]; exact Nat.mod_lt _ hc
  simp [run, cycleActs, runAct, loopHead, stepC, stepP, callPush, hne, Nat.mod_add_mod]
  rw [List.getElem?_set_self hlt]; rfl

theorem reachable_loopHead_rev (cap : Nat) (hc : 0 < cap) (l : List Nat) :
    ∃ buf, buf.length = cap ∧ Reachable (loopHead cap buf l.reverse) := by
  induction l with
  | nil =>
    refine ⟨List.replicate cap 0, by simp, ?_⟩
    have hr := reachable_run (Reachable.init cap 0 (List.replicate cap 0) hc (by simp)) [.c, .c]
    have he : run (St.init cap 0 (List.replicate cap 0)) [.c, .c] = loopHead cap (List.replicate cap 0) [] := by
      simp [run, runAct, St.init, loopHead, stepC]
    rw [he] at hr
    exact hr
  | cons v l ih =>
    obtain ⟨buf, hb, hr⟩ := ih
    refine ⟨buf.set (l.reverse.length % W % cap) v, by simp [hb], ?_⟩
    rw [List.reverse_cons, ← cycle cap buf l.reverse v hc hb]
    exact reachable_run hr _

/-- after any history `h` of items carried one at a time, a fresh queue is at the loop head with indices `|h| mod 2^32` -/
theorem reachable_loopHead (cap : Nat) (hc : 0 < cap) (h : List Nat) :
    ∃ buf, buf.length = cap ∧ Reachable (loopHead cap buf h) := by
  have := reachable_loopHead_rev cap hc h.reverse
  rwa [List.reverse_reverse] at this

/-- capacity 3, loop head after a history `h` of 2^32 - 2 items: three more pushes, then three pops deliver 1, 3, 3 -/
theorem wrap_breaks_fifo_after (h : List Nat) (hl : h.length = W - 2) (a b c : Nat) :
    let s := run (loopHead 3 [a, b, c] h)
      [.call 1, .p, .p, .p, .p, .call 2, .p, .p, .p, .call 3, .p, .p, .p, .c, .c, .c, .c, .c, .c, .c, .c, .c, .c, .c, .c]
    s.base = 0 ∧ s.cap = 3 ∧ s.pushed = h ++ [1, 2, 3] ∧ s.recv = h ++ [1, 3, 3] := by
  have e1 : h.length % W % 3 = 2 := by rw [hl]; decide
  have e2 : (h.length + 1) % W % 3 = 0 := by rw [hl]; decide
  have e3 : (h.length + 2) % W % 3 = 0 := by rw [hl]; decide
  clear hl
  simp [run, runAct, loopHead, stepC, stepP, callPush, Nat.mod_add_mod, e1, e2, e3, Nat.add_assoc]

end SquidModel.Ipc.Queue
