/-
Inductive invariant of the ReadWriteLock model, for any number of threads: counting clauses tie every
shared counter/flag to the number of threads whose pc lies in a class.
-/
import SquidModel.Ipc.RwLock

namespace SquidModel.Ipc.RwLock
open PC

/-- contributes 1 to readLevel -/
def PC.inR : PC → Bool
  | ls1 | ls2 | lsOk | lsFail | holdS | us1 | us2
  | lh1 | lh2 | lhOk | lhFail | lh3 | holdH | lhU1 | lhU2 | uh1 | uh3 | uh4
  | sw2 | sw4 | sw5 | sw6 | ux1 | ux3 | ux4 | uy3 | uy4 => true
  | _ => false

/-- contributes 1 to readers -/
def PC.rdr : PC → Bool
  | holdS | us1 | lh3 | holdH | lhU1 | uh1 | uh3 | sw4 | sw5 | sw6 | ux1 | ux3 | uy3 => true
  | _ => false

/-- contributes 1 to writeLevel -/
def PC.inW : PC → Bool
  | le3 | leOk | leFail | leNF | holdE | holdA | holdD | ue1 | ue2 | ue3
  | sw1 | sw2 | sw4 | sw5 | sw6 | ux3 | ux4 | ux7 | uxOk | uxFail | uy3 | uy4 | uy5 | sa1 | st2 | st3 => true
  | _ => false

/-- "first writer": incremented writeLevel from 0 and has not decremented it yet -/
def PC.fw : PC → Bool
  | le3 | leOk | leFail | holdE | holdA | holdD | ue1 | ue2 | ue3
  | sw1 | sw2 | sw4 | sw5 | sw6 | ux3 | ux4 | ux7 | uxOk | uxFail | sa1 | st2 | st3 => true
  | _ => false

/-- `writing` is true exactly while some thread is here -/
def PC.wset : PC → Bool
  | holdE | holdA | holdD | ue1 | ue2 | sw1 | sw2 | sw4 | sw5 | sa1 | st2 | st3 => true
  | _ => false

/-- `appending` can be true only while some thread is here -/
def PC.amay : PC → Bool
  | holdA | ue1 | sw1 | sw2 | sw4 | st2 => true
  | _ => false

/-- `appending` is certainly true while some thread is here -/
def PC.aset : PC → Bool
  | holdA | st2 => true
  | _ => false

/-- `updating` is set exactly while some thread is here -/
def PC.uset : PC → Bool
  | holdH | uh1 => true
  | _ => false

/-- strictly exclusive: committed writer that has not (re)entered append mode -/
def PC.wX : PC → Bool
  | leOk | uxOk | holdE => true
  | _ => false

/-- committed (or committing) shared holder -/
def PC.rOk : PC → Bool
  | lsOk | holdS | lhOk | lh3 | holdH => true
  | _ => false

def cnt (f : PC → Bool) (ts : List PC) : Nat := ts.countP f

structure Inv (c : Cfg) : Prop where
  rl : c.1.readLevel = cnt PC.inR c.2
  wl : c.1.writeLevel = cnt PC.inW c.2
  rd : c.1.readers = cnt PC.rdr c.2
  fw1 : cnt PC.fw c.2 ≤ 1
  wr : c.1.writing = decide (0 < cnt PC.wset c.2)
  ap : c.1.appending = true → 0 < cnt PC.amay c.2
  apA : 0 < cnt PC.aset c.2 → c.1.appending = true
  up : c.1.updating = decide (0 < cnt PC.uset c.2)
  up1 : cnt PC.uset c.2 ≤ 1
  excl : cnt PC.wX c.2 = 0 ∨ cnt PC.rOk c.2 = 0

theorem cnt_set (f : PC → Bool) (ts : List PC) (i : Nat) (h : i < ts.length) (p : PC) :
    cnt f (ts.set i p) + (if f ts[i] then 1 else 0) = cnt f ts + (if f p then 1 else 0) := by
  induction ts generalizing i with
  | nil => simp at h
  | cons a as ih =>
    cases i with
    | zero => simp [cnt, List.countP_cons]; split <;> split <;> omega
    | succ j =>
      simp only [List.set_cons_succ, List.getElem_cons_succ]
      have := ih j (by simpa using h)
      simp only [cnt, List.countP_cons] at *
      omega

theorem cnt_pos_of_mem (f : PC → Bool) (ts : List PC) (i : Nat) (h : i < ts.length) (hf : f ts[i] = true) :
    0 < cnt f ts := by
  unfold cnt
  exact List.countP_pos_iff.mpr ⟨ts[i], List.getElem_mem h, hf⟩

theorem cnt_le_of_imp (f g : PC → Bool) (ts : List PC) (h : ∀ p, f p = true → g p = true) : cnt f ts ≤ cnt g ts := by
  unfold cnt; apply List.countP_mono_left; intro x _ hx; exact h x hx

theorem cnt_replicate_idle (f : PC → Bool) (hf : f .idle = false) (n : Nat) : cnt f (List.replicate n PC.idle) = 0 := by
  unfold cnt
  induction n with
  | zero => rfl
  | succ n ih => simp [List.replicate_succ, List.countP_cons, hf, ih]

theorem inv_init (n : Nat) : Inv (Sh.init, List.replicate n PC.idle) := by
  have h1 := cnt_replicate_idle PC.inR rfl n
  have h2 := cnt_replicate_idle PC.inW rfl n
  have h3 := cnt_replicate_idle PC.rdr rfl n
  have h4 := cnt_replicate_idle PC.fw rfl n
  have h5 := cnt_replicate_idle PC.wset rfl n
  have h6 := cnt_replicate_idle PC.amay rfl n
  have h7 := cnt_replicate_idle PC.uset rfl n
  have h8 := cnt_replicate_idle PC.wX rfl n
  have h9 := cnt_replicate_idle PC.rOk rfl n
  have h10 := cnt_replicate_idle PC.aset rfl n
  constructor <;> simp [Sh.init, h1, h2, h3, h4, h5, h6, h7, h8, h9, h10]

end SquidModel.Ipc.RwLock
