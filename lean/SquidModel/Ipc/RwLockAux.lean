import SquidModel.Ipc.RwLockInv

namespace SquidModel.Ipc.RwLock
open PC

theorem two_le_cnt (f : PC → Bool) (ts : List PC) (i j : Nat) (hi : i < ts.length) (hj : j < ts.length) (hij : i ≠ j)
    (fi : f ts[i] = true) (fj : f ts[j] = true) : 2 ≤ cnt f ts := by
  induction ts generalizing i j with
  | nil => simp at hi
  | cons a as ih =>
    unfold cnt at *
    simp only [List.countP_cons]
    cases i with
    | zero =>
      cases j with
      | zero => exact absurd rfl hij
      | succ j =>
        have hj' : j < as.length := by simpa using hj
        simp only [List.getElem_cons_zero] at fi
        simp only [List.getElem_cons_succ] at fj
        have : 0 < List.countP f as := List.countP_pos_iff.mpr ⟨as[j], List.getElem_mem hj', fj⟩
        rw [if_pos fi]; omega
    | succ i =>
      cases j with
      | zero =>
        have hi' : i < as.length := by simpa using hi
        simp only [List.getElem_cons_zero] at fj
        simp only [List.getElem_cons_succ] at fi
        have : 0 < List.countP f as := List.countP_pos_iff.mpr ⟨as[i], List.getElem_mem hi', fi⟩
        rw [if_pos fj]; omega
      | succ j =>
        simp only [List.getElem_cons_succ] at fi fj
        have := ih i j (by simpa using hi) (by simpa using hj) (by omega) fi fj
        omega

theorem cnt_all_idle (f : PC → Bool) (hf : f .idle = false) (ts : List PC) (h : ∀ p ∈ ts, p = .idle) : cnt f ts = 0 := by
  unfold cnt
  exact List.countP_eq_zero.mpr (fun a ha => by rw [h a ha, hf]; simp)

end SquidModel.Ipc.RwLock
