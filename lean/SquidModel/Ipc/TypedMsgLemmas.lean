/-
Lemmas about the `Ipc::TypedMsgHdr` model: the int/size codecs, getRaw/putRaw in list terms, the receiver
invariant (no out-of-bounds copy), and reading back what was written.
-/
import SquidModel.Ipc.TypedMsg

namespace SquidModel.Ipc.TypedMsg

/-! ### codecs -/

theorem encodeInt_length (n : Int) : (encodeInt n).length = 4 := rfl

theorem decode_encodeInt (n : Int) (h : inIntRange n) : decodeInt (encodeInt n) = n := by
  unfold inIntRange at h
  simp only [encodeInt, decodeInt, UInt8.toNat_ofNat']
  split <;> omega

theorem encodeSize_length (n : Nat) : (encodeSize n).length = 8 := rfl

theorem decode_encodeSize (n : Nat) (h : n < SIZE_T) : decodeSize (encodeSize n) = n := by
  unfold SIZE_T at h
  simp only [encodeSize, decodeSize, UInt8.toNat_ofNat']
  omega

theorem decodeSize_lt (b : Bytes) : decodeSize b < SIZE_T := by
  unfold decodeSize SIZE_T
  split
  · rename_i a b c d e f g h
    have := UInt8.toNat_lt a; have := UInt8.toNat_lt b; have := UInt8.toNat_lt c; have := UInt8.toNat_lt d
    have := UInt8.toNat_lt e; have := UInt8.toNat_lt f; have := UInt8.toNat_lt g; have := UInt8.toNat_lt h
    omega
  · omega

theorem zeros_length (n : Nat) : (zeros n).length = n := List.length_replicate

/-! ### getRaw -/

/-- Receiver-side invariant: the read offset never passes `data.size` (and `size` is a `size_t`). -/
def RInv (m : Msg) : Prop := m.offset ≤ m.size ∧ m.size < SIZE_T

/-- The region in which no out-of-bounds copy can happen: the size is checked, or it is within the buffer anyway. -/
def Safe (chk : Bool) (m : Msg) : Prop := chk = true ∨ m.size ≤ maxSize

theorem getRawWith_frame (chk : Bool) (m : Msg) (n : Nat) :
    (getRawWith chk m n).1.size = m.size ∧ (getRawWith chk m n).1.raw = m.raw ∧
    (getRawWith chk m n).1.type = m.type ∧ (getRawWith chk m n).1.hasData = m.hasData := by
  unfold getRawWith
  split
  · exact ⟨rfl, rfl, rfl, rfl⟩
  · split
    · exact ⟨rfl, rfl, rfl, rfl⟩
    · split
      · split <;> exact ⟨rfl, rfl, rfl, rfl⟩
      · exact ⟨rfl, rfl, rfl, rfl⟩

/-- A failing extraction leaves the message as it was. -/
theorem getRawWith_thrown (chk : Bool) (m : Msg) (n : Nat) (h : (getRawWith chk m n).2 = .thrown) :
    (getRawWith chk m n).1 = m := by
  unfold getRawWith at h ⊢
  split
  · rfl
  · split
    · rfl
    · split
      · rename_i h1 h2 h3
        exfalso
        by_cases h4 : m.offset + n ≤ maxSize
        · simp [h1, h2, h3, h4] at h
        · simp [h1, h2, h3, h4] at h
      · rfl

/-- Inside the safe region an extraction never copies from outside `data.raw`, and the invariant is kept. -/
theorem getRawWith_safe (chk : Bool) (m : Msg) (n : Nat) (hs : Safe chk m) (hi : RInv m) :
    (getRawWith chk m n).2 ≠ .oob ∧ RInv (getRawWith chk m n).1 := by
  unfold RInv at hi ⊢
  unfold Safe at hs
  unfold getRawWith
  unfold SIZE_T at *
  split
  · exact ⟨by simp, hi⟩
  · split
    · exact ⟨by simp, hi⟩
    · rename_i hn hc
      have hsz : m.size ≤ maxSize := by
        rcases hs with hs | hs
        · subst hs
          simpa using hc
        · exact hs
      split
      · rename_i hle
        have hfit : m.offset + n ≤ m.size := by omega
        unfold maxSize at hsz
        split
        · refine ⟨by simp, ?_⟩
          simp only [UINT]
          omega
        · rename_i hnot
          unfold maxSize at hnot
          omega
      · exact ⟨by simp, hi⟩

/-- Exact value of a successful extraction. -/
theorem getRawWith_ok (chk : Bool) (m : Msg) (n : Nat) (hn : n ≠ 0) (hsz : m.size ≤ maxSize)
    (hfit : m.offset + n ≤ m.size) :
    getRawWith chk m n = ({ m with offset := m.offset + n }, .ok ((m.raw.drop m.offset).take n)) := by
  unfold getRawWith
  have hc : (chk && decide (maxSize < m.size)) = false := by
    have : ¬ maxSize < m.size := by omega
    simp [this]
  have h1 : n ≤ (m.size + SIZE_T - m.offset % SIZE_T) % SIZE_T := by
    unfold maxSize at hsz; unfold SIZE_T; omega
  have h2 : m.offset + n ≤ maxSize := by omega
  have h3 : (m.offset + n) % UINT = m.offset + n := by
    unfold maxSize at h2; unfold UINT; omega
  simp only [hn, hc, h1, h2, h3, ↓reduceIte, Bool.false_eq_true]

/-- Reading past `data.size` raises an error. -/
theorem getRawWith_past_size (chk : Bool) (m : Msg) (n : Nat) (hi : RInv m) (hpast : m.size < m.offset + n) :
    getRawWith chk m n = (m, .thrown) := by
  unfold RInv at hi
  unfold getRawWith
  have hn : n ≠ 0 := by omega
  have h1 : ¬ n ≤ (m.size + SIZE_T - m.offset % SIZE_T) % SIZE_T := by
    unfold SIZE_T at *; omega
  simp only [hn, h1, ↓reduceIte]
  split <;> rfl

/-- With the size check, a size field above the buffer size is refused. -/
theorem getRawWith_oversize (m : Msg) (n : Nat) (hn : n ≠ 0) (hbig : maxSize < m.size) :
    getRawWith true m n = (m, .thrown) := by
  unfold getRawWith
  simp [hn, hbig]

/-! ### getInt / getString -/

theorem getIntWith_safe (chk : Bool) (m : Msg) (hs : Safe chk m) (hi : RInv m) :
    (getIntWith chk m).2 ≠ .oob ∧ RInv (getIntWith chk m).1 ∧ (getIntWith chk m).1.size = m.size := by
  have h := getRawWith_safe chk m 4 hs hi
  have hf := (getRawWith_frame chk m 4).1
  unfold getIntWith
  rcases hr : getRawWith chk m 4 with ⟨m', r⟩
  rw [hr] at h hf
  cases r with
  | ok b => exact ⟨by simp, h.2, hf⟩
  | thrown => exact ⟨by simp, h.2, hf⟩
  | oob => exact absurd rfl h.1

theorem getStringWith_safe (chk : Bool) (m : Msg) (hs : Safe chk m) (hi : RInv m) :
    (getStringWith chk m).2 ≠ .oob ∧ RInv (getStringWith chk m).1 ∧ (getStringWith chk m).1.size = m.size := by
  have h := getIntWith_safe chk m hs hi
  unfold getStringWith
  rcases hr : getIntWith chk m with ⟨m', r⟩
  rw [hr] at h
  cases r with
  | thrown => exact ⟨by simp, h.2.1, h.2.2⟩
  | oob => exact absurd rfl h.1
  | ok len =>
    simp only
    have hs' : Safe chk m' := by
      unfold Safe at hs ⊢
      rcases hs with hs | hs
      · exact Or.inl hs
      · right; rw [h.2.2]; exact hs
    split
    · exact ⟨by simp, h.2.1, h.2.2⟩
    · split
      · exact ⟨by simp, h.2.1, h.2.2⟩
      · split
        · exact ⟨by simp, h.2.1, h.2.2⟩
        · have g := getRawWith_safe chk m' len.toNat hs' h.2.1
          exact ⟨g.1, g.2, by rw [(getRawWith_frame chk m' len.toNat).1, h.2.2]⟩

/-- A negative or over-long length prefix makes getString fail. -/
theorem getStringWith_bad_length (chk : Bool) (m m' : Msg) (len : Int) (hlen : len < 0 ∨ (maxSize : Int) < len)
    (hint : getIntWith chk m = (m', .ok len)) : getStringWith chk m = (m', .thrown) := by
  unfold getStringWith
  rw [hint]
  simp only
  rcases hlen with h | h
  · simp [h]
  · have h1 : ¬ len < 0 := by unfold maxSize at h; omega
    have h2 : ¬ len = 0 := by unfold maxSize at h; omega
    simp [h1, h2, h]

/-! ### receiver scripts -/

theorem rstepWith_safe (chk : Bool) (m : Msg) (op : ROp) (hs : Safe chk m) (hi : RInv m) :
    (rstepWith chk m op).2 ≠ .oob ∧ RInv (rstepWith chk m op).1 ∧ (rstepWith chk m op).1.size = m.size := by
  cases op with
  | checkType t =>
    refine ⟨?_, hi, rfl⟩
    simp only [rstepWith, checkType]
    by_cases h : rawType m = t <;> simp [h]
  | getInt =>
    have h := getIntWith_safe chk m hs hi
    simp only [rstepWith]
    rcases hr : getIntWith chk m with ⟨m', r⟩
    rw [hr] at h
    cases r with
    | ok n => exact ⟨by simp, h.2.1, h.2.2⟩
    | thrown => exact ⟨by simp, h.2.1, h.2.2⟩
    | oob => exact absurd rfl h.1
  | getString =>
    have h := getStringWith_safe chk m hs hi
    simp only [rstepWith]
    rcases hr : getStringWith chk m with ⟨m', r⟩
    rw [hr] at h
    cases r with
    | ok n => exact ⟨by simp, h.2.1, h.2.2⟩
    | thrown => exact ⟨by simp, h.2.1, h.2.2⟩
    | oob => exact absurd rfl h.1
  | getFixed n =>
    have h := getRawWith_safe chk m n hs hi
    have hf := (getRawWith_frame chk m n).1
    simp only [rstepWith]
    rcases hr : getRawWith chk m n with ⟨m', r⟩
    rw [hr] at h hf
    cases r with
    | ok n => exact ⟨by simp, h.2, hf⟩
    | thrown => exact ⟨by simp, h.2, hf⟩
    | oob => exact absurd rfl h.1
  | more => exact ⟨by simp [rstepWith], hi, rfl⟩
  | rawType => exact ⟨by simp [rstepWith], hi, rfl⟩
  | copy =>
    refine ⟨by simp [rstepWith], ?_, rfl⟩
    unfold RInv at hi ⊢
    simp only [rstepWith, copy]
    omega

theorem rrunWith_safe (chk : Bool) (m : Msg) (ops : List ROp) (hs : Safe chk m) (hi : RInv m) :
    Out.oob ∉ (rrunWith chk m ops).2 := by
  induction ops generalizing m with
  | nil => simp [rrunWith]
  | cons op ops ih =>
    have h := rstepWith_safe chk m op hs hi
    have hs' : Safe chk (rstepWith chk m op).1 := by
      unfold Safe at hs ⊢
      rcases hs with hs | hs
      · exact Or.inl hs
      · right; rw [h.2.2]; exact hs
    simp only [rrunWith, List.mem_cons, not_or]
    exact ⟨fun e => h.1 e.symm, ih _ hs' h.2.1⟩

theorem receive_inv (w : Bytes) : RInv (receive w) := by
  unfold RInv receive
  exact ⟨Nat.zero_le _, decodeSize_lt _⟩

/-! ### putRaw in list terms -/

/-- the message after `b` was appended at `data.size` -/
def written (m : Msg) (b : Bytes) : Msg :=
  { m with raw := m.raw.take m.size ++ b ++ m.raw.drop (m.size + b.length), size := m.size + b.length }

theorem written_nil (m : Msg) : written m [] = m := by
  unfold written
  simp

theorem putRaw_ok (m : Msg) (b : Bytes) (hfit : m.size + b.length ≤ maxSize) : putRaw m b = (written m b, .ok ()) := by
  unfold putRaw
  split
  · rename_i h0
    have : b = [] := List.eq_nil_of_length_eq_zero h0
    subst this
    rw [written_nil]
  · rename_i h0
    have h1 : b.length ≤ (maxSize + SIZE_T - m.size % SIZE_T) % SIZE_T := by
      unfold maxSize at hfit ⊢; unfold SIZE_T; omega
    simp only [h1, hfit, ↓reduceIte]
    rfl

/-- A put that does not fit raises an error and stores nothing. -/
theorem putRaw_full (m : Msg) (b : Bytes) (hsz : m.size ≤ maxSize) (hbig : maxSize < m.size + b.length) :
    putRaw m b = (m, .thrown) := by
  unfold putRaw
  have h0 : b.length ≠ 0 := by omega
  have h1 : ¬ b.length ≤ (maxSize + SIZE_T - m.size % SIZE_T) % SIZE_T := by
    unfold maxSize at hsz hbig ⊢; unfold SIZE_T; omega
  simp only [h0, h1, ↓reduceIte]

theorem written_written (m : Msg) (a b : Bytes) (hs : m.size ≤ m.raw.length) :
    written (written m a) b = written m (a ++ b) := by
  unfold written
  simp only [List.length_append]
  have hlen : (m.raw.take m.size ++ a).length = m.size + a.length := by
    simp only [List.length_append, List.length_take]; omega
  have h1 : (m.raw.take m.size ++ a ++ m.raw.drop (m.size + a.length)).take (m.size + a.length) =
      m.raw.take m.size ++ a := List.take_left' hlen
  have h2 : (m.raw.take m.size ++ a ++ m.raw.drop (m.size + a.length)).drop (m.size + a.length + b.length) =
      m.raw.drop (m.size + (a.length + b.length)) := by
    rw [← List.drop_drop, List.drop_left' hlen, List.drop_drop]
    congr 1; omega
  rw [h1, h2]
  simp only [List.append_assoc, Nat.add_assoc]

theorem written_frame (m : Msg) (b : Bytes) (hfit : m.size + b.length ≤ m.raw.length) :
    (written m b).raw.length = m.raw.length ∧ (written m b).size = m.size + b.length ∧
    (written m b).hasData = m.hasData ∧ (written m b).type = m.type ∧ (written m b).offset = m.offset := by
  refine ⟨?_, rfl, rfl, rfl, rfl⟩
  unfold written
  simp only [List.length_append, List.length_take, List.length_drop]
  omega

theorem putVal_ok (m : Msg) (v : Val) (hwf : v.wf) (hraw : m.raw.length = maxSize)
    (hfit : m.size + v.enc.length ≤ maxSize) : putVal m v = (written m v.enc, .ok ()) := by
  cases v with
  | int n => exact putRaw_ok m _ hfit
  | fixed b => exact putRaw_ok m _ hfit
  | str b =>
    simp only [Val.enc, List.length_append, encodeInt_length] at hfit
    simp only [putVal, putString, Val.enc]
    have h0 : ¬ maxSize < b.length := by omega
    simp only [h0, ↓reduceIte]
    have hp : putInt m (b.length : Int) = (written m (encodeInt b.length), .ok ()) :=
      putRaw_ok m _ (by rw [encodeInt_length]; omega)
    rw [hp]
    simp only
    have hw := written_frame m (encodeInt (b.length : Int)) (by rw [encodeInt_length, hraw]; omega)
    rw [putRaw_ok _ b (by rw [hw.2.1, encodeInt_length]; omega)]
    rw [written_written m _ b (by omega)]

theorem putAll_ok (m : Msg) (vs : List Val) (hwf : ∀ v ∈ vs, v.wf) (hraw : m.raw.length = maxSize)
    (hfit : m.size + (encAll vs).length ≤ maxSize) : putAll m vs = (written m (encAll vs), .ok ()) := by
  induction vs generalizing m with
  | nil => simp [putAll, encAll, written_nil]
  | cons v vs ih =>
    have henc : encAll (v :: vs) = v.enc ++ encAll vs := by simp [encAll]
    rw [henc, List.length_append] at hfit
    simp only [putAll]
    rw [putVal_ok m v (hwf v List.mem_cons_self) hraw (by omega)]
    simp only
    have hw := written_frame m v.enc (by rw [hraw]; omega)
    rw [ih (written m v.enc) (fun x hx => hwf x (List.mem_cons_of_mem _ hx)) (by rw [hw.1]; exact hraw)
      (by rw [hw.2.1]; omega)]
    rw [written_written m _ _ (by omega), henc]

/-! ### the sender never writes outside `data.raw` -/

/-- On a message whose size is within the buffer (every message built by puts from a fresh or typed message),
putRaw either stores inside `data.raw` or raises an error. -/
theorem putRaw_safe (m : Msg) (b : Bytes) (hsz : m.size ≤ maxSize) :
    (putRaw m b).2 ≠ .oob ∧ (putRaw m b).1.size ≤ maxSize := by
  unfold putRaw
  split
  · exact ⟨by simp, hsz⟩
  · split
    · rename_i h0 h1
      have hfit : m.size + b.length ≤ maxSize := by
        unfold maxSize at hsz h1 ⊢; unfold SIZE_T at h1; omega
      rw [if_pos hfit]
      exact ⟨by simp, hfit⟩
    · exact ⟨by simp, hsz⟩

theorem putVal_safe (m : Msg) (v : Val) (hsz : m.size ≤ maxSize) :
    (putVal m v).2 ≠ .oob ∧ (putVal m v).1.size ≤ maxSize := by
  cases v with
  | int n => exact putRaw_safe m _ hsz
  | fixed b => exact putRaw_safe m _ hsz
  | str b =>
    simp only [putVal, putString]
    split
    · exact ⟨by simp, hsz⟩
    · have h1 := putRaw_safe m (encodeInt (b.length : Int)) hsz
      unfold putInt
      rcases hr : putRaw m (encodeInt (b.length : Int)) with ⟨m', r⟩
      rw [hr] at h1
      cases r with
      | ok u => cases u; exact putRaw_safe m' b h1.2
      | thrown => exact ⟨by simp, h1.2⟩
      | oob => exact absurd rfl h1.1

theorem putAll_safe (m : Msg) (vs : List Val) (hsz : m.size ≤ maxSize) :
    (putAll m vs).2 ≠ .oob ∧ (putAll m vs).1.size ≤ maxSize := by
  induction vs generalizing m with
  | nil => exact ⟨by simp [putAll], hsz⟩
  | cons v vs ih =>
    have h1 := putVal_safe m v hsz
    simp only [putAll]
    rcases hr : putVal m v with ⟨m', r⟩
    rw [hr] at h1
    cases r with
    | ok u => cases u; exact ih m' h1.2
    | thrown => exact ⟨by simp, h1.2⟩
    | oob => exact absurd rfl h1.1

theorem setType_size (m : Msg) (t : Int) (hsz : m.size ≤ maxSize) : (setType m t).1.size ≤ maxSize := by
  unfold setType
  split
  · split <;> exact hsz
  · split
    · exact hsz
    · exact Nat.zero_le _

/-! ### reading back -/

/-- extraction of `n` bytes sitting at the read offset -/
theorem getRawWith_at (chk : Bool) (m : Msg) (pre b post : Bytes) (hraw : m.raw = pre ++ b ++ post)
    (hoff : m.offset = pre.length) (hb : b ≠ []) (hsz : m.size ≤ maxSize) (hfit : pre.length + b.length ≤ m.size) :
    getRawWith chk m b.length = ({ m with offset := m.offset + b.length }, .ok b) := by
  have hn : b.length ≠ 0 := by
    intro h; exact hb (List.eq_nil_of_length_eq_zero h)
  rw [getRawWith_ok chk m b.length hn hsz (by omega)]
  have : (m.raw.drop m.offset).take b.length = b := by
    rw [hraw, hoff, List.append_assoc, List.drop_left' rfl, List.take_left' rfl]
  rw [this]

theorem getIntWith_at (chk : Bool) (m : Msg) (pre post : Bytes) (n : Int) (hn : inIntRange n)
    (hraw : m.raw = pre ++ encodeInt n ++ post) (hoff : m.offset = pre.length) (hsz : m.size ≤ maxSize)
    (hfit : pre.length + 4 ≤ m.size) : getIntWith chk m = ({ m with offset := m.offset + 4 }, .ok n) := by
  have h := getRawWith_at chk m pre (encodeInt n) post hraw hoff (by simp [encodeInt]) hsz (by rw [encodeInt_length]; exact hfit)
  rw [encodeInt_length] at h
  unfold getIntWith
  rw [h]
  simp only [decode_encodeInt n hn]

/-- one typed value sitting at the read offset is returned by its reader, and the offset moves behind it -/
theorem rstepWith_at (chk : Bool) (m : Msg) (v : Val) (pre post : Bytes) (hwf : v.wf)
    (hraw : m.raw = pre ++ v.enc ++ post) (hoff : m.offset = pre.length) (hsz : m.size ≤ maxSize)
    (hfit : pre.length + v.enc.length ≤ m.size) :
    rstepWith chk m v.reader = ({ m with offset := m.offset + v.enc.length }, v.out) := by
  cases v with
  | int n =>
    simp only [Val.reader, Val.out, Val.enc, rstepWith] at *
    rw [getIntWith_at chk m pre post n hwf hraw hoff hsz (by rw [encodeInt_length] at hfit; exact hfit)]
    simp only [encodeInt_length]
  | fixed b =>
    simp only [Val.reader, Val.out, Val.enc, rstepWith] at *
    by_cases hb : b = []
    · subst hb
      simp [getRawWith]
    · rw [getRawWith_at chk m pre b post hraw hoff hb hsz hfit]
  | str b =>
    simp only [Val.reader, Val.out, Val.enc, Val.wf, rstepWith, List.length_append, encodeInt_length] at *
    have hlen : inIntRange (b.length : Int) := by unfold inIntRange; unfold maxSize at hwf; omega
    have hraw' : m.raw = pre ++ encodeInt (b.length : Int) ++ (b ++ post) := by
      rw [hraw]; simp only [List.append_assoc]
    have hi := getIntWith_at chk m pre (b ++ post) (b.length : Int) hlen hraw' hoff hsz (by omega)
    unfold getStringWith
    rw [hi]
    simp only
    have h1 : ¬ (b.length : Int) < 0 := by omega
    simp only [h1, ↓reduceIte]
    by_cases hb : b = []
    · subst hb
      simp
    · have hpos : 0 < b.length := List.length_pos_iff.mpr hb
      have h2 : ¬ (b.length : Int) = 0 := by omega
      have h3 : ¬ (maxSize : Int) < (b.length : Int) := by omega
      simp only [h2, h3, ↓reduceIte, Int.toNat_natCast]
      have hraw2 : ({ m with offset := m.offset + 4 } : Msg).raw = (pre ++ encodeInt (b.length : Int)) ++ b ++ post := by
        rw [hraw]; simp only [List.append_assoc]
      rw [getRawWith_at chk { m with offset := m.offset + 4 } (pre ++ encodeInt (b.length : Int)) b post hraw2
        (by simp only [List.length_append, encodeInt_length]; omega) hb hsz
        (by simp only [List.length_append, encodeInt_length]; omega)]
      simp only [Nat.add_assoc]

theorem rrunWith_at (chk : Bool) (m : Msg) (vs : List Val) (pre post : Bytes) (hwf : ∀ v ∈ vs, v.wf)
    (hraw : m.raw = pre ++ encAll vs ++ post) (hoff : m.offset = pre.length) (hsz : m.size ≤ maxSize)
    (hfit : pre.length + (encAll vs).length ≤ m.size) :
    rrunWith chk m (vs.map Val.reader) = ({ m with offset := m.offset + (encAll vs).length }, vs.map Val.out) := by
  induction vs generalizing m pre with
  | nil => simp [rrunWith, encAll]
  | cons v vs ih =>
    have henc : encAll (v :: vs) = v.enc ++ encAll vs := by simp [encAll]
    rw [henc] at hraw hfit ⊢
    rw [List.length_append] at hfit
    have hraw1 : m.raw = pre ++ v.enc ++ (encAll vs ++ post) := by rw [hraw]; simp only [List.append_assoc]
    have h1 := rstepWith_at chk m v pre (encAll vs ++ post) (hwf v List.mem_cons_self) hraw1 hoff hsz (by omega)
    simp only [List.map_cons, rrunWith]
    rw [h1]
    simp only
    have hraw2 : ({ m with offset := m.offset + v.enc.length } : Msg).raw = (pre ++ v.enc) ++ encAll vs ++ post := by
      rw [hraw]; simp only [List.append_assoc]
    rw [ih { m with offset := m.offset + v.enc.length } (pre ++ v.enc) (fun x hx => hwf x (List.mem_cons_of_mem _ hx)) hraw2
      (by simp only [List.length_append]; omega) hsz (by simp only [List.length_append]; omega)]
    simp only [List.length_append, Nat.add_assoc]

/-! ### the wire -/

theorem receive_wireBytes (s : Msg) (hd : s.hasData = true) (ht : inIntRange s.type) (hsz : s.size < SIZE_T)
    (hraw : s.raw.length = maxSize) : receive (wireBytes s) = ⟨true, s.type, s.size, s.raw, 0⟩ := by
  unfold receive wireBytes
  simp only [hd, ↓reduceIte]
  have hlen : (encodeInt s.type ++ zeros 4 ++ encodeSize s.size ++ s.raw).length = wireSize := by
    simp only [List.length_append, encodeInt_length, zeros_length, encodeSize_length, hraw, maxSize, wireSize]
  have himg : ((encodeInt s.type ++ zeros 4 ++ encodeSize s.size ++ s.raw) ++ zeros wireSize).take wireSize =
      encodeInt s.type ++ zeros 4 ++ encodeSize s.size ++ s.raw := List.take_left' hlen
  simp only [himg]
  have e1 : (encodeInt s.type ++ zeros 4 ++ encodeSize s.size ++ s.raw).take 4 = encodeInt s.type := by
    simp only [List.append_assoc]; exact List.take_left' (encodeInt_length _)
  have e2 : ((encodeInt s.type ++ zeros 4 ++ encodeSize s.size ++ s.raw).drop 8).take 8 = encodeSize s.size := by
    have : (encodeInt s.type ++ zeros 4).length = 8 := by simp [encodeInt_length, zeros_length]
    simp only [List.append_assoc] at this ⊢
    rw [← List.append_assoc (encodeInt s.type), List.drop_left' (by simpa using this)]
    exact List.take_left' (encodeSize_length _)
  have e3 : (encodeInt s.type ++ zeros 4 ++ encodeSize s.size ++ s.raw).drop 16 = s.raw := by
    have : (encodeInt s.type ++ zeros 4 ++ encodeSize s.size).length = 16 := by
      simp [encodeInt_length, zeros_length, encodeSize_length]
    exact List.drop_left' this
  rw [e1, e2, e3, decode_encodeInt _ ht, decode_encodeSize _ hsz]

/-! ### evaluated witness (independent of the regenerated flag) -/

/-- A received size field of 4097 and a request for 4097 bytes: the unchecked getRaw copies from beyond `data.raw`. -/
theorem oversize_witness :
    (rrunWith false (receive (wireOf 1 4097 [])) [.getFixed 4097]).2 = [.oob] := by
  decide

end SquidModel.Ipc.TypedMsg
