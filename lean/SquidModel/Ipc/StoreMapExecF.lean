/-
Fine-grained executable composition: the StoreMap model with every lock method expanded into the atomic operations of the C54 model of
Ipc::ReadWriteLock (`SquidModel.Ipc.RwLock`), one concrete lock per anchor. Mirrors harness/c55.cc in mode F.

The abstract lock state of the StoreMap model is *derived*: a session holds what its concrete lock pc says when it is at rest
(holdS/holdE/holdA/holdD); inside a lock method it holds nothing. When a lock method returns, the StoreMap step is taken with the
concrete result as the resolution `ch` of the specification's freedom, and the run records `lockspec` if the specification did not
allow that result (it never does: that is what the C54 theorems say).
-/
import SquidModel.Ipc.StoreMapExec
import SquidModel.Ipc.StoreMapInv
import SquidModel.Ipc.RwLock

namespace SquidModel.Ipc.StoreMap

/-- the lock method a StoreMap pc is about to call -/
def lockCall : PC → Option (Nat × RwLock.Op)
  | .owLock f _ | .feLock f | .fkLockE f _ _ => some (f, .lockExclusive)
  | .orLock f _ | .fkLockS f _ _ => some (f, .lockShared)
  | .owBail f | .fcUnl f _ | .cwU f _ | .awU f | .fkUE f => some (f, .unlockExclusive)
  | .orU f | .crU f | .fkUS f _ _ => some (f, .unlockShared)
  | .saLock f _ => some (f, .startAppending)
  | .awStop f => some (f, .stopAppending)
  | .cfX f => some (f, .unlockSharedAndSwitchToExclusive)
  | _ => none

/-- lock calls that can fail -/
def isAcquire : PC → Bool
  | .owLock .. | .feLock _ | .fkLockE .. | .orLock .. | .fkLockS .. | .awStop _ | .cfX _ => true
  | _ => false

structure ThF where
  t : Th
  lpc : RwLock.PC      -- concrete lock pc of this session with respect to the anchor it works on

structure SysF where
  sh : Sh
  locks : Nat → RwLock.Sh
  ths : List ThF
  log : List String    -- reversed
  bad : Bool           -- the specification did not allow a concrete lock result

/-- what the sessions at rest hold on anchor `f`, read off their concrete lock pcs -/
def derive (ths : List ThF) (f : Nat) : Nat × WMode :=
  let mine := ths.filter fun x => x.t.pc.anch == some f
  let readers := (mine.filter fun x => x.lpc == .holdS || x.lpc == .holdH).length
  let writer : WMode :=
    if mine.any (fun x => x.lpc == .holdE) then .E
    else if mine.any (fun x => x.lpc == .holdA) then .A
    else if mine.any (fun x => x.lpc == .holdD) then .D
    else .none
  (readers, writer)

def sync (sh : Sh) (ths : List ThF) (f : Nat) : Sh :=
  let (r, w) := derive ths f
  sh.setA f { sh.a f with readers := r, writer := w }

/-- a session that reached a lock call starts the method at once: it is parked at the method's first atomic operation -/
def enterLock (x : ThF) : ThF :=
  match lockCall x.t.pc with
  | some (_, op) =>
    match RwLock.begin x.lpc op with
    | some q => { x with lpc := q }
    | none => x
  | none => x

def lockEvString (tid f : Nat) (e : RwLock.Ev) : String := s!"{tid}:l{f}{e.obj}.{e.kind}.{e.old}>{e.new}"

def stepF (s : SysF) (tid : Nat) : SysF :=
  match s.ths[tid]? with
  | none => s
  | some x =>
    if x.lpc.isRest = false then
      -- inside a lock method: one atomic operation of the concrete lock
      match lockCall x.t.pc with
      | none => s
      | some (f, _) =>
        let (lk', q', ev, r) := RwLock.act (s.locks f) x.lpc
        let locks' := upd s.locks f lk'
        let log' := lockEvString tid f ev :: s.log
        if q'.isRest then
          -- the method returns: the StoreMap step, resolved by the concrete result
          let sh1 := sync s.sh s.ths f                      -- the holders before the return (this session holds nothing)
          let (sh2, pc', _, res) := act sh1 x.t.pc (r.getD true)
          let t2 := advance { x.t with pc := pc', res := addRes x.t res }
          let x2 := enterLock { t := t2, lpc := q' }
          let ths' := s.ths.set tid x2
          let sh3 := sync sh2 ths' f
          -- a successful acquisition must be one the specification allows in the state of the other holders
          let ok := !(isAcquire x.t.pc && r == some true && (act sh1 x.t.pc true).2.1 == (act sh1 x.t.pc false).2.1)
          { sh := sh3, locks := locks', ths := ths', log := log', bad := s.bad || !ok }
        else
          { s with locks := locks', ths := s.ths.set tid { x with lpc := q' }, log := log' }
    else if x.t.pc.isRest then
      match x.t.pending with
      | none => s
      | some (i, n, op) =>
        let ev := s!"{tid}:c.store.{x.t.marker}>{i + 1}"
        match call tid s.sh x.t.pc op with
        | none => s
        | some (sh', pc', r) =>
          let t1 := { x.t with pc := pc', pending := none, marker := i + 1, cur := n }
          let t2 := advance { t1 with res := addRes t1 r }
          let x2 := enterLock { x with t := t2 }
          let ths' := s.ths.set tid x2
          let sh'' := match pc'.anch with | some f => sync sh' ths' f | none => sh'
          { s with sh := sh'', ths := ths', log := ev :: s.log }
    else
      let (sh', pc', ev, r) := act s.sh x.t.pc true
      let t2 := advance { x.t with pc := pc', res := addRes x.t r }
      let x2 := enterLock { x with t := t2 }
      let ths' := s.ths.set tid x2
      let sh'' := match pc'.anch with | some f => sync sh' ths' f | none => sh'
      { s with sh := sh'', ths := ths', log := evString tid ev :: s.log }

def thDoneF (x : ThF) : Bool := x.lpc.isRest && thDone x.t
def allDoneF (s : SysF) : Bool := s.ths.all thDoneF

def drainF : Nat → SysF → SysF
  | 0, s => s
  | fuel + 1, s => if allDoneF s then s else drainF fuel ((List.range s.ths.length).foldl stepF s)

def fmtAnchorF (a : Anchor) (l : RwLock.Sh) : String :=
  s!"{a.key},{b2n a.wtbf},{b2n a.halted},{u64 a.start},{u64 a.splice},l{l.readers}:{b2n l.writing}:{b2n l.appending}:{l.readLevel}:{l.writeLevel}"

def renderF (n : Nat) (s : SysF) : String :=
  let log := if s.log.isEmpty then "-" else ",".intercalate s.log.reverse
  let res := ";".intercalate (s.ths.map fun x => if x.t.res.isEmpty then "-" else x.t.res)
  let fin := "|".intercalate ((List.range n).map fun f => fmtAnchorF (s.sh.a f) (s.locks f))
  let sl := "|".intercalate ((List.range n).map fun i => s!"{(s.sh.s i).size},{u64 (s.sh.s i).next}")
  let pool := if s.sh.pool.isEmpty then "-" else ".".intercalate (s.sh.pool.map toString)
  let v := if s.bad then "lockspec" else "-"
  s!"log={log} res={res} final={fin} slices={sl} count={u64 s.sh.count} pool={pool} viol={v}"

def runScenarioF (n : Nat) (opsPer : List (List (String × Op))) (schedule : List Nat) : String :=
  let s0 := initSys n opsPer
  let sf : SysF := { sh := s0.sh, locks := fun _ => RwLock.Sh.init, ths := s0.ths.map fun t => { t := t, lpc := .idle }, log := [], bad := false }
  let s1 := schedule.foldl stepF sf
  let total := (opsPer.map List.length).foldl (· + ·) 0
  renderF n (drainF (80 * total + 80 + 8 * n * total) s1)

end SquidModel.Ipc.StoreMap
