/-
Deterministic runs of the queue model: the producer finishing its call alone, explicit action lists (for witnesses).
-/
import SquidModel.Ipc.QueueInv

namespace SquidModel.Ipc.Queue

/-- let the producer run alone until its current push() call (and the notification it owes) is finished:
full -> write -> inc -> blk -> xchg -> notify -> rest is the longest path -/
def finishPush (s : St) : St := stepP (stepP (stepP (stepP (stepP (stepP s)))))

theorem reachable_stepP {s : St} (hr : Reachable s) : Reachable (stepP s) := .step hr (.prod s)
theorem reachable_stepC {s : St} (hr : Reachable s) : Reachable (stepC s) := .step hr (.cons s)
theorem reachable_call {s : St} (hr : Reachable s) (v : Nat) (hp : s.p = .rest) : Reachable (callPush s v) := .step hr (.call s v hp)

theorem reachable_finishPush {s : St} (hr : Reachable s) : Reachable (finishPush s) :=
  reachable_stepP (reachable_stepP (reachable_stepP (reachable_stepP (reachable_stepP (reachable_stepP hr)))))

/-- a producer step leaves the consumer's pc and deliveries alone and never un-pushes -/
theorem stepP_frame (s : St) : (stepP s).c = s.c ∧ (stepP s).recv = s.recv ∧ s.pushed.length ≤ (stepP s).pushed.length ∧ (stepP s).cap = s.cap := by
  obtain ⟨cap, base, size, blocked, signal, buf, tin, tout, notif, pushed, recv, p, c⟩ := s
  cases p <;> simp only [stepP] <;> (try split) <;> simp

theorem finishPush_frame (s : St) :
    (finishPush s).c = s.c ∧ (finishPush s).recv = s.recv ∧ s.pushed.length ≤ (finishPush s).pushed.length ∧ (finishPush s).cap = s.cap := by
  have h1 := stepP_frame s
  have h2 := stepP_frame (stepP s)
  have h3 := stepP_frame (stepP (stepP s))
  have h4 := stepP_frame (stepP (stepP (stepP s)))
  have h5 := stepP_frame (stepP (stepP (stepP (stepP s))))
  have h6 := stepP_frame (stepP (stepP (stepP (stepP (stepP s)))))
  unfold finishPush
  refine ⟨?_, ?_, ?_, ?_⟩
  · rw [h6.1, h5.1, h4.1, h3.1, h2.1, h1.1]
  · rw [h6.2.1, h5.2.1, h4.2.1, h3.2.1, h2.2.1, h1.2.1]
  · omega
  · rw [h6.2.2.2, h5.2.2.2, h4.2.2.2, h3.2.2.2, h2.2.2.2, h1.2.2.2]

/-- how far the producer is from the end of its call -/
def PPC.dist : PPC → Nat
  | .rest => 0 | .notify => 1 | .xchg => 2 | .blk => 3 | .inc => 4 | .write _ => 5 | .full _ => 6

theorem stepP_dist (s : St) : (stepP s).p.dist ≤ s.p.dist - 1 := by
  obtain ⟨cap, base, size, blocked, signal, buf, tin, tout, notif, pushed, recv, p, c⟩ := s
  cases p <;> simp only [stepP] <;> (try split) <;> simp [PPC.dist]

theorem finishPush_rest (s : St) : (finishPush s).p = .rest := by
  have h1 := stepP_dist s
  have h2 := stepP_dist (stepP s)
  have h3 := stepP_dist (stepP (stepP s))
  have h4 := stepP_dist (stepP (stepP (stepP s)))
  have h5 := stepP_dist (stepP (stepP (stepP (stepP s))))
  have h6 := stepP_dist (stepP (stepP (stepP (stepP (stepP s)))))
  have h0 : s.p.dist ≤ 6 := by cases s.p <;> simp [PPC.dist]
  have : (finishPush s).p.dist = 0 := by unfold finishPush; omega
  revert this
  cases (finishPush s).p <;> simp [PPC.dist]

/-- explicit actions, for writing down witness histories -/
inductive Act where
  | call (v : Nat) | p | c
  deriving DecidableEq, Repr

def runAct (s : St) : Act → St
  | .call v => if s.p = .rest then callPush s v else s
  | .p => stepP s
  | .c => stepC s

def run (s : St) (as : List Act) : St := as.foldl runAct s

theorem reachable_runAct {s : St} (hr : Reachable s) (a : Act) : Reachable (runAct s a) := by
  cases a with
  | call v =>
    simp only [runAct]
    split
    · exact reachable_call hr v (by assumption)
    · exact hr
  | p => exact reachable_stepP hr
  | c => exact reachable_stepC hr

theorem reachable_run {s : St} (hr : Reachable s) (as : List Act) : Reachable (run s as) := by
  induction as generalizing s with
  | nil => exact hr
  | cons a as ih => exact ih (reachable_runAct hr a)

end SquidModel.Ipc.Queue
