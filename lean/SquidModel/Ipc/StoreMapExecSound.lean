/-
Every configuration the executable scheduler of mode A (`StoreMapExec`, the one whose trace is compared with the real code) visits
is `Reachable`, so the property theorems apply to exactly the runs that the trace validation exercises.
-/
import SquidModel.Ipc.StoreMapExec

namespace SquidModel.Ipc.StoreMap

def cfgOf (s : Sys) : Cfg := (s.sh, s.ths.map (·.pc))

theorem advance_go_pc (t : Th) (ops : List (Nat × String × Op)) : (advance.go t ops).pc = t.pc := by
  induction ops with
  | nil => rfl
  | cons a rest ih =>
    obtain ⟨i, n, op⟩ := a
    unfold advance.go
    split
    · rfl
    · exact ih

theorem advance_pc (t : Th) : (advance t).pc = t.pc := by
  unfold advance
  split
  · exact advance_go_pc t t.ops
  · rfl

theorem stepSys_reachable (s : Sys) (tid : Nat) (hr : Reachable (cfgOf s)) : Reachable (cfgOf (stepSys s tid)) := by
  unfold stepSys
  split
  · exact hr
  · rename_i t ht
    have hlt : tid < s.ths.length := (List.getElem?_eq_some_iff.mp ht).1
    have hget : s.ths[tid] = t := (List.getElem?_eq_some_iff.mp ht).2
    have hlen : tid < (s.ths.map (·.pc)).length := by simpa using hlt
    have hpc : (s.ths.map (·.pc))[tid] = t.pc := by simp [hget]
    have hr' : Reachable (s.sh, s.ths.map (·.pc)) := hr
    split
    · split
      · exact hr
      · rename_i i n op _
        split
        · exact hr
        · rename_i sh' pc' r hc
          have := Reachable.step hr' (Step.call s.sh (s.ths.map (·.pc)) tid hlen op sh' pc' r (by rw [hpc]; exact hc))
          simpa [cfgOf, List.map_set, advance_pc] using this
    · rename_i hrest
      have hstep := Reachable.step hr' (Step.act s.sh (s.ths.map (·.pc)) tid hlen (by rw [hpc]; simpa using hrest) (chAtomic s.sh t.pc))
      rw [hpc] at hstep
      simp only [cfgOf]
      generalize hact : act s.sh t.pc (chAtomic s.sh t.pc) = r at hstep ⊢
      obtain ⟨sh', pc', ev, res⟩ := r
      simpa [List.map_set, advance_pc] using hstep

theorem foldl_stepSys_reachable (sched : List Nat) (s : Sys) (hr : Reachable (cfgOf s)) :
    Reachable (cfgOf (sched.foldl stepSys s)) := by
  induction sched generalizing s with
  | nil => exact hr
  | cons a rest ih => exact ih _ (stepSys_reachable s a hr)

theorem drain_reachable (fuel : Nat) (s : Sys) (hr : Reachable (cfgOf s)) : Reachable (cfgOf (drain fuel s)) := by
  induction fuel generalizing s with
  | zero => exact hr
  | succ n ih =>
    unfold drain
    split
    · exact hr
    · exact ih _ (foldl_stepSys_reachable _ s hr)

theorem initSys_reachable (n : Nat) (opsPer : List (List (String × Op))) : Reachable (cfgOf (initSys n opsPer)) := by
  have : cfgOf (initSys n opsPer) = (Sh.init n, List.replicate opsPer.length PC.idle) := by
    simp only [cfgOf, initSys, List.map_map]
    congr 1
    apply List.ext_getElem
    · simp
    · intro i h1 h2
      simp [advance_pc]
  rw [this]
  exact Reachable.init n opsPer.length

/-- the final configuration of every scenario the driver prints is reachable -/
theorem scenario_reachable (n : Nat) (opsPer : List (List (String × Op))) (schedule : List Nat) (fuel : Nat) :
    Reachable (cfgOf (drain fuel (schedule.foldl stepSys (initSys n opsPer)))) :=
  drain_reachable _ _ (foldl_stepSys_reachable _ _ (initSys_reachable n opsPer))

end SquidModel.Ipc.StoreMap
