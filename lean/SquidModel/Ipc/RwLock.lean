/-
Model of `Ipc::ReadWriteLock` (src/ipc/ReadWriteLock.{h,cc}) at the granularity of single atomic operations.

Shared state = the six atomics. A thread is described by a program counter: six *rest* states (what it holds between
calls) and, for every method, one pc per atomic operation still to be performed (`xyN` = "about to perform that operation").
`begin` starts a method from a rest state (only where the caller contract allows it), `act` performs the pending atomic
operation. Loads made only by `assert(...)` are not steps (they have no effect); the asserted conditions are proved separately.
Sequentially consistent atomics are assumed.
-/
namespace SquidModel.Ipc.RwLock

structure Sh where
  readers : Nat      -- R
  writing : Bool     -- W
  appending : Bool   -- A
  updating : Bool    -- U (atomic_flag)
  readLevel : Nat    -- RL
  writeLevel : Nat   -- WL
  deriving DecidableEq, Repr

def Sh.init : Sh := ⟨0, false, false, false, 0, 0⟩

inductive PC where
  -- rest states
  | idle | holdS | holdH | holdE | holdA | holdD
  -- lockShared
  | ls0 | ls1 | ls2 | lsOk | lsFail
  -- lockHeaders
  | lh0 | lh1 | lh2 | lhOk | lhFail | lh3 | lhU1 | lhU2
  -- lockExclusive (+ finalizeExclusive)
  | le0 | le3 | leOk | leFail | leNF
  -- unlockShared
  | us1 | us2
  -- unlockExclusive
  | ue1 | ue2 | ue3
  -- unlockHeaders
  | uh1 | uh3 | uh4
  -- switchExclusiveToShared
  | sw1 | sw2 | sw4 | sw5 | sw6
  -- unlockSharedAndSwitchToExclusive
  | ux1 | ux3 | ux4 | ux7 | uxOk | uxFail | uy3 | uy4 | uy5
  -- startAppending
  | sa1
  -- stopAppendingAndRestoreExclusive
  | st2 | st3
  deriving DecidableEq, Repr

inductive Op where
  | lockShared | lockExclusive | lockHeaders | unlockShared | unlockExclusive | unlockHeaders
  | switchExclusiveToShared | unlockSharedAndSwitchToExclusive | startAppending | stopAppending
  deriving DecidableEq, Repr

def PC.isRest : PC → Bool
  | .idle | .holdS | .holdH | .holdE | .holdA | .holdD => true
  | _ => false

/-- start a method; `none` when the caller contract does not allow the call in this rest state -/
def begin : PC → Op → Option PC
  | .idle, .lockShared => some .ls0
  | .idle, .lockExclusive => some .le0
  | .idle, .lockHeaders => some .lh0
  | .holdS, .unlockShared => some .us1
  | .holdS, .unlockSharedAndSwitchToExclusive => some .ux1
  | .holdH, .unlockHeaders => some .uh1
  | .holdE, .unlockExclusive => some .ue1
  | .holdA, .unlockExclusive => some .ue1
  | .holdD, .unlockExclusive => some .ue1
  | .holdE, .switchExclusiveToShared => some .sw1
  | .holdA, .switchExclusiveToShared => some .sw1
  | .holdD, .switchExclusiveToShared => some .sw1
  | .holdE, .startAppending => some .sa1
  | .holdD, .startAppending => some .sa1
  | .holdA, .stopAppending => some .st2
  | _, _ => none

/-- what an atomic operation did, for trace validation: object, kind, old value, new value -/
structure Ev where
  obj : String
  kind : String
  old : Nat
  new : Nat
  deriving DecidableEq, Repr

def b2n (b : Bool) : Nat := if b then 1 else 0

/-- the pending atomic operation of a non-rest pc: new shared state, new pc, event, and the method result when it returns -/
def act (s : Sh) : PC → Sh × PC × Ev × Option Bool
  -- lockShared
  | .ls0 => ({ s with readLevel := s.readLevel + 1 }, .ls1, ⟨"RL", "add", s.readLevel, s.readLevel + 1⟩, none)
  | .ls1 => (s, if s.writeLevel = 0 then .lsOk else .ls2, ⟨"WL", "load", s.writeLevel, s.writeLevel⟩, none)
  | .ls2 => (s, if s.appending then .lsOk else .lsFail, ⟨"A", "load", b2n s.appending, b2n s.appending⟩, none)
  | .lsOk => ({ s with readers := s.readers + 1 }, .holdS, ⟨"R", "add", s.readers, s.readers + 1⟩, some true)
  | .lsFail => ({ s with readLevel := s.readLevel - 1 }, .idle, ⟨"RL", "sub", s.readLevel, s.readLevel - 1⟩, some false)
  -- lockHeaders
  | .lh0 => ({ s with readLevel := s.readLevel + 1 }, .lh1, ⟨"RL", "add", s.readLevel, s.readLevel + 1⟩, none)
  | .lh1 => (s, if s.writeLevel = 0 then .lhOk else .lh2, ⟨"WL", "load", s.writeLevel, s.writeLevel⟩, none)
  | .lh2 => (s, if s.appending then .lhOk else .lhFail, ⟨"A", "load", b2n s.appending, b2n s.appending⟩, none)
  | .lhOk => ({ s with readers := s.readers + 1 }, .lh3, ⟨"R", "add", s.readers, s.readers + 1⟩, none)
  | .lhFail => ({ s with readLevel := s.readLevel - 1 }, .idle, ⟨"RL", "sub", s.readLevel, s.readLevel - 1⟩, some false)
  | .lh3 => ({ s with updating := true }, if s.updating then .lhU1 else .holdH, ⟨"U", "tas", b2n s.updating, 1⟩,
             if s.updating then none else some true)
  | .lhU1 => ({ s with readers := s.readers - 1 }, .lhU2, ⟨"R", "sub", s.readers, s.readers - 1⟩, none)
  | .lhU2 => ({ s with readLevel := s.readLevel - 1 }, .idle, ⟨"RL", "sub", s.readLevel, s.readLevel - 1⟩, some false)
  -- lockExclusive
  | .le0 => ({ s with writeLevel := s.writeLevel + 1 }, if s.writeLevel = 0 then .le3 else .leNF,
             ⟨"WL", "add", s.writeLevel, s.writeLevel + 1⟩, none)
  | .le3 => (s, if s.readLevel = 0 then .leOk else .leFail, ⟨"RL", "load", s.readLevel, s.readLevel⟩, none)
  | .leOk => ({ s with writing := true }, .holdE, ⟨"W", "store", b2n s.writing, 1⟩, some true)
  | .leFail => ({ s with writeLevel := s.writeLevel - 1 }, .idle, ⟨"WL", "sub", s.writeLevel, s.writeLevel - 1⟩, some false)
  | .leNF => ({ s with writeLevel := s.writeLevel - 1 }, .idle, ⟨"WL", "sub", s.writeLevel, s.writeLevel - 1⟩, some false)
  -- unlockShared
  | .us1 => ({ s with readers := s.readers - 1 }, .us2, ⟨"R", "sub", s.readers, s.readers - 1⟩, none)
  | .us2 => ({ s with readLevel := s.readLevel - 1 }, .idle, ⟨"RL", "sub", s.readLevel, s.readLevel - 1⟩, some true)
  -- unlockExclusive
  | .ue1 => ({ s with appending := false }, .ue2, ⟨"A", "store", b2n s.appending, 0⟩, none)
  | .ue2 => ({ s with writing := false }, .ue3, ⟨"W", "store", b2n s.writing, 0⟩, none)
  | .ue3 => ({ s with writeLevel := s.writeLevel - 1 }, .idle, ⟨"WL", "sub", s.writeLevel, s.writeLevel - 1⟩, some true)
  -- unlockHeaders
  | .uh1 => ({ s with updating := false }, .uh3, ⟨"U", "clear", b2n s.updating, 0⟩, none)
  | .uh3 => ({ s with readers := s.readers - 1 }, .uh4, ⟨"R", "sub", s.readers, s.readers - 1⟩, none)
  | .uh4 => ({ s with readLevel := s.readLevel - 1 }, .idle, ⟨"RL", "sub", s.readLevel, s.readLevel - 1⟩, some true)
  -- switchExclusiveToShared
  | .sw1 => ({ s with readLevel := s.readLevel + 1 }, .sw2, ⟨"RL", "add", s.readLevel, s.readLevel + 1⟩, none)
  | .sw2 => ({ s with readers := s.readers + 1 }, .sw4, ⟨"R", "add", s.readers, s.readers + 1⟩, none)
  | .sw4 => ({ s with appending := false }, .sw5, ⟨"A", "store", b2n s.appending, 0⟩, none)
  | .sw5 => ({ s with writing := false }, .sw6, ⟨"W", "store", b2n s.writing, 0⟩, none)
  | .sw6 => ({ s with writeLevel := s.writeLevel - 1 }, .holdS, ⟨"WL", "sub", s.writeLevel, s.writeLevel - 1⟩, some true)
  -- unlockSharedAndSwitchToExclusive
  | .ux1 => ({ s with writeLevel := s.writeLevel + 1 }, if s.writeLevel = 0 then .ux3 else .uy3,
             ⟨"WL", "add", s.writeLevel, s.writeLevel + 1⟩, none)
  | .ux3 => ({ s with readers := s.readers - 1 }, .ux4, ⟨"R", "sub", s.readers, s.readers - 1⟩, none)
  | .ux4 => ({ s with readLevel := s.readLevel - 1 }, .ux7, ⟨"RL", "sub", s.readLevel, s.readLevel - 1⟩, none)
  | .ux7 => (s, if s.readLevel = 0 then .uxOk else .uxFail, ⟨"RL", "load", s.readLevel, s.readLevel⟩, none)
  | .uxOk => ({ s with writing := true }, .holdE, ⟨"W", "store", b2n s.writing, 1⟩, some true)
  | .uxFail => ({ s with writeLevel := s.writeLevel - 1 }, .idle, ⟨"WL", "sub", s.writeLevel, s.writeLevel - 1⟩, some false)
  | .uy3 => ({ s with readers := s.readers - 1 }, .uy4, ⟨"R", "sub", s.readers, s.readers - 1⟩, none)
  | .uy4 => ({ s with readLevel := s.readLevel - 1 }, .uy5, ⟨"RL", "sub", s.readLevel, s.readLevel - 1⟩, none)
  | .uy5 => ({ s with writeLevel := s.writeLevel - 1 }, .idle, ⟨"WL", "sub", s.writeLevel, s.writeLevel - 1⟩, some false)
  -- startAppending
  | .sa1 => ({ s with appending := true }, .holdA, ⟨"A", "store", b2n s.appending, 1⟩, some true)
  -- stopAppendingAndRestoreExclusive
  | .st2 => ({ s with appending := false }, .st3, ⟨"A", "store", b2n s.appending, 0⟩, none)
  | .st3 => (s, if s.readLevel = 0 then .holdE else .holdD, ⟨"RL", "load", s.readLevel, s.readLevel⟩,
             some (s.readLevel = 0))
  -- rest states perform nothing
  | p => (s, p, ⟨"-", "none", 0, 0⟩, none)

abbrev Cfg := Sh × List PC

/-- one step of the system: some thread starts a method it may call, or performs its pending atomic operation -/
inductive Step : Cfg → Cfg → Prop where
  | begin (s : Sh) (ts : List PC) (i : Nat) (h : i < ts.length) (op : Op) (p' : PC)
      (hb : begin ts[i] op = some p') : Step (s, ts) (s, ts.set i p')
  | act (s : Sh) (ts : List PC) (i : Nat) (h : i < ts.length) (hn : ts[i].isRest = false) :
      Step (s, ts) ((act s ts[i]).1, ts.set i (act s ts[i]).2.1)

inductive Reachable : Cfg → Prop where
  | init (n : Nat) : Reachable (Sh.init, List.replicate n PC.idle)
  | step {c c' : Cfg} : Reachable c → Step c c' → Reachable c'

end SquidModel.Ipc.RwLock
