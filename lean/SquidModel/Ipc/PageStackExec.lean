/-
Executable scheduler over the PageStack model: threads with op lists, a schedule of thread ids, one atomic operation per
step; mirrors harness/c53.cc so that the two traces can be compared line by line.
-/
import SquidModel.Ipc.PageStack

namespace SquidModel.Ipc.PageStack

/-- scenario ops: `P` = pop, `U k` = push the page at position `k mod #held` of the held list -/
inductive Tok where
  | P
  | U (k : Nat)
  deriving Repr, DecidableEq

structure XTh where
  th : Th
  ops : List Tok       -- remaining calls
  cur : String         -- label of the call in progress (for the result string)
  res : String
  deriving Repr

/-- run a thread at rest up to its next atomic operation: start the next call it can make; calls that finish without an
atomic operation (pop on a zero-capacity stack) complete on the spot. Returns the history events produced. -/
def advanceGo (cap tid : Nat) : List Tok → XTh → List String → XTh × List String
  | [], x, evs => ({ x with ops := [] }, evs)
  | .P :: rest, x, evs =>
    match begin cap x.th .pop with
    | some (t', none) => ({ x with th := t', ops := rest, cur := "P" }, s!"{tid}:cP" :: evs)
    | some (t', some _) =>
      advanceGo cap tid rest { x with th := t', res := x.res ++ "P=0," } (s!"{tid}:rP0" :: s!"{tid}:cP" :: evs)
    | none => advanceGo cap tid rest x evs
  | .U k :: rest, x, evs =>
    match x.th.held[k % x.th.held.length]? with
    | none => advanceGo cap tid rest x evs          -- holds nothing: skipped
    | some id =>
      match begin cap x.th (.push id) with
      | some (t', _) => ({ x with th := t', ops := rest, cur := s!"U{id + 1}" }, s!"{tid}:cU{id + 1}" :: evs)
      | none => advanceGo cap tid rest x evs

def advance (cap tid : Nat) (x : XTh) : XTh × List String :=
  match x.th.pc with
  | .idle => advanceGo cap tid x.ops x []
  | _ => (x, [])

def evString (tid : Nat) (e : Ev) : String :=
  let obj := match e.obj with
    | none => "S"
    | some i => s!"n{i}"
  s!"{tid}:{obj}.{e.kind}.{e.old}>{e.new}"

structure Sys where
  sh : Sh
  ths : List XTh
  log : List String    -- reversed
  hist : List String   -- reversed

def resString (cur : String) : Res → String × String     -- (appended to res, history event suffix)
  | .popFail => ("P=0,", "rP0")
  | .popOk n => (s!"P={n},", s!"rP{n}")
  | .pushDone => (cur ++ "=1,", "r" ++ cur)

def stepSys (cap H : Nat) (s : Sys) (tid : Nat) : Sys :=
  match s.ths[tid]? with
  | none => s
  | some x =>
    if x.th.pc.isRest then s
    else
      let r := act H s.sh x.th
      let (res', hev) := match r.2.2.2 with
        | some rs => let p := resString x.cur rs; (x.res ++ p.1, [s!"{tid}:{p.2}"])
        | none => (x.res, [])
      let a := advance cap tid { x with th := r.2.1, res := res' }
      { sh := r.1, ths := s.ths.set tid a.1, log := evString tid r.2.2.1 :: s.log, hist := a.2 ++ hev ++ s.hist }

def allDone (s : Sys) : Bool := s.ths.all fun x => x.th.pc.isRest

def drain (cap H : Nat) : Nat → Sys → Sys
  | 0, s => s
  | fuel + 1, s =>
    if allDone s then s
    else drain cap H fuel ((List.range s.ths.length).foldl (stepSys cap H) s)

/-- sequential pops by one extra thread until one fails: how many pages come out of the quiescent stack -/
def soloPop (H : Nat) : Nat → Sh → Th → Sh × Th × Option Res
  | 0, s, t => (s, t, none)
  | fuel + 1, s, t =>
    let r := act H s t
    match r.2.2.2 with
    | some rs => (r.1, r.2.1, some rs)
    | none => if r.2.1.pc.isRest then (r.1, r.2.1, none) else soloPop H fuel r.1 r.2.1

def drainPops (cap H : Nat) : Nat → Sh → Nat → Nat
  | 0, _, got => got
  | fuel + 1, s, got =>
    match begin cap ⟨.idle, []⟩ .pop with
    | some (t, none) =>
      match soloPop H (2 * H + 8) s t with
      | (s', _, some (.popOk _)) => drainPops cap H fuel s' (got + 1)
      | _ => got
    | _ => got

def joinOr (sep : String) (xs : List String) : String := if xs.isEmpty then "-" else sep.intercalate xs

def finalString (H : Nat) (s : Sh) : String :=
  let inners := (List.range H).flatMap fun l => (List.range (2 ^ l)).map fun o => toString (pack (s.inner l o))
  let leaves := (List.range (2 ^ H)).map fun o => toString (s.leaf o)
  s!"{s.size}/" ++ ",".intercalate (inners ++ leaves)

/-- initial holdings for mode E: page number p (1-based) is held by thread (p-1) % n, ascending -/
def initialHeld (cap n t : Nat) : List Nat := (List.range cap).filter fun id => id % n = t

/-- the configuration a scenario starts stepping from: the stack as constructed, every thread run up to its first atomic
operation (harness: `Sched::prime`) -/
def startSys (cap : Nat) (full : Bool) (opsPer : List (List Tok)) : Sys :=
  let H := (measure cap).innerLevelCount
  let n := opsPer.length
  let start := (List.range n).zip opsPer |>.map fun (tid, ops) =>
    advance cap tid { th := ⟨.idle, if full then [] else initialHeld cap n tid⟩, ops := ops, cur := "", res := "" }
  { sh := if full then Sh.full cap H else Sh.empty, ths := start.map (·.1), log := [], hist := (start.map (·.2)).reverse.flatten }

/-- the schedule, then round-robin until every thread has finished -/
def finalSys (cap : Nat) (full : Bool) (opsPer : List (List Tok)) (schedule : List Nat) : Sys :=
  let H := (measure cap).innerLevelCount
  let s1 := schedule.foldl (stepSys cap H) (startSys cap full opsPer)
  let total := (opsPer.map List.length).foldl (· + ·) 0
  drain cap H ((4 * H + 12) * (total + 1) * (total + 2)) s1

def runScenario (cap : Nat) (full : Bool) (opsPer : List (List Tok)) (schedule : List Nat) : String :=
  let H := (measure cap).innerLevelCount
  let s2 := finalSys cap full opsPer schedule
  let heldStr := ";".intercalate (s2.ths.map fun x => joinOr "," (x.th.held.map fun id => toString (id + 1)))
  let nheld := (s2.ths.map fun x => x.th.held.length).foldl (· + ·) 0
  let got := drainPops cap H (cap + 1) s2.sh 0
  let res := ";".intercalate (s2.ths.map fun x => if x.res.isEmpty then "-" else x.res)
  s!"log={joinOr "," s2.log.reverse} hist={joinOr "," s2.hist.reverse} res={res} final={finalString H s2.sh} held={heldStr} q={got}/{cap - nheld} viol=-"

end SquidModel.Ipc.PageStack
