/-
Executable scheduler over the ReadWriteLock model: threads with op lists, a schedule of thread ids, one atomic
operation per step; mirrors harness/c54.cc so that the two traces can be compared line by line.
-/
import SquidModel.Ipc.RwLock

namespace SquidModel.Ipc.RwLock

structure Th where
  pc : PC
  ops : List (String × Op)      -- remaining calls
  cur : String                  -- name of the call in progress
  res : String
  deriving Repr

def opOfString : String → Option Op
  | "LS" => some .lockShared | "LE" => some .lockExclusive | "LH" => some .lockHeaders
  | "US" => some .unlockShared | "UE" => some .unlockExclusive | "UH" => some .unlockHeaders
  | "SW" => some .switchExclusiveToShared | "UX" => some .unlockSharedAndSwitchToExclusive
  | "SA" => some .startAppending | "ST" => some .stopAppending
  | _ => none

/-- run a thread at rest up to its next atomic operation: skip calls its contract forbids -/
def advance (t : Th) : Th :=
  if t.pc.isRest then
    let rec go : List (String × Op) → Th
      | [] => { t with ops := [] }
      | (n, op) :: rest =>
        match begin t.pc op with
        | some p => { t with pc := p, ops := rest, cur := n }
        | none => go rest
    go t.ops
  else t

def evString (tid : Nat) (e : Ev) : String :=
  s!"{tid}:{e.obj}.{e.kind}.{e.old}>{e.new}"

structure Sys where
  sh : Sh
  ths : List Th
  log : List String    -- reversed

def stepSys (s : Sys) (tid : Nat) : Sys :=
  match s.ths[tid]? with
  | none => s
  | some t =>
    if t.pc.isRest then s
    else
      let (sh', pc', ev, r) := act s.sh t.pc
      let res' := match r with
        | some b => t.res ++ t.cur ++ "=" ++ (if b then "1" else "0") ++ ","
        | none => t.res
      let t' := advance { t with pc := pc', res := res' }
      { sh := sh', ths := s.ths.set tid t', log := evString tid ev :: s.log }

def allDone (s : Sys) : Bool := s.ths.all fun t => t.pc.isRest

def drain : Nat → Sys → Sys
  | 0, s => s
  | fuel + 1, s =>
    if allDone s then s
    else drain fuel ((List.range s.ths.length).foldl stepSys s)

def pcName : PC → String
  | .idle => "idle" | .holdS => "holdS" | .holdH => "holdH" | .holdE => "holdE" | .holdA => "holdA" | .holdD => "holdD"
  | _ => "busy"

/-- run threads 0..k-1 up to their first atomic operation (the harness's `prime()`) -/
def primeFrom (s : Sys) : Nat → Sys
  | 0 => s
  | k + 1 =>
    let s' := primeFrom s k
    match s'.ths[k]? with
    | some t => { s' with ths := s'.ths.set k (advance t) }
    | none => s'

def initSys (opsPer : List (List (String × Op))) : Sys :=
  { sh := Sh.init, ths := opsPer.map fun ops => { pc := .idle, ops := ops, cur := "", res := "" }, log := [] }

def finalSys (opsPer : List (List (String × Op))) (schedule : List Nat) : Sys :=
  let s0 := primeFrom (initSys opsPer) opsPer.length
  let s1 := schedule.foldl stepSys s0
  let total := (opsPer.map List.length).foldl (· + ·) 0
  drain (12 * total + 12) s1

def runScenario (opsPer : List (List (String × Op))) (schedule : List Nat) : String :=
  let s2 := finalSys opsPer schedule
  let log := if s2.log.isEmpty then "-" else ",".intercalate s2.log.reverse
  let res := ";".intercalate (s2.ths.map fun t => if t.res.isEmpty then "-" else t.res)
  let f := s2.sh
  let fin := s!"{f.readers},{b2n f.writing},{b2n f.appending},{b2n f.updating},{f.readLevel},{f.writeLevel}"
  let modes := ",".intercalate (s2.ths.map fun t => pcName t.pc)
  s!"log={log} res={res} final={fin} modes={modes} viol=-"

end SquidModel.Ipc.RwLock
