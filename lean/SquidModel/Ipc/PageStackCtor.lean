/-
`IdSet::makeFullBeforeSharing` statement by statement (`fillAllNodes`, `truncateExtras`, `leafTruncate`, `innerTruncate`:
the non-atomic initialisation of a stack created full; `leafTruncate` as repaired by commit 1ff5fc0, the pre-fix variant kept
separately with the undefined shift as an explicit outcome), and its
agreement with the closed form `Sh.full` that the invariant proof starts from.
-/
import SquidModel.Ipc.PageStack

namespace SquidModel.Ipc.PageStack

def allOnes : Nat := 2 ^ 64 - 1

/-- `fillAllNodes`: every leaf all-ones; inner nodes of level `l` get `pagesBelow = 64·2^(H-1-l)` on both sides -/
def fillAllNodes (H : Nat) : Sh :=
  { size := 0, leaf := fun _ => allOnes, inner := fun l _ => (BitsPerLeaf * 2 ^ (H - 1 - l), BitsPerLeaf * 2 ^ (H - 1 - l)) }

/-- `leafTruncate(pos, idsToKeep)` (fix 1ff5fc0): `if (idsToKeep) node >>= BitsPerLeaf - idsToKeep; else node = 0;`.
The result is `none` only if a shift by 64 or more were executed — impossible now (`leafTruncate_defined`). -/
def leafTruncate (s : Sh) (o idsToKeep : Nat) : Option Sh :=
  if idsToKeep ≠ 0 then
    if BitsPerLeaf - idsToKeep ≥ 64 then none
    else some { s with leaf := setLeaf s.leaf o (s.leaf o >>> (BitsPerLeaf - idsToKeep)) }
  else some { s with leaf := setLeaf s.leaf o 0 }

theorem leafTruncate_defined (s : Sh) (o idsToKeep : Nat) : (leafTruncate s o idsToKeep).isSome = true := by
  unfold leafTruncate
  split
  · rw [if_neg (by simp only [BitsPerLeaf]; omega)]; rfl
  · rfl

/-- PRE-FIX variant (before commit 1ff5fc0): `node >>= BitsPerLeaf - idsToKeep` unconditionally; with `idsToKeep = 0` this is
a shift of a 64-bit word by 64 = undefined behaviour (`none`) -/
def leafTruncatePreFix (s : Sh) (o idsToKeep : Nat) : Option Sh :=
  if BitsPerLeaf - idsToKeep ≥ 64 then none
  else some { s with leaf := setLeaf s.leaf o (s.leaf o >>> (BitsPerLeaf - idsToKeep)) }

/-- `std::fill_n(valueAddress(pos) + 1, n, 0)` -/
def zeroLeaves (s : Sh) (first : Nat) : Nat → Sh
  | 0 => s
  | n + 1 => zeroLeaves { s with leaf := setLeaf s.leaf first 0 } (first + 1) n

/-- `innerTruncate(pos, dir, toSubtract)` → (new tree, toSubtractNext); `dir = offset of the child % 2` -/
def innerTruncate (s : Sh) (l o dir toSubtract : Nat) : Sh × Nat :=
  let v := s.inner l o
  if dir = 0 then
    ({ s with inner := setInner s.inner l o (v.1 - toSubtract, 0) }, toSubtract + v.2)
  else
    ({ s with inner := setInner s.inner l o (v.1, v.2 - toSubtract) }, toSubtract)

/-- the `do { … } while (!pos.atRoot())` loop of `truncateExtras`, from the node at `(l+1, o)` upwards -/
def truncateUp (s : Sh) : Nat → Nat → Nat → Sh
  | 0, _, _ => s
  | l + 1, o, toSubtract =>
    let r := innerTruncate s l (o / 2) (o % 2) toSubtract
    truncateUp r.1 l (o / 2) r.2

/-- `truncateExtras` -/
def truncateExtras (cap H : Nat) (s : Sh) : Option Sh :=
  let m := measure cap
  match leafTruncate s (cap / BitsPerLeaf) (cap % BitsPerLeaf) with
  | none => none
  | some s1 =>
    let rightLeaves := m.leafNodeCount - m.requestedLeafNodeCount
    let s2 := if rightLeaves > 1 then zeroLeaves s1 (cap / BitsPerLeaf + 1) (rightLeaves - 1) else s1
    some (truncateUp s2 H (cap / BitsPerLeaf) (BitsPerLeaf - cap % BitsPerLeaf))

/-- `makeFullBeforeSharing` followed by `size_ = capacity` (`PageStack::PageStack` with `createFull`) -/
def makeFull (cap : Nat) : Option Sh :=
  let m := measure cap
  let H := m.innerLevelCount
  let s := fillAllNodes H
  let r := if cap ≠ m.leafNodeCount * BitsPerLeaf then truncateExtras cap H s else some s
  r.map fun t => { t with size := cap }

/-- all words of the flattened array agree -/
def sameTree (H : Nat) (a b : Sh) : Bool :=
  a.size == b.size &&
  (List.range H).all (fun l => (List.range (2 ^ l)).all fun o => a.inner l o == b.inner l o) &&
  (List.range (2 ^ H)).all fun o => a.leaf o == b.leaf o

/-- the statement-by-statement constructor is defined and agrees with the closed form on the whole array -/
def ctorAgrees (cap : Nat) : Bool :=
  let H := (measure cap).innerLevelCount
  match makeFull cap with
  | none => false
  | some s => sameTree H s (Sh.full cap H)

/-- every capacity up to 520 (trees of height 2 to 5, all truncation shapes, including the multiples of 64) -/
theorem ctor_agrees_small : (List.range 521).all ctorAgrees = true := by decide +kernel

end SquidModel.Ipc.PageStack
