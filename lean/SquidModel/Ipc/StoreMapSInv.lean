/-
Slice ownership invariant of the StoreMap model: the free pool, the chains of the anchors and the slices sessions hold privately are
pairwise disjoint; an anchor's `start`/`next` pointers spell out its chain; what each session knows locally (its last linked
slice, the slice it is freeing, the slice it is reading) agrees with the shared state.
-/
import SquidModel.Ipc.StoreMapAux

namespace SquidModel.Ipc.StoreMap
open PC

/-- following `next` pointers from `x` visits exactly the list and ends at a negative id -/
def ChainFrom (sl : Nat → Slice) : Int → List Nat → Prop
  | x, [] => x < 0
  | x, s :: r => x = (s : Int) ∧ ChainFrom sl (sl s).next r

/-- the id a writer remembers as "last linked slice" -/
def lastOf : List Nat → Int
  | [] => -1
  | [a] => a
  | _ :: b :: r => lastOf (b :: r)

theorem chainFrom_congr {sl sl' : Nat → Slice} {x : Int} {l : List Nat} (h : ∀ s ∈ l, (sl' s).next = (sl s).next)
    (hc : ChainFrom sl x l) : ChainFrom sl' x l := by
  induction l generalizing x with
  | nil => exact hc
  | cons a r ih =>
    obtain ⟨h1, h2⟩ := hc
    refine ⟨h1, ?_⟩
    rw [h a (by simp)]
    exact ih (fun s hs => h s (by simp [hs])) h2

theorem lastOf_neg {l : List Nat} : lastOf l < 0 ↔ l = [] := by
  induction l with
  | nil => simp [lastOf]
  | cons a r ih =>
    cases r with
    | nil => simp [lastOf]
    | cons b r' => simp only [lastOf]; simp at ih ⊢; omega

theorem lastOf_mem {l : List Nat} (h : l ≠ []) : (lastOf l).toNat ∈ l ∧ lastOf l = ((lastOf l).toNat : Int) := by
  induction l with
  | nil => exact absurd rfl h
  | cons a r ih =>
    cases r with
    | nil => simp [lastOf]
    | cons b r' =>
      simp only [lastOf]
      have := ih (by simp)
      exact ⟨by simp [this.1], this.2⟩

theorem lastOf_append (l : List Nat) (s : Nat) : lastOf (l ++ [s]) = s := by
  induction l with
  | nil => simp [lastOf]
  | cons a r ih =>
    cases r with
    | nil => simp [lastOf]
    | cons b r' => simpa [lastOf] using ih

/-- appending a prepared slice `s` (its `next` is -1) behind the last slice of a chain -/
theorem chainFrom_append {sl : Nat → Slice} {x : Int} {l : List Nat} (s : Nat) (nd : (l ++ [s]).Nodup)
    (hc : ChainFrom sl x l) (hs : (sl s).next = -1) (hl : l ≠ []) :
    ChainFrom (upd sl (lastOf l).toNat { sl (lastOf l).toNat with next := s }) x (l ++ [s]) := by
  induction l generalizing x with
  | nil => exact absurd rfl hl
  | cons a r ih =>
    obtain ⟨h1, h2⟩ := hc
    cases r with
    | nil =>
      have has : a ≠ s := by intro e; simp [e] at nd
      simp only [lastOf, Int.toNat_natCast, List.cons_append, List.nil_append, ChainFrom]
      refine ⟨h1, by simp, ?_⟩
      simp [upd, Ne.symm has, hs]
    | cons b r' =>
      simp only [lastOf, List.cons_append, ChainFrom]
      simp only [List.cons_append] at nd
      have nd' : (b :: (r' ++ [s])).Nodup := (List.nodup_cons.mp nd).2
      have ha : a ∉ b :: (r' ++ [s]) := (List.nodup_cons.mp nd).1
      have hlm := lastOf_mem (l := b :: r') (by simp)
      have hne : (lastOf (b :: r')).toNat ≠ a := by
        intro e; apply ha; have := hlm.1; rw [e] at this; simp at this ⊢; rcases this with h | h
        · exact Or.inl h
        · exact Or.inr (Or.inl h)
      refine ⟨h1, ?_⟩
      have := ih (x := (sl a).next) (by simpa using nd') h2 (by simp)
      rw [show (upd sl (lastOf (b :: r')).toNat { sl (lastOf (b :: r')).toNat with next := ↑s } a).next = (sl a).next by
        simp [upd, Ne.symm hne]]
      exact this

theorem chainFrom_head {sl : Nat → Slice} {x : Int} {l : List Nat} (hc : ChainFrom sl x l) (hx : x ≥ 0) :
    ∃ r, l = x.toNat :: r ∧ ChainFrom sl (sl x.toNat).next r := by
  cases l with
  | nil => simp only [ChainFrom] at hc; omega
  | cons a r => obtain ⟨h1, h2⟩ := hc; subst h1; exact ⟨r, by simp, by simpa using h2⟩

theorem chainFrom_next_mem {sl : Nat → Slice} {x : Int} {l : List Nat} (hc : ChainFrom sl x l) (cur : Nat) (hm : cur ∈ l)
    (hn : (sl cur).next ≥ 0) : (sl cur).next.toNat ∈ l := by
  induction l generalizing x with
  | nil => simp at hm
  | cons a r ih =>
    obtain ⟨h1, h2⟩ := hc
    rcases List.mem_cons.mp hm with e | e
    · subst e
      obtain ⟨r', hr, _⟩ := chainFrom_head h2 hn
      rw [hr]; simp
    · exact List.mem_cons_of_mem _ (ih h2 e)

/-- what session `i` knows locally, in terms of the shared state -/
def TOK (i : Nat) (sh : Sh) : PC → Prop
  | .owW1 f _ | .owBail f | .owW2 f | .feW f | .fkUE f => (sh.a f).key ≠ 0 → (sh.a f).live = true
  | .fcSp f _ | .fcSt f _ _ => (sh.a f).live = true
  | .fcNext f cur _ _ => (sh.a f).live = false ∧ ChainFrom sh.slices cur (sh.a f).chain
  | .fcClrS f cur nx _ _ | .fcClrN f cur nx _ _ =>
    (sh.a f).live = false ∧ ∃ rest, (sh.a f).chain = cur :: rest ∧ ChainFrom sh.slices nx rest
  | .rwStart _ _ => True
  | .owSp f | .owCnt f => (sh.a f).live = true ∧ (sh.a f).chain = []
  | .holdW f _ last | .skW f last _ | .saLock f last => (sh.a f).live = true ∧ last = lastOf (sh.a f).chain
  | .asClrS f _ last s _ | .asClrN f _ last s _ =>
    (sh.a f).live = true ∧ last = lastOf (sh.a f).chain ∧ (sh.s s).owner = .priv i
  | .asSize f _ last s _ | .asLink f _ last s =>
    (sh.a f).live = true ∧ last = lastOf (sh.a f).chain ∧ (sh.s s).owner = .priv i ∧ (sh.s s).next = -1
  | .cwU f _ | .awA f _ | .awStop f | .awW f | .awH f | .awU f => (sh.a f).live = true
  | .holdR f | .rdStart f | .cfX f | .crU f | .orW f _ => (sh.a f).live = true
  | .rdSize f cur _ | .rdNext f cur _ => (sh.a f).live = true ∧ cur ∈ (sh.a f).chain
  | _ => True

structure SInv (c : Cfg) : Prop where
  pool_nodup : c.1.pool.Nodup
  pool_free : ∀ s ∈ c.1.pool, (c.1.s s).owner = .free
  chain_nodup : ∀ g, (c.1.a g).chain.Nodup
  chain_own : ∀ g, ∀ s ∈ (c.1.a g).chain, (c.1.s s).owner = .anchor g
  live_chain : ∀ g, (c.1.a g).live = true → ChainFrom c.1.slices (c.1.a g).start (c.1.a g).chain
  key_live : ∀ g, (c.1.a g).key ≠ 0 → (c.1.a g).live = true ∨ (c.1.a g).writer = .E
  thr : ∀ i (h : i < c.2.length), TOK i c.1 c.2[i]

theorem sinv_init (n k : Nat) : SInv (Sh.init n, List.replicate k PC.idle) := by
  constructor <;> simp [Sh.init, Sh.a, Sh.s, TOK, List.nodup_range]

/-- the local knowledge of a session on anchor `f` depends only on `key`, `live`, `chain` of `f`, the `next` pointers inside the chain, and
its private slices -/
theorem tok_congr {j : Nat} {sh sh' : Sh} {q : PC} {f : Nat} (ha : q.anch = some f)
    (hk : (sh'.a f).key = (sh.a f).key) (hl : (sh'.a f).live = (sh.a f).live) (hc : (sh'.a f).chain = (sh.a f).chain)
    (hn : ∀ s ∈ (sh.a f).chain, (sh'.s s).next = (sh.s s).next)
    (hp : ∀ s, (sh.s s).owner = .priv j → sh'.s s = sh.s s) (ht : TOK j sh q) : TOK j sh' q := by
  have hn' : ∀ s ∈ (sh.a f).chain, (sh'.slices s).next = (sh.slices s).next := hn
  cases q <;> simp only [PC.anch, Option.some.injEq, reduceCtorEq] at ha <;> subst ha <;> simp only [TOK] at ht ⊢ <;>
    (try simp only [hk, hl, hc]) <;> (try exact ht)
  · exact ⟨ht.1, chainFrom_congr hn' ht.2⟩
  · obtain ⟨h1, rest, h2, h3⟩ := ht
    exact ⟨h1, rest, h2, chainFrom_congr (fun s hs => hn' s (by rw [h2]; simp [hs])) h3⟩
  · obtain ⟨h1, rest, h2, h3⟩ := ht
    exact ⟨h1, rest, h2, chainFrom_congr (fun s hs => hn' s (by rw [h2]; simp [hs])) h3⟩
  · exact ⟨ht.1, ht.2.1, by rw [hp _ ht.2.2]; exact ht.2.2⟩
  · exact ⟨ht.1, ht.2.1, by rw [hp _ ht.2.2]; exact ht.2.2⟩
  · exact ⟨ht.1, ht.2.1, by rw [hp _ ht.2.2.1]; exact ht.2.2.1, by rw [hp _ ht.2.2.1]; exact ht.2.2.2⟩
  · exact ⟨ht.1, ht.2.1, by rw [hp _ ht.2.2.1]; exact ht.2.2.1, by rw [hp _ ht.2.2.1]; exact ht.2.2.2⟩

/-- a shared holder only needs `live` to stay and the chain to keep its members -/
theorem tok_reader_mono {j : Nat} {sh sh' : Sh} {q : PC} {f : Nat} (hs : PC.holdsS f q = true)
    (hl : (sh'.a f).live = (sh.a f).live) (hc : ∀ s ∈ (sh.a f).chain, s ∈ (sh'.a f).chain) (ht : TOK j sh q) : TOK j sh' q := by
  cases q <;> simp only [PC.holdsS, beq_iff_eq, Bool.false_eq_true] at hs <;> subst hs <;> simp only [TOK] at ht ⊢ <;>
    (try simp only [hl]) <;> (try exact ht)
  · exact ⟨ht.1, hc _ ht.2⟩
  · exact ⟨ht.1, hc _ ht.2⟩

/-- sessions that hold nothing on their anchor know nothing -/
theorem tok_trivial (j : Nat) (sh : Sh) (q : PC) (f : Nat) (ha : q.anch = some f) (hx : PC.holdsX f q = false)
    (hs : PC.holdsS f q = false) : TOK j sh q := by
  cases q <;> simp only [PC.anch, Option.some.injEq, reduceCtorEq] at ha <;> subst ha <;>
    simp_all [PC.holdsX, PC.holdsS, PC.xE, PC.xA, PC.xD, TOK]

theorem tok_none (j : Nat) (sh : Sh) (q : PC) (ha : q.anch = none) : TOK j sh q := by
  cases q <;> simp_all [PC.anch, TOK]

end SquidModel.Ipc.StoreMap
