/-
Footprint of the steps of sessions that do not hold anchor `f` strictly exclusively: what a reader of `f` relies on (the key, the
chain so far, the slices in it) stays as it is; the chain can only grow at its end.
-/
import SquidModel.Ipc.StoreMapSReach

namespace SquidModel.Ipc.StoreMap
open PC
set_option linter.unusedSimpArgs false
set_option linter.unusedVariables false

/-- the last slice of a chain has no successor -/
theorem chainFrom_last_next {sl : Nat → Slice} {x : Int} {l : List Nat} (hc : ChainFrom sl x l) (hl : l ≠ []) :
    (sl (lastOf l).toNat).next < 0 := by
  induction l generalizing x with
  | nil => exact absurd rfl hl
  | cons a r ih =>
    obtain ⟨_, h2⟩ := hc
    cases r with
    | nil => simpa [lastOf, ChainFrom] using h2
    | cons b r' => simpa [lastOf] using ih h2 (by simp)

/-- what a reader of entry `f` relies on is preserved from `sh` to `sh'` -/
def Stable (sh sh' : Sh) (f : Nat) : Prop :=
  (sh'.a f).key = (sh.a f).key ∧ (sh.a f).chain <+: (sh'.a f).chain ∧
  ∀ s ∈ (sh.a f).chain, (sh'.s s).owner = (sh.s s).owner ∧ (sh'.s s).size = (sh.s s).size ∧
    ((sh'.s s).next = (sh.s s).next ∨ (sh.s s).next < 0)

theorem stable_of_same {sh sh' : Sh} {f : Nat} (hsl : ∀ s ∈ (sh.a f).chain, sh'.s s = sh.s s)
    (hk : (sh'.a f).key = (sh.a f).key) (hc : (sh'.a f).chain = (sh.a f).chain) : Stable sh sh' f :=
  ⟨hk, by rw [hc]; exact List.prefix_refl _, fun s hs => by rw [hsl s hs]; exact ⟨rfl, rfl, Or.inl rfl⟩⟩

/-- the pcs whose pending operation writes slices, the pool, or `key`/`live`/`chain`/`start` of an anchor -/
def PC.loud : PC → Bool
  | owS _ | fcSt .. | fcClrS .. | fcClrN .. | rwStart .. | rwSplice .. | asClrS .. | asClrN .. | asSize .. | asLink .. => true
  | _ => false

theorem act_quiet (sh : Sh) (p : PC) (ch : Bool) (h : p.loud = false) :
    (act sh p ch).1.slices = sh.slices ∧ (act sh p ch).1.pool = sh.pool ∧
    ∀ g, ((act sh p ch).1.a g).key = (sh.a g).key ∧ ((act sh p ch).1.a g).chain = (sh.a g).chain := by
  cases p <;> simp only [PC.loud, reduceCtorEq] at h <;>
    simp only [act, Anchor.lockExclusive, Anchor.lockShared, Anchor.stopAppending, Anchor.unlockSharedAndSwitch] <;>
    (repeat' split) <;>
    (refine ⟨by first | rfl | trivial, by first | rfl | trivial, fun g => ?_⟩;
     first | trivial | (simp only [Sh.a, Sh.setA, upd]; first | (split <;> simp_all [Anchor.unlockShared, Anchor.unlockExclusive, Anchor.startAppending]) | simp))

theorem foot_act {sh : Sh} {ts : List PC} (hs : SInv (sh, ts)) (hA : ∀ g, AInv g (sh, ts)) (i : Nat) (h : i < ts.length)
    (ch : Bool) (f : Nat) (hnx : PC.xE f ts[i] = false) : Stable sh (act sh ts[i] ch).1 f := by
  have ht := hs.thr i h
  have hco := hs.chain_own
  simp only [] at ht hco
  cases hl : ts[i].loud with
  | false =>
    obtain ⟨h1, _, h3⟩ := act_quiet sh ts[i] ch hl
    exact stable_of_same (fun s _ => by simp [Sh.s, h1]) (h3 f).1 (h3 f).2
  | true =>
    generalize hp : ts[i] = p at hnx ht hl
    cases p <;> simp only [PC.loud, reduceCtorEq] at hl <;> simp only [act]
    case owS f' =>
      have hne : f ≠ f' := by intro e; subst e; simp [PC.xE] at hnx
      exact stable_of_same (fun s _ => rfl) (by rw [setA_a_other _ _ _ _ hne]) (by rw [setA_a_other _ _ _ _ hne])
    case fcSt f' sp r =>
      have hne : f ≠ f' := by intro e; subst e; simp [PC.xE] at hnx
      exact stable_of_same (fun s _ => rfl) (by rw [setA_a_other _ _ _ _ hne]) (by rw [setA_a_other _ _ _ _ hne])
    case rwStart f' r =>
      have hne : f ≠ f' := by intro e; subst e; simp [PC.xE] at hnx
      exact stable_of_same (fun s _ => rfl) (by rw [setA_a_other _ _ _ _ hne]) (by rw [setA_a_other _ _ _ _ hne])
    case rwSplice f' r =>
      have hne : f ≠ f' := by intro e; subst e; simp [PC.xE] at hnx
      exact stable_of_same (fun s _ => rfl) (by rw [setA_a_other _ _ _ _ hne]) (by rw [setA_a_other _ _ _ _ hne])
    case fcClrS f' cur nx sp r =>
      have hne : f ≠ f' := by intro e; subst e; simp [PC.xE] at hnx
      simp only [TOK] at ht
      obtain ⟨_, rest, hr, _⟩ := ht
      have hcur := hco f' cur (by rw [hr]; simp)
      refine stable_of_same ?_ rfl rfl
      intro s hsm
      have : s ≠ cur := by intro e; have := hco f s hsm; rw [e, hcur] at this; simp only [Owner.anchor.injEq] at this; exact hne this.symm
      exact setS_s_other _ _ _ _ this
    case fcClrN f' cur nx sp r =>
      have hne : f ≠ f' := by intro e; subst e; simp [PC.xE] at hnx
      simp only [TOK] at ht
      obtain ⟨_, rest, hr, _⟩ := ht
      have hcur := hco f' cur (by rw [hr]; simp)
      refine stable_of_same ?_ ?_ ?_
      · intro s hsm
        have : s ≠ cur := by intro e; have := hco f s hsm; rw [e, hcur] at this; simp only [Owner.anchor.injEq] at this; exact hne this.symm
        simp [Sh.s, Sh.setA, Sh.setS, upd, this]
      · simp [Sh.a, Sh.setA, Sh.setS, upd, hne]
      · simp [Sh.a, Sh.setA, Sh.setS, upd, hne]
    case asClrS f' app last s n =>
      simp only [TOK] at ht
      refine stable_of_same ?_ rfl rfl
      intro y hy
      have : y ≠ s := by intro e; have := hco f y hy; rw [e, ht.2.2] at this; simp at this
      exact setS_s_other _ _ _ _ this
    case asClrN f' app last s n =>
      simp only [TOK] at ht
      refine stable_of_same ?_ rfl rfl
      intro y hy
      have : y ≠ s := by intro e; have := hco f y hy; rw [e, ht.2.2] at this; simp at this
      exact setS_s_other _ _ _ _ this
    case asSize f' app last s n =>
      simp only [TOK] at ht
      refine stable_of_same ?_ rfl rfl
      intro y hy
      have : y ≠ s := by intro e; have := hco f y hy; rw [e, ht.2.2.1] at this; simp at this
      exact setS_s_other _ _ _ _ this
    case asLink f' app last s =>
      simp only [TOK] at ht
      obtain ⟨hlv, hlast, hos, hns⟩ := ht
      have hys : ∀ y ∈ (sh.a f).chain, y ≠ s := by
        intro y hy e; have := hco f y hy; rw [e, hos] at this; simp at this
      split
      · -- first slice: only `start` of f' and the owner of `s` change
        rename_i hneg
        by_cases hne : f = f'
        · subst hne
          refine ⟨by simp, by simp, ?_⟩
          intro y hy
          have := hys y hy
          simp [Sh.s, Sh.setA, Sh.setS, upd, this]
        · refine stable_of_same ?_ (by rw [setA_a_other _ _ _ _ hne]; rfl) (by rw [setA_a_other _ _ _ _ hne]; rfl)
          intro y hy
          have := hys y hy
          simp [Sh.s, Sh.setA, Sh.setS, upd, this]
      · rename_i hge
        have hnel : (sh.a f').chain ≠ [] := by intro e; have := lastOf_neg.mpr e; rw [← hlast] at this; exact hge this
        obtain ⟨hmem, _⟩ := lastOf_mem hnel
        rw [← hlast] at hmem
        by_cases hne : f = f'
        · subst hne
          refine ⟨by simp, by simp, ?_⟩
          intro y hy
          have h1 := hys y hy
          by_cases e : y = last.toNat
          · subst e
            have hneg := chainFrom_last_next (hs.live_chain f hlv) hnel
            simp only [] at hneg
            rw [← hlast] at hneg
            refine ⟨by simp [Sh.s, Sh.setA, Sh.setS, upd, h1], by simp [Sh.s, Sh.setA, Sh.setS, upd, h1], Or.inr ?_⟩
            simpa [Sh.s] using hneg
          · simp [Sh.s, Sh.setA, Sh.setS, upd, h1, e]
        · refine stable_of_same ?_ (by rw [setA_a_other _ _ _ _ hne]; rfl) (by rw [setA_a_other _ _ _ _ hne]; rfl)
          intro y hy
          have h1 := hys y hy
          have h2 : y ≠ last.toNat := by
            intro e; have := hco f y hy; rw [e, hco f' _ hmem] at this; simp only [Owner.anchor.injEq] at this; exact hne this.symm
          simp [Sh.s, Sh.setA, Sh.setS, upd, h1, h2]

theorem foot_call {sh : Sh} {ts : List PC} (hs : SInv (sh, ts)) (i : Nat) (h : i < ts.length) (op : Op) (sh' : Sh) (p' : PC)
    (res : Option String) (hc : call i sh ts[i] op = some (sh', p', res)) (f : Nat) (hnx : PC.xE f ts[i] = false) : Stable sh sh' f := by
  have hco := hs.chain_own
  have hpf := hs.pool_free
  simp only [] at hco hpf
  generalize hp : ts[i] = p at hc hnx
  cases p <;> cases op <;> simp only [call, reduceCtorEq] at hc
  case idle.OW f' ow => simp only [Option.some.injEq, Prod.mk.injEq] at hc; obtain ⟨rfl, _, _⟩ := hc; exact stable_of_same (fun _ _ => rfl) rfl rfl
  case idle.OR f' k =>
    split at hc
    · simp at hc
    · simp only [Option.some.injEq, Prod.mk.injEq] at hc; obtain ⟨rfl, _, _⟩ := hc; exact stable_of_same (fun _ _ => rfl) rfl rfl
  case idle.FE f' => simp only [Option.some.injEq, Prod.mk.injEq] at hc; obtain ⟨rfl, _, _⟩ := hc; exact stable_of_same (fun _ _ => rfl) rfl rfl
  case idle.FK k =>
    split at hc
    · simp at hc
    · simp only [Option.some.injEq, Prod.mk.injEq] at hc; obtain ⟨rfl, _, _⟩ := hc; exact stable_of_same (fun _ _ => rfl) rfl rfl
  case holdW.SK f' app last k m =>
    cases app <;> simp only [reduceCtorEq] at hc
    have hne : f ≠ f' := by intro e; subst e; simp [PC.xE] at hnx
    split at hc
    · simp at hc
    · split at hc
      · simp only [Option.some.injEq, Prod.mk.injEq] at hc; obtain ⟨rfl, _, _⟩ := hc
        exact stable_of_same (fun _ _ => rfl) (by rw [setA_a_other _ _ _ _ hne]) (by rw [setA_a_other _ _ _ _ hne])
      · simp only [Option.some.injEq, Prod.mk.injEq] at hc; obtain ⟨rfl, _, _⟩ := hc
        exact stable_of_same (fun _ _ => rfl) (by rw [setA_a_other _ _ _ _ hne]) (by rw [setA_a_other _ _ _ _ hne])
  case holdW.AS f' app last n =>
    split at hc
    · simp only [Option.some.injEq, Prod.mk.injEq] at hc; obtain ⟨rfl, _, _⟩ := hc; exact stable_of_same (fun _ _ => rfl) rfl rfl
    · rename_i s rest hpool
      simp only [Option.some.injEq, Prod.mk.injEq] at hc; obtain ⟨rfl, _, _⟩ := hc
      refine stable_of_same ?_ rfl rfl
      intro y hy
      have : y ≠ s := by
        intro e; have h1 := hco f y hy; have h2 := hpf s (by rw [hpool]; simp); rw [e, h2] at h1; simp at h1
      simp [Sh.s, Sh.setS, upd, this]
  case holdW.SA f' app last =>
    cases app <;> simp only [reduceCtorEq, Option.some.injEq, Prod.mk.injEq] at hc
    obtain ⟨rfl, _, _⟩ := hc; exact stable_of_same (fun _ _ => rfl) rfl rfl
  case holdW.CW f' app last => simp only [Option.some.injEq, Prod.mk.injEq] at hc; obtain ⟨rfl, _, _⟩ := hc; exact stable_of_same (fun _ _ => rfl) rfl rfl
  case holdW.AW f' app last => simp only [Option.some.injEq, Prod.mk.injEq] at hc; obtain ⟨rfl, _, _⟩ := hc; exact stable_of_same (fun _ _ => rfl) rfl rfl
  case holdR.RD f' => simp only [Option.some.injEq, Prod.mk.injEq] at hc; obtain ⟨rfl, _, _⟩ := hc; exact stable_of_same (fun _ _ => rfl) rfl rfl
  case holdR.CR f' => simp only [Option.some.injEq, Prod.mk.injEq] at hc; obtain ⟨rfl, _, _⟩ := hc; exact stable_of_same (fun _ _ => rfl) rfl rfl
  case holdR.CF f' => simp only [Option.some.injEq, Prod.mk.injEq] at hc; obtain ⟨rfl, _, _⟩ := hc; exact stable_of_same (fun _ _ => rfl) rfl rfl

/-- a step of the system taken while some session holds `f` shared preserves what that session relies on -/
theorem stable_step {c c' : Cfg} (hr : Reachable c) (st : Step c c') (f j : Nat) (hj : j < c.2.length)
    (hsj : PC.holdsS f c.2[j] = true) : Stable c.1 c'.1 f := by
  obtain ⟨hA, hs⟩ := inv_reachable hr
  cases st with
  | call sh ts i h op sh' p' res hc =>
    have hnx : PC.xE f ts[i] = false := by
      cases hx : PC.xE f ts[i] with
      | false => rfl
      | true => exact absurd (xs_false (hA f) i j h hj hx hsj) id
    exact foot_call hs i h op sh' p' res hc f hnx
  | act sh ts i h hn ch =>
    have hnx : PC.xE f ts[i] = false := by
      cases hx : PC.xE f ts[i] with
      | false => rfl
      | true => exact absurd (xs_false (hA f) i j h hj hx hsj) id
    exact foot_act hs hA i h ch f hnx

end SquidModel.Ipc.StoreMap
