/-
Liveness at quiescence: when no thread is in flight and some page is held by nobody, a `pop` that runs alone succeeds within
`2·H + 3` atomic operations and returns a page that was free (its bit was set, nobody held it).
-/
import SquidModel.Ipc.PageStackAux

namespace SquidModel.Ipc.PageStack

/-- one thread performs `n` atomic operations while all others stand still -/
def iterAct (H : Nat) : Nat → Sh × Th → Sh × Th
  | 0, c => c
  | n + 1, c => iterAct H n ((act H c.1 c.2).1, (act H c.1 c.2).2.1)

theorem iterAct_add (H a b : Nat) (c : Sh × Th) : iterAct H (a + b) c = iterAct H b (iterAct H a c) := by
  induction a generalizing c with
  | zero => simp [iterAct]
  | succ a ih => rw [show a + 1 + b = (a + b) + 1 by omega]; simp only [iterAct]; exact ih _

theorem freeBelow_pos_of_leaf (cap : Nat) (s : Sh) (k o j : Nat) (hj : j < 2 ^ k)
    (h : 0 < freeBelow cap s 0 (o * 2 ^ k + j)) : 0 < freeBelow cap s k o := by
  induction k generalizing o j with
  | zero =>
    have : j = 0 := by simpa using hj
    subst this; simpa using h
  | succ k ih =>
    simp only [freeBelow]
    have e : o * 2 ^ (k + 1) = 2 * o * 2 ^ k := by rw [Nat.pow_succ, Nat.mul_comm (2 ^ k) 2, ← Nat.mul_assoc, Nat.mul_comm o 2]
    by_cases hlt : j < 2 ^ k
    · have := ih (2 * o) j hlt (by rw [← e]; exact h)
      omega
    · have e2 : o * 2 ^ (k + 1) + j = (2 * o + 1) * 2 ^ k + (j - 2 ^ k) := by
        rw [e, Nat.add_mul, Nat.one_mul]; omega
      have hj' : j - 2 ^ k < 2 ^ k := by rw [Nat.pow_succ] at hj; omega
      have := ih (2 * o + 1) (j - 2 ^ k) hj' (by rw [← e2]; exact h)
      omega

/-- the new counters and the direction chosen by a successful compare-exchange of `innerPop` on the value `v` -/
def nvOf (v : Nat × Nat) : Nat × Nat := if v.1 ≠ 0 then (v.1 - 1, v.2) else (v.1, v.2 - 1)
def dirOf (v : Nat × Nat) : Nat := if v.1 ≠ 0 then 0 else 1

section
variable {cap H : Nat} (hH : 1 ≤ H) (hfit : cap ≤ 64 * 2 ^ H) {ts : List Th} (i : Nat) (hi : i < ts.length) (held : List Nat)
include hH hfit hi

/-- a solo step of thread `i` is a step of the system -/
theorem solo_step (s : Sh) (t : Th) (hn : t.pc.isRest = false) (hr : Reachable cap H (s, ts.set i t)) :
    Reachable cap H ((act H s t).1, ts.set i (act H s t).2.1) := by
  have hlen : i < (ts.set i t).length := by simpa using hi
  have hget : (ts.set i t)[i] = t := by simp
  have := Reachable.step hr (Step.act s (ts.set i t) i hlen (by rw [hget]; exact hn))
  rw [hget, List.set_set] at this
  exact this

/-- descending from an inner node: two operations per level, the leaves are not touched -/
theorem solo_descend (leaf0 : Nat → Nat) : ∀ k l o (s : Sh), l + k = H →
    Reachable cap H (s, ts.set i ⟨.popLoad l o, held⟩) → (l = 0 → 0 < (s.inner 0 0).1 + (s.inner 0 0).2) → s.leaf = leaf0 →
    ∃ s' oL, iterAct H (2 * k) (s, ⟨.popLoad l o, held⟩) = (s', ⟨.leafLoad oL, held⟩) ∧
      Reachable cap H (s', ts.set i ⟨.leafLoad oL, held⟩) ∧ s'.leaf = leaf0 := by
  intro k
  induction k with
  | zero =>
    intro l o s hl hr _ _
    exfalso
    have inv := inv_reachable hH hfit hr
    have hwf := inv.wf ⟨.popLoad l o, held⟩ (by
      have hlen : i < (ts.set i ⟨PC.popLoad l o, held⟩).length := by simpa using hi
      have := List.getElem_mem hlen
      simpa using this)
    simp only [WF] at hwf
    omega
  | succ k ih =>
    intro l o s hl hr hroot hleaf
    have inv := inv_reachable hH hfit hr
    have hlen : i < (ts.set i ⟨PC.popLoad l o, held⟩).length := by simpa using hi
    have hget : (ts.set i ⟨PC.popLoad l o, held⟩)[i] = ⟨PC.popLoad l o, held⟩ := by simp
    have hwf := inv.wf _ (List.getElem_mem hlen)
    rw [hget] at hwf; simp only [WF] at hwf
    obtain ⟨hlH, hlive, hlo⟩ := hwf
    -- the load finds a unit
    have hpos : 0 < (s.inner l o).1 + (s.inner l o).2 := by
      by_cases hl0 : l = 0
      · have := hlo hl0; subst hl0; subst this; exact hroot rfl
      · exact popper_inner_pos inv i hlen l o hl0 hlH hlive (by rw [hget]; simp [resv, hl0])
    have hnz : ¬ ((s.inner l o).1 = 0 ∧ (s.inner l o).2 = 0) := by omega
    have r1 := solo_step hH hfit i hi s ⟨.popLoad l o, held⟩ rfl hr
    have a1 : act H s ⟨.popLoad l o, held⟩ = (s, ⟨.popCas l o (s.inner l o).1 (s.inner l o).2, held⟩,
        ⟨some (idxInner l o), "load", pack (s.inner l o), pack (s.inner l o)⟩, none) := by
      simp only [act, afterInnerRead]; rw [if_neg hnz]
    rw [a1] at r1
    dsimp only at r1
    -- the compare-exchange succeeds: nobody else moves
    have r2 := solo_step hH hfit i hi s ⟨.popCas l o (s.inner l o).1 (s.inner l o).2, held⟩ rfl r1
    have a2 : act H s ⟨.popCas l o (s.inner l o).1 (s.inner l o).2, held⟩ =
        ({ s with inner := setInner s.inner l o (nvOf (s.inner l o)) },
          ⟨if l + 1 = H then PC.leafLoad (2 * o + dirOf (s.inner l o)) else PC.popLoad (l + 1) (2 * o + dirOf (s.inner l o)), held⟩,
          ⟨some (idxInner l o), "cas", pack (s.inner l o), pack (nvOf (s.inner l o))⟩, none) := by
      simp [act, nvOf, dirOf]
    rw [a2] at r2
    dsimp only at r2
    have two : iterAct H (2 * (k + 1)) (s, ⟨.popLoad l o, held⟩) =
        iterAct H (2 * k) ({ s with inner := setInner s.inner l o (nvOf (s.inner l o)) },
          ⟨if l + 1 = H then PC.leafLoad (2 * o + dirOf (s.inner l o)) else PC.popLoad (l + 1) (2 * o + dirOf (s.inner l o)), held⟩) := by
      rw [show 2 * (k + 1) = 2 * k + 1 + 1 by omega]
      simp only [iterAct]
      rw [a1]; dsimp only; rw [a2]
    rw [two]
    by_cases hlast : l + 1 = H
    · have hk : k = 0 := by omega
      subst hk
      rw [if_pos hlast] at r2 ⊢
      exact ⟨_, _, rfl, r2, hleaf⟩
    · rw [if_neg hlast] at r2 ⊢
      exact ih (l + 1) _ _ (by omega) r2 (by omega) hleaf

/-- at a leaf: load, compare-exchange, `--size_`; the thread ends up holding the lowest available id of that leaf -/
theorem solo_leaf (s : Sh) (o : Nat) (hr : Reachable cap H (s, ts.set i ⟨.leafLoad o, held⟩)) :
    ∃ s', iterAct H 3 (s, ⟨.leafLoad o, held⟩) = (s', ⟨.idle, (o * 64 + trailingZeros (s.leaf o)) :: held⟩) ∧
      Reachable cap H (s', ts.set i ⟨.idle, (o * 64 + trailingZeros (s.leaf o)) :: held⟩) ∧
      o * 64 + trailingZeros (s.leaf o) < cap ∧ trailingZeros (s.leaf o) < 64 ∧
      (s.leaf o).testBit (trailingZeros (s.leaf o)) = true := by
  have inv := inv_reachable hH hfit hr
  have hlen : i < (ts.set i ⟨PC.leafLoad o, held⟩).length := by simpa using hi
  have hget : (ts.set i ⟨PC.leafLoad o, held⟩)[i] = ⟨PC.leafLoad o, held⟩ := by simp
  have hwf := inv.wf _ (List.getElem_mem hlen)
  rw [hget] at hwf; simp only [WF] at hwf
  have hpos := popper_leaf_pos hH inv i hlen o hwf (by rw [hget]; simp [resv])
  have hnz : s.leaf o ≠ 0 := ne_zero_of_pop64_pos _ hpos
  have hlf := inv.lf o
  dsimp only at hlf
  obtain ⟨hk64, hkbit, _⟩ := trailingZeros_spec (s.leaf o) hnz hlf.1
  have hidcap := hlf.2 hwf _ hkbit
  have r1 := solo_step hH hfit i hi s ⟨.leafLoad o, held⟩ rfl hr
  have a1 : act H s ⟨.leafLoad o, held⟩ = (s, ⟨.leafCas o (s.leaf o), held⟩, ⟨some (idxLeaf H o), "load", s.leaf o, s.leaf o⟩, none) := by
    simp only [act, afterLeafRead]; rw [if_neg hnz]
  rw [a1] at r1; dsimp only at r1
  have r2 := solo_step hH hfit i hi s ⟨.leafCas o (s.leaf o), held⟩ rfl r1
  have a2 : act H s ⟨.leafCas o (s.leaf o), held⟩ =
      ({ s with leaf := setLeaf s.leaf o (clearLowest (s.leaf o)) }, ⟨.popDec (o * BitsPerLeaf + trailingZeros (s.leaf o)), held⟩,
        ⟨some (idxLeaf H o), "cas", s.leaf o, clearLowest (s.leaf o)⟩, none) := by
    simp [act]
  rw [a2] at r2; dsimp only at r2
  have r3 := solo_step hH hfit i hi _ ⟨.popDec (o * BitsPerLeaf + trailingZeros (s.leaf o)), held⟩ rfl r2
  simp only [act, BitsPerLeaf] at r3
  refine ⟨_, ?_, r3, hidcap, hk64, hkbit⟩
  simp only [iterAct]
  rw [a1]; dsimp only; rw [a2]
  simp only [act, BitsPerLeaf]

end

end SquidModel.Ipc.PageStack
