/-
No counter of the tree ever exceeds the number of valid ids below its node (hence `≤ cap < 2^32`): the packed 64-bit
representation `(left << 32) | right` never carries from `right` into `left`, `Unpack(pack(v)) = v` for every value the tree
holds, and `assert(previousValue <= max - increment)` in `innerPush` holds.
-/
import SquidModel.Ipc.PageStackAux

namespace SquidModel.Ipc.PageStack

theorem countP_range_le (f g : Nat → Bool) (n : Nat) (h : ∀ j, j < n → f j = true → g j = true) :
    (List.range n).countP f ≤ (List.range n).countP g := by
  apply List.countP_mono_left
  intro j hj hf
  exact h j (List.mem_range.mp hj) hf

theorem countP_range_lt (n m : Nat) (h : m ≤ n) : (List.range n).countP (fun b => decide (b < m)) = m := by
  induction n with
  | zero => simp; omega
  | succ n ih =>
    simp only [List.range_succ, List.countP_append, List.countP_cons, List.countP_nil]
    by_cases e : m ≤ n
    · rw [ih e]; have : ¬ n < m := by omega
      simp [this]
    · have hm : m = n + 1 := by omega
      subst hm
      have : (List.range n).countP (fun b => decide (b < n + 1)) = n := by
        have := countP_range_same (fun b => decide (b < n + 1)) (fun _ => true) n (fun j hj => by simp; omega)
        rw [this]; simp
      rw [this]; simp

/-- a live leaf has at most as many set bits as it has valid ids -/
theorem leaf_le_valid {cap H : Nat} {s : Sh} {ts : List Th} (hinv : Inv cap H (s, ts)) (o : Nat) (hlive : o < (cap + 63) / 64) :
    pop64 (s.leaf o) ≤ fullTotal cap 0 o := by
  have hlf := hinv.lf o
  dsimp only at hlf
  rw [liveCount_leaf] at hlf
  unfold pop64
  have hm : fullTotal cap 0 o ≤ 64 := by simp only [fullTotal, BitsPerLeaf]; omega
  rw [← countP_range_lt 64 (fullTotal cap 0 o) hm]
  apply countP_range_le
  intro j hj hb
  have := hlf.2 hlive j hb
  have hj' : j < fullTotal cap 0 o := by simp only [fullTotal, BitsPerLeaf]; omega
  exact decide_eq_true hj' 

/-- every live node's total is at most the number of valid ids below it -/
theorem total_le_valid {cap H : Nat} {s : Sh} {ts : List Th} (hinv : Inv cap H (s, ts)) :
    ∀ k l o, l + k = H → o < liveCount cap H l → total H s l o ≤ fullTotal cap k o := by
  intro k
  induction k with
  | zero =>
    intro l o hl hlive
    have : l = H := by omega
    subst this
    rw [liveCount_leaf] at hlive
    unfold total
    rw [if_pos rfl]
    exact leaf_le_valid hinv o hlive
  | succ k ih =>
    intro l o hl hlive
    have hlH : l < H := by omega
    have c0 := hinv.cnt l o 0 hlH hlive (by omega)
    have c1 := hinv.cnt l o 1 hlH hlive (by omega)
    dsimp only at c0 c1
    have ht : total H s l o = side (s.inner l o) 0 + side (s.inner l o) 1 := by
      unfold total side; rw [if_neg (by omega)]; simp
    rw [ht]
    simp only [fullTotal]
    have d0 : side (s.inner l o) 0 ≤ fullTotal cap k (2 * o) := by
      simp only [Nat.add_zero] at c0
      split at c0
      · rename_i hlv
        have := ih (l + 1) (2 * o) (by omega) hlv
        omega
      · omega
    have d1 : side (s.inner l o) 1 ≤ fullTotal cap k (2 * o + 1) := by
      split at c1
      · rename_i hlv
        have := ih (l + 1) (2 * o + 1) (by omega) hlv
        omega
      · omega
    omega

theorem fullTotal_le_cap (cap k o : Nat) : fullTotal cap k o ≤ cap := by
  rw [fullTotal_closed]; omega

/-- both counters of every live inner node are bounded by the capacity -/
theorem counters_le_cap {cap H : Nat} {s : Sh} {ts : List Th} (hinv : Inv cap H (s, ts)) (l o : Nat) (hl : l < H)
    (hlive : o < liveCount cap H l) : (s.inner l o).1 + (s.inner l o).2 ≤ cap := by
  have := total_le_valid hinv (H - l) l o (by omega) hlive
  unfold total at this
  rw [if_neg (by omega)] at this
  have := fullTotal_le_cap cap (H - l) o
  omega

end SquidModel.Ipc.PageStack
