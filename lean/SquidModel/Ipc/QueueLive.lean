/-
Progress of the consumer loop: running alone, the consumer reaches its waiting state with no notification left after a
bounded number of its own steps (a variant function on size, notifications in flight and pc decreases with every step).
-/
import SquidModel.Ipc.QueueRun

namespace SquidModel.Ipc.Queue

/-- position inside the loop; higher = further from going to sleep -/
def crank (s : St) : Nat :=
  match s.c with
  | .idle => 0
  | .e2 => if s.size = 0 then 2 else 10
  | .block => if s.size = 0 then 3 else 11
  | .e1 => if s.size = 0 then 4 else 9
  | .dec => 6
  | .read => 7
  | .unblock => 8
  | .clr2 | .init2 => 13
  | .clr1 | .init1 => 14

/-- the variant: every consumer step decreases it unless the consumer waits with no notification in flight -/
def cmeasure (s : St) : Nat := 20 * s.notif + 5 * s.size + crank s

def asleep (s : St) : Prop := s.c = .idle ∧ s.notif = 0

theorem stepC_decreases (s : St) (h : ¬ asleep s) : cmeasure (stepC s) < cmeasure s := by
  obtain ⟨cap, base, size, blocked, signal, buf, tin, tout, notif, pushed, recv, p, c⟩ := s
  simp only [asleep] at h
  cases c
  case idle =>
    have hn : 0 < notif := by
      apply Nat.pos_of_ne_zero
      intro h0
      exact h ⟨rfl, h0⟩
    simp [stepC, cmeasure, crank, hn]; omega
  case dec =>
    by_cases hz : size - 1 = 0 <;> simp [stepC, cmeasure, crank, hz] <;> omega
  all_goals (by_cases hz : size = 0 <;> simp [stepC, cmeasure, crank, hz] <;> omega)

/-- a consumer step does not touch the producer's pc, the pushed values or the capacity -/
theorem stepC_frame (s : St) : (stepC s).p = s.p ∧ (stepC s).pushed = s.pushed ∧ (stepC s).cap = s.cap := by
  obtain ⟨cap, base, size, blocked, signal, buf, tin, tout, notif, pushed, recv, p, c⟩ := s
  cases c <;> simp only [stepC] <;> (try split) <;> simp

/-- `n` consumer steps in a row -/
def runC : Nat → St → St
  | 0, s => s
  | n + 1, s => runC n (stepC s)

theorem reachable_runC {s : St} (n : Nat) (hr : Reachable s) : Reachable (runC n s) := by
  induction n generalizing s with
  | zero => exact hr
  | succ n ih => exact ih (reachable_stepC hr)

theorem runC_frame (n : Nat) (s : St) : (runC n s).p = s.p ∧ (runC n s).pushed = s.pushed ∧ (runC n s).cap = s.cap := by
  induction n generalizing s with
  | zero => exact ⟨rfl, rfl, rfl⟩
  | succ n ih =>
    have h1 := ih (stepC s)
    have h2 := stepC_frame s
    simp only [runC]
    exact ⟨h1.1.trans h2.1, h1.2.1.trans h2.2.1, h1.2.2.trans h2.2.2⟩

/-- the consumer, scheduled alone, goes to sleep (with every notification consumed) within `cmeasure s` steps -/
theorem consumer_alone_falls_asleep (s : St) : ∃ n, n ≤ cmeasure s ∧ asleep (runC n s) := by
  generalize hm : cmeasure s = m
  induction m using Nat.strongRecOn generalizing s with
  | _ m ih =>
    by_cases ha : asleep s
    · exact ⟨0, Nat.zero_le _, ha⟩
    · have hd := stepC_decreases s ha
      obtain ⟨n, hn, hs⟩ := ih (cmeasure (stepC s)) (by omega) (stepC s) rfl
      exact ⟨n + 1, by omega, hs⟩

end SquidModel.Ipc.Queue
