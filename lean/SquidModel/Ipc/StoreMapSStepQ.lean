/-
Preservation of the slice ownership invariant `SInv` by the steps that touch neither slices, pool nor `key`/`live`/`chain`/`start`
("quiet" steps): one lemma per pc. Generated skeleton, proofs by the tactic `sq_fin`.
-/
import SquidModel.Ipc.StoreMapSStep

namespace SquidModel.Ipc.StoreMap
open PC
set_option linter.unusedSimpArgs false
set_option linter.unusedVariables false

set_option hygiene false in
macro "sq_prep" : tactic => `(tactic| (
  have ht := hs.thr i h
  simp only [] at ht
  rw [hp] at ht
  simp only [TOK] at ht
  have hkl := hs.key_live
  have hlc := hs.live_chain
  have hAf := hA f
  have q1 := cnt_pos_of_mem (PC.keyZero f) ts i h
  have q2 := cnt_pos_of_mem (PC.xE f) ts i h
  have q3 := cnt_pos_of_mem (PC.holdsS f) ts i h
  have q4 := cnt_pos_of_mem (PC.xA f) ts i h
  have q5 := cnt_pos_of_mem (PC.xD f) ts i h
  rw [hp] at q1 q2 q3 q4 q5
  simp only [PC.keyZero, PC.xE, PC.holdsS, PC.xA, PC.xD, beq_self_eq_true, Bool.true_and, Bool.not_true, Bool.not_false, Ret.keep,
    Bool.false_eq_true, forall_const, false_implies, Bool.and_false, Bool.and_true] at q1 q2 q3 q4 q5
  have kz := hAf.kz
  have xe := hAf.xe
  have xa := hAf.xa
  have xd := hAf.xd
  have hne : 0 < cnt (PC.holdsS f) ts → (sh.a f).writer ≠ .E := by
    intro hpos e; have h1 := hAf.ex e; have h2 := hAf.rd; simp only [] at h1 h2; omega
  simp only [] at kz xe xa xd hkl hlc))

set_option hygiene false in
macro "sq_fin" : tactic => `(tactic| (
  refine sinv_quiet hs i h _ rfl rfl ?_ ?_ ?_
  · intro g; simp only [Sh.a, Sh.setA, upd]
    first | (split <;> simp_all [Anchor.unlockShared, Anchor.unlockExclusive, Anchor.startAppending]) | simp
  · intro g
    have hklg := hkl g
    by_cases hgf : g = f
    · subst hgf
      cases hw : (sh.anchors g).writer <;>
        simp_all [Sh.a, Sh.setA, upd, Anchor.unlockShared, Anchor.unlockExclusive, Anchor.startAppending] <;> first | omega | grind
    · simp_all [Sh.a, Sh.setA, upd]
  · cases hw : (sh.anchors f).writer <;>
      simp_all [TOK, lastOf, enterFC, Sh.a, Sh.s, Sh.setA, upd, Anchor.unlockShared, Anchor.unlockExclusive, Anchor.startAppending] <;>
      first | omega | grind))

theorem sinv_owLock {sh : Sh} {ts : List PC} (f : Nat) (ow : Bool) (ch : Bool) (i : Nat) (h : i < ts.length) (hp : ts[i] = (.owLock f ow))
    (hs : SInv (sh, ts)) (hA : ∀ g, AInv g (sh, ts)) : SInv ((act sh (.owLock f ow) ch).1, ts.set i (act sh (.owLock f ow) ch).2.1) := by
  sq_prep
  simp only [act, enterFC, Anchor.lockExclusive, Anchor.lockShared, Anchor.stopAppending, Anchor.unlockSharedAndSwitch]
  (repeat' split) <;> sq_fin

theorem sinv_owW1 {sh : Sh} {ts : List PC} (f : Nat) (ow : Bool) (ch : Bool) (i : Nat) (h : i < ts.length) (hp : ts[i] = (.owW1 f ow))
    (hs : SInv (sh, ts)) (hA : ∀ g, AInv g (sh, ts)) : SInv ((act sh (.owW1 f ow) ch).1, ts.set i (act sh (.owW1 f ow) ch).2.1) := by
  sq_prep
  simp only [act, enterFC, Anchor.lockExclusive, Anchor.lockShared, Anchor.stopAppending, Anchor.unlockSharedAndSwitch]
  (repeat' split) <;> sq_fin

theorem sinv_owBail {sh : Sh} {ts : List PC} (f : Nat) (ch : Bool) (i : Nat) (h : i < ts.length) (hp : ts[i] = (.owBail f))
    (hs : SInv (sh, ts)) (hA : ∀ g, AInv g (sh, ts)) : SInv ((act sh (.owBail f) ch).1, ts.set i (act sh (.owBail f) ch).2.1) := by
  sq_prep
  simp only [act, enterFC, Anchor.lockExclusive, Anchor.lockShared, Anchor.stopAppending, Anchor.unlockSharedAndSwitch]
  (repeat' split) <;> sq_fin

theorem sinv_owW2 {sh : Sh} {ts : List PC} (f : Nat) (ch : Bool) (i : Nat) (h : i < ts.length) (hp : ts[i] = (.owW2 f))
    (hs : SInv (sh, ts)) (hA : ∀ g, AInv g (sh, ts)) : SInv ((act sh (.owW2 f) ch).1, ts.set i (act sh (.owW2 f) ch).2.1) := by
  sq_prep
  simp only [act, enterFC, Anchor.lockExclusive, Anchor.lockShared, Anchor.stopAppending, Anchor.unlockSharedAndSwitch]
  (repeat' split) <;> sq_fin

theorem sinv_owSp {sh : Sh} {ts : List PC} (f : Nat) (ch : Bool) (i : Nat) (h : i < ts.length) (hp : ts[i] = (.owSp f))
    (hs : SInv (sh, ts)) (hA : ∀ g, AInv g (sh, ts)) : SInv ((act sh (.owSp f) ch).1, ts.set i (act sh (.owSp f) ch).2.1) := by
  sq_prep
  simp only [act, enterFC, Anchor.lockExclusive, Anchor.lockShared, Anchor.stopAppending, Anchor.unlockSharedAndSwitch]
  (repeat' split) <;> sq_fin

theorem sinv_owCnt {sh : Sh} {ts : List PC} (f : Nat) (ch : Bool) (i : Nat) (h : i < ts.length) (hp : ts[i] = (.owCnt f))
    (hs : SInv (sh, ts)) (hA : ∀ g, AInv g (sh, ts)) : SInv ((act sh (.owCnt f) ch).1, ts.set i (act sh (.owCnt f) ch).2.1) := by
  sq_prep
  simp only [act, enterFC, Anchor.lockExclusive, Anchor.lockShared, Anchor.stopAppending, Anchor.unlockSharedAndSwitch]
  (repeat' split) <;> sq_fin

theorem sinv_fcSp {sh : Sh} {ts : List PC} (f : Nat) (r : Ret) (ch : Bool) (i : Nat) (h : i < ts.length) (hp : ts[i] = (.fcSp f r))
    (hs : SInv (sh, ts)) (hA : ∀ g, AInv g (sh, ts)) : SInv ((act sh (.fcSp f r) ch).1, ts.set i (act sh (.fcSp f r) ch).2.1) := by
  sq_prep
  simp only [act, enterFC, Anchor.lockExclusive, Anchor.lockShared, Anchor.stopAppending, Anchor.unlockSharedAndSwitch]
  (repeat' split) <;> sq_fin

theorem sinv_rwSz {sh : Sh} {ts : List PC} (f : Nat) (r : Ret) (ch : Bool) (i : Nat) (h : i < ts.length) (hp : ts[i] = (.rwSz f r))
    (hs : SInv (sh, ts)) (hA : ∀ g, AInv g (sh, ts)) : SInv ((act sh (.rwSz f r) ch).1, ts.set i (act sh (.rwSz f r) ch).2.1) := by
  sq_prep
  simp only [act, enterFC, Anchor.lockExclusive, Anchor.lockShared, Anchor.stopAppending, Anchor.unlockSharedAndSwitch]
  (repeat' split) <;> sq_fin

theorem sinv_rwWtbf {sh : Sh} {ts : List PC} (f : Nat) (r : Ret) (ch : Bool) (i : Nat) (h : i < ts.length) (hp : ts[i] = (.rwWtbf f r))
    (hs : SInv (sh, ts)) (hA : ∀ g, AInv g (sh, ts)) : SInv ((act sh (.rwWtbf f r) ch).1, ts.set i (act sh (.rwWtbf f r) ch).2.1) := by
  sq_prep
  simp only [act, enterFC, Anchor.lockExclusive, Anchor.lockShared, Anchor.stopAppending, Anchor.unlockSharedAndSwitch]
  (repeat' split) <;> sq_fin

theorem sinv_rwHalt {sh : Sh} {ts : List PC} (f : Nat) (r : Ret) (ch : Bool) (i : Nat) (h : i < ts.length) (hp : ts[i] = (.rwHalt f r))
    (hs : SInv (sh, ts)) (hA : ∀ g, AInv g (sh, ts)) : SInv ((act sh (.rwHalt f r) ch).1, ts.set i (act sh (.rwHalt f r) ch).2.1) := by
  cases r
  all_goals (
    sq_prep
    simp only [act, enterFC, Anchor.lockExclusive, Anchor.lockShared, Anchor.stopAppending, Anchor.unlockSharedAndSwitch]
    (repeat' split) <;> sq_fin)

theorem sinv_fcUnl {sh : Sh} {ts : List PC} (f : Nat) (b : Bool) (ch : Bool) (i : Nat) (h : i < ts.length) (hp : ts[i] = (.fcUnl f b))
    (hs : SInv (sh, ts)) (hA : ∀ g, AInv g (sh, ts)) : SInv ((act sh (.fcUnl f b) ch).1, ts.set i (act sh (.fcUnl f b) ch).2.1) := by
  sq_prep
  simp only [act, enterFC, Anchor.lockExclusive, Anchor.lockShared, Anchor.stopAppending, Anchor.unlockSharedAndSwitch]
  (repeat' split) <;> sq_fin

theorem sinv_fcCnt {sh : Sh} {ts : List PC} (f : Nat) (r : Ret) (ch : Bool) (i : Nat) (h : i < ts.length) (hp : ts[i] = (.fcCnt f r))
    (hs : SInv (sh, ts)) (hA : ∀ g, AInv g (sh, ts)) : SInv ((act sh (.fcCnt f r) ch).1, ts.set i (act sh (.fcCnt f r) ch).2.1) := by
  cases r
  all_goals (
    sq_prep
    simp only [act, enterFC, Anchor.lockExclusive, Anchor.lockShared, Anchor.stopAppending, Anchor.unlockSharedAndSwitch]
    (repeat' split) <;> sq_fin)

theorem sinv_skW {sh : Sh} {ts : List PC} (f : Nat) (last : Int) (m : Bool) (ch : Bool) (i : Nat) (h : i < ts.length) (hp : ts[i] = (.skW f last m))
    (hs : SInv (sh, ts)) (hA : ∀ g, AInv g (sh, ts)) : SInv ((act sh (.skW f last m) ch).1, ts.set i (act sh (.skW f last m) ch).2.1) := by
  sq_prep
  simp only [act, enterFC, Anchor.lockExclusive, Anchor.lockShared, Anchor.stopAppending, Anchor.unlockSharedAndSwitch]
  (repeat' split) <;> sq_fin

theorem sinv_saLock {sh : Sh} {ts : List PC} (f : Nat) (last : Int) (ch : Bool) (i : Nat) (h : i < ts.length) (hp : ts[i] = (.saLock f last))
    (hs : SInv (sh, ts)) (hA : ∀ g, AInv g (sh, ts)) : SInv ((act sh (.saLock f last) ch).1, ts.set i (act sh (.saLock f last) ch).2.1) := by
  sq_prep
  simp only [act, enterFC, Anchor.lockExclusive, Anchor.lockShared, Anchor.stopAppending, Anchor.unlockSharedAndSwitch]
  (repeat' split) <;> sq_fin

theorem sinv_cwU {sh : Sh} {ts : List PC} (f : Nat) (app : Bool) (ch : Bool) (i : Nat) (h : i < ts.length) (hp : ts[i] = (.cwU f app))
    (hs : SInv (sh, ts)) (hA : ∀ g, AInv g (sh, ts)) : SInv ((act sh (.cwU f app) ch).1, ts.set i (act sh (.cwU f app) ch).2.1) := by
  sq_prep
  simp only [act, enterFC, Anchor.lockExclusive, Anchor.lockShared, Anchor.stopAppending, Anchor.unlockSharedAndSwitch]
  (repeat' split) <;> sq_fin

theorem sinv_awA {sh : Sh} {ts : List PC} (f : Nat) (app : Bool) (ch : Bool) (i : Nat) (h : i < ts.length) (hp : ts[i] = (.awA f app))
    (hs : SInv (sh, ts)) (hA : ∀ g, AInv g (sh, ts)) : SInv ((act sh (.awA f app) ch).1, ts.set i (act sh (.awA f app) ch).2.1) := by
  sq_prep
  simp only [act, enterFC, Anchor.lockExclusive, Anchor.lockShared, Anchor.stopAppending, Anchor.unlockSharedAndSwitch]
  (repeat' split) <;> sq_fin

theorem sinv_awStop {sh : Sh} {ts : List PC} (f : Nat) (ch : Bool) (i : Nat) (h : i < ts.length) (hp : ts[i] = (.awStop f))
    (hs : SInv (sh, ts)) (hA : ∀ g, AInv g (sh, ts)) : SInv ((act sh (.awStop f) ch).1, ts.set i (act sh (.awStop f) ch).2.1) := by
  sq_prep
  simp only [act, enterFC, Anchor.lockExclusive, Anchor.lockShared, Anchor.stopAppending, Anchor.unlockSharedAndSwitch]
  (repeat' split) <;> sq_fin

theorem sinv_awW {sh : Sh} {ts : List PC} (f : Nat) (ch : Bool) (i : Nat) (h : i < ts.length) (hp : ts[i] = (.awW f))
    (hs : SInv (sh, ts)) (hA : ∀ g, AInv g (sh, ts)) : SInv ((act sh (.awW f) ch).1, ts.set i (act sh (.awW f) ch).2.1) := by
  sq_prep
  simp only [act, enterFC, Anchor.lockExclusive, Anchor.lockShared, Anchor.stopAppending, Anchor.unlockSharedAndSwitch]
  (repeat' split) <;> sq_fin

theorem sinv_awH {sh : Sh} {ts : List PC} (f : Nat) (ch : Bool) (i : Nat) (h : i < ts.length) (hp : ts[i] = (.awH f))
    (hs : SInv (sh, ts)) (hA : ∀ g, AInv g (sh, ts)) : SInv ((act sh (.awH f) ch).1, ts.set i (act sh (.awH f) ch).2.1) := by
  sq_prep
  simp only [act, enterFC, Anchor.lockExclusive, Anchor.lockShared, Anchor.stopAppending, Anchor.unlockSharedAndSwitch]
  (repeat' split) <;> sq_fin

theorem sinv_awU {sh : Sh} {ts : List PC} (f : Nat) (ch : Bool) (i : Nat) (h : i < ts.length) (hp : ts[i] = (.awU f))
    (hs : SInv (sh, ts)) (hA : ∀ g, AInv g (sh, ts)) : SInv ((act sh (.awU f) ch).1, ts.set i (act sh (.awU f) ch).2.1) := by
  sq_prep
  simp only [act, enterFC, Anchor.lockExclusive, Anchor.lockShared, Anchor.stopAppending, Anchor.unlockSharedAndSwitch]
  (repeat' split) <;> sq_fin

theorem sinv_orLock {sh : Sh} {ts : List PC} (f : Nat) (k : Nat) (ch : Bool) (i : Nat) (h : i < ts.length) (hp : ts[i] = (.orLock f k))
    (hs : SInv (sh, ts)) (hA : ∀ g, AInv g (sh, ts)) : SInv ((act sh (.orLock f k) ch).1, ts.set i (act sh (.orLock f k) ch).2.1) := by
  sq_prep
  simp only [act, enterFC, Anchor.lockExclusive, Anchor.lockShared, Anchor.stopAppending, Anchor.unlockSharedAndSwitch]
  (repeat' split) <;> sq_fin

theorem sinv_orW {sh : Sh} {ts : List PC} (f : Nat) (k : Nat) (ch : Bool) (i : Nat) (h : i < ts.length) (hp : ts[i] = (.orW f k))
    (hs : SInv (sh, ts)) (hA : ∀ g, AInv g (sh, ts)) : SInv ((act sh (.orW f k) ch).1, ts.set i (act sh (.orW f k) ch).2.1) := by
  sq_prep
  simp only [act, enterFC, Anchor.lockExclusive, Anchor.lockShared, Anchor.stopAppending, Anchor.unlockSharedAndSwitch]
  (repeat' split) <;> sq_fin

theorem sinv_orU {sh : Sh} {ts : List PC} (f : Nat) (ch : Bool) (i : Nat) (h : i < ts.length) (hp : ts[i] = (.orU f))
    (hs : SInv (sh, ts)) (hA : ∀ g, AInv g (sh, ts)) : SInv ((act sh (.orU f) ch).1, ts.set i (act sh (.orU f) ch).2.1) := by
  sq_prep
  simp only [act, enterFC, Anchor.lockExclusive, Anchor.lockShared, Anchor.stopAppending, Anchor.unlockSharedAndSwitch]
  (repeat' split) <;> sq_fin

theorem sinv_rdSize {sh : Sh} {ts : List PC} (f : Nat) (cur : Nat) (acc : List Nat) (ch : Bool) (i : Nat) (h : i < ts.length) (hp : ts[i] = (.rdSize f cur acc))
    (hs : SInv (sh, ts)) (hA : ∀ g, AInv g (sh, ts)) : SInv ((act sh (.rdSize f cur acc) ch).1, ts.set i (act sh (.rdSize f cur acc) ch).2.1) := by
  sq_prep
  simp only [act, enterFC, Anchor.lockExclusive, Anchor.lockShared, Anchor.stopAppending, Anchor.unlockSharedAndSwitch]
  (repeat' split) <;> sq_fin

theorem sinv_crU {sh : Sh} {ts : List PC} (f : Nat) (ch : Bool) (i : Nat) (h : i < ts.length) (hp : ts[i] = (.crU f))
    (hs : SInv (sh, ts)) (hA : ∀ g, AInv g (sh, ts)) : SInv ((act sh (.crU f) ch).1, ts.set i (act sh (.crU f) ch).2.1) := by
  sq_prep
  simp only [act, enterFC, Anchor.lockExclusive, Anchor.lockShared, Anchor.stopAppending, Anchor.unlockSharedAndSwitch]
  (repeat' split) <;> sq_fin

theorem sinv_cfX {sh : Sh} {ts : List PC} (f : Nat) (ch : Bool) (i : Nat) (h : i < ts.length) (hp : ts[i] = (.cfX f))
    (hs : SInv (sh, ts)) (hA : ∀ g, AInv g (sh, ts)) : SInv ((act sh (.cfX f) ch).1, ts.set i (act sh (.cfX f) ch).2.1) := by
  sq_prep
  simp only [act, enterFC, Anchor.lockExclusive, Anchor.lockShared, Anchor.stopAppending, Anchor.unlockSharedAndSwitch]
  (repeat' split) <;> sq_fin

theorem sinv_feLock {sh : Sh} {ts : List PC} (f : Nat) (ch : Bool) (i : Nat) (h : i < ts.length) (hp : ts[i] = (.feLock f))
    (hs : SInv (sh, ts)) (hA : ∀ g, AInv g (sh, ts)) : SInv ((act sh (.feLock f) ch).1, ts.set i (act sh (.feLock f) ch).2.1) := by
  sq_prep
  simp only [act, enterFC, Anchor.lockExclusive, Anchor.lockShared, Anchor.stopAppending, Anchor.unlockSharedAndSwitch]
  (repeat' split) <;> sq_fin

theorem sinv_feW {sh : Sh} {ts : List PC} (f : Nat) (ch : Bool) (i : Nat) (h : i < ts.length) (hp : ts[i] = (.feW f))
    (hs : SInv (sh, ts)) (hA : ∀ g, AInv g (sh, ts)) : SInv ((act sh (.feW f) ch).1, ts.set i (act sh (.feW f) ch).2.1) := by
  sq_prep
  simp only [act, enterFC, Anchor.lockExclusive, Anchor.lockShared, Anchor.stopAppending, Anchor.unlockSharedAndSwitch]
  (repeat' split) <;> sq_fin

theorem sinv_feCas {sh : Sh} {ts : List PC} (f : Nat) (g0 : Nat) (ch : Bool) (i : Nat) (h : i < ts.length) (hp : ts[i] = (.feCas f g0))
    (hs : SInv (sh, ts)) (hA : ∀ g, AInv g (sh, ts)) : SInv ((act sh (.feCas f g0) ch).1, ts.set i (act sh (.feCas f g0) ch).2.1) := by
  sq_prep
  simp only [act, enterFC, Anchor.lockExclusive, Anchor.lockShared, Anchor.stopAppending, Anchor.unlockSharedAndSwitch]
  (repeat' split) <;> sq_fin

theorem sinv_fkLockE {sh : Sh} {ts : List PC} (f : Nat) (k : Nat) (g0 : Nat) (ch : Bool) (i : Nat) (h : i < ts.length) (hp : ts[i] = (.fkLockE f k g0))
    (hs : SInv (sh, ts)) (hA : ∀ g, AInv g (sh, ts)) : SInv ((act sh (.fkLockE f k g0) ch).1, ts.set i (act sh (.fkLockE f k g0) ch).2.1) := by
  sq_prep
  simp only [act, enterFC, Anchor.lockExclusive, Anchor.lockShared, Anchor.stopAppending, Anchor.unlockSharedAndSwitch]
  (repeat' split) <;> sq_fin

theorem sinv_fkUE {sh : Sh} {ts : List PC} (f : Nat) (ch : Bool) (i : Nat) (h : i < ts.length) (hp : ts[i] = (.fkUE f))
    (hs : SInv (sh, ts)) (hA : ∀ g, AInv g (sh, ts)) : SInv ((act sh (.fkUE f) ch).1, ts.set i (act sh (.fkUE f) ch).2.1) := by
  sq_prep
  simp only [act, enterFC, Anchor.lockExclusive, Anchor.lockShared, Anchor.stopAppending, Anchor.unlockSharedAndSwitch]
  (repeat' split) <;> sq_fin

theorem sinv_fkLockS {sh : Sh} {ts : List PC} (f : Nat) (k : Nat) (g0 : Nat) (ch : Bool) (i : Nat) (h : i < ts.length) (hp : ts[i] = (.fkLockS f k g0))
    (hs : SInv (sh, ts)) (hA : ∀ g, AInv g (sh, ts)) : SInv ((act sh (.fkLockS f k g0) ch).1, ts.set i (act sh (.fkLockS f k g0) ch).2.1) := by
  sq_prep
  simp only [act, enterFC, Anchor.lockExclusive, Anchor.lockShared, Anchor.stopAppending, Anchor.unlockSharedAndSwitch]
  (repeat' split) <;> sq_fin

theorem sinv_fkMarkS {sh : Sh} {ts : List PC} (f : Nat) (g0 : Nat) (ch : Bool) (i : Nat) (h : i < ts.length) (hp : ts[i] = (.fkMarkS f g0))
    (hs : SInv (sh, ts)) (hA : ∀ g, AInv g (sh, ts)) : SInv ((act sh (.fkMarkS f g0) ch).1, ts.set i (act sh (.fkMarkS f g0) ch).2.1) := by
  sq_prep
  simp only [act, enterFC, Anchor.lockExclusive, Anchor.lockShared, Anchor.stopAppending, Anchor.unlockSharedAndSwitch]
  (repeat' split) <;> sq_fin

theorem sinv_fkUS {sh : Sh} {ts : List PC} (f : Nat) (hit : Bool) (g0 : Nat) (ch : Bool) (i : Nat) (h : i < ts.length) (hp : ts[i] = (.fkUS f hit g0))
    (hs : SInv (sh, ts)) (hA : ∀ g, AInv g (sh, ts)) : SInv ((act sh (.fkUS f hit g0) ch).1, ts.set i (act sh (.fkUS f hit g0) ch).2.1) := by
  sq_prep
  simp only [act, enterFC, Anchor.lockExclusive, Anchor.lockShared, Anchor.stopAppending, Anchor.unlockSharedAndSwitch]
  (repeat' split) <;> sq_fin

theorem sinv_fkMark {sh : Sh} {ts : List PC} (f : Nat) (g0 : Nat) (ch : Bool) (i : Nat) (h : i < ts.length) (hp : ts[i] = (.fkMark f g0))
    (hs : SInv (sh, ts)) (hA : ∀ g, AInv g (sh, ts)) : SInv ((act sh (.fkMark f g0) ch).1, ts.set i (act sh (.fkMark f g0) ch).2.1) := by
  sq_prep
  simp only [act, enterFC, Anchor.lockExclusive, Anchor.lockShared, Anchor.stopAppending, Anchor.unlockSharedAndSwitch]
  (repeat' split) <;> sq_fin

end SquidModel.Ipc.StoreMap
