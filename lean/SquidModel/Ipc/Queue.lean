/-
Model of `Ipc::OneToOneUniQueue::push/pop` and `Ipc::QueueReader::block/unblock/raiseSignal/clearSignal`
(src/ipc/Queue.h) for one producer and one consumer, at the granularity of single memory operations.

Shared state: `theSize` (atomic), `popBlocked`, `popSignal` (atomics of the QueueReader), the slot array `theBuffer`,
the private indices `theIn` (producer only) and `theOut` (consumer only) as C `unsigned int` (arithmetic modulo `W = 2^32`),
and the out-of-band notification channel as the number `notif` of notifications in flight (the UDS message squid sends when
push() returns true; not part of Queue.h).

Every atomic operation is one step. The two non-atomic accesses to the slot array (`memcpy` in push, `memcpy` in pop, each
together with the `theIn++` / `theOut++` of the same statement pair) are steps of their own, so interleavings *between* an atomic
operation and the following slot access are covered as well (see `slots_disjoint`).

The producer calls `push(v, reader)` with arbitrary values at arbitrary times and sends one notification whenever push()
returns true. The consumer is the loop squid runs (CollapsedForwarding::HandleNewData / IpcIoFile::HandleResponses):
  at start: clearSignal(); then repeat { while (pop(v, reader)) deliver v;  wait for a notification;  clearSignal(); }.
`pushed`/`recv` record the values written to / read from the slot array; `base` is a ghost constant: the number of
items that went through the queue before the modelled history starts (`theIn = theOut = base mod 2^32` initially).
Sequentially consistent atomics are assumed.
-/
import SquidModel.Gen.QueueCfg

namespace SquidModel.Ipc.Queue

/-- modulus of the arithmetic on `theIn`/`theOut` (C `unsigned int`: 2^32; read from the declarations by translate/queue_cfg.py) -/
def W : Nat := SquidModel.Gen.QueueCfg.indexModulus

/-- producer program counter: `rest` = between push() calls; otherwise the pending memory operation of push() -/
inductive PPC where
  | rest
  | full (v : Nat)     -- `if (full())`: load theSize
  | write (v : Nat)    -- `pos = theIn++ % theCapacity * theMaxItemSize; memcpy(theBuffer + pos, &value, ..)` (non-atomic)
  | inc                -- `wasEmpty = !theSize++`
  | blk                -- raiseSignal(): `blocked()` = load popBlocked
  | xchg               -- raiseSignal(): `!popSignal.exchange(true)`
  | notify             -- push() returned true: the caller sends the notification
  deriving DecidableEq, Repr

/-- consumer program counter -/
inductive CPC where
  | init1 | init2      -- clearSignal() at start: unblock() = store popBlocked false; store popSignal false
  | e1                 -- pop(): first `empty()` = load theSize
  | block              -- `reader->block()` = store popBlocked true
  | e2                 -- second `empty()` = load theSize
  | unblock            -- `reader->unblock()` = store popBlocked false
  | read               -- `pos = (theOut++ % theCapacity) * theMaxItemSize; memcpy(&value, theBuffer + pos, ..)` (non-atomic)
  | dec                -- `--theSize`
  | idle               -- pop() returned false: waiting for a notification
  | clr1 | clr2        -- notification received: clearSignal() = store popBlocked false; store popSignal false
  deriving DecidableEq, Repr

structure St where
  cap : Nat            -- theCapacity (constant)
  base : Nat           -- ghost constant: items that passed before the modelled history
  size : Nat           -- theSize
  blocked : Bool       -- popBlocked
  signal : Bool        -- popSignal
  buf : List Nat       -- theBuffer, one Nat per slot
  tin : Nat            -- theIn  (unsigned int)
  tout : Nat           -- theOut (unsigned int)
  notif : Nat          -- notifications in flight
  pushed : List Nat    -- values written by push(), in order
  recv : List Nat      -- values read by pop(), in order
  p : PPC
  c : CPC
  deriving DecidableEq, Repr

def St.init (cap base : Nat) (buf : List Nat) : St :=
  { cap := cap, base := base, size := 0, blocked := false, signal := false, buf := buf,
    tin := base % W, tout := base % W, notif := 0, pushed := [], recv := [], p := .rest, c := .init1 }

/-- the producer's pending memory operation (nothing at `rest`) -/
def stepP (s : St) : St :=
  match s.p with
  | .rest => s
  | .full v => if s.size = s.cap then { s with p := .rest }      -- throw Full()
               else { s with p := .write v }
  | .write v => { s with buf := s.buf.set (s.tin % s.cap) v, tin := (s.tin + 1) % W, pushed := s.pushed ++ [v], p := .inc }
  | .inc => { s with size := s.size + 1, p := if s.size = 0 then .blk else .rest }
  | .blk => { s with p := if s.blocked then .xchg else .rest }
  | .xchg => { s with signal := true, p := if s.signal then .rest else .notify }
  | .notify => { s with notif := s.notif + 1, p := .rest }

/-- the consumer's pending memory operation (at `idle`: take a notification if there is one, otherwise keep waiting) -/
def stepC (s : St) : St :=
  match s.c with
  | .init1 => { s with blocked := false, c := .init2 }
  | .init2 => { s with signal := false, c := .e1 }
  | .e1 => { s with c := if s.size = 0 then .block else .unblock }
  | .block => { s with blocked := true, c := .e2 }
  | .e2 => { s with c := if s.size = 0 then .idle else .unblock }
  | .unblock => { s with blocked := false, c := .read }
  | .read => { s with recv := s.recv ++ [s.buf.getD (s.tout % s.cap) 0], tout := (s.tout + 1) % W, c := .dec }
  | .dec => { s with size := s.size - 1, c := .e1 }
  | .idle => if 0 < s.notif then { s with notif := s.notif - 1, c := .clr1 } else s
  | .clr1 => { s with blocked := false, c := .clr2 }
  | .clr2 => { s with signal := false, c := .e1 }

/-- the producer starts `push(v, reader)` -/
def callPush (s : St) (v : Nat) : St := { s with p := .full v }

/-- one step of the system -/
inductive Step : St → St → Prop where
  | call (s : St) (v : Nat) (h : s.p = .rest) : Step s (callPush s v)
  | prod (s : St) : Step s (stepP s)
  | cons (s : St) : Step s (stepC s)

/-- histories starting from a fresh queue of capacity `cap` (any prehistory length `base`, any slot contents) -/
inductive Reachable : St → Prop where
  | init (cap base : Nat) (buf : List Nat) (hc : 0 < cap) (hb : buf.length = cap) : Reachable (St.init cap base buf)
  | step {s s' : St} : Reachable s → Step s s' → Reachable s'

end SquidModel.Ipc.Queue
