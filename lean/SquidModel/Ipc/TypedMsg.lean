/-
Model of `Ipc::TypedMsgHdr` (src/ipc/TypedMsgHdr.{h,cc}): the data buffer `{type_, size, raw[4096]}`, the read
`offset`, setType/checkType/rawType, put/getRaw with their `Must` guards in C arithmetic (`size_t` differences wrap,
`offset` is an `unsigned int`), put/getInt, put/getString, put/getFixed (= put/getPod), hasMoreData, copying (`sync()`
resets the offset), `prepForReading()` and what `sendmsg`/`recvmsg` do with the single iov.

A `memcpy` from or to an address outside `data.raw` is an explicit outcome (`oob`), never a value.
Not modelled: the address part, descriptor passing (putFd/getFd/hasFd, control buffer).
Core Lean only (the driver links this file).
-/
import SquidModel.Base.Bytes
import SquidModel.Gen.TypedMsgCfg

namespace SquidModel.Ipc.TypedMsg

/-- `TypedMsgHdr::maxSize` = `sizeof(data.raw)` -/
def maxSize : Nat := 4096
/-- `sizeof(DataBuffer)`: `int type_` (+4 padding), `size_t size`, `raw` -/
def wireSize : Nat := 16 + 4096
def SIZE_T : Nat := 18446744073709551616
def UINT : Nat := 4294967296

structure Msg where
  /-- `msg_iov != nullptr` (allocData() was called) -/
  hasData : Bool
  /-- `data.type_` -/
  type : Int
  /-- `data.size` (a `size_t`) -/
  size : Nat
  /-- `data.raw` -/
  raw : Bytes
  /-- `offset` (an `unsigned int`) -/
  offset : Nat
deriving DecidableEq, Repr

/-- Result of a call: returned normally, threw (`Must` failed), or copied from/to outside `data.raw`. -/
inductive Res (α : Type) where
  | ok (a : α)
  | thrown
  | oob
deriving DecidableEq, Repr

def zeros (n : Nat) : Bytes := List.replicate n 0

/-- A default-constructed message: `clear(); sync();` -/
def fresh : Msg := ⟨false, 0, 0, zeros maxSize, 0⟩

/-- `prepForReading()`: `clear()` then allocName/allocData/allocControl. -/
def prepForReading : Msg := ⟨true, 0, 0, zeros maxSize, 0⟩

/-- `rawType()` -/
def rawType (m : Msg) : Int := if m.hasData then m.type else 0

/-- `checkType(t)`: `Must(rawType() == t)` -/
def checkType (m : Msg) (t : Int) : Res Unit := if rawType m = t then .ok () else .thrown

/-- `setType(t)`; `allocData()` requires that there is no iov yet and zeroes `type_` and `size`. -/
def setType (m : Msg) (t : Int) : Msg × Res Unit :=
  if m.type ≠ 0 then
    if m.type = t then (m, .ok ()) else (m, .thrown)
  else if m.hasData then (m, .thrown)                    -- allocData: Must(!msg_iovlen && !msg_iov)
  else ({ m with hasData := true, type := t, size := 0 }, .ok ())

/-- `hasMoreData()` -/
def hasMoreData (m : Msg) : Bool := m.offset < m.size

/-! ### raw access -/

/-- `getRaw(buf, n)`. `chk` = "a size above sizeof(data.raw) is refused first" (regenerated flag).
`Must(rawSize <= data.size - offset)` is evaluated in `size_t`. -/
def getRawWith (chk : Bool) (m : Msg) (n : Nat) : Msg × Res Bytes :=
  if n = 0 then (m, .ok [])
  else if chk && decide (maxSize < m.size) then (m, .thrown)
  else if n ≤ (m.size + SIZE_T - m.offset % SIZE_T) % SIZE_T then
    if m.offset + n ≤ maxSize then
      ({ m with offset := (m.offset + n) % UINT }, .ok ((m.raw.drop m.offset).take n))
    else ({ m with offset := (m.offset + n) % UINT }, .oob)
  else (m, .thrown)

def getRaw (m : Msg) (n : Nat) : Msg × Res Bytes := getRawWith Gen.TypedMsgCfg.getRawChecksSize m n

/-- `putRaw(buf, n)`: `Must(rawSize <= sizeof(data.raw) - data.size)` in `size_t`. -/
def putRaw (m : Msg) (b : Bytes) : Msg × Res Unit :=
  if b.length = 0 then (m, .ok ())
  else if b.length ≤ (maxSize + SIZE_T - m.size % SIZE_T) % SIZE_T then
    if m.size + b.length ≤ maxSize then
      ({ m with raw := m.raw.take m.size ++ b ++ m.raw.drop (m.size + b.length), size := m.size + b.length }, .ok ())
    else (m, .oob)
  else (m, .thrown)

/-! ### int, string, fixed -/

/-- the four bytes of an `int` (little endian, two's complement) -/
def encodeInt (n : Int) : Bytes :=
  let u := (n % 4294967296).toNat
  [UInt8.ofNat (u % 256), UInt8.ofNat (u / 256 % 256), UInt8.ofNat (u / 65536 % 256), UInt8.ofNat (u / 16777216 % 256)]

def decodeInt : Bytes → Int
  | [a, b, c, d] =>
    let u := a.toNat + 256 * b.toNat + 65536 * c.toNat + 16777216 * d.toNat
    if 2147483648 ≤ u then (u : Int) - 4294967296 else (u : Int)
  | _ => 0

def inIntRange (n : Int) : Prop := -2147483648 ≤ n ∧ n ≤ 2147483647

instance (n : Int) : Decidable (inIntRange n) := by unfold inIntRange; exact inferInstance

/-- `getInt()` = `getPod(n)` = `getFixed(&n, 4)` -/
def getIntWith (chk : Bool) (m : Msg) : Msg × Res Int :=
  match getRawWith chk m 4 with
  | (m', .ok b) => (m', .ok (decodeInt b))
  | (m', .thrown) => (m', .thrown)
  | (m', .oob) => (m', .oob)

/-- `putInt(n)` -/
def putInt (m : Msg) (n : Int) : Msg × Res Unit := putRaw m (encodeInt n)

/-- `getString(s)` -/
def getStringWith (chk : Bool) (m : Msg) : Msg × Res Bytes :=
  match getIntWith chk m with
  | (m', .thrown) => (m', .thrown)
  | (m', .oob) => (m', .oob)
  | (m', .ok len) =>
    if len < 0 then (m', .thrown)                       -- Must(length >= 0)
    else if len = 0 then (m', .ok [])                   -- s.clean()
    else if (maxSize : Int) < len then (m', .thrown)    -- Must(length <= maxSize)
    else getRawWith chk m' len.toNat

/-- `putString(s)`: the length is stored even when the bytes then do not fit. -/
def putString (m : Msg) (b : Bytes) : Msg × Res Unit :=
  if maxSize < b.length then (m, .thrown)               -- Must(s.psize() <= maxSize)
  else
    match putInt m (b.length : Int) with
    | (m', .ok ()) => putRaw m' b
    | r => r

def getInt (m : Msg) : Msg × Res Int := getIntWith Gen.TypedMsgCfg.getRawChecksSize m
def getString (m : Msg) : Msg × Res Bytes := getStringWith Gen.TypedMsgCfg.getRawChecksSize m
/-- `getFixed(buf, n)` / `getPod` -/
def getFixed (m : Msg) (n : Nat) : Msg × Res Bytes := getRaw m n
/-- `putFixed(buf, n)` / `putPod` -/
def putFixed (m : Msg) (b : Bytes) : Msg × Res Unit := putRaw m b

/-! ### copying and the wire -/

/-- copy constructor / `operator=`: everything is copied, then `sync()` resets the offset. -/
def copy (m : Msg) : Msg := { m with offset := 0 }

/-- The bytes `sendmsg` takes from the message: the whole `DataBuffer` when there is an iov, nothing otherwise. -/
def encodeSize (n : Nat) : Bytes :=
  [UInt8.ofNat (n % 256), UInt8.ofNat (n / 256 % 256), UInt8.ofNat (n / 65536 % 256), UInt8.ofNat (n / 16777216 % 256),
   UInt8.ofNat (n / 4294967296 % 256), UInt8.ofNat (n / 1099511627776 % 256), UInt8.ofNat (n / 281474976710656 % 256),
   UInt8.ofNat (n / 72057594037927936 % 256)]

def decodeSize : Bytes → Nat
  | [a, b, c, d, e, f, g, h] =>
    a.toNat + 256 * b.toNat + 65536 * c.toNat + 16777216 * d.toNat + 4294967296 * e.toNat +
      1099511627776 * f.toNat + 281474976710656 * g.toNat + 72057594037927936 * h.toNat
  | _ => 0

def wireBytes (m : Msg) : Bytes :=
  if m.hasData then encodeInt m.type ++ zeros 4 ++ encodeSize m.size ++ m.raw else []

/-- What `recvmsg` leaves in a message prepared by `prepForReading()` when the bytes `w` arrive: they overwrite the
front of the (zeroed) `DataBuffer`; bytes beyond `sizeof(DataBuffer)` are not stored. -/
def receive (w : Bytes) : Msg :=
  let img := (w ++ zeros wireSize).take wireSize
  ⟨true, decodeInt (img.take 4), decodeSize ((img.drop 8).take 8), img.drop 16, 0⟩

/-- Wire image composed from fields: type, size and the front of `raw`. -/
def wireOf (t : Int) (size : Nat) (raw : Bytes) : Bytes := encodeInt t ++ zeros 4 ++ encodeSize size ++ raw

/-- sender to receiver through the socket -/
def transfer (s : Msg) : Msg := receive (wireBytes s)

/-! ### receiver-side operations and scripts -/

inductive ROp where
  | checkType (t : Int)
  | getInt
  | getString
  | getFixed (n : Nat)
  | more
  | rawType
  | copy
deriving DecidableEq, Repr

inductive Out where
  | done
  | thrown
  | oob
  | int (n : Int)
  | bytes (b : Bytes)
  | bool (b : Bool)
deriving DecidableEq, Repr

def rstepWith (chk : Bool) (m : Msg) : ROp → Msg × Out
  | .checkType t => (m, match checkType m t with | .ok _ => .done | .thrown => .thrown | .oob => .oob)
  | .getInt => match getIntWith chk m with
    | (m', .ok n) => (m', .int n) | (m', .thrown) => (m', .thrown) | (m', .oob) => (m', .oob)
  | .getString => match getStringWith chk m with
    | (m', .ok b) => (m', .bytes b) | (m', .thrown) => (m', .thrown) | (m', .oob) => (m', .oob)
  | .getFixed n => match getRawWith chk m n with
    | (m', .ok b) => (m', .bytes b) | (m', .thrown) => (m', .thrown) | (m', .oob) => (m', .oob)
  | .more => (m, .bool (hasMoreData m))
  | .rawType => (m, .int (rawType m))
  | .copy => (copy m, .done)

def rrunWith (chk : Bool) (m : Msg) : List ROp → Msg × List Out
  | [] => (m, [])
  | op :: ops =>
    let r := rstepWith chk m op
    let q := rrunWith chk r.1 ops
    (q.1, r.2 :: q.2)

def rstep (m : Msg) (op : ROp) : Msg × Out := rstepWith Gen.TypedMsgCfg.getRawChecksSize m op
def rrun (m : Msg) (ops : List ROp) : Msg × List Out := rrunWith Gen.TypedMsgCfg.getRawChecksSize m ops

/-! ### typed values -/

inductive Val where
  | int (n : Int)
  | str (b : Bytes)
  | fixed (b : Bytes)
deriving DecidableEq, Repr

def putVal (m : Msg) : Val → Msg × Res Unit
  | .int n => putInt m n
  | .str b => putString m b
  | .fixed b => putFixed m b

/-- the matching extraction call -/
def Val.reader : Val → ROp
  | .int _ => .getInt
  | .str _ => .getString
  | .fixed b => .getFixed b.length

def Val.out : Val → Out
  | .int n => .int n
  | .str b => .bytes b
  | .fixed b => .bytes b

/-- the bytes a value occupies in `raw` -/
def Val.enc : Val → Bytes
  | .int n => encodeInt n
  | .str b => encodeInt (b.length : Int) ++ b
  | .fixed b => b

def Val.wf : Val → Prop
  | .int n => inIntRange n
  | .str b => b.length ≤ maxSize
  | .fixed _ => True

def encAll (vs : List Val) : Bytes := vs.flatMap Val.enc

/-- all puts, stopping at the first that does not return normally -/
def putAll (m : Msg) : List Val → Msg × Res Unit
  | [] => (m, .ok ())
  | v :: vs =>
    match putVal m v with
    | (m', .ok ()) => putAll m' vs
    | r => r

end SquidModel.Ipc.TypedMsg
