/-
Inductive invariant of the PageStack model for any number of threads, any capacity and any tree height `H ≥ 1`.
Counting clauses tie every counter of the tree to the units below it and to the threads in flight:

  total(child) = side(parent, dir) + #poppers positioned at child + #pushers whose highest counted node is child

Ownership clause: every id `< cap` is in exactly one place (free bit in its leaf, held by a thread, or carried by a thread
in flight); ids `≥ cap` are owned by nobody. Size clauses tie `size_` to the root counters and to the pages handed out.
Only *live* nodes (those whose id range starts below `cap`) are constrained: the constructor leaves stale values in the others
and no thread ever visits them.
-/
import SquidModel.Ipc.PageStackBits

namespace SquidModel.Ipc.PageStack

def side (c : Nat × Nat) (d : Nat) : Nat := if d = 0 then c.1 else c.2

/-- number of available ids recorded in a node: both counters of an inner node, set bits of a leaf -/
def total (H : Nat) (s : Sh) (l o : Nat) : Nat :=
  if l = H then pop64 (s.leaf o) else (s.inner l o).1 + (s.inner l o).2

/-- the thread is a popper positioned at `(l,o)` below the root: it has taken a unit from the parent's counter -/
def resv (H : Nat) (t : Th) (l o : Nat) : Nat :=
  match t.pc with
  | .popLoad l' o' => if l' = l ∧ o' = o ∧ l ≠ 0 then 1 else 0
  | .popCas l' o' _ _ => if l' = l ∧ o' = o ∧ l ≠ 0 then 1 else 0
  | .leafLoad o' => if l = H ∧ o' = o then 1 else 0
  | .leafCas o' _ => if l = H ∧ o' = o then 1 else 0
  | _ => 0

/-- the thread is a pusher whose unit is counted at `(l,o)` but not yet in the parent's counter -/
def pend (t : Th) (l o : Nat) : Nat :=
  match t.pc with
  | .pushInner l' o' => if l' = l ∧ o' = o then 1 else 0
  | _ => 0

/-- how many copies of `id` the thread has (held, or carried between the tree and its held list) -/
def owns (t : Th) (id : Nat) : Nat :=
  t.held.count id + match t.pc with
    | .popDec i => if i = id then 1 else 0
    | .pushInc i => if i = id then 1 else 0
    | .pushLeaf i => if i = id then 1 else 0
    | _ => 0

/-- pusher that has incremented `size_` but not yet the root -/
def prePush (t : Th) : Nat :=
  match t.pc with
  | .pushLeaf _ => 1
  | .pushInner _ _ => 1
  | _ => 0

/-- popper that has decremented the root but not yet `size_` -/
def postPop (t : Th) : Nat :=
  match t.pc with
  | .popLoad l _ => if l ≠ 0 then 1 else 0
  | .popCas l _ _ _ => if l ≠ 0 then 1 else 0
  | .leafLoad _ => 1
  | .leafCas _ _ => 1
  | .popDec _ => 1
  | _ => 0

/-- pages that are outside `size_`'s count because the thread has them (or has not yet re-added them) -/
def outCount (t : Th) : Nat :=
  t.held.length + match t.pc with
    | .pushInc _ => 1
    | _ => 0

def tsum (f : Th → Nat) (ts : List Th) : Nat := (ts.map f).sum

def bit (s : Sh) (id : Nat) : Nat := if (s.leaf (id / 64)).testBit (id % 64) then 1 else 0

/-- per-thread well-formedness: positions are live inner/leaf positions, CAS loops carry a non-zero `oldValue` -/
def WF (cap H : Nat) (t : Th) : Prop :=
  match t.pc with
  | .idle => True
  | .popLoad l o => l < H ∧ o < liveCount cap H l ∧ (l = 0 → o = 0)
  | .popCas l o a b => l < H ∧ o < liveCount cap H l ∧ (l = 0 → o = 0) ∧ (a ≠ 0 ∨ b ≠ 0)
  | .leafLoad o => o < liveCount cap H H
  | .leafCas o old => o < liveCount cap H H ∧ old ≠ 0
  | .popDec _ => True
  | .pushInc _ => True
  | .pushLeaf _ => True
  | .pushInner l o => 1 ≤ l ∧ l ≤ H ∧ o < liveCount cap H l
  | .bad => False

structure Inv (cap H : Nat) (c : Cfg) : Prop where
  wf : ∀ t ∈ c.2, WF cap H t
  cnt : ∀ l o d, l < H → o < liveCount cap H l → d < 2 →
    if 2 * o + d < liveCount cap H (l + 1) then
      total H c.1 (l + 1) (2 * o + d) = side (c.1.inner l o) d + tsum (fun t => resv H t (l + 1) (2 * o + d)) c.2
        + tsum (fun t => pend t (l + 1) (2 * o + d)) c.2
    else side (c.1.inner l o) d = 0
  own : ∀ id, if id < cap then bit c.1 id + tsum (fun t => owns t id) c.2 = 1 else tsum (fun t => owns t id) c.2 = 0
  lf : ∀ o, c.1.leaf o < 2 ^ 64 ∧ (o < liveCount cap H H → ∀ b, (c.1.leaf o).testBit b = true → o * 64 + b < cap)
  sz : c.1.size = total H c.1 0 0 + tsum prePush c.2 + tsum postPop c.2
  szc : c.1.size + tsum outCount c.2 = cap

/-! ### sums over threads -/

theorem tsum_set (f : Th → Nat) (ts : List Th) (i : Nat) (h : i < ts.length) (t : Th) :
    tsum f (ts.set i t) + f ts[i] = tsum f ts + f t := by
  unfold tsum
  induction ts generalizing i with
  | nil => simp at h
  | cons a as ih =>
    cases i with
    | zero => simp; omega
    | succ j =>
      have := ih j (by simpa using h)
      simp only [List.set_cons_succ, List.map_cons, List.sum_cons, List.getElem_cons_succ] at *
      omega

theorem tsum_ge (f : Th → Nat) (ts : List Th) (i : Nat) (h : i < ts.length) : f ts[i] ≤ tsum f ts := by
  unfold tsum
  induction ts generalizing i with
  | nil => simp at h
  | cons a as ih =>
    cases i with
    | zero => simp
    | succ j =>
      have := ih j (by simpa using h)
      simp only [List.map_cons, List.sum_cons, List.getElem_cons_succ] at *
      omega

theorem tsum_zero (f : Th → Nat) (ts : List Th) (h : ∀ t ∈ ts, f t = 0) : tsum f ts = 0 := by
  unfold tsum
  induction ts with
  | nil => rfl
  | cons a as ih =>
    simp only [List.map_cons, List.sum_cons]
    rw [h a (by simp), ih (fun t ht => h t (by simp [ht]))]

theorem wf_set {cap H : Nat} {ts : List Th} (hw : ∀ t ∈ ts, WF cap H t) (i : Nat) (t' : Th) (h' : WF cap H t') :
    ∀ t ∈ ts.set i t', WF cap H t := by
  intro t ht
  rcases List.mem_or_eq_of_mem_set ht with h | h
  · exact hw t h
  · exact h ▸ h'

/-- `liveCount` one level up: a node is live iff its left child is -/
theorem liveCount_step (cap H l : Nat) (h : l < H) : liveCount cap H l = (liveCount cap H (l + 1) + 1) / 2 := by
  unfold liveCount
  have : H - l = (H - (l + 1)) + 1 := by omega
  rw [this]
  rfl

theorem liveCount_leaf (cap H : Nat) : liveCount cap H H = (cap + 63) / 64 := by
  unfold liveCount; simp [halfUp, BitsPerLeaf]

end SquidModel.Ipc.PageStack
