import SquidModel.Html.Shape

namespace SquidModel.Html

theorem splitSemi_body (k : Nat) (body r : Bytes) (hlen : body.length < k)
    (hno : body.contains 59 = false) : splitSemi k (body ++ 59 :: r) = some (body, r) := by
  induction body generalizing k with
  | nil =>
    cases k with
    | zero => simp at hlen
    | succ k => simp [splitSemi]
  | cons c cs ih =>
    cases k with
    | zero => simp at hlen
    | succ k =>
      simp only [List.contains_cons, Bool.or_eq_false_iff] at hno
      have hc : c ≠ 59 := by
        intro h; subst h; simp at hno
      have := ih k (by simpa using hlen) hno.2
      simp [splitSemi, hc, this]

/-- what `shape` says about one byte, in usable form -/
theorem byte_cases (b : UInt8) :
    (escapeOf b = [] ∧ isMeta b = false) ∨
    (∃ body, escapeOf b = 38 :: (body ++ [59]) ∧ body.contains 59 = false ∧ body.length ≤ 4 ∧
      decodeEntity body = some b) := by
  have h := shape b
  unfold shapeOk at h
  simp only [UInt8.ofNat_toNat] at h
  generalize escapeOf b = e at h
  cases e with
  | nil => left; simpa using h
  | cons x rest =>
    right
    simp only [List.isEmpty_cons, Bool.false_eq_true, ↓reduceIte] at h
    split at h
    · rename_i rest' heq
      injection heq with hx hrest
      subst hrest
      split at h
      · rename_i bodyRev hrev
        refine ⟨bodyRev.reverse, ?_, ?_, ?_, ?_⟩
        · have : rest = (59 :: bodyRev).reverse := by rw [← hrev, List.reverse_reverse]
          simp [this, hx]
        · simp only [Bool.and_eq_true, Bool.not_eq_true'] at h; exact h.1.1
        · simp only [Bool.and_eq_true, decide_eq_true_eq] at h; exact h.1.2
        · simp only [Bool.and_eq_true, beq_iff_eq] at h; exact h.2
      · simp at h
    · simp at h

theorem quoteByte_plain {b : UInt8} (h : escapeOf b = []) : quoteByte b = [b] := by
  simp [quoteByte, h]

theorem quoteByte_esc {b : UInt8} {body : Bytes} (h : escapeOf b = 38 :: (body ++ [59])) :
    quoteByte b = 38 :: (body ++ [59]) := by
  simp [quoteByte, h]

theorem quoteByte_length_le (b : UInt8) : (quoteByte b).length ≤ 6 := by
  rcases byte_cases b with ⟨h, _⟩ | ⟨body, h, _, hl, _⟩
  · simp [quoteByte_plain h]
  · simp [quoteByte_esc h]; omega

theorem quoteByte_length_pos (b : UInt8) : 1 ≤ (quoteByte b).length := by
  rcases byte_cases b with ⟨h, _⟩ | ⟨body, h, _, hl, _⟩
  · simp [quoteByte_plain h]
  · simp [quoteByte_esc h]

theorem quote_cons (b : UInt8) (s : Bytes) : quote (b :: s) = quoteByte b ++ quote s := by
  simp [quote]

theorem not_amp_of_not_meta {b : UInt8} (h : isMeta b = false) : b ≠ 38 := by
  intro hb; subst hb; simp [isMeta] at h

/-- decoding: fuel at least the length of the quoted text suffices -/
theorem unquoteAux_quote (s : Bytes) : ∀ f, (quote s).length ≤ f → unquoteAux f (quote s) = s := by
  induction s with
  | nil => intro f _; cases f <;> simp [quote, unquoteAux]
  | cons b s ih =>
    intro f hf
    rw [quote_cons] at hf ⊢
    rcases byte_cases b with ⟨h, hm⟩ | ⟨body, h, hno, hl, hdec⟩
    · rw [quoteByte_plain h] at hf ⊢
      cases f with
      | zero => simp at hf
      | succ f =>
        have hb := not_amp_of_not_meta hm
        simp only [List.singleton_append, unquoteAux, hb, ↓reduceIte]
        rw [ih f (by simpa using hf)]
    · rw [quoteByte_esc h] at hf ⊢
      cases f with
      | zero => simp at hf
      | succ f =>
        have hsplit := splitSemi_body 6 body (quote s) (by omega) hno
        have e : (38 :: (body ++ [59])) ++ quote s = 38 :: (body ++ 59 :: quote s) := by simp
        rw [e] at hf ⊢
        simp only [unquoteAux, ↓reduceIte, hsplit, hdec]
        rw [ih f (by simp at hf; omega)]

theorem wellQuotedAux_quote (s : Bytes) : ∀ f, (quote s).length ≤ f → wellQuotedAux f (quote s) = true := by
  induction s with
  | nil => intro f _; cases f <;> simp [quote, wellQuotedAux]
  | cons b s ih =>
    intro f hf
    rw [quote_cons] at hf ⊢
    rcases byte_cases b with ⟨h, hm⟩ | ⟨body, h, hno, hl, hdec⟩
    · rw [quoteByte_plain h] at hf ⊢
      cases f with
      | zero => simp at hf
      | succ f =>
        have hb := not_amp_of_not_meta hm
        simp only [List.singleton_append, wellQuotedAux, hb, ↓reduceIte, hm, Bool.false_eq_true]
        exact ih f (by simpa using hf)
    · rw [quoteByte_esc h] at hf ⊢
      cases f with
      | zero => simp at hf
      | succ f =>
        have hsplit := splitSemi_body 6 body (quote s) (by omega) hno
        have e : (38 :: (body ++ [59])) ++ quote s = 38 :: (body ++ 59 :: quote s) := by simp
        rw [e] at hf ⊢
        simp only [wellQuotedAux, ↓reduceIte, hsplit, hdec]
        exact ih f (by simp at hf; omega)

theorem quote_length_le (s : Bytes) : (quote s).length ≤ 6 * s.length := by
  induction s with
  | nil => simp [quote]
  | cons b s ih =>
    rw [quote_cons]
    have := quoteByte_length_le b
    simp only [List.length_append, List.length_cons]
    omega

end SquidModel.Html
