/-
Model of `html_quote` (src/html/Quoting.cc) and the specification-side entity decoder.

`quote` follows the C loop: per input byte, look the byte up in the escape table (regenerated
from the running code into `Gen.HtmlQuote.table`) and emit the escape when it is non-empty,
the byte itself otherwise.
-/
import SquidModel.Base.Bytes
import SquidModel.Gen.HtmlQuote

namespace SquidModel.Html

def escapeOf (b : UInt8) : Bytes := Gen.HtmlQuote.table.getD b.toNat []

def quoteByte (b : UInt8) : Bytes :=
  let e := escapeOf b
  if e.isEmpty then [b] else e

def quote (s : Bytes) : Bytes := s.flatMap quoteByte

/-- `<`, `>`, `"`, `'`, `&` -/
def isMeta (b : UInt8) : Bool := b == 60 || b == 62 || b == 34 || b == 39 || b == 38

def isDigit (b : UInt8) : Bool := 48 ≤ b && b ≤ 57

def digitsVal : Bytes → Nat → Nat
  | [], acc => acc
  | d :: ds, acc => digitsVal ds (acc * 10 + (d.toNat - 48))

/-- value of the text between `&` and `;` -/
def decodeEntity (body : Bytes) : Option UInt8 :=
  if body = [108, 116] then some 60            -- lt
  else if body = [103, 116] then some 62       -- gt
  else if body = [113, 117, 111, 116] then some 34   -- quot
  else if body = [97, 109, 112] then some 38   -- amp
  else if body = [97, 112, 111, 115] then some 39    -- apos
  else match body with
    | 35 :: ds =>
      if ds.length ≥ 1 ∧ ds.length ≤ 3 ∧ ds.all isDigit ∧ digitsVal ds 0 < 256
      then some (UInt8.ofNat (digitsVal ds 0)) else none
    | _ => none

/-- split at the first `;` among the first `k` bytes -/
def splitSemi : Nat → Bytes → Option (Bytes × Bytes)
  | 0, _ => none
  | _ + 1, [] => none
  | k + 1, c :: r =>
    if c = 59 then some ([], r)
    else match splitSemi k r with
      | some (b, a) => some (c :: b, a)
      | none => none

/-- entity decoder with explicit fuel (one unit per consumed `&`/byte) -/
def unquoteAux : Nat → Bytes → Bytes
  | 0, s => s
  | _ + 1, [] => []
  | f + 1, c :: r =>
    if c = 38 then
      match splitSemi 6 r with
      | some (body, after) =>
        match decodeEntity body with
        | some b => b :: unquoteAux f after
        | none => c :: unquoteAux f r
      | none => c :: unquoteAux f r
    else c :: unquoteAux f r

def unquote (s : Bytes) : Bytes := unquoteAux s.length s

/-- recogniser of "no raw metacharacter outside an entity reference" -/
def wellQuotedAux : Nat → Bytes → Bool
  | 0, s => s.isEmpty
  | _ + 1, [] => true
  | f + 1, c :: r =>
    if c = 38 then
      match splitSemi 6 r with
      | some (body, after) =>
        match decodeEntity body with
        | some _ => wellQuotedAux f after
        | none => false
      | none => false
    else if isMeta c then false
    else wellQuotedAux f r

def wellQuoted (s : Bytes) : Bool := wellQuotedAux s.length s

end SquidModel.Html
