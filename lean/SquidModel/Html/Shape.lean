/-
Shape facts about the regenerated escape table that the property proofs rest on.
They are re-decided against `Gen.HtmlQuote.table` on every run: a harmful table change
(e.g. dropping the escape of `'`) turns `shape` red, a harmless one keeps it green.
-/
import SquidModel.Html.Quote
import SquidModel.Base.Finite

namespace SquidModel.Html

/-- the fact needed about one byte: either it is copied and is not a metacharacter, or its
escape is `&` body `;` with a `;`-free body of at most 4 bytes (so an escape never exceeds the 6 bytes per input byte that html_quote allocates) that decodes to the byte -/
def shapeOk (n : Nat) : Bool :=
  let b := UInt8.ofNat n
  let e := escapeOf b
  if e.isEmpty then !(isMeta b)
  else match e with
    | 38 :: rest =>
      (match rest.reverse with
       | 59 :: bodyRev =>
         let body := bodyRev.reverse
         !(body.contains 59) && body.length ≤ 4 && decodeEntity body == some b
       | _ => false)
    | _ => false

theorem shape_table : allBelow 256 shapeOk = true := by decide +kernel

theorem shape (b : UInt8) : shapeOk b.toNat = true :=
  allBelow_spec shape_table b.toNat b.toNat_lt

end SquidModel.Html
