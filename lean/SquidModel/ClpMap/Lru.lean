/-
Least-recently-used purging, stated with ghost last-use stamps: the instrumented reference `Stamped` shows exactly the
reference `Ref` when the stamps are erased; its item list is always in strictly decreasing stamp order; the entries purged
for capacity are the ones with the smallest stamps, and no more of them than necessary.
-/
import SquidModel.ClpMap.ListLemmas

namespace SquidModel.ClpMap
open SquidModel.Gen.ClpMapConsts
namespace Stamped

theorem map_sremove (k : Nat) : ∀ is : List SItem, (sremove is k).map (·.e) = remove (is.map (·.e)) k
  | [] => rfl
  | a :: r => by
    have ih := map_sremove k r
    unfold sremove at ih ⊢
    rw [List.map_cons, remove_cons, List.filter_cons]
    by_cases h : a.e.key = k
    · simp only [h, bne_self_eq_false, Bool.false_eq_true, if_false, if_true]; exact ih
    · have : (a.e.key != k) = true := bne_iff_ne.mpr h
      simp only [this, if_true, h, if_false, List.map_cons, ih]

theorem map_slookup (k : Nat) : ∀ is : List SItem, (slookup is k).map (·.e) = lookup (is.map (·.e)) k
  | [] => rfl
  | a :: r => by
    have ih := map_slookup k r
    unfold slookup at ih ⊢
    rw [List.map_cons, lookup_cons, List.find?_cons]
    by_cases h : a.e.key = k
    · simp [h]
    · have : (a.e.key == k) = false := by simp [h]
      simp only [h, if_false, this]; exact ih

theorem map_sfit : ∀ (is : List SItem) (room : Nat), (sfit is room).map (·.e) = fitPrefix (is.map (·.e)) room
  | [], _ => rfl
  | a :: r, room => by
    unfold sfit
    rw [List.map_cons]; unfold fitPrefix
    by_cases h : a.e.memCounted ≤ room
    · simp only [h, if_true, List.map_cons, map_sfit r]
    · simp only [h, if_false, List.map_nil]

/-- erasing the stamps commutes with every call -/
theorem erase_step (s : Stamped) (now : Int) (op : Op) :
    (s.step now op).1.erase = (s.erase.step now op).1 ∧ (s.step now op).2 = (s.erase.step now op).2 := by
  have hadd : ∀ k klen v vsz ttl, (s.add now k klen v vsz ttl).1.erase = (s.erase.add now k klen v vsz ttl).1 ∧
      (s.add now k klen v vsz ttl).2 = (s.erase.add now k klen v vsz ttl).2 := by
    intro k klen v vsz ttl
    unfold Stamped.add Ref.add
    simp only
    have hl : s.erase.limit = s.limit := rfl
    rw [hl]
    by_cases h : ttl < 0 ∨ exactSize klen vsz > u64Max ∨ exactSize klen vsz > s.limit
    · simp only [h, if_true, and_true]
      unfold erase; simp only [map_sremove]
    · simp only [h, if_false, and_true]
      unfold erase; simp only [List.map_cons, map_sfit, map_sremove]
  cases op with
  | add k klen v vsz ttl => exact ⟨(hadd k klen v vsz ttl).1, by unfold step Ref.step; simp only; rw [(hadd k klen v vsz ttl).2]⟩
  | addDefault k klen v vsz =>
    exact ⟨(hadd k klen v vsz s.defaultTtl).1, by unfold step Ref.step; simp only; rw [(hadd k klen v vsz s.defaultTtl).2]; rfl⟩
  | get k =>
    have hg : (s.get now k).1.erase = (s.erase.get now k).1 ∧ (s.get now k).2 = (s.erase.get now k).2 := by
      unfold Stamped.get Ref.get
      have hm := map_slookup k s.items
      have he : s.erase.items = s.items.map (·.e) := rfl
      rw [he, ← hm]
      cases hl : slookup s.items k with
      | none => simp only [Option.map_none]; trivial
      | some i =>
        simp only [Option.map_some]
        by_cases hx : i.e.expires < now
        · simp only [hx, if_true, and_true]; unfold erase; simp only [map_sremove]
        · simp only [hx, if_false, and_true]; unfold erase; simp only [List.map_cons, map_sremove]
    exact ⟨hg.1, by unfold step Ref.step; simp only; rw [hg.2]⟩
  | del k => exact ⟨by unfold step Ref.step del Ref.del erase; simp only [map_sremove], rfl⟩
  | setLimit n => exact ⟨by unfold step Ref.step setLimit Ref.setLimit erase; simp only [map_sfit], rfl⟩
  | setClock t => exact ⟨rfl, rfl⟩

/-- the item list is in strictly decreasing stamp order and all stamps are in the past -/
structure SInv (s : Stamped) : Prop where
  sorted : s.items.Pairwise (fun a b => b.stamp < a.stamp)
  past : ∀ i ∈ s.items, i.stamp < s.tick

theorem sremove_sublist (is : List SItem) (k : Nat) : (sremove is k).Sublist is := List.filter_sublist

theorem sfit_prefix : ∀ (is : List SItem) (room : Nat), ∃ t, is = sfit is room ++ t
  | [], _ => ⟨[], rfl⟩
  | a :: r, room => by
    unfold sfit
    by_cases h : a.e.memCounted ≤ room
    · obtain ⟨t, ht⟩ := sfit_prefix r (room - a.e.memCounted)
      exact ⟨t, by simp only [h, if_true, List.cons_append]; rw [← ht]⟩
    · exact ⟨a :: r, by simp [h]⟩

theorem sfit_sublist (is : List SItem) (room : Nat) : (sfit is room).Sublist is := by
  obtain ⟨t, ht⟩ := sfit_prefix is room
  conv => rhs; rw [ht]
  exact List.sublist_append_left _ _

theorem sinv_sub {s : Stamped} (h : SInv s) {l : List SItem} (hs : l.Sublist s.items) :
    SInv { s with items := l } :=
  ⟨List.Pairwise.sublist hs h.sorted, fun i hi => h.past i (hs.subset hi)⟩

theorem sinv_push {s : Stamped} (h : SInv s) {l : List SItem} (hs : l.Sublist s.items) (e : Entry) :
    SInv { s with items := { e := e, stamp := s.tick } :: l, tick := s.tick + 1 } := by
  constructor
  · rw [List.pairwise_cons]
    exact ⟨fun b hb => h.past b (hs.subset hb), List.Pairwise.sublist hs h.sorted⟩
  · intro i hi
    rcases List.mem_cons.mp hi with rfl | hi'
    · show s.tick < s.tick + 1; omega
    · have := h.past i (hs.subset hi'); show i.stamp < s.tick + 1; omega

theorem sinv_step {s : Stamped} (h : SInv s) (now : Int) (op : Op) : SInv (s.step now op).1 := by
  have hadd : ∀ k klen v vsz ttl, SInv (s.add now k klen v vsz ttl).1 := by
    intro k klen v vsz ttl
    unfold Stamped.add; simp only
    split
    · exact sinv_sub h (sremove_sublist _ _)
    · exact sinv_push h ((sfit_sublist _ _).trans (sremove_sublist _ _)) _
  cases op with
  | add k klen v vsz ttl => exact hadd k klen v vsz ttl
  | addDefault k klen v vsz => exact hadd k klen v vsz s.defaultTtl
  | get k =>
    show SInv (s.get now k).1
    unfold Stamped.get
    split
    · exact h
    · split
      · exact sinv_sub h (sremove_sublist _ _)
      · exact sinv_push h (sremove_sublist _ _) _
  | del k => exact sinv_sub h (sremove_sublist _ _)
  | setLimit n =>
    have := sinv_sub h (sfit_sublist s.items n)
    exact ⟨this.sorted, this.past⟩
  | setClock t => exact h

/-- in a stamp-ordered list the entries cut off by `sfit` are older than every entry kept -/
theorem sfit_victims_older {is : List SItem} (hs : is.Pairwise (fun a b => b.stamp < a.stamp)) (room : Nat)
    {victims : List SItem} (h : is = sfit is room ++ victims) :
    ∀ a ∈ sfit is room, ∀ b ∈ victims, b.stamp < a.stamp := by
  rw [h, List.pairwise_append] at hs
  exact hs.2.2

/-- and cutting is minimal: the most recently used victim would not have fit -/
theorem sfit_maximal : ∀ (is : List SItem) (room : Nat) (v : SItem) (t : List SItem),
    is = sfit is room ++ v :: t → room < total ((sfit is room).map (·.e)) + v.e.memCounted
  | [], _, v, t, h => by simp [sfit] at h
  | a :: r, room, v, t, h => by
    unfold sfit at h ⊢
    by_cases h1 : a.e.memCounted ≤ room
    · simp only [h1, if_true, List.cons_append, List.cons.injEq, true_and] at h
      simp only [h1, if_true, List.map_cons, total]
      have := sfit_maximal r (room - a.e.memCounted) v t h
      omega
    · simp only [h1, if_false, List.nil_append, List.cons.injEq] at h
      simp only [h1, if_false, List.map_nil, total]
      rw [← h.1]; omega

def init (capacity : Nat) (ttl : Option Int) : Stamped :=
  { items := [], limit := capacity, defaultTtl := ttl.getD ttlMax, tick := 0 }

theorem sinv_init (capacity : Nat) (ttl : Option Int) : SInv (init capacity ttl) :=
  ⟨List.Pairwise.nil, fun _ h => by cases h⟩

/-- the instrumented states reached by a history -/
def after : Stamped → Int → List Op → Stamped × Int
  | s, now, [] => (s, now)
  | s, now, op :: rest => after (s.step now op).1 (s.step now op).2.1 rest

theorem sinv_after : ∀ (ops : List Op) {s : Stamped} (now : Int), SInv s → SInv (after s now ops).1
  | [], _, _, h => h
  | op :: rest, _, _, h => sinv_after rest _ (sinv_step h _ op)

/-- the reference states reached by a history -/
def _root_.SquidModel.ClpMap.Ref.after : Ref → Int → List Op → Ref × Int
  | r, now, [] => (r, now)
  | r, now, op :: rest => Ref.after (r.step now op).1 (r.step now op).2.1 rest

theorem erase_after : ∀ (ops : List Op) (s : Stamped) (now : Int),
    (after s now ops).1.erase = (Ref.after s.erase now ops).1 ∧ (after s now ops).2 = (Ref.after s.erase now ops).2
  | [], _, _ => ⟨rfl, rfl⟩
  | op :: rest, s, now => by
    obtain ⟨h1, h2⟩ := erase_step s now op
    unfold after Ref.after
    rw [← h1, ← congrArg (·.1) h2]
    exact erase_after rest _ _

end Stamped
end SquidModel.ClpMap
