/-
The invariant of the ClpMap model and the effect of `erase`, `find`, `get`, `del` on states that satisfy it,
expressed on the entry list `ents s` (what a traversal shows).
-/
import SquidModel.ClpMap.ListLemmas

namespace SquidModel.ClpMap
open SquidModel.Gen.ClpMapConsts

/-- the entries in traversal order -/
def ents (s : State) : List Entry := s.entries.map (·.e)

structure Inv (s : State) : Prop where
  /-- list nodes have distinct identities -/
  ids : (s.entries.map (·.id)).Nodup
  /-- at most one entry per key -/
  keys : (s.entries.map (·.e.key)).Nodup
  /-- identities handed out so far are below `nextId` -/
  fresh : ∀ n ∈ s.entries, n.id < s.nextId
  /-- the index maps exactly the stored keys, each to the node that holds it -/
  index : ∀ k, indexFind s.index k = (s.entries.find? (fun n => n.e.key == k)).map (·.id)
  /-- `memUsed_` is the sum of the accounted sizes -/
  used : s.memUsed = total (ents s)
  /-- memory in use never exceeds the capacity -/
  le : s.memUsed ≤ s.memLimit
  lim : s.memLimit ≤ u64Max
  /-- no entry is accounted as zero bytes -/
  pos : ∀ n ∈ s.entries, 0 < n.e.memCounted

/-- what the internal helpers never change -/
def Frame (s s' : State) : Prop :=
  s'.memLimit = s.memLimit ∧ s'.nextId = s.nextId ∧ s'.defaultTtl = s.defaultTtl

theorem Frame.refl (s : State) : Frame s s := ⟨rfl, rfl, rfl⟩
theorem Frame.trans {a b c : State} (h1 : Frame a b) (h2 : Frame b c) : Frame a c :=
  ⟨h2.1.trans h1.1, h2.2.1.trans h1.2.1, h2.2.2.trans h1.2.2⟩

theorem map_key_map_e : ∀ es : List Node, (es.map (·.e)).map (·.key) = es.map (·.e.key)
  | [] => rfl
  | a :: r => by simp only [List.map_cons, map_key_map_e r]

theorem Inv.ekeys {s : State} (h : Inv s) : ((ents s).map (·.key)).Nodup := by
  unfold ents; rw [map_key_map_e]; exact h.keys

theorem mem_ents {s : State} {n : Node} (h : n ∈ s.entries) : n.e ∈ ents s :=
  List.mem_map_of_mem (f := (·.e)) h

theorem lookup_of_mem : ∀ {es : List Entry} {e : Entry}, (es.map (·.key)).Nodup → e ∈ es → lookup es e.key = some e
  | [], _, _, h => by cases h
  | a :: r, e, hn, h => by
    rw [keys_nodup_cons] at hn
    rw [lookup_cons]
    rcases List.mem_cons.mp h with rfl | h'
    · simp
    · have : a.key ≠ e.key := fun hk => hn.1 e h' hk.symm
      simp only [this, if_false]
      exact lookup_of_mem hn.2 h'

theorem indexFind_erase (k k' : Nat) : ∀ ix : List (Nat × Nat),
    indexFind (indexErase ix k) k' = if k' = k then none else indexFind ix k'
  | [] => by simp [indexErase, indexFind]
  | (a, id) :: r => by
    have ih := indexFind_erase k k' r
    unfold indexErase at ih ⊢
    rw [List.filter_cons]
    by_cases ha : a = k
    · subst ha
      simp only [bne_self_eq_false, Bool.false_eq_true, if_false]
      rw [ih]
      by_cases hk : k' = a
      · simp [hk]
      · have : a ≠ k' := fun h => hk h.symm
        simp [hk, indexFind, this]
    · have e1 : (a != k) = true := bne_iff_ne.mpr ha
      simp only [e1, if_true, indexFind]
      by_cases hk : a = k'
      · have : k' ≠ k := hk ▸ ha
        simp [hk, this]
      · simp only [hk, if_false]; exact ih

theorem find?_filter_key (k k' : Nat) : ∀ es : List Node,
    (es.filter (fun x => x.e.key != k)).find? (fun x => x.e.key == k') =
      if k' = k then none else es.find? (fun x => x.e.key == k')
  | [] => by simp
  | a :: r => by
    have ih := find?_filter_key k k' r
    rw [List.filter_cons]
    by_cases ha : a.e.key = k
    · have e1 : (a.e.key != k) = false := by simp [ha]
      simp only [e1, Bool.false_eq_true, if_false]
      rw [ih, List.find?_cons]
      by_cases hk : k' = k
      · simp [hk]
      · have : (a.e.key == k') = false := by
          have : a.e.key ≠ k' := fun h => hk (h ▸ ha)
          simp [this]
        simp [hk, this]
    · have e1 : (a.e.key != k) = true := bne_iff_ne.mpr ha
      simp only [e1, if_true, List.find?_cons]
      by_cases hk : a.e.key = k'
      · have e2 : (a.e.key == k') = true := by simp [hk]
        have : k' ≠ k := hk ▸ ha
        simp [e2, this]
      · have e2 : (a.e.key == k') = false := by simp [hk]
        simp only [e2]; exact ih

/-- the node holding a key, when the entry list has it -/
theorem node_of_lookup {s : State} {k : Nat} {e : Entry} (h : lookup (ents s) k = some e) :
    ∃ n, s.entries.find? (fun n => n.e.key == k) = some n ∧ n.e = e ∧ n ∈ s.entries ∧ n.e.key = k := by
  unfold ents at h
  rw [lookup_map_e] at h
  cases hf : s.entries.find? (fun n => n.e.key == k) with
  | none => rw [hf] at h; cases h
  | some n =>
    rw [hf] at h
    simp only [Option.map_some, Option.some.injEq] at h
    refine ⟨n, rfl, h, List.mem_of_find?_eq_some hf, ?_⟩
    have := List.find?_some hf
    simpa using this

theorem no_node_of_lookup {s : State} {k : Nat} (h : lookup (ents s) k = none) :
    s.entries.find? (fun n => n.e.key == k) = none := by
  unfold ents at h
  rw [lookup_map_e] at h
  cases hf : s.entries.find? (fun n => n.e.key == k) with
  | none => rfl
  | some n => rw [hf] at h; cases h

/-- dropping the node of key `n.e.key` from all three members keeps the invariant -/
theorem inv_remove {s : State} (hi : Inv s) {n : Node} (hm : n ∈ s.entries) :
    Inv { s with memUsed := s.memUsed - n.e.memCounted,
                 index := indexErase s.index n.e.key,
                 entries := s.entries.filter (fun x => x.e.key != n.e.key) } ∧
    n.e.memCounted ≤ s.memUsed := by
  have hl : lookup (ents s) n.e.key = some n.e := lookup_of_mem hi.ekeys (mem_ents hm)
  have ht := total_remove hi.ekeys hl
  have hsub : (s.entries.filter (fun x => x.e.key != n.e.key)).Sublist s.entries := List.filter_sublist
  refine ⟨⟨?_, ?_, ?_, ?_, ?_, ?_, hi.lim, ?_⟩, ?_⟩
  · exact List.Nodup.sublist (List.Sublist.map _ hsub) hi.ids
  · exact List.Nodup.sublist (List.Sublist.map _ hsub) hi.keys
  · intro x hx; exact hi.fresh x (hsub.subset hx)
  · intro k'
    show indexFind (indexErase s.index n.e.key) k' = _
    rw [indexFind_erase, find?_filter_key, hi.index k']
    by_cases hk : k' = n.e.key <;> simp [hk]
  · show s.memUsed - n.e.memCounted = total (List.map (·.e) (s.entries.filter (fun x => x.e.key != n.e.key)))
    rw [map_e_filter_key, hi.used]
    unfold ents at ht ⊢
    omega
  · show s.memUsed - n.e.memCounted ≤ s.memLimit
    have := hi.le; omega
  · intro x hx; exact hi.pos x (hsub.subset hx)
  · rw [hi.used]; omega

theorem erase_spec {s : State} (hi : Inv s) {n : Node} (hm : n ∈ s.entries) :
    ∃ s', erase s n.e.key n.id = .ok s' ∧ Inv s' ∧ ents s' = remove (ents s) n.e.key ∧ Frame s s' := by
  obtain ⟨hinv, hle⟩ := inv_remove hi hm
  have hu : s.memUsed ≤ u64Max := Nat.le_trans hi.le hi.lim
  refine ⟨_, ?_, hinv, ?_, ⟨rfl, rfl, rfl⟩⟩
  · unfold erase
    rw [nodeAt_of_mem hi.ids hm]
    have : ¬ s.memUsed < n.e.memCounted := by omega
    simp only [this, if_false]
    rw [subU64_of_le hle hu, eraseNode_eq_filter_key hi.ids hi.keys hm]
  · show List.map (·.e) (s.entries.filter (fun x => x.e.key != n.e.key)) = _
    rw [map_e_filter_key]; rfl

/-- moving a node to the front, as `std::list::splice` does -/
theorem splice_eq {es : List Node} {n : Node} (hi : (es.map (·.id)).Nodup) (hm : n ∈ es) :
    spliceFront es n = n :: eraseNode es n.id := by
  cases es with
  | nil => cases hm
  | cons h r =>
    unfold spliceFront
    by_cases hh : h.id = n.id
    · have hn : h = n := inj_of_nodup_map (·.id) hi (List.mem_cons_self ..) hm hh
      subst hn
      simp only [if_true]
      rw [List.map_cons, List.nodup_cons] at hi
      unfold eraseNode
      rw [List.filter_cons]
      simp only [bne_self_eq_false, Bool.false_eq_true, if_false]
      rw [List.filter_eq_self.mpr]
      intro x hx
      have : x.id ≠ h.id := fun he => hi.1 (he ▸ List.mem_map_of_mem (f := (·.id)) hx)
      exact bne_iff_ne.mpr this
    · simp only [hh, if_false]

theorem inv_splice {s : State} (hi : Inv s) {n : Node} (hm : n ∈ s.entries) :
    Inv { s with entries := n :: s.entries.filter (fun x => x.e.key != n.e.key) } := by
  have hl : lookup (ents s) n.e.key = some n.e := lookup_of_mem hi.ekeys (mem_ents hm)
  have ht := total_remove hi.ekeys hl
  have hsub : (s.entries.filter (fun x => x.e.key != n.e.key)).Sublist s.entries := List.filter_sublist
  have hkey : ∀ x ∈ s.entries.filter (fun x => x.e.key != n.e.key), x.e.key ≠ n.e.key := by
    intro x hx
    have := (List.mem_filter.mp hx).2
    exact bne_iff_ne.mp this
  refine ⟨?_, ?_, ?_, ?_, ?_, hi.le, hi.lim, ?_⟩
  · rw [List.map_cons, List.nodup_cons]
    refine ⟨fun hmem => ?_, List.Nodup.sublist (List.Sublist.map _ hsub) hi.ids⟩
    rcases List.mem_map.mp hmem with ⟨x, hx, hxid⟩
    have : x = n := inj_of_nodup_map (·.id) hi.ids (hsub.subset hx) hm hxid
    exact hkey x hx (this ▸ rfl)
  · rw [List.map_cons, List.nodup_cons]
    refine ⟨fun hmem => ?_, List.Nodup.sublist (List.Sublist.map _ hsub) hi.keys⟩
    rcases List.mem_map.mp hmem with ⟨x, hx, hxk⟩
    exact hkey x hx hxk
  · intro x hx
    rcases List.mem_cons.mp hx with rfl | hx'
    · exact hi.fresh _ hm
    · exact hi.fresh x (hsub.subset hx')
  · intro k'
    show indexFind s.index k' = _
    rw [hi.index k', List.find?_cons]
    by_cases hk : n.e.key = k'
    · have e1 : (n.e.key == k') = true := by simp [hk]
      simp only [e1]
      obtain ⟨n', hf, hne, _, _⟩ := node_of_lookup (s := s) (k := k') (hk ▸ hl)
      rw [hf]
      have : n' = n := by
        have hm' := List.mem_of_find?_eq_some hf
        have hk' : n'.e.key = k' := by have := List.find?_some hf; simpa using this
        exact inj_of_nodup_map (·.e.key) hi.keys hm' hm (hk'.trans hk.symm)
      rw [this]
    · have e1 : (n.e.key == k') = false := by simp [hk]
      simp only [e1]
      rw [find?_filter_key]
      have : k' ≠ n.e.key := fun h => hk h.symm
      simp [this]
  · show s.memUsed = total (n.e :: List.map (·.e) (s.entries.filter (fun x => x.e.key != n.e.key)))
    rw [map_e_filter_key, hi.used]
    unfold ents at ht ⊢
    simp only [total]; omega
  · intro x hx
    rcases List.mem_cons.mp hx with rfl | hx'
    · exact hi.pos _ hm
    · exact hi.pos x (hsub.subset hx')

/-- `find()` on a state that satisfies the invariant -/
theorem find_spec {s : State} (hi : Inv s) (now : Int) (k : Nat) :
    match lookup (ents s) k with
    | none => find s now k = .ok (s, none)
    | some e =>
      if e.expires < now then
        ∃ s', find s now k = .ok (s', none) ∧ Inv s' ∧ ents s' = remove (ents s) k ∧ Frame s s'
      else
        ∃ s' n, find s now k = .ok (s', some n.id) ∧ Inv s' ∧ ents s' = e :: remove (ents s) k ∧ Frame s s' ∧
          n.e = e ∧ n.e.key = k ∧ s'.entries = n :: s.entries.filter (fun x => x.e.key != k) := by
  cases hl : lookup (ents s) k with
  | none =>
    simp only
    unfold find
    rw [hi.index k, no_node_of_lookup hl]
    rfl
  | some e =>
    simp only
    obtain ⟨n, hf, hne, hm, hk⟩ := node_of_lookup hl
    have hidx : indexFind s.index k = some n.id := by rw [hi.index k, hf]; rfl
    have hnode : nodeAt s.entries n.id = some n := nodeAt_of_mem hi.ids hm
    by_cases hexp : e.expires < now
    · simp only [hexp, if_true]
      obtain ⟨s', he, hinv, hents, hfr⟩ := erase_spec hi hm
      refine ⟨s', ?_, hinv, hk ▸ hents, hfr⟩
      unfold find
      rw [hidx]; simp only
      rw [hnode]; simp only
      have : n.e.expired now = true := by unfold Entry.expired; rw [hne]; simp [hexp]
      rw [this]; simp only [Bool.not_true, Bool.false_eq_true, if_false]
      rw [← hk, he]
    · simp only [hexp, if_false]
      have hsp := splice_eq hi.ids hm
      rw [eraseNode_eq_filter_key hi.ids hi.keys hm] at hsp
      refine ⟨{ s with entries := n :: s.entries.filter (fun x => x.e.key != n.e.key) }, n, ?_, inv_splice hi hm, ?_,
        ⟨rfl, rfl, rfl⟩, hne, hk, by rw [hk]⟩
      · unfold find
        rw [hidx]; simp only
        rw [hnode]; simp only
        have : n.e.expired now = false := by unfold Entry.expired; rw [hne]; simp [hexp]
        rw [this]; simp only [Bool.not_false, if_true]
        rw [hsp]
      · show n.e :: List.map (·.e) (s.entries.filter (fun x => x.e.key != n.e.key)) = _
        rw [map_e_filter_key, hk, hne]; rfl

end SquidModel.ClpMap
