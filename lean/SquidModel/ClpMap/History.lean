/-
Histories: from a freshly constructed map, the model's run of any valid history returns normally and yields exactly
the observations of the reference map; every observation is well-formed (memory accounting, unique keys).
-/
import SquidModel.ClpMap.Refine

namespace SquidModel.ClpMap
open SquidModel.Gen.ClpMapConsts

/-- model state and reference state show the same map -/
def Rel (s : State) (r : Ref) : Prop :=
  Inv s ∧ ents s = r.items ∧ s.memLimit = r.limit ∧ s.defaultTtl = r.defaultTtl

/-- a clock value a `time_t` can hold, not before the epoch -/
def ClockOk (t : Int) : Prop := 0 ≤ t ∧ t ≤ timeMax

/-- arguments in the range of their C++ types (`uint64_t` sizes and capacities, `time_t` clock) -/
def Op.Valid : Op → Prop
  | .add _ klen _ vsz _ => klen ≤ u64Max ∧ vsz ≤ u64Max
  | .addDefault _ klen _ vsz => klen ≤ u64Max ∧ vsz ≤ u64Max
  | .get _ => True
  | .del _ => True
  | .setLimit n => n ≤ u64Max
  | .setClock t => ClockOk t

theorem Rel.ref_eq {s : State} {r : Ref} (h : Rel s r) : (⟨ents s, s.memLimit, s.defaultTtl⟩ : Ref) = r := by
  obtain ⟨_, h1, h2, h3⟩ := h
  cases r; simp only at h1 h2 h3; rw [h1, h2, h3]

theorem step_sim {s : State} {r : Ref} {now : Int} {op : Op} (hR : Rel s r) (hc : ClockOk now) (hv : op.Valid) :
    ∃ s', step s now op = .ok (s', (r.step now op).2.1, (r.step now op).2.2) ∧ Rel s' (r.step now op).1 ∧
      ClockOk (r.step now op).2.1 := by
  have hi := hR.1
  have hre := hR.ref_eq
  cases op with
  | add k klen v vsz ttl =>
    obtain ⟨s', ha, hinv, hents, hl, hd⟩ := add_spec hi hc.1 hc.2 k v ttl hv.1 hv.2
    rw [hre] at ha hents
    refine ⟨s', ?_, ⟨hinv, ?_, ?_, ?_⟩, hc⟩
    · simp only [step]; rw [ha]; rfl
    · exact hents
    · show s'.memLimit = (r.add now k klen v vsz ttl).1.limit
      rw [hl, hR.2.2.1]; unfold Ref.add; simp only; split <;> rfl
    · show s'.defaultTtl = (r.add now k klen v vsz ttl).1.defaultTtl
      rw [hd, hR.2.2.2]; unfold Ref.add; simp only; split <;> rfl
  | addDefault k klen v vsz =>
    obtain ⟨s', ha, hinv, hents, hl, hd⟩ := add_spec hi hc.1 hc.2 k v s.defaultTtl hv.1 hv.2
    rw [hre, hR.2.2.2] at ha hents
    refine ⟨s', ?_, ⟨hinv, ?_, ?_, ?_⟩, hc⟩
    · simp only [step]; rw [hR.2.2.2, ha]; rfl
    · exact hents
    · show s'.memLimit = (r.add now k klen v vsz r.defaultTtl).1.limit
      rw [hl, hR.2.2.1]; unfold Ref.add; simp only; split <;> rfl
    · show s'.defaultTtl = (r.add now k klen v vsz r.defaultTtl).1.defaultTtl
      rw [hd, hR.2.2.2]; unfold Ref.add; simp only; split <;> rfl
  | get k =>
    obtain ⟨s', hg, hinv, hents, hfr⟩ := get_spec hi now k
    rw [hre] at hg hents
    refine ⟨s', ?_, ⟨hinv, hents, ?_, ?_⟩, hc⟩
    · simp only [step]; rw [hg]; rfl
    · show s'.memLimit = (r.get now k).1.limit
      rw [hfr.1, hR.2.2.1]; unfold Ref.get; split
      · rfl
      · split <;> rfl
    · show s'.defaultTtl = (r.get now k).1.defaultTtl
      rw [hfr.2.2, hR.2.2.2]; unfold Ref.get; split
      · rfl
      · split <;> rfl
  | del k =>
    obtain ⟨s', hd, hinv, hents, hfr⟩ := del_spec hi now k
    refine ⟨s', ?_, ⟨hinv, ?_, ?_, ?_⟩, hc⟩
    · simp only [step]; rw [hd]; rfl
    · show ents s' = remove r.items k
      rw [hents, hR.2.1]
    · show s'.memLimit = r.limit
      rw [hfr.1, hR.2.2.1]
    · show s'.defaultTtl = r.defaultTtl
      rw [hfr.2.2, hR.2.2.2]
  | setLimit n =>
    obtain ⟨s', hs, hinv, hents, hl, hd⟩ := setMemLimit_spec hi now (n := n) hv
    refine ⟨s', ?_, ⟨hinv, ?_, hl, ?_⟩, hc⟩
    · simp only [step]; rw [hs]; rfl
    · show ents s' = fitPrefix r.items n
      rw [hents, hR.2.1]
    · show s'.defaultTtl = r.defaultTtl
      rw [hd, hR.2.2.2]
  | setClock t =>
    exact ⟨s, rfl, hR, hv⟩

/-- a well-formed observation: memory accounting is exact and within the capacity, one entry per key -/
structure Obs.Good (o : Obs) : Prop where
  le : o.used ≤ o.limit
  sum : o.used = total o.items
  keys : (o.items.map (·.key)).Nodup
  count : o.count = o.items.length
  pos : ∀ e ∈ o.items, 0 < e.memCounted

theorem observe_eq {s : State} {r : Ref} (h : Rel s r) (res : Res) : observe res s = Ref.observe res r := by
  obtain ⟨hi, h1, h2, _⟩ := h
  unfold observe Ref.observe
  have e1 : s.entries.map (·.e) = r.items := h1
  have e2 : s.entries.length = r.items.length := by rw [← h1, length_ents]
  rw [e1, e2, h2, hi.used, h1]

theorem observe_good {s : State} {r : Ref} (h : Rel s r) (res : Res) : (Ref.observe res r).Good := by
  obtain ⟨hi, h1, h2, _⟩ := h
  refine ⟨?_, rfl, ?_, rfl, ?_⟩
  · show total r.items ≤ r.limit
    rw [← h1, ← hi.used, ← h2]; exact hi.le
  · show (r.items.map (·.key)).Nodup
    rw [← h1]; exact hi.ekeys
  · intro e he
    have he' : e ∈ ents s := by rw [h1]; exact he
    rcases List.mem_map.mp he' with ⟨n, hn, rfl⟩
    exact hi.pos n hn

theorem run_sim : ∀ (ops : List Op) {s : State} {r : Ref} {now : Int}, Rel s r → ClockOk now →
    (∀ op ∈ ops, op.Valid) →
    run s now ops = .ok (Ref.run r now ops) ∧ ∀ o ∈ Ref.run r now ops, o.Good
  | [], _, _, _, _, _, _ => ⟨rfl, fun _ h => by cases h⟩
  | op :: rest, s, r, now, hR, hc, hv => by
    obtain ⟨s', hs, hR', hc'⟩ := step_sim hR hc (hv op (List.mem_cons_self ..))
    obtain ⟨ih1, ih2⟩ := run_sim rest hR' hc' (fun o ho => hv o (List.mem_cons_of_mem _ ho))
    have hrun : Ref.run r now (op :: rest) =
        Ref.observe (r.step now op).2.2 (r.step now op).1 :: Ref.run (r.step now op).1 (r.step now op).2.1 rest := rfl
    constructor
    · unfold run; rw [hs]; simp only
      rw [ih1]; simp only
      rw [hrun, observe_eq hR']
    · intro o ho
      rw [hrun] at ho
      rcases List.mem_cons.mp ho with rfl | ho'
      · exact observe_good hR' _
      · exact ih2 o ho'

theorem inv_empty (d : Int) : Inv { entries := [], index := [], nextId := 0, memLimit := 0, memUsed := 0, defaultTtl := d } :=
  ⟨List.nodup_nil, List.nodup_nil, (fun _ h => by cases h), (fun _ => rfl), rfl, Nat.le_refl _, Nat.zero_le _,
    (fun _ h => by cases h)⟩

/-- both constructors produce an empty map of the requested capacity -/
theorem init_rel {capacity : Nat} {ttl : Option Int} (now : Int) (hc : capacity ≤ u64Max) (ht : ∀ d, ttl = some d → 0 ≤ d) :
    ∃ s, init capacity ttl now = .ok s ∧ Rel s (Ref.init capacity ttl) := by
  unfold init
  cases ttl with
  | none =>
    simp only
    obtain ⟨s', hs, hinv, hents, hl, hd⟩ := setMemLimit_spec (inv_empty ttlMax) now (n := capacity) hc
    exact ⟨s', hs, hinv, hents, hl, hd⟩
  | some d =>
    have : ¬ d < 0 := by have := ht d rfl; omega
    simp only [this, if_false]
    obtain ⟨s', hs, hinv, hents, hl, hd⟩ := setMemLimit_spec (inv_empty d) now (n := capacity) hc
    exact ⟨s', hs, hinv, hents, hl, hd⟩

end SquidModel.ClpMap
