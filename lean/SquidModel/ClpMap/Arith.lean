/-
Arithmetic of the ClpMap model: the `uint64_t` wrap-around operations agree with the natural-number ones in the range
the invariant guarantees, the chain of checked additions of `NaturalSum` is one range check on the exact sum, and the
saturating expiry computation is `min (now + ttl) timeMax`.
-/
import SquidModel.ClpMap.Model

namespace SquidModel.ClpMap
open SquidModel.Gen.ClpMapConsts

theorem modulus_pos : 0 < modulus := by unfold modulus; omega

theorem subU64_of_le {a b : Nat} (hb : b ≤ a) (ha : a ≤ u64Max) : subU64 a b = a - b := by
  unfold subU64 modulus
  have h1 : a + (u64Max + 1) - b = (a - b) + (u64Max + 1) := by omega
  rw [h1, Nat.add_mod_right]
  exact Nat.mod_eq_of_lt (by omega)

theorem addU64_of_le {a b : Nat} (h : a + b ≤ u64Max) : addU64 a b = a + b := by
  unfold addU64 modulus
  exact Nat.mod_eq_of_lt (by omega)

theorem addU64_lt_modulus (a b : Nat) : addU64 a b < modulus := by
  unfold addU64; exact Nat.mod_lt _ modulus_pos

/-- an overflowed `uint64_t` sum is smaller than its first operand -/
theorem addU64_overflow {a b : Nat} (ha : a ≤ u64Max) (hb : b ≤ u64Max) (h : u64Max < a + b) : addU64 a b < a := by
  unfold addU64 modulus
  have h1 : a + b = (a + b - (u64Max + 1)) + (u64Max + 1) := by omega
  rw [h1, Nat.add_mod_right]
  have h2 : a + b - (u64Max + 1) < u64Max + 1 := by omega
  rw [Nat.mod_eq_of_lt h2]
  omega

/-- one checked addition = a range check on the exact sum -/
theorem incSumU64_eq {a b : Nat} (ha : a ≤ u64Max) (hb : b ≤ u64Max) :
    incSumU64 a b = if a + b ≤ u64Max then some (a + b) else none := by
  unfold incSumU64
  by_cases h : a + b ≤ u64Max
  · simp only [addU64_of_le h, h, if_true]
    have : a + b ≥ a := by omega
    simp [this]
  · have hlt := addU64_overflow ha hb (by omega)
    simp only [h, if_false]
    have : ¬ (addU64 a b ≥ a ∧ addU64 a b ≤ u64Max) := by omega
    simp [this]

/-- the accounted size of an entry: key length + value size + the two container element sizes, when that fits `uint64_t` -/
def exactSize (klen vsz : Nat) : Nat := klen + entrySize + vsz + indexSize

theorem entrySize_le : entrySize ≤ u64Max := by decide
theorem indexSize_le : indexSize ≤ u64Max := by decide
theorem overhead_pos : 0 < entrySize + indexSize := by decide

/-- `MemoryCountedFor` is the exact sum when it fits 64 bits and nothing otherwise -/
theorem memoryCountedFor_eq {klen vsz : Nat} (hk : klen ≤ u64Max) (hv : vsz ≤ u64Max) :
    memoryCountedFor klen vsz = if exactSize klen vsz ≤ u64Max then some (exactSize klen vsz) else none := by
  have he := entrySize_le
  have hi := indexSize_le
  unfold memoryCountedFor exactSize
  rw [incSumU64_eq (Nat.zero_le _) hk]
  simp only [Nat.zero_add, hk, if_true]
  rw [incSumU64_eq hk he]
  by_cases h1 : klen + entrySize ≤ u64Max
  · simp only [h1, if_true]
    rw [incSumU64_eq h1 hv]
    by_cases h2 : klen + entrySize + vsz ≤ u64Max
    · simp only [h2, if_true]
      rw [incSumU64_eq h2 hi]
    · simp only [h2, if_false]
      have : ¬ (klen + entrySize + vsz + indexSize ≤ u64Max) := by omega
      simp [this]
  · simp only [h1, if_false]
    have : ¬ (klen + entrySize + vsz + indexSize ≤ u64Max) := by omega
    simp [this]

theorem memoryCountedFor_pos {klen vsz want : Nat} (hk : klen ≤ u64Max) (hv : vsz ≤ u64Max)
    (h : memoryCountedFor klen vsz = some want) : 0 < want ∧ want ≤ u64Max ∧ want = exactSize klen vsz := by
  rw [memoryCountedFor_eq hk hv] at h
  have hp := overhead_pos
  by_cases h1 : exactSize klen vsz ≤ u64Max
  · simp only [h1, if_true, Option.some.injEq] at h
    subst h
    refine ⟨?_, h1, rfl⟩
    unfold exactSize; omega
  · simp [h1] at h

theorem timeMax_nonneg : 0 ≤ timeMax := by decide

/-- the expiry instant saturates at `time_t` max (for a non-negative clock and TTL) -/
theorem expiresFor_eq {now ttl : Int} (hn : 0 ≤ now) (hn' : now ≤ timeMax) (ht : 0 ≤ ttl) :
    expiresFor now ttl = if now + ttl ≤ timeMax then now + ttl else timeMax := by
  unfold expiresFor incSumTime
  have h0 : ¬ ((0:Int) < 0 ∨ now < 0) := by omega
  have h1 : ¬ (timeMax - 0 < now) := by omega
  simp only [h0, h1, if_false, Int.zero_add]
  have h2 : ¬ (now < 0 ∨ ttl < 0) := by omega
  simp only [h2, if_false]
  by_cases h3 : timeMax - now < ttl
  · have : ¬ (now + ttl ≤ timeMax) := by omega
    simp [h3, this]
  · have : now + ttl ≤ timeMax := by omega
    simp [h3, this]

/-- saturation is invisible: for every clock value a `time_t` can hold, the entry is stale exactly when the exact
(unbounded) instant `now + ttl` has passed -/
theorem expired_iff_exact {now ttl t : Int} (hn : 0 ≤ now) (hn' : now ≤ timeMax) (ht : 0 ≤ ttl) (ht' : t ≤ timeMax) :
    expiresFor now ttl < t ↔ now + ttl < t := by
  rw [expiresFor_eq hn hn' ht]
  by_cases h : now + ttl ≤ timeMax
  · simp [h]
  · simp only [h, if_false]; omega

/-- with a negative clock `NaturalSum` fails and the entry gets the maximal expiry instant -/
theorem expiresFor_negative_clock {now ttl : Int} (hn : now < 0) : expiresFor now ttl = timeMax := by
  unfold expiresFor incSumTime
  have h0 : ((0:Int) < 0 ∨ now < 0) := Or.inr hn
  rw [if_pos h0]

end SquidModel.ClpMap
