/-
List-level facts used by the refinement proof: lookup / remove / total / fitPrefix on entry lists, and the node list
(`nodeAt`, `eraseNode`) versus its entry list.
-/
import SquidModel.ClpMap.Spec

namespace SquidModel.ClpMap

theorem inj_of_nodup_map {α β : Type} (f : α → β) : ∀ {l : List α}, (l.map f).Nodup →
    ∀ {x y : α}, x ∈ l → y ∈ l → f x = f y → x = y
  | [], _, _, _, hx, _, _ => by cases hx
  | a :: l, h, x, y, hx, hy, hf => by
    rw [List.map_cons, List.nodup_cons] at h
    rcases List.mem_cons.mp hx with rfl | hx'
    · rcases List.mem_cons.mp hy with rfl | hy'
      · rfl
      · exact absurd (hf ▸ List.mem_map_of_mem (f := f) hy') h.1
    · rcases List.mem_cons.mp hy with rfl | hy'
      · exact absurd (hf ▸ List.mem_map_of_mem (f := f) hx') h.1
      · exact inj_of_nodup_map f h.2 hx' hy' hf

/-! ### entry lists -/

theorem lookup_cons (a : Entry) (r : List Entry) (k : Nat) :
    lookup (a :: r) k = if a.key = k then some a else lookup r k := by
  unfold lookup
  rw [List.find?_cons]
  by_cases h : a.key = k
  · simp [h]
  · have : (a.key == k) = false := by simp [h]
    simp [this, h]

theorem remove_cons (a : Entry) (r : List Entry) (k : Nat) :
    remove (a :: r) k = if a.key = k then remove r k else a :: remove r k := by
  unfold remove
  rw [List.filter_cons]
  by_cases h : a.key = k <;> simp [h]

theorem mem_remove {es : List Entry} {k : Nat} {e : Entry} : e ∈ remove es k ↔ e ∈ es ∧ e.key ≠ k := by
  unfold remove; simp [List.mem_filter]

theorem remove_sublist (es : List Entry) (k : Nat) : (remove es k).Sublist es := List.filter_sublist

theorem lookup_some {es : List Entry} {k : Nat} {e : Entry} (h : lookup es k = some e) : e ∈ es ∧ e.key = k := by
  unfold lookup at h
  refine ⟨List.mem_of_find?_eq_some h, ?_⟩
  have := List.find?_some h
  simpa using this

theorem lookup_none {es : List Entry} {k : Nat} (h : lookup es k = none) : ∀ e ∈ es, e.key ≠ k := by
  unfold lookup at h
  intro e he
  have := List.find?_eq_none.mp h e he
  simpa using this

theorem remove_of_absent {es : List Entry} {k : Nat} (h : ∀ e ∈ es, e.key ≠ k) : remove es k = es := by
  unfold remove
  rw [List.filter_eq_self]
  intro e he
  simpa using h e he

theorem lookup_of_absent {es : List Entry} {k : Nat} (h : ∀ e ∈ es, e.key ≠ k) : lookup es k = none := by
  unfold lookup
  rw [List.find?_eq_none]
  intro e he
  simpa using h e he

theorem lookup_remove_self (es : List Entry) (k : Nat) : lookup (remove es k) k = none :=
  lookup_of_absent (fun _ he => (mem_remove.mp he).2)

theorem lookup_remove_ne {k k' : Nat} (h : k' ≠ k) : ∀ es : List Entry, lookup (remove es k) k' = lookup es k'
  | [] => rfl
  | a :: r => by
    rw [remove_cons, lookup_cons]
    by_cases ha : a.key = k
    · have : a.key ≠ k' := by omega
      simp only [ha, if_true]
      rw [lookup_remove_ne h r, if_neg (Ne.symm h)]
    · simp only [ha, if_false, lookup_cons, lookup_remove_ne h r]

theorem keys_nodup_cons {a : Entry} {r : List Entry} :
    ((a :: r).map (·.key)).Nodup ↔ (∀ e ∈ r, e.key ≠ a.key) ∧ (r.map (·.key)).Nodup := by
  rw [List.map_cons, List.nodup_cons]
  constructor
  · rintro ⟨h1, h2⟩
    refine ⟨fun e he hk => h1 ?_, h2⟩
    rw [← hk]; exact List.mem_map_of_mem (f := (·.key)) he
  · rintro ⟨h1, h2⟩
    refine ⟨fun hm => ?_, h2⟩
    rcases List.mem_map.mp hm with ⟨e, he, hk⟩
    exact h1 e he hk

theorem total_remove : ∀ {es : List Entry} {k : Nat} {e : Entry}, (es.map (·.key)).Nodup → lookup es k = some e →
    total es = total (remove es k) + e.memCounted
  | [], _, _, _, h => by simp [lookup] at h
  | a :: r, k, e, hn, h => by
    rw [keys_nodup_cons] at hn
    rw [lookup_cons] at h
    rw [remove_cons]
    by_cases ha : a.key = k
    · simp only [ha, if_true, Option.some.injEq] at h
      subst h
      simp only [ha, if_true]
      rw [remove_of_absent (fun e he => ha ▸ hn.1 e he)]
      simp only [total]; omega
    · simp only [ha, if_false] at h
      simp only [ha, if_false, total]
      rw [total_remove hn.2 h]; omega

theorem nodup_sublist_keys {l₁ l₂ : List Entry} (h : l₁.Sublist l₂) (hn : (l₂.map (·.key)).Nodup) :
    (l₁.map (·.key)).Nodup := List.Nodup.sublist (List.Sublist.map _ h) hn

theorem total_append (a b : List Entry) : total (a ++ b) = total a + total b := by
  induction a with
  | nil => simp [total]
  | cons x r ih => simp only [List.cons_append, total, ih]; omega

/-! ### fitPrefix -/

theorem fitPrefix_total_le : ∀ (es : List Entry) (room : Nat), total (fitPrefix es room) ≤ room
  | [], _ => by simp [fitPrefix, total]
  | e :: r, room => by
    unfold fitPrefix
    by_cases h : e.memCounted ≤ room
    · simp only [h, if_true, total]
      have := fitPrefix_total_le r (room - e.memCounted); omega
    · simp [h, total]

theorem fitPrefix_of_fits : ∀ {es : List Entry} {room : Nat}, total es ≤ room → fitPrefix es room = es
  | [], _, _ => rfl
  | e :: r, room, h => by
    simp only [total] at h
    unfold fitPrefix
    have h1 : e.memCounted ≤ room := by omega
    simp only [h1, if_true]
    rw [fitPrefix_of_fits (by omega)]

theorem fitPrefix_dropLast : ∀ {es : List Entry} {room : Nat}, room < total es →
    fitPrefix es room = fitPrefix es.dropLast room
  | [], _, h => by simp [total] at h
  | [e], room, h => by
    simp only [total] at h
    have : ¬ e.memCounted ≤ room := by omega
    simp [fitPrefix, this]
  | e :: e' :: r, room, h => by
    rw [List.dropLast_cons_cons]
    unfold fitPrefix
    by_cases h1 : e.memCounted ≤ room
    · simp only [h1, if_true]
      simp only [total] at h
      rw [fitPrefix_dropLast (es := e' :: r) (by simp only [total]; omega)]
    · simp [h1]

theorem fitPrefix_prefix : ∀ (es : List Entry) (room : Nat), ∃ t, es = fitPrefix es room ++ t
  | [], _ => ⟨[], rfl⟩
  | e :: r, room => by
    unfold fitPrefix
    by_cases h : e.memCounted ≤ room
    · obtain ⟨t, ht⟩ := fitPrefix_prefix r (room - e.memCounted)
      exact ⟨t, by simp only [h, if_true, List.cons_append]; rw [← ht]⟩
    · exact ⟨e :: r, by simp [h]⟩

theorem fitPrefix_sublist (es : List Entry) (room : Nat) : (fitPrefix es room).Sublist es := by
  obtain ⟨t, ht⟩ := fitPrefix_prefix es room
  conv => rhs; rw [ht]
  exact List.sublist_append_left _ _

/-- minimality: the first victim (if any) does not fit next to the survivors -/
theorem fitPrefix_maximal : ∀ (es : List Entry) (room : Nat) (v : Entry) (t : List Entry),
    es = fitPrefix es room ++ v :: t → room < total (fitPrefix es room) + v.memCounted
  | [], _, v, t, h => by simp [fitPrefix] at h
  | e :: r, room, v, t, h => by
    unfold fitPrefix at h ⊢
    by_cases h1 : e.memCounted ≤ room
    · simp only [h1, if_true, List.cons_append, List.cons.injEq, true_and] at h
      simp only [h1, if_true, total]
      have := fitPrefix_maximal r (room - e.memCounted) v t h
      omega
    · simp only [h1, if_false, List.nil_append, List.cons.injEq] at h
      simp only [h1, if_false, total]
      rw [← h.1]; omega

/-- removing the key of the last entry drops the last entry -/
theorem remove_last : ∀ {es : List Entry} {n : Entry}, (es.map (·.key)).Nodup → es.getLast? = some n →
    remove es n.key = es.dropLast
  | [], _, _, h => by simp at h
  | [a], n, _, h => by
    simp only [List.getLast?_singleton, Option.some.injEq] at h
    subst h
    simp [remove]
  | a :: b :: r, n, hn, h => by
    rw [List.getLast?_cons_cons] at h
    rw [keys_nodup_cons] at hn
    have hmem : n ∈ b :: r := List.mem_of_getLast? h
    have hne : a.key ≠ n.key := fun hk => hn.1 n hmem hk.symm
    rw [remove_cons, List.dropLast_cons_cons]
    simp only [hne, if_false]
    rw [remove_last hn.2 h]

theorem eq_nil_of_total_zero : ∀ {es : List Entry}, (∀ e ∈ es, 0 < e.memCounted) → total es = 0 → es = []
  | [], _, _ => rfl
  | e :: r, hp, h => by
    have := hp e (List.mem_cons_self ..)
    simp only [total] at h; omega

/-! ### node lists -/

theorem nodeAt_of_mem : ∀ {es : List Node} {n : Node}, (es.map (·.id)).Nodup → n ∈ es → nodeAt es n.id = some n
  | [], _, _, h => by cases h
  | a :: r, n, hn, h => by
    rw [List.map_cons, List.nodup_cons] at hn
    unfold nodeAt
    rcases List.mem_cons.mp h with rfl | h'
    · simp
    · have : a.id ≠ n.id := fun he => hn.1 (he ▸ List.mem_map_of_mem (f := (·.id)) h')
      simp only [this, if_false]
      exact nodeAt_of_mem hn.2 h'

theorem eraseNode_eq_filter_key {es : List Node} {n : Node} (hi : (es.map (·.id)).Nodup)
    (hk : (es.map (·.e.key)).Nodup) (hm : n ∈ es) :
    eraseNode es n.id = es.filter (fun x => x.e.key != n.e.key) := by
  unfold eraseNode
  apply List.filter_congr
  intro x hx
  by_cases hxn : x = n
  · subst hxn; simp
  · have h1 : x.id ≠ n.id := fun h => hxn (inj_of_nodup_map (·.id) hi hx hm h)
    have h2 : x.e.key ≠ n.e.key := fun h => hxn (inj_of_nodup_map (·.e.key) hk hx hm h)
    have e1 : (x.id != n.id) = true := bne_iff_ne.mpr h1
    have e2 : (x.e.key != n.e.key) = true := bne_iff_ne.mpr h2
    rw [e1, e2]

theorem map_e_filter_key (k : Nat) : ∀ es : List Node,
    (es.filter (fun x => x.e.key != k)).map (·.e) = remove (es.map (·.e)) k
  | [] => rfl
  | a :: r => by
    rw [List.map_cons, remove_cons, List.filter_cons]
    by_cases h : a.e.key = k
    · simp only [h, bne_self_eq_false, Bool.false_eq_true, if_false, if_true]
      exact map_e_filter_key k r
    · have : (a.e.key != k) = true := by simp [h]
      simp only [this, if_true, h, if_false, List.map_cons, map_e_filter_key k r]

theorem lookup_map_e (k : Nat) : ∀ es : List Node,
    lookup (es.map (·.e)) k = (es.find? (fun n => n.e.key == k)).map (·.e)
  | [] => rfl
  | a :: r => by
    rw [List.map_cons, lookup_cons, List.find?_cons]
    by_cases h : a.e.key = k
    · simp [h]
    · have : (a.e.key == k) = false := by simp [h]
      simp only [h, if_false, this, lookup_map_e k r]

end SquidModel.ClpMap
