/-
The reference the ClpMap model is compared with: a capacity-bounded LRU map with TTLs, written over a plain list of
entries kept in recency order (most recently used first), with unbounded natural-number arithmetic, no iterators, no
counters (memory in use is *defined* as the sum of the accounted sizes), and capacity purging defined declaratively:
`fitPrefix` keeps the most recently used entries, in order, as long as their total size fits.

`Stamped` is the same reference instrumented with ghost last-use stamps (a logical clock), used to state that capacity
victims are less recently used than every survivor.
-/
import SquidModel.ClpMap.Arith

namespace SquidModel.ClpMap
open SquidModel.Gen.ClpMapConsts

/-- the entry stored under a key -/
def lookup (es : List Entry) (k : Nat) : Option Entry := es.find? (fun e => e.key == k)

/-- all entries but the one stored under a key -/
def remove (es : List Entry) (k : Nat) : List Entry := es.filter (fun e => e.key != k)

/-- total accounted size -/
def total : List Entry → Nat
  | [] => 0
  | e :: r => e.memCounted + total r

/-- the longest prefix (= the most recently used entries, in order) whose total size is at most `room` -/
def fitPrefix : List Entry → Nat → List Entry
  | [], _ => []
  | e :: r, room => if e.memCounted ≤ room then e :: fitPrefix r (room - e.memCounted) else []

/-- expiry instant: `now + ttl`, saturating at the largest `time_t` -/
def expiryOf (now ttl : Int) : Int := if now + ttl ≤ timeMax then now + ttl else timeMax

structure Ref where
  items : List Entry    -- most recently used first
  limit : Nat
  defaultTtl : Int
deriving DecidableEq, Repr

namespace Ref

def init (capacity : Nat) (ttl : Option Int) : Ref :=
  { items := [], limit := capacity, defaultTtl := ttl.getD ttlMax }

/-- a fresh entry is returned and becomes the most recently used one; a stale one is dropped -/
def get (r : Ref) (now : Int) (k : Nat) : Ref × Option Int :=
  match lookup r.items k with
  | none => (r, none)
  | some e =>
    if e.expires < now then ({ r with items := remove r.items k }, none)
    else ({ r with items := e :: remove r.items k }, some e.value)

def del (r : Ref) (k : Nat) : Ref := { r with items := remove r.items k }

/-- an add always discards what was stored under the key; it is refused when the TTL is negative or when the accounted
size does not fit 64 bits or the capacity; otherwise the least recently used entries that do not fit next to the new
one are purged and the new entry becomes the most recently used one -/
def add (r : Ref) (now : Int) (k klen : Nat) (v : Int) (vsz : Nat) (ttl : Int) : Ref × Bool :=
  let rest := remove r.items k
  let want := exactSize klen vsz
  if ttl < 0 ∨ want > u64Max ∨ want > r.limit then ({ r with items := rest }, false)
  else
    let e : Entry := { key := k, value := v, expires := expiryOf now ttl, memCounted := want }
    ({ r with items := e :: fitPrefix rest (r.limit - want) }, true)

def setLimit (r : Ref) (n : Nat) : Ref := { r with items := fitPrefix r.items n, limit := n }

def step (r : Ref) (now : Int) : Op → Ref × Int × Res
  | .add k klen v vsz ttl => ((r.add now k klen v vsz ttl).1, now, .added (r.add now k klen v vsz ttl).2)
  | .addDefault k klen v vsz =>
    ((r.add now k klen v vsz r.defaultTtl).1, now, .added (r.add now k klen v vsz r.defaultTtl).2)
  | .get k => ((r.get now k).1, now, .got (r.get now k).2)
  | .del k => (r.del k, now, .none)
  | .setLimit n => (r.setLimit n, now, .none)
  | .setClock t => (r, t, .none)

def observe (res : Res) (r : Ref) : Obs :=
  { res := res, used := total r.items, limit := r.limit, count := r.items.length, items := r.items }

def run : Ref → Int → List Op → List Obs
  | _, _, [] => []
  | r, now, op :: rest =>
    observe (r.step now op).2.2 (r.step now op).1 :: run (r.step now op).1 (r.step now op).2.1 rest

end Ref

/-! ### the same reference with ghost last-use stamps -/

structure SItem where
  e : Entry
  stamp : Nat
deriving DecidableEq, Repr

structure Stamped where
  items : List SItem
  limit : Nat
  defaultTtl : Int
  tick : Nat

namespace Stamped

def erase (s : Stamped) : Ref := { items := s.items.map (·.e), limit := s.limit, defaultTtl := s.defaultTtl }

def slookup (is : List SItem) (k : Nat) : Option SItem := is.find? (fun i => i.e.key == k)
def sremove (is : List SItem) (k : Nat) : List SItem := is.filter (fun i => i.e.key != k)

def sfit : List SItem → Nat → List SItem
  | [], _ => []
  | i :: r, room => if i.e.memCounted ≤ room then i :: sfit r (room - i.e.memCounted) else []

def get (s : Stamped) (now : Int) (k : Nat) : Stamped × Option Int :=
  match slookup s.items k with
  | none => (s, none)
  | some i =>
    if i.e.expires < now then ({ s with items := sremove s.items k }, none)
    else ({ s with items := { i with stamp := s.tick } :: sremove s.items k, tick := s.tick + 1 }, some i.e.value)

def del (s : Stamped) (k : Nat) : Stamped := { s with items := sremove s.items k }

def add (s : Stamped) (now : Int) (k klen : Nat) (v : Int) (vsz : Nat) (ttl : Int) : Stamped × Bool :=
  let rest := sremove s.items k
  let want := exactSize klen vsz
  if ttl < 0 ∨ want > u64Max ∨ want > s.limit then ({ s with items := rest }, false)
  else
    let e : Entry := { key := k, value := v, expires := expiryOf now ttl, memCounted := want }
    ({ s with items := { e := e, stamp := s.tick } :: sfit rest (s.limit - want), tick := s.tick + 1 }, true)

def setLimit (s : Stamped) (n : Nat) : Stamped := { s with items := sfit s.items n, limit := n }

def step (s : Stamped) (now : Int) : Op → Stamped × Int × Res
  | .add k klen v vsz ttl => ((s.add now k klen v vsz ttl).1, now, .added (s.add now k klen v vsz ttl).2)
  | .addDefault k klen v vsz =>
    ((s.add now k klen v vsz s.defaultTtl).1, now, .added (s.add now k klen v vsz s.defaultTtl).2)
  | .get k => ((s.get now k).1, now, .got (s.get now k).2)
  | .del k => (s.del k, now, .none)
  | .setLimit n => (s.setLimit n, now, .none)
  | .setClock t => (s, t, .none)

end Stamped

end SquidModel.ClpMap
