/-
Model of `ClpMap<Key, Value, MemoryUsedBy>` (src/base/ClpMap.h), function by function.

* `entries_` (a `std::list<Entry>`, most recently used entry first) is a list of `Node`s: a node carries the identity of
  the list node, which is what an `EntriesIterator` designates (splicing keeps it, erasing destroys it).
* `index_` (a `std::unordered_map<Key, EntriesIterator>`) is an association list key ↦ node identity; following an
  iterator whose node is gone is the explicit outcome `Fault.dangling` (undefined behaviour in the C++).
* `memLimit_`, `memUsed_` are `uint64_t`: additions and subtractions are written with the wrap-around they have in C++,
  `assert`s are explicit `Fault` outcomes, the unbounded `while` loop of `trim()` runs on fuel (`Fault.diverged` when the
  fuel runs out).  The property theorems show that no fault is reachable.
* Keys are numbers (the key's identity); `Key::length()` and `MemoryUsedBy(value)` are inputs of `add` (the harness
  instantiates the template with a key/value whose sizes are chosen by the test line).
* The clock `squid_curtime` is an argument (`now`).
-/
import SquidModel.Gen.ClpMapConsts

namespace SquidModel.ClpMap
open SquidModel.Gen.ClpMapConsts

/-- `ClpMap::Entry` -/
structure Entry where
  key : Nat
  value : Int
  expires : Int
  memCounted : Nat
deriving DecidableEq, Repr

/-- a node of `entries_`; `id` is the identity of the list node -/
structure Node where
  id : Nat
  e : Entry
deriving DecidableEq, Repr

structure State where
  entries : List Node
  index : List (Nat × Nat)
  nextId : Nat
  memLimit : Nat
  memUsed : Nat
  defaultTtl : Int
deriving DecidableEq, Repr

inductive Fault where
  | dangling          -- an iterator stored in index_ does not designate a node of entries_
  | assertTrimLimit   -- assert(wantSpace <= memLimit()) in trim()
  | assertTrimEmpty   -- assert(!entries_.empty()) in trim()
  | assertEraseMem    -- assert(memUsed_ >= sz) in erase()
  | assertAddOverflow -- assert(memUsed_ >= wantSpace) in add()
  | assertDefaultTtl  -- assert(defaultTtl >= 0) in the two-argument constructor
  | diverged          -- the while loop of trim() did not terminate within entries()+1 iterations
deriving DecidableEq, Repr

/-- 2^64 as far as the arithmetic is concerned -/
def modulus : Nat := u64Max + 1

/-- `a - b` in `uint64_t` -/
def subU64 (a b : Nat) : Nat := (a + modulus - b) % modulus
/-- `a + b` in `uint64_t` -/
def addU64 (a b : Nat) : Nat := (a + b) % modulus

/-- `Entry::expired()` -/
def Entry.expired (e : Entry) (now : Int) : Bool := decide (e.expires < now)

/-- `index_.find(key)`: the stored iterator, if any -/
def indexFind : List (Nat × Nat) → Nat → Option Nat
  | [], _ => none
  | (k', id) :: r, k => if k' = k then some id else indexFind r k

/-- `index_.erase(i)` for the item of key `k` -/
def indexErase (ix : List (Nat × Nat)) (k : Nat) : List (Nat × Nat) := ix.filter (fun p => p.1 != k)

/-- `index_.emplace(key, it)`: no effect when the key is present -/
def indexEmplace (ix : List (Nat × Nat)) (k id : Nat) : List (Nat × Nat) :=
  match indexFind ix k with
  | some _ => ix
  | none => (k, id) :: ix

/-- dereferencing an `EntriesIterator` -/
def nodeAt : List Node → Nat → Option Node
  | [], _ => none
  | n :: r, id => if n.id = id then some n else nodeAt r id

/-- `entries_.erase(position)` -/
def eraseNode (es : List Node) (id : Nat) : List Node := es.filter (fun n => n.id != id)

/-- `if (entryPosition != entries_.begin()) entries_.splice(entries_.begin(), entries_, entryPosition)` for the
position of node `n` -/
def spliceFront (es : List Node) (n : Node) : List Node :=
  match es with
  | [] => []
  | h :: r => if h.id = n.id then h :: r else n :: eraseNode (h :: r) n.id

/-- `freeMem()`: `memLimit() - memoryUsed()` in `uint64_t` -/
def freeMem (s : State) : Nat := subU64 s.memLimit s.memUsed

/-- `ClpMap::erase(i)` where `i` is the index item `(k, id)` (so `i != index_.end()` holds by construction) -/
def erase (s : State) (k id : Nat) : Except Fault State :=
  match nodeAt s.entries id with
  | none => .error .dangling
  | some n =>
    if s.memUsed < n.e.memCounted then .error .assertEraseMem
    else .ok { s with memUsed := subU64 s.memUsed n.e.memCounted,
                      index := indexErase s.index k,
                      entries := eraseNode s.entries id }

/-- `ClpMap::find(key)`: the index item found (as the node identity) or `none` for `index_.end()` -/
def find (s : State) (now : Int) (k : Nat) : Except Fault (State × Option Nat) :=
  match indexFind s.index k with
  | none => .ok (s, none)
  | some id =>
    match nodeAt s.entries id with
    | none => .error .dangling
    | some n =>
      if !n.e.expired now then
        .ok ({ s with entries := spliceFront s.entries n }, some id)
      else
        match erase s k id with
        | .error f => .error f
        | .ok s' => .ok (s', none)

/-- `ClpMap::get(key)` -/
def get (s : State) (now : Int) (k : Nat) : Except Fault (State × Option Int) :=
  match find s now k with
  | .error f => .error f
  | .ok (s', none) => .ok (s', none)
  | .ok (s', some id) =>
    match nodeAt s'.entries id with
    | none => .error .dangling
    | some n => .ok (s', some n.e.value)

/-- `ClpMap::del(key)` -/
def del (s : State) (now : Int) (k : Nat) : Except Fault State :=
  match find s now k with
  | .error f => .error f
  | .ok (s', none) => .ok s'
  | .ok (s', some id) => erase s' k id

/-- `IncreaseSumInternal<uint64_t>(a, b)` for unsigned arguments: the sum is computed modulo 2^64, an overflowed sum is
smaller than its operands -/
def incSumU64 (a b : Nat) : Option Nat :=
  let sum := addU64 a b
  if sum ≥ a ∧ sum ≤ u64Max then some sum else none

/-- `MemoryCountedFor(key, value)` = `NaturalSum<uint64_t>(keySz, sizeof(Entry), MemoryUsedBy(v), sizeof(IndexItem))` -/
def memoryCountedFor (klen vsz : Nat) : Option Nat :=
  match incSumU64 0 klen with
  | none => none
  | some s1 =>
    match incSumU64 s1 entrySize with
    | none => none
    | some s2 =>
      match incSumU64 s2 vsz with
      | none => none
      | some s3 => incSumU64 s3 indexSize

/-- `IncreaseSumInternal<time_t>(a, b)` when at least one argument type is signed -/
def incSumTime (a b : Int) : Option Int :=
  if a < 0 ∨ b < 0 then none
  else if timeMax - a < b then none
  else some (a + b)

/-- `SetToNaturalSumOrMax(expires, squid_curtime, ttl)` in the `Entry` constructor -/
def expiresFor (now ttl : Int) : Int :=
  match incSumTime 0 now with
  | none => timeMax
  | some s1 =>
    match incSumTime s1 ttl with
    | none => timeMax
    | some s2 => s2

/-- the `while (freeMem() < wantSpace)` loop of `trim()` -/
def trimLoop : Nat → State → Int → Nat → Except Fault State
  | 0, s, _, want => if freeMem s < want then .error .diverged else .ok s
  | fuel + 1, s, now, want =>
    if freeMem s < want then
      match s.entries.getLast? with
      | none => .error .assertTrimEmpty
      | some n =>
        match del s now n.e.key with
        | .error f => .error f
        | .ok s' => trimLoop fuel s' now want
    else .ok s

/-- `ClpMap::trim(wantSpace)` -/
def trim (s : State) (now : Int) (want : Nat) : Except Fault State :=
  if want > s.memLimit then .error .assertTrimLimit
  else trimLoop (s.entries.length + 1) s now want

/-- `ClpMap::setMemLimit(newLimit)` -/
def setMemLimit (s : State) (now : Int) (newLimit : Nat) : Except Fault State :=
  if s.memUsed > newLimit then
    match trim s now (subU64 s.memLimit newLimit) with
    | .error f => .error f
    | .ok s' => .ok { s' with memLimit := newLimit }
  else .ok { s with memLimit := newLimit }

/-- `ClpMap::add(key, value, ttl)` -/
def add (s : State) (now : Int) (k klen : Nat) (v : Int) (vsz : Nat) (ttl : Int) : Except Fault (State × Bool) :=
  if s.memLimit = 0 then .ok (s, false)
  else
    match del s now k with
    | .error f => .error f
    | .ok s1 =>
      if ttl < 0 then .ok (s1, false)
      else
        match memoryCountedFor klen vsz with
        | none => .ok (s1, false)
        | some want =>
          if want > s1.memLimit ∨ want = 0 then .ok (s1, false)
          else
            match trim s1 now want with
            | .error f => .error f
            | .ok s2 =>
              let e : Entry := { key := k, value := v, expires := expiresFor now ttl, memCounted := want }
              let used := addU64 s2.memUsed want
              if used < want then .error .assertAddOverflow
              else .ok ({ s2 with entries := { id := s2.nextId, e := e } :: s2.entries,
                                  index := indexEmplace s2.index k s2.nextId,
                                  nextId := s2.nextId + 1,
                                  memUsed := used }, true)

/-- the constructors: `ClpMap(capacity)` (`ttl = none`) and `ClpMap(capacity, defaultTtl)` -/
def init (capacity : Nat) (ttl : Option Int) (now : Int) : Except Fault State :=
  let s0 : State := { entries := [], index := [], nextId := 0, memLimit := 0, memUsed := 0, defaultTtl := ttlMax }
  match ttl with
  | none => setMemLimit s0 now capacity
  | some d => if d < 0 then .error .assertDefaultTtl else setMemLimit { s0 with defaultTtl := d } now capacity

/-! ### histories -/

inductive Op where
  | add (k klen : Nat) (v : Int) (vsz : Nat) (ttl : Int)
  | addDefault (k klen : Nat) (v : Int) (vsz : Nat)
  | get (k : Nat)
  | del (k : Nat)
  | setLimit (n : Nat)
  | setClock (t : Int)
deriving DecidableEq, Repr

/-- what a caller sees of one call -/
inductive Res where
  | none            -- void methods
  | added (b : Bool)
  | got (v : Option Int)
deriving DecidableEq, Repr

/-- one call on the map at clock `now` -/
def step (s : State) (now : Int) : Op → Except Fault (State × Int × Res)
  | .add k klen v vsz ttl =>
    match add s now k klen v vsz ttl with
    | .error f => .error f
    | .ok (s', b) => .ok (s', now, .added b)
  | .addDefault k klen v vsz =>
    match add s now k klen v vsz s.defaultTtl with
    | .error f => .error f
    | .ok (s', b) => .ok (s', now, .added b)
  | .get k =>
    match get s now k with
    | .error f => .error f
    | .ok (s', r) => .ok (s', now, .got r)
  | .del k =>
    match del s now k with
    | .error f => .error f
    | .ok s' => .ok (s', now, .none)
  | .setLimit n =>
    match setMemLimit s now n with
    | .error f => .error f
    | .ok s' => .ok (s', now, .none)
  | .setClock t => .ok (s, t, .none)

/-- the observation after a call: result, `memoryUsed()`, `memLimit()`, `entries()`, and the traversal `cbegin()..cend()` -/
structure Obs where
  res : Res
  used : Nat
  limit : Nat
  count : Nat
  items : List Entry
deriving DecidableEq, Repr

def observe (r : Res) (s : State) : Obs :=
  { res := r, used := s.memUsed, limit := s.memLimit, count := s.entries.length, items := s.entries.map (·.e) }

/-- run a history; the observations so far are returned in call order -/
def run : State → Int → List Op → Except Fault (List Obs)
  | _, _, [] => .ok []
  | s, now, op :: rest =>
    match step s now op with
    | .error f => .error f
    | .ok (s', now', r) =>
      match run s' now' rest with
      | .error f => .error f
      | .ok os => .ok (observe r s' :: os)

end SquidModel.ClpMap
