/-
Simulation: on states that satisfy the invariant, every public method of the ClpMap model returns normally (no
assert, no dangling iterator, no wrap-around, the trim loop terminates) and has the effect of the reference map `Ref`.
-/
import SquidModel.ClpMap.Inv

namespace SquidModel.ClpMap
open SquidModel.Gen.ClpMapConsts

theorem remove_remove (es : List Entry) (k : Nat) : remove (remove es k) k = remove es k :=
  remove_of_absent (fun _ he => (mem_remove.mp he).2)

theorem del_spec {s : State} (hi : Inv s) (now : Int) (k : Nat) :
    ∃ s', del s now k = .ok s' ∧ Inv s' ∧ ents s' = remove (ents s) k ∧ Frame s s' := by
  have h := find_spec hi now k
  cases hl : lookup (ents s) k with
  | none =>
    rw [hl] at h; simp only at h
    refine ⟨s, ?_, hi, (remove_of_absent (lookup_none hl)).symm, Frame.refl s⟩
    unfold del; rw [h]
  | some e =>
    rw [hl] at h; simp only at h
    by_cases hexp : e.expires < now
    · simp only [hexp, if_true] at h
      obtain ⟨s', hf, hinv, hents, hfr⟩ := h
      exact ⟨s', by unfold del; rw [hf], hinv, hents, hfr⟩
    · simp only [hexp, if_false] at h
      obtain ⟨s', n, hf, hinv, hents, hfr, hne, hk, hes⟩ := h
      have hm : n ∈ s'.entries := by rw [hes]; exact List.mem_cons_self ..
      obtain ⟨s'', he, hinv', hents', hfr'⟩ := erase_spec hinv hm
      refine ⟨s'', ?_, hinv', ?_, hfr.trans hfr'⟩
      · unfold del; rw [hf]; simp only; rw [← hk]; exact he
      · rw [hents', hents, hk, remove_cons]
        have : e.key = k := hne ▸ hk
        simp only [this, if_true, remove_remove]

theorem get_spec {s : State} (hi : Inv s) (now : Int) (k : Nat) :
    ∃ s', get s now k = .ok (s', (Ref.get ⟨ents s, s.memLimit, s.defaultTtl⟩ now k).2) ∧ Inv s' ∧
      ents s' = (Ref.get ⟨ents s, s.memLimit, s.defaultTtl⟩ now k).1.items ∧ Frame s s' := by
  have h := find_spec hi now k
  unfold Ref.get
  cases hl : lookup (ents s) k with
  | none =>
    rw [hl] at h; simp only at h ⊢
    exact ⟨s, by unfold get; rw [h], hi, rfl, Frame.refl s⟩
  | some e =>
    rw [hl] at h; simp only at h ⊢
    by_cases hexp : e.expires < now
    · simp only [hexp, if_true] at h ⊢
      obtain ⟨s', hf, hinv, hents, hfr⟩ := h
      exact ⟨s', by unfold get; rw [hf], hinv, hents, hfr⟩
    · simp only [hexp, if_false] at h ⊢
      obtain ⟨s', n, hf, hinv, hents, hfr, hne, hk, hes⟩ := h
      refine ⟨s', ?_, hinv, hents, hfr⟩
      unfold get; rw [hf]; simp only
      rw [hes]; unfold nodeAt; simp only [if_true, hne]

theorem freeMem_eq {s : State} (hi : Inv s) : freeMem s = s.memLimit - s.memUsed := by
  unfold freeMem; exact subU64_of_le hi.le hi.lim

theorem length_ents (s : State) : (ents s).length = s.entries.length := by unfold ents; simp

theorem trimLoop_spec (now : Int) (want : Nat) : ∀ (fuel : Nat) (s : State), Inv s → want ≤ s.memLimit →
    s.entries.length ≤ fuel →
    ∃ s', trimLoop fuel s now want = .ok s' ∧ Inv s' ∧ ents s' = fitPrefix (ents s) (s.memLimit - want) ∧ Frame s s'
  | 0, s, hi, hw, hlen => by
    have hnil : s.entries = [] := List.eq_nil_of_length_eq_zero (by omega)
    have he : ents s = [] := by unfold ents; rw [hnil]; rfl
    have hu : s.memUsed = 0 := by rw [hi.used, he]; rfl
    refine ⟨s, ?_, hi, by rw [he]; rfl, Frame.refl s⟩
    unfold trimLoop
    have : ¬ freeMem s < want := by rw [freeMem_eq hi, hu]; omega
    simp only [this, if_false]
  | fuel + 1, s, hi, hw, hlen => by
    unfold trimLoop
    by_cases hfree : freeMem s < want
    · simp only [hfree, if_true]
      rw [freeMem_eq hi] at hfree
      have hroom : s.memLimit - want < total (ents s) := by rw [← hi.used]; have := hi.le; omega
      cases hlast : s.entries.getLast? with
      | none =>
        have hnil : s.entries = [] := List.getLast?_eq_none_iff.mp hlast
        have : total (ents s) = 0 := by unfold ents; rw [hnil]; rfl
        omega
      | some n =>
        simp only
        obtain ⟨s1, hd, hinv1, hents1, hfr1⟩ := del_spec hi now n.e.key
        rw [hd]; simp only
        have hlast' : (ents s).getLast? = some n.e := by unfold ents; rw [List.getLast?_map, hlast]; rfl
        have hdrop : ents s1 = (ents s).dropLast := by rw [hents1]; exact remove_last hi.ekeys hlast'
        have hlen1 : s1.entries.length ≤ fuel := by
          rw [← length_ents, hdrop, List.length_dropLast, length_ents]; omega
        obtain ⟨s2, hl, hinv2, hents2, hfr2⟩ := trimLoop_spec now want fuel s1 hinv1 (by rw [hfr1.1]; exact hw) hlen1
        refine ⟨s2, hl, hinv2, ?_, hfr1.trans hfr2⟩
        rw [hents2, hfr1.1, hdrop, ← fitPrefix_dropLast hroom]
    · simp only [hfree, if_false]
      rw [freeMem_eq hi] at hfree
      have : total (ents s) ≤ s.memLimit - want := by rw [← hi.used]; have := hi.le; omega
      exact ⟨s, rfl, hi, (fitPrefix_of_fits this).symm, Frame.refl s⟩

theorem trim_spec {s : State} (hi : Inv s) (now : Int) {want : Nat} (hw : want ≤ s.memLimit) :
    ∃ s', trim s now want = .ok s' ∧ Inv s' ∧ ents s' = fitPrefix (ents s) (s.memLimit - want) ∧ Frame s s' := by
  unfold trim
  have : ¬ want > s.memLimit := by omega
  simp only [this, if_false]
  exact trimLoop_spec now want _ s hi hw (by omega)

theorem inv_setLimit {s : State} (hi : Inv s) {n : Nat} (h1 : s.memUsed ≤ n) (h2 : n ≤ u64Max) :
    Inv { s with memLimit := n } :=
  ⟨hi.ids, hi.keys, hi.fresh, hi.index, hi.used, h1, h2, hi.pos⟩

theorem setMemLimit_spec {s : State} (hi : Inv s) (now : Int) {n : Nat} (hn : n ≤ u64Max) :
    ∃ s', setMemLimit s now n = .ok s' ∧ Inv s' ∧ ents s' = fitPrefix (ents s) n ∧ s'.memLimit = n ∧
      s'.defaultTtl = s.defaultTtl := by
  unfold setMemLimit
  by_cases h : s.memUsed > n
  · simp only [h, if_true]
    have hle := hi.le
    have hsub : subU64 s.memLimit n = s.memLimit - n := subU64_of_le (by omega) hi.lim
    rw [hsub]
    obtain ⟨s', ht, hinv, hents, hfr⟩ := trim_spec hi now (want := s.memLimit - n) (by omega)
    rw [ht]; simp only
    have hroom : s.memLimit - (s.memLimit - n) = n := by omega
    rw [hroom] at hents
    refine ⟨_, rfl, inv_setLimit hinv ?_ hn, hents, rfl, hfr.2.2⟩
    rw [hinv.used, hents]; exact fitPrefix_total_le _ _
  · simp only [h, if_false]
    refine ⟨_, rfl, inv_setLimit hi (by omega) hn, ?_, rfl, rfl⟩
    show ents s = _
    rw [fitPrefix_of_fits]; rw [← hi.used]; omega

theorem expiresFor_eq_expiryOf {now ttl : Int} (hn : 0 ≤ now) (hn' : now ≤ timeMax) (ht : 0 ≤ ttl) :
    expiresFor now ttl = expiryOf now ttl := expiresFor_eq hn hn' ht

theorem indexFind_none_of_absent {s : State} (hi : Inv s) {k : Nat} (h : ∀ e ∈ ents s, e.key ≠ k) :
    indexFind s.index k = none := by
  rw [hi.index k, no_node_of_lookup (lookup_of_absent h)]; rfl

/-- putting a new entry (fresh node identity, key not stored) at the front keeps the invariant -/
theorem inv_push {s : State} (hi : Inv s) {e : Entry} (habs : ∀ x ∈ ents s, x.key ≠ e.key) (hpos : 0 < e.memCounted)
    (hfit : s.memUsed + e.memCounted ≤ s.memLimit) :
    Inv { s with entries := { id := s.nextId, e := e } :: s.entries,
                 index := (e.key, s.nextId) :: s.index,
                 nextId := s.nextId + 1,
                 memUsed := s.memUsed + e.memCounted } := by
  refine ⟨?_, ?_, ?_, ?_, ?_, hfit, hi.lim, ?_⟩
  · rw [List.map_cons, List.nodup_cons]
    refine ⟨fun hm => ?_, hi.ids⟩
    rcases List.mem_map.mp hm with ⟨x, hx, hxid⟩
    have := hi.fresh x hx
    simp only at hxid; omega
  · rw [List.map_cons, List.nodup_cons]
    refine ⟨fun hm => ?_, hi.keys⟩
    rcases List.mem_map.mp hm with ⟨x, hx, hxk⟩
    exact habs x.e (mem_ents hx) hxk
  · intro x hx
    rcases List.mem_cons.mp hx with rfl | hx'
    · show s.nextId < s.nextId + 1; omega
    · have := hi.fresh x hx'; show x.id < s.nextId + 1; omega
  · intro k'
    show indexFind ((e.key, s.nextId) :: s.index) k' = _
    rw [List.find?_cons]
    unfold indexFind
    by_cases hk : e.key = k'
    · have e1 : (e.key == k') = true := by simp [hk]
      simp [hk]
    · have e1 : (e.key == k') = false := by simp [hk]
      simp only [hk, if_false, e1]
      exact hi.index k'
  · show s.memUsed + e.memCounted = total (e :: ents s)
    simp only [total]; rw [hi.used]; omega
  · intro x hx
    rcases List.mem_cons.mp hx with rfl | hx'
    · exact hpos
    · exact hi.pos x hx'

theorem Ref.add_rejected {r : Ref} {now : Int} {k klen : Nat} {v : Int} {vsz : Nat} {ttl : Int}
    (h : ttl < 0 ∨ exactSize klen vsz > u64Max ∨ exactSize klen vsz > r.limit) :
    r.add now k klen v vsz ttl = ({ r with items := remove r.items k }, false) := by
  unfold Ref.add; simp only [h, if_true]

theorem Ref.add_accepted {r : Ref} {now : Int} {k klen : Nat} {v : Int} {vsz : Nat} {ttl : Int}
    (h : ¬ (ttl < 0 ∨ exactSize klen vsz > u64Max ∨ exactSize klen vsz > r.limit)) :
    r.add now k klen v vsz ttl =
      ({ r with items := ⟨k, v, expiryOf now ttl, exactSize klen vsz⟩ ::
                         fitPrefix (remove r.items k) (r.limit - exactSize klen vsz) }, true) := by
  unfold Ref.add; simp only [h, if_false]

theorem add_spec {s : State} (hi : Inv s) {now : Int} (hn : 0 ≤ now) (hn' : now ≤ timeMax) (k : Nat) {klen : Nat}
    (v : Int) {vsz : Nat} (ttl : Int) (hk : klen ≤ u64Max) (hv : vsz ≤ u64Max) :
    ∃ s', add s now k klen v vsz ttl = .ok (s', (Ref.add ⟨ents s, s.memLimit, s.defaultTtl⟩ now k klen v vsz ttl).2) ∧
      Inv s' ∧ ents s' = (Ref.add ⟨ents s, s.memLimit, s.defaultTtl⟩ now k klen v vsz ttl).1.items ∧
      s'.memLimit = s.memLimit ∧ s'.defaultTtl = s.defaultTtl := by
  have hpos := overhead_pos
  have hwant_pos : 0 < exactSize klen vsz := by unfold exactSize; omega
  by_cases hz : s.memLimit = 0
  · -- the always-empty map
    have hu : s.memUsed = 0 := by have := hi.le; omega
    have hnil : ents s = [] :=
      eq_nil_of_total_zero (fun e he => by
        rcases List.mem_map.mp he with ⟨n, hn, rfl⟩; exact hi.pos n hn) (by rw [← hi.used]; exact hu)
    have hrej : ttl < 0 ∨ exactSize klen vsz > u64Max ∨ exactSize klen vsz > s.memLimit := by
      right; right; omega
    rw [Ref.add_rejected (r := ⟨ents s, s.memLimit, s.defaultTtl⟩) hrej]
    refine ⟨s, ?_, hi, by rw [hnil]; rfl, rfl, rfl⟩
    unfold add; simp only [hz, if_true]
  · obtain ⟨s1, hd, hinv1, hents1, hfr1⟩ := del_spec hi now k
    unfold add
    simp only [hz, if_false]
    rw [hd]; simp only
    by_cases httl : ttl < 0
    · have hrej : ttl < 0 ∨ exactSize klen vsz > u64Max ∨ exactSize klen vsz > s.memLimit := Or.inl httl
      rw [Ref.add_rejected (r := ⟨ents s, s.memLimit, s.defaultTtl⟩) hrej]
      simp only [httl, if_true]
      exact ⟨s1, rfl, hinv1, hents1, hfr1.1, hfr1.2.2⟩
    · rw [if_neg httl]
      rw [memoryCountedFor_eq hk hv]
      by_cases hfit64 : exactSize klen vsz ≤ u64Max
      · rw [if_pos hfit64]; simp only
        by_cases hbig : exactSize klen vsz > s.memLimit
        · have hrej : ttl < 0 ∨ exactSize klen vsz > u64Max ∨ exactSize klen vsz > s.memLimit := Or.inr (Or.inr hbig)
          have hc : exactSize klen vsz > s1.memLimit ∨ exactSize klen vsz = 0 := by rw [hfr1.1]; exact Or.inl hbig
          rw [Ref.add_rejected (r := ⟨ents s, s.memLimit, s.defaultTtl⟩) hrej, if_pos hc]
          exact ⟨s1, rfl, hinv1, hents1, hfr1.1, hfr1.2.2⟩
        · have hrej : ¬ (ttl < 0 ∨ exactSize klen vsz > u64Max ∨ exactSize klen vsz > s.memLimit) := by omega
          have hc : ¬ (exactSize klen vsz > s1.memLimit ∨ exactSize klen vsz = 0) := by rw [hfr1.1]; omega
          rw [Ref.add_accepted (r := ⟨ents s, s.memLimit, s.defaultTtl⟩) hrej, if_neg hc]
          obtain ⟨s2, ht, hinv2, hents2, hfr2⟩ :=
            trim_spec hinv1 now (want := exactSize klen vsz) (by rw [hfr1.1]; omega)
          rw [ht]; simp only
          have hused2 : s2.memUsed + exactSize klen vsz ≤ s2.memLimit := by
            have := fitPrefix_total_le (ents s1) (s1.memLimit - exactSize klen vsz)
            rw [← hents2, ← hinv2.used] at this
            rw [hfr2.1]
            have : exactSize klen vsz ≤ s1.memLimit := by rw [hfr1.1]; omega
            omega
          have hlim2 := hinv2.lim
          rw [addU64_of_le (by omega)]
          have hno : ¬ s2.memUsed + exactSize klen vsz < exactSize klen vsz := by omega
          rw [if_neg hno]
          have habs : ∀ x ∈ ents s2, x.key ≠ k := by
            intro x hx
            rw [hents2] at hx
            have := (fitPrefix_sublist _ _).subset hx
            rw [hents1] at this
            exact (mem_remove.mp this).2
          have hidx : indexEmplace s2.index k s2.nextId = (k, s2.nextId) :: s2.index := by
            unfold indexEmplace; rw [indexFind_none_of_absent hinv2 habs]
          rw [hidx, expiresFor_eq_expiryOf hn hn' (by omega)]
          refine ⟨_, rfl, inv_push hinv2 (e := ⟨k, v, expiryOf now ttl, exactSize klen vsz⟩) habs hwant_pos hused2, ?_, ?_, ?_⟩
          · show _ :: ents s2 = _
            rw [hents2, hents1, hfr1.1]
          · show s2.memLimit = s.memLimit
            rw [hfr2.1, hfr1.1]
          · show s2.defaultTtl = s.defaultTtl
            rw [hfr2.2.2, hfr1.2.2]
      · have hrej : ttl < 0 ∨ exactSize klen vsz > u64Max ∨ exactSize klen vsz > s.memLimit := by
          right; left; omega
        rw [Ref.add_rejected (r := ⟨ents s, s.memLimit, s.defaultTtl⟩) hrej, if_neg hfit64]
        exact ⟨s1, rfl, hinv1, hents1, hfr1.1, hfr1.2.2⟩

end SquidModel.ClpMap
