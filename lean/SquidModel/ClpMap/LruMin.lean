/-
The reference purge (`sfit`: keep the longest fitting prefix of the recency order) is the textbook LRU loop
"while the entries do not fit, drop the one with the smallest last-use stamp" — stated on an *unordered* view of the
entries (the minimum is found by stamp, not by position).
-/
import SquidModel.ClpMap.Lru

namespace SquidModel.ClpMap
open SquidModel.Gen.ClpMapConsts
namespace Stamped

/-- total accounted size -/
def stotal (is : List SItem) : Nat := total (is.map (·.e))

/-- the item with the smallest stamp -/
def minStamp : List SItem → Option SItem
  | [] => none
  | i :: r =>
    match minStamp r with
    | none => some i
    | some j => if i.stamp < j.stamp then some i else some j

/-- drop every item carrying the given stamp (stamps are unique in reachable states) -/
def dropStamp (is : List SItem) (s : Nat) : List SItem := is.filter (fun i => i.stamp != s)

/-- "while the entries do not fit, drop the least recently used one" -/
def evictLoop : Nat → List SItem → Nat → List SItem
  | 0, is, _ => is
  | fuel + 1, is, room =>
    if stotal is ≤ room then is
    else
      match minStamp is with
      | none => is
      | some v => evictLoop fuel (dropStamp is v.stamp) room

theorem stotal_cons (i : SItem) (r : List SItem) : stotal (i :: r) = i.e.memCounted + stotal r := rfl

/-- in a list sorted by decreasing stamp the minimum is the last item -/
theorem minStamp_sorted : ∀ {is : List SItem}, is.Pairwise (fun a b => b.stamp < a.stamp) → minStamp is = is.getLast?
  | [], _ => rfl
  | [i], _ => rfl
  | i :: j :: r, h => by
    rw [List.pairwise_cons] at h
    have ih := minStamp_sorted h.2
    rw [List.getLast?_cons_cons]
    unfold minStamp
    rw [ih]
    cases hl : (j :: r).getLast? with
    | none => simp at hl
    | some z =>
      simp only
      have hz : z ∈ j :: r := List.mem_of_getLast? hl
      have := h.1 z hz
      have hn : ¬ i.stamp < z.stamp := by omega
      rw [if_neg hn]

theorem dropStamp_last : ∀ {is : List SItem} {z : SItem}, is.Pairwise (fun a b => b.stamp < a.stamp) → is.getLast? = some z →
    dropStamp is z.stamp = is.dropLast
  | [], _, _, h => by simp at h
  | [i], z, _, h => by
    simp only [List.getLast?_singleton, Option.some.injEq] at h
    subst h; simp [dropStamp]
  | i :: j :: r, z, hp, h => by
    rw [List.pairwise_cons] at hp
    rw [List.getLast?_cons_cons] at h
    have hz : z ∈ j :: r := List.mem_of_getLast? h
    have hlt := hp.1 z hz
    have ih := dropStamp_last hp.2 h
    unfold dropStamp at ih ⊢
    rw [List.filter_cons, List.dropLast_cons_cons]
    have : (i.stamp != z.stamp) = true := by
      rw [bne_iff_ne]; omega
    rw [if_pos this, ih]

theorem sfit_of_fits : ∀ {is : List SItem} {room : Nat}, stotal is ≤ room → sfit is room = is
  | [], _, _ => rfl
  | i :: r, room, h => by
    rw [stotal_cons] at h
    unfold sfit
    have h1 : i.e.memCounted ≤ room := by omega
    rw [if_pos h1, sfit_of_fits (by omega)]

theorem sfit_dropLast : ∀ {is : List SItem} {room : Nat}, room < stotal is → sfit is room = sfit is.dropLast room
  | [], _, h => by simp [stotal, total] at h
  | [i], room, h => by
    rw [stotal_cons] at h
    have : ¬ i.e.memCounted ≤ room := by simp [stotal, total] at h; omega
    simp [sfit, this]
  | i :: j :: r, room, h => by
    rw [List.dropLast_cons_cons]
    unfold sfit
    by_cases h1 : i.e.memCounted ≤ room
    · rw [if_pos h1, if_pos h1]
      rw [stotal_cons] at h
      rw [sfit_dropLast (is := j :: r) (by omega)]
    · rw [if_neg h1, if_neg h1]

/-- **the reference purge is the LRU loop**: on a list in recency order (stamps strictly decreasing), dropping the
minimum-stamp item while the items do not fit gives exactly `sfit` -/
theorem evictLoop_eq_sfit : ∀ (fuel : Nat) (is : List SItem) (room : Nat), is.Pairwise (fun a b => b.stamp < a.stamp) →
    is.length ≤ fuel → evictLoop fuel is room = sfit is room
  | 0, is, room, _, hf => by
    have : is = [] := List.eq_nil_of_length_eq_zero (by omega)
    subst this; rfl
  | fuel + 1, is, room, hp, hf => by
    unfold evictLoop
    by_cases hfit : stotal is ≤ room
    · rw [if_pos hfit, sfit_of_fits hfit]
    · rw [if_neg hfit, minStamp_sorted hp]
      cases hl : is.getLast? with
      | none =>
        have : is = [] := List.getLast?_eq_none_iff.mp hl
        subst this; rfl
      | some z =>
        simp only
        rw [dropStamp_last hp hl]
        have hsub : is.dropLast.Sublist is := List.dropLast_sublist is
        rw [evictLoop_eq_sfit fuel is.dropLast room (List.Pairwise.sublist hsub hp)
          (by rw [List.length_dropLast]; omega)]
        exact (sfit_dropLast (by omega)).symm

end Stamped
end SquidModel.ClpMap
