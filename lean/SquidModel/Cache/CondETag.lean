/-
C14 model, part 1: entity-tags and the list splitter the conditional logic runs on.

* `etagParseInit`, `etagIsStrongEqual`, `etagIsWeakEqual` (src/ETag.cc)
* `strListGetItem`, `strListIsMember`, `strListAdd` (src/StrList.cc)
* `HttpHeader::getList` (join with ", "), `HttpHeader::getETag` (src/HttpHeader.cc), value trimming of
  `HttpHeaderEntry::parse` (xisspace at both ends)
* `StoreEntry::hasOneOfEtags`, `hasIfMatchEtag`, `hasIfNoneMatchEtag` (src/store.cc)

Strings are NUL-free byte lists (header values cannot carry NUL), so `termedBuf()`/`strlen` are the whole list.
-/
import SquidModel.Base.Bytes
import SquidModel.Gen.CondConsts

namespace SquidModel.Cache.Cond

/-- `xisspace` in the C locale: SP, HT, LF, VT, FF, CR -/
def isSpace (b : UInt8) : Bool := b == 32 || (9 ≤ b && b ≤ 13)

/-- drop trailing `xisspace` bytes -/
def rtrim (s : Bytes) : Bytes := (s.reverse.dropWhile isSpace).reverse

/-- `HttpHeaderEntry::parse`: "trim field value" at both ends -/
def trimValue (s : Bytes) : Bytes := rtrim (s.dropWhile isSpace)

/-- ETag.h `struct ETag { const char *str; int weak; }`; `str` includes the quotes -/
structure ETag where
  str : Bytes
  weak : Bool
  deriving DecidableEq, Repr

def dq : UInt8 := 34      -- '"'
def bsl : UInt8 := 92     -- '\\'
def comma : UInt8 := 44
def star : UInt8 := 42

/-- `etagParseInit`: weak iff the string starts with "W/"; the rest must be at least two bytes, start and end with '"' -/
def etagParseInit (s : Bytes) : Option ETag :=
  let weak := [87, 47].isPrefixOf s
  let r := if weak then s.drop 2 else s
  if r.length ≥ 2 ∧ r.head? = some dq ∧ r.getLast? = some dq then some ⟨r, weak⟩ else none

/-- `etagIsStrongEqual` -/
def strongEq (a b : ETag) : Bool := !a.weak && !b.weak && a.str == b.str
/-- `etagIsWeakEqual` -/
def weakEq (a b : ETag) : Bool := a.str == b.str

/-- `strListAdd` over the entries of one header id: `HttpHeader::getList` -/
def joinList : List Bytes → Bytes
  | [] => []
  | [f] => f
  | f :: g :: rest => f ++ [comma, 32] ++ joinList (g :: rest)

/-- `delim[2]` of `strListGetItem` with del = ',' (leading whitespace and delimiters are skipped by `strspn`) -/
def isSkip (b : UInt8) : Bool := Gen.CondConsts.delimSkip.contains b
/-- `delim[0]`: bytes at which `strcspn` stops outside quotes -/
def stopsUnquoted (b : UInt8) : Bool := Gen.CondConsts.delimUnquoted.contains b
/-- `delim[1]`: bytes at which `strcspn` stops inside quotes -/
def stopsQuoted (b : UInt8) : Bool := Gen.CondConsts.delimQuoted.contains b

/-- The `do … while (**pos)` loop of `strListGetItem`: returns the scanned item bytes and the rest (starting at the
delimiter, or empty at the end of the string). `strcspn` runs to the next byte of `delim[quoted]`; there '"' toggles
quoting, a backslash inside quotes steps over the next byte, anything else ends the item. -/
def scanItem : Bool → Bytes → Bytes × Bytes
  | _, [] => ([], [])
  | false, c :: s =>
    if stopsUnquoted c then
      if c == dq then (c :: (scanItem true s).1, (scanItem true s).2)
      else ([], c :: s)
    else (c :: (scanItem false s).1, (scanItem false s).2)
  | true, [c] =>
    -- last byte: '"' toggles and the loop ends at NUL; a backslash has nothing to step over
    if stopsQuoted c && !(c == dq) && !(c == bsl) then ([], [c]) else ([c], [])
  | true, c :: d :: s =>
    if stopsQuoted c then
      if c == dq then (c :: (scanItem false (d :: s)).1, (scanItem false (d :: s)).2)
      else if c == bsl then (c :: d :: (scanItem true s).1, (scanItem true s).2)
      else ([], c :: d :: s)
    else (c :: (scanItem true (d :: s)).1, (scanItem true (d :: s)).2)

/-- one call of `strListGetItem(str, ',', &item, &ilen, &pos)`: `none` when it returns 0 -/
def nextItem (s : Bytes) : Option (Bytes × Bytes) :=
  let r := scanItem false (s.dropWhile isSkip)
  let item := rtrim r.1
  if item.isEmpty then none else some (item, r.2)

/-- all items the `while (strListGetItem(...))` loop visits (fuel = remaining length, every successful call consumes) -/
def itemsFuel : Nat → Bytes → List Bytes
  | 0, _ => []
  | n + 1, s =>
    match nextItem s with
    | none => []
    | some (item, rest) => item :: itemsFuel n rest

def items (s : Bytes) : List Bytes := itemsFuel (s.length + 1) s

/-- `strListIsMember(&list, "*", ',')` -/
def hasStarMember (list : Bytes) : Bool := (items list).any (· == [star])

/-- the body of the `hasOneOfEtags` loop for one item -/
def itemMatches (rep : ETag) (allowWeak : Bool) (item : Bytes) : Bool :=
  if item == [star] then true
  else match etagParseInit item with
    | some t => if allowWeak then weakEq rep t else strongEq rep t
    | none => false

/-- `StoreEntry::hasOneOfEtags(reqETags, allowWeakMatch)`; `repETagValue` = value of the reply's first ETag field, if any -/
def hasOneOfEtags (repETagValue : Option Bytes) (reqETags : Bytes) (allowWeak : Bool) : Bool :=
  match repETagValue.bind etagParseInit with
  | none => hasStarMember reqETags
  | some rep => (items reqETags).any (itemMatches rep allowWeak)

end SquidModel.Cache.Cond
