/-
Model of how a cached response is written, read, replaced and evicted, at the level all of Squid's stores share.

One *entry* = one response the origin sent for a cache key (`StoreEntry` + `MemObject`, `Ipc::StoreMapAnchor`).  Its bytes live in a
chain of *slots*: `mem_node` pages of `mem_hdr` (src/stmem.cc), shared memory pages of `MemStore` (`copyToShm` appends a slice per
page, `copyFromShm` walks `anchor.start` → `slice.next`), db slots of a rock cache_dir (`Rock::IoState::writeToDisk` /
`Rock::IoState::read` follow the same `StoreMap` chain), or the blocks of one ufs file.  A slot belongs to at most one entry; a
writer takes a slot from the free pool (`MemStore::reserveSapForWriting`, `Rock::SwapDir::reserveSlotForWriting`, `mem_hdr::write`),
possibly after another, idle entry was purged for it (`StoreMap::purgeOne`, `Store::Controller::freeMemorySpace`, `maintain`).

Who may do what is decided by the entry lock: `StoreEntry::lock`/`unlock` (`lock_count`) in one process, the shared `ReadWriteLock`
of the `StoreMap` anchor across processes (C54/C55: `no_free_while_read`).  A reader (`store_client`) attaches to the entry it finds
under the public key (`storeGetPublic` / `StoreMap::openForReading`), holds the lock until it is done, and copies slot after slot
(`store_client::readFromMemory`, `fileRead`/`readBody`; `MemStore::copyFromShm`).  Replacing a response (`StoreEntry::setPublicKey`
releasing the clashing entry, `StoreMap::openForWriting` → `freeChain` only when unlocked, else `waitingToBeFreed`) and purging make
the old entry unreachable for new readers but leave its slots alone until the last lock is gone (`StoreEntry::release` →
`RELEASE_REQUEST` when `locked()`, `StoreMap::closeForReading` → `freeChain` when `waitingToBeFreed`).  A writer that loses its
origin (`StoreEntry::abort`, `Rock::IoState::close(writerGone)`, `MemStore::disconnect` → `abortWriting`) marks the entry; its
readers end without the end-of-object signal (`store_client::fail`/`noteEof` vs. `STORE_OK` and `objectLen()` reached).

Slot contents are modelled by what the writer put there: the pair (entry id, index of the chunk).  `Reader.got` lists what the
reader copied.  The translation to bytes (`chunk key ver i`) is in `SquidModel/Cache/StoreLemmas.lean`.
-/
namespace SquidModel.Cache.Store

abbrev Key := Nat
/-- identifies one response the origin sent for a key -/
abbrev Ver := Nat

structure Entry where
  key : Key
  ver : Ver
  /-- slot ids, first to last -/
  chain : List Nat
  /-- the writer stored the whole response (`STORE_OK`, `StoreMapAnchor::complete()`) -/
  complete : Bool
  /-- the writer gave up (`ENTRY_ABORTED`) -/
  aborted : Bool
  /-- still found under its key by new readers -/
  isPublic : Bool
  /-- the writer is still attached (it holds a lock, too) -/
  writing : Bool
  /-- the readers holding a lock on the entry -/
  readers : List Nat

structure Reader where
  eid : Nat
  key : Key
  ver : Ver
  /-- number of chunks copied so far -/
  idx : Nat
  /-- what was copied: the slot contents, in order -/
  got : List (Nat × Nat)
  /-- `none`: still reading; `some true`: the store signalled the end of a complete object; `some false`: cut short -/
  done : Option Bool
  /-- still holds the lock -/
  attached : Bool

structure State where
  slots : Nat → Option (Nat × Nat)
  entries : Nat → Option Entry
  readers : Nat → Option Reader
  /-- the public index: key → entry id (`store_table`, `StoreMap::fileNoByKey` + key check) -/
  pub : Key → Option Nat
  nextE : Nat
  nextR : Nat

def State.init : State :=
  { slots := fun _ => none, entries := fun _ => none, readers := fun _ => none, pub := fun _ => none, nextE := 0, nextR := 0 }

/-- total number of chunks of a response: a parameter of the model (sizes, page and slot sizes) -/
structure Geometry where
  nchunks : Key → Ver → Nat

/-- return the slots of an entry to the free pool and forget the entry -/
def freeEntry (s : State) (e : Nat) (ent : Entry) : State :=
  { s with slots := fun x => if x ∈ ent.chain then none else s.slots x,
           entries := fun x => if x = e then none else s.entries x,
           pub := fun k => if s.pub k = some e then none else s.pub k }

/-- an entry nobody can find any more is freed as soon as nobody holds it -/
def tryFree (s : State) (e : Nat) : State :=
  match s.entries e with
  | none => s
  | some ent => if ent.isPublic = false ∧ ent.readers = [] ∧ ent.writing = false then freeEntry s e ent else s

/-- take an entry out of the public index (replacement, purge, abort): new readers cannot find it; it is freed when idle -/
def unpublish (s : State) (e : Nat) : State :=
  match s.entries e with
  | none => s
  | some ent =>
    tryFree { s with entries := fun x => if x = e then some { ent with isPublic := false } else s.entries x,
                     pub := fun k => if s.pub k = some e then none else s.pub k } e

inductive Action
  /-- the origin's response `ver` for `key` starts to arrive and is made public; an older public entry is replaced -/
  | beginWrite (key : Key) (ver : Ver)
  /-- the writer of entry `e` stores the next chunk in free slot `slot` -/
  | append (e : Nat) (slot : Nat)
  /-- the writer stored everything -/
  | finish (e : Nat)
  /-- the writer lost its origin (truncated response) -/
  | abort (e : Nat)
  /-- a hit: a reader attaches to the public entry of `key` -/
  | openRead (key : Key)
  /-- reader `r` copies the next chunk, or learns that there is no more -/
  | read (r : Nat)
  /-- reader `r` is done or gone -/
  | closeRead (r : Nat)
  /-- cache replacement: an idle entry is dropped to make room -/
  | evict (e : Nat)
  /-- PURGE / invalidation -/
  | purge (key : Key)

/-- `StoreEntry::setPublicKey` / `StoreMap::openForWriting`: an older public entry under the key is taken out of the index -/
def replaceOld (s : State) (k : Key) : State :=
  match s.pub k with
  | some old => unpublish s old
  | none => s

/-- the new entry: public at once, its writer attached, no slots yet -/
def addEntry (s : State) (k : Key) (v : Ver) : State :=
  let ent : Entry := { key := k, ver := v, chain := [], complete := false, aborted := false, isPublic := true, writing := true, readers := [] }
  { s with entries := fun x => if x = s.nextE then some ent else s.entries x,
           pub := fun x => if x = k then some s.nextE else s.pub x, nextE := s.nextE + 1 }

def step (g : Geometry) (s : State) : Action → State
  | .beginWrite k v => addEntry (replaceOld s k) k v
  | .append e slot =>
    match s.entries e with
    | none => s
    | some ent =>
      if ent.writing = true ∧ ent.chain.length < g.nchunks ent.key ent.ver ∧ s.slots slot = none then
        { s with slots := fun x => if x = slot then some (e, ent.chain.length) else s.slots x,
                 entries := fun x => if x = e then some { ent with chain := ent.chain ++ [slot] } else s.entries x }
      else s
  | .finish e =>
    match s.entries e with
    | none => s
    | some ent =>
      if ent.writing = true ∧ ent.chain.length = g.nchunks ent.key ent.ver then
        tryFree { s with entries := fun x => if x = e then some { ent with complete := true, writing := false } else s.entries x } e
      else s
  | .abort e =>
    match s.entries e with
    | none => s
    | some ent =>
      if ent.writing = true then
        unpublish { s with entries := fun x => if x = e then some { ent with aborted := true, writing := false } else s.entries x } e
      else s
  | .openRead k =>
    match s.pub k with
    | none => s
    | some e =>
      match s.entries e with
      | none => s
      | some ent =>
        let rd : Reader := { eid := e, key := ent.key, ver := ent.ver, idx := 0, got := [], done := none, attached := true }
        { s with readers := fun x => if x = s.nextR then some rd else s.readers x,
                 entries := fun x => if x = e then some { ent with readers := s.nextR :: ent.readers } else s.entries x,
                 nextR := s.nextR + 1 }
  | .read r =>
    match s.readers r with
    | none => s
    | some rd =>
      if rd.attached = true ∧ rd.done = none then
        match s.entries rd.eid with
        | none => s
        | some ent =>
          match ent.chain[rd.idx]? with
          | some slot =>
            match s.slots slot with
            | some c => { s with readers := fun x => if x = r then some { rd with idx := rd.idx + 1, got := rd.got ++ [c] } else s.readers x }
            | none => s
          | none =>
            if ent.complete = true then { s with readers := fun x => if x = r then some { rd with done := some true } else s.readers x }
            else if ent.aborted = true then { s with readers := fun x => if x = r then some { rd with done := some false } else s.readers x }
            else s                                   -- wait for the writer
      else s
  | .closeRead r =>
    match s.readers r with
    | none => s
    | some rd =>
      if rd.attached = true then
        let s1 := { s with readers := fun x => if x = r then some { rd with attached := false, done := if rd.done = none then some false else rd.done } else s.readers x }
        match s1.entries rd.eid with
        | none => s1
        | some ent =>
          tryFree { s1 with entries := fun x => if x = rd.eid then some { ent with readers := ent.readers.filter (· ≠ r) } else s1.entries x } rd.eid
      else s
  | .evict e =>
    match s.entries e with
    | none => s
    | some ent => if ent.readers = [] ∧ ent.writing = false then freeEntry s e ent else s
  | .purge k =>
    match s.pub k with
    | some e => unpublish s e
    | none => s

def run (g : Geometry) (s : State) (as : List Action) : State := as.foldl (step g) s

end SquidModel.Cache.Store
