/-
Translation invariance of the C12 freshness model: moving every absolute time of a scenario (the clock, Date, Expires,
Last-Modified) by the same amount `k` does not change any decision, as long as the few comparisons against the epoch
(`date >= 0`, `expires > 0`, `expires > -1`, `squid_curtime > age`) keep their outcome.

This is what allows the Lean driver to evaluate a scenario at a nominal clock value while the binary runs at the real one.
-/
import SquidModel.Cache.FreshLemmas

namespace SquidModel.Cache.Fresh
open SquidModel.Gen

/-- move a time value that is present (absent/unparsable values are negative and stay as they are) -/
def shiftT (k t : Int) : Int := if t < 0 then t else t + k

def Reply.shift (k : Int) (r : Reply) : Reply :=
  { r with date := shiftT k r.date, expiresHdr := shiftT k r.expiresHdr, lastModified := shiftT k r.lastModified }

def Entry.shift (k : Int) (e : Entry) : Entry :=
  { e with timestamp := e.timestamp + k, expires := shiftT k e.expires, lastModifiedRaw := shiftT k e.lastModifiedRaw }

/-- a time value that is either absent (-1) or a positive time that stays positive when moved by `k` -/
def regT (k t : Int) : Prop := t = -1 ∨ (0 < t ∧ 0 < t + k)

/-- the reply's absolute values keep clear of the epoch comparisons when the scenario is moved from `now` to `now + k` -/
structure Reply.regular (k now : Int) (r : Reply) : Prop where
  date : regT k r.date
  exp : regT k r.expiresHdr
  lm : regT k r.lastModified
  clock : 0 < now ∧ 0 < now + k
  age : (r.ageHdr < now ∧ r.ageHdr < now + k) ∨ (now ≤ r.ageHdr ∧ now + k ≤ r.ageHdr)
  sm : ∀ m, r.sMaxAge = some m → 0 ≤ m
  ma : ∀ m, r.maxAge = some m → 0 ≤ m

/-- the entry's absolute values keep clear of the epoch comparisons -/
structure Entry.regular (k : Int) (e : Entry) : Prop where
  ts : 0 ≤ e.timestamp ∧ 0 ≤ e.timestamp + k
  exp : e.expires = -1 ∨ (0 ≤ e.expires ∧ 0 ≤ e.expires + k)
  lm : e.lastModifiedRaw = -1 ∨ (0 ≤ e.lastModifiedRaw ∧ 0 ≤ e.lastModifiedRaw + k)

theorem shiftT_neg (k : Int) : shiftT k (-1) = -1 := by simp [shiftT]

theorem shiftT_pos (k t : Int) (h : 0 ≤ t) : shiftT k t = t + k := by
  unfold shiftT
  have : ¬ t < 0 := by omega
  simp [this]

/-! ### storing -/

theorem expiresPart_shift (k now : Int) (r : Reply) (h : r.regular k now) :
    (if r.hasExpires = true then (if shiftT k r.expiresHdr < 0 then now + k else shiftT k r.expiresHdr) else -1) =
      shiftT k (if r.hasExpires = true then (if r.expiresHdr < 0 then now else r.expiresHdr) else -1) ∧
    regT k (if r.hasExpires = true then (if r.expiresHdr < 0 then now else r.expiresHdr) else -1) := by
  obtain ⟨hn1, hn2⟩ := h.clock
  cases hx : r.hasExpires
  · simp only [Bool.false_eq_true, if_false, shiftT_neg]
    exact ⟨trivial, Or.inl rfl⟩
  · simp only [if_true]
    rcases h.exp with he | ⟨he2, he3⟩
    · rw [he, shiftT_neg]
      have c : ((-1:Int) < 0) := by omega
      simp only [c, if_true]
      exact ⟨(shiftT_pos k now (by omega)).symm, Or.inr ⟨hn1, hn2⟩⟩
    · rw [shiftT_pos k _ (by omega)]
      have e0 : ¬ r.expiresHdr < 0 := by omega
      have e1 : ¬ r.expiresHdr + k < 0 := by omega
      simp only [e0, e1, if_false]
      exact ⟨(shiftT_pos k _ (by omega)).symm, Or.inr ⟨he2, he3⟩⟩

theorem ccPart_shift (k now : Int) (r : Reply) (h : r.regular k now) (m : Int) (hm : 0 ≤ m) :
    (if shiftT k r.date ≥ 0 then shiftT k r.date + m else now + k) = shiftT k (if r.date ≥ 0 then r.date + m else now) ∧
    regT k (if r.date ≥ 0 then r.date + m else now) := by
  obtain ⟨hn1, hn2⟩ := h.clock
  rcases h.date with hd | ⟨hd2, hd3⟩
  · rw [hd, shiftT_neg]
    have c : ¬ ((-1:Int) ≥ 0) := by omega
    simp only [c, if_false]
    exact ⟨(shiftT_pos k now (by omega)).symm, Or.inr ⟨hn1, hn2⟩⟩
  · rw [shiftT_pos k _ (by omega)]
    have a1 : r.date ≥ 0 := by omega
    have a2 : r.date + k ≥ 0 := by omega
    simp only [a1, a2, if_true]
    rw [shiftT_pos k _ (by omega)]
    exact ⟨by omega, Or.inr ⟨by omega, by omega⟩⟩

theorem hdrExpirationTime_shift (cfg : Config) (k now : Int) (r : Reply) (h : r.regular k now) (hv : cfg.varyIgnoreExpire = false) :
    hdrExpirationTime cfg (now + k) (r.shift k) = shiftT k (hdrExpirationTime cfg now r) ∧
    regT k (hdrExpirationTime cfg now r) := by
  unfold hdrExpirationTime Reply.shift
  simp only [hv, Bool.false_and, Bool.false_eq_true, if_false]
  cases hcc : r.hasCc
  · simp only [Bool.false_eq_true, if_false]
    exact expiresPart_shift k now r h
  · simp only [if_true]
    cases hs : r.sMaxAge with
    | some m => exact ccPart_shift k now r h m (h.sm m hs)
    | none =>
      cases hm : r.maxAge with
      | some m => exact ccPart_shift k now r h m (h.ma m hm)
      | none => exact expiresPart_shift k now r h

theorem servedDate_shift (k now : Int) (r : Reply) (rt : Int) (h : r.regular k now) :
    servedDate (now + k) (r.shift k) rt = servedDate now r rt + k := by
  unfold servedDate Reply.shift
  simp only []
  rcases h.date with hd | ⟨hd2, hd3⟩
  · rw [hd, shiftT_neg]
    have c : ((-1:Int) < 0 ∨ (-1:Int) > now + k) := Or.inl (by omega)
    have c' : ((-1:Int) < 0 ∨ (-1:Int) > now) := Or.inl (by omega)
    simp only [c, c', if_true]
    rcases h.age with ⟨a1, a2⟩ | ⟨a1, a2⟩
    · (repeat' split) <;> omega
    · (repeat' split) <;> omega
  · rw [shiftT_pos k _ (by omega)]
    have n1 : ¬ r.date < 0 := by omega
    have n2 : ¬ r.date + k < 0 := by omega
    by_cases hf : r.date > now
    · have hf' : r.date + k > now + k := by omega
      simp only [n1, n2, hf, hf', false_or, if_true]
      rcases h.age with ⟨a1, a2⟩ | ⟨a1, a2⟩
      · (repeat' split) <;> omega
      · (repeat' split) <;> omega
    · have hf' : ¬ r.date + k > now + k := by omega
      simp only [n1, n2, hf, hf', false_or, if_false]
      by_cases hw : r.date < now - FreshDefaults.dateSanityWindow
      · have hw' : r.date + k < now + k - FreshDefaults.dateSanityWindow := by omega
        simp only [hw, hw', if_true]
        rcases h.age with ⟨a1, a2⟩ | ⟨a1, a2⟩
        · (repeat' split) <;> omega
        · (repeat' split) <;> omega
      · have hw' : ¬ r.date + k < now + k - FreshDefaults.dateSanityWindow := by omega
        simp only [hw, hw', if_false]
        rcases h.age with ⟨a1, a2⟩ | ⟨a1, a2⟩
        · (repeat' split) <;> omega
        · (repeat' split) <;> omega

/-- storing commutes with moving the scenario -/
theorem store_shift (cfg : Config) (k now : Int) (r : Reply) (rt : Int) (h : r.regular k now) (hv : cfg.varyIgnoreExpire = false)
    (hx : hdrExpirationTime cfg now r = -1 ∨ 0 ≤ (store cfg now r rt).expires) :
    store cfg (now + k) (r.shift k) rt = (store cfg now r rt).shift k := by
  obtain ⟨he, hreg⟩ := hdrExpirationTime_shift cfg k now r h hv
  have hs := servedDate_shift k now r rt h
  have hexp : rebasedExpires (servedDate (now + k) (r.shift k) rt) (r.shift k) (hdrExpirationTime cfg (now + k) (r.shift k)) =
      shiftT k (rebasedExpires (servedDate now r rt) r (hdrExpirationTime cfg now r)) := by
    rw [he, hs]
    have hx' : hdrExpirationTime cfg now r = -1 ∨ 0 ≤ rebasedExpires (servedDate now r rt) r (hdrExpirationTime cfg now r) := hx
    unfold rebasedExpires at hx' ⊢
    have hdate : (r.shift k).date = shiftT k r.date := rfl
    rw [hdate]
    rcases hreg with hm1 | ⟨hp1, hp2⟩
    · rw [hm1, shiftT_neg]
      have c : ¬ ((-1:Int) > 0 ∧ shiftT k r.date > -1) := by omega
      have c' : ¬ ((-1:Int) > 0 ∧ r.date > -1) := by omega
      simp only [c, c', if_false, shiftT_neg]
    · rw [shiftT_pos k _ (by omega)]
      rcases h.date with hd | ⟨hd2, hd3⟩
      · rw [hd, shiftT_neg]
        have c : ¬ (hdrExpirationTime cfg now r + k > 0 ∧ (-1:Int) > -1) := by omega
        have c' : ¬ (hdrExpirationTime cfg now r > 0 ∧ (-1:Int) > -1) := by omega
        simp only [c, c', if_false]
        exact (shiftT_pos k _ (by omega)).symm
      · rw [shiftT_pos k r.date (by omega)]
        have c : (hdrExpirationTime cfg now r + k > 0 ∧ r.date + k > -1) := by omega
        have c' : (hdrExpirationTime cfg now r > 0 ∧ r.date > -1) := by omega
        rw [if_pos c'] at hx'
        rw [if_pos c, if_pos c']
        rcases hx' with hx' | hx'
        · omega
        · rw [shiftT_pos k _ hx']; omega
  show ({ timestamp := servedDate (now + k) (r.shift k) rt,
          expires := rebasedExpires (servedDate (now + k) (r.shift k) rt) (r.shift k) (hdrExpirationTime cfg (now + k) (r.shift k)),
          lastModifiedRaw := shiftT k r.lastModified, .. } : Entry) = _
  rw [hexp, hs]
  rfl

/-! ### looking up -/

theorem lastModified_shift (k : Int) (e : Entry) (h : e.regular k) : (e.shift k).lastModified = e.lastModified + k ∧ 0 ≤ e.lastModified ∧ 0 ≤ e.lastModified + k := by
  unfold Entry.lastModified Entry.shift
  simp only []
  rcases h.lm with hl | ⟨hl1, hl2⟩
  · rw [hl, shiftT_neg]
    have c : ((-1:Int) < 0) := by omega
    simp only [c, if_true]
    exact ⟨by first | rfl | trivial, h.ts.1, h.ts.2⟩
  · rw [shiftT_pos k _ hl1]
    have c : ¬ (e.lastModifiedRaw + k < 0) := by omega
    have c' : ¬ (e.lastModifiedRaw < 0) := by omega
    simp only [c, c', if_false]
    exact ⟨by first | rfl | trivial, hl1, hl2⟩

theorem refreshStaleness_shift (k : Int) (e : Entry) (ct age : Int) (R : Rule) (h : e.regular k) :
    refreshStaleness (e.shift k) (ct + k) age R = refreshStaleness e ct age R := by
  have hlm := (lastModified_shift k e h).1
  unfold refreshStaleness
  rw [hlm]
  have hts : (e.shift k).timestamp = e.timestamp + k := rfl
  have hex : (e.shift k).expires = shiftT k e.expires := rfl
  rw [hts, hex]
  rcases h.exp with he | ⟨he1, he2⟩
  · rw [he, shiftT_neg]
    have c : ¬ ((-1:Int) > -1) := by omega
    simp only [c, if_false]
    have : e.timestamp + k - (e.lastModified + k) = e.timestamp - e.lastModified := by omega
    rw [this]
  · rw [shiftT_pos k _ he1]
    have c : (e.expires + k > -1) := by omega
    have c' : (e.expires > -1) := by omega
    simp only [c, c', if_true]
    by_cases hgt : e.expires > ct
    · have : e.expires + k > ct + k := by omega
      simp only [hgt, this, if_true]
    · have : ¬ e.expires + k > ct + k := by omega
      simp only [hgt, this, if_false]
      have : ct + k - (e.expires + k) = ct - e.expires := by omega
      rw [this]

theorem checkPoint_shift (k now : Int) (e : Entry) (q : Option Request) (d : Int) :
    checkPoint (now + k) (e.shift k) q d = ((checkPoint now e q d).1, (checkPoint now e q d).2 + k) := by
  unfold checkPoint
  have hts : (e.shift k).timestamp = e.timestamp + k := rfl
  simp only [hts]
  by_cases hgt : now + d > e.timestamp
  · have : now + k + d > e.timestamp + k := by omega
    simp only [hgt, this, if_true]
    congr 1 <;> omega
  · have : ¬ now + k + d > e.timestamp + k := by omega
    simp only [hgt, this, if_false]
    congr 1; omega

theorem requestChecks_shift (cfg : Config) (R : Rule) (k : Int) (e : Entry) (r : Request) (hack : Bool) (age st : Int) :
    requestChecks cfg R (e.shift k) r hack age st = requestChecks cfg R e r hack age st := rfl

theorem refreshCheck_shift (cfg : Config) (R : Rule) (k now : Int) (e : Entry) (q : Option Request) (hack : Bool) (d : Int)
    (h : e.regular k) :
    refreshCheck cfg R (now + k) (e.shift k) q hack d = refreshCheck cfg R now e q hack d := by
  unfold refreshCheck
  rw [checkPoint_shift]
  simp only [refreshStaleness_shift k e _ _ R h, requestChecks_shift]
  rfl

theorem hitPath_shift (cfg : Config) (R : Rule) (k now : Int) (e : Entry) (q : Request) (nc hack : Bool)
    (h : e.regular k) (hclock : 0 < now ∧ 0 < now + k) :
    hitPath cfg R (now + k) (e.shift k) q nc hack = hitPath cfg R now e q nc hack := by
  have hlm := lastModified_shift k e h
  have hle : decide ((e.shift k).expires ≤ now + k) = decide (e.expires ≤ now) := by
    show decide (shiftT k e.expires ≤ now + k) = _
    rcases h.exp with he | ⟨he1, he2⟩
    · rw [he, shiftT_neg]
      have a : ((-1:Int) ≤ now + k) := by omega
      have b : ((-1:Int) ≤ now) := by omega
      simp [a, b]
    · rw [shiftT_pos k _ he1]
      by_cases hc : e.expires ≤ now
      · have : e.expires + k ≤ now + k := by omega
        simp [hc, this]
      · have : ¬ e.expires + k ≤ now + k := by omega
        simp [hc, this]
  have hgt : decide ((e.shift k).expires > now + k) = decide (e.expires > now) := by
    show decide (shiftT k e.expires > now + k) = _
    rcases h.exp with he | ⟨he1, he2⟩
    · rw [he, shiftT_neg]
      have a : ¬ ((-1:Int) > now + k) := by omega
      have b : ¬ ((-1:Int) > now) := by omega
      simp [a, b]
    · rw [shiftT_pos k _ he1]
      by_cases hc : e.expires > now
      · have : e.expires + k > now + k := by omega
        simp [hc, this]
      · have : ¬ e.expires + k > now + k := by omega
        simp [hc, this]
  unfold hitPath refreshCheckHTTP stalePath
  have hneg : (e.shift k).negCached = e.negCached := rfl
  rw [hle, hgt, hneg, refreshCheck_shift cfg R k now e _ hack 0 h, hlm.1]
  have a : ¬ (e.lastModified + k < 0) := by omega
  have b : ¬ (e.lastModified < 0) := by omega
  simp only [a, b, if_false]

/-- **Translation invariance**: a scenario (reply received at `now0`, request at `now1`) moved by `k` seconds gives the same
outcome, the same Age on a hit (`now1 - timestamp`) and the same If-Modified-Since offset (`now0 - lastModified()`). -/
theorem lookup_shift (cfg : Config) (R : Rule) (k now : Int) (e : Entry) (q : Request)
    (h : e.regular k) (hclock : 0 < now ∧ 0 < now + k) :
    lookup cfg R (now + k) (some (e.shift k)) q = lookup cfg R now (some e) q := by
  unfold lookup
  simp only []
  cases hc : (!(interpretNoCache cfg q).1 || q.internal)
  · simp only [Bool.false_eq_true, if_false]
  · simp only [if_true]
    exact hitPath_shift cfg R k now e q _ _ h hclock

theorem refreshIsCachable_shift (cfg : Config) (R : Rule) (k now : Int) (e : Entry) (h : e.regular k) :
    refreshIsCachable cfg R (now + k) (e.shift k) = refreshIsCachable cfg R now e := by
  have hlm := lastModified_shift k e h
  have h0 : ({ e with revalidateAlways := false, revalidateStale := false } : Entry).regular k := ⟨h.ts, h.exp, h.lm⟩
  have hc := refreshCheck_shift cfg R k now { e with revalidateAlways := false, revalidateStale := false } none false cfg.minimumExpiryTime h0
  have hc' : ∀ e', e' = Entry.shift k e →
      refreshCheck cfg R (now + k) { e' with revalidateAlways := false, revalidateStale := false } none false cfg.minimumExpiryTime =
      refreshCheck cfg R now { e with revalidateAlways := false, revalidateStale := false } none false cfg.minimumExpiryTime := by
    intro e' he'; subst he'; exact hc
  unfold refreshIsCachable
  have hcl : (e.shift k).contentLength = e.contentLength := rfl
  have a : ¬ (e.lastModified + k < 0) := by omega
  have b : ¬ (e.lastModified < 0) := by omega
  simp only []
  rw [hc' _ rfl]
  simp only [hlm.1, hcl, a, b, if_false]

/-- **Translation invariance of a whole scenario.** Reply received at `now0`, request at `now1`; moved by `k`: the same
admission decision, the same outcome, the same Age shown on a hit and the same If-Modified-Since offset on a revalidation. -/
theorem scenario_shift (cfg : Config) (R : Rule) (k now0 now1 : Int) (r : Reply) (rt : Int) (q : Request)
    (hv : cfg.varyIgnoreExpire = false) (hr : r.regular k now0)
    (hx : hdrExpirationTime cfg now0 r = -1 ∨ 0 ≤ (store cfg now0 r rt).expires)
    (he : (store cfg now0 r rt).regular k) (hclock : 0 < now1 ∧ 0 < now1 + k) :
    admitReply cfg R (now0 + k) (r.shift k) rt = (admitReply cfg R now0 r rt).map (Entry.shift k) ∧
    lookup cfg R (now1 + k) (admitReply cfg R (now0 + k) (r.shift k) rt) q = lookup cfg R now1 (admitReply cfg R now0 r rt) q ∧
    (∀ e, admitReply cfg R now0 r rt = some e →
      (now1 + k) - (e.shift k).timestamp = now1 - e.timestamp ∧ (now0 + k) - (e.shift k).lastModified = now0 - e.lastModified) := by
  have hs := store_shift cfg k now0 r rt hr hv hx
  have hadm : admitReply cfg R (now0 + k) (r.shift k) rt = (admitReply cfg R now0 r rt).map (Entry.shift k) := by
    unfold admitReply
    simp only [hs, refreshIsCachable_shift cfg R k now0 _ he]
    split <;> rfl
  refine ⟨hadm, ?_, ?_⟩
  · rw [hadm]
    unfold admitReply
    simp only []
    split
    · exact lookup_shift cfg R k now1 _ q he hclock
    · unfold lookup; simp
  · intro e hee
    have : e = store cfg now0 r rt := by
      unfold admitReply at hee
      simp only [] at hee
      split at hee
      · injection hee with hee; exact hee.symm
      · cases hee
    subst this
    have hlm := lastModified_shift k _ he
    constructor
    · show now1 + k - ((store cfg now0 r rt).timestamp + k) = _
      omega
    · omega

end SquidModel.Cache.Fresh
