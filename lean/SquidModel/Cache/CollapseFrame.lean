/-
Frame lemmas for the collapsed-forwarding model: the key-management operations (`setPrivateKey`, `releaseRequest`, `release`,
`find`, `forcePublicKey`, `setPublicKey`, `makePublic`) change only `KEY_PRIVATE`, `shareableWhenPrivate`, `RELEASE_REQUEST` and the
public slot of `store_table`; everything the byte-level invariants speak about is left alone.
-/
import SquidModel.Cache.Collapse

namespace SquidModel.Cache.Collapse

@[simp] theorem setE_entries (s : State) (e : Nat) (ent : Entry) (x : Nat) :
    (setE s e ent).entries x = if x = e then some ent else s.entries x := rfl
@[simp] theorem setE_clients (s : State) (e : Nat) (ent : Entry) : (setE s e ent).clients = s.clients := rfl
@[simp] theorem setE_pub (s : State) (e : Nat) (ent : Entry) : (setE s e ent).pub = s.pub := rfl
@[simp] theorem setE_nextE (s : State) (e : Nat) (ent : Entry) : (setE s e ent).nextE = s.nextE := rfl
@[simp] theorem setE_nextC (s : State) (e : Nat) (ent : Entry) : (setE s e ent).nextC = s.nextC := rfl
@[simp] theorem setE_cf (s : State) (e : Nat) (ent : Entry) : (setE s e ent).cf = s.cf := rfl
@[simp] theorem setE_relFirst (s : State) (e : Nat) (ent : Entry) : (setE s e ent).relFirst = s.relFirst := rfl
@[simp] theorem setC_relFirst (s : State) (c : Nat) (cl : Client) : (setC s c cl).relFirst = s.relFirst := rfl
@[simp] theorem setC_clients (s : State) (c : Nat) (cl : Client) (x : Nat) :
    (setC s c cl).clients x = if x = c then some cl else s.clients x := rfl
@[simp] theorem setC_entries (s : State) (c : Nat) (cl : Client) : (setC s c cl).entries = s.entries := rfl
@[simp] theorem setC_pub (s : State) (c : Nat) (cl : Client) : (setC s c cl).pub = s.pub := rfl
@[simp] theorem setC_nextE (s : State) (c : Nat) (cl : Client) : (setC s c cl).nextE = s.nextE := rfl
@[simp] theorem setC_nextC (s : State) (c : Nat) (cl : Client) : (setC s c cl).nextC = s.nextC := rfl
@[simp] theorem setC_cf (s : State) (c : Nat) (cl : Client) : (setC s c cl).cf = s.cf := rfl

/-- the part of an entry that key management never touches -/
structure Core where
  hdr : Option Hdr
  body : List Nat
  pending : Bool
  aborted : Bool
  badLen : Bool
  isErr : Bool
  fwd : Bool
  reqColl : Bool
  relAtHdr : Bool

def Entry.core (e : Entry) : Core :=
  { hdr := e.hdr, body := e.body, pending := e.pending, aborted := e.aborted, badLen := e.badLen, isErr := e.isErr, fwd := e.fwd,
    reqColl := e.reqColl, relAtHdr := e.relAtHdr }

/-- `s'` differs from `s` only in key flags and the public slot -/
structure Frame (s s' : State) : Prop where
  cf : s'.cf = s.cf
  relFirst : s'.relFirst = s.relFirst
  clients : s'.clients = s.clients
  nextE : s'.nextE = s.nextE
  nextC : s'.nextC = s.nextC
  core : ∀ e, (s'.entries e).map Entry.core = (s.entries e).map Entry.core

theorem Frame.refl (s : State) : Frame s s := ⟨rfl, rfl, rfl, rfl, rfl, fun _ => rfl⟩

theorem Frame.trans {a b c : State} (h1 : Frame a b) (h2 : Frame b c) : Frame a c :=
  ⟨h2.cf.trans h1.cf, h2.relFirst.trans h1.relFirst, h2.clients.trans h1.clients, h2.nextE.trans h1.nextE, h2.nextC.trans h1.nextC,
   fun e => (h2.core e).trans (h1.core e)⟩

/-- changing only key flags of one entry is a frame step -/
theorem frame_setE_flags (s : State) (e : Nat) (ent ent' : Entry) (p : Option Nat) (he : s.entries e = some ent)
    (hc : ent'.core = ent.core) : Frame s { setE s e ent' with pub := p } := by
  refine ⟨rfl, rfl, rfl, rfl, rfl, ?_⟩
  intro x
  by_cases hx : x = e
  · subst hx; simp [he, hc]
  · simp [hx]

theorem frame_setE_flags' (s : State) (e : Nat) (ent ent' : Entry) (he : s.entries e = some ent)
    (hc : ent'.core = ent.core) : Frame s (setE s e ent') :=
  frame_setE_flags s e ent ent' s.pub he hc

theorem frame_setPrivateKey (s : State) (e : Nat) (sh pm : Bool) : Frame s (setPrivateKey s e sh pm) := by
  unfold setPrivateKey
  split
  · exact Frame.refl s
  · rename_i ent he
    dsimp only
    split
    · exact frame_setE_flags' s e ent _ he rfl
    · exact frame_setE_flags s e ent _ _ he rfl

theorem frame_releaseRequest (s : State) (e : Nat) (sh : Bool) : Frame s (releaseRequest s e sh) := by
  unfold releaseRequest
  split
  · exact Frame.refl s
  · rename_i ent he
    dsimp only
    have h1 : Frame s (if sh = true then s else setE s e { ent with shareable := false }) := by
      split
      · exact Frame.refl s
      · exact frame_setE_flags' s e ent _ he rfl
    split
    · exact h1
    · exact h1.trans (frame_setPrivateKey _ e sh true)

theorem frame_release (s : State) (e : Nat) (sh : Bool) : Frame s (release s e sh) := by
  unfold release
  split
  · exact frame_releaseRequest s e sh
  · split
    · exact Frame.refl s
    · rename_i ent he
      exact frame_setE_flags s e ent _ _ he rfl

theorem frame_find (s : State) : Frame s (find s).1 := by
  unfold find
  split
  · exact Frame.refl s
  · split
    · exact Frame.refl s
    · split
      · exact frame_release s _ false
      · exact Frame.refl s

theorem frame_forcePublicKey (s : State) (e : Nat) : Frame s (forcePublicKey s e) := by
  unfold forcePublicKey
  have h1 : Frame s (match s.pub with
      | some e2 => if e2 = e then s else release s e2 true
      | none => s) := by
    split
    · split
      · exact Frame.refl s
      · exact frame_release s _ true
    · exact Frame.refl s
  dsimp only
  split
  · exact h1
  · rename_i ent he
    exact h1.trans (frame_setE_flags _ e ent _ _ he rfl)

theorem frame_setPublicKey (s : State) (e : Nat) : Frame s (setPublicKey s e) := by
  unfold setPublicKey
  split
  · exact Frame.refl s
  · split
    · exact Frame.refl s
    · exact frame_forcePublicKey s e

theorem frame_makePublic (s : State) (e : Nat) : Frame s (makePublic s e).1 := by
  unfold makePublic
  split
  · exact Frame.refl s
  · split
    · exact Frame.refl s
    · exact frame_setPublicKey s e

theorem frame_removeOldPublic (s : State) (e : Nat) (a b : Bool) : Frame s (removeOldPublic s e a b) := by
  unfold removeOldPublic
  dsimp only
  split
  · split
    · split
      · exact frame_find s
      · exact (frame_find s).trans (frame_release _ _ true)
    · exact frame_find s
  · exact frame_find s

theorem frame_applyReuse (s : State) (e : Nat) (d : Reuse) : Frame s (applyReuse s e d) := by
  unfold applyReuse
  split
  · exact frame_releaseRequest s e false
  · exact frame_releaseRequest s e true
  · dsimp only
    split
    · exact frame_makePublic s e
    · exact (frame_makePublic s e).trans (frame_releaseRequest _ e true)

/-- entry lookups across a frame step -/
theorem Frame.entry_some {s s' : State} (h : Frame s s') {e : Nat} {ent' : Entry} (he : s'.entries e = some ent') :
    ∃ ent, s.entries e = some ent ∧ ent'.core = ent.core := by
  have := h.core e
  rw [he] at this
  cases hs : s.entries e with
  | none => rw [hs] at this; simp at this
  | some ent => rw [hs] at this; simp at this; exact ⟨ent, rfl, this⟩

theorem Frame.entry_some' {s s' : State} (h : Frame s s') {e : Nat} {ent : Entry} (he : s.entries e = some ent) :
    ∃ ent', s'.entries e = some ent' ∧ ent'.core = ent.core := by
  have := h.core e
  rw [he] at this
  cases hs : s'.entries e with
  | none => rw [hs] at this; simp at this
  | some ent' => rw [hs] at this; simp at this; exact ⟨ent', rfl, this⟩

theorem Frame.entry_none {s s' : State} (h : Frame s s') {e : Nat} (he : s.entries e = none) : s'.entries e = none := by
  have := h.core e
  rw [he] at this
  cases hs : s'.entries e with
  | none => rfl
  | some ent' => rw [hs] at this; simp at this

end SquidModel.Cache.Collapse
