/-
`strListGetItem` on well-formed comma-separated lists: a grammar (`Renders`) of strings made of quote-balanced elements
separated by commas and optional white space, closed under the ", " join of `getList`, on which `items` returns exactly
the elements. Together with ReusableParseLemmas this shows that a directive written in such a list is always recognised.
-/
import SquidModel.Cache.ReusableParseLemmas
import SquidModel.Base.Finite

namespace SquidModel.Cache
open SquidModel

/-- quoting state after scanning `e` from state `q`; `none` when a comma is met outside quotes -/
def endState : QState → Bytes → Option QState
  | q, [] => some q
  | .plain, c :: cs => if c == 34 then endState .quoted cs else if c == 44 then none else endState .plain cs
  | .quoted, c :: cs => if c == 34 then endState .plain cs else if c == 92 then endState .escaped cs else endState .quoted cs
  | .escaped, _ :: cs => endState .quoted cs

/-- optional white space of RFC 9110 -/
def isOws (c : UInt8) : Bool := c == 32 || c == 9
def isOwsComma (c : UInt8) : Bool := c == 32 || c == 9 || c == 44

/-- a list element: not empty, does not start with a separator byte, does not end with white space, quotes balanced and no
    comma outside quotes -/
def elemOk (e : Bytes) : Bool :=
  (match e.head? with | some c => !isListDelim c | none => false) &&
  (match e.getLast? with | some c => !isSpaceC c | none => false) &&
  endState .plain e == some .plain

theorem scanItem_append (q q' : QState) (e r : Bytes) (h : endState q e = some q') :
    scanItem q (e ++ r) = (e ++ (scanItem q' r).1, (scanItem q' r).2) := by
  induction e generalizing q with
  | nil => simp [endState] at h; subst h; simp
  | cons c cs ih =>
    cases q
    · simp only [endState] at h
      simp only [List.cons_append, scanItem]
      split
      · rename_i hc; simp only [hc, if_true] at h; rw [ih _ h]
      · rename_i hc; simp only [hc] at h
        split
        · rename_i hc2; simp [hc2] at h
        · rename_i hc2; simp only [hc2] at h; rw [ih _ h]
    · simp only [endState] at h
      simp only [List.cons_append, scanItem]
      split
      · rename_i hc; simp only [hc, if_true] at h; rw [ih _ h]
      · rename_i hc; simp only [hc] at h
        split
        · rename_i hc2; simp only [hc2, if_true] at h; rw [ih _ h]
        · rename_i hc2; simp only [hc2] at h; rw [ih _ h]
    · simp only [endState] at h
      simp only [List.cons_append, scanItem]
      rw [ih _ h]

theorem endState_ows (w : Bytes) (h : ∀ c ∈ w, isOws c = true) : endState .plain w = some .plain := by
  induction w with
  | nil => rfl
  | cons c cs ih =>
    have hc := h c (by simp)
    have h34 : (c == 34) = false := by
      unfold isOws at hc; cases h1 : c == 34 with
      | false => rfl
      | true => have := eq_of_beq h1; subst this; revert hc; decide
    have h44 : (c == 44) = false := by
      unfold isOws at hc; cases h1 : c == 44 with
      | false => rfl
      | true => have := eq_of_beq h1; subst this; revert hc; decide
    simp only [endState, h34, h44, Bool.false_eq_true, if_false]
    exact ih (fun c hc => h c (by simp [hc]))

theorem dropWhile_all (p : UInt8 → Bool) (d r : Bytes) (h : ∀ c ∈ d, p c = true) : (d ++ r).dropWhile p = r.dropWhile p := by
  induction d with
  | nil => rfl
  | cons c cs ih =>
    simp only [List.cons_append, List.dropWhile_cons, h c (by simp), if_true]
    exact ih (fun c hc => h c (by simp [hc]))

theorem owsComma_listDelim (c : UInt8) (h : isOwsComma c = true) : isListDelim c = true := by
  have := forall_octet (fun c => !isOwsComma c || isListDelim c) (by decide +kernel) c
  simpa [h] using this

theorem ows_space (c : UInt8) (h : isOws c = true) : isSpaceC c = true := by
  unfold isOws at h; unfold isSpaceC
  simp only [Bool.or_eq_true] at h
  rcases h with h | h <;> (have := eq_of_beq h; subst this; decide)

theorem rtrim_elem (e w : Bytes) (hl : ∃ c, e.getLast? = some c ∧ isSpaceC c = false) (hw : ∀ c ∈ w, isSpaceC c = true) :
    rtrim (e ++ w) = e := by
  obtain ⟨c, hc, hs⟩ := hl
  unfold rtrim
  rw [List.reverse_append, dropWhile_all isSpaceC w.reverse e.reverse (fun c hc => hw c (by simpa using hc))]
  have : e.reverse.head? = some c := by simpa [List.head?_reverse] using hc
  cases her : e.reverse with
  | nil => rw [her] at this; cases this
  | cons x xs =>
    rw [her] at this
    simp only [List.head?_cons, Option.some.injEq] at this
    subst this
    simp only [List.dropWhile_cons, hs, Bool.false_eq_true, if_false]
    rw [← her, List.reverse_reverse]

/-- one `strListGetItem` call on `separators element white-space rest`, where rest is empty or starts at a comma -/
theorem getItem_elem (d e w r : Bytes) (hd : ∀ c ∈ d, isOwsComma c = true) (he : elemOk e = true) (hw : ∀ c ∈ w, isOws c = true)
    (hr : r = [] ∨ ∃ r', r = 44 :: r') : getItem (d ++ (e ++ (w ++ r))) = some (e, r) := by
  unfold elemOk at he
  simp only [Bool.and_eq_true, beq_iff_eq] at he
  obtain ⟨⟨hh, hl⟩, hb⟩ := he
  unfold getItem
  rw [dropWhile_all isListDelim d _ (fun c hc => owsComma_listDelim c (hd c hc))]
  have hdrop : (e ++ (w ++ r)).dropWhile isListDelim = e ++ (w ++ r) := by
    cases e with
    | nil => simp at hh
    | cons c cs =>
      simp only [List.head?_cons] at hh
      simp only [List.cons_append, List.dropWhile_cons]
      simp only [Bool.not_eq_true'] at hh
      simp [hh]
  rw [hdrop]
  have hscan : scanItem .plain (e ++ (w ++ r)) = (e ++ w, r) := by
    rw [scanItem_append _ _ _ _ hb, scanItem_append _ _ _ _ (endState_ows w hw)]
    rcases hr with hr | ⟨r', hr⟩ <;> subst hr <;> simp [scanItem]
  simp only [hscan]
  have hlast : ∃ c, e.getLast? = some c ∧ isSpaceC c = false := by
    cases hg : e.getLast? with
    | none => simp [hg] at hl
    | some c => simp only [hg, Bool.not_eq_true'] at hl; exact ⟨c, rfl, hl⟩
  rw [rtrim_elem e w hlast (fun c hc => ows_space c (hw c hc))]
  cases e with
  | nil => simp at hh
  | cons c cs => simp

theorem getItem_seps (d : Bytes) (hd : ∀ c ∈ d, isOwsComma c = true) : getItem d = none := by
  unfold getItem
  have : d.dropWhile isListDelim = [] := by
    have := dropWhile_all isListDelim d [] (fun c hc => owsComma_listDelim c (hd c hc))
    simpa using this
  rw [this]
  simp [scanItem, rtrim]

theorem getItem_comma (r : Bytes) : getItem (44 :: r) = getItem r := by
  unfold getItem
  have h44 : isListDelim 44 = true := by decide
  simp [h44]

/-- the strings of well-formed lists and their elements -/
inductive Renders : Bytes → List Bytes → Prop
  | done (d : Bytes) (hd : ∀ c ∈ d, isOwsComma c = true) : Renders d []
  | last (d e w : Bytes) (hd : ∀ c ∈ d, isOwsComma c = true) (he : elemOk e = true) (hw : ∀ c ∈ w, isOws c = true) :
      Renders (d ++ (e ++ w)) [e]
  | cons (d e w rest : Bytes) (es : List Bytes) (hd : ∀ c ∈ d, isOwsComma c = true) (he : elemOk e = true)
      (hw : ∀ c ∈ w, isOws c = true) (h : Renders rest es) : Renders (d ++ (e ++ (w ++ 44 :: rest))) (e :: es)

theorem elemOk_ne_nil (e : Bytes) (h : elemOk e = true) : e ≠ [] := by
  intro he; subst he; simp [elemOk] at h

theorem itemsFuel_of_renders (s : Bytes) (es : List Bytes) (h : Renders s es) :
    ∀ n, s.length < n → itemsFuel n s = es := by
  induction h with
  | done d hd =>
    intro n hn
    cases n with
    | zero => omega
    | succ m => simp [itemsFuel, getItem_seps d hd]
  | last d e w hd he hw =>
    intro n hn
    cases n with
    | zero => omega
    | succ m =>
      have := getItem_elem d e w [] hd he hw (Or.inl rfl)
      simp only [List.append_nil] at this
      simp only [itemsFuel, this]
      cases m with
      | zero => rfl
      | succ k => simp [itemsFuel, getItem_seps [] (by simp)]
  | cons d e w rest es hd he hw _ ih =>
    intro n hn
    cases n with
    | zero => omega
    | succ m =>
      have hg := getItem_elem d e w (44 :: rest) hd he hw (Or.inr ⟨rest, rfl⟩)
      simp only [itemsFuel, hg]
      have hne := elemOk_ne_nil e he
      have hlen : 1 ≤ e.length := by cases e with | nil => exact absurd rfl hne | cons _ _ => simp
      simp only [List.length_append, List.length_cons] at hn
      cases m with
      | zero => omega
      | succ k =>
        have : itemsFuel (k + 1) (44 :: rest) = itemsFuel (k + 1) rest := by simp [itemsFuel, getItem_comma]
        rw [this, ih (k + 1) (by omega)]

/-- on a well-formed list `items` (the `while (strListGetItem(...))` loop) yields exactly the elements -/
theorem items_of_renders (s : Bytes) (es : List Bytes) (h : Renders s es) : items s = es :=
  itemsFuel_of_renders s es h (s.length + 1) (by omega)

theorem renders_prepend (d s : Bytes) (es : List Bytes) (hd : ∀ c ∈ d, isOwsComma c = true) (h : Renders s es) :
    Renders (d ++ s) es := by
  have hall : ∀ d', (∀ c ∈ d', isOwsComma c = true) → ∀ c ∈ d ++ d', isOwsComma c = true := by
    intro d' h' c hc
    rcases List.mem_append.1 hc with h1 | h1
    · exact hd c h1
    · exact h' c h1
  cases h with
  | done => rename_i hd'; exact Renders.done _ (hall _ hd')
  | last d' e w hd' he hw => rw [← List.append_assoc]; exact Renders.last _ e w (hall d' hd') he hw
  | cons d' e w rest es' hd' he hw h' => rw [← List.append_assoc]; exact Renders.cons _ e w rest es' (hall d' hd') he hw h'

/-- closed under the ", " join of `strListAdd` -/
theorem renders_join (s1 s2 : Bytes) (es1 es2 : List Bytes) (h1 : Renders s1 es1) (h2 : Renders s2 es2) :
    Renders (s1 ++ [44, 32] ++ s2) (es1 ++ es2) := by
  induction h1 with
  | done d hd =>
    have : ∀ c ∈ d ++ [44, 32], isOwsComma c = true := by
      intro c hc
      rcases List.mem_append.1 hc with h | h
      · exact hd c h
      · simp at h; rcases h with h | h <;> subst h <;> decide
    simpa using renders_prepend _ _ _ this h2
  | last d e w hd he hw =>
    have h3 : Renders ([32] ++ s2) es2 := renders_prepend [32] s2 es2 (by intro c hc; simp at hc; subst hc; decide) h2
    have := Renders.cons d e w ([32] ++ s2) es2 hd he hw h3
    simpa [List.append_assoc] using this
  | cons d e w rest es hd he hw _ ih =>
    have := Renders.cons d e w _ _ hd he hw ih
    simpa [List.append_assoc] using this

theorem renders_nil_elems (es : List Bytes) (h : Renders [] es) : es = [] := by
  generalize hs : ([] : Bytes) = s at h
  cases h with
  | done => rfl
  | last d e w _ he _ =>
    have := elemOk_ne_nil e he
    simp at hs; exact absurd hs.2.1 this
  | cons d e w rest es' _ he _ _ => simp at hs

/-- several well-formed field lines joined by `getList` are one well-formed list of all their elements -/
theorem renders_joinList (lines : List (Bytes × List Bytes)) (h : ∀ l ∈ lines, Renders l.1 l.2) :
    Renders (joinList (lines.map (·.1))) (lines.flatMap (·.2)) := by
  unfold joinList
  suffices ∀ (acc : Bytes) (ea : List Bytes), Renders acc ea →
      Renders ((lines.map (·.1)).foldl (fun acc v => if acc.isEmpty then v else acc ++ [44, 32] ++ v) acc) (ea ++ lines.flatMap (·.2)) by
    simpa using this [] [] (Renders.done [] (by simp))
  induction lines with
  | nil => intro acc ea ha; simpa using ha
  | cons l t ih =>
    intro acc ea ha
    simp only [List.map_cons, List.foldl_cons, List.flatMap_cons]
    have hl := h l (by simp)
    have ht : ∀ l' ∈ t, Renders l'.1 l'.2 := fun l' hl' => h l' (by simp [hl'])
    rw [← List.append_assoc]
    apply ih ht
    split
    · rename_i he
      have : acc = [] := by simpa using he
      subst this
      rw [renders_nil_elems ea ha]
      simpa using hl
    · exact renders_join _ _ _ _ ha hl

/-! ### which elements are no-store / private directives -/

theorem splitEq_no_eq (nm : Bytes) (h : ∀ c ∈ nm, (c == 61) = false) : splitEq nm = (nm, none) := by
  induction nm with
  | nil => rfl
  | cons c cs ih =>
    simp only [splitEq, h c (by simp), Bool.false_eq_true, if_false]
    rw [ih (fun c hc => h c (by simp [hc]))]

theorem splitEq_with_eq (nm arg : Bytes) (h : ∀ c ∈ nm, (c == 61) = false) : splitEq (nm ++ 61 :: arg) = (nm, some arg) := by
  induction nm with
  | nil => simp [splitEq]
  | cons c cs ih =>
    simp only [List.cons_append, splitEq, h c (by simp), Bool.false_eq_true, if_false]
    rw [ih (fun c hc => h c (by simp [hc]))]

def noStoreName : Bytes := [110, 111, 45, 115, 116, 111, 114, 101]
def privateName : Bytes := [112, 114, 105, 118, 97, 116, 101]

theorem lowerC_eq_61 (c : UInt8) (h : (c == 61) = true) : lowerC c = 61 := by
  have := eq_of_beq h; subst this; decide

theorem no_eq_of_lower (nm lit : Bytes) (h : nm.map lowerC = lit) (hl : ∀ c ∈ lit, (c == 61) = false) : ∀ c ∈ nm, (c == 61) = false := by
  intro c hc
  cases h61 : c == 61 with
  | false => rfl
  | true =>
    have hm : lowerC c ∈ nm.map lowerC := List.mem_map_of_mem hc
    rw [h, lowerC_eq_61 c h61] at hm
    have := hl 61 hm
    revert this; decide

/-- a name spelled `no-store` in any mix of upper and lower case, alone or followed by `=` and anything, is a no-store item -/
theorem itemType_noStore (nm : Bytes) (h : nm.map lowerC = noStoreName) :
    itemType nm = .noStore ∧ ∀ arg, itemType (nm ++ 61 :: arg) = .noStore := by
  have hne := no_eq_of_lower nm noStoreName h (by decide)
  have hty : ccTypeByName nm = .noStore := by
    unfold ccTypeByName eqNoCase
    rw [h]; decide
  constructor
  · unfold itemType; rw [splitEq_no_eq nm hne]; exact hty
  · intro arg; unfold itemType; rw [splitEq_with_eq nm arg hne]; exact hty

theorem itemType_private (nm : Bytes) (h : nm.map lowerC = privateName) :
    itemType nm = .priv ∧ ∀ arg, itemType (nm ++ 61 :: arg) = .priv := by
  have hne := no_eq_of_lower nm privateName h (by decide)
  have hty : ccTypeByName nm = .priv := by
    unfold ccTypeByName eqNoCase
    rw [h]; decide
  constructor
  · unfold itemType; rw [splitEq_no_eq nm hne]; exact hty
  · intro arg; unfold itemType; rw [splitEq_with_eq nm arg hne]; exact hty

/-- bytes that cannot upset the list scanner: no quote, no comma, no white space -/
def isPlainByte (c : UInt8) : Bool := !(c == 34) && !(c == 44) && !isSpaceC c

theorem endState_plainBytes (e : Bytes) (h : ∀ c ∈ e, isPlainByte c = true) : endState .plain e = some .plain := by
  induction e with
  | nil => rfl
  | cons c cs ih =>
    have hc := h c (by simp)
    unfold isPlainByte at hc
    simp only [Bool.and_eq_true, Bool.not_eq_true'] at hc
    simp only [endState, hc.1.1, hc.1.2, Bool.false_eq_true, if_false]
    exact ih (fun c hc => h c (by simp [hc]))

theorem plainByte_not_delim (c : UInt8) (h : isPlainByte c = true) : isListDelim c = false ∧ isSpaceC c = false := by
  have := forall_octet (fun c => !isPlainByte c || (!isListDelim c && !isSpaceC c)) (by decide +kernel) c
  simpa [h] using this

/-- every non-empty string of such bytes (in particular every token, and every token=token) is a list element -/
theorem elemOk_plain (e : Bytes) (hne : e ≠ []) (h : ∀ c ∈ e, isPlainByte c = true) : elemOk e = true := by
  unfold elemOk
  simp only [Bool.and_eq_true, beq_iff_eq]
  refine ⟨⟨?_, ?_⟩, endState_plainBytes e h⟩
  · cases e with
    | nil => exact absurd rfl hne
    | cons c cs => simp [(plainByte_not_delim c (h c (by simp))).1]
  · cases hg : e.getLast? with
    | none => simp at hg; exact absurd hg hne
    | some c =>
      have hc : c ∈ e := List.mem_of_getLast? hg
      simp [(plainByte_not_delim c (h c hc)).2]

theorem foldl_items_flatMap (vals : List Bytes) (cc : Cc) :
    vals.foldl (fun cc v => (items v).foldl Cc.step cc) cc = (vals.flatMap items).foldl Cc.step cc := by
  induction vals generalizing cc with
  | nil => rfl
  | cons v t ih => simp [List.foldl_append, ih]

theorem flatMap_items_of_renders (lines : List (Bytes × List Bytes)) (h : ∀ l ∈ lines, Renders l.1 l.2) :
    (lines.map (·.1)).flatMap items = lines.flatMap (·.2) := by
  induction lines with
  | nil => rfl
  | cons l t ih =>
    simp only [List.map_cons, List.flatMap_cons]
    rw [items_of_renders _ _ (h l (by simp)), ih (fun l' hl' => h l' (by simp [hl']))]

/-- bytes allowed inside the simple quoted arguments considered here: anything but the quote and the backslash -/
def isQdByte (c : UInt8) : Bool := !(c == 34) && !(c == 92)

theorem endState_quoted_body (body : Bytes) (h : ∀ c ∈ body, isQdByte c = true) : endState .quoted (body ++ [34]) = some .plain := by
  induction body with
  | nil => rfl
  | cons c cs ih =>
    have hc := h c (by simp)
    unfold isQdByte at hc
    simp only [Bool.and_eq_true, Bool.not_eq_true'] at hc
    simp only [List.cons_append, endState, hc.1, hc.2, Bool.false_eq_true, if_false]
    exact ih (fun c hc => h c (by simp [hc]))

theorem endState_append (q q' : QState) (a b : Bytes) (h : endState q a = some q') : endState q (a ++ b) = endState q' b := by
  induction a generalizing q with
  | nil => simp [endState] at h; subst h; rfl
  | cons c cs ih =>
    cases q <;> simp only [endState] at h <;> simp only [List.cons_append, endState]
    · split
      · rename_i hc; simp only [hc, if_true] at h; exact ih _ h
      · rename_i hc; simp only [hc] at h
        split
        · rename_i hc2; simp [hc2] at h
        · rename_i hc2; simp only [hc2] at h; exact ih _ h
    · split
      · rename_i hc; simp only [hc, if_true] at h; exact ih _ h
      · rename_i hc; simp only [hc] at h
        split
        · rename_i hc2; simp only [hc2, if_true] at h; exact ih _ h
        · rename_i hc2; simp only [hc2] at h; exact ih _ h
    · exact ih _ h

/-- `name="any text, with commas, without quote or backslash"` is one list element -/
theorem elemOk_quoted_arg (name body : Bytes) (hne : name ≠ []) (hn : ∀ c ∈ name, isPlainByte c = true)
    (hb : ∀ c ∈ body, isQdByte c = true) : elemOk (name ++ ([61, 34] ++ (body ++ [34]))) = true := by
  unfold elemOk
  simp only [Bool.and_eq_true, beq_iff_eq]
  refine ⟨⟨?_, ?_⟩, ?_⟩
  · cases name with
    | nil => exact absurd rfl hne
    | cons c cs => simp [(plainByte_not_delim c (hn c (by simp))).1]
  · have : (name ++ ([61, 34] ++ (body ++ [34]))).getLast? = some 34 := by
      have h1 : name ++ ([61, 34] ++ (body ++ [34])) = (name ++ ([61, 34] ++ body)) ++ [34] := by simp [List.append_assoc]
      rw [h1, List.getLast?_append]; rfl
    rw [this]; decide
  · rw [endState_append _ _ _ _ (endState_plainBytes name hn)]
    show endState .plain (61 :: 34 :: (body ++ [34])) = some .plain
    simp only [endState]
    simp only [show ((61 : UInt8) == 34) = false by decide, show ((61 : UInt8) == 44) = false by decide, Bool.false_eq_true, if_false,
      show ((34 : UInt8) == 34) = true by decide, if_true]
    exact endState_quoted_body body hb

/-- per-line parsing: a directive item of any one field line sets its bit, whatever the other lines contain -/
theorem getCcPerLine_noStore (vals : List Bytes) (h : ∃ v ∈ vals, ∃ it ∈ items v, itemType it = .noStore) :
    ∃ cc, getCcPerLine vals = some cc ∧ cc.noStore = true := by
  obtain ⟨v, hv, it, hit, hty⟩ := h
  unfold getCcPerLine
  rw [foldl_items_flatMap]
  have hn : ((vals.flatMap items).foldl Cc.step {}).noStore = true :=
    (foldl_noStore_iff _ _).2 (Or.inr ⟨it, List.mem_flatMap.2 ⟨v, hv, hit⟩, hty⟩)
  exact ⟨_, by simp [any_of_noStore _ hn], hn⟩

theorem getCcPerLine_priv (vals : List Bytes) (h : ∃ v ∈ vals, ∃ it ∈ items v, itemType it = .priv) :
    ∃ cc, getCcPerLine vals = some cc ∧ cc.priv = true := by
  obtain ⟨v, hv, it, hit, hty⟩ := h
  unfold getCcPerLine
  rw [foldl_items_flatMap]
  have hn : ((vals.flatMap items).foldl Cc.step {}).priv = true :=
    (foldl_priv_iff _ _).2 (Or.inr ⟨it, List.mem_flatMap.2 ⟨v, hv, hit⟩, hty⟩)
  exact ⟨_, by simp [any_of_priv _ hn], hn⟩

end SquidModel.Cache
