/-
C13 — the vary mark is a faithful (injective) rendering of the nominated names and their values.
-/
import SquidModel.Cache.VaryMark
import SquidModel.Cache.VaryEscapeLemmas

namespace SquidModel.Cache.Vary
open SquidModel

/-! ### unique splitting at the first delimiter -/

/-- `x` is empty or starts with an octet satisfying `p` -/
def StartsIn (p : UInt8 → Bool) (x : Bytes) : Prop := x = [] ∨ ∃ c t, x = c :: t ∧ p c = true

theorem split_unique (p : UInt8 → Bool) : ∀ (a1 a2 x1 x2 : Bytes),
    (∀ c ∈ a1, p c = false) → (∀ c ∈ a2, p c = false) → StartsIn p x1 → StartsIn p x2 →
    a1 ++ x1 = a2 ++ x2 → a1 = a2 ∧ x1 = x2 := by
  intro a1
  induction a1 with
  | nil =>
    intro a2 x1 x2 _ h2 hx1 _ h
    cases a2 with
    | nil => exact ⟨rfl, by simpa using h⟩
    | cons b a2 =>
      exfalso
      have hb : p b = false := h2 b (by simp)
      rcases hx1 with hx | ⟨c, t, hx, hc⟩
      · subst hx; simp at h
      · subst hx
        simp only [List.nil_append, List.cons_append, List.cons.injEq] at h
        rw [h.1] at hc; rw [hb] at hc; cases hc
  | cons a a1 ih =>
    intro a2 x1 x2 h1 h2 hx1 hx2 h
    cases a2 with
    | nil =>
      exfalso
      have ha : p a = false := h1 a (by simp)
      rcases hx2 with hx | ⟨c, t, hx, hc⟩
      · subst hx; simp at h
      · subst hx
        simp only [List.nil_append, List.cons_append, List.cons.injEq] at h
        rw [← h.1] at hc; rw [ha] at hc; cases hc
    | cons b a2 =>
      simp only [List.cons_append, List.cons.injEq] at h
      have := ih a2 x1 x2 (fun c hc => h1 c (by simp [hc])) (fun c hc => h2 c (by simp [hc])) hx1 hx2 h.2
      exact ⟨by rw [h.1, this.1], this.2⟩

/-! ### the text of one `name[="value"]` pair -/

/-- what `assembleVaryKey` appends for one nominated name after the separator -/
def valText : Option Bytes → Bytes
  | some x => [61, 34] ++ escapePart x ++ [34]
  | none => []

def pairText (p : Bytes × Option Bytes) : Bytes := p.1 ++ valText p.2

theorem appendName_eq (vstr name : Bytes) (v : Option Bytes) :
    appendName vstr name v = (if vstr.isEmpty then vstr else vstr ++ [44, 32]) ++ pairText (name, v) := by
  unfold appendName pairText valText
  cases v <;> simp [List.append_assoc]

/-- a name that cannot be confused with mark syntax: non-empty, no `,` `=` `"` (every RFC 9110 token is clean) -/
def Clean (n : Bytes) : Prop := n ≠ [] ∧ ∀ c ∈ n, (c == 44 || c == 61 || c == 34) = false

/-- executable form of `Clean` -/
def cleanB (n : Bytes) : Bool := !n.isEmpty && n.all fun c => !(c == 44 || c == 61 || c == 34)

theorem clean_of_cleanB {n : Bytes} (h : cleanB n = true) : Clean n := by
  simp only [cleanB, Bool.and_eq_true, Bool.not_eq_eq_eq_not, Bool.not_true, List.all_eq_true] at h
  refine ⟨fun hc => by rw [hc] at h; simp at h, fun c hc => ?_⟩
  have := h.2 c hc
  simpa using this

def isComma (c : UInt8) : Bool := c == 44
def isNameEnd (c : UInt8) : Bool := c == 44 || c == 61 || c == 34
def isQuote (c : UInt8) : Bool := c == 34

theorem startsIn_comma_nameEnd {x : Bytes} (h : StartsIn isComma x) : StartsIn isNameEnd x := by
  rcases h with h | ⟨c, t, h, hc⟩
  · exact Or.inl h
  · refine Or.inr ⟨c, t, h, ?_⟩
    simp only [isComma, beq_iff_eq] at hc
    simp [isNameEnd, hc]

/-- the value part (after a name) followed by a continuation that is empty or starts with a comma -/
theorem valuePart_unique (v1 v2 : Option Bytes) (r1 r2 : Bytes)
    (hr1 : StartsIn isComma r1) (hr2 : StartsIn isComma r2)
    (h : valText v1 ++ r1 = valText v2 ++ r2) :
    v1 = v2 ∧ r1 = r2 := by
  unfold valText at h
  cases v1 with
  | none =>
    cases v2 with
    | none => exact ⟨rfl, by simpa using h⟩
    | some y =>
      exfalso
      simp only [List.nil_append, List.cons_append, List.append_assoc] at h
      rcases hr1 with hr | ⟨c, t, hr, hc⟩
      · subst hr; simp at h
      · subst hr
        simp only [List.cons.injEq] at h
        simp only [isComma, beq_iff_eq] at hc
        rw [hc] at h
        exact absurd h.1 (by decide)
  | some x =>
    cases v2 with
    | none =>
      exfalso
      simp only [List.nil_append, List.cons_append, List.append_assoc] at h
      rcases hr2 with hr | ⟨c, t, hr, hc⟩
      · subst hr; simp at h
      · subst hr
        simp only [List.cons.injEq] at h
        simp only [isComma, beq_iff_eq] at hc
        rw [hc] at h
        exact absurd h.1 (by decide)
    | some y =>
      simp only [List.cons_append, List.nil_append, List.append_assoc, List.cons.injEq, true_and] at h
      have hq : ∀ (s : Bytes), ∀ c ∈ escapePart s, isQuote c = false := by
        intro s c hc
        simp only [isQuote, beq_eq_false_iff_ne, ne_eq]
        intro hc34
        exact escapePart_no_quote s (hc34 ▸ hc)
      have hs : ∀ (r : Bytes), StartsIn isQuote ((34 : UInt8) :: r) := fun r => Or.inr ⟨34, r, rfl, by decide⟩
      have := split_unique isQuote (escapePart x) (escapePart y) (34 :: r1) (34 :: r2) (hq x) (hq y) (hs r1) (hs r2) h
      have hxy := escapePart_injective x y this.1
      have hr : r1 = r2 := by simpa using this.2
      exact ⟨by rw [hxy], hr⟩

/-- two pairs with clean names, each followed by a continuation that is empty or starts with a comma -/
theorem pairText_unique (p1 p2 : Bytes × Option Bytes) (r1 r2 : Bytes)
    (hc1 : Clean p1.1) (hc2 : Clean p2.1) (hr1 : StartsIn isComma r1) (hr2 : StartsIn isComma r2)
    (h : pairText p1 ++ r1 = pairText p2 ++ r2) : p1 = p2 ∧ r1 = r2 := by
  obtain ⟨n1, v1⟩ := p1
  obtain ⟨n2, v2⟩ := p2
  simp only [pairText, List.append_assoc] at h
  have hx : ∀ (v : Option Bytes) (r : Bytes), StartsIn isComma r → StartsIn isNameEnd (valText v ++ r) := by
    intro v r hr
    cases v with
    | none => simpa [valText] using startsIn_comma_nameEnd hr
    | some x => exact Or.inr ⟨61, [34] ++ escapePart x ++ [34] ++ r, by simp [valText], by decide⟩
  have := split_unique isNameEnd n1 n2 _ _ (fun c hc => hc1.2 c hc) (fun c hc => hc2.2 c hc) (hx v1 r1 hr1) (hx v2 r2 hr2) h
  have hv := valuePart_unique v1 v2 r1 r2 hr1 hr2 this.2
  exact ⟨by rw [this.1, hv.1], hv.2⟩

/-- same name on both sides (any octets): the values and the continuations agree -/
theorem pairText_same_name (n : Bytes) (v1 v2 : Option Bytes) (r1 r2 : Bytes)
    (hr1 : StartsIn isComma r1) (hr2 : StartsIn isComma r2)
    (h : pairText (n, v1) ++ r1 = pairText (n, v2) ++ r2) : v1 = v2 ∧ r1 = r2 := by
  simp only [pairText, List.append_assoc] at h
  exact valuePart_unique v1 v2 r1 r2 hr1 hr2 (List.append_cancel_left h)

/-! ### the whole mark -/

/-- the part of the mark after the first pair: `", " pair` for every further pair -/
def tailText (ps : List (Bytes × Option Bytes)) : Bytes := ps.flatMap fun p => [44, 32] ++ pairText p

/-- the mark text of a list of pairs -/
def markText : List (Bytes × Option Bytes) → Bytes
  | [] => []
  | p :: ps => pairText p ++ tailText ps

theorem tailText_startsIn (ps : List (Bytes × Option Bytes)) : StartsIn isComma (tailText ps) := by
  cases ps with
  | nil => exact Or.inl rfl
  | cons p ps => exact Or.inr ⟨44, [32] ++ pairText p ++ tailText ps, by simp [tailText], by decide⟩

theorem tailText_cons (p : Bytes × Option Bytes) (ps : List (Bytes × Option Bytes)) :
    tailText (p :: ps) = [44, 32] ++ (pairText p ++ tailText ps) := by
  simp [tailText]

theorem pairText_ne_nil (p : Bytes × Option Bytes) (h : p.1 ≠ []) : pairText p ≠ [] := by
  unfold pairText
  intro hc
  have := List.append_eq_nil_iff.mp hc
  exact h this.1

theorem tailText_injective : ∀ ps1 ps2 : List (Bytes × Option Bytes),
    (∀ p ∈ ps1, Clean p.1) → (∀ p ∈ ps2, Clean p.1) → tailText ps1 = tailText ps2 → ps1 = ps2 := by
  intro ps1
  induction ps1 with
  | nil =>
    intro ps2 _ _ h
    cases ps2 with
    | nil => rfl
    | cons p ps2 => rw [tailText_cons] at h; simp [tailText] at h
  | cons p1 ps1 ih =>
    intro ps2 h1 h2 h
    cases ps2 with
    | nil => rw [tailText_cons] at h; simp [tailText] at h
    | cons p2 ps2 =>
      rw [tailText_cons, tailText_cons] at h
      have h' := List.append_cancel_left h
      have := pairText_unique p1 p2 _ _ (h1 p1 (by simp)) (h2 p2 (by simp)) (tailText_startsIn ps1) (tailText_startsIn ps2) h'
      rw [this.1, ih ps2 (fun p hp => h1 p (by simp [hp])) (fun p hp => h2 p (by simp [hp])) this.2]

/-- **Equal mark texts of clean-named pair lists are the same pair lists.** -/
theorem markText_injective (ps1 ps2 : List (Bytes × Option Bytes))
    (h1 : ∀ p ∈ ps1, Clean p.1) (h2 : ∀ p ∈ ps2, Clean p.1) (h : markText ps1 = markText ps2) : ps1 = ps2 := by
  cases ps1 with
  | nil =>
    cases ps2 with
    | nil => rfl
    | cons p2 ps2 =>
      exfalso
      simp only [markText] at h
      have := List.append_eq_nil_iff.mp h.symm
      exact pairText_ne_nil p2 (h2 p2 (by simp)).1 this.1
  | cons p1 ps1 =>
    cases ps2 with
    | nil =>
      exfalso
      simp only [markText] at h
      have := List.append_eq_nil_iff.mp h
      exact pairText_ne_nil p1 (h1 p1 (by simp)).1 this.1
    | cons p2 ps2 =>
      simp only [markText] at h
      have := pairText_unique p1 p2 _ _ (h1 p1 (by simp)) (h2 p2 (by simp)) (tailText_startsIn ps1) (tailText_startsIn ps2) h
      rw [this.1, tailText_injective ps1 ps2 (fun p hp => h1 p (by simp [hp])) (fun p hp => h2 p (by simp [hp])) this.2]

/-- same names in the same order (any octets in them), two assignments of values -/
theorem tailText_same_names : ∀ (ns : List Bytes) (f g : Bytes → Option Bytes),
    tailText (ns.map fun n => (n, f n)) = tailText (ns.map fun n => (n, g n)) → ∀ n ∈ ns, f n = g n := by
  intro ns f g
  induction ns with
  | nil => intro _ n hn; cases hn
  | cons a ns ih =>
    intro h n hn
    simp only [List.map_cons] at h
    rw [tailText_cons, tailText_cons] at h
    have := pairText_same_name a (f a) (g a) _ _ (tailText_startsIn _) (tailText_startsIn _) (List.append_cancel_left h)
    rcases List.mem_cons.mp hn with hn | hn
    · rw [hn]; exact this.1
    · exact ih this.2 n hn

theorem markText_same_names (ns : List Bytes) (f g : Bytes → Option Bytes)
    (h : markText (ns.map fun n => (n, f n)) = markText (ns.map fun n => (n, g n))) : ∀ n ∈ ns, f n = g n := by
  cases ns with
  | nil => intro n hn; cases hn
  | cons a ns =>
    simp only [List.map_cons, markText] at h
    have := pairText_same_name a (f a) (g a) _ _ (tailText_startsIn _) (tailText_startsIn _) h
    intro n hn
    rcases List.mem_cons.mp hn with hn | hn
    · rw [hn]; exact this.1
    · exact tailText_same_names ns f g this.2 n hn

/-! ### `assembleFrom` computes `markText` when there is no `*` member -/

/-- the (lower-cased name, looked-up value) pairs `assembleVaryKey` renders -/
def pairsOf (h : Hdrs) (names : List Bytes) : List (Bytes × Option Bytes) :=
  names.map fun n => (lower n, combinedByName h (lower n))

theorem lower_ne_nil {n : Bytes} (h : n ≠ []) : lower n ≠ [] := by
  cases n with
  | nil => exact absurd rfl h
  | cons a n => simp [lower]

theorem assembleFrom_nostar (h : Hdrs) : ∀ (names : List Bytes) (vstr : Bytes),
    star ∉ names → (∀ n ∈ names, n ≠ []) → vstr ≠ [] →
    assembleFrom h names vstr = vstr ++ tailText (pairsOf h names) := by
  intro names
  induction names with
  | nil => intro vstr _ _ _; simp [assembleFrom, pairsOf, tailText]
  | cons n names ih =>
    intro vstr hs hne hv
    have hn : (n == star) = false := by
      rw [beq_eq_false_iff_ne]
      intro hc
      exact hs (by rw [hc]; simp)
    simp only [assembleFrom, hn, Bool.false_eq_true, ↓reduceIte]
    have hvE : vstr.isEmpty = false := by
      cases vstr with
      | nil => exact absurd rfl hv
      | cons _ _ => rfl
    rw [appendName_eq, hvE]
    simp only [Bool.false_eq_true, ↓reduceIte]
    rw [ih _ (fun hc => hs (by simp [hc])) (fun m hm => hne m (by simp [hm])) (by simp [hv])]
    simp only [pairsOf, List.map_cons]
    rw [tailText_cons]
    simp [List.append_assoc]

theorem assembleFrom_nostar_nil (h : Hdrs) (names : List Bytes)
    (hs : star ∉ names) (hne : ∀ n ∈ names, n ≠ []) :
    assembleFrom h names [] = markText (pairsOf h names) := by
  cases names with
  | nil => rfl
  | cons n names =>
    have hn : (n == star) = false := by
      rw [beq_eq_false_iff_ne]
      intro hc
      exact hs (by rw [hc]; simp)
    simp only [assembleFrom, hn, Bool.false_eq_true, ↓reduceIte]
    rw [appendName_eq]
    simp only [List.isEmpty_nil, ↓reduceIte, List.nil_append]
    have hp : pairText (lower n, combinedByName h (lower n)) ≠ [] :=
      pairText_ne_nil _ (lower_ne_nil (hne n (by simp)))
    rw [assembleFrom_nostar h names _ (fun hc => hs (by simp [hc])) (fun m hm => hne m (by simp [hm])) hp]
    simp [pairsOf, markText]

/-- a `*` member anywhere makes the mark `*` (when the loop starts from an empty `vstr` or not) -/
theorem assembleFrom_star (h : Hdrs) : ∀ (names : List Bytes) (vstr : Bytes),
    star ∈ names → assembleFrom h names vstr = star := by
  intro names
  induction names with
  | nil => intro _ hs; cases hs
  | cons n names ih =>
    intro vstr hs
    by_cases hn : n = star
    · simp [assembleFrom, hn]
    · have hb : (n == star) = false := by rw [beq_eq_false_iff_ne]; exact hn
      simp only [assembleFrom, hb, Bool.false_eq_true, ↓reduceIte]
      rcases List.mem_cons.mp hs with hs | hs
      · exact absurd hs.symm hn
      · exact ih _ hs

/-! ### lower-casing -/

theorem lowerByte_idem (c : UInt8) : lowerByte (lowerByte c) = lowerByte c := by
  have := forall_octet (fun c => lowerByte (lowerByte c) == lowerByte c) (by decide +kernel) c
  simpa using this

theorem lower_idem (s : Bytes) : lower (lower s) = lower s := by
  simp [lower, List.map_map, Function.comp_def, lowerByte_idem]

theorem lowerByte_nameEnd (c : UInt8) : isNameEnd (lowerByte c) = isNameEnd c := by
  have := forall_octet (fun c => isNameEnd (lowerByte c) == isNameEnd c) (by decide +kernel) c
  simpa using this

theorem clean_lower {n : Bytes} (h : Clean n) : Clean (lower n) := by
  refine ⟨lower_ne_nil h.1, ?_⟩
  intro c hc
  simp only [lower, List.mem_map] at hc
  obtain ⟨d, hd, hdc⟩ := hc
  have := lowerByte_nameEnd d
  simp only [isNameEnd] at this
  rw [← hdc, this]
  exact h.2 d hd

theorem getByName_lower (h : Hdrs) (n : Bytes) : getByName h (lower n) = getByName h n := by
  simp [getByName, valuesOf, lower_idem]

theorem combinedByName_lower (h : Hdrs) (n : Bytes) : combinedByName h (lower n) = combinedByName h n := by
  simp [combinedByName, valuesOf, lower_idem]


/-! ### items are never empty; the members of a Vary field -/

theorem itemsFuel_ne_nil : ∀ (f : Nat) (s : Bytes), ∀ n ∈ itemsFuel f s, n ≠ [] := by
  intro f
  induction f with
  | zero => intro s n hn; simp [itemsFuel] at hn
  | succ f ih =>
    intro s n hn
    simp only [itemsFuel] at hn
    split at hn
    · cases hn
    · rename_i hne
      rcases List.mem_cons.mp hn with hn | hn
      · rw [hn]; intro hc; rw [hc] at hne; exact hne rfl
      · exact ih _ n hn

/-- the members `assembleVaryKey` iterates over for the reply's Vary field lines -/
def varyMembers (varyLines : List Bytes) : List Bytes := items ((joinValues varyLines).getD [])

theorem varyMembers_ne_nil (lines : List Bytes) : ∀ n ∈ varyMembers lines, n ≠ [] :=
  itemsFuel_ne_nil _ _

theorem makeMark_eq (lines : List Bytes) (h : Hdrs) : makeMark lines h = assembleFrom h (varyMembers lines) [] := rfl

theorem makeMark_star {lines : List Bytes} {h : Hdrs} (hs : star ∈ varyMembers lines) : makeMark lines h = star := by
  rw [makeMark_eq]; exact assembleFrom_star h _ _ hs

theorem makeMark_nostar {lines : List Bytes} {h : Hdrs} (hs : star ∉ varyMembers lines) :
    makeMark lines h = markText (pairsOf h (varyMembers lines)) := by
  rw [makeMark_eq]; exact assembleFrom_nostar_nil h _ hs (varyMembers_ne_nil lines)

theorem pairsOf_eq {h1 h2 : Hdrs} : ∀ (ns1 ns2 : List Bytes), pairsOf h1 ns1 = pairsOf h2 ns2 →
    ns1.map lower = ns2.map lower ∧ (∀ n ∈ ns1, combinedByName h1 n = combinedByName h2 n) ∧
      (∀ n ∈ ns2, combinedByName h1 n = combinedByName h2 n) := by
  intro ns1
  induction ns1 with
  | nil =>
    intro ns2 h
    cases ns2 with
    | nil => simp
    | cons b ns2 => simp [pairsOf] at h
  | cons a ns1 ih =>
    intro ns2 h
    cases ns2 with
    | nil => simp [pairsOf] at h
    | cons b ns2 =>
      simp only [pairsOf, List.map_cons, List.cons.injEq, Prod.mk.injEq] at h
      obtain ⟨⟨hn, hv⟩, hrest⟩ := h
      have := ih ns2 hrest
      refine ⟨by simp [hn, this.1], ?_, ?_⟩
      · intro n hm
        rcases List.mem_cons.mp hm with hm | hm
        · subst hm
          rw [← combinedByName_lower h1 n, ← combinedByName_lower h2 n, hv, hn]
        · exact this.2.1 n hm
      · intro n hm
        rcases List.mem_cons.mp hm with hm | hm
        · subst hm
          rw [← combinedByName_lower h1 n, ← combinedByName_lower h2 n, ← hn, hv, hn]
        · exact this.2.2 n hm

/-! ### closed form of the field-line joiner -/

/-- `a, b, c` -/
def commaJoin : List Bytes → Bytes
  | [] => []
  | v :: vs => v ++ vs.flatMap fun x => [44, 32] ++ x

/-- RFC 9110 5.3 combined field value as `strListAdd` computes it: absent = `none`; empty field lines before the first
non-empty one contribute nothing -/
def fieldValue (vs : List Bytes) : Option Bytes :=
  if vs.isEmpty then none else some (commaJoin (vs.dropWhile (·.isEmpty)))

theorem foldl_strListAdd_ne (vs : List Bytes) : ∀ (a : Bytes), a ≠ [] →
    vs.foldl strListAdd (some a) = some (a ++ vs.flatMap fun x => [44, 32] ++ x) := by
  induction vs with
  | nil => intro a _; simp
  | cons v vs ih =>
    intro a ha
    have hae : a.isEmpty = false := by cases a with | nil => exact absurd rfl ha | cons _ _ => rfl
    simp only [List.foldl_cons, strListAdd, hae, Bool.false_eq_true, ↓reduceIte]
    rw [ih _ (by simp [ha])]
    simp [List.append_assoc]

theorem foldl_strListAdd_empty (vs : List Bytes) :
    vs.foldl strListAdd (some []) = some (commaJoin (vs.dropWhile (·.isEmpty))) := by
  induction vs with
  | nil => simp [commaJoin]
  | cons v vs ih =>
    simp only [List.foldl_cons, strListAdd, List.isEmpty_nil, ↓reduceIte]
    cases hv : v.isEmpty with
    | true =>
      have : v = [] := by cases v with | nil => rfl | cons _ _ => cases hv
      subst this
      simp only [List.dropWhile_cons, List.isEmpty_nil, ↓reduceIte]
      exact ih
    | false =>
      have hne : v ≠ [] := by intro hc; rw [hc] at hv; cases hv
      rw [foldl_strListAdd_ne vs v hne]
      simp [hv, commaJoin]

theorem joinValues_eq_fieldValue (vs : List Bytes) : joinValues vs = fieldValue vs := by
  cases vs with
  | nil => rfl
  | cons v vs =>
    simp only [joinValues, List.foldl_cons, strListAdd, fieldValue, List.isEmpty_cons, Bool.false_eq_true, ↓reduceIte]
    cases hv : v.isEmpty with
    | true =>
      have : v = [] := by cases v with | nil => rfl | cons _ _ => cases hv
      subst this
      rw [foldl_strListAdd_empty]
      simp
    | false =>
      have hne : v ≠ [] := by intro hc; rw [hc] at hv; cases hv
      rw [foldl_strListAdd_ne vs v hne]
      simp [hv, commaJoin]

end SquidModel.Cache.Vary
