/-
C14 model, part 3: one URL, one client at a time — what happens to a request depending on the cache state, and what
the cache holds afterwards.

* `clientReplyContext::cacheHit` (src/client_side_reply.cc): no entry ⇒ `processMiss`; stale (`refreshCheckHTTP`) ⇒
  `processExpired`; else conditional ⇒ `processConditional`; else plain hit
* `processMiss` / `processExpired` with `Cache-Control: only-if-cached` ⇒ `processOnlyIfCachedMiss` (504)
* `processExpired`: `request->lastmod = entry->lastModified()`; own `If-None-Match` only when the client sent none and the
  stored ETag parses and is strong
* `HttpStateData::httpBuildRequestHeader`, `copyOneHeaderFromClientsideRequestToUpstreamRequest` (src/http.cc): own
  If-Modified-Since first, the client's only when Squid added none (cache_miss_revalidate on); the client's
  If-None-Match and If-Match fields are passed on
* `handleIMSReply`: 304 ⇒ `updateOnNotModified`, then forward the 304 iff the client sent If-Modified-Since and the updated
  entry is not newer, else send the old entry; status in 1..499 ⇒ forward the new reply; ≥ 500 ⇒ send the old entry
* `StoreEntry::updateOnNotModified` → `HttpReply::recreateOnNotModified` → `HttpHeader::update` (src/store.cc,
  src/HttpReply.cc, src/HttpHeader.cc): every field of the 304 (except Vary) replaces the stored fields of that name —
  including ETag, Last-Modified and Content-Length
* `sendNotModified` → `HttpReply::make304`: Date, Content-Type, Expires, Last-Modified, Cache-Control only
* the origin of the rig: RFC 9110 evaluation (CondRef) of what it receives against its current version

Time is in seconds; the run starts at `nowT` (any value later than every date used), which is also the timestamp of
every entry (the origin's Date is the current time).
-/
import SquidModel.Cache.CondDecide
import SquidModel.Cache.CondRef

namespace SquidModel.Cache.Cond

/-- the time of the run (only its order relative to the other dates matters) -/
def nowT : Int := 2000000000

/-- a representation version at the origin: ETag field value as sent, Last-Modified -/
structure Ver where
  etag : Option Bytes
  lm : Option Int
  deriving Repr, DecidableEq

inductive OMode
  | ref                -- evaluates the conditionals it receives (RFC 9110)
  | err                -- 500
  | cl (n : Nat)       -- as `ref`, but its 304 carries `Content-Length: n`
  deriving Repr, DecidableEq

/-- If-Modified-Since as it travels: a date, something that is not a date, or Squid's "time the entry was received" -/
inductive ImsTok
  | none
  | time (t : Int)
  | junk
  | now
  deriving Repr, DecidableEq

def ImsTok.toTime : ImsTok → Option Int
  | .time t => some t
  | .now => some nowT
  | _ => Option.none

structure Step where
  method : Method                -- `.head` stands for HEAD with Cache-Control: only-if-cached
  inm : Option (List Bytes)
  im : Option (List Bytes)
  ims : ImsTok
  k : Nat                        -- version current at the origin during this step
  omode : OMode
  fresh : Bool                   -- the origin's reply says max-age=100000 (true) or max-age=0 (false)
  deriving Repr

/-- the cached entry: header values of the stored reply and which version's body is stored -/
structure Entry where
  etag : Option Bytes            -- ETag field value (trimmed)
  lm : Option Int                -- Last-Modified
  fresh : Bool
  body : Nat                     -- version whose body bytes are stored
  xv : Nat                       -- step whose origin reply last wrote the headers (X-V)
  cl : Option Nat                -- Content-Length of the stored headers when a 304 rewrote it (`none`: the body's length)
  deriving Repr, DecidableEq

/-- what Squid sends upstream -/
structure Fwd where
  inm : Option (List Bytes)
  im : Option (List Bytes)
  ims : ImsTok
  deriving Repr, DecidableEq

inductive OReply
  | ok (k : Nat)                              -- 200 with version k
  | notMod (k : Nat) (cl : Option Nat)        -- 304 carrying version k's validators (and maybe Content-Length)
  | precond                                   -- 412
  | error                                     -- 500
  deriving Repr, DecidableEq

/-- what the client gets -/
inductive Out
  | full (e : Entry) (headOnly : Bool)        -- 200 built from this entry (freshly stored or cached)
  | made304 (etag : Option Bytes) (lm : Option Int)   -- 304 made by `make304` from the cached reply
  | relayed304 (step : Nat) (etag : Option Bytes) (lm : Option Int)   -- the origin's 304 passed on
  | err412                                    -- Squid's own 412 page or the origin's 412
  | err500                                    -- the origin's error passed on
  | err504                                    -- only-if-cached miss
  deriving Repr, DecidableEq

def Req.ofStep (st : Step) : Req :=
  { method := st.method, inm := st.inm, im := st.im,
    ims := match st.ims with | .time t => if t > 0 then some t else none | _ => none }

def Entry.view (e : Entry) : EntryView :=
  { status := 200, etag := e.etag, lastModified := e.lm, timestamp := nowT }

def verOf (vers : List Ver) (k : Nat) : Ver := vers.getD k ⟨none, none⟩

/-- the origin's reply for a verdict: 412, 304 (with the extra Content-Length when scripted), or 200 -/
def replyOf (v : Ref.Verdict) (k : Nat) (cl : Option Nat) : OReply :=
  match v with
  | .preconditionFailed => .precond
  | .notModified => .notMod k cl
  | .perform => .ok k

/-- what the origin concludes from the conditional headers it received -/
def originVerdict (vers : List Ver) (st : Step) (f : Fwd) : Ref.Verdict :=
  Ref.eval f.inm f.im f.ims.toTime (verOf vers st.k).etag (verOf vers st.k).lm

/-- the scripted origin -/
def originReply (vers : List Ver) (st : Step) (f : Fwd) : OReply :=
  match st.omode with
  | .err => .error
  | .ref => replyOf (originVerdict vers st f) st.k none
  | .cl n => replyOf (originVerdict vers st f) st.k (some n)

def trimFields (f : Option (List Bytes)) : Option (List Bytes) := f.map (·.map trimValue)

/-- the request sent upstream on a miss: the client's conditional headers pass through -/
def missFwd (st : Step) : Fwd := { inm := trimFields st.inm, im := trimFields st.im, ims := st.ims }

/-- `processExpired` + `httpBuildRequestHeader` for a stale entry -/
def revalFwd (e : Entry) (st : Step) : Fwd :=
  { ims := match e.lm with | some t => .time t | none => .now,
    inm := match st.inm with
      | some f => some (f.map trimValue)
      | none =>
        match e.etag.bind etagParseInit with
        | some t => if t.weak then none else some [t.str]
        | none => none,
    im := trimFields st.im }

/-- entry made from a 200 of version k received at step i -/
def storeNew (vers : List Ver) (k i : Nat) (fresh : Bool) : Entry :=
  let v := verOf vers k
  { etag := v.etag.map trimValue, lm := v.lm, fresh := fresh, body := k, xv := i, cl := none }

/-- `HttpHeader::skipUpdateHeader` -/
def skipsUpdate (id : String) : Bool := Gen.CondConsts.skipUpdateHeaders.contains id
/-- `make304` copies this header -/
def in304 (id : String) : Bool := Gen.CondConsts.make304Headers.contains id

/-- `updateOnNotModified`: fields present in the 304 replace the stored ones (unless `skipUpdateHeader`) -/
def update304 (vers : List Ver) (e : Entry) (k i : Nat) (fresh : Bool) (cl : Option Nat) : Entry :=
  let v := verOf vers k
  { e with
    etag := match v.etag with | some x => if skipsUpdate "ETAG" then e.etag else some (trimValue x) | none => e.etag,
    lm := match v.lm with | some t => if skipsUpdate "LAST_MODIFIED" then e.lm else some t | none => e.lm,
    fresh := if skipsUpdate "CACHE_CONTROL" then e.fresh else fresh,
    xv := i,
    cl := match cl with | some n => if skipsUpdate "CONTENT_LENGTH" then e.cl else some n | none => e.cl }

abbrev StepResult := Option Entry × Out × Option (Fwd × OReply)

/-- `cacheHit` on a fresh entry: `processConditional`, else the plain hit (`headOnly`: HEAD gets no body) -/
def stepHit (e : Entry) (st : Step) (headOnly : Bool) : StepResult :=
  match hitAnswer e.view (Req.ofStep st) with
  | .notModified =>
    (some e, .made304 (if in304 "ETAG" then e.etag else none) (if in304 "LAST_MODIFIED" then e.lm else none), none)
  | .preconditionFailed => (some e, .err412, none)
  | _ => (some e, .full e headOnly, none)

/-- `processMiss`: forward the request with the client's conditional headers, relay the answer, store a 200 -/
def stepMiss (vers : List Ver) (i : Nat) (st : Step) : StepResult :=
  let f := missFwd st
  let r := originReply vers st f
  match r with
  | .ok k => (some (storeNew vers k i st.fresh), .full (storeNew vers k i st.fresh) false, some (f, r))
  | .notMod k _ => (none, .relayed304 i ((verOf vers k).etag.map trimValue) (verOf vers k).lm, some (f, r))
  | .precond => (none, .err412, some (f, r))
  | .error => (none, .err500, some (f, r))

/-- whether `handleIMSReply` forwards the origin's 304: the client sent If-Modified-Since and the updated entry is not newer -/
def forwards304 (e' : Entry) (st : Step) : Bool :=
  match (Req.ofStep st).ims with
  | some t => !modifiedSince e'.view t
  | none => false

/-- `processExpired` + `handleIMSReply` for a stale entry -/
def stepReval (vers : List Ver) (i : Nat) (st : Step) (e : Entry) : StepResult :=
  let f := revalFwd e st
  let r := originReply vers st f
  match r with
  | .ok k => (some (storeNew vers k i st.fresh), .full (storeNew vers k i st.fresh) false, some (f, r))
  | .notMod k cl =>
    let e' := update304 vers e k i st.fresh cl
    if forwards304 e' st then
      (some e', .relayed304 i ((verOf vers k).etag.map trimValue) (verOf vers k).lm, some (f, r))
    else (some e', .full e' false, some (f, r))
  | .precond => (some e, .err412, some (f, r))
  | .error => (some e, .full e false, some (f, r))

/-- one request; `i` is the step index; returns the new cache state, what the client gets, and what the origin saw/said -/
def step (vers : List Ver) (i : Nat) (st : Step) (s : Option Entry) : StepResult :=
  if st.method ≠ .get then
    -- HEAD with only-if-cached: never forwarded (`processMiss`/`processExpired` ⇒ `processOnlyIfCachedMiss`)
    match s with
    | some e => if e.fresh then stepHit e st true else (s, .err504, none)
    | none => (s, .err504, none)
  else
    match s with
    | none => stepMiss vers i st
    | some e => if e.fresh then stepHit e st false else stepReval vers i st e

/-- run a history from a cache state; outputs in order -/
def run (vers : List Ver) : Nat → List Step → Option Entry → List (Out × Option (Fwd × OReply))
  | _, [], _ => []
  | i, st :: rest, s =>
    let r := step vers i st s
    (r.2.1, r.2.2) :: run vers (i + 1) rest r.1

/-- the cache state after a history -/
def finalState (vers : List Ver) : Nat → List Step → Option Entry → Option Entry
  | _, [], s => s
  | i, st :: rest, s => finalState vers (i + 1) rest (step vers i st s).1

end SquidModel.Cache.Cond
