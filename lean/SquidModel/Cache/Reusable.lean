/-
The store decision for an HTTP response, branch by branch:

* `HttpRequest::maybeCacheable` (src/HttpRequest.cc), `clientHierarchical` and the flag part of
  `clientInterpretRequestHeaders` (src/client_side_request.cc)                      → `maybeCacheable`, `clientHierarchical`, `interpretRequest`
* `storeCreateEntry` (src/store.cc): public key at creation or private key, RELEASE_REQUEST for uncachable requests → `createEntry`
* `HttpStateData::reusableReply` (src/http.cc)                                          → `reusableReply`
* the part of `HttpStateData::haveParsedReplyHeaders` that applies the decision and sets ENTRY_REVALIDATE_* → `applyDecision`, `revalidateFlags`
* `StoreEntry::makePublic / makePrivate / cacheNegatively / releaseRequest / setPrivateKey / setPublicKey` (src/store.cc), flags only

`refreshIsCachable(entry)` is an input here (`Reply.refreshCachable`); `ReusableRefresh.lean` computes it.
-/
import SquidModel.Cache.ReusableCc
import SquidModel.Gen.CollapseFlags

namespace SquidModel.Cache
open SquidModel

/-! ### Request side -/

structure Request where
  method : String                -- registered method name, "OTHER" for anything else
  isHttpScheme : Bool := true    -- url.getScheme() is PROTO_HTTP or PROTO_HTTPS
  cc : Option Cc := none         -- request->cache_control
  hasAuthorization : Bool := false   -- req_hdr->has(Http::HdrType::AUTHORIZATION)
  hasUserInfo : Bool := false        -- !request->url.userInfo().isEmpty()
  connectionAuth : Bool := false     -- pinned connection with pinning.auth: clientCheckPinning / FwdState::usePinned set flags.auth
  authSent : Bool := false           -- flags.authSent (credentials added by Squid for a cache_peer login=)
  ims : Bool := false                -- flags.ims (If-Modified-Since parsed)
  loopDetected : Bool := false
  hostVerified : Bool := true
  intercepted : Bool := false
  ignoreCc : Bool := false           -- flags.ignoreCc (accelerator port option ignore-cc)
  hostForgery : Bool := false        -- hostHeaderVerifyFailed vetoed cachable / cleared hierarchical
  aclNoCache : Bool := false         -- `cache deny` matched (checkNoCacheDone vetoes cachable)
  deriving Repr

def respMaybeCacheable (m : String) : Bool := Gen.Reusable.methodsRespMaybeCacheable.contains m

/-- HttpRequest::maybeCacheable -/
def maybeCacheable (r : Request) : Bool :=
  if !r.hostVerified && r.intercepted then false
  else if r.isHttpScheme then
    if !respMaybeCacheable r.method then false
    else if !r.ignoreCc && (match r.cc with | some cc => cc.noStore | none => false) then false
    else true
  else true

/-- request->flags.auth after clientInterpretRequestHeaders -/
def flagsAuth (r : Request) : Bool := r.hasAuthorization || r.hasUserInfo || r.connectionAuth

/-- clientHierarchical (neighbors_do_private_keys from Gen) -/
def clientHierarchical (r : Request) : Bool :=
  if !r.hostVerified && r.intercepted then false
  else if r.ims && !Gen.Reusable.neighborsDoPrivateKeys then false
  else if flagsAuth r then false
  else if r.method == "TRACE" then true
  else if r.method != "GET" then false
  else if r.loopDetected then false
  else if r.isHttpScheme then respMaybeCacheable r.method
  else true

/-- flags.cachable: maybeCacheable, minus the later vetoes (Host forgery, `cache deny`) -/
def flagsCachable (r : Request) : Bool := maybeCacheable r && !r.hostForgery && !r.aclNoCache

def flagsHierarchical (r : Request) : Bool := clientHierarchical r && !r.hostForgery

/-! ### The store entry, as far as keys and flags go -/

structure Entry where
  keyPrivate : Bool           -- KEY_PRIVATE
  releaseRequest : Bool       -- RELEASE_REQUEST
  shareableWhenPrivate : Bool
  negCached : Bool := false   -- ENTRY_NEGCACHED
  deriving DecidableEq, Repr

/-- an entry can be found by `storeGetPublic*` iff it is in the table under its public key -/
def Entry.isPublic (e : Entry) : Bool := !e.keyPrivate

/-- StoreEntry::setPrivateKey(shareable, permanent) -/
def Entry.setPrivateKey (e : Entry) (shareable permanent : Bool) : Entry :=
  let rr := e.releaseRequest || permanent
  let sw := if shareable then e.shareableWhenPrivate else false
  if e.keyPrivate then { e with releaseRequest := rr, shareableWhenPrivate := sw }
  else { e with releaseRequest := rr, keyPrivate := true, shareableWhenPrivate := shareable }

/-- StoreEntry::setPublicKey: succeeds unless RELEASE_REQUEST is set (`adjustVary` failures are an input: `keyOk`) -/
def Entry.setPublicKey (e : Entry) (keyOk : Bool) : Entry × Bool :=
  if !e.keyPrivate then (e, true)
  else if e.releaseRequest then (e, false)
  else if !keyOk then (e, false)
  else ({ e with keyPrivate := false, shareableWhenPrivate := false }, true)

/-- StoreEntry::releaseRequest -/
def Entry.doReleaseRequest (e : Entry) (shareable : Bool) : Entry :=
  let e1 := if shareable then e else { e with shareableWhenPrivate := false }
  if e1.releaseRequest then e1 else e1.setPrivateKey shareable true

/-- StoreEntry::makePrivate -/
def Entry.makePrivate (e : Entry) (shareable : Bool) : Entry := e.doReleaseRequest shareable

/-- StoreEntry::makePublic -/
def Entry.makePublic (e : Entry) (keyOk : Bool) : Entry × Bool :=
  if e.releaseRequest then (e, false) else e.setPublicKey keyOk

/-- StoreEntry::cacheNegatively -/
def Entry.cacheNegatively (e : Entry) (keyOk : Bool) : Entry × Bool :=
  let r := e.makePublic keyOk
  if r.2 then ({ r.1 with negCached := true }, true) else (r.1, false)

/-- storeCreateEntry(url, logUrl, flags, method): a fresh entry has no key yet; it gets the public key right away only when
    `!neighbors_do_private_keys && flags.hierarchical && flags.cachable`, else a private key that is permanent
    (RELEASE_REQUEST) when the request is not cachable. -/
def createEntry (r : Request) : Entry :=
  if !Gen.Reusable.neighborsDoPrivateKeys && flagsHierarchical r && flagsCachable r then
    { keyPrivate := false, releaseRequest := false, shareableWhenPrivate := false }
  else
    { keyPrivate := true, releaseRequest := !flagsCachable r, shareableWhenPrivate := false }

/-! ### HttpStateData::reusableReply -/

inductive Answer | reuseNot | cachePositively | cacheNegatively | doNotCacheButShare
  deriving DecidableEq, Repr

/-- refresh_pattern options consulted through REFRESH_OVERRIDE (all off unless configured; only with USE_HTTP_VIOLATIONS) -/
structure Overrides where
  ignoreNoStore : Bool := false
  ignorePrivate : Bool := false
  storeStale : Bool := false
  deriving DecidableEq, Repr

structure Config where
  ov : Overrides := {}
  negativeTtl : Int := Gen.Reusable.defaultNegativeTtl
  deriving Repr

/-- REFRESH_OVERRIDE(flag): 0 without USE_HTTP_VIOLATIONS -/
def override (b : Bool) : Bool := Gen.Reusable.useHttpViolations && b

structure Reply where
  status : Nat
  cc : Option Cc                   -- rep->cache_control
  contentType : Option Bytes       -- hdr->getStr(Http::HdrType::CONTENT_TYPE)
  date : Int                       -- rep->date (-1 when absent or unparsable)
  expires : Int                    -- rep->expires
  refreshCachable : Bool           -- refreshIsCachable(entry)
  deriving Repr

/-- state of the HttpStateData job that matters here -/
structure Job where
  sawDateGoBack : Bool := false
  surrogateNoStore : Bool := false
  ignoreCacheControl : Bool := false
  deriving Repr

structure Decision where
  answer : Answer
  reason : String
  deriving DecidableEq, Repr

def statusGroup (status : Nat) : StatusGroup :=
  match Gen.Reusable.statusGroups.find? (fun e => e.1 == status) with
  | some e => e.2
  | none => .unknown

/-- `!strncasecmp(v, "multipart/x-mixed-replace", 25)` -/
def isMixedReplace (v : Bytes) : Bool :=
  eqNoCase (v.take 25) [109,117,108,116,105,112,97,114,116,47,120,45,109,105,120,101,100,45,114,101,112,108,97,99,101]

/-- the final `switch (rep->sline.status())` -/
def statusDecision (cfg : Config) (rep : Reply) : Decision :=
  let neg (a : Answer) (why : String) : Decision :=
    if Gen.Reusable.useHttpViolations && cfg.negativeTtl > 0 then ⟨.cacheNegatively, "Config.negativeTtl > 0"⟩ else ⟨a, why⟩
  match statusGroup rep.status with
  | .refresh =>
    if rep.refreshCachable || override cfg.ov.storeStale then ⟨.cachePositively, "refresh check returned cacheable"⟩
    else ⟨.doNotCacheButShare, "refresh check returned non-cacheable"⟩
  | .expiresDate =>
    if rep.date ≤ 0 then ⟨.doNotCacheButShare, "Date is missing/invalid"⟩
    else if rep.expires > rep.date then ⟨.cachePositively, "Expires > Date"⟩
    else ⟨.doNotCacheButShare, "Expires <= Date"⟩
  | .negShare => neg .doNotCacheButShare "shareable error status code"
  | .negNoShare => neg .reuseNot "non-shareable error status code"
  | .shareOnly => ⟨.doNotCacheButShare, "shareable error status code"⟩
  | .never => ⟨.reuseNot, "non-shareable error status code"⟩
  | .unknown => ⟨.reuseNot, "unknown status code"⟩

/-- the "authenticated" block: `none` = fall through to the following checks -/
def authDecision (job : Job) (req : Request) (rep : Reply) : Option Decision :=
  if flagsAuth req || req.authSent then     -- request->flags.auth || request->flags.authSent
    match rep.cc with
    | none => some ⟨.reuseNot, "authenticated and server reply missing Cache-Control"⟩
    | some cc =>
      if job.ignoreCacheControl then some ⟨.reuseNot, "authenticated and ignoring Cache-Control"⟩
      else
        let mayStore :=
          if cc.pub then true
          else if cc.mustRevalidate then true
          else if Gen.Reusable.useHttpViolations && cc.hasNoCacheWithoutParameters then true
          else if cc.sMaxage.isSome then true
          else false
        if !mayStore then some ⟨.reuseNot, "authenticated transaction"⟩ else none
  else none

/-- the `if (!ignoreCacheControl) { ... }` block: `none` = fall through to the following checks -/
def ccDecision (cfg : Config) (job : Job) (req : Request) (rep : Reply) : Option Decision :=
  if job.ignoreCacheControl then none
  else if (match req.cc with | some c => c.noStore | none => false) && !override cfg.ov.ignoreNoStore then
    some ⟨.reuseNot, "client request Cache-Control:no-store"⟩
  else if (match rep.cc with | some c => c.hasNoCacheWithParameters | none => false) then
    some ⟨.reuseNot, "server reply Cache-Control:no-cache has parameters"⟩
  else if (match rep.cc with | some c => c.noStore | none => false) && !override cfg.ov.ignoreNoStore then
    some ⟨.reuseNot, "server reply Cache-Control:no-store"⟩
  else if (match rep.cc with | some c => c.priv | none => false) && !override cfg.ov.ignorePrivate then
    some ⟨.reuseNot, "server reply Cache-Control:private"⟩
  else none

/-- HttpStateData::reusableReply without the RELEASE_REQUEST answer: what the reply itself allows -/
def replyDecision (cfg : Config) (job : Job) (req : Request) (rep : Reply) : Decision :=
  if job.sawDateGoBack then ⟨.reuseNot, "the response has an older date header"⟩
  else if job.surrogateNoStore then ⟨.reuseNot, "Surrogate-Control:no-store"⟩
  else
    match ccDecision cfg job req rep with
    | some d => d
    | none =>
      match authDecision job req rep with
      | some d => d
      | none =>
        if (match rep.contentType with | some v => isMixedReplace v | none => false) then
          ⟨.reuseNot, "Content-Type:multipart/x-mixed-replace"⟩
        else statusDecision cfg rep

/-- HttpStateData::reusableReply.  The source variant (Gen.CollapseFlags.releasedFirst, read from the staged src/http.cc) says
whether "the entry has been released ⇒ doNotCacheButShare" is answered before the reply is looked at (pinned tree) or only when
the reply's own answer is not `reuseNot` (repaired tree) -/
def reusableReply (cfg : Config) (job : Job) (e : Entry) (req : Request) (rep : Reply) : Decision :=
  if Gen.CollapseFlags.releasedFirst then
    if e.releaseRequest then ⟨.doNotCacheButShare, "the entry has been released"⟩ else replyDecision cfg job req rep
  else
    if e.releaseRequest && (replyDecision cfg job req rep).answer != .reuseNot then ⟨.doNotCacheButShare, "the entry has been released"⟩
    else replyDecision cfg job req rep

/-! ### HttpStateData::haveParsedReplyHeaders: applying the decision -/

/-- the `switch (reusableReply(decision))`; `keyOk` = public key creation succeeds -/
def applyDecision (e : Entry) (a : Answer) (keyOk : Bool) : Entry :=
  match a with
  | .reuseNot => e.makePrivate false
  | .cachePositively =>
    let r := e.makePublic keyOk
    if r.2 then r.1 else r.1.makePrivate true
  | .cacheNegatively =>
    let r := e.cacheNegatively keyOk
    if r.2 then r.1 else r.1.makePrivate true
  | .doNotCacheButShare => e.makePrivate true

inductive Revalidate | none | always | stale
  deriving DecidableEq, Repr

/-- the ENTRY_REVALIDATE_ALWAYS / ENTRY_REVALIDATE_STALE block at the end of haveParsedReplyHeaders
    (`pragmaNoCache` = reply has Pragma: no-cache, consulted only without Cache-Control and with USE_HTTP_VIOLATIONS) -/
def revalidateFlags (job : Job) (rep : Reply) (pragmaNoCache : Bool) : Revalidate :=
  if job.ignoreCacheControl then .none
  else match rep.cc with
    | some cc =>
      if cc.hasNoCacheWithoutParameters || cc.priv then .always
      else if cc.proxyRevalidate || cc.mustRevalidate || cc.sMaxage.isSome then .stale
      else .none
    | none => if Gen.Reusable.useHttpViolations && pragmaNoCache then .always else .none

/-- The whole store decision for a response to `req` on a fresh entry (no Vary failure): the entry afterwards. -/
def storeDecision (cfg : Config) (job : Job) (req : Request) (rep : Reply) (keyOk : Bool) : Entry :=
  let e := createEntry req
  applyDecision e (reusableReply cfg job e req rep).answer keyOk

end SquidModel.Cache
