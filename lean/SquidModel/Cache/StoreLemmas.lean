/-
The invariant of the store model (SquidModel/Cache/Store.lean) and what it gives the readers.
-/
import SquidModel.Cache.Store

namespace SquidModel.Cache.Store

structure Inv (g : Geometry) (s : State) : Prop where
  entLt : ∀ e ent, s.entries e = some ent → e < s.nextE
  /-- every slot of a live entry's chain holds that entry's chunk with that index -/
  slotOwn : ∀ e ent, s.entries e = some ent → ∀ i (h : i < ent.chain.length), s.slots (ent.chain[i]) = some (e, i)
  chainLe : ∀ e ent, s.entries e = some ent → ent.chain.length ≤ g.nchunks ent.key ent.ver
  compl : ∀ e ent, s.entries e = some ent → ent.complete = true →
    ent.chain.length = g.nchunks ent.key ent.ver ∧ ent.aborted = false ∧ ent.writing = false
  abortedIdle : ∀ e ent, s.entries e = some ent → ent.aborted = true → ent.writing = false
  rdLt : ∀ r rd, s.readers r = some rd → r < s.nextR
  /-- an attached reader's entry is alive (the lock), is the response the reader attached to, and lists the reader -/
  rdAtt : ∀ r rd, s.readers r = some rd → rd.attached = true →
    ∃ ent, s.entries rd.eid = some ent ∧ r ∈ ent.readers ∧ ent.key = rd.key ∧ ent.ver = rd.ver ∧ rd.idx ≤ ent.chain.length ∧
      (rd.done = some true → ent.complete = true)
  rdGot : ∀ r rd, s.readers r = some rd →
    rd.got = (List.range rd.idx).map (fun i => (rd.eid, i)) ∧ rd.idx ≤ g.nchunks rd.key rd.ver
  rdDone : ∀ r rd, s.readers r = some rd → rd.done = some true → rd.idx = g.nchunks rd.key rd.ver

theorem inv_init (g : Geometry) : Inv g State.init := by
  constructor <;> intros <;> simp_all [State.init]

/-- replace the record of entry `e` by one with the same response and chain that still lists the attached readers -/
theorem inv_updEntry {g : Geometry} {s : State} (h : Inv g s) {e : Nat} {ent ent' : Entry} (he : s.entries e = some ent)
    (hk : ent'.key = ent.key) (hv : ent'.ver = ent.ver) (hc : ent'.chain = ent.chain)
    (hr : ∀ r rd, s.readers r = some rd → rd.attached = true → rd.eid = e → r ∈ ent'.readers)
    (hcomp : ent'.complete = true → ent'.chain.length = g.nchunks ent'.key ent'.ver ∧ ent'.aborted = false ∧ ent'.writing = false)
    (hab : ent'.aborted = true → ent'.writing = false) (hcm : ent.complete = true → ent'.complete = true) :
    Inv g { s with entries := fun x => if x = e then some ent' else s.entries x } := by
  constructor
  · intro x entx hx
    by_cases hxe : x = e
    · subst hxe; exact h.entLt _ _ he
    · simp [hxe] at hx; exact h.entLt _ _ hx
  · intro x entx hx i hi
    by_cases hxe : x = e
    · subst hxe
      simp at hx; subst hx
      have := h.slotOwn _ _ he i (by rw [hc] at hi; exact hi)
      simpa [hc] using this
    · simp [hxe] at hx; exact h.slotOwn _ _ hx i hi
  · intro x entx hx
    by_cases hxe : x = e
    · subst hxe; simp at hx; subst hx
      rw [hc, hk, hv]; exact h.chainLe _ _ he
    · simp [hxe] at hx; exact h.chainLe _ _ hx
  · intro x entx hx hcx
    by_cases hxe : x = e
    · subst hxe; simp at hx; subst hx; exact hcomp hcx
    · simp [hxe] at hx; exact h.compl _ _ hx hcx
  · intro x entx hx hax
    by_cases hxe : x = e
    · subst hxe; simp at hx; subst hx; exact hab hax
    · simp [hxe] at hx; exact h.abortedIdle _ _ hx hax
  · exact h.rdLt
  · intro r rd hrd hat
    obtain ⟨entr, h1, h2, h3, h4, h5⟩ := h.rdAtt r rd hrd hat
    by_cases hxe : rd.eid = e
    · refine ⟨ent', by simp [hxe], hr r rd hrd hat hxe, ?_, ?_, ?_⟩
      · rw [hxe, he] at h1; injection h1 with h1; subst h1; rw [hk]; exact h3
      · rw [hxe, he] at h1; injection h1 with h1; subst h1; rw [hv]; exact h4
      · rw [hxe, he] at h1; injection h1 with h1; subst h1; rw [hc]; exact ⟨h5.1, fun hd => hcm (h5.2 hd)⟩
    · exact ⟨entr, by simp [hxe, h1], h2, h3, h4, h5⟩
  · exact h.rdGot
  · exact h.rdDone

/-- freeing an entry nobody holds -/
theorem inv_freeEntry {g : Geometry} {s : State} (h : Inv g s) {e : Nat} {ent : Entry} (he : s.entries e = some ent)
    (hidle : ent.readers = []) : Inv g (freeEntry s e ent) := by
  constructor
  · intro x entx hx
    by_cases hxe : x = e
    · simp [freeEntry, hxe] at hx
    · simp [freeEntry, hxe] at hx; exact h.entLt _ _ hx
  · intro x entx hx i hi
    by_cases hxe : x = e
    · simp [freeEntry, hxe] at hx
    · simp [freeEntry, hxe] at hx
      have own := h.slotOwn _ _ hx i hi
      have hnot : entx.chain[i] ∉ ent.chain := by
        intro hmem
        obtain ⟨j, hj, hjeq⟩ := List.getElem_of_mem hmem
        have own2 := h.slotOwn _ _ he j hj
        rw [hjeq, own] at own2
        injection own2 with own2
        injection own2 with a b
        exact hxe a
      simp [freeEntry, hnot, own]
  · intro x entx hx
    by_cases hxe : x = e
    · simp [freeEntry, hxe] at hx
    · simp [freeEntry, hxe] at hx; exact h.chainLe _ _ hx
  · intro x entx hx hcx
    by_cases hxe : x = e
    · simp [freeEntry, hxe] at hx
    · simp [freeEntry, hxe] at hx; exact h.compl _ _ hx hcx
  · intro x entx hx hax
    by_cases hxe : x = e
    · simp [freeEntry, hxe] at hx
    · simp [freeEntry, hxe] at hx; exact h.abortedIdle _ _ hx hax
  · exact h.rdLt
  · intro r rd hrd hat
    obtain ⟨entr, h1, h2, h3, h4, h5⟩ := h.rdAtt r rd hrd hat
    have hne : rd.eid ≠ e := by
      intro heq
      rw [heq, he] at h1; injection h1 with h1; subst h1
      rw [hidle] at h2; exact absurd h2 List.not_mem_nil
    exact ⟨entr, by simp [freeEntry, hne, h1], h2, h3, h4, h5⟩
  · exact h.rdGot
  · exact h.rdDone

theorem inv_tryFree {g : Geometry} {s : State} (h : Inv g s) (e : Nat) : Inv g (tryFree s e) := by
  unfold tryFree
  split
  · exact h
  · rename_i ent he
    split
    · rename_i hc; exact inv_freeEntry h he hc.2.1
    · exact h

/-- changes of the public index alone do not matter to the invariant -/
theorem inv_setPub {g : Geometry} {s : State} (h : Inv g s) (p : Key → Option Nat) : Inv g { s with pub := p } :=
  ⟨h.entLt, h.slotOwn, h.chainLe, h.compl, h.abortedIdle, h.rdLt, h.rdAtt, h.rdGot, h.rdDone⟩

theorem inv_unpublish {g : Geometry} {s : State} (h : Inv g s) (e : Nat) : Inv g (unpublish s e) := by
  unfold unpublish
  split
  · exact h
  · rename_i ent he
    apply inv_tryFree
    have h1 := inv_updEntry (ent' := { ent with isPublic := false }) h he rfl rfl rfl
      (by intro r rd hrd hat heq
          obtain ⟨entr, a, b, _⟩ := h.rdAtt r rd hrd hat
          rw [heq, he] at a; injection a with a; subst a; exact b)
      (by intro hc; exact h.compl _ ent he hc)
      (by intro ha; exact h.abortedIdle _ ent he ha) (fun hc => hc)
    exact inv_setPub h1 _

theorem inv_replaceOld {g : Geometry} {s : State} (h : Inv g s) (k : Key) : Inv g (replaceOld s k) := by
  unfold replaceOld
  split
  · exact inv_unpublish h _
  · exact h

theorem inv_addEntry {g : Geometry} {s1 : State} (h1 : Inv g s1) (k : Key) (v : Ver) : Inv g (addEntry s1 k v) := by
  unfold addEntry
  constructor
  · intro x entx hx
    by_cases hxe : x = s1.nextE
    · subst hxe; simp
    · simp [hxe] at hx; have := h1.entLt _ _ hx; simp; omega
  · intro x entx hx i hi
    by_cases hxe : x = s1.nextE
    · simp [hxe] at hx; subst hx; simp at hi
    · simp [hxe] at hx; exact h1.slotOwn _ _ hx i hi
  · intro x entx hx
    by_cases hxe : x = s1.nextE
    · simp [hxe] at hx; subst hx; simp
    · simp [hxe] at hx; exact h1.chainLe _ _ hx
  · intro x entx hx hcx
    by_cases hxe : x = s1.nextE
    · simp [hxe] at hx; subst hx; simp at hcx
    · simp [hxe] at hx; exact h1.compl _ _ hx hcx
  · intro x entx hx hax
    by_cases hxe : x = s1.nextE
    · simp [hxe] at hx; subst hx; simp at hax
    · simp [hxe] at hx; exact h1.abortedIdle _ _ hx hax
  · exact h1.rdLt
  · intro r rd hrd hat
    obtain ⟨entr, a, b, c, d, e⟩ := h1.rdAtt r rd hrd hat
    have hne : rd.eid ≠ s1.nextE := by
      have := h1.entLt _ _ a; omega
    exact ⟨entr, by simp [hne, a], b, c, d, e⟩
  · exact h1.rdGot
  · exact h1.rdDone

theorem step_inv (g : Geometry) {s : State} (h : Inv g s) (a : Action) : Inv g (step g s a) := by
  cases a with
  | beginWrite k v =>
    simp only [step]
    exact inv_addEntry (inv_replaceOld h k) k v
  | append e slot =>
    simp only [step]
    split
    · exact h
    · rename_i ent he
      split
      · rename_i hc
        obtain ⟨hw, hlt, hfree⟩ := hc
        constructor
        · intro x entx hx
          by_cases hxe : x = e
          · subst hxe; exact h.entLt _ _ he
          · simp [hxe] at hx; exact h.entLt _ _ hx
        · intro x entx hx i hi
          by_cases hxe : x = e
          · subst hxe
            simp at hx; subst hx
            simp only [List.length_append, List.length_singleton] at hi
            by_cases hil : i < ent.chain.length
            · have own := h.slotOwn _ _ he i hil
              have hne : ent.chain[i] ≠ slot := by
                intro heq; rw [heq, hfree] at own; cases own
              simp [List.getElem_append_left hil, hne, own]
            · have hieq : i = ent.chain.length := by omega
              subst hieq
              simp
          · simp [hxe] at hx
            have own := h.slotOwn _ _ hx i hi
            have hne : entx.chain[i] ≠ slot := by
              intro heq; rw [heq, hfree] at own; cases own
            simp [hne, own]
        · intro x entx hx
          by_cases hxe : x = e
          · subst hxe; simp at hx; subst hx; simp; omega
          · simp [hxe] at hx; exact h.chainLe _ _ hx
        · intro x entx hx hcx
          by_cases hxe : x = e
          · subst hxe; simp at hx; subst hx
            have := (h.compl _ ent he hcx).2.2
            rw [this] at hw; cases hw
          · simp [hxe] at hx; exact h.compl _ _ hx hcx
        · intro x entx hx hax
          by_cases hxe : x = e
          · subst hxe; simp at hx; subst hx; exact h.abortedIdle _ ent he hax
          · simp [hxe] at hx; exact h.abortedIdle _ _ hx hax
        · exact h.rdLt
        · intro r rd hrd hat
          obtain ⟨entr, a, b, c, d, e5⟩ := h.rdAtt r rd hrd hat
          by_cases hxe : rd.eid = e
          · rw [hxe, he] at a; injection a with a; subst a
            exact ⟨{ ent with chain := ent.chain ++ [slot] }, by simp [hxe], b, c, d, by simp; omega, e5.2⟩
          · exact ⟨entr, by simp [hxe, a], b, c, d, e5⟩
        · exact h.rdGot
        · exact h.rdDone
      · exact h
  | finish e =>
    simp only [step]
    split
    · exact h
    · rename_i ent he
      split
      · rename_i hc
        apply inv_tryFree
        exact inv_updEntry (ent' := { ent with complete := true, writing := false }) h he rfl rfl rfl
          (by intro r rd hrd hat heq
              obtain ⟨entr, a, b, _⟩ := h.rdAtt r rd hrd hat
              rw [heq, he] at a; injection a with a; subst a; exact b)
          (by intro _
              refine ⟨hc.2, ?_, rfl⟩
              cases hab : ent.aborted with
              | false => rfl
              | true => have := h.abortedIdle _ ent he hab; rw [this] at hc; exact absurd hc.1 (by decide))
          (by intro _; rfl) (fun _ => rfl)
      · exact h
  | abort e =>
    simp only [step]
    split
    · exact h
    · rename_i ent he
      split
      · rename_i hw
        apply inv_unpublish
        exact inv_updEntry (ent' := { ent with aborted := true, writing := false }) h he rfl rfl rfl
          (by intro r rd hrd hat heq
              obtain ⟨entr, a, b, _⟩ := h.rdAtt r rd hrd hat
              rw [heq, he] at a; injection a with a; subst a; exact b)
          (by intro hcx
              have := (h.compl _ ent he hcx).2.2
              rw [this] at hw; cases hw)
          (by intro _; rfl) (fun hc => hc)
      · exact h
  | openRead k =>
    simp only [step]
    split
    · exact h
    · rename_i e hp
      split
      · exact h
      · rename_i ent he
        -- first the entry lists the new reader, then the reader record appears
        have h1 := inv_updEntry (ent' := { ent with readers := s.nextR :: ent.readers }) h he rfl rfl rfl
          (by intro r rd hrd hat heq
              obtain ⟨entr, a, b, _⟩ := h.rdAtt r rd hrd hat
              rw [heq, he] at a; injection a with a; subst a; exact List.mem_cons_of_mem _ b)
          (by intro hc; exact h.compl _ ent he hc)
          (by intro ha; exact h.abortedIdle _ ent he ha) (fun hc => hc)
        constructor
        · exact h1.entLt
        · exact h1.slotOwn
        · exact h1.chainLe
        · exact h1.compl
        · exact h1.abortedIdle
        · intro r rd hrd
          by_cases hr : r = s.nextR
          · subst hr; simp
          · simp [hr] at hrd; have := h.rdLt _ _ hrd; simp; omega
        · intro r rd hrd hat
          by_cases hr : r = s.nextR
          · subst hr
            simp at hrd; subst hrd
            exact ⟨{ ent with readers := s.nextR :: ent.readers }, by simp, by simp, rfl, rfl, by simp, by simp⟩
          · simp [hr] at hrd
            exact h1.rdAtt r rd hrd hat
        · intro r rd hrd
          by_cases hr : r = s.nextR
          · subst hr; simp at hrd; subst hrd; simp
          · simp [hr] at hrd; exact h.rdGot r rd hrd
        · intro r rd hrd hd
          by_cases hr : r = s.nextR
          · subst hr; simp at hrd; subst hrd; simp at hd
          · simp [hr] at hrd; exact h.rdDone r rd hrd hd
  | read r =>
    simp only [step]
    split
    · exact h
    · rename_i rd hrd
      split
      · rename_i hc
        obtain ⟨hat, hdn⟩ := hc
        obtain ⟨ent, a, b, c, d, e5⟩ := h.rdAtt r rd hrd hat
        rw [a]
        simp only
        split
        · rename_i slot hsl
          -- the next slot of the chain
          have hlt : rd.idx < ent.chain.length := by
            rcases List.getElem?_eq_some_iff.mp hsl with ⟨hl, _⟩; exact hl
          have hslot : ent.chain[rd.idx] = slot := by
            rcases List.getElem?_eq_some_iff.mp hsl with ⟨_, hq⟩; exact hq
          have own := h.slotOwn _ _ a rd.idx hlt
          rw [hslot] at own
          rw [own]
          simp only
          constructor
          · exact h.entLt
          · exact h.slotOwn
          · exact h.chainLe
          · exact h.compl
          · exact h.abortedIdle
          · intro x rdx hx
            by_cases hxr : x = r
            · subst hxr; exact h.rdLt _ _ hrd
            · simp [hxr] at hx; exact h.rdLt _ _ hx
          · intro x rdx hx hax
            by_cases hxr : x = r
            · subst hxr; simp at hx; subst hx
              exact ⟨ent, a, b, c, d, by simp; omega, by simp [hdn]⟩
            · simp [hxr] at hx; exact h.rdAtt x rdx hx hax
          · intro x rdx hx
            by_cases hxr : x = r
            · subst hxr; simp at hx; subst hx
              have hle := h.chainLe _ _ a
              rw [c, d] at hle
              refine ⟨by simp [List.range_succ, (h.rdGot _ _ hrd).1], ?_⟩
              simp only; omega
            · simp [hxr] at hx; exact h.rdGot x rdx hx
          · intro x rdx hx hd
            by_cases hxr : x = r
            · subst hxr; simp at hx; subst hx; simp at hd; rw [hdn] at hd; cases hd
            · simp [hxr] at hx; exact h.rdDone x rdx hx hd
        · rename_i hsl
          have hge : ent.chain.length ≤ rd.idx := by
            rcases Nat.lt_or_ge rd.idx ent.chain.length with hl | hl
            · rw [List.getElem?_eq_getElem hl] at hsl; cases hsl
            · exact hl
          have hidx : rd.idx = ent.chain.length := by omega
          split
          · rename_i hcomp
            -- the entry is complete: the reader is told so
            have hfull := (h.compl _ _ a hcomp).1
            constructor
            · exact h.entLt
            · exact h.slotOwn
            · exact h.chainLe
            · exact h.compl
            · exact h.abortedIdle
            · intro x rdx hx
              by_cases hxr : x = r
              · subst hxr; exact h.rdLt _ _ hrd
              · simp [hxr] at hx; exact h.rdLt _ _ hx
            · intro x rdx hx hax
              by_cases hxr : x = r
              · subst hxr; simp at hx; subst hx; exact ⟨ent, a, b, c, d, e5.1, fun _ => hcomp⟩
              · simp [hxr] at hx; exact h.rdAtt x rdx hx hax
            · intro x rdx hx
              by_cases hxr : x = r
              · subst hxr; simp at hx; subst hx; exact h.rdGot _ rd hrd
              · simp [hxr] at hx; exact h.rdGot x rdx hx
            · intro x rdx hx hd
              by_cases hxr : x = r
              · subst hxr; simp at hx; subst hx
                simp only
                rw [hidx, hfull, c, d]
              · simp [hxr] at hx; exact h.rdDone x rdx hx hd
          · split
            · constructor
              · exact h.entLt
              · exact h.slotOwn
              · exact h.chainLe
              · exact h.compl
              · exact h.abortedIdle
              · intro x rdx hx
                by_cases hxr : x = r
                · subst hxr; exact h.rdLt _ _ hrd
                · simp [hxr] at hx; exact h.rdLt _ _ hx
              · intro x rdx hx hax
                by_cases hxr : x = r
                · subst hxr; simp at hx; subst hx; exact ⟨ent, a, b, c, d, e5.1, by simp⟩
                · simp [hxr] at hx; exact h.rdAtt x rdx hx hax
              · intro x rdx hx
                by_cases hxr : x = r
                · subst hxr; simp at hx; subst hx; exact h.rdGot _ rd hrd
                · simp [hxr] at hx; exact h.rdGot x rdx hx
              · intro x rdx hx hd
                by_cases hxr : x = r
                · subst hxr; simp at hx; subst hx; simp at hd
                · simp [hxr] at hx; exact h.rdDone x rdx hx hd
            · exact h
      · exact h
  | closeRead r =>
    simp only [step]
    split
    · exact h
    · rename_i rd hrd
      split
      · rename_i hat
        -- detach the reader record
        have hdet : Inv g { s with readers := fun x => if x = r then some { rd with attached := false, done := if rd.done = none then some false else rd.done } else s.readers x } := by
          constructor
          · exact h.entLt
          · exact h.slotOwn
          · exact h.chainLe
          · exact h.compl
          · exact h.abortedIdle
          · intro x rdx hx
            by_cases hxr : x = r
            · subst hxr; exact h.rdLt _ _ hrd
            · simp [hxr] at hx; exact h.rdLt _ _ hx
          · intro x rdx hx hax
            by_cases hxr : x = r
            · subst hxr; simp at hx; subst hx; simp at hax
            · simp [hxr] at hx; exact h.rdAtt x rdx hx hax
          · intro x rdx hx
            by_cases hxr : x = r
            · subst hxr; simp at hx; subst hx; exact h.rdGot _ rd hrd
            · simp [hxr] at hx; exact h.rdGot x rdx hx
          · intro x rdx hx hd
            by_cases hxr : x = r
            · subst hxr; simp at hx; subst hx
              simp only at hd
              split at hd
              · cases hd
              · exact h.rdDone _ rd hrd hd
            · simp [hxr] at hx; exact h.rdDone x rdx hx hd
        split
        · exact hdet
        · rename_i ent he
          apply inv_tryFree
          have he' : s.entries rd.eid = some ent := he
          refine inv_updEntry (ent' := { ent with readers := ent.readers.filter (· ≠ r) }) hdet he rfl rfl rfl ?_ ?_ ?_ ?_
          · intro x rdx hx hax heq
            by_cases hxr : x = r
            · subst hxr; simp at hx; subst hx; simp at hax
            · simp [hxr] at hx
              obtain ⟨entr, a, b, _⟩ := h.rdAtt x rdx hx hax
              rw [heq, he'] at a; injection a with a; subst a
              simp [List.mem_filter, b, hxr]
          · intro hc; exact h.compl _ ent he' hc
          · intro ha; exact h.abortedIdle _ ent he' ha
          · exact fun hc => hc
      · exact h
  | evict e =>
    simp only [step]
    split
    · exact h
    · rename_i ent he
      split
      · rename_i hc; exact inv_freeEntry h he hc.1
      · exact h
  | purge k =>
    simp only [step]
    split
    · exact inv_unpublish h _
    · exact h

theorem run_inv (g : Geometry) (as : List Action) {s : State} (h : Inv g s) : Inv g (run g s as) := by
  induction as generalizing s with
  | nil => exact h
  | cons a rest ih => exact ih (step_inv g h a)

/-! ### bytes -/

/-- the bytes of chunk `i` of response `ver` for `key`: what the writer puts into the slot it fills with (entry, i) -/
abbrev Chunking := Key → Ver → Nat → List UInt8

/-- the whole response as the origin sent it: its chunks in order -/
def content (g : Geometry) (c : Chunking) (k : Key) (v : Ver) : List UInt8 :=
  ((List.range (g.nchunks k v)).map (c k v)).flatten

/-- the bytes a reader has been given: the contents of the slots it copied, in the order it copied them -/
def delivered (c : Chunking) (rd : Reader) : List UInt8 :=
  (rd.got.map fun p => c rd.key rd.ver p.2).flatten

theorem delivered_eq {g : Geometry} {s : State} (h : Inv g s) (c : Chunking) {r : Nat} {rd : Reader} (hrd : s.readers r = some rd) :
    delivered c rd = ((List.range rd.idx).map (c rd.key rd.ver)).flatten := by
  unfold delivered
  rw [(h.rdGot r rd hrd).1, List.map_map]
  rfl

theorem range_split (n m : Nat) (h : n ≤ m) : List.range m = List.range n ++ (List.range (m - n)).map (· + n) := by
  induction m with
  | zero => have : n = 0 := by omega
            subst this; simp
  | succ m ih =>
    rcases Nat.lt_or_ge n (m + 1) with hl | hl
    · have hle : n ≤ m := by omega
      have e : m + 1 - n = (m - n) + 1 := by omega
      rw [List.range_succ, ih hle, e, List.range_succ, List.map_append, List.append_assoc]
      simp; omega
    · have : n = m + 1 := by omega
      subst this; simp

end SquidModel.Cache.Store
