/-
Cache-Control parsing as done by the code HttpStateData::reusableReply reads its inputs from:

* `strListGetItem` (src/StrList.cc) with delimiter ','                          → `scanItem`, `getItem`, `items`
* `HttpHeader::getList` / `strListAdd` (src/HttpHeader.cc, src/StrList.cc)      → `joinList`
* `httpHeaderParseQuotedString` (src/HttpHeader.cc)                             → `parseQuoted`
* `httpHeaderParseInt` (src/HttpHeaderTools.cc): range-checked `strtol` (or the older `atoi`) + digit test → `parseIntC`
* `HttpHdrCc::parse` (src/HttpHdrCc.cc), name lookup through the generated `ccAttrs` → `Cc.step`, `parseCc`
* `HttpHeader::getCc` (src/HttpHeader.cc)                                       → `getCc`

Strings are C strings: the model is applied to byte lists without NUL (the driver cuts at the first NUL).
Not modelled: CR LF folding inside a quoted-string (the message parser never lets CR/LF into a field value); such bytes
make `parseQuoted` fail here.
-/
import SquidModel.Base.Bytes
import SquidModel.Gen.Reusable

namespace SquidModel.Cache
open SquidModel

/-! ### C-locale character classes -/

/-- `xisspace` in the C locale -/
def isSpaceC (c : UInt8) : Bool := c == 32 || (9 ≤ c && c ≤ 13)
def isDigitC (c : UInt8) : Bool := 48 ≤ c && c ≤ 57
/-- `xtolower` in the C locale -/
def lowerC (c : UInt8) : UInt8 := if 65 ≤ c && c ≤ 90 then c + 32 else c
/-- `SBuf::caseCmp(...) == 0` -/
def eqNoCase (a b : Bytes) : Bool := a.map lowerC == b.map lowerC

/-! ### strListGetItem(str, ',', ...) -/

/-- quoting state of the scanning loop of `strListGetItem` (`quoted`, plus "the previous byte was a backslash inside quotes") -/
inductive QState | plain | quoted | escaped
  deriving DecidableEq, Repr

/-- The `do { *pos += strcspn(*pos, delim[quoted]); ... } while (**pos)` loop: returns the raw item (up to, not including,
    the delimiter) and the rest of the string starting at the delimiter. -/
def scanItem : QState → Bytes → Bytes × Bytes
  | _, [] => ([], [])
  | .plain, c :: cs =>
    if c == 34 then let r := scanItem .quoted cs; (c :: r.1, r.2)
    else if c == 44 then ([], c :: cs)
    else let r := scanItem .plain cs; (c :: r.1, r.2)
  | .quoted, c :: cs =>
    if c == 34 then let r := scanItem .plain cs; (c :: r.1, r.2)
    else if c == 92 then let r := scanItem .escaped cs; (c :: r.1, r.2)
    else let r := scanItem .quoted cs; (c :: r.1, r.2)
  | .escaped, c :: cs => let r := scanItem .quoted cs; (c :: r.1, r.2)

/-- delim[2] with del = ',' : bytes skipped before an item (generated from the source) -/
def isListDelim (c : UInt8) : Bool := Gen.Reusable.listSkipBytes.contains c

def rtrim (b : Bytes) : Bytes := (b.reverse.dropWhile isSpaceC).reverse

/-- one call of `strListGetItem`: `none` when it returns 0 (empty item), else the trimmed item and the new `*pos` -/
def getItem (s : Bytes) : Option (Bytes × Bytes) :=
  let r := scanItem .plain (s.dropWhile isListDelim)
  let item := rtrim r.1
  if item.isEmpty then none else some (item, r.2)

theorem scanItem_rest_le (q : QState) (s : Bytes) : (scanItem q s).2.length ≤ s.length := by
  induction s generalizing q with
  | nil => cases q <;> simp [scanItem]
  | cons c cs ih =>
    cases q
    · simp only [scanItem]
      split
      · have := ih .quoted; simp only [List.length_cons]; omega
      · split
        · simp
        · have := ih .plain; simp only [List.length_cons]; omega
    · simp only [scanItem]
      split
      · have := ih .plain; simp only [List.length_cons]; omega
      · split
        · have := ih .escaped; simp only [List.length_cons]; omega
        · have := ih .quoted; simp only [List.length_cons]; omega
    · simp only [scanItem]
      have := ih .quoted; simp only [List.length_cons]; omega

/-- `while (strListGetItem(...))` : all items, in order (fuel = length + 1 is always enough, see `items`). -/
def itemsFuel : Nat → Bytes → List Bytes
  | 0, _ => []
  | n + 1, s =>
    match getItem s with
    | none => []
    | some (item, rest) => item :: itemsFuel n rest

def items (s : Bytes) : List Bytes := itemsFuel (s.length + 1) s

/-! ### getList: the values of all fields of one name joined by ", " -/

def joinList (vals : List Bytes) : Bytes :=
  vals.foldl (fun acc v => if acc.isEmpty then v else acc ++ [44, 32] ++ v) []

/-! ### httpHeaderParseQuotedString -/

/-- after the opening quote. A backslash is skipped (the byte after it is then treated like any other byte, so an escaped
    quote ends the string); CTL and DEL fail; running out of the item fails because the byte that follows an item is never '"'. -/
def pqBody : Bytes → Bytes → Option Bytes
  | _, [] => none
  | acc, c :: cs =>
    if c == 34 then some acc.reverse
    else if c == 92 then pqBody acc cs
    else if c ≤ 31 || c == 127 then none
    else pqBody (c :: acc) cs

def parseQuoted : Bytes → Option Bytes
  | 34 :: cs => pqBody [] cs
  | _ => none

/-! ### httpHeaderParseInt (atoi, i.e. (int)strtol(s, nullptr, 10), then "0 needs a leading digit") -/

def digitsVal (d : Bytes) : Nat := d.foldl (fun n c => n * 10 + (c.toNat - 48)) 0

/-- two's-complement truncation of a `long` to `int` -/
def wrap32 (x : Int) : Int :=
  let m := x % 4294967296
  if m ≥ 2147483648 then m - 4294967296 else m

def atoiC (v : Bytes) : Int :=
  let s := v.dropWhile isSpaceC
  let sd : Bool × Bytes := match s with
    | 45 :: r => (true, r)
    | 43 :: r => (false, r)
    | _ => (false, s)
  let n : Int := (digitsVal (sd.2.takeWhile isDigitC) : Nat)
  let clamped : Int := if sd.1 then (if n > 9223372036854775808 then -9223372036854775808 else -n)
                       else (if n > 9223372036854775807 then 9223372036854775807 else n)
  wrap32 clamped

/-- the current form: `strtol`, failing when no digit was consumed, on ERANGE and outside [INT_MIN, INT_MAX] -/
def strtolInt (v : Bytes) : Option Int :=
  let s := v.dropWhile isSpaceC
  let sd : Bool × Bytes := match s with
    | 45 :: r => (true, r)
    | 43 :: r => (false, r)
    | _ => (false, s)
  let ds := sd.2.takeWhile isDigitC
  if ds.isEmpty then none
  else
    let n : Int := (digitsVal ds : Nat)
    let x : Int := if sd.1 then -n else n
    if x < -2147483648 || x > 2147483647 then none else some x

/-- httpHeaderParseInt: which of the two forms the staged source has is a generated flag -/
def parseIntC (v : Bytes) : Option Int :=
  let r : Option Int := if Gen.Reusable.parseIntStrict then strtolInt v else some (atoiC v)
  match r with
  | none => none
  | some x => if x == 0 && !(match v with | c :: _ => isDigitC c | [] => false) then none else some x

/-! ### HttpHdrCc -/

/-- The parsed header: one field per mask bit; the numeric directives carry their value when the bit is set. -/
structure Cc where
  pub : Bool := false
  priv : Bool := false
  noCache : Bool := false
  noStore : Bool := false
  noTransform : Bool := false
  mustRevalidate : Bool := false
  proxyRevalidate : Bool := false
  onlyIfCached : Bool := false
  immutable : Bool := false
  maxAge : Option Int := none
  sMaxage : Option Int := none
  maxStale : Option Int := none
  minFresh : Option Int := none
  staleIfError : Option Int := none
  privArgs : Bytes := []
  noCacheArgs : Bytes := []
  deriving DecidableEq, Repr

def MAX_STALE_ANY : Int := 2147483647

def ccTypeByName (name : Bytes) : CcType :=
  match Gen.Reusable.ccAttrs.find? (fun e => eqNoCase e.1 name) with
  | some e => e.2
  | none => .other

def Cc.isSet (cc : Cc) : CcType → Bool
  | .pub => cc.pub | .priv => cc.priv | .noCache => cc.noCache | .noStore => cc.noStore
  | .noTransform => cc.noTransform | .mustRevalidate => cc.mustRevalidate | .proxyRevalidate => cc.proxyRevalidate
  | .maxAge => cc.maxAge.isSome | .sMaxage => cc.sMaxage.isSome | .maxStale => cc.maxStale.isSome
  | .minFresh => cc.minFresh.isSome | .onlyIfCached => cc.onlyIfCached | .staleIfError => cc.staleIfError.isSome
  | .immutable => cc.immutable | .other => false

/-- `mask != 0` -/
def Cc.any (cc : Cc) : Bool :=
  cc.pub || cc.priv || cc.noCache || cc.noStore || cc.noTransform || cc.mustRevalidate || cc.proxyRevalidate ||
  cc.onlyIfCached || cc.immutable || cc.maxAge.isSome || cc.sMaxage.isSome || cc.maxStale.isSome || cc.minFresh.isSome ||
  cc.staleIfError.isSome

/-- split an item at its first '=' : (name, `p`) with `p = none` when there is no '=' -/
def splitEq : Bytes → Bytes × Option Bytes
  | [] => ([], none)
  | c :: cs => if c == 61 then ([], some cs) else let r := splitEq cs; (c :: r.1, r.2)

/-- numeric directive: `!p || !httpHeaderParseInt(p, &v) || v < 0` clears, otherwise sets -/
def numericValue (p : Option Bytes) : Option Int :=
  match p with
  | none => none
  | some v => match parseIntC v with
    | none => none
    | some x => if x < 0 then none else some x

/-- the body of the `while (strListGetItem(...))` loop of `HttpHdrCc::parse` for one item -/
def Cc.step (cc : Cc) (item : Bytes) : Cc :=
  let np := splitEq item
  let ty := ccTypeByName np.1
  if cc.isSet ty then cc      -- "ignoring duplicate cache-directive" (CC_OTHER is never set)
  else match ty with
  | .maxAge => { cc with maxAge := numericValue np.2 }
  | .sMaxage => { cc with sMaxage := numericValue np.2 }
  | .maxStale => { cc with maxStale := some ((numericValue np.2).getD MAX_STALE_ANY) }
  | .minFresh => { cc with minFresh := numericValue np.2 }
  | .staleIfError => { cc with staleIfError := numericValue np.2 }
  | .priv =>
    match np.2 with
    | none => { cc with priv := true, privArgs := [] }
    | some v => match parseQuoted v with
      | some t => { cc with priv := true, privArgs := cc.privArgs ++ t }
      | none => { cc with priv := true }     -- "always remember the 'private' part"
  | .noCache =>
    match np.2 with
    | none => { cc with noCache := true, noCacheArgs := [] }
    | some v => match parseQuoted v with
      | some t => { cc with noCache := true, noCacheArgs := cc.noCacheArgs ++ t }
      | none => cc                           -- invalid no-cache= : directive ignored
  | .pub => { cc with pub := true }
  | .noStore => { cc with noStore := true }
  | .noTransform => { cc with noTransform := true }
  | .mustRevalidate => { cc with mustRevalidate := true }
  | .proxyRevalidate => { cc with proxyRevalidate := true }
  | .onlyIfCached => { cc with onlyIfCached := true }
  | .immutable => { cc with immutable := true }
  | .other => cc

def parseItems (its : List Bytes) : Cc := its.foldl Cc.step {}

/-- `HttpHdrCc::parse` on the joined header; `none` when it returns false (no known directive) -/
def parseCc (s : Bytes) : Option Cc :=
  let cc := parseItems (items s)
  if cc.any then some cc else none

/-- `getCc` in the form that joins the field lines first (`getList` + one `parse`) -/
def getCcJoined (vals : List Bytes) : Option Cc :=
  if vals.isEmpty then none else parseCc (joinList vals)

/-- `getCc` in the form that feeds every field line to `parse` on the same object -/
def getCcPerLine (vals : List Bytes) : Option Cc :=
  let cc := vals.foldl (fun cc v => (items v).foldl Cc.step cc) {}
  if cc.any then some cc else none

/-- `HttpHeader::getCc()`: `vals` = the values of the Cache-Control fields of the message, in order; which of the two forms
    the staged source has is a generated flag -/
def getCc (vals : List Bytes) : Option Cc :=
  if Gen.Reusable.ccParsedPerLine then getCcPerLine vals else getCcJoined vals

def Cc.hasNoCacheWithParameters (cc : Cc) : Bool := cc.noCache && !cc.noCacheArgs.isEmpty
def Cc.hasNoCacheWithoutParameters (cc : Cc) : Bool := cc.noCache && cc.noCacheArgs.isEmpty

end SquidModel.Cache
