/-
C13 — variant selection and storage as a state machine over the public store index of ONE URL and method
(default configuration, GET, origin answers every request it sees with a cacheable fresh 200):

 * lookup            `clientReplyContext::identifyStoreObject` (no-cache requests skip it) →
                     `storeGetPublicByRequest` (key = MD5(method, url, request->vary_headers), src/store_key_md5.cc)
 * hit processing    `clientReplyContext::cacheHit` (src/client_side_reply.cc): `varyEvaluateMatch` (src/client_side.cc)
                     VARY_NONE / VARY_MATCH / VARY_OTHER (requery once) / VARY_CANCEL (miss), then the refresh check
                     reduced to ENTRY_REVALIDATE_ALWAYS (everything else is fresh by construction of the scenarios)
 * miss processing   `HttpStateData::haveParsedReplyHeaders` (src/http.cc): `httpMaybeRemovePublic`
                     (neighbors_do_private_keys = 1: the entry found under the request's current key is released),
                     mark computation, `Vary: *` ⇒ ENTRY_REVALIDATE_ALWAYS, empty mark ⇒ private;
                     `StoreEntry::setPublicKey` → `adjustVary` (src/store.cc): variance change kills the base object,
                     marker object creation, insertion under the final key (replacing what is there).

Keys: the MD5 preimage is (method, url, mark); for one URL and method the key is the mark (`[]` = base key).
MD5 collisions are outside the model; `cacheHit` additionally compares storeIds, and `varyEvaluateMatch` compares the
marks themselves, which is what the theorems rest on.
-/
import SquidModel.Cache.VaryMark

namespace SquidModel.Cache.Vary
open SquidModel

/-- a public StoreEntry of the URL -/
structure Entry where
  /-- values of the Vary fields of the stored reply (`[]` = `!reply.header.has(VARY)`) -/
  varyLines : List Bytes
  /-- `mem_obj->vary_headers` -/
  mark : Bytes
  /-- which response it holds: `some i` = the origin's answer to request number i; `none` = internal marker object -/
  body : Option Nat
  /-- ENTRY_REVALIDATE_ALWAYS -/
  revalAlways : Bool
  /-- the stored reply carried Last-Modified. Not used by any decision: `StoreEntry::lastModified()` falls back to
  `timestamp`, which `timestampsSet()` gives every stored reply, so the "Can't calculate entry modification time. Do MISS"
  exit of `cacheHit` is unreachable here and a stale entry is always revalidated with If-Modified-Since -/
  hasValidator : Bool
  deriving DecidableEq, Repr

/-- public index restricted to the URL: key (= mark fed to MD5) ↦ entry -/
abbrev Store := List (Bytes × Entry)

def Store.find (st : Store) (k : Bytes) : Option Entry := (st.find? (fun p => p.1 == k)).map (·.2)
def Store.erase (st : Store) (k : Bytes) : Store := st.filter (fun p => !(p.1 == k))
def Store.insert (st : Store) (k : Bytes) (e : Entry) : Store := (k, e) :: st.erase k

structure Req where
  hdrs : Hdrs
  /-- `request->flags.noCache` (client sent Cache-Control: no-cache): lookup is skipped -/
  noCache : Bool
  deriving Repr

/-- what the origin answers to this request if asked: 200, fresh, cacheable -/
structure Resp where
  varyLines : List Bytes
  hasValidator : Bool
  /-- the origin answers 304 (without Vary) when the request reaching it is conditional -/
  notModified : Bool := false
  deriving Repr

inductive VaryResult where
  | none | match_ | other | cancel
  deriving DecidableEq, Repr

/-- `varyEvaluateMatch(entry, request)`; returns the result and the new `request->vary_headers` -/
def varyEvaluateMatch (e : Entry) (h : Hdrs) (reqVary : Bytes) : VaryResult × Bytes :=
  let hasVary := !e.varyLines.isEmpty
  if !hasVary || e.mark.isEmpty then
    if !reqVary.isEmpty then
      (.cancel, [])                       -- "Oops. Not a Vary object on second attempt"; vary_headers.clear()
    else if !hasVary then
      (.none, reqVary)                    -- not a varying object
    else
      let vary := makeMark e.varyLines h  -- virtual "vary" object found: calculate the key, continue the search
      if !vary.isEmpty then (.other, vary) else (.cancel, reqVary)
  else
    let vary := if reqVary.isEmpty then makeMark e.varyLines h else reqVary
    let reqVary' := if reqVary.isEmpty && !vary.isEmpty then vary else reqVary
    if vary.isEmpty then (.cancel, reqVary')
    else if vary == e.mark then (.match_, reqVary')
    else (.cancel, reqVary')              -- "Oops. Not a Vary match on second attempt"

inductive Lookup where
  /-- serve this entry (after the refresh check) -/
  | found (e : Entry)
  /-- go to the origin -/
  | miss
  deriving Repr

/-- `identifyStoreObject` + `cacheHit` up to the point where an entity has been selected or a miss declared.
VARY_OTHER re-queries; it can only be answered once because it requires an empty `request->vary_headers` and sets it. -/
def lookup (st : Store) (r : Req) : Lookup × Bytes :=
  if r.noCache then (.miss, [])
  else
    match st.find [] with
    | none => (.miss, [])
    | some e =>
      match varyEvaluateMatch e r.hdrs [] with
      | (.none, rv) => (.found e, rv)
      | (.match_, rv) => (.found e, rv)
      | (.cancel, rv) => (.miss, rv)
      | (.other, rv) =>
        match st.find rv with
        | none => (.miss, rv)
        | some e2 =>
          match varyEvaluateMatch e2 r.hdrs rv with
          | (.none, rv2) => (.found e2, rv2)
          | (.match_, rv2) => (.found e2, rv2)
          | (.cancel, rv2) => (.miss, rv2)
          | (.other, rv2) => (.miss, rv2)   -- unreachable: VARY_OTHER needs an empty request->vary_headers

/-- the marker object `adjustVary` writes: "x-squid-internal/vary" reply carrying the joined Vary field, if non-empty -/
def markerEntry (varyLines : List Bytes) : Entry :=
  let joined := (joinValues varyLines).getD []
  { varyLines := if joined.isEmpty then [] else [joined], mark := [], body := none, revalAlways := false, hasValidator := false }

/-- `haveParsedReplyHeaders` + `setPublicKey`/`adjustVary` for the 200 reply `resp` to request number `idx`,
with `reqVary` = `request->vary_headers` left by the lookup. -/
def storeReply (st : Store) (r : Req) (reqVary : Bytes) (resp : Resp) (idx : Nat) : Store :=
  -- httpMaybeRemovePublic: findPreviouslyCachedEntry(e) = storeGetPublicByRequest(request) is released
  let st1 := st.erase reqVary
  let hasVary := !resp.varyLines.isEmpty
  let newMark := if hasVary then makeMark resp.varyLines r.hdrs else []
  if hasVary && newMark.isEmpty then
    st1                                   -- varyFailure: entry->makePrivate()
  else
    let e : Entry := { varyLines := resp.varyLines, mark := newMark, body := some idx,
                       revalAlways := (newMark == star), hasValidator := resp.hasValidator }
    -- adjustVary
    if newMark.isEmpty then
      st1.insert [] e                     -- the object no longer varies: vary_headers.clear(); base key
    else
      let changed := !reqVary.isEmpty && reqVary != newMark
      let st2 := if changed then st1.erase [] else st1          -- "the variance has changed. Kill the base object"
      let reqVary' := if changed || reqVary.isEmpty then makeMark resp.varyLines r.hdrs else reqVary
      let st3 := match st2.find [] with
        | none => st2.insert [] (markerEntry resp.varyLines)     -- create "vary" base object
        | some _ => st2
      st3.insert reqVary' e

inductive Obs where
  /-- served from cache without contacting the origin: the response to request number i -/
  | hit (i : Nat)
  /-- the origin was contacted and its answer delivered -/
  | origin
  /-- the origin was contacted with a conditional request, answered 304, and the stored response to request number i
  was delivered (`handleIMSReply`: `updateOnNotModified`, `sendClientOldEntry`) -/
  | revalidated (i : Nat)
  /-- impossible outcome kept explicit: an internal marker object selected for delivery -/
  | markerServed
  deriving DecidableEq, Repr

/-- one client request, start to finish -/
def step (st : Store) (r : Req) (resp : Resp) (idx : Nat) : Store × Obs :=
  match lookup st r with
  | (.miss, rv) => (storeReply st r rv resp idx, .origin)
  | (.found e, rv) =>
    -- refreshCheckHTTP: ENTRY_REVALIDATE_ALWAYS ⇒ stale ⇒ processExpired(): an If-Modified-Since request (with
    -- Last-Modified or, lacking it, the entry's timestamp) goes to the origin. A 200 answer is stored like a miss;
    -- a 304 answer (`doNotCacheButShare` ⇒ private, no Vary) leaves the index alone and the old entry is delivered.
    if e.revalAlways then
      if resp.notModified then
        match e.body with
        | some i => (st, .revalidated i)
        | none => (st, .markerServed)
      else (storeReply st r rv resp idx, .origin)
    else match e.body with
      | some i => (st, .hit i)
      | none => (st, .markerServed)

/-- a whole scenario from an empty cache: observations and the final index -/
def runFrom : Store → Nat → List (Req × Resp) → Store × List Obs
  | st, _, [] => (st, [])
  | st, idx, (r, resp) :: rest =>
    let (st', o) := step st r resp idx
    let (stf, os) := runFrom st' (idx + 1) rest
    (stf, o :: os)

def run (steps : List (Req × Resp)) : Store × List Obs := runFrom [] 0 steps

end SquidModel.Cache.Vary
