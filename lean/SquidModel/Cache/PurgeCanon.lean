/-
C20 — completeness for canonical spellings: a Location that spells a same-authority URL exactly as `AnyP::Uri::absolute()` prints
it is recognised as absolute, passes `sameUrlHosts` against the request URL, and is therefore purged.
-/
import SquidModel.Cache.PurgeLemmas

namespace SquidModel.Cache.Purge
open SquidModel SquidModel.Gen

/-- the text every URL printed for the request's own authority starts with -/
def originPrefix (u : Uri) : Bytes := u.scheme ++ [colon, slash, slash] ++ authorityHttp u

theorem atColon_append (s rest : Bytes) (hs : ∀ c ∈ s, c ≠ colon) :
    atColon (s ++ colon :: rest) = some (colon :: rest) := by
  induction s with
  | nil => simp [atColon]
  | cons x xs ih =>
    have hx : x ≠ colon := hs x (by simp)
    simp only [List.cons_append, atColon, hx, ↓reduceIte]
    exact ih (fun c hc => hs c (by simp [hc]))

theorem firstSegmentHasColon_append (s rest : Bytes)
    (hs : ∀ c ∈ s, c ≠ colon ∧ c ≠ slash ∧ c ≠ 63 ∧ c ≠ 35) :
    firstSegmentHasColon (s ++ colon :: rest) = true := by
  induction s with
  | nil => simp [firstSegmentHasColon, colon, slash]
  | cons x xs ih =>
    obtain ⟨h1, h2, h3, h4⟩ := hs x (by simp)
    simp only [List.cons_append, firstSegmentHasColon, h1, h2, h3, h4, or_self, ↓reduceIte]
    exact ih (fun c hc => hs c (by simp [hc]))

theorem walkHosts_same_authority (a t1 t2 : Bytes) (ha : ∀ c ∈ a, c ≠ 0 ∧ c ≠ slash) :
    walkHosts (a ++ slash :: t1) (a ++ slash :: t2) = true := by
  induction a with
  | nil => simp [walkHosts, slash]
  | cons x xs ih =>
    obtain ⟨h0, hs⟩ := ha x (by simp)
    simp only [List.cons_append, walkHosts, ne_eq, h0, not_false_eq_true, hs, and_self, ↓reduceIte]
    exact ih (fun c hc => ha c (by simp [hc]))

theorem skipSlashes_two (a b : Bytes) (ha : hd a ≠ slash) :
    skipSlashes (slash :: slash :: a) (slash :: slash :: b) = (a, b) := by
  cases a with
  | nil => simp [skipSlashes]
  | cons x xs =>
    cases b with
    | nil => simp [skipSlashes]
    | cons y ys =>
      have hx : x ≠ slash := by simpa [hd] using ha
      simp [skipSlashes, hx]

theorem encode_slash_cons (p : Bytes) : encode PurgeTables.PATH (slash :: p) = slash :: encode PurgeTables.PATH p := by
  have h : PurgeTables.PATH.mem slash = true := by decide
  simp [encode, h]

/-- two URL texts `scheme://authority/…` with the same scheme-free authority pass `sameUrlHosts` -/
theorem sameUrlHosts_same_authority (s1 s2 a t1 t2 : Bytes)
    (hs1 : ∀ c ∈ s1, c ≠ colon) (hs2 : ∀ c ∈ s2, c ≠ colon)
    (ha : ∀ c ∈ a, c ≠ 0 ∧ c ≠ slash) (hne : a ≠ []) :
    sameUrlHosts (s1 ++ [colon, slash, slash] ++ a ++ slash :: t1) (s2 ++ [colon, slash, slash] ++ a ++ slash :: t2) = true := by
  have e1 : s1 ++ [colon, slash, slash] ++ a ++ slash :: t1 = s1 ++ colon :: (slash :: slash :: (a ++ slash :: t1)) := by simp
  have e2 : s2 ++ [colon, slash, slash] ++ a ++ slash :: t2 = s2 ++ colon :: (slash :: slash :: (a ++ slash :: t2)) := by simp
  rw [e1, e2]
  unfold sameUrlHosts
  rw [atColon_append s1 _ hs1, atColon_append s2 _ hs2]
  simp only [List.tail_cons]
  cases a with
  | nil => exact absurd rfl hne
  | cons x xs =>
    obtain ⟨h0, hsl⟩ := ha x (by simp)
    have hh : hd ((x :: xs) ++ slash :: t1) ≠ slash := by simpa [hd] using hsl
    have hz : ¬ hd (x :: xs ++ slash :: t1) = 0 := by simpa [hd] using h0
    simp only [skipSlashes_two _ _ hh, hz, ↓reduceIte]
    exact walkHosts_same_authority (x :: xs) t1 t2 ha

/-- a text `scheme:…` whose scheme is non-empty and free of `: / ? #` is not a relative reference -/
theorem urlIsRelative_scheme (s rest : Bytes) (hne : s ≠ [])
    (hs : ∀ c ∈ s, c ≠ 0 ∧ c ≠ colon ∧ c ≠ slash ∧ c ≠ 63 ∧ c ≠ 35) :
    urlIsRelative (s ++ colon :: rest) = false := by
  cases s with
  | nil => exact absurd rfl hne
  | cons x xs =>
    obtain ⟨h0, _, hsl, _, _⟩ := hs x (by simp)
    have hcol := firstSegmentHasColon_append (x :: xs) rest (fun c hc => (hs c hc).2)
    unfold urlIsRelative
    have e0 : ¬ hd (x :: xs ++ colon :: rest) = 0 := by simpa [hd] using h0
    have e1 : ¬ hd (x :: xs ++ colon :: rest) = slash := by simpa [hd] using hsl
    simp only [e0, e1, ↓reduceIte, hcol, Bool.not_true]

/-- Canonical spelling is enough: for a request URL `u` (memo empty) and any URL `u'` with the same scheme, host and port whose
path starts with `/`, the text `absolute()` prints for `u'` is recognised as an absolute URL of the same host. -/
theorem canonical_location_recognised (u u' : Uri)
    (hsame : u'.scheme = u.scheme ∧ u'.host = u.host ∧ u'.port = u.port ∧ u'.defaultPort = u.defaultPort)
    (hscheme : u.scheme ≠ [] ∧ ∀ c ∈ u.scheme, c ≠ 0 ∧ c ≠ colon ∧ c ≠ slash ∧ c ≠ 63 ∧ c ≠ 35)
    (hauth : authorityHttp u ≠ [] ∧ ∀ c ∈ authorityHttp u, c ≠ 0 ∧ c ≠ slash)
    (p p' : Bytes) (hp : u.path = slash :: p) (hp' : u'.path = slash :: p') :
    urlIsRelative (buildAbsolute u') = false ∧ sameUrlHosts (buildAbsolute u) (buildAbsolute u') = true := by
  obtain ⟨e1, e2, e3, e4⟩ := hsame
  have ea : authorityHttp u' = authorityHttp u := by simp [authorityHttp, e2, e3, e4]
  constructor
  · unfold buildAbsolute
    rw [e1]
    have : u.scheme ++ [colon, slash, slash] ++ authorityHttp u' ++ encode PurgeTables.PATH u'.path
        = u.scheme ++ colon :: ([slash, slash] ++ authorityHttp u' ++ encode PurgeTables.PATH u'.path) := by simp
    rw [this]
    exact urlIsRelative_scheme _ _ hscheme.1 hscheme.2
  · unfold buildAbsolute
    rw [e1, ea, hp, hp', encode_slash_cons, encode_slash_cons]
    exact sameUrlHosts_same_authority _ _ _ _ _ (fun c hc => (hscheme.2 c hc).2.1) (fun c hc => (hscheme.2 c hc).2.1) hauth.2 hauth.1

end SquidModel.Cache.Purge
