/-
Which versions a reader of an end-to-end C10 scenario may be served (the timing freedom the Store model leaves, projected on the
scenario lines of props/C10.py): operations are started in order; an update whose origin pauses stays in flight while the next `j`
operations are started.  A reader started at position `i` attaches either to the newest version whose update was over before `i`
(if the cache still has it; otherwise it is a miss and the origin answers with its newest version) or to one created later but
before `i`.  It is served that one version completely — or cut short, if that version's origin transfer is truncated while the
reader is attached (the update is still in flight at `i`).
-/
namespace SquidModel.Cache.StoreScenario

inductive Sop
  /-- `mode`: 0 at once, 1 paced, 2 truncated (Content-Length), 3 truncated (chunked) -/
  | update (k n mode j : Nat)
  | read (k : Nat)
  | fill (c : Nat)
  | purge (k : Nat)

/-- a version the origin has for a key: number, whether its first transfer is cut short, the last position its update overlaps -/
structure Created where
  k : Nat
  ver : Nat
  truncated : Bool
  over : Nat
deriving Repr

def truncates (n mode : Nat) : Bool := (mode == 2 && decide (2 ≤ n)) || mode == 3

def curOf (cs : List Created) (k : Nat) : Nat := (cs.filter (·.k == k)).length

/-- newest version of `k` whose update was over before position `i` (0 = none) -/
def stable (cs : List Created) (k i : Nat) : Nat :=
  ((cs.filter (fun c => c.k == k && decide (c.over < i))).map (·.ver)).foldl max 0

/-- the outcomes a reader of `k` started at position `i` may see: (version, complete?) -/
def readerOutcomes (cs : List Created) (k i : Nat) : List (Nat × Bool) :=
  let st := stable cs k i
  (cs.filter (fun c => c.k == k && decide (st ≤ c.ver))).flatMap fun c =>
    if c.truncated && decide (i ≤ c.over) then [(c.ver, true), (c.ver, false)] else [(c.ver, true)]

/-- one scenario step: the versions known afterwards and the token alternatives -/
def stepOp (n : Nat) (cs : List Created) (i : Nat) : Sop → List Created × List String
  | .update k sz mode j =>
    let v := curOf cs k + 1
    let tr := truncates sz mode
    let over := if mode ≠ 0 ∧ j ≠ 0 then min (n - 1) (i + j) else i
    (cs ++ [{ k := k, ver := v, truncated := tr, over := over }], [s!"200:{v}:{if tr then "I" else "C"}"])
  | .read k =>
    let cs := if curOf cs k = 0 then cs ++ [{ k := k, ver := 1, truncated := false, over := i }] else cs
    (cs, (readerOutcomes cs k i).map fun (v, c) => s!"200:{v}:{if c then "C" else "I"}")
  | .fill c => (cs, [toString c])
  | .purge _ => (cs, ["200", "404"])

def tokenName : Sop → String
  | .update .. => "U" | .read _ => "R" | .fill _ => "E" | .purge _ => "P"

def runScenario (ops : List Sop) : List String :=
  let n := ops.length
  ((List.range n).zip ops).foldl (fun (acc : List Created × List String) (io : Nat × Sop) =>
      let (cs, alts) := stepOp n acc.1 io.1 io.2
      (cs, acc.2 ++ [tokenName io.2 ++ "=" ++ "|".intercalate alts])) ([], []) |>.2

end SquidModel.Cache.StoreScenario
