/-
C13 — the escaping `assembleVaryKey` (src/http.cc) applies to a nominated request header value:
`rfc1738_escape_part(x)` = `rfc1738_do_escape(x, RFC1738_ESCAPE_ALL)` (lib/rfc1738.cc), modelled branch by branch with
the flag word as a parameter. The static tables, the flag values and the signedness of `char` come from
`Gen/VaryEscape.lean` (dumped from the running code); `Cache/VaryEscapeLemmas.lean` re-decides that the model agrees
with the dumped graph of the running function on every octet.
(Local to C13 on purpose: another property models the same C function for URLs in its own files.)
-/
import SquidModel.Base.Bytes
import SquidModel.Gen.VaryEscape

namespace SquidModel.Cache.Vary
open SquidModel

/-- `(*src >= 'a' && *src <= 'z') || (*src >= 'A' && *src <= 'Z') || (*src >= '0' && *src <= '9')` -/
def isAlnum (c : UInt8) : Bool :=
  (97 ≤ c && c ≤ 122) || (65 ≤ c && c ≤ 90) || (48 ≤ c && c ≤ 57)

/-- one digit of `snprintf("%%%02X")` -/
def hexUpper (n : Nat) : UInt8 := if n < 10 then UInt8.ofNat (48 + n) else UInt8.ofNat (55 + n)

/-- `*src <= ' '` on plain `char`: octets >= 0x80 are negative when `char` is signed -/
def leSpace (signed : Bool) (c : UInt8) : Bool := c ≤ 32 || (signed && 128 ≤ c)

/-- `flags & bit` for a single-bit constant -/
def hasFlag (flags bit : Nat) : Bool := bit != 0 && (flags / bit) % 2 == 1

/-- the `do_escape` decision of `rfc1738_do_escape` for a non-alphanumeric octet -/
def doEscape (flags : Nat) (c : UInt8) : Bool :=
  -- if ((flags & RFC1738_ESCAPE_UNSAFE)) { table loop; '%' ; else if <= ' ' }
  let e1 : Bool :=
    if hasFlag flags Gen.VaryEscape.UNSAFE then
      Gen.VaryEscape.unsafeChars.contains c ||
        (if !hasFlag flags Gen.VaryEscape.NOPERCENT && c == 37 then true
         else if !hasFlag flags Gen.VaryEscape.NOSPACE && leSpace Gen.VaryEscape.charSigned c then true
         else false)
    else false
  -- if ((flags & RFC1738_ESCAPE_RESERVED) && do_escape == 0) { table loop }
  let e2 : Bool :=
    if hasFlag flags Gen.VaryEscape.RESERVED && !e1 then Gen.VaryEscape.reservedChars.contains c else e1
  -- if ((flags & RFC1738_ESCAPE_CTRLS) && do_escape == 0) { <= 0x1F ; == 0x7F ; >= 0x80 }
  if hasFlag flags Gen.VaryEscape.CTRLS && !e2 then (c ≤ 0x1f || c == 0x7f || 0x80 ≤ c) else e2

/-- what one source octet contributes to the output buffer -/
def escByte (flags : Nat) (c : UInt8) : Bytes :=
  if isAlnum c then [c]
  else if doEscape flags c then [37, hexUpper (c.toNat / 16), hexUpper (c.toNat % 16)]
  else [c]

/-- `rfc1738_do_escape(url, flags)` on a NUL-free string. The buffer is `strlen*3+1` octets, so the
`dst < buf + bufsize - 1` guard of the loop never cuts the output (every octet contributes at most 3). -/
def escape (flags : Nat) (s : Bytes) : Bytes := s.flatMap (escByte flags)

/-- `rfc1738_escape_part(x)` -/
def escapePart (s : Bytes) : Bytes := escape Gen.VaryEscape.ALL s

end SquidModel.Cache.Vary
