/-
Model of collapsed forwarding in one worker: the life of the Store entries of ONE cache key (one URL + method) and of the client
transactions that ask for it.

Squid functions followed (src/), branch by branch:

* `clientReplyContext::identifyStoreObject` / `identifyFoundObject` (client_side_reply.cc): an external `no-cache` request skips the
  lookup; otherwise `storeGetPublicByRequest` → `Store::Controller::find` → `peek`/`peekAtLocal` (the entry in `store_table` under the
  public key) → `checkFoundCandidate` (a `hittingRequiresCollapsing()` entry without Transients must have a local writer:
  `locked() && isAccepting()`, else "no local writer" → `entry->release()` → nil).  Then: nil → MISS; `!validToSend()` → MISS;
  `hittingRequiresCollapsing() && !startCollapsingOn()` ("prohibited CF MISS", `StoreClient::onCollapsingPath`: `collapsed_forwarding`
  off) → MISS; else HIT (`doGetMoreData`: lock, `storeClientListAdd`, `triggerInitialStoreRead(CacheHit)`).
* `clientReplyContext::processMiss` → `createStoreEntry` (`storeCreateEntry`: private key because `neighbors_do_private_keys`; then, for
  a cachable GET when `mayInitiateCollapsing()`, `Store::Controller::allowCollapsing`: `setCollapsingRequirement(true)` +
  `makePublic` → `setPublicKey` → `forcePublicKey`, which `release(true)`s a clashing entry) → `FwdState::Start`.
* `StoreEntry::release` / `releaseRequest` / `setPrivateKey` / `makePublic` / `setPublicKey` / `forcePublicKey` / `clearPrivate`
  (store.cc), `mayStartHitting` (Store.h).
* `Client::setFinalReply` → `HttpStateData::haveParsedReplyHeaders` (http.cc): `findPreviouslyCachedEntry`, `httpMaybeRemovePublic`
  (a private entry with a 200-class status releases the public one), the `ReuseDecision` switch (`reuseNot` → `makePrivate(false)`,
  `cachePositively`/`cacheNegatively` → `makePublic` or `makePrivate(true)`, `doNotCacheButShare` → `makePrivate(true)`;
  `reusableReply` starts with `RELEASE_REQUEST` ⇒ `doNotCacheButShare`) → `StoreEntry::startWriting` (`setCollapsingRequirement(false)`).
* body: `HttpStateData::writeReplyBody`/`truncateVirginBody` (never more than Content-Length), `FwdState::completed`
  (`completeSuccessfully` / `completeTruncated` → `lengthWentBad` → `ENTRY_BAD_LENGTH` + `releaseRequest()`), `errorAppendEntry` →
  `StoreEntry::storeErrorResponse` (error page, `releaseRequest(false)`), `StoreEntry::abort`.
* `clientReplyContext::cacheHit` (`!mayStartHitting()` → MISS, `ENTRY_ABORTED` → MISS, `!didCollapse && refreshCheckHTTP` → revalidate,
  else plain hit), `sendMoreData`/`errorInStream`, `replyStatus` / `checkTransferDone` / `storeOKTransferDone` /
  `storeNotOKTransferDone`.

The origin is a parameter: `O e` is what the origin does for the fetch that fills entry number `e` (every entry is created by
exactly one `processMiss`, so entry numbers are fetch numbers).  Bytes are natural numbers.  Entry records are never removed from
the model; an entry that `destroyStoreEntry` would delete is unlocked, private and unreachable, which is all the model needs.
-/
namespace SquidModel.Cache.Collapse

/-- `HttpStateData::ReuseDecision::Answers` -/
inductive Reuse where
  | reuseNot | cachePositively | cacheNegatively | doNotCacheButShare
deriving DecidableEq, Repr, Inhabited

/-- what the model needs to know about a parsed reply header -/
structure Hdr where
  /-- the answer of `HttpStateData::reusableReply` for an entry without `RELEASE_REQUEST` (status, Cache-Control, Date going back, Vary failure …) -/
  reuse : Reuse
  /-- `Content-Length`; `none`: chunked or delimited by the end of the connection -/
  clen : Option Nat
  /-- the status is one for which `httpMaybeRemovePublic` removes the public entry (200 203 300 301 302 303 410 404 403 405) -/
  removes : Bool
  /-- `refreshCheckHTTP` calls the stored reply stale when a later request hits it -/
  stale : Bool
deriving DecidableEq, Repr, Inhabited

/-- what the origin does for one fetch: the header, the body bytes it sends in total, and whether it then ends the message properly
(last-chunk / close of an EOF-delimited body) rather than being cut off.  With a Content-Length the end is judged by the count. -/
structure Resp where
  hdr : Hdr
  sent : List Nat
  properEnd : Bool
deriving Repr, Inhabited

/-- the complete body of a response -/
def Resp.wholeBody (r : Resp) : List Nat :=
  match r.hdr.clen with
  | some n => r.sent.take n
  | none => r.sent

/-- the origin delivered a complete message -/
def Resp.proper (r : Resp) : Bool :=
  match r.hdr.clen with
  | some n => decide (n ≤ r.sent.length)
  | none => r.properEnd

/-- the header of a locally generated error page (`errorAppendEntry`): it comes with its own Content-Length; its body is not origin data -/
def errHdr : Hdr := { reuse := .reuseNot, clen := some 0, removes := false, stale := false }

structure Entry where
  /-- `KEY_PRIVATE` -/
  keyPrivate : Bool := true
  /-- `shareableWhenPrivate` -/
  shareable : Bool := false
  /-- `ENTRY_REQUIRES_COLLAPSING` -/
  reqColl : Bool := false
  /-- `RELEASE_REQUEST` -/
  relReq : Bool := false
  /-- `ENTRY_ABORTED` -/
  aborted : Bool := false
  /-- `ENTRY_BAD_LENGTH` -/
  badLen : Bool := false
  /-- `store_status == STORE_PENDING` -/
  pending : Bool := true
  /-- the stored reply header (`startWriting` done) -/
  hdr : Option Hdr := none
  /-- the reply is a locally generated error page -/
  isErr : Bool := false
  /-- body bytes stored so far -/
  body : List Nat := []
  /-- the fetch (`FwdState`) still holds its lock on the entry -/
  fwd : Bool := true
  /-- ghost: `RELEASE_REQUEST` was already set when the reply header arrived (`reusableReply` then answers `doNotCacheButShare`
  without looking at the header) -/
  relAtHdr : Bool := false
deriving Repr, Inhabited

inductive Phase where
  | waitHdr | body | done
deriving DecidableEq, Repr, Inhabited

/-- `clientStream_status_t` as seen by the client connection; `reval`: the hit was stale and the transaction went on to revalidate
(not followed further); `gone`: the client went away -/
inductive Verdict where
  | complete | unplanned | failed | reval | gone
deriving DecidableEq, Repr, Inhabited

structure Client where
  noCache : Bool
  /-- `http->storeEntry()` -/
  entry : Nat
  /-- the current entry came from a Store lookup (callback `CacheHit`) rather than from this transaction's own miss (`SendMoreData`) -/
  isHit : Bool
  /-- `StoreClient::didCollapse` (never reset) -/
  didCollapse : Bool
  /-- holds a lock on `entry` and is registered as its store client -/
  attached : Bool
  phase : Phase
  /-- the reply header sent to the client -/
  gotHdr : Option Hdr
  /-- the body bytes sent to the client -/
  out : List Nat
  verdict : Option Verdict
  /-- how many fetches this transaction started (`processMiss` calls) -/
  fetches : Nat
deriving Repr, Inhabited

structure State where
  /-- `Config.onoff.collapsed_forwarding` (and `collapsed_forwarding_access` allows) -/
  cf : Bool
  /-- source variant (`SquidModel/Gen/CollapseFlags.lean`): `HttpStateData::reusableReply` tests `RELEASE_REQUEST` before it
  looks at the reply (true: a released entry is `doNotCacheButShare` whatever the reply says) or after (false: `reuseNot` wins) -/
  relFirst : Bool
  entries : Nat → Option Entry
  clients : Nat → Option Client
  /-- `store_table` under the public key -/
  pub : Option Nat
  nextE : Nat
  nextC : Nat

def State.init (cf : Bool) (relFirst : Bool := true) : State :=
  { cf := cf, relFirst := relFirst, entries := fun _ => none, clients := fun _ => none, pub := none, nextE := 0, nextC := 0 }

def setE (s : State) (e : Nat) (ent : Entry) : State :=
  { s with entries := fun x => if x = e then some ent else s.entries x }

def setC (s : State) (c : Nat) (cl : Client) : State :=
  { s with clients := fun x => if x = c then some cl else s.clients x }

/-- some store client holds a lock on entry `e` -/
def clientLocks (s : State) (e : Nat) : Bool :=
  (List.range s.nextC).any (fun c => match s.clients c with
    | some cl => cl.attached && cl.entry == e
    | none => false)

/-- `StoreEntry::locked()` -/
def locked (s : State) (e : Nat) : Bool :=
  (match s.entries e with | some ent => ent.fwd | none => false) || clientLocks s e

/-- `StoreEntry::isAccepting()` -/
def isAccepting (ent : Entry) : Bool := ent.pending && !ent.aborted

/-- `StoreEntry::mayStartHitting()` -/
def mayStartHitting (ent : Entry) : Bool := !ent.keyPrivate || ent.shareable

/-- `StoreEntry::validToSend()` (negative-cache expiry and nibbled memory are not modelled) -/
def validToSend (ent : Entry) : Bool := !ent.relReq && !ent.aborted

/-- take the entry out of `store_table`'s public slot (`hashDelete` of a public key) -/
def unpub (s : State) (e : Nat) : Option Nat := if s.pub = some e then none else s.pub

/-- `StoreEntry::setPrivateKey(shareable, permanent)` -/
def setPrivateKey (s : State) (e : Nat) (shareable permanent : Bool) : State :=
  match s.entries e with
  | none => s
  | some ent =>
    let ent1 := { ent with relReq := ent.relReq || permanent, shareable := if shareable then ent.shareable else false }
    if ent1.keyPrivate then setE s e ent1
    else { setE s e { ent1 with keyPrivate := true, shareable := shareable } with pub := unpub s e }

/-- `StoreEntry::releaseRequest(shareable)` -/
def releaseRequest (s : State) (e : Nat) (shareable : Bool) : State :=
  match s.entries e with
  | none => s
  | some ent =>
    let s1 := if shareable then s else setE s e { ent with shareable := false }
    if ent.relReq then s1 else setPrivateKey s1 e shareable true

/-- `StoreEntry::release(shareable)`: a locked entry is marked; an unlocked one is destroyed (here: made unreachable for good) -/
def release (s : State) (e : Nat) (shareable : Bool) : State :=
  if locked s e then releaseRequest s e shareable
  else
    match s.entries e with
    | none => s
    | some ent => { setE s e { ent with keyPrivate := true, shareable := false, relReq := true } with pub := unpub s e }

/-- `Store::Controller::find` with `checkFoundCandidate` -/
def find (s : State) : State × Option Nat :=
  match s.pub with
  | none => (s, none)
  | some e =>
    match s.entries e with
    | none => (s, none)
    | some ent =>
      if ent.reqColl && !(locked s e && isAccepting ent) then (release s e false, none)   -- "no local writer"
      else (s, some e)

/-- `StoreEntry::forcePublicKey` -/
def forcePublicKey (s : State) (e : Nat) : State :=
  let s1 := match s.pub with
    | some e2 => if e2 = e then s else release s e2 true
    | none => s
  match s1.entries e with
  | none => s1
  | some ent => { setE s1 e { ent with keyPrivate := false, shareable := false } with pub := some e }

/-- `StoreEntry::setPublicKey` -/
def setPublicKey (s : State) (e : Nat) : State :=
  match s.entries e with
  | none => s
  | some ent => if !ent.keyPrivate then s else forcePublicKey s e

/-- `StoreEntry::makePublic` -/
def makePublic (s : State) (e : Nat) : State × Bool :=
  match s.entries e with
  | none => (s, false)
  | some ent => if ent.relReq then (s, false) else (setPublicKey s e, true)

/-- `Store::Controller::allowCollapsing` -/
def allowCollapsing (s : State) (e : Nat) : State :=
  match s.entries e with
  | none => s
  | some ent =>
    let s1 := setE s e { ent with reqColl := true }
    let r := makePublic s1 e
    if r.2 then r.1
    else match r.1.entries e with
      | none => r.1
      | some ent2 => setE r.1 e { ent2 with reqColl := false }

/-- `clientReplyContext::processMiss`: `createStoreEntry` + `FwdState::Start`; the transaction becomes the store client of its own entry -/
def startFetch (s : State) (c : Nat) (cl : Client) : State :=
  let e := s.nextE
  let s1 : State := { setE s e {} with nextE := e + 1 }
  let s2 := if s.cf then allowCollapsing s1 e else s1
  setC s2 c { cl with entry := e, isHit := false, attached := true, phase := .waitHdr, fetches := cl.fetches + 1 }

/-- a GET for the key arrives: `identifyStoreObject` … `doGetMoreData` -/
def request (s : State) (noCache : Bool) : State :=
  let c := s.nextC
  let cl0 : Client := { noCache := noCache, entry := 0, isHit := false, didCollapse := false, attached := false, phase := .waitHdr,
                        gotHdr := none, out := [], verdict := none, fetches := 0 }
  let s0 : State := { s with nextC := c + 1 }
  if noCache then startFetch s0 c cl0
  else
    let r := find s0
    match r.2 with
    | none => startFetch r.1 c cl0
    | some e =>
      match r.1.entries e with
      | none => startFetch r.1 c cl0
      | some ent =>
        if !validToSend ent then startFetch r.1 c cl0
        else if ent.reqColl && !r.1.cf then startFetch r.1 c cl0              -- prohibited CF MISS
        else setC r.1 c { cl0 with entry := e, isHit := true, didCollapse := ent.reqColl, attached := true }

/-- `findPreviouslyCachedEntry` (a Store lookup with its side effect), then `httpMaybeRemovePublic` for the private entry `e` -/
def removeOldPublic (s : State) (e : Nat) (priv removes : Bool) : State :=
  let r := find s
  if priv && removes then
    match r.2 with
    | some p => if p = e then r.1 else release r.1 p true
    | none => r.1
  else r.1

/-- the `ReuseDecision` switch of `haveParsedReplyHeaders` -/
def applyReuse (s : State) (e : Nat) (dec : Reuse) : State :=
  match dec with
  | .reuseNot => releaseRequest s e false
  | .doNotCacheButShare => releaseRequest s e true
  | _ =>
    let r := makePublic s e
    if r.2 then r.1 else releaseRequest r.1 e true

/-- `HttpStateData::reusableReply` for an entry with (`rel`) or without `RELEASE_REQUEST`, given what the reply itself allows:
"the entry has been released" ⇒ `doNotCacheButShare`, tested first (`relFirst`) or only when the reply is not `reuseNot` -/
def reuseAnswer (relFirst rel : Bool) (r : Reuse) : Reuse :=
  if relFirst then (if rel then Reuse.doNotCacheButShare else r)
  else (if rel && r != Reuse.reuseNot then Reuse.doNotCacheButShare else r)

/-- `Client::setFinalReply`: `haveParsedReplyHeaders` then `startWriting` -/
def replyHeaders (O : Nat → Resp) (s : State) (e : Nat) : State :=
  match s.entries e with
  | none => s
  | some ent =>
    if !(ent.fwd && ent.pending && ent.hdr.isNone) then s
    else
      let h := (O e).hdr
      let s1 := removeOldPublic s e ent.keyPrivate h.removes
      match s1.entries e with
      | none => s1
      | some ent1 =>
        let s2 := applyReuse s1 e (reuseAnswer s.relFirst ent1.relReq h.reuse)
        match s2.entries e with
        | none => s2
        | some ent2 => setE s2 e { ent2 with hdr := some h, reqColl := false, relAtHdr := s.relFirst && ent1.relReq }

/-- up to `k` more body bytes arrive from the origin and are appended (`truncateVirginBody`: never beyond Content-Length) -/
def replyData (O : Nat → Resp) (s : State) (e k : Nat) : State :=
  match s.entries e with
  | none => s
  | some ent =>
    match ent.hdr with
    | none => s
    | some h =>
      if !(ent.fwd && ent.pending && !ent.isErr) then s
      else
        let room := match h.clen with | some n => min k (n - ent.body.length) | none => k
        setE s e { ent with body := ent.body ++ ((O e).sent.drop ent.body.length).take room }

/-- `FwdState::completed`: was the whole reply stored (`storedWholeReply_`)?  With a Content-Length the count decides
(`HttpStateData::writeReplyBody`), otherwise the last-chunk / the end of an EOF-delimited body -/
def endsWhole (O : Nat → Resp) (e : Nat) (ent : Entry) (h : Hdr) : Bool :=
  match h.clen with
  | some n => ent.body.length == n
  | none => ent.body.length == (O e).sent.length && (O e).properEnd

/-- the server connection ends (or the count is reached): `FwdState::completed` -/
def replyEnd (O : Nat → Resp) (s : State) (e : Nat) : State :=
  match s.entries e with
  | none => s
  | some ent =>
    match ent.hdr with
    | none => s
    | some h =>
      if !(ent.fwd && ent.pending && !ent.isErr) then s
      else if endsWhole O e ent h then setE s e { ent with pending := false, fwd := false }          -- completeSuccessfully
      else                                                                                            -- completeTruncated
        let s1 := releaseRequest s e false
        match s1.entries e with
        | none => s1
        | some ent1 => setE s1 e { ent1 with badLen := true, pending := false, fwd := false }

/-- the fetch fails before any reply byte was stored: `errorAppendEntry` → `storeErrorResponse` -/
def replyError (s : State) (e : Nat) : State :=
  match s.entries e with
  | none => s
  | some ent =>
    if !(ent.fwd && ent.pending && ent.hdr.isNone) then s
    else
      let s1 := setE s e { ent with hdr := some errHdr, isErr := true, reqColl := false, pending := false, fwd := false }
      releaseRequest s1 e false

/-- `StoreEntry::abort` -/
def abort (s : State) (e : Nat) : State :=
  match s.entries e with
  | none => s
  | some ent =>
    if !ent.pending then s
    else
      let s1 := releaseRequest s e false
      match s1.entries e with
      | none => s1
      | some ent1 => setE s1 e { ent1 with aborted := true, pending := false, fwd := false }

/-- `clientReplyContext::checkTransferDone` after `out` body bytes were sent: `storeOKTransferDone` / `storeNotOKTransferDone` -/
def transferDone (ent : Entry) (h : Hdr) (out : Nat) : Bool :=
  if !ent.pending then decide (ent.body.length ≤ out)
  else match h.clen with
    | some n => decide (n ≤ out)
    | none => false

/-- `clientReplyContext::replyStatus` after `out` body bytes were sent -/
def replyStatus (ent : Entry) (h : Hdr) (out : Nat) : Option Verdict :=
  if ent.aborted then some .failed
  else if !transferDone ent h out then none
  else if ent.badLen then some .unplanned
  else match h.clen with
    | some n => if out < n then some .unplanned else some .complete                     -- !gotEnough()
    | none => some .complete

def finish (s : State) (c : Nat) (cl : Client) (v : Verdict) : State :=
  setC s c { cl with phase := .done, verdict := some v, attached := false }

/-- the store client callback of transaction `c` runs; in the body phase at most `k` more bytes are copied -/
def wake (s : State) (c k : Nat) : State :=
  match s.clients c with
  | none => s
  | some cl =>
    if !cl.attached then s
    else
      match s.entries cl.entry with
      | none => s
      | some ent =>
        match cl.phase with
        | .waitHdr =>
          if ent.hdr.isNone && ent.pending then s                                    -- nothing to report yet
          else if cl.isHit then                                                        -- clientReplyContext::cacheHit
            if !mayStartHitting ent then startFetch (setC s c { cl with attached := false }) c cl
            else if ent.aborted then startFetch (setC s c { cl with attached := false }) c cl
            else
              match ent.hdr with
              | none => s
              | some h =>
                if h.stale && !cl.didCollapse then finish s c cl .reval
                else setC s c { cl with phase := .body, gotHdr := some h }
          else                                                                         -- SendMoreData of the transaction's own fetch
            if ent.aborted then finish s c cl .failed                                  -- errorInStream
            else
              match ent.hdr with
              | none => s
              | some h => setC s c { cl with phase := .body, gotHdr := some h }
        | .body =>
          if ent.aborted then finish s c cl .failed
          else
            match ent.hdr with
            | none => s
            | some h =>
              let out' := cl.out ++ (ent.body.drop cl.out.length).take k
              match replyStatus ent h out'.length with
              | some v => finish s c { cl with out := out' } v
              | none => setC s c { cl with out := out' }
        | .done => s

/-- `CheckQuickAbortIsReasonable` once the store client is gone: no other client, still pending, and the entry is private, or has
no reply header yet, or the `quick_abort_*` limits (`quick`: their verdict, a function of sizes the model does not follow) say so -/
def quickAbort (s : State) (e : Nat) (quick : Bool) : Bool :=
  match s.entries e with
  | none => false
  | some ent => !clientLocks s e && ent.pending && (ent.keyPrivate || ent.hdr.isNone || quick)

/-- the client closes its connection: `storeUnregister` -/
def clientGone (s : State) (c : Nat) (quick : Bool) : State :=
  match s.clients c with
  | none => s
  | some cl =>
    if !cl.attached then s
    else
      let s1 := finish s c cl .gone
      if quickAbort s1 cl.entry quick then abort s1 cl.entry else s1

/-- the replacement policy / `handleIdleEntry` drops the idle public entry -/
def evict (s : State) : State :=
  match s.pub with
  | none => s
  | some e => if locked s e then s else release s e false

/-- PURGE or an invalidating unsafe request: `release(true)` of the public entry -/
def purge (s : State) : State :=
  match s.pub with
  | none => s
  | some e => release s e true

inductive Action where
  | request (noCache : Bool)
  | replyHeaders (e : Nat)
  | replyData (e k : Nat)
  | replyEnd (e : Nat)
  | replyError (e : Nat)
  | abort (e : Nat)
  | wake (c k : Nat)
  | clientGone (c : Nat) (quick : Bool)
  | evict
  | purge
deriving Repr, DecidableEq

def step (O : Nat → Resp) (s : State) : Action → State
  | .request nc => request s nc
  | .replyHeaders e => replyHeaders O s e
  | .replyData e k => replyData O s e k
  | .replyEnd e => replyEnd O s e
  | .replyError e => replyError s e
  | .abort e => abort s e
  | .wake c k => wake s c k
  | .clientGone c q => clientGone s c q
  | .evict => evict s
  | .purge => purge s

def run (O : Nat → Resp) (s : State) (as : List Action) : State := as.foldl (step O) s

end SquidModel.Cache.Collapse
