/-
C13 — `strListGetItem(str, ',', &item, &ilen, &pos)` (src/StrList.cc), the splitter `assembleVaryKey` iterates the
joined Vary field with, and `strListAdd`, the joiner behind `HttpHeader::getList` / `hasNamed`.
-/
import SquidModel.Base.Bytes

namespace SquidModel.Cache.Vary
open SquidModel

/-- `delim[2]` with `del = ','`: `" ,,\t\r\n\v\f"` — what is skipped before an item (since /repo 43aac5c every `xisspace`
octet, so that an element made of VT/FF only is skipped like any other empty element) -/
def isDelim2 (c : UInt8) : Bool := c == 32 || c == 44 || c == 9 || c == 13 || c == 10 || c == 11 || c == 12

/-- `xisspace` (C locale): SP, HT, LF, VT, FF, CR -/
def isSpace (c : UInt8) : Bool := c == 32 || (9 ≤ c && c ≤ 13)

/-- the `do { *pos += strcspn(*pos, delim[quoted]); ... } while (**pos)` loop: number of octets up to the delimiter
that ends the item. Unquoted: stop set `",` ; quoted: stop set `"\`.
 * at `"`: toggle `quoted`, step over it;
 * quoted and at `\`: step over it and over the next octet if there is one;
 * otherwise (an unquoted `,`, or the terminating NUL): the item ends here. -/
def scan : Bool → Bytes → Nat
  | _, [] => 0
  | quoted, c :: cs =>
    if c == 34 then 1 + scan (!quoted) cs
    else if quoted && c == 92 then
      match cs with
      | [] => 1
      | _ :: cs' => 2 + scan quoted cs'
    else if !quoted && c == 44 then 0
    else 1 + scan quoted cs

/-- `while (len > 0 && xisspace((*item)[len - 1])) --len;` -/
def rtrim (s : Bytes) : Bytes := (s.reverse.dropWhile isSpace).reverse

/-- one call with `*pos` at `s`: (the item after rtrim, the new `*pos`). The call returns `len > 0`. -/
def getItem (s : Bytes) : Bytes × Bytes :=
  let s1 := s.dropWhile isDelim2
  let n := scan false s1
  (rtrim (s1.take n), s1.drop n)

/-- `while (strListGetItem(...))`: the loop ends at the first call that returns 0 (an item that is empty after rtrim:
the end of the string). Fuel = remaining length + 1 (every successful call consumes
at least one octet). -/
def itemsFuel : Nat → Bytes → List Bytes
  | 0, _ => []
  | f + 1, s =>
    let r := getItem s
    if r.1.isEmpty then [] else r.1 :: itemsFuel f r.2

def items (s : Bytes) : List Bytes := itemsFuel (s.length + 1) s

/-- `strListAdd(&str, item, ',')` on a `String` that may be undefined (`none`): `", "` is inserted only when
`str.size()` is non-zero; appending (even an empty item) makes the String defined. -/
def strListAdd (acc : Option Bytes) (item : Bytes) : Option Bytes :=
  match acc with
  | none => some item
  | some a => if a.isEmpty then some item else some (a ++ [44, 32] ++ item)

def joinValues (vs : List Bytes) : Option Bytes := vs.foldl strListAdd none

end SquidModel.Cache.Vary
