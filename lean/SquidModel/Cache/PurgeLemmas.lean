/-
C20 — lemmas about the purge model: what `maybePurgeOthers` evicts, `sameUrlHosts` soundness, and the store invariant that
carries "purged, hence not served stale" through arbitrary later histories.
-/
import SquidModel.Cache.PurgeStore

namespace SquidModel.Cache.Purge
open SquidModel SquidModel.Gen

/-! ### which URLs are purged -/

theorem mem_purgedUrls_self {m status : Nat} {u : Uri} {loc cloc : Option Bytes}
    (hm : purgesOthers m = true) (hs : status < 400) :
    effectiveRequestUri m u ∈ purgedUrls m status u loc cloc := by
  unfold purgedUrls
  have : ¬ status ≥ 400 := by omega
  simp [hm, this]

theorem mem_purgedUrls_loc {m status : Nat} {u : Uri} {loc cloc : Option Bytes} {t : Bytes}
    (hm : purgesOthers m = true) (hs : status < 400)
    (ht : headerTarget m (if m = PurgeTables.methodConnect then u else afterAbsolute u) (effectiveRequestUri m u) loc = some t) :
    t ∈ purgedUrls m status u loc cloc := by
  unfold purgedUrls
  have : ¬ status ≥ 400 := by omega
  simp [hm, this, ht]

theorem mem_purgedUrls_cloc {m status : Nat} {u : Uri} {loc cloc : Option Bytes} {t : Bytes}
    (hm : purgesOthers m = true) (hs : status < 400)
    (ht : headerTarget m (if m = PurgeTables.methodConnect then u else afterAbsolute u) (effectiveRequestUri m u) cloc = some t) :
    t ∈ purgedUrls m status u loc cloc := by
  unfold purgedUrls
  have : ¬ status ≥ 400 := by omega
  simp [hm, this, ht]

theorem purgedUrls_nil_of_not_purging {m status : Nat} {u : Uri} {loc cloc : Option Bytes}
    (hm : purgesOthers m = false) : purgedUrls m status u loc cloc = [] := by
  unfold purgedUrls; simp [hm]

theorem purgedUrls_nil_of_error {m status : Nat} {u : Uri} {loc cloc : Option Bytes}
    (hs : 400 ≤ status) : purgedUrls m status u loc cloc = [] := by
  unfold purgedUrls; simp [hs]

/-- every URL purged is the request's own URL or a header target -/
theorem mem_purgedUrls_cases {m status : Nat} {u : Uri} {loc cloc : Option Bytes} {t : Bytes}
    (h : t ∈ purgedUrls m status u loc cloc) :
    t = effectiveRequestUri m u ∨
    headerTarget m (if m = PurgeTables.methodConnect then u else afterAbsolute u) (effectiveRequestUri m u) loc = some t ∨
    headerTarget m (if m = PurgeTables.methodConnect then u else afterAbsolute u) (effectiveRequestUri m u) cloc = some t := by
  unfold purgedUrls at h
  by_cases hm : purgesOthers m = true
  · by_cases hs : status ≥ 400
    · simp [hm, hs] at h
    · simp [hm, hs] at h
      rcases h with h | h | h
      · exact Or.inl h
      · exact Or.inr (Or.inl h)
      · exact Or.inr (Or.inr h)
  · simp [hm] at h

/-! ### header targets -/

theorem headerTarget_abs_same_host {m : Nat} {u : Uri} {reqUrl h : Bytes}
    (hrel : urlIsRelative h = false) (hsame : sameUrlHosts reqUrl h = true) :
    headerTarget m u reqUrl (some h) = some h := by
  simp [headerTarget, hrel, hsame]

theorem headerTarget_abs_other_host {m : Nat} {u : Uri} {reqUrl h : Bytes}
    (hrel : urlIsRelative h = false) (hsame : sameUrlHosts reqUrl h = false) :
    headerTarget m u reqUrl (some h) = none := by
  simp [headerTarget, hrel, hsame]

theorem headerTarget_abs_path {m : Nat} {u : Uri} {reqUrl h : Bytes}
    (hm : m ≠ PurgeTables.methodConnect) (hslash : hd h = slash) :
    headerTarget m u reqUrl (some h) = some (buildAbsolute { u with path := h, absMemo := none }) := by
  have hrel : urlIsRelative h = true := by
    unfold urlIsRelative; simp [hslash]
  simp [headerTarget, hrel, hm, hslash, absolute, setPath]

theorem headerTarget_rel_path {m : Nat} {u : Uri} {reqUrl h : Bytes}
    (hm : m ≠ PurgeTables.methodConnect) (hrel : urlIsRelative h = true) (hslash : hd h ≠ slash) :
    headerTarget m u reqUrl (some h) = some (absolute (addRelativePath u h)) := by
  simp [headerTarget, hrel, hm, hslash]

/-- with a memo-clearing `addRelativePath` the merged URL is what gets purged … -/
theorem absolute_addRelativePath_of_touch (htouch : PurgeTables.addRelativePathTouches = true) (u : Uri) (rel : Bytes) :
    absolute (addRelativePath u rel) = buildAbsolute { u with path := mergePath u.path rel, absMemo := none } := by
  simp [addRelativePath, absolute, htouch, buildAbsolute, authorityHttp]

/-- … without it, the copy answers with the request URL's memoised text -/
theorem absolute_addRelativePath_of_no_touch (htouch : PurgeTables.addRelativePathTouches = false) (u : Uri) (rel : Bytes) :
    absolute (addRelativePath (afterAbsolute u) rel) = absolute u := by
  simp [addRelativePath, absolute, htouch, afterAbsolute]

/-! ### `sameUrlHosts` accepts only equal authority texts -/

/-- the text between the scheme's slashes and the next `/` (or the end) -/
def hostText (s : Bytes) : Bytes := s.takeWhile (· ≠ slash)

theorem skipSlashes_spec (a b : Bytes) :
    ∃ k, a = List.replicate k slash ++ (skipSlashes a b).1 ∧ b = List.replicate k slash ++ (skipSlashes a b).2 ∧
      ¬ (hd (skipSlashes a b).1 = slash ∧ hd (skipSlashes a b).2 = slash) := by
  induction a generalizing b with
  | nil => exact ⟨0, by simp [skipSlashes], by simp [skipSlashes], by simp [skipSlashes, hd, slash]⟩
  | cons x xs ih =>
    cases b with
    | nil => exact ⟨0, by simp [skipSlashes], by simp [skipSlashes], by simp [skipSlashes, hd, slash]⟩
    | cons y ys =>
      by_cases h : x = slash ∧ y = slash
      · obtain ⟨k, h1, h2, h3⟩ := ih ys
        refine ⟨k + 1, ?_, ?_, ?_⟩
        · simp only [skipSlashes, h, and_self, ↓reduceIte, List.replicate_succ, List.cons_append]
          rw [← h1]
        · simp only [skipSlashes, h, and_self, ↓reduceIte, List.replicate_succ, List.cons_append]
          rw [← h2]
        · simpa only [skipSlashes, h, and_self, ↓reduceIte] using h3
      · refine ⟨0, ?_, ?_, ?_⟩
        · simp [skipSlashes, h]
        · simp [skipSlashes, h]
        · have e : skipSlashes (x :: xs) (y :: ys) = (x :: xs, y :: ys) := by simp [skipSlashes, h]
          rw [e]
          simpa [hd] using h

theorem hostText_cons (x : UInt8) (xs : Bytes) : hostText (x :: xs) = if x = slash then [] else x :: hostText xs := by
  by_cases h : x = slash <;> simp [hostText, h]

theorem walkHosts_sound (a b : Bytes) (ha : ∀ c ∈ a, c ≠ 0) (hb : ∀ c ∈ b, c ≠ 0) (h : walkHosts a b = true) :
    hostText a = hostText b := by
  induction a generalizing b with
  | nil =>
    cases b with
    | nil => rfl
    | cons y ys =>
      have : y ≠ 0 := hb y (by simp)
      simp [walkHosts, hd] at h
      exact absurd h.symm this
  | cons x xs ih =>
    have hx : x ≠ 0 := ha x (by simp)
    cases b with
    | nil => simp [walkHosts] at h; exact absurd h hx
    | cons y ys =>
      rw [walkHosts] at h
      by_cases hs : x = slash
      · have hc : ¬ (x ≠ 0 ∧ x ≠ slash ∧ x = y) := fun hh => hh.2.1 hs
        rw [if_neg hc] at h
        have hxy : x = y := by simpa using h
        rw [hostText_cons, hostText_cons, ← hxy]
        simp [hs]
      · by_cases hxy : x = y
        · have hc : x ≠ 0 ∧ x ≠ slash ∧ x = y := ⟨hx, hs, hxy⟩
          rw [if_pos hc] at h
          have := ih ys (fun c hc => ha c (by simp [hc])) (fun c hc => hb c (by simp [hc])) h
          rw [hostText_cons, hostText_cons, ← hxy]
          simp [hs, this]
        · have hc : ¬ (x ≠ 0 ∧ x ≠ slash ∧ x = y) := fun hh => hxy hh.2.2
          rw [if_neg hc] at h
          exact absurd (by simpa using h) hxy

/-- `sameUrlHosts` says yes only if, after the first colon and the same number of slashes, both texts carry the same
non-empty host[:port] text up to the next slash. -/
theorem sameUrlHosts_sound_aux (url1 url2 : Bytes) (h1 : ∀ c ∈ url1, c ≠ 0) (h2 : ∀ c ∈ url2, c ≠ 0)
    (h : sameUrlHosts url1 url2 = true) :
    ∃ (c1 c2 : Bytes) (k : Nat) (r1 r2 : Bytes),
      atColon url1 = some c1 ∧ atColon url2 = some c2 ∧
      c1.tail = List.replicate k slash ++ r1 ∧ c2.tail = List.replicate k slash ++ r2 ∧
      hostText r1 = hostText r2 ∧ hostText r1 ≠ [] := by
  unfold sameUrlHosts at h
  cases hc1 : atColon url1 with
  | none => simp [hc1] at h
  | some c1 =>
    cases hc2 : atColon url2 with
    | none => simp [hc1, hc2] at h
    | some c2 =>
      simp only [hc1, hc2] at h
      obtain ⟨k, e1, e2, hns⟩ := skipSlashes_spec c1.tail c2.tail
      generalize hsk : skipSlashes c1.tail c2.tail = sk at h e1 e2 hns
      obtain ⟨a, b⟩ := sk
      simp only at h e1 e2 hns
      by_cases hz : hd a = 0
      · simp [hz] at h
      · simp only [hz, ↓reduceIte] at h
        -- NUL-freeness of the suffixes
        have sub1 : ∀ c ∈ c1, c ≠ 0 := by
          intro c hc
          have : ∀ (u s : Bytes), atColon u = some s → ∀ c ∈ s, c ∈ u := by
            intro u
            induction u with
            | nil => intro s hs; simp [atColon] at hs
            | cons x xs ih =>
              intro s hs c hc
              by_cases hx : x = colon
              · simp [atColon, hx] at hs; subst hs; simpa [hx] using hc
              · simp [atColon, hx] at hs
                exact List.mem_cons_of_mem _ (ih s hs c hc)
          exact h1 c (this url1 c1 hc1 c hc)
        have sub2 : ∀ c ∈ c2, c ≠ 0 := by
          intro c hc
          have : ∀ (u s : Bytes), atColon u = some s → ∀ c ∈ s, c ∈ u := by
            intro u
            induction u with
            | nil => intro s hs; simp [atColon] at hs
            | cons x xs ih =>
              intro s hs c hc
              by_cases hx : x = colon
              · simp [atColon, hx] at hs; subst hs; simpa [hx] using hc
              · simp [atColon, hx] at hs
                exact List.mem_cons_of_mem _ (ih s hs c hc)
          exact h2 c (this url2 c2 hc2 c hc)
        have na : ∀ c ∈ a, c ≠ 0 := by
          intro c hc
          apply sub1 c
          apply List.mem_of_mem_tail
          rw [e1]; simp [hc]
        have nb : ∀ c ∈ b, c ≠ 0 := by
          intro c hc
          apply sub2 c
          apply List.mem_of_mem_tail
          rw [e2]; simp [hc]
        have hh := walkHosts_sound a b na nb h
        refine ⟨c1, c2, k, a, b, rfl, rfl, e1, e2, hh, ?_⟩
        -- the host text is not empty: a starts with a non-NUL octet; if that octet were '/', walkHosts would need b to start
        -- with '/' too, which the slash-skipping loop excludes
        cases a with
        | nil => simp [hd] at hz
        | cons x xs =>
          by_cases hxs : x = slash
          · exfalso
            subst hxs
            cases b with
            | nil => simp [walkHosts, slash] at h
            | cons y ys =>
              simp [walkHosts] at h
              apply hns
              simp [hd, h]
          · simp [hostText, List.takeWhile, hxs]

/-! ### the store -/

theorem mem_storeRemove {s : Store} {mid : Nat} {url : Bytes} {mark : Option Bytes} {e : Entry} :
    e ∈ storeRemove s mid url mark ↔ e ∈ s ∧ e.hasKey mid url mark = false := by
  simp [storeRemove, List.mem_filter]

theorem mem_evictAll {ks : List Key} {s : Store} {e : Entry} :
    e ∈ evictAll s ks ↔ e ∈ s ∧ ∀ k ∈ ks, e.hasKey k.1 k.2 none = false := by
  induction ks generalizing s with
  | nil => simp [evictAll]
  | cons k ks ih =>
    simp only [evictAll, List.foldl_cons] at ih ⊢
    rw [ih]
    simp only [evictKey, mem_storeRemove, List.mem_cons, forall_eq_or_imp]
    constructor
    · rintro ⟨⟨a, b⟩, c⟩; exact ⟨a, b, c⟩
    · rintro ⟨a, b, c⟩; exact ⟨⟨a, b⟩, c⟩

theorem evictAll_subset {ks : List Key} {s : Store} {e : Entry} (h : e ∈ evictAll s ks) : e ∈ s :=
  (mem_evictAll.mp h).1

theorem storeGet_mem {s : Store} {mid : Nat} {url : Bytes} {mark : Option Bytes} {e : Entry}
    (h : storeGet s mid url mark = some e) : e ∈ s ∧ e.mid = mid ∧ e.url = url ∧ e.mark = mark := by
  unfold storeGet at h
  have hm := List.mem_of_find?_eq_some h
  have hp := List.find?_some h
  simp [Entry.hasKey] at hp
  exact ⟨hm, hp.1.1, hp.1.2, hp.2⟩

theorem getByRequest_mem {s : Store} {mid : Nat} {url : Bytes} {mark : Option Bytes} {e : Entry}
    (h : getByRequest s mid url mark = some e) : e ∈ s ∧ e.url = url ∧ e.mark = mark := by
  unfold getByRequest at h
  cases h1 : storeGet s mid url mark with
  | some e1 =>
    simp [h1] at h; subst h
    have := storeGet_mem h1
    exact ⟨this.1, this.2.2.1, this.2.2.2⟩
  | none =>
    simp only [h1] at h
    by_cases hh : mid = PurgeTables.methodHead
    · simp only [hh, ↓reduceIte] at h
      have := storeGet_mem h
      exact ⟨this.1, this.2.2.1, this.2.2.2⟩
    · simp [hh] at h

/-- a hit hands out an entry of the store whose key carries the requested URL -/
theorem lookup_hit_mem {s : Store} {mid : Nat} {url mk : Bytes} {e : Entry} {rm : Option Bytes}
    (h : lookup s mid url mk = .hit e rm) : e ∈ s ∧ e.url = url := by
  unfold lookup at h
  cases h0 : getByRequest s mid url none with
  | none => simp [h0] at h
  | some b =>
    simp only [h0] at h
    have hb := getByRequest_mem h0
    by_cases hv : b.hasVary = true
    · simp only [hv, Bool.not_true, Bool.false_eq_true, ↓reduceIte] at h
      by_cases hom : b.objMark.isNone = true
      · simp only [hom, ↓reduceIte] at h
        cases h1 : getByRequest s mid url (some mk) with
        | none => simp [h1] at h
        | some v =>
          simp only [h1] at h
          have hvm := getByRequest_mem h1
          split at h
          · cases h
          · split at h
            · injection h with h _; subst h; exact ⟨hvm.1, hvm.2.1⟩
            · cases h
      · simp only [hom, Bool.false_eq_true, ↓reduceIte] at h
        split at h
        · injection h with h _; subst h; exact ⟨hb.1, hb.2.1⟩
        · cases h
    · simp only [hv, Bool.not_false, ↓reduceIte] at h
      injection h with h _; subst h; exact ⟨hb.1, hb.2.1⟩

theorem mem_removePrevious {s : Store} {mid : Nat} {url : Bytes} {rm : Option Bytes} {e : Entry}
    (h : e ∈ removePrevious s mid url rm) : e ∈ s := by
  unfold removePrevious at h
  have h1 := (mem_storeRemove.mp h).1
  split at h1
  · exact (mem_storeRemove.mp h1).1
  · exact h1

theorem mem_killBaseOnChange {s : Store} {mid : Nat} {url : Bytes} {rm om : Option Bytes} {e : Entry}
    (h : e ∈ killBaseOnChange s mid url rm om) : e ∈ s := by
  unfold killBaseOnChange at h
  split at h
  · exact (mem_storeRemove.mp h).1
  · exact h

theorem mem_addMarker {s : Store} {mid : Nat} {url : Bytes} {om : Option Bytes} {gen : Nat} {e : Entry}
    (h : e ∈ addMarker s mid url om gen) : e ∈ s ∨ (e.gen = gen ∧ e.mid = mid) := by
  unfold addMarker at h
  split at h
  · simp only [List.mem_cons] at h
    rcases h with h | h
    · right; subst h; exact ⟨rfl, rfl⟩
    · left; exact h
  · left; exact h

/-- whatever `storeReply` leaves in the store was there before or is stamped with the current contact -/
theorem mem_storeReply {s : Store} {mid : Nat} {url : Bytes} {rm : Option Bytes} {mk : Bytes} {vary : Bool} {gen : Nat} {e : Entry}
    (h : e ∈ storeReply s mid url rm mk vary gen) : e ∈ s ∨ (e.gen = gen ∧ e.mid = mid) := by
  unfold storeReply at h
  simp only [List.mem_cons] at h
  rcases h with h | h
  · right; subst h; exact ⟨rfl, rfl⟩
  · rcases mem_addMarker (mem_storeRemove.mp h).1 with h4 | h4
    · left; exact mem_removePrevious (mem_killBaseOnChange h4)
    · right; exact h4

/-! ### the invariant -/

/-- every stored reply for `U` was produced by an origin contact later than `t` -/
def FreshFor (U : Bytes) (t : Nat) (s : Store) : Prop := ∀ e ∈ s, e.url = U → t < e.gen

/-- keys are only ever made for methods whose replies may be cached -/
def StoreWf (s : Store) : Prop := ∀ e ∈ s, e.mid ∈ cacheableMethods

def Ev.ok : Ev → Prop
  | .fetch mid _ _ _ => mid ∈ cacheableMethods
  | .forward _ _ _ _ _ => True

theorem freshFor_of_purged {s : Store} {urls : List Bytes} {U : Bytes} {t : Nat}
    (hwf : StoreWf s) (hU : U ∈ urls) (hnv : ∀ e ∈ s, e.url = U → e.mark = none) :
    FreshFor U t (evictAll s (urls.flatMap purgeEntriesByUrl)) := by
  intro e he hu
  exfalso
  obtain ⟨hes, hk⟩ := mem_evictAll.mp he
  have hmid := hwf e hes
  have hmark := hnv e hes hu
  have : (e.mid, U) ∈ urls.flatMap purgeEntriesByUrl := by
    simp only [List.mem_flatMap]
    exact ⟨U, hU, by simp [purgeEntriesByUrl]; exact hmid⟩
  have := hk _ this
  simp [Entry.hasKey, hu, hmark] at this

theorem step_preserves {U : Bytes} {t : Nat} {st : St} {ev : Ev}
    (hf : FreshFor U t st.store) (hwf : StoreWf st.store) (hok : ev.ok) (ht : t < st.gen) :
    FreshFor U t (step st ev).1.store ∧ StoreWf (step st ev).1.store ∧ t < (step st ev).1.gen := by
  cases ev with
  | fetch mid url mk vary =>
    simp only [step]
    cases hl : lookup st.store mid url mk with
    | hit e rm => exact ⟨hf, hwf, ht⟩
    | miss rm =>
      refine ⟨?_, ?_, Nat.lt_succ_of_lt ht⟩
      · intro e he hu
        rcases mem_storeReply he with h | h
        · exact hf e h hu
        · rw [h.1]; exact ht
      · intro e he
        rcases mem_storeReply he with h | h
        · exact hwf e h
        · rw [h.2]; exact hok
  | forward m u status loc cloc =>
    simp only [step]
    refine ⟨?_, ?_, Nat.lt_succ_of_lt ht⟩
    · intro e he hu
      have h1 := evictAll_subset he
      split at h1
      · exact hf e (evictAll_subset h1) hu
      · exact hf e h1 hu
    · intro e he
      have h1 := evictAll_subset he
      split at h1
      · exact hwf e (evictAll_subset h1)
      · exact hwf e h1

theorem run_cons (st : St) (e : Ev) (r : List Ev) :
    run st (e :: r) = ((run (step st e).1 r).1, (step st e).2 :: (run (step st e).1 r).2) := by
  rfl

/-- under the invariant, every later hit for `U` returns a reply of a contact after `t` -/
theorem run_hits_fresh {U : Bytes} {t : Nat} (rest : List Ev) :
    ∀ (st : St), FreshFor U t st.store → StoreWf st.store → (∀ ev ∈ rest, ev.ok) → t < st.gen →
    ∀ (i : Nat) (mid : Nat) (mk : Bytes) (vary : Bool) (g : Nat),
      rest[i]? = some (.fetch mid U mk vary) → (run st rest).2[i]? = some (.cached g) → t < g := by
  induction rest with
  | nil => intro st _ _ _ _ i mid mk vary g h; simp at h
  | cons ev r ih =>
    intro st hf hwf hok ht i mid mk vary g hi ho
    rw [run_cons] at ho
    cases i with
    | zero =>
      simp only [List.getElem?_cons_zero, Option.some.injEq] at hi ho
      subst hi
      simp only [step] at ho
      cases hl : lookup st.store mid U mk with
      | hit e rm =>
        simp only [hl, Obs.cached.injEq] at ho
        subst ho
        have := lookup_hit_mem hl
        exact hf e this.1 this.2
      | miss rm => simp [hl] at ho
    | succ j =>
      simp only [List.getElem?_cons_succ] at hi ho
      have hp := step_preserves hf hwf (hok ev (by simp)) ht
      exact ih (step st ev).1 hp.1 hp.2.1 (fun e he => hok e (by simp [he])) hp.2.2 j mid mk vary g hi ho

end SquidModel.Cache.Purge
