/-
Who may be served from an entry whose reply must not be shared: a locally generated error page (`storeErrorResponse` ends with
`releaseRequest(false)`) or a reply that `reusableReply` calls `reuseNot` (`makePrivate(false)`) is private and not shareable for
good, so `cacheHit`'s `mayStartHitting()` test sends every transaction that found the entry by lookup back to the origin.
The exception the code makes - an entry that already carried `RELEASE_REQUEST` when its reply header arrived is treated as
`doNotCacheButShare` whatever the header says - is recorded by the ghost field `relAtHdr`.
-/
import SquidModel.Cache.CollapseStep

namespace SquidModel.Cache.Collapse

/-- `RELEASE_REQUEST` implies `KEY_PRIVATE` -/
def Good (a : Entry) : Prop := a.relReq = true → a.keyPrivate = true

/-- private, not shareable, marked for release: stays so for good -/
def Locked3 (a : Entry) : Prop := a.keyPrivate = true ∧ a.shareable = false ∧ a.relReq = true

/-- the reply stored in the entry must not be served to transactions other than the one that fetched it -/
def Unshareable (O : Nat → Resp) (e : Nat) (a : Entry) : Prop :=
  a.hdr ≠ none ∧ (a.isErr = true ∨ ((O e).hdr.reuse = .reuseNot ∧ a.relAtHdr = false))

/-- `s'` differs from `s` in fields that do not matter for sharing, and key flags moved only in the allowed direction -/
structure Keys (s s' : State) : Prop where
  relFirst : s'.relFirst = s.relFirst
  clients : s'.clients = s.clients
  none : ∀ e, s.entries e = none → s'.entries e = none
  some : ∀ e a, s.entries e = some a → ∃ b, s'.entries e = some b ∧ b.hdr = a.hdr ∧ b.isErr = a.isErr ∧ b.relAtHdr = a.relAtHdr ∧
    (Good a → Good b) ∧ (Locked3 a → Locked3 b)

theorem Keys.refl (s : State) : Keys s s :=
  ⟨rfl, rfl, fun _ h => h, fun _ a h => ⟨a, h, rfl, rfl, rfl, id, id⟩⟩

theorem Keys.trans {a b c : State} (h1 : Keys a b) (h2 : Keys b c) : Keys a c := by
  refine ⟨h2.relFirst.trans h1.relFirst, h2.clients.trans h1.clients, fun e h => h2.none e (h1.none e h), ?_⟩
  intro e x hx
  obtain ⟨y, hy, p1, p2, p3, p4, p5⟩ := h1.some e x hx
  obtain ⟨z, hz, q1, q2, q3, q4, q5⟩ := h2.some e y hy
  exact ⟨z, hz, q1.trans p1, q2.trans p2, q3.trans p3, fun g => q4 (p4 g), fun g => q5 (p5 g)⟩

/-- one entry replaced by a record with the same sharing-relevant fields and admissible key flags -/
theorem keys_setE (s : State) (e : Nat) (a b : Entry) (p : Option Nat) (he : s.entries e = some a) (h1 : b.hdr = a.hdr)
    (h2 : b.isErr = a.isErr) (h3 : b.relAtHdr = a.relAtHdr) (h4 : Good a → Good b) (h5 : Locked3 a → Locked3 b) :
    Keys s { setE s e b with pub := p } := by
  refine ⟨rfl, rfl, ?_, ?_⟩
  · intro x hx
    by_cases hxe : x = e
    · subst hxe; rw [he] at hx; cases hx
    · simp [hxe, hx]
  · intro x y hy
    by_cases hxe : x = e
    · subst hxe
      rw [he] at hy
      cases hy
      exact ⟨b, by simp, h1, h2, h3, h4, h5⟩
    · exact ⟨y, by simp [hxe, hy], rfl, rfl, rfl, id, id⟩

theorem keys_setE' (s : State) (e : Nat) (a b : Entry) (he : s.entries e = some a) (h1 : b.hdr = a.hdr)
    (h2 : b.isErr = a.isErr) (h3 : b.relAtHdr = a.relAtHdr) (h4 : Good a → Good b) (h5 : Locked3 a → Locked3 b) :
    Keys s (setE s e b) :=
  keys_setE s e a b s.pub he h1 h2 h3 h4 h5

theorem keys_setPrivateKey (s : State) (e : Nat) (sh pm : Bool) : Keys s (setPrivateKey s e sh pm) := by
  unfold setPrivateKey
  split
  · exact Keys.refl s
  · rename_i a he
    dsimp only
    split
    · rename_i hk
      refine keys_setE' s e a _ he (by rfl) (by rfl) (by rfl) ?_ ?_
      · intro _ _; simpa using hk
      · intro ⟨g1, g2, g3⟩
        refine ⟨g1, ?_, ?_⟩
        · cases sh <;> simp [g2]
        · simp [g3]
    · rename_i hk
      refine keys_setE s e a _ _ he (by rfl) (by rfl) (by rfl) ?_ ?_
      · intro _ _; rfl
      · intro ⟨g1, _, _⟩
        simp at hk
        rw [g1] at hk
        cases hk

theorem keys_releaseRequest (s : State) (e : Nat) (sh : Bool) : Keys s (releaseRequest s e sh) := by
  unfold releaseRequest
  split
  · exact Keys.refl s
  · rename_i a he
    dsimp only
    have h1 : Keys s (if sh = true then s else setE s e { a with shareable := false }) := by
      split
      · exact Keys.refl s
      · refine keys_setE' s e a _ he (by rfl) (by rfl) (by rfl) ?_ ?_
        · intro g; exact g
        · intro ⟨g1, _, g3⟩; exact ⟨g1, rfl, g3⟩
    split
    · exact h1
    · exact h1.trans (keys_setPrivateKey _ e sh true)

theorem keys_release (s : State) (e : Nat) (sh : Bool) : Keys s (release s e sh) := by
  unfold release
  split
  · exact keys_releaseRequest s e sh
  · split
    · exact Keys.refl s
    · rename_i a he
      refine keys_setE s e a _ _ he (by rfl) (by rfl) (by rfl) ?_ ?_
      · intro _ _; rfl
      · intro _; exact ⟨rfl, rfl, rfl⟩

theorem keys_find (s : State) : Keys s (find s).1 := by
  unfold find
  split
  · exact Keys.refl s
  · split
    · exact Keys.refl s
    · split
      · exact keys_release s _ false
      · exact Keys.refl s

theorem setPrivateKey_other (s : State) (e x : Nat) (sh pm : Bool) (hx : x ≠ e) :
    (setPrivateKey s e sh pm).entries x = s.entries x := by
  unfold setPrivateKey
  split
  · rfl
  · dsimp only
    split <;> simp [hx]

theorem releaseRequest_other (s : State) (e x : Nat) (sh : Bool) (hx : x ≠ e) :
    (releaseRequest s e sh).entries x = s.entries x := by
  unfold releaseRequest
  split
  · rfl
  · dsimp only
    split
    · cases sh <;> simp [hx]
    · rw [setPrivateKey_other _ _ _ _ _ hx]
      cases sh <;> simp [hx]

/-- `release` touches one entry only -/
theorem release_other (s : State) (e x : Nat) (sh : Bool) (hx : x ≠ e) : (release s e sh).entries x = s.entries x := by
  unfold release
  split
  · exact releaseRequest_other s e x sh hx
  · split
    · rfl
    · simp [hx]

theorem keys_forcePublicKey (s : State) (e : Nat) (hr : ∀ a, s.entries e = some a → a.relReq = false) :
    Keys s (forcePublicKey s e) := by
  unfold forcePublicKey
  dsimp only
  have h1 : Keys s (match s.pub with
      | some e2 => if e2 = e then s else release s e2 true
      | none => s) ∧ ∀ a, (match s.pub with
      | some e2 => if e2 = e then s else release s e2 true
      | none => s).entries e = some a → a.relReq = false := by
    split
    · split
      · exact ⟨Keys.refl s, hr⟩
      · rename_i e2 _ hne
        refine ⟨keys_release s _ true, ?_⟩
        intro a ha
        rw [release_other s e2 e true (fun h => hne h.symm)] at ha
        exact hr a ha
    · exact ⟨Keys.refl s, hr⟩
  obtain ⟨k1, r1⟩ := h1
  split
  · exact k1
  · rename_i a he
    have hrel := r1 a he
    apply k1.trans
    refine keys_setE _ e a _ _ he (by rfl) (by rfl) (by rfl) ?_ ?_
    · intro _ g
      simp at g
      rw [hrel] at g
      cases g
    · intro ⟨_, _, g3⟩
      rw [hrel] at g3
      cases g3

theorem keys_makePublic (s : State) (e : Nat) : Keys s (makePublic s e).1 := by
  unfold makePublic
  split
  · exact Keys.refl s
  · rename_i a he
    split
    · exact Keys.refl s
    · rename_i hrel
      dsimp only
      unfold setPublicKey
      rw [he]
      dsimp only
      split
      · exact Keys.refl s
      · apply keys_forcePublicKey
        intro b hb
        rw [he] at hb
        cases hb
        simpa using hrel

theorem keys_removeOldPublic (s : State) (e : Nat) (a b : Bool) : Keys s (removeOldPublic s e a b) := by
  unfold removeOldPublic
  dsimp only
  split
  · split
    · split
      · exact keys_find s
      · exact (keys_find s).trans (keys_release _ _ true)
    · exact keys_find s
  · exact keys_find s

theorem keys_applyReuse (s : State) (e : Nat) (d : Reuse) : Keys s (applyReuse s e d) := by
  unfold applyReuse
  split
  · exact keys_releaseRequest s e false
  · exact keys_releaseRequest s e true
  · dsimp only
    split
    · exact keys_makePublic s e
    · exact (keys_makePublic s e).trans (keys_releaseRequest _ e true)

/-- `releaseRequest(false)` leaves the entry private, unshareable and marked -/
theorem releaseRequest_false_locks (s : State) (e : Nat) (a : Entry) (he : s.entries e = some a) (hg : Good a) :
    ∃ b, (releaseRequest s e false).entries e = some b ∧ Locked3 b := by
  cases hr : a.relReq with
  | true =>
    have hk := hg hr
    refine ⟨{ a with shareable := false }, ?_, hk, rfl, hr⟩
    simp [releaseRequest, he, hr]
  | false =>
    cases hk : a.keyPrivate with
    | true =>
      refine ⟨{ a with shareable := false, relReq := true }, ?_, hk, rfl, rfl⟩
      simp [releaseRequest, setPrivateKey, he, hr, hk]
    | false =>
      refine ⟨{ a with shareable := false, relReq := true, keyPrivate := true }, ?_, rfl, rfl, rfl⟩
      simp [releaseRequest, setPrivateKey, he, hr, hk]

structure ShareInv (O : Nat → Resp) (s : State) : Prop where
  good : ∀ e a, s.entries e = some a → Good a
  unsh : ∀ e a, s.entries e = some a → Unshareable O e a → Locked3 a
  hit : ∀ c cl, s.clients c = some cl → cl.isHit = true → cl.gotHdr ≠ none → ∀ a, s.entries cl.entry = some a → ¬ Unshareable O cl.entry a
  fresh : ∀ e, s.nextE ≤ e → s.entries e = none
  /-- in the source variant that looks at the reply first, the release shortcut is never taken -/
  flag : s.relFirst = false → ∀ e a, s.entries e = some a → a.relAtHdr = false

theorem unshareable_fields {O : Nat → Resp} {e : Nat} {a b : Entry} (h1 : b.hdr = a.hdr) (h2 : b.isErr = a.isErr)
    (h3 : b.relAtHdr = a.relAtHdr) : Unshareable O e b ↔ Unshareable O e a := by
  unfold Unshareable
  rw [h1, h2, h3]

theorem shareInv_keys {O : Nat → Resp} {s s' : State} (k : Keys s s') (hn : s'.nextE = s.nextE) (h : ShareInv O s) : ShareInv O s' := by
  have back : ∀ e b, s'.entries e = some b → ∃ a, s.entries e = some a ∧ b.hdr = a.hdr ∧ b.isErr = a.isErr ∧ b.relAtHdr = a.relAtHdr ∧
      (Good a → Good b) ∧ (Locked3 a → Locked3 b) := by
    intro e b hb
    cases ha : s.entries e with
    | none => rw [k.none e ha] at hb; cases hb
    | some a =>
      obtain ⟨b', hb', r⟩ := k.some e a ha
      rw [hb] at hb'
      cases hb'
      exact ⟨a, rfl, r⟩
  constructor
  · intro e b hb
    obtain ⟨a, ha, _, _, _, g, _⟩ := back e b hb
    exact g (h.good e a ha)
  · intro e b hb hu
    obtain ⟨a, ha, p1, p2, p3, _, l⟩ := back e b hb
    exact l (h.unsh e a ha ((unshareable_fields p1 p2 p3).mp hu))
  · intro c cl hc hh hg b hb hu
    rw [k.clients] at hc
    obtain ⟨a, ha, p1, p2, p3, _, _⟩ := back cl.entry b hb
    exact h.hit c cl hc hh hg a ha ((unshareable_fields p1 p2 p3).mp hu)
  · intro e he
    rw [hn] at he
    exact k.none e (h.fresh e he)
  · intro hf e b hb
    obtain ⟨a, ha, _, _, p3, _, _⟩ := back e b hb
    rw [p3]
    exact h.flag (by rw [← k.relFirst]; exact hf) e a ha

theorem frame_nextE_find (s : State) : (find s).1.nextE = s.nextE := (frame_find s).nextE

/-- a new client record, or an updated one, that is no hit with a header from an unshareable entry -/
theorem shareInv_setC {O : Nat → Resp} {s : State} (h : ShareInv O s) (c : Nat) (cl : Client)
    (hc : cl.isHit = true → cl.gotHdr ≠ none → ∀ a, s.entries cl.entry = some a → ¬ Unshareable O cl.entry a) :
    ShareInv O (setC s c cl) := by
  refine ⟨h.good, h.unsh, ?_, h.fresh, h.flag⟩
  intro x y hy
  by_cases hx : x = c
  · subst hx; simp at hy; subst hy; exact hc
  · simp [hx] at hy; exact h.hit x y hy

/-- one entry changed in fields that do not matter for sharing -/
theorem shareInv_setE {O : Nat → Resp} {s : State} (h : ShareInv O s) (e : Nat) (a b : Entry) (he : s.entries e = some a)
    (h1 : b.hdr = a.hdr) (h2 : b.isErr = a.isErr) (h3 : b.relAtHdr = a.relAtHdr) (h4 : b.keyPrivate = a.keyPrivate)
    (h5 : b.shareable = a.shareable) (h6 : b.relReq = a.relReq) : ShareInv O (setE s e b) := by
  apply shareInv_keys (keys_setE' s e a b he h1 h2 h3 ?_ ?_) rfl h
  · intro g; unfold Good; rw [h4, h6]; exact g
  · intro g; unfold Locked3; rw [h4, h5, h6]; exact g

theorem shareInv_newEntry {O : Nat → Resp} {s : State} (h : ShareInv O s) :
    ShareInv O { setE s s.nextE {} with nextE := s.nextE + 1 } := by
  have hnone := h.fresh s.nextE (Nat.le_refl _)
  constructor
  · intro e a ha
    by_cases hx : e = s.nextE
    · subst hx; simp at ha; subst ha; intro g; cases g
    · simp [hx] at ha; exact h.good e a ha
  · intro e a ha hu
    by_cases hx : e = s.nextE
    · subst hx; simp at ha; subst ha; exact absurd rfl hu.1
    · simp [hx] at ha; exact h.unsh e a ha hu
  · intro c cl hc hh hg a ha hu
    have hc' : s.clients c = some cl := hc
    by_cases hx : cl.entry = s.nextE
    · simp [hx] at ha; subst ha; rw [hx] at hu; exact absurd rfl hu.1
    · simp [hx] at ha; exact h.hit c cl hc' hh hg a ha hu
  · intro e he
    have he' : s.nextE + 1 ≤ e := he
    have : e ≠ s.nextE := by omega
    simp [this]
    exact h.fresh e (by omega)
  · intro hf e a ha
    by_cases hx : e = s.nextE
    · subst hx; simp at ha; subst ha; rfl
    · simp [hx] at ha; exact h.flag hf e a ha

theorem shareInv_allowCollapsing {O : Nat → Resp} {s : State} (h : ShareInv O s) (e : Nat) : ShareInv O (allowCollapsing s e) := by
  unfold allowCollapsing
  split
  · exact h
  · rename_i a he
    dsimp only
    have h1 : ShareInv O (setE s e { a with reqColl := true }) := shareInv_setE h e a _ he rfl rfl rfl rfl rfl rfl
    have h2 : ShareInv O (makePublic (setE s e { a with reqColl := true }) e).1 :=
      shareInv_keys (keys_makePublic _ e) (frame_makePublic _ e).nextE h1
    split
    · exact h2
    · split
      · exact h2
      · rename_i b hb
        exact shareInv_setE h2 e b _ hb rfl rfl rfl rfl rfl rfl

theorem shareInv_startFetch {O : Nat → Resp} {s : State} (h : ShareInv O s) (c : Nat) (cl : Client) : ShareInv O (startFetch s c cl) := by
  unfold startFetch
  dsimp only
  have h1 := shareInv_newEntry (O := O) h
  have h2 : ShareInv O (if s.cf = true then allowCollapsing { setE s s.nextE {} with nextE := s.nextE + 1 } s.nextE
      else { setE s s.nextE {} with nextE := s.nextE + 1 }) := by
    split
    · exact shareInv_allowCollapsing h1 _
    · exact h1
  apply shareInv_setC h2
  intro hh
  cases hh

theorem shareInv_nextC {O : Nat → Resp} {s : State} (h : ShareInv O s) (n : Nat) : ShareInv O { s with nextC := n } :=
  ⟨h.good, h.unsh, h.hit, h.fresh, h.flag⟩

theorem shareInv_request {O : Nat → Resp} {s : State} (h : ShareInv O s) (nc : Bool) : ShareInv O (request s nc) := by
  unfold request
  dsimp only
  have h0 : ShareInv O { s with nextC := s.nextC + 1 } := shareInv_nextC h _
  split
  · exact shareInv_startFetch h0 _ _
  · have h1 : ShareInv O (find { s with nextC := s.nextC + 1 }).1 := shareInv_keys (keys_find _) (frame_find _).nextE h0
    split
    · exact shareInv_startFetch h1 _ _
    · split
      · exact shareInv_startFetch h1 _ _
      · split
        · exact shareInv_startFetch h1 _ _
        · split
          · exact shareInv_startFetch h1 _ _
          · apply shareInv_setC h1
            intro _ hg
            exact absurd rfl hg

theorem shareInv_replyHeaders {O : Nat → Resp} {s : State} (hi : Inv O s) (h : ShareInv O s) (e : Nat) :
    ShareInv O (replyHeaders O s e) := by
  unfold replyHeaders
  split
  · exact h
  · rename_i a he
    split
    · exact h
    · rename_i hguard
      dsimp only
      have hnone : a.hdr = none := by
        cases hx : a.hdr with
        | none => rfl
        | some x => simp [hx] at hguard
      have k1 : Keys s (removeOldPublic s e a.keyPrivate (O e).hdr.removes) := keys_removeOldPublic s e _ _
      have f1 : Frame s (removeOldPublic s e a.keyPrivate (O e).hdr.removes) := frame_removeOldPublic s e _ _
      generalize removeOldPublic s e a.keyPrivate (O e).hdr.removes = s1 at k1 f1 ⊢
      have hI1 : ShareInv O s1 := shareInv_keys k1 f1.nextE h
      split
      · exact hI1
      · rename_i a1 he1
        have k2 : Keys s1 (applyReuse s1 e (reuseAnswer s.relFirst a1.relReq (O e).hdr.reuse)) := keys_applyReuse s1 e _
        have f2 : Frame s1 (applyReuse s1 e (reuseAnswer s.relFirst a1.relReq (O e).hdr.reuse)) :=
          frame_applyReuse s1 e _
        -- a reply that is `reuseNot`, on an entry not yet released, leaves the entry locked
        have hl : (O e).hdr.reuse = .reuseNot → (s.relFirst && a1.relReq) = false →
            ∀ b, (applyReuse s1 e (reuseAnswer s.relFirst a1.relReq (O e).hdr.reuse)).entries e = some b → Locked3 b := by
          intro hr hrel b hb
          have hra : reuseAnswer s.relFirst a1.relReq (O e).hdr.reuse = .reuseNot := by
            unfold reuseAnswer
            rw [hr]
            cases hf : s.relFirst <;> cases hq : a1.relReq <;> simp [hf, hq] at hrel ⊢
          rw [hra] at hb
          unfold applyReuse at hb
          dsimp only at hb
          obtain ⟨b', hb', hl'⟩ := releaseRequest_false_locks s1 e a1 he1 (hI1.good e a1 he1)
          rw [hb] at hb'
          cases hb'
          exact hl'
        generalize applyReuse s1 e (reuseAnswer s.relFirst a1.relReq (O e).hdr.reuse) = s2 at k2 f2 hl ⊢
        have hI2 : ShareInv O s2 := shareInv_keys k2 f2.nextE hI1
        have hInv2 : Inv O s2 := inv_frame (f1.trans f2) hi
        split
        · exact hI2
        · rename_i a2 he2
          obtain ⟨a0, ha0, hc0⟩ := (f1.trans f2).entry_some he2
          rw [he] at ha0
          cases ha0
          have hnone2 : a2.hdr = none := by rw [show a2.hdr = a.hdr from congrArg Core.hdr hc0, hnone]
          have hnerr : a2.isErr = false := by
            cases hx : a2.isErr with
            | false => rfl
            | true => have := ((hInv2.ent e a2 he2).err hx).1; rw [hnone2] at this; cases this
          constructor
          · intro x y hy
            by_cases hx : x = e
            · subst hx; simp at hy; subst hy
              exact hI2.good x a2 he2
            · simp [hx] at hy; exact hI2.good x y hy
          · intro x y hy hu
            by_cases hx : x = e
            · subst hx; simp at hy; subst hy
              obtain ⟨_, hu2⟩ := hu
              rcases hu2 with hu2 | ⟨hu2, hu3⟩
              · have : a2.isErr = true := hu2
                rw [hnerr] at this
                cases this
              · exact hl hu2 (by simpa using hu3) a2 he2
            · simp [hx] at hy; exact hI2.unsh x y hy hu
          · intro c cl hc hh hg y hy hu
            have hc' : s2.clients c = some cl := hc
            by_cases hx : cl.entry = e
            · exfalso
              cases hgh : cl.gotHdr with
              | none => exact hg hgh
              | some g =>
                obtain ⟨z, hz, hzh, _⟩ := (hInv2.cli c cl hc').g1 g hgh
                rw [hx, he2] at hz
                cases hz
                rw [hnone2] at hzh
                cases hzh
            · simp [hx] at hy
              exact hI2.hit c cl hc' hh hg y hy hu
          · intro x hx
            have hx' : s2.nextE ≤ x := hx
            have : x ≠ e := by
              intro hxe
              subst hxe
              have := hI2.fresh x hx'
              rw [he2] at this
              cases this
            simp [this]
            exact hI2.fresh x hx'
          · intro hf x y hy
            have hf2 : s2.relFirst = false := hf
            have hf' : s.relFirst = false := by rw [← f1.relFirst, ← f2.relFirst]; exact hf2
            by_cases hx : x = e
            · subst hx; simp at hy; subst hy
              simp [hf']
            · simp [hx] at hy
              exact hI2.flag hf2 x y hy

theorem shareInv_replyData {O : Nat → Resp} {s : State} (h : ShareInv O s) (e k : Nat) : ShareInv O (replyData O s e k) := by
  unfold replyData
  split
  · exact h
  · rename_i a he
    split
    · exact h
    · split
      · exact h
      · exact shareInv_setE h e a _ he rfl rfl rfl rfl rfl rfl

theorem shareInv_replyEnd {O : Nat → Resp} {s : State} (h : ShareInv O s) (e : Nat) : ShareInv O (replyEnd O s e) := by
  unfold replyEnd
  split
  · exact h
  · rename_i a he
    split
    · exact h
    · split
      · exact h
      · split
        · exact shareInv_setE h e a _ he rfl rfl rfl rfl rfl rfl
        · have h1 : ShareInv O (releaseRequest s e false) :=
            shareInv_keys (keys_releaseRequest s e false) (frame_releaseRequest s e false).nextE h
          dsimp only
          split
          · exact h1
          · rename_i b hb
            exact shareInv_setE h1 e b _ hb rfl rfl rfl rfl rfl rfl

theorem shareInv_abort {O : Nat → Resp} {s : State} (h : ShareInv O s) (e : Nat) : ShareInv O (abort s e) := by
  unfold abort
  split
  · exact h
  · split
    · exact h
    · have h1 : ShareInv O (releaseRequest s e false) :=
        shareInv_keys (keys_releaseRequest s e false) (frame_releaseRequest s e false).nextE h
      dsimp only
      split
      · exact h1
      · rename_i b hb
        exact shareInv_setE h1 e b _ hb rfl rfl rfl rfl rfl rfl

theorem shareInv_replyError {O : Nat → Resp} {s : State} (hi : Inv O s) (h : ShareInv O s) (e : Nat) : ShareInv O (replyError s e) := by
  unfold replyError
  split
  · exact h
  · rename_i a he
    split
    · exact h
    · rename_i hguard
      dsimp only
      have hnone : a.hdr = none := by
        cases hx : a.hdr with
        | none => rfl
        | some x => simp [hx] at hguard
      generalize hb0 : ({ a with hdr := some errHdr, isErr := true, reqColl := false, pending := false, fwd := false } : Entry) = b0
      have hgood0 : Good b0 := by rw [← hb0]; exact h.good e a he
      have he0 : (setE s e b0).entries e = some b0 := by simp
      obtain ⟨b, hb, hlk⟩ := releaseRequest_false_locks (setE s e b0) e b0 he0 hgood0
      have kk := keys_releaseRequest (setE s e b0) e false
      have back : ∀ x y, (releaseRequest (setE s e b0) e false).entries x = some y → x ≠ e → ∃ z, s.entries x = some z ∧
          y.hdr = z.hdr ∧ y.isErr = z.isErr ∧ y.relAtHdr = z.relAtHdr ∧ (Good z → Good y) ∧ (Locked3 z → Locked3 y) := by
        intro x y hy hx
        cases hz : s.entries x with
        | none =>
          have : (setE s e b0).entries x = none := by simp [hx, hz]
          rw [kk.none x this] at hy
          cases hy
        | some z =>
          have : (setE s e b0).entries x = some z := by simp [hx, hz]
          obtain ⟨y', hy', r⟩ := kk.some x z this
          rw [hy] at hy'
          cases hy'
          exact ⟨z, rfl, r⟩
      constructor
      · intro x y hy
        by_cases hx : x = e
        · subst hx
          rw [hb] at hy
          cases hy
          intro _
          exact hlk.1
        · obtain ⟨z, hz, _, _, _, g, _⟩ := back x y hy hx
          exact g (h.good x z hz)
      · intro x y hy hu
        by_cases hx : x = e
        · subst hx
          rw [hb] at hy
          cases hy
          exact hlk
        · obtain ⟨z, hz, p1, p2, p3, _, l⟩ := back x y hy hx
          exact l (h.unsh x z hz ((unshareable_fields p1 p2 p3).mp hu))
      · intro c cl hc hh hg y hy hu
        have hc' : s.clients c = some cl := by
          have := kk.clients
          rw [this] at hc
          exact hc
        by_cases hx : cl.entry = e
        · exfalso
          cases hgh : cl.gotHdr with
          | none => exact hg hgh
          | some g =>
            obtain ⟨z, hz, hzh, _⟩ := (hi.cli c cl hc').g1 g hgh
            rw [hx, he] at hz
            cases hz
            rw [hnone] at hzh
            cases hzh
        · obtain ⟨z, hz, p1, p2, p3, _, _⟩ := back cl.entry y hy hx
          exact h.hit c cl hc' hh hg z hz ((unshareable_fields p1 p2 p3).mp hu)
      · intro x hx
        have hx' : s.nextE ≤ x := by
          have := (frame_releaseRequest (setE s e b0) e false).nextE
          rw [this] at hx
          exact hx
        have hne : x ≠ e := by
          intro hxe
          subst hxe
          have := h.fresh x hx'
          rw [he] at this
          cases this
        apply kk.none
        simp [hne]
        exact h.fresh x hx'
      · intro hf x y hy
        have hf' : s.relFirst = false := by
          have := kk.relFirst
          rw [this] at hf
          exact hf
        by_cases hx : x = e
        · subst hx
          rw [hb] at hy
          cases hy
          obtain ⟨b', hb', _, _, p3, _, _⟩ := kk.some x b0 he0
          rw [hb] at hb'
          cases hb'
          rw [p3, ← hb0]
          exact h.flag hf' x a he
        · obtain ⟨z, hz, _, _, p3, _, _⟩ := back x y hy hx
          rw [p3]
          exact h.flag hf' x z hz

theorem shareInv_finish {O : Nat → Resp} {s : State} (h : ShareInv O s) (c : Nat) (cl : Client) (v : Verdict)
    (hc : s.clients c = some cl) : ShareInv O (finish s c cl v) :=
  shareInv_setC h c _ (h.hit c cl hc)

theorem shareInv_wake {O : Nat → Resp} {s : State} (h : ShareInv O s) (c k : Nat) : ShareInv O (wake s c k) := by
  unfold wake
  split
  · exact h
  · rename_i cl hcl
    have hh := h.hit c cl hcl
    split
    · exact h
    · split
      · exact h
      · rename_i a he
        have hdet : ShareInv O (setC s c { cl with attached := false }) := shareInv_setC h c _ hh
        split
        · split
          · exact h
          · split
            · rename_i hhit
              split
              · exact shareInv_startFetch hdet c cl
              · rename_i hmay
                split
                · exact shareInv_startFetch hdet c cl
                · split
                  · exact h
                  · split
                    · exact shareInv_finish h c cl _ hcl
                    · apply shareInv_setC h
                      intro _ _ y hy hu
                      have hy' : s.entries cl.entry = some y := hy
                      rw [he] at hy'
                      cases hy'
                      have hu' : Unshareable O cl.entry a := hu
                      have := h.unsh cl.entry a he hu'
                      simp [mayStartHitting, this.1, this.2.1] at hmay
            · rename_i hhit
              split
              · exact shareInv_finish h c cl _ hcl
              · split
                · exact h
                · apply shareInv_setC h
                  intro hx
                  exact absurd hx hhit
        · split
          · exact shareInv_finish h c cl _ hcl
          · split
            · exact h
            · dsimp only
              split
              · exact shareInv_setC h c _ hh
              · exact shareInv_setC h c _ hh
        · exact h

theorem shareInv_clientGone {O : Nat → Resp} {s : State} (h : ShareInv O s) (c : Nat) (q : Bool) : ShareInv O (clientGone s c q) := by
  unfold clientGone
  split
  · exact h
  · rename_i cl hcl
    split
    · exact h
    · have h1 := shareInv_finish (O := O) h c cl .gone hcl
      dsimp only
      split
      · exact shareInv_abort h1 _
      · exact h1

theorem shareInv_evict {O : Nat → Resp} {s : State} (h : ShareInv O s) : ShareInv O (evict s) := by
  unfold evict
  split
  · exact h
  · split
    · exact h
    · exact shareInv_keys (keys_release s _ false) (frame_release s _ false).nextE h

theorem shareInv_purge {O : Nat → Resp} {s : State} (h : ShareInv O s) : ShareInv O (purge s) := by
  unfold purge
  split
  · exact h
  · exact shareInv_keys (keys_release s _ true) (frame_release s _ true).nextE h

theorem shareInv_init (O : Nat → Resp) (cf rf : Bool) : ShareInv O (State.init cf rf) := by
  constructor
  · intro e a ha; cases ha
  · intro e a ha; cases ha
  · intro c cl hc; cases hc
  · intro e _; rfl
  · intro _ e a ha; cases ha

theorem shareInv_step {O : Nat → Resp} {s : State} (hi : Inv O s) (h : ShareInv O s) (a : Action) : ShareInv O (step O s a) := by
  cases a with
  | request nc => exact shareInv_request h nc
  | replyHeaders e => exact shareInv_replyHeaders hi h e
  | replyData e k => exact shareInv_replyData h e k
  | replyEnd e => exact shareInv_replyEnd h e
  | replyError e => exact shareInv_replyError hi h e
  | abort e => exact shareInv_abort h e
  | wake c k => exact shareInv_wake h c k
  | clientGone c q => exact shareInv_clientGone h c q
  | evict => exact shareInv_evict h
  | purge => exact shareInv_purge h

theorem shareInv_run {O : Nat → Resp} {s : State} (hi : Inv O s) (h : ShareInv O s) (as : List Action) : ShareInv O (run O s as) := by
  induction as generalizing s with
  | nil => exact h
  | cons a as ih => exact ih (inv_step hi a) (shareInv_step hi h a)

end SquidModel.Cache.Collapse
