/-
C20 — which store keys a forwarded request's reply evicts.

Model, function by function, of
  src/clients/Client.cc   sameUrlHosts, purgeEntriesByHeader, Client::maybePurgeOthers
  src/client_side_reply.cc purgeEntriesByUrl (the loop over methods with respMaybeCacheable)
  src/anyp/Uri.cc          urlIsRelative, AnyP::Uri::addRelativePath, path(), touch(), authority(), absolute(), absolutePath(),
                           Encode (byte-wise form), including the memoised `absolute_` that a copy of the URL inherits
  src/HttpRequest.cc       effectiveRequestUri
  src/http/RequestMethod.cc purgesOthers / respMaybeCacheable (tables regenerated into Gen/PurgeTables.lean)

C strings are NUL-free byte lists; `hd s` is the octet a `*p` read returns (0 at the terminator).
Store keys are modelled by their MD5 preimage (method id, URL text[, vary mark]).
-/
import SquidModel.Base.Bytes
import SquidModel.Base.CharSet
import SquidModel.Gen.PurgeTables

namespace SquidModel.Cache.Purge
open SquidModel SquidModel.Gen

/-- `*p` of a C string position: the octet, or the terminating NUL -/
def hd (s : Bytes) : UInt8 := s.headD 0

def slash : UInt8 := 47
def colon : UInt8 := 58

/-! ### method classes (regenerated tables) -/

def methodRow (m : Nat) : Option (Nat × List UInt8 × Bool × Bool × Bool) :=
  PurgeTables.methods.find? (fun r => r.1 == m)

/-- `HttpRequestMethod::purgesOthers()` -/
def purgesOthers (m : Nat) : Bool :=
  match methodRow m with
  | some r => r.2.2.1
  | none => false

/-- `HttpRequestMethod::respMaybeCacheable()` -/
def respMaybeCacheable (m : Nat) : Bool :=
  match methodRow m with
  | some r => r.2.2.2.1
  | none => false

/-- the method ids `purgeEntriesByUrl` visits: `for (m = METHOD_NONE; m != METHOD_ENUM_END; ++m) if (m.respMaybeCacheable())` -/
def cacheableMethods : List Nat :=
  (List.range PurgeTables.methodEnumEnd).filter respMaybeCacheable

/-! ### `sameUrlHosts` -/

/-- `strchr(url, ':')`: the suffix starting at the first colon -/
def atColon : Bytes → Option Bytes
  | [] => none
  | c :: r => if c = colon then some (c :: r) else atColon r

/-- the `while (*host1 == '/' && *host2 == '/')` part of the do-while (after the unconditional first increment) -/
def skipSlashes : Bytes → Bytes → Bytes × Bytes
  | a :: r1, b :: r2 => if a = slash ∧ b = slash then skipSlashes r1 r2 else (a :: r1, b :: r2)
  | h1, h2 => (h1, h2)

/-- `while (*host1 && *host1 != '/' && *host1 == *host2) { ++host1; ++host2; } return *host1 == *host2;` -/
def walkHosts : Bytes → Bytes → Bool
  | [], h2 => (0 : UInt8) == hd h2
  | a :: _, [] => a == 0
  | a :: r1, b :: r2 => if a ≠ 0 ∧ a ≠ slash ∧ a = b then walkHosts r1 r2 else a == b

/-- `sameUrlHosts(url1, url2)` -/
def sameUrlHosts (url1 url2 : Bytes) : Bool :=
  match atColon url1, atColon url2 with
  | some h1, some h2 =>
    -- do { ++host1; ++host2; } while (*host1 == '/' && *host2 == '/');
    let (a, b) := skipSlashes h1.tail h2.tail
    if hd a = 0 then false        -- no host
    else walkHosts a b
  | _, _ => false                  -- no URL scheme

/-! ### `urlIsRelative` -/

/-- the `for` loop: a colon before the first `/`, `?`, `#` or the end makes it absolute -/
def firstSegmentHasColon : Bytes → Bool
  | [] => false
  | c :: r => if c = slash ∨ c = 63 ∨ c = 35 then false else if c = colon then true else firstSegmentHasColon r

/-- `urlIsRelative(url)` for a non-null pointer -/
def urlIsRelative (url : Bytes) : Bool :=
  if hd url = 0 then true          -- path-empty
  else if hd url = slash then true -- network-path or absolute-path reference
  else !firstSegmentHasColon url

/-! ### `AnyP::Uri` (the parts `absolute()` reads) -/

structure Uri where
  scheme : Bytes               -- getScheme().image()
  host : Bytes                 -- host()
  port : Option Nat            -- port(); `none` only for URLs without a port (not produced by the request parser)
  defaultPort : Option Nat     -- getScheme().defaultPort()
  path : Bytes                 -- path_
  absMemo : Option Bytes       -- absolute_ (none = empty = not computed yet)
  deriving Repr, DecidableEq

def hexUpper (n : Nat) : UInt8 := if n < 10 then UInt8.ofNat (48 + n) else UInt8.ofNat (55 + n)

/-- `appendf("%%%02X", ch)` -/
def triplet (b : UInt8) : Bytes := [37, hexUpper (b.toNat / 16), hexUpper (b.toNat % 16)]

/-- `AnyP::Uri::Encode(buf, ignore)` in its byte-wise form (the Tokenizer walk appends maximal runs of `ignore` members
unchanged and a triplet for every other octet) -/
def encode (ignore : CharSet) (buf : Bytes) : Bytes :=
  buf.flatMap fun b => if ignore.mem b then [b] else triplet b

def decimal (n : Nat) : Bytes := (toString n).toUTF8.toList

/-- `authority(false)`: host, plus `:port` only for a known non-default port -/
def authorityHttp (u : Uri) : Bytes :=
  match u.port with
  | some p => if u.port ≠ u.defaultPort then u.host ++ [colon] ++ decimal p else u.host
  | none => u.host

/-- `authority(true)` -/
def authorityWithPort (u : Uri) : Bytes :=
  match u.port with
  | some p => u.host ++ [colon] ++ decimal p
  | none => u.host

/-- what `absolute()` builds when the memo is empty (schemes other than urn; no userinfo: http/https never print it) -/
def buildAbsolute (u : Uri) : Bytes :=
  u.scheme ++ [colon, slash, slash] ++ authorityHttp u ++ encode PurgeTables.PATH u.path

/-- `absolute()`: the memoised text if there is one -/
def absolute (u : Uri) : Bytes :=
  match u.absMemo with
  | some a => a
  | none => buildAbsolute u

/-- the object after a call of `absolute()` (the memo is filled) -/
def afterAbsolute (u : Uri) : Uri := { u with absMemo := some (absolute u) }

/-- `path(p)`: assigns and calls `touch()` -/
def setPath (u : Uri) (p : Bytes) : Uri := { u with path := p, absMemo := none }

/-- index just past the last `/` of the path, if any (`path_.rfind('/')` + 1) -/
def chopAfterLastSlash (p : Bytes) : Option Bytes :=
  let r := p.reverse.dropWhile (· ≠ slash)
  if r.isEmpty then none else some r.reverse

/-- `addRelativePath(relUrl)` (non-urn): replaces the last path segment; whether the memoised forms are cleared is a fact about
the staged code (`PurgeTables.addRelativePathTouches`) -/
def mergePath (path rel : Bytes) : Bytes :=
  (match chopAfterLastSlash path with
   | none => [slash]          -- no slash: the whole path is replaced by "/"
   | some b => b) ++ rel      -- everything after the last slash is replaced

def addRelativePath (u : Uri) (rel : Bytes) : Uri :=
  { u with path := mergePath u.path rel, absMemo := if PurgeTables.addRelativePathTouches then none else u.absMemo }

/-- `HttpRequest::effectiveRequestUri()` -/
def effectiveRequestUri (m : Nat) (u : Uri) : Bytes :=
  if m = PurgeTables.methodConnect then authorityWithPort u else absolute u

/-! ### `purgeEntriesByUrl`, `purgeEntriesByHeader`, `maybePurgeOthers` -/

/-- a public store key without vary mark: (method id, URL text) -/
abbrev Key := Nat × Bytes

/-- `purgeEntriesByUrl(req, url)`: the keys handed to `Store::Root().evictIfFound`, in order -/
def purgeEntriesByUrl (url : Bytes) : List Key := cacheableMethods.map fun m => (m, url)

/-- `purgeEntriesByHeader`: the URL it purges, if any. `u` is `req->url` as `maybePurgeOthers` left it (absolute() already
called for non-CONNECT requests), `reqUrl` the effective request URI, `hdr` the header value (`none` = header absent). -/
def headerTarget (m : Nat) (u : Uri) (reqUrl : Bytes) (hdr : Option Bytes) : Option Bytes :=
  match hdr with
  | none => none
  | some h =>
    if urlIsRelative h then
      if m = PurgeTables.methodConnect then some h
      else if hd h = slash then some (absolute (setPath u h))          -- tmpUrl.path(hdrUrl)
      else some (absolute (addRelativePath u h))                         -- tmpUrl.addRelativePath(hdrUrl)
    else if !sameUrlHosts reqUrl h then none
    else some h

/-- the URLs `Client::maybePurgeOthers()` purges, in order -/
def purgedUrls (m : Nat) (status : Nat) (u : Uri) (loc cloc : Option Bytes) : List Bytes :=
  if !purgesOthers m then []
  else if status ≥ 400 then []
  else
    let reqUrl := effectiveRequestUri m u
    let u' := if m = PurgeTables.methodConnect then u else afterAbsolute u
    [reqUrl] ++ (headerTarget m u' reqUrl loc).toList ++ (headerTarget m u' reqUrl cloc).toList

/-- `Client::maybePurgeOthers()`: every key evicted, in order -/
def maybePurgeOthers (m : Nat) (status : Nat) (u : Uri) (loc cloc : Option Bytes) : List Key :=
  (purgedUrls m status u loc cloc).flatMap purgeEntriesByUrl

end SquidModel.Cache.Purge
