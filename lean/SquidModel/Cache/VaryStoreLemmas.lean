/-
C13 — invariant of the store model and what a cache hit implies, for every history.
-/
import SquidModel.Cache.VaryStore
import SquidModel.Cache.VaryMarkLemmas

namespace SquidModel.Cache.Vary
open SquidModel

/-! ### `varyEvaluateMatch` outcomes -/

theorem isEmpty_false_ne {l : List α} (h : l.isEmpty = false) : l ≠ [] := by
  intro hn; rw [hn] at h; cases h
theorem isEmpty_true_eq {l : List α} (h : l.isEmpty = true) : l = [] := by
  cases l with | nil => rfl | cons _ _ => cases h

theorem vem_none {e : Entry} {h : Hdrs} {rv rv' : Bytes}
    (hv : varyEvaluateMatch e h rv = (.none, rv')) : e.varyLines = [] := by
  cases hA : e.varyLines.isEmpty
  · exfalso
    cases hB : e.mark.isEmpty <;> cases hC : rv.isEmpty <;>
      cases hD : (makeMark e.varyLines h).isEmpty <;>
      simp [varyEvaluateMatch, hA, hB, hC, hD] at hv
    all_goals (split at hv <;> simp at hv)
  · exact isEmpty_true_eq hA

theorem vem_match {e : Entry} {h : Hdrs} {rv rv' : Bytes}
    (hv : varyEvaluateMatch e h rv = (.match_, rv')) :
    e.varyLines ≠ [] ∧ e.mark ≠ [] ∧ (if rv.isEmpty then makeMark e.varyLines h else rv) = e.mark := by
  cases hA : e.varyLines.isEmpty <;> cases hB : e.mark.isEmpty <;> cases hC : rv.isEmpty <;>
      cases hD : (makeMark e.varyLines h).isEmpty <;>
      simp [varyEvaluateMatch, hA, hB, hC, hD] at hv
  all_goals (
    split at hv
    · rename_i heq
      exact ⟨isEmpty_false_ne hA, isEmpty_false_ne hB, by simpa using heq⟩
    · simp at hv)

theorem vem_other {e : Entry} {h : Hdrs} {rv' : Bytes}
    (hv : varyEvaluateMatch e h [] = (.other, rv')) :
    e.varyLines ≠ [] ∧ rv' = makeMark e.varyLines h ∧ rv' ≠ [] := by
  cases hA : e.varyLines.isEmpty <;> cases hB : e.mark.isEmpty <;>
      cases hD : (makeMark e.varyLines h).isEmpty <;>
      simp [varyEvaluateMatch, hA, hB, hD] at hv
  · split at hv <;> simp at hv
  · exact ⟨isEmpty_false_ne hA, hv.symm, by rw [← hv]; exact isEmpty_false_ne hD⟩
/-! ### store bookkeeping -/

theorem Store.find_mem {st : Store} {k : Bytes} {e : Entry} (h : st.find k = some e) : (k, e) ∈ st := by
  unfold Store.find at h
  cases hf : st.find? (fun p => p.1 == k) with
  | none => rw [hf] at h; cases h
  | some p =>
    rw [hf] at h
    simp only [Option.map_some, Option.some.injEq] at h
    have hm := List.mem_of_find?_eq_some hf
    have hk := List.find?_some hf
    simp only [beq_iff_eq] at hk
    obtain ⟨k', e'⟩ := p
    simp only at hk h
    rw [← hk, ← h]; exact hm

theorem Store.mem_erase {st : Store} {k : Bytes} {p : Bytes × Entry} (h : p ∈ st.erase k) : p ∈ st := by
  unfold Store.erase at h
  exact (List.mem_filter.mp h).1

theorem Store.mem_insert {st : Store} {k : Bytes} {e : Entry} {p : Bytes × Entry} (h : p ∈ st.insert k e) :
    p = (k, e) ∨ p ∈ st := by
  unfold Store.insert at h
  rcases List.mem_cons.mp h with h | h
  · exact Or.inl h
  · exact Or.inr (Store.mem_erase h)

/-! ### the invariant -/

/-- the public entry `e` holds what the origin answered to request number `j` of the history `all` -/
def StoredBy (all : List (Req × Resp)) (e : Entry) (j : Nat) : Prop :=
  ∃ r resp, all[j]? = some (r, resp) ∧ e.varyLines = resp.varyLines ∧
    e.mark = (if resp.varyLines.isEmpty then [] else makeMark resp.varyLines r.hdrs) ∧
    e.revalAlways = (e.mark == star)

/-- a marker object renders marks like the reply (number `k`) it was derived from -/
def MarkerOf (all : List (Req × Resp)) (e : Entry) (k : Nat) : Prop :=
  ∃ r resp, all[k]? = some (r, resp) ∧ ∀ h, makeMark e.varyLines h = makeMark resp.varyLines h

def Inv (all : List (Req × Resp)) (n : Nat) (st : Store) : Prop :=
  ∀ k e, (k, e) ∈ st →
    e.mark = k ∧
    (∀ j, e.body = some j → j < n ∧ StoredBy all e j) ∧
    (e.body = none → e.mark = [] ∧ e.varyLines ≠ [] ∧ ∃ j, j < n ∧ MarkerOf all e j)

theorem Inv.mono {all : List (Req × Resp)} {n : Nat} {st : Store} (h : Inv all n st) : Inv all (n + 1) st := by
  intro k e hm
  obtain ⟨h1, h2, h3⟩ := h k e hm
  refine ⟨h1, fun j hj => ⟨by have := (h2 j hj).1; omega, (h2 j hj).2⟩, fun hb => ?_⟩
  obtain ⟨hm0, hvl, j, hj, hmk⟩ := h3 hb
  exact ⟨hm0, hvl, j, by omega, hmk⟩

theorem Inv.erase {all : List (Req × Resp)} {n : Nat} {st : Store} (h : Inv all n st) (k : Bytes) :
    Inv all n (st.erase k) := fun k' e hm => h k' e (Store.mem_erase hm)

theorem Inv.insert {all : List (Req × Resp)} {n : Nat} {st : Store} (h : Inv all n st) (k : Bytes) (e : Entry)
    (he : e.mark = k ∧ (∀ j, e.body = some j → j < n ∧ StoredBy all e j) ∧
      (e.body = none → e.mark = [] ∧ e.varyLines ≠ [] ∧ ∃ j, j < n ∧ MarkerOf all e j)) :
    Inv all n (st.insert k e) := by
  intro k' e' hm
  rcases Store.mem_insert hm with hm | hm
  · injection hm with h1 h2
    rw [h1, h2]; exact he
  · exact h k' e' hm

theorem makeMark_marker (lines : List Bytes) (h : Hdrs) :
    makeMark (markerEntry lines).varyLines h = makeMark lines h := by
  unfold makeMark markerEntry assembleVaryKey
  simp only
  cases hj : joinValues lines with
  | none => simp [joinValues]
  | some j =>
    simp only [Option.getD_some]
    by_cases hje : j.isEmpty
    · simp only [hje, ↓reduceIte]
      have : j = [] := by cases j with | nil => rfl | cons _ _ => cases hje
      simp [joinValues, this]
    · simp [hje, joinValues, strListAdd]

theorem makeMark_nil (h : Hdrs) : makeMark [] h = [] := by
  simp [makeMark, assembleVaryKey, joinValues, items, itemsFuel, getItem, scan, rtrim, assembleFrom]

/-- storing the reply to request number `n` preserves the invariant -/
theorem storeReply_inv {all : List (Req × Resp)} {n : Nat} {st : Store} {r : Req} {resp : Resp}
    (hinv : Inv all n st) (hn : all[n]? = some (r, resp)) (rv : Bytes) :
    Inv all (n + 1) (storeReply st r rv resp n) := by
  have h1 : Inv all (n + 1) (st.erase rv) := (hinv.erase rv).mono
  cases hV : resp.varyLines.isEmpty
  · -- the reply has Vary
    cases hM : (makeMark resp.varyLines r.hdrs).isEmpty
    · -- non-empty mark: variant (+ marker)
      have hne : makeMark resp.varyLines r.hdrs ≠ [] := isEmpty_false_ne hM
      have hkey : (if (!rv.isEmpty && rv != makeMark resp.varyLines r.hdrs || rv.isEmpty) = true
          then makeMark resp.varyLines r.hdrs else rv) = makeMark resp.varyLines r.hdrs := by
        split
        · rfl
        · rename_i hc
          cases hr : rv.isEmpty with
          | true => rw [hr] at hc; simp at hc
          | false =>
            rw [hr] at hc
            simp only [Bool.not_false, Bool.true_and, Bool.or_false, bne_iff_ne, ne_eq, Decidable.not_not] at hc
            exact hc
      have hvariant : ∀ stx, Inv all (n + 1) stx → Inv all (n + 1) (stx.insert (makeMark resp.varyLines r.hdrs)
          { varyLines := resp.varyLines, mark := makeMark resp.varyLines r.hdrs, body := some n,
            revalAlways := makeMark resp.varyLines r.hdrs == star, hasValidator := resp.hasValidator }) := by
        intro stx hx
        apply hx.insert
        refine ⟨rfl, ?_, ?_⟩
        · intro j hj
          simp only [Option.some.injEq] at hj
          subst hj
          exact ⟨by omega, r, resp, hn, rfl, by simp [hV], rfl⟩
        · intro hb; cases hb
      have h2 : Inv all (n + 1) (if (!rv.isEmpty && rv != makeMark resp.varyLines r.hdrs) = true
          then (st.erase rv).erase [] else st.erase rv) := by
        split
        · exact h1.erase []
        · exact h1
      simp only [storeReply, hV, hM, Bool.not_false, Bool.and_false, Bool.false_eq_true, ↓reduceIte]
      rw [hkey]
      apply hvariant
      split
      · apply h2.insert
        refine ⟨rfl, ?_, ?_⟩
        · intro j hj; simp [markerEntry] at hj
        · intro _
          refine ⟨rfl, ?_, n, by omega, r, resp, hn, fun h => makeMark_marker resp.varyLines h⟩
          intro hnil
          have hmm := makeMark_marker resp.varyLines r.hdrs
          rw [hnil, makeMark_nil] at hmm
          exact hne hmm.symm
      · exact h2
    · -- empty mark: the entry is made private
      simp only [storeReply, hV, hM, Bool.not_false, Bool.and_self, ↓reduceIte]
      exact h1
  · -- no Vary: stored under the base key
    simp only [storeReply, hV, Bool.not_true, Bool.false_and, Bool.false_eq_true, ↓reduceIte, List.isEmpty_nil]
    apply h1.insert
    refine ⟨rfl, ?_, ?_⟩
    · intro j hj
      simp only [Option.some.injEq] at hj
      subst hj
      exact ⟨by omega, r, resp, hn, rfl, by simp [hV], rfl⟩
    · intro hb; cases hb

/-! ### what a lookup that selects an entry implies -/

/-- the selected entry either does not vary, or its mark equals the mark rendered for the current request from the
Vary of an entry of the index (the marker object, in the reachable states) -/
theorem lookup_found {st : Store} {r : Req} {e : Entry} {rv : Bytes}
    (h : lookup st r = (.found e, rv)) :
    (∃ k, (k, e) ∈ st) ∧
    (e.varyLines = [] ∨
      (e.mark ≠ [] ∧ ∃ k0 e0, (k0, e0) ∈ st ∧ e0.varyLines ≠ [] ∧ makeMark e0.varyLines r.hdrs = e.mark)) := by
  unfold lookup at h
  split at h
  · cases h
  · split at h
    · cases h
    · rename_i e1 hf1
      have hm1 := Store.find_mem hf1
      split at h
      · rename_i rv1 hv
        injection h with h1 _
        injection h1 with h1
        subst h1
        exact ⟨⟨_, hm1⟩, Or.inl (vem_none hv)⟩
      · rename_i rv1 hv
        injection h with h1 _
        injection h1 with h1
        subst h1
        have := vem_match hv
        simp only [List.isEmpty_nil, ↓reduceIte] at this
        exact ⟨⟨_, hm1⟩, Or.inr ⟨this.2.1, _, _, hm1, this.1, this.2.2⟩⟩
      · cases h
      · rename_i rv1 hv
        have ho := vem_other hv
        split at h
        · cases h
        · rename_i e2 hf2
          have hm2 := Store.find_mem hf2
          split at h
          · rename_i rv2 hv2
            injection h with h1 _
            injection h1 with h1
            subst h1
            exact ⟨⟨_, hm2⟩, Or.inl (vem_none hv2)⟩
          · rename_i rv2 hv2
            injection h with h1 _
            injection h1 with h1
            subst h1
            have hmt := vem_match hv2
            have hrv1 : rv1.isEmpty = false := by
              cases rv1 with
              | nil => exact absurd rfl ho.2.2
              | cons _ _ => rfl
            simp only [hrv1, Bool.false_eq_true, ↓reduceIte] at hmt
            refine ⟨⟨_, hm2⟩, Or.inr ⟨hmt.2.1, _, _, hm1, ho.1, ?_⟩⟩
            rw [← ho.2.1]; exact hmt.2.2
          · cases h
          · cases h

/-- what the selection of the stored reply to request `j` for request `i` implies (hit or successful revalidation) -/
def SelOK (all : List (Req × Resp)) (i j : Nat) : Prop :=
  j < i ∧ ∃ ri respi rj respj, all[i]? = some (ri, respi) ∧ all[j]? = some (rj, respj) ∧
    (respj.varyLines = [] ∨
      (∃ k rk respk, k < i ∧ all[k]? = some (rk, respk) ∧
        makeMark respk.varyLines ri.hdrs = makeMark respj.varyLines rj.hdrs) ∧
      makeMark respj.varyLines rj.hdrs ≠ [])

/-- what a hit (no origin contact) of the reply to request `j`, delivered to request `i`, implies -/
def HitOK (all : List (Req × Resp)) (i j : Nat) : Prop :=
  SelOK all i j ∧ ∀ rj respj, all[j]? = some (rj, respj) → respj.varyLines ≠ [] → makeMark respj.varyLines rj.hdrs ≠ star

theorem lookup_sel {all : List (Req × Resp)} {n : Nat} {st : Store} {r : Req} {resp : Resp} {e : Entry} {rv : Bytes} {i : Nat}
    (hinv : Inv all n st) (hn : all[n]? = some (r, resp)) (hl : lookup st r = (.found e, rv)) (hb : e.body = some i) :
    SelOK all n i ∧ (e.revalAlways = false → ∀ rj respj, all[i]? = some (rj, respj) → respj.varyLines ≠ [] →
      makeMark respj.varyLines rj.hdrs ≠ star) := by
  obtain ⟨⟨k, hm⟩, hcase⟩ := lookup_found hl
  obtain ⟨hk, hbody, _⟩ := hinv k e hm
  obtain ⟨hlt, rj, respj, hj, hvl, hmark, hrev⟩ := hbody i hb
  refine ⟨⟨hlt, r, resp, rj, respj, hn, hj, ?_⟩, ?_⟩
  · rcases hcase with hnv | ⟨hmne, k0, e0, hm0, he0, hmm⟩
    · left; rw [← hvl]; exact hnv
    · right
      have hne : respj.varyLines.isEmpty = false := by
        cases hx : respj.varyLines.isEmpty with
        | false => rfl
        | true => rw [hx] at hmark; simp at hmark; exact absurd hmark hmne
      simp only [hne, Bool.false_eq_true, ↓reduceIte] at hmark
      refine ⟨?_, by rw [← hmark]; exact hmne⟩
      -- the entry the mark was rendered from: a marker or a stored reply
      obtain ⟨_, hb0, hmk0⟩ := hinv k0 e0 hm0
      cases hbody0 : e0.body with
      | none =>
        obtain ⟨_, _, j0, hj0, r0, resp0, ha0, hmm0⟩ := hmk0 hbody0
        exact ⟨j0, r0, resp0, hj0, ha0, by rw [← hmm0, hmm, hmark]⟩
      | some j0 =>
        obtain ⟨hj0, r0, resp0, ha0, hvl0, _, _⟩ := hb0 j0 hbody0
        exact ⟨j0, r0, resp0, hj0, ha0, by rw [← hvl0, hmm, hmark]⟩
  · intro hra rj' respj' hj' hvne
    rw [hj] at hj'
    injection hj' with hj'
    injection hj' with h1 h2
    subst h1; subst h2
    have hne : respj.varyLines.isEmpty = false := by
      cases hx : respj.varyLines.isEmpty with
      | false => rfl
      | true => exact absurd (isEmpty_true_eq hx) hvne
    simp only [hne, Bool.false_eq_true, ↓reduceIte] at hmark
    rw [← hmark]
    intro hs
    rw [hs] at hrev
    simp only [beq_self_eq_true] at hrev
    rw [hrev] at hra
    cases hra

theorem step_hit {all : List (Req × Resp)} {n : Nat} {st st' : Store} {r : Req} {resp : Resp} {j : Nat}
    (hinv : Inv all n st) (hn : all[n]? = some (r, resp)) (h : step st r resp n = (st', .hit j)) :
    HitOK all n j := by
  unfold step at h
  split at h
  · cases h
  · rename_i e rv hl
    split at h
    · split at h
      · split at h <;> cases h
      · cases h
    · rename_i hra
      split at h
      · rename_i i hb
        injection h with _ h2
        injection h2 with h2
        subst h2
        have := lookup_sel hinv hn hl hb
        exact ⟨this.1, this.2 (by simpa using hra)⟩
      · cases h

theorem step_reval {all : List (Req × Resp)} {n : Nat} {st st' : Store} {r : Req} {resp : Resp} {j : Nat}
    (hinv : Inv all n st) (hn : all[n]? = some (r, resp)) (h : step st r resp n = (st', .revalidated j)) :
    SelOK all n j := by
  unfold step at h
  split at h
  · cases h
  · rename_i e rv hl
    split at h
    · split at h
      · split at h
        · rename_i i hb
          injection h with _ h2
          injection h2 with h2
          subst h2
          exact (lookup_sel hinv hn hl hb).1
        · cases h
      · cases h
    · split at h <;> cases h

theorem step_inv {all : List (Req × Resp)} {n : Nat} {st : Store} {r : Req} {resp : Resp}
    (hinv : Inv all n st) (hn : all[n]? = some (r, resp)) : Inv all (n + 1) (step st r resp n).1 := by
  unfold step
  split
  · exact storeReply_inv hinv hn _
  · split
    · split
      · split <;> exact hinv.mono
      · exact storeReply_inv hinv hn _
    · split <;> exact hinv.mono

/-- never is an internal marker object delivered -/
theorem step_no_marker {all : List (Req × Resp)} {n : Nat} {st : Store} {r : Req} {resp : Resp}
    (hinv : Inv all n st) : (step st r resp n).2 ≠ .markerServed := by
  have key : ∀ e rv, lookup st r = (.found e, rv) → e.body ≠ none := by
    intro e rv hl hb
    obtain ⟨⟨k, hm⟩, hcase⟩ := lookup_found hl
    obtain ⟨hk, _, hmk⟩ := hinv k e hm
    obtain ⟨hm0, hvl, _⟩ := hmk hb
    rcases hcase with hnv | ⟨hne, _⟩
    · exact hvl hnv
    · exact hne hm0
  unfold step
  split
  · simp
  · rename_i e rv hl
    split
    · split
      · split
        · simp
        · rename_i hb; exact absurd hb (key e rv hl)
      · simp
    · split
      · simp
      · rename_i hb; exact absurd hb (key e rv hl)

/-! ### whole histories -/

theorem runFrom_hit (all : List (Req × Resp)) : ∀ (rest : List (Req × Resp)) (st : Store) (n : Nat),
    Inv all n st → (∀ k, rest[k]? = all[n + k]?) →
    ∀ k j, (runFrom st n rest).2[k]? = some (.hit j) → HitOK all (n + k) j := by
  intro rest
  induction rest with
  | nil => intro st n _ _ k j h; simp [runFrom] at h
  | cons p rest ih =>
    intro st n hinv hall k j h
    obtain ⟨r, resp⟩ := p
    have hn : all[n]? = some (r, resp) := by simpa using (hall 0).symm
    simp only [runFrom] at h
    cases k with
    | zero =>
      simp only [List.getElem?_cons_zero, Option.some.injEq] at h
      exact step_hit hinv hn (Prod.ext rfl h)
    | succ k =>
      simp only [List.getElem?_cons_succ] at h
      have := ih (step st r resp n).1 (n + 1) (step_inv hinv hn)
        (fun k => by have := hall (k + 1); simp only [List.getElem?_cons_succ] at this; rw [this]; congr 1; omega) k j h
      have he : n + (k + 1) = n + 1 + k := by omega
      rw [he]; exact this

theorem runFrom_reval (all : List (Req × Resp)) : ∀ (rest : List (Req × Resp)) (st : Store) (n : Nat),
    Inv all n st → (∀ k, rest[k]? = all[n + k]?) →
    ∀ k j, (runFrom st n rest).2[k]? = some (.revalidated j) → SelOK all (n + k) j := by
  intro rest
  induction rest with
  | nil => intro st n _ _ k j h; simp [runFrom] at h
  | cons p rest ih =>
    intro st n hinv hall k j h
    obtain ⟨r, resp⟩ := p
    have hn : all[n]? = some (r, resp) := by simpa using (hall 0).symm
    simp only [runFrom] at h
    cases k with
    | zero =>
      simp only [List.getElem?_cons_zero, Option.some.injEq] at h
      exact step_reval hinv hn (Prod.ext rfl h)
    | succ k =>
      simp only [List.getElem?_cons_succ] at h
      have := ih (step st r resp n).1 (n + 1) (step_inv hinv hn)
        (fun k => by have := hall (k + 1); simp only [List.getElem?_cons_succ] at this; rw [this]; congr 1; omega) k j h
      have he : n + (k + 1) = n + 1 + k := by omega
      rw [he]; exact this

theorem runFrom_no_marker (all : List (Req × Resp)) : ∀ (rest : List (Req × Resp)) (st : Store) (n : Nat),
    Inv all n st → (∀ k, rest[k]? = all[n + k]?) → Obs.markerServed ∉ (runFrom st n rest).2 := by
  intro rest
  induction rest with
  | nil => intro st n _ _; simp [runFrom]
  | cons p rest ih =>
    intro st n hinv hall
    obtain ⟨r, resp⟩ := p
    have hn : all[n]? = some (r, resp) := by simpa using (hall 0).symm
    simp only [runFrom, List.mem_cons, not_or]
    refine ⟨fun hc => step_no_marker hinv hc.symm, ?_⟩
    exact ih (step st r resp n).1 (n + 1) (step_inv hinv hn)
      (fun k => by have := hall (k + 1); simp only [List.getElem?_cons_succ] at this; rw [this]; congr 1; omega)

theorem inv_empty (all : List (Req × Resp)) : Inv all 0 [] := by
  intro k e hm; cases hm

theorem runFrom_length : ∀ (rest : List (Req × Resp)) (st : Store) (n : Nat), (runFrom st n rest).2.length = rest.length := by
  intro rest
  induction rest with
  | nil => intro st n; simp [runFrom]
  | cons p rest ih => intro st n; simp [runFrom, ih]

end SquidModel.Cache.Vary
