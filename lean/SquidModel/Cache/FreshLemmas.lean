/-
Lemmas about the C12 freshness model (SquidModel/Cache/Fresh.lean): what `refreshStaleness`, the request block, the
tail of `refreshCheck`, `timestampsSet` and `hdrExpirationTime` can return.
-/
import SquidModel.Cache.Fresh

namespace SquidModel.Cache.Fresh
open SquidModel.Gen

/-! ### request well-formedness: what `HttpHdrCc::parse` can produce (negative values are rejected) -/

def Request.wf (q : Request) : Prop :=
  (∀ v, q.ccMinFresh = some v → 0 ≤ v) ∧ (∀ v, q.ccMaxAge = some v → 0 ≤ v) ∧ (∀ v, q.ccMaxStale = some v → 0 ≤ v)

/-- the request carries an effective `max-stale` directive -/
def Request.hasMaxStale (q : Request) : Bool := !q.ignoreCc && q.hasCc && q.ccMaxStale.isSome

/-! ### reason codes -/

theorem isFresh_iff (r : Reason) : r.isFresh = true ↔
    r = .freshRequestMaxStaleAll ∨ r = .freshRequestMaxStaleValue ∨ r = .freshExpires ∨ r = .freshLmfactorRule ∨
    r = .freshMinRule ∨ r = .freshOverrideExpires ∨ r = .freshOverrideLastmod := by
  cases r <;> decide

/-! ### refreshStaleness -/

theorem staleness_of_expired (e : Entry) (ct age : Int) (R : Rule) (h1 : -1 < e.expires) (h2 : e.expires ≤ ct) :
    refreshStaleness e ct age R = (ct - e.expires, { expires := true }) := by
  unfold refreshStaleness
  have : ¬ (e.expires > ct) := by omega
  simp [h1, this]

theorem staleness_of_unexpired (e : Entry) (ct age : Int) (R : Rule) (h1 : -1 < e.expires) (h2 : ct < e.expires) :
    refreshStaleness e ct age R = (-1, { expires := true }) := by
  unfold refreshStaleness
  simp [h1, h2]

/-! ### the check point -/

theorem minFresh_nonneg (q : Request) (hq : q.wf) :
    (0:Int) ≤ (if (!q.ignoreCc && q.hasCc) = true then q.ccMinFresh.getD 0 else 0) := by
  split
  · cases h : q.ccMinFresh with
    | none => simp
    | some v => simpa using hq.1 v h
  · omega

theorem checkPoint_time (now : Int) (e : Entry) (q : Request) (hq : q.wf) :
    now ≤ (checkPoint now e (some q) 0).2 := by
  have hm := minFresh_nonneg q hq
  unfold checkPoint
  simp only []
  omega

theorem checkPoint_age_nonneg (now : Int) (e : Entry) (q : Request) (hq : q.wf) :
    0 ≤ (checkPoint now e (some q) 0).1 := by
  have hm := minFresh_nonneg q hq
  unfold checkPoint
  simp only []
  split <;> omega

/-! ### the request block -/

theorem hackPart_stale (cfg : Config) (R : Rule) (hack : Bool) (c : Reason × Bool) (h : hackPart cfg R hack = some c) :
    c.1.isFresh = false := by
  unfold hackPart at h
  split at h
  · split at h
    · cases h
    · split at h <;> (injection h with h; subst h; decide)
  · cases h

theorem maxAgePart_stale (R : Rule) (e : Entry) (r : Request) (age : Int) (c : Reason × Bool) (h : maxAgePart R e r age = some c) :
    c.1.isFresh = false := by
  unfold maxAgePart at h
  split at h
  · split at h
    · cases h
    · split at h
      · cases h
      · split at h
        · injection h with h; subst h; decide
        · cases h
  · cases h

theorem maxStalePart_spec (r : Request) (st : Int) (c : Reason × Bool) (h : maxStalePart r st = some c) :
    ∃ ms, r.ccMaxStale = some ms ∧ -1 < st ∧ (ms = FreshDefaults.maxStaleAny ∨ st < ms) := by
  unfold maxStalePart at h
  split at h
  · rename_i ms hms
    split at h
    · split at h
      · rename_i hany
        exact ⟨ms, hms, by omega, Or.inl (by simpa using hany)⟩
      · split at h
        · rename_i hlt
          exact ⟨ms, hms, by omega, Or.inr hlt⟩
        · cases h
    · cases h
  · cases h

/-- The request block can only answer FRESH through `max-stale`, and then only for a stale entry whose staleness is
below the client's bound. -/
theorem requestChecks_fresh (cfg : Config) (R : Rule) (e : Entry) (r : Request) (hack : Bool) (age st : Int) (c : Reason × Bool)
    (h : requestChecks cfg R e r hack age st = some c) (hf : c.1.isFresh = true) :
    r.hasCc = true ∧ ∃ ms, r.ccMaxStale = some ms ∧ -1 < st ∧ (ms = FreshDefaults.maxStaleAny ∨ st < ms) := by
  unfold requestChecks at h
  split at h
  · injection h with h; subst h; exact absurd hf (by decide)
  · split at h
    · rename_i c' hc'
      injection h with h; subst h
      rw [hackPart_stale _ _ _ _ hc'] at hf; cases hf
    · split at h
      · rename_i hcc
        split at h
        · rename_i c' hc'
          injection h with h; subst h
          rw [maxAgePart_stale _ _ _ _ _ hc'] at hf; cases hf
        · exact ⟨hcc, maxStalePart_spec r st c h⟩
      · cases h

/-- With `Cache-Control: max-age=0` on the request, an entry whose reply is not `immutable`, and a rule without
ignore-reload, the request block returns a STALE reason. -/
theorem requestChecks_maxage0 (cfg : Config) (R : Rule) (e : Entry) (r : Request) (hack : Bool) (age st : Int)
    (hcc : r.hasCc = true) (hma : r.ccMaxAge = some 0) (himm : e.immutable = false) (hig : R.ignoreReload = false) :
    ∃ c, requestChecks cfg R e r hack age st = some c ∧ c.1.isFresh = false := by
  unfold requestChecks
  split
  · exact ⟨_, rfl, by decide⟩
  · cases hh : hackPart cfg R hack with
    | some c => exact ⟨c, rfl, hackPart_stale _ _ _ _ hh⟩
    | none =>
      have : maxAgePart R e r age = some (.staleExceedsRequestMaxAgeValue, false) := by
        simp [maxAgePart, hma, himm, hig]
      simp only [this]
      exact ⟨_, rfl, by decide⟩

/-- A request that carries the no-cache hack (a reload under `reload_into_ims`-style configuration) gets a STALE reason
from the request block unless the rule says ignore-reload. -/
theorem requestChecks_hack (cfg : Config) (R : Rule) (e : Entry) (r : Request) (age st : Int) (hig : R.ignoreReload = false) :
    ∃ c, requestChecks cfg R e r true age st = some c ∧ c.1.isFresh = false := by
  unfold requestChecks
  split
  · exact ⟨_, rfl, by decide⟩
  · cases hh : hackPart cfg R true with
    | some c => exact ⟨c, rfl, hackPart_stale _ _ _ _ hh⟩
    | none =>
      exfalso
      unfold hackPart at hh
      by_cases hr : (R.reloadIntoIms || cfg.reloadIntoIms) = true <;> simp [hig, hr] at hh

/-! ### the tail -/

/-- for an entry judged by its explicit expiry, the tail answers FRESH only when not stale, or through override-expire -/
theorem finalChecks_fresh_expires (cfg : Config) (R : Rule) (age st : Int) (sf : StaleFlags) (hsf : sf.expires = true)
    (hov : R.overrideExpire = false) (hf : (finalChecks cfg R age st sf).1.isFresh = true) : st = -1 := by
  unfold finalChecks at hf
  split at hf
  · rename_i h; simpa using h
  · exfalso
    simp [hov] at hf
    split at hf <;> (split at hf <;> exact absurd hf (by decide))

/-! ### timestampsSet -/

/-- With a Date that is present, not in the future and at most 24 hours old, the served date never exceeds Date
(Age and the response time only move it back). -/
theorem servedDate_le_date (now : Int) (r : Reply) (respTime : Int) (h0 : 0 ≤ r.date) (h1 : r.date ≤ now)
    (h2 : now - FreshDefaults.dateSanityWindow ≤ r.date) (h3 : 0 ≤ respTime) : servedDate now r respTime ≤ r.date := by
  unfold servedDate
  have c1 : ¬ (r.date < 0 ∨ r.date > now) := by omega
  have c2 : ¬ (r.date < now - FreshDefaults.dateSanityWindow) := by omega
  simp only [c1, c2, if_false]
  split
  · split <;> omega
  · omega

/-- the served date never exceeds the time of receipt -/
theorem servedDate_le_now (now : Int) (r : Reply) (respTime : Int) (h3 : 0 ≤ respTime) : servedDate now r respTime ≤ now := by
  unfold servedDate
  simp only []
  split
  · split
    · split <;> omega
    · omega
  · split
    · split
      · split <;> omega
      · omega
    · split
      · split <;> omega
      · omega

/-- the rebased expiry: at most the header's expiry whenever the served date is at most Date -/
theorem rebasedExpires_le (served : Int) (r : Reply) (x : Int) (h : served ≤ r.date) : rebasedExpires served r x ≤ x := by
  unfold rebasedExpires
  split <;> omega

/-! ### the hit path -/

theorem missOutcome_not_served (q : Request) : (missOutcome q).servedWithoutContact = false := by
  unfold missOutcome; split <;> rfl

theorem stalePath_not_served (e : Entry) (q : Request) (c : Check) : (stalePath e q c).servedWithoutContact = false := by
  unfold stalePath
  split
  · exact missOutcome_not_served q
  · split
    · split <;> rfl
    · split <;> rfl

/-- nothing in the cache: nothing is served from it -/
theorem lookup_none (cfg : Config) (R : Rule) (now : Int) (q : Request) :
    (lookup cfg R now none q).servedWithoutContact = false := by
  unfold lookup
  simp only [ite_self]
  exact missOutcome_not_served q

/-- For a positively cached entry, an external request and `offline_mode off`: the answer comes from the cache without
contacting the origin exactly when the request has no `flags.noCache` and `refreshCheckHTTP` says FRESH. -/
theorem lookup_served_iff (cfg : Config) (R : Rule) (now : Int) (e : Entry) (q : Request)
    (hoff : cfg.offline = false) (hint : q.internal = false) (hneg : e.negCached = false) :
    (lookup cfg R now (some e) q).servedWithoutContact = true ↔
      ((interpretNoCache cfg q).1 = false ∧ (refreshCheckHTTP cfg R now e q (interpretNoCache cfg q).2).1 = false) := by
  unfold lookup
  simp only [hint, Bool.or_false]
  cases hnc : (interpretNoCache cfg q).1
  · simp only [Bool.not_false, if_true]
    unfold hitPath
    simp only [hoff, hneg, hint, Bool.false_and, Bool.false_eq_true, if_false]
    cases hs : (refreshCheckHTTP cfg R now e q (interpretNoCache cfg q).2).1
    · simp [Outcome.servedWithoutContact]
    · simp [stalePath_not_served]
  · simp [missOutcome_not_served]

/-- a negatively cached entry is only ever sent while its expiry lies in the future -/
theorem lookup_negCached_served (cfg : Config) (R : Rule) (now : Int) (e : Entry) (q : Request)
    (hoff : cfg.offline = false) (hneg : e.negCached = true)
    (h : (lookup cfg R now (some e) q).servedWithoutContact = true) : now < e.expires := by
  by_cases h2 : e.expires ≤ now
  · exfalso
    unfold lookup at h
    simp only [] at h
    split at h
    · rw [missOutcome_not_served] at h; cases h
    · rename_i e' he'
      split at he'
      · injection he' with he'; subst he'
        unfold hitPath at h
        have h2' : decide (e.expires ≤ now) = true := by simpa using h2
        simp only [hoff, hneg, h2', Bool.true_and, Bool.false_eq_true, if_false, if_true] at h
        rw [missOutcome_not_served] at h; cases h
      · cases he'
  · omega

/-! ### the explicit lifetime of a reply -/

/-- The explicit freshness lifetime of a reply relative to its Date, as the property text defines it: s-maxage, else
max-age, else Expires − Date (an unparsable Expires counts as "already expired", lifetime 0). -/
def explicitLifetime (r : Reply) : Option Int :=
  let viaExpires : Option Int := if r.hasExpires then (if r.expiresHdr < 0 then some 0 else some (r.expiresHdr - r.date)) else none
  if r.hasCc then
    match r.sMaxAge with
    | some m => some m
    | none => match r.maxAge with
      | some m => some m
      | none => viaExpires
  else viaExpires

theorem viaExpires_spec (cfg : Config) (now : Int) (r : Reply) (L : Int) (hv : cfg.varyIgnoreExpire = false)
    (hL : (if r.hasExpires then (if r.expiresHdr < 0 then some (0:Int) else some (r.expiresHdr - r.date)) else none) = some L) :
    (if (cfg.varyIgnoreExpire && r.hasVary && r.date == r.expiresHdr) = true then (-1:Int)
      else if r.hasExpires = true then (if r.expiresHdr < 0 then now else r.expiresHdr) else -1) = r.date + L ∨
    ((if (cfg.varyIgnoreExpire && r.hasVary && r.date == r.expiresHdr) = true then (-1:Int)
      else if r.hasExpires = true then (if r.expiresHdr < 0 then now else r.expiresHdr) else -1) = now ∧ L = 0) := by
  simp only [hv, Bool.false_and, Bool.false_eq_true, if_false]
  cases he : r.hasExpires
  · simp [he] at hL
  · simp only [he, if_true] at hL ⊢
    by_cases hb : r.expiresHdr < 0
    · simp only [hb, if_true] at hL ⊢
      injection hL with hL
      right; simp; omega
    · simp only [hb, if_false] at hL ⊢
      injection hL with hL
      left; omega

/-- `hdrExpirationTime` is Date + lifetime (or the receipt time for an unparsable Expires) -/
theorem hdrExpirationTime_of_lifetime (cfg : Config) (now : Int) (r : Reply) (L : Int) (hv : cfg.varyIgnoreExpire = false)
    (hd : 0 ≤ r.date) (hL : explicitLifetime r = some L) :
    hdrExpirationTime cfg now r = r.date + L ∨ (hdrExpirationTime cfg now r = now ∧ L = 0) := by
  unfold explicitLifetime at hL
  unfold hdrExpirationTime
  have hd' : r.date ≥ 0 := hd
  cases hcc : r.hasCc
  · simp only [hcc, Bool.false_eq_true, if_false] at hL ⊢
    exact viaExpires_spec cfg now r L hv hL
  · simp only [hcc, if_true] at hL ⊢
    cases hs : r.sMaxAge with
    | some m => simp only [hs] at hL ⊢; injection hL with hL; subst hL; simp [hd']
    | none =>
      simp only [hs] at hL ⊢
      cases hm : r.maxAge with
      | some m => simp only [hm] at hL ⊢; injection hL with hL; subst hL; simp [hd']
      | none =>
        simp only [hm] at hL ⊢
        exact viaExpires_spec cfg now r L hv hL

/-! ### when `refreshCheckHTTP` says STALE -/

/-- an entry whose explicit expiry has been reached is STALE for every request without max-stale under every rule
without override-expire -/
theorem stale_of_expired (cfg : Config) (R : Rule) (now : Int) (e : Entry) (q : Request) (hack : Bool)
    (hoff : cfg.offline = false) (hov : R.overrideExpire = false) (hq : q.wf) (hms : q.hasMaxStale = false)
    (h1 : -1 < e.expires) (h2 : e.expires ≤ now) :
    (refreshCheckHTTP cfg R now e q hack).1 = true := by
  have hct := checkPoint_time now e q hq
  have hst := staleness_of_expired e (checkPoint now e (some q) 0).2 (checkPoint now e (some q) 0).1 R h1 (by omega)
  unfold refreshCheckHTTP refreshCheck
  simp only [hst, hoff, Bool.false_or]
  split
  · rfl
  · have hfin : (finalChecks cfg R (checkPoint now e (some q) 0).1 ((checkPoint now e (some q) 0).2 - e.expires) { expires := true }).1.isFresh = false := by
      cases hfr : (finalChecks cfg R (checkPoint now e (some q) 0).1 ((checkPoint now e (some q) 0).2 - e.expires) { expires := true }).1.isFresh with
      | false => rfl
      | true =>
        exfalso
        have := finalChecks_fresh_expires cfg R _ _ _ rfl hov hfr
        omega
    cases hig : q.ignoreCc
    · simp only [Bool.false_eq_true, if_false]
      cases hrc : requestChecks cfg R e q hack (checkPoint now e (some q) 0).1
          ((checkPoint now e (some q) 0).2 - e.expires) with
      | some c =>
        simp only []
        cases hfr : c.1.isFresh with
        | false => rfl
        | true =>
          exfalso
          obtain ⟨hcc, ms, hms', _, _⟩ := requestChecks_fresh _ _ _ _ _ _ _ _ hrc hfr
          simp [Request.hasMaxStale, hig, hcc, hms'] at hms
      | none => simp only [hfin]; rfl
    · simp only [if_true, hfin]; rfl

/-- an entry flagged ENTRY_REVALIDATE_ALWAYS, or flagged ENTRY_REVALIDATE_STALE with its expiry reached, is STALE for every
request under every rule -/
theorem stale_of_flags (cfg : Config) (R : Rule) (now : Int) (e : Entry) (q : Request) (hack : Bool)
    (hoff : cfg.offline = false) (hq : q.wf)
    (hflag : e.revalidateAlways = true ∨ (e.revalidateStale = true ∧ -1 < e.expires ∧ e.expires ≤ now)) :
    (refreshCheckHTTP cfg R now e q hack).1 = true := by
  unfold refreshCheckHTTP refreshCheck
  rcases hflag with h | ⟨h, h1, h2⟩
  · simp only [h, Bool.true_or, if_true, hoff, Bool.false_or]; rfl
  · have hct := checkPoint_time now e q hq
    have hst := staleness_of_expired e (checkPoint now e (some q) 0).2 (checkPoint now e (some q) 0).1 R h1 (by omega)
    have : decide ((checkPoint now e (some q) 0).2 - e.expires > -1) = true := by
      simp only [decide_eq_true_eq]; omega
    simp only [hst, h, this, Bool.and_self, Bool.or_true, if_true, hoff, Bool.false_or]; rfl

/-- a request with an effective `Cache-Control: max-age=0` against a non-immutable entry, or one carrying the no-cache
hack, is STALE under every rule without ignore-reload -/
theorem stale_of_request (cfg : Config) (R : Rule) (now : Int) (e : Entry) (q : Request) (hack : Bool)
    (hoff : cfg.offline = false) (hig : R.ignoreReload = false) (hicc : q.ignoreCc = false)
    (hdir : hack = true ∨ (q.hasCc = true ∧ q.ccMaxAge = some 0 ∧ e.immutable = false)) :
    (refreshCheckHTTP cfg R now e q hack).1 = true := by
  unfold refreshCheckHTTP refreshCheck
  simp only [hoff, Bool.false_or, hicc, Bool.false_eq_true, if_false]
  split
  · rfl
  · have hex : ∃ c, requestChecks cfg R e q hack (checkPoint now e (some q) 0).1
        (refreshStaleness e (checkPoint now e (some q) 0).2 (checkPoint now e (some q) 0).1 R).1 = some c ∧ c.1.isFresh = false := by
      rcases hdir with hh | ⟨hcc, hma, himm⟩
      · subst hh; exact requestChecks_hack cfg R e q _ _ hig
      · exact requestChecks_maxage0 cfg R e q hack _ _ hcc hma himm hig
    obtain ⟨c, hc1, hc2⟩ := hex
    rw [hc1]
    simp only [hc2]; rfl

/-- a reload (`no-cache`) either sets `flags.noCache` or the hack flag -/
theorem interpretNoCache_of_noCache (cfg : Config) (q : Request) (hicc : q.ignoreCc = false) (hcc : q.hasCc = true)
    (hnoc : q.ccNoCache = true) : (interpretNoCache cfg q).1 = true ∨ (interpretNoCache cfg q).2 = true := by
  unfold interpretNoCache
  simp only [hicc, hcc, hnoc, Bool.not_false, if_true, Bool.true_or]
  split
  · right; rfl
  · split
    · right; rfl
    · left; rfl

/-! ### histories: a stored reply followed by any number of 304 updates -/

/-- the 304s of a history, each with the time it arrived -/
abbrev Updates := List (Int × NotModified)

/-- apply the 304 updates in order -/
def applyAll (cfg : Config) (c : Cached) : Updates → Cached
  | [] => c
  | (t, n) :: rest => applyAll cfg (on304 cfg t c n 0) rest

/-- the arrival times do not go backwards, starting from `t` -/
def timesFrom (t : Int) : Updates → Prop
  | [] => True
  | (t', _) :: rest => t ≤ t' ∧ timesFrom t' rest

/-- the time of the last update (or `t` when there is none) -/
def lastTime (t : Int) : Updates → Int
  | [] => t
  | (t', _) :: rest => lastTime t' rest

/-- Invariant of a cached response at the time `t` its timestamps were last set: the entry's timestamp and expiry are
`timestampsSet()` of the stored header at `t`, and `reply->expires` is `hdrExpirationTime()` of the stored header at some
time not after `t`. -/
def Cached.inv (cfg : Config) (t : Int) (c : Cached) : Prop :=
  c.entry.timestamp = servedDate t c.reply 0 ∧
  c.entry.expires = rebasedExpires (servedDate t c.reply 0) c.reply c.replyExpires ∧
  (∃ t', t' ≤ t ∧ c.replyExpires = hdrExpirationTime cfg t' c.reply) ∧
  c.entry.negCached = false

theorem storeCached_inv (cfg : Config) (now : Int) (r : Reply) : (storeCached cfg now r 0).inv cfg now :=
  ⟨rfl, rfl, ⟨now, Int.le_refl _, rfl⟩, rfl⟩

theorem on304_inv (cfg : Config) (t t2 : Int) (c : Cached) (n : NotModified) (h : c.inv cfg t) (ht : t ≤ t2) :
    (on304 cfg t2 c n 0).inv cfg t2 := by
  obtain ⟨_, _, ⟨t', ht', hx⟩, hneg⟩ := h
  refine ⟨rfl, rfl, ?_, ?_⟩
  · unfold on304
    simp only []
    cases n.differs c.reply
    · exact ⟨t', by omega, by simpa using hx⟩
    · exact ⟨t2, Int.le_refl _, by simp⟩
  · exact hneg

theorem applyAll_inv (cfg : Config) (evs : Updates) : ∀ (t : Int) (c : Cached), c.inv cfg t → timesFrom t evs →
    (applyAll cfg c evs).inv cfg (lastTime t evs) := by
  induction evs with
  | nil => intro t c h _; exact h
  | cons ev rest ih =>
    intro t c h ht
    obtain ⟨t2, n⟩ := ev
    exact ih t2 _ (on304_inv cfg t t2 c n h ht.1) ht.2

/-- a 304 never touches the ENTRY_REVALIDATE_* flags: they are those of the first reply for ever -/
theorem applyAll_flags (cfg : Config) (evs : Updates) : ∀ (c : Cached),
    (applyAll cfg c evs).entry.revalidateAlways = c.entry.revalidateAlways ∧
    (applyAll cfg c evs).entry.revalidateStale = c.entry.revalidateStale := by
  induction evs with
  | nil => intro c; exact ⟨rfl, rfl⟩
  | cons ev rest ih =>
    intro c
    obtain ⟨t2, n⟩ := ev
    have := ih (on304 cfg t2 c n 0)
    exact this

theorem lastTime_ge (evs : Updates) : ∀ t, timesFrom t evs → t ≤ lastTime t evs := by
  induction evs with
  | nil => intro t _; exact Int.le_refl _
  | cons ev rest ih =>
    intro t h
    obtain ⟨t2, n⟩ := ev
    have := ih t2 h.2
    have := h.1
    show t ≤ lastTime t2 rest
    omega

/-- Core arithmetic: for a cached response satisfying the invariant at `t`, whose stored header carries an explicit lifetime
`L` relative to a Date that is present, not after `t` and at most 24 hours before it, the entry's expiry is not after
`Date + L` (and not after `t` for an unparsable Expires). -/
theorem inv_expires_le (cfg : Config) (t : Int) (c : Cached) (L : Int) (h : c.inv cfg t) (hv : cfg.varyIgnoreExpire = false)
    (hL : explicitLifetime c.reply = some L)
    (hd0 : 0 ≤ c.reply.date) (hd1 : c.reply.date ≤ t) (hd2 : t - FreshDefaults.dateSanityWindow ≤ c.reply.date) :
    c.entry.expires ≤ c.reply.date + L ∨ c.entry.expires ≤ t := by
  obtain ⟨hts, hex, ⟨t', ht', hx⟩, _⟩ := h
  have hsd := servedDate_le_date t c.reply 0 hd0 hd1 hd2 (Int.le_refl 0)
  have hexp := hdrExpirationTime_of_lifetime cfg t' c.reply L hv hd0 hL
  rw [← hx] at hexp
  rw [hex]
  unfold rebasedExpires
  split
  · rcases hexp with h | ⟨h, h0⟩
    · left; omega
    · right; omega
  · rcases hexp with h | ⟨h, h0⟩
    · left; omega
    · right; omega

end SquidModel.Cache.Fresh
