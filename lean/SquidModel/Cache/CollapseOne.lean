/-
One fetch for a burst: with `collapsed_forwarding on`, when every request is a plain GET, the origin's answers are cacheable and
fresh, and nothing disturbs the fetch (no failure, abort, eviction or purge), all requests are served from the entry the first
request created: the model never creates a second entry, i.e. never starts a second fetch.
-/
import SquidModel.Cache.CollapseStep

namespace SquidModel.Cache.Collapse

/-- what the origin sends is cacheable (`cachePositively` / `cacheNegatively`) and still fresh when hit -/
def Cacheable (O : Nat → Resp) : Prop :=
  ∀ e, ((O e).hdr.reuse = .cachePositively ∨ (O e).hdr.reuse = .cacheNegatively) ∧ (O e).hdr.stale = false

/-- the action, taken in state `s`, is a plain request, an origin event of a fetch that goes well, a store-client callback, or a
client departure that does not make Squid abort the fetch -/
def Calm (O : Nat → Resp) (s : State) : Action → Prop
  | .request nc => nc = false
  | .replyHeaders _ => True
  | .replyData _ _ => True
  | .replyEnd e => ∀ ent h, s.entries e = some ent → ent.hdr = some h → endsWhole O e ent h = true
  | .replyError _ => False
  | .abort _ => False
  | .wake _ _ => True
  | .clientGone c q => ∀ cl, s.clients c = some cl → quickAbort (finish s c cl .gone) cl.entry q = false
  | .evict => False
  | .purge => False

def CalmRun (O : Nat → Resp) : State → List Action → Prop
  | _, [] => True
  | s, a :: as => Calm O s a ∧ CalmRun O (step O s a) as

/-- executable form of `Calm`, for examples -/
def calmB (O : Nat → Resp) (s : State) : Action → Bool
  | .request nc => !nc
  | .replyHeaders _ => true
  | .replyData _ _ => true
  | .replyEnd e =>
    match s.entries e with
    | none => true
    | some ent =>
      match ent.hdr with
      | none => true
      | some h => endsWhole O e ent h
  | .wake _ _ => true
  | .clientGone c q =>
    match s.clients c with
    | none => true
    | some cl => !quickAbort (finish s c cl .gone) cl.entry q
  | _ => false

def calmRunB (O : Nat → Resp) : State → List Action → Bool
  | _, [] => true
  | s, a :: as => calmB O s a && calmRunB O (step O s a) as

theorem calm_of_calmB {O : Nat → Resp} {s : State} {a : Action} (h : calmB O s a = true) : Calm O s a := by
  cases a with
  | request nc => simpa [calmB, Calm] using h
  | replyHeaders e => trivial
  | replyData e k => trivial
  | replyEnd e =>
    intro ent hd he hh
    simp only [calmB, he, hh] at h
    exact h
  | replyError e => simp [calmB] at h
  | abort e => simp [calmB] at h
  | wake c k => trivial
  | clientGone c q =>
    intro cl hc
    simp only [calmB, hc] at h
    simpa using h
  | evict => simp [calmB] at h
  | purge => simp [calmB] at h

theorem calmRun_of_calmRunB {O : Nat → Resp} {s : State} {as : List Action} (h : calmRunB O s as = true) : CalmRun O s as := by
  induction as generalizing s with
  | nil => trivial
  | cons a as ih =>
    simp only [calmRunB, Bool.and_eq_true] at h
    exact ⟨calm_of_calmB h.1, ih h.2⟩

/-- exactly one entry, public and healthy, and every transaction is attached to it -/
structure One (s : State) : Prop where
  cf : s.cf = true
  nextE : s.nextE = 1
  pub : s.pub = some 0
  fresh : ∀ e, 1 ≤ e → s.entries e = none
  ent : ∃ ent, s.entries 0 = some ent ∧ ent.keyPrivate = false ∧ ent.relReq = false ∧ ent.aborted = false ∧
    (ent.reqColl = true → ent.fwd = true ∧ ent.pending = true ∧ ent.hdr = none) ∧ (∀ h, ent.hdr = some h → h.stale = false)
  cli : ∀ c cl, s.clients c = some cl → cl.entry = 0

/-- nothing has happened yet -/
structure Zero (s : State) : Prop where
  cf : s.cf = true
  nextE : s.nextE = 0
  pub : s.pub = none
  ent : ∀ e, s.entries e = none
  cli : ∀ c, s.clients c = none

theorem find_one {s : State} (h : One s) : find s = (s, some 0) := by
  obtain ⟨ent, he, _, _, hab, hrc, _⟩ := h.ent
  unfold find
  rw [h.pub]
  dsimp only
  rw [he]
  dsimp only
  cases hr : ent.reqColl with
  | false => simp
  | true =>
    obtain ⟨hf, hp, _⟩ := hrc hr
    simp [locked, he, hf, isAccepting, hp, hab]

theorem one_nextC {s : State} (h : One s) (n : Nat) : One { s with nextC := n } :=
  ⟨h.cf, h.nextE, h.pub, h.fresh, h.ent, h.cli⟩

theorem one_setC {s : State} (h : One s) (c : Nat) (cl : Client) (he : cl.entry = 0) : One (setC s c cl) := by
  refine ⟨h.cf, h.nextE, h.pub, h.fresh, h.ent, ?_⟩
  intro x a ha
  by_cases hx : x = c
  · subst hx; simp at ha; subst ha; exact he
  · simp [hx] at ha; exact h.cli x a ha

theorem one_request {s : State} (h : One s) : One (request s false) := by
  have h0 := one_nextC h (s.nextC + 1)
  obtain ⟨ent, he, _, hrel, hab, _, _⟩ := h0.ent
  unfold request
  simp only [Bool.false_eq_true, if_false]
  rw [find_one h0]
  dsimp only
  rw [he]
  dsimp only
  have hcf : s.cf = true := h.cf
  rw [if_neg (by simp [validToSend, hrel, hab]), if_neg (by simp [hcf])]
  apply one_setC h0
  rfl

theorem zero_request {s : State} (h : Zero s) : One (request s false) := by
  unfold request
  simp only [Bool.false_eq_true, if_false]
  have hfind : find { s with nextC := s.nextC + 1 } = ({ s with nextC := s.nextC + 1 }, none) := by
    unfold find
    simp [h.pub]
  rw [hfind]
  dsimp only
  unfold startFetch
  dsimp only
  have hcf : s.cf = true := h.cf
  simp only [hcf, if_true]
  have hne : s.nextE = 0 := h.nextE
  simp only [hne]
  unfold allowCollapsing
  simp only [setE_entries, if_true]
  unfold makePublic
  simp only [setE_entries, if_true, Bool.false_eq_true, if_false]
  unfold setPublicKey
  simp only [setE_entries, if_true, Bool.not_true, Bool.false_eq_true, if_false]
  unfold forcePublicKey
  simp only [setE_pub, h.pub, setE_entries, if_true]
  refine ⟨rfl, rfl, rfl, ?_, ?_, ?_⟩
  · intro e he
    have : e ≠ 0 := by omega
    simp [this, h.ent e]
  · refine ⟨{ keyPrivate := false, reqColl := true }, by simp, rfl, rfl, rfl, ?_, ?_⟩
    · intro _; exact ⟨rfl, rfl, rfl⟩
    · intro x hx; cases hx
  · intro c cl hc
    by_cases hx : c = s.nextC
    · subst hx; simp at hc; subst hc; rfl
    · simp [hx, h.cli c] at hc

/-- helper: replacing entry 0 by a healthy record keeps `One` -/
theorem one_setE {s : State} (h : One s) (ent' : Entry) (h1 : ent'.keyPrivate = false) (h2 : ent'.relReq = false)
    (h3 : ent'.aborted = false) (h4 : ent'.reqColl = true → ent'.fwd = true ∧ ent'.pending = true ∧ ent'.hdr = none)
    (h5 : ∀ x, ent'.hdr = some x → x.stale = false) : One (setE s 0 ent') := by
  refine ⟨h.cf, h.nextE, h.pub, ?_, ⟨ent', by simp, h1, h2, h3, h4, h5⟩, h.cli⟩
  intro e he
  have : e ≠ 0 := by omega
  simp [this, h.fresh e he]

theorem one_replyHeaders {O : Nat → Resp} (hO : Cacheable O) {s : State} (h : One s) (e : Nat) : One (replyHeaders O s e) := by
  by_cases he0 : e = 0
  · subst he0
    obtain ⟨ent, he, hkp, hrel, hab, hrc, hst⟩ := h.ent
    unfold replyHeaders
    rw [he]
    dsimp only
    split
    · exact h
    · have hrem : removeOldPublic s 0 ent.keyPrivate (O 0).hdr.removes = s := by
        unfold removeOldPublic
        simp [hkp, find_one h]
      rw [hrem, he]
      dsimp only
      have hra : reuseAnswer s.relFirst false (O 0).hdr.reuse = (O 0).hdr.reuse := by
        unfold reuseAnswer
        cases s.relFirst <;> simp
      rw [hrel, hra]
      have hmp : makePublic s 0 = (s, true) := by
        unfold makePublic
        rw [he]
        simp [hrel, setPublicKey, he, hkp]
      have hap : applyReuse s 0 (O 0).hdr.reuse = s := by
        unfold applyReuse
        rcases (hO 0).1 with hr | hr <;> rw [hr] <;> simp [hmp]
      rw [hap, he]
      dsimp only
      refine one_setE h _ (by exact hkp) (by exact hrel) (by exact hab) ?_ ?_
      · intro hx; cases hx
      · intro x hx
        simp at hx
        rw [← hx]
        exact (hO 0).2
  · unfold replyHeaders
    rw [h.fresh e (by omega)]
    exact h

theorem one_replyData {O : Nat → Resp} {s : State} (h : One s) (e k : Nat) : One (replyData O s e k) := by
  by_cases he0 : e = 0
  · subst he0
    obtain ⟨ent, he, hkp, hrel, hab, hrc, hst⟩ := h.ent
    unfold replyData
    rw [he]
    dsimp only
    split
    · exact h
    · rename_i hd hhd
      split
      · exact h
      · refine one_setE h _ (by exact hkp) (by exact hrel) (by exact hab) ?_ ?_
        · intro hx
          have := (hrc hx).2.2
          rw [hhd] at this
          cases this
        · exact hst
  · unfold replyData
    rw [h.fresh e (by omega)]
    exact h

theorem one_replyEnd {O : Nat → Resp} {s : State} (h : One s) (e : Nat) (hc : Calm O s (.replyEnd e)) : One (replyEnd O s e) := by
  by_cases he0 : e = 0
  · subst he0
    obtain ⟨ent, he, hkp, hrel, hab, hrc, hst⟩ := h.ent
    unfold replyEnd
    rw [he]
    dsimp only
    split
    · exact h
    · rename_i hd hhd
      split
      · exact h
      · rw [hc ent hd he hhd]
        simp only [if_true]
        refine one_setE h _ (by exact hkp) (by exact hrel) (by exact hab) ?_ ?_
        · intro hx
          have := (hrc hx).2.2
          rw [hhd] at this
          cases this
        · exact hst
  · unfold replyEnd
    rw [h.fresh e (by omega)]
    exact h

theorem one_finish {s : State} (h : One s) (c : Nat) (cl : Client) (v : Verdict) (he : cl.entry = 0) : One (finish s c cl v) :=
  one_setC h c _ he

theorem one_wake {s : State} (h : One s) (c k : Nat) : One (wake s c k) := by
  unfold wake
  split
  · exact h
  · rename_i cl hcl
    have hce : cl.entry = 0 := h.cli c cl hcl
    obtain ⟨ent, he, hkp, hrel, hab, hrc, hst⟩ := h.ent
    split
    · exact h
    · rw [hce, he]
      dsimp only
      split
      · split
        · exact h
        · split
          · simp only [mayStartHitting, hkp, Bool.not_false, Bool.true_or, Bool.not_true, Bool.false_eq_true, if_false, hab]
            split
            · exact h
            · rename_i hd hhd
              split
              · exact one_finish h c cl _ (by first | exact hce | rfl)
              · exact one_setC h c _ (by first | exact hce | rfl)
          · simp only [hab, Bool.false_eq_true, if_false]
            split
            · exact h
            · exact one_setC h c _ (by first | exact hce | rfl)
      · simp only [hab, Bool.false_eq_true, if_false]
        split
        · exact h
        · split
          · exact one_finish h c _ _ (by first | exact hce | rfl)
          · exact one_setC h c _ (by first | exact hce | rfl)
      · exact h

theorem one_clientGone {O : Nat → Resp} {s : State} (h : One s) (c : Nat) (q : Bool) (hc : Calm O s (.clientGone c q)) :
    One (clientGone s c q) := by
  unfold clientGone
  split
  · exact h
  · rename_i cl hcl
    split
    · exact h
    · dsimp only
      rw [hc cl hcl]
      simp only [Bool.false_eq_true, if_false]
      exact one_finish h c cl _ (h.cli c cl hcl)

theorem one_step {O : Nat → Resp} (hO : Cacheable O) {s : State} (h : One s) (a : Action) (hc : Calm O s a) : One (step O s a) := by
  cases a with
  | request nc =>
    have : nc = false := hc
    subst this
    exact one_request h
  | replyHeaders e => exact one_replyHeaders hO h e
  | replyData e k => exact one_replyData h e k
  | replyEnd e => exact one_replyEnd h e hc
  | replyError e => exact absurd hc (by simp [Calm])
  | abort e => exact absurd hc (by simp [Calm])
  | wake c k => exact one_wake h c k
  | clientGone c q => exact one_clientGone h c q hc
  | evict => exact absurd hc (by simp [Calm])
  | purge => exact absurd hc (by simp [Calm])

theorem zero_step {O : Nat → Resp} {s : State} (h : Zero s) (a : Action) (hc : Calm O s a) : Zero (step O s a) ∨ One (step O s a) := by
  cases a with
  | request nc =>
    have : nc = false := hc
    subst this
    exact Or.inr (zero_request h)
  | replyHeaders e => left; simp only [step, replyHeaders, h.ent e]; exact h
  | replyData e k => left; simp only [step, replyData, h.ent e]; exact h
  | replyEnd e => left; simp only [step, replyEnd, h.ent e]; exact h
  | replyError e => exact absurd hc (by simp [Calm])
  | abort e => exact absurd hc (by simp [Calm])
  | wake c k => left; simp only [step, wake, h.cli c]; exact h
  | clientGone c q => left; simp only [step, clientGone, h.cli c]; exact h
  | evict => exact absurd hc (by simp [Calm])
  | purge => exact absurd hc (by simp [Calm])

theorem one_run {O : Nat → Resp} (hO : Cacheable O) {s : State} (h : One s) (as : List Action) (hc : CalmRun O s as) :
    One (run O s as) := by
  induction as generalizing s with
  | nil => exact h
  | cons a as ih => exact ih (one_step hO h a hc.1) hc.2

theorem zero_run {O : Nat → Resp} (hO : Cacheable O) {s : State} (h : Zero s) (as : List Action) (hc : CalmRun O s as) :
    Zero (run O s as) ∨ One (run O s as) := by
  induction as generalizing s with
  | nil => exact Or.inl h
  | cons a as ih =>
    rcases zero_step h a hc.1 with hz | ho
    · exact ih hz hc.2
    · exact Or.inr (one_run hO ho as hc.2)

theorem zero_init (rf : Bool) : Zero (State.init true rf) := ⟨rfl, rfl, rfl, fun _ => rfl, fun _ => rfl⟩

end SquidModel.Cache.Collapse
