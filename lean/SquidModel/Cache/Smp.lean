/-
Model of how SMP workers share one cache index: the `Ipc::StoreMap` protocol as `MemStore` (shared memory cache) and
`Rock::SwapDir` (rock cache_dir, served by a disker) use it across worker processes.

Every StoreMap API call is one atomic step here (what makes that sound is the subject of C54/C55: `ReadWriteLock` and the
lock-free `StoreMap` methods); the state is what all workers see in the shared segment.

  anchor  = `Ipc::StoreMapAnchor` of slot `hash key` (`anchorIndexByKey`): key, lock (one writer, possibly `appending`, or readers),
            `waitingToBeFreed`, `complete()`, and the bytes of its slice chain
  writer  = the worker whose `StoreEntry` is being written: `MemStore::startCaching` / `Rock::SwapDir::createStoreIO` →
            `openForWriting` (fails when the slot is locked; frees the old content of an unlocked slot), `startAppending` (MemStore,
            known reply size only), `copyToShm` / `writeToDisk` (append), `completeWriting` → `closeForWriting` /
            `switchWritingToReading`, `MemStore::disconnect` / `Rock::SwapDir::disconnect` → `abortWriting`
  reader  = a worker's transaction that found the entry: `MemStore::get` / `anchorToCache`, `Rock::SwapDir::get` → `openForReading`
            (needs the same key, no `waitingToBeFreed`, no writer unless `appending`), `copyFromShm` / `updateAnchored` /
            `Rock::IoState::read` (copy the next bytes; `anchor.complete()` decides `STORE_OK`), `closeForReading`
  invalidation = `evictCached` / `evictIfFound` → `freeEntry` / `freeEntryByKey` (PURGE, a newer response, `release()`):
            `waitingToBeFreed`; the chain is freed when the last lock goes (`closeForReadingAndFreeIdle`, `abortWriting`)
  replacement = `purgeOne`: an unlocked entry is dropped to make room

`O key ver` are the body bytes of the origin's response number `ver` for `key`; `h` is the hash.  `log` is ghost state.
-/
namespace SquidModel.Cache.Smp

abbrev Key := Nat
abbrev Ver := Nat

structure Anchor where
  /-- `none` = `empty()` -/
  key : Option Key := none
  /-- ghost: which response of the origin the writer stores -/
  ver : Ver := 0
  /-- ghost: incarnation counter (`rewind`) -/
  gen : Nat := 0
  /-- the worker that holds the write lock -/
  writer : Option Nat := none
  /-- `lock.appending` -/
  appending : Bool := false
  /-- the reader sessions that hold the shared lock -/
  readers : List Nat := []
  /-- `waitingToBeFreed` -/
  wtbf : Bool := false
  /-- the writer closed the entry: `StoreMapAnchor::complete()` -/
  complete : Bool := false
  /-- the bytes in the slice chain -/
  data : List Nat := []
deriving Repr, Inhabited

structure Reader where
  worker : Nat
  slot : Nat
  gen : Nat
  key : Key
  ver : Ver
  /-- what was copied into the worker's local entry -/
  got : List Nat
  /-- `some true`: the store said `STORE_OK` and everything was copied; `some false`: cut short -/
  done : Option Bool
  attached : Bool
deriving Repr, Inhabited

inductive Event where
  | opened (r slot gen : Nat)
  | invalidated (slot gen : Nat)
deriving Repr, DecidableEq, Inhabited

structure State where
  anchors : Nat → Anchor
  readers : Nat → Option Reader
  nextR : Nat
  /-- ghost, newest first -/
  log : List Event

def State.init : State := { anchors := fun _ => {}, readers := fun _ => none, nextR := 0, log := [] }

def setA (s : State) (i : Nat) (a : Anchor) : State := { s with anchors := fun x => if x = i then a else s.anchors x }
def setR (s : State) (r : Nat) (rd : Reader) : State := { s with readers := fun x => if x = r then some rd else s.readers x }

def Anchor.locked (a : Anchor) : Bool := a.writer.isSome || !a.readers.isEmpty

/-- `freeChain` + `rewind` once nobody holds the slot -/
def tryFree (s : State) (i : Nat) : State :=
  let a := s.anchors i
  if a.wtbf && !a.locked then setA s i { gen := a.gen } else s

/-- `openForWriting`: exclusive lock or nothing; an unlocked old entry in the slot is freed -/
def openW (h : Key → Nat) (s : State) (w : Nat) (k : Key) (v : Ver) : State :=
  let i := h k
  let a := s.anchors i
  if a.locked then s
  else
    let s1 : State := if a.key.isSome then { s with log := .invalidated i a.gen :: s.log } else s
    setA s1 i { key := some k, ver := v, gen := a.gen + 1, writer := some w }

/-- `startAppending` -/
def startApp (s : State) (w i : Nat) : State :=
  let a := s.anchors i
  if a.writer = some w then setA s i { a with appending := true } else s

/-- the writer stores up to `n` more bytes of the response -/
def append (O : Key → Ver → List Nat) (s : State) (w i n : Nat) : State :=
  let a := s.anchors i
  match a.key with
  | none => s
  | some k => if a.writer = some w then setA s i { a with data := a.data ++ ((O k a.ver).drop a.data.length).take n } else s

/-- `closeForWriting` / `switchWritingToReading`: only a writer that stored the whole response does this -/
def closeW (O : Key → Ver → List Nat) (s : State) (w i : Nat) : State :=
  let a := s.anchors i
  match a.key with
  | none => s
  | some k =>
    if a.writer = some w && a.data.length == (O k a.ver).length then
      tryFree (setA s i { a with writer := none, appending := false, complete := true }) i
    else s

/-- `abortWriting` -/
def abortW (s : State) (w i : Nat) : State :=
  let a := s.anchors i
  if a.writer = some w then
    tryFree { setA s i { a with writer := none, appending := false, wtbf := true } with log := .invalidated i a.gen :: s.log } i
  else s

/-- `openForReading` -/
def openR (h : Key → Nat) (s : State) (w : Nat) (k : Key) : State :=
  let i := h k
  let a := s.anchors i
  if a.key = some k && !a.wtbf && (a.writer.isNone || a.appending) then
    let r := s.nextR
    let rd : Reader := { worker := w, slot := i, gen := a.gen, key := k, ver := a.ver, got := [], done := none, attached := true }
    { setR (setA s i { a with readers := r :: a.readers }) r rd with nextR := r + 1, log := .opened r i a.gen :: s.log }
  else s

/-- `copyFromShm` / `Rock::IoState::read`: copy up to `n` more bytes, or learn how the object ended -/
def read (s : State) (r n : Nat) : State :=
  match s.readers r with
  | none => s
  | some rd =>
    if !(rd.attached && rd.done.isNone) then s
    else
      let a := s.anchors rd.slot
      if rd.got.length < a.data.length then setR s r { rd with got := rd.got ++ (a.data.drop rd.got.length).take n }
      else if a.complete then setR s r { rd with done := some true }
      else if a.writer.isNone then setR s r { rd with done := some false }
      else s

/-- `closeForReading` / `closeForReadingAndFreeIdle` -/
def closeR (s : State) (r : Nat) : State :=
  match s.readers r with
  | none => s
  | some rd =>
    if !rd.attached then s
    else
      let a := s.anchors rd.slot
      let s1 := setR s r { rd with attached := false, done := if rd.done.isNone then some false else rd.done }
      tryFree (setA s1 rd.slot { a with readers := a.readers.filter (· != r) }) rd.slot

/-- `freeEntryByKey` / `freeEntry`: PURGE, a newer response, `release()` in any worker -/
def freeKey (h : Key → Nat) (s : State) (k : Key) : State :=
  let i := h k
  let a := s.anchors i
  if a.key = some k && !a.wtbf then
    tryFree { setA s i { a with wtbf := true } with log := .invalidated i a.gen :: s.log } i
  else s

/-- `purgeOne`: the replacement policy drops an unlocked entry -/
def evict (s : State) (i : Nat) : State :=
  let a := s.anchors i
  if a.key.isSome && !a.locked && !a.wtbf then
    tryFree { setA s i { a with wtbf := true } with log := .invalidated i a.gen :: s.log } i
  else s

inductive Action where
  | openW (w : Nat) (k : Key) (v : Ver)
  | startApp (w i : Nat)
  | append (w i n : Nat)
  | closeW (w i : Nat)
  | abortW (w i : Nat)
  | openR (w : Nat) (k : Key)
  | read (r n : Nat)
  | closeR (r : Nat)
  | freeKey (k : Key)
  | evict (i : Nat)
deriving Repr, DecidableEq

def step (h : Key → Nat) (O : Key → Ver → List Nat) (s : State) : Action → State
  | .openW w k v => openW h s w k v
  | .startApp w i => startApp s w i
  | .append w i n => append O s w i n
  | .closeW w i => closeW O s w i
  | .abortW w i => abortW s w i
  | .openR w k => openR h s w k
  | .read r n => read s r n
  | .closeR r => closeR s r
  | .freeKey k => freeKey h s k
  | .evict i => evict s i

def run (h : Key → Nat) (O : Key → Ver → List Nat) (s : State) (as : List Action) : State := as.foldl (step h O) s

end SquidModel.Cache.Smp
