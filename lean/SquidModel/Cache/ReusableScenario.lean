/-
The end-to-end scenario of props/C11.py put together from the pieces:
request 1 → `createEntry` → reply parsed (`getCc`, `hdrExpirationTime`, `timestampsSet`) → `refreshIsCachable` →
`reusableReply` → `applyDecision` (+ `negativeCache`, `revalidateFlags`); then request 2 →
`clientReplyContext::identifyStoreObject / identifyFoundObject / cacheHit` (src/client_side_reply.cc) reduced to:
no-cache request ⇒ miss; no public entry ⇒ miss; expired negative entry ⇒ miss; live negative entry ⇒ hit;
`refreshCheckHTTP` stale ⇒ revalidation; else hit.

The two requests are taken to happen within the same second `now` (the generator keeps every time offset away from the
thresholds by more than the possible skew).
-/
import SquidModel.Cache.ReusableRefresh

namespace SquidModel.Cache
open SquidModel

inductive Cfg | default | negativeTtl | overrides
  deriving DecidableEq, Repr

inductive Second | plain | sameAuth | identical
  deriving DecidableEq, Repr

inductive TimeField | absent | bad | offset (o : Int)
  deriving DecidableEq, Repr

inductive Kind | hit | reval | miss
  deriving DecidableEq, Repr

structure Scenario where
  cfg : Cfg
  method : String
  authHeader : Bool
  userInfo : Bool
  reqCc : List Bytes           -- values of the request's Cache-Control fields
  status : Nat
  respCc : List Bytes          -- values of the response's Cache-Control fields
  contentType : Option Bytes
  date : TimeField
  expires : TimeField
  lastModified : TimeField
  age : Option Nat
  contentLength : Nat
  pragmaNoCache : Bool
  second : Second
  deriving Repr

structure Observation where
  decision : Decision
  kind : Kind
  seq : Nat
  deriving Repr

/-- the instant of the scenario (any value far from 0 works: only differences and signs matter) -/
def T0 : Int := 1790000000

def TimeField.value (now : Int) : TimeField → Int
  | .absent => -1
  | .bad => -1
  | .offset o => now + o

/-- field values as stored by the header parser: white space trimmed at both ends; C strings end at the first NUL -/
def fieldValue (v : Bytes) : Bytes := rtrim ((v.takeWhile (· != 0)).dropWhile isSpaceC)

def methodClass (m : String) : String :=
  if m != "NONE" && m != "OTHER" && Gen.Reusable.methodNames.contains m then m else "OTHER"

/-- the catch-all rule of the stock configuration (minutes → seconds); the scenario URLs match no earlier rule -/
def stockDotRule : RefreshRule :=
  match Gen.Reusable.stockRefreshPatterns.find? (fun e => e.2.1 == ".") with
  | some e => { min := (e.2.2.1 : Int) * 60, pct := e.2.2.2.1, max := (e.2.2.2.2.1 : Int) * 60 }
  | none => { min := Gen.Reusable.builtinRefresh.1, pct := Gen.Reusable.builtinRefresh.2.1, max := Gen.Reusable.builtinRefresh.2.2 }

def Cfg.config : Cfg → Config
  | .default => {}
  | .negativeTtl => { negativeTtl := 3600 }
  | .overrides => { ov := { ignoreNoStore := true, ignorePrivate := true } }

/-- request 1 as the request-side code sees it -/
def Scenario.request1 (sc : Scenario) : Request :=
  { method := methodClass sc.method, cc := getCc (sc.reqCc.map fieldValue), hasAuthorization := sc.authHeader,
    hasUserInfo := sc.userInfo, authSent := sc.authHeader || sc.userInfo }

def Scenario.replyCc (sc : Scenario) : Option Cc := getCc (sc.respCc.map fieldValue)

def Scenario.contentLengthHdr (sc : Scenario) : Int :=
  if sc.status == 204 || sc.status == 304 then -1 else sc.contentLength

def Scenario.times (sc : Scenario) (now : Int) : Times :=
  let cc := sc.replyCc
  let date := sc.date.value now
  let expHdr : Option Int := match sc.expires with | .absent => none | f => some (f.value now)
  let expires := hdrExpirationTime now cc date expHdr
  let age : Int := match sc.age with | some a => a | none => -1
  timestampsSet now date expires (sc.lastModified.value now) age 0

def Scenario.reply (sc : Scenario) (now : Int) : Reply :=
  let cc := sc.replyCc
  let date := sc.date.value now
  let expHdr : Option Int := match sc.expires with | .absent => none | f => some (f.value now)
  let immutable := match cc with | some c => c.immutable | none => false
  { status := sc.status, cc := cc, contentType := sc.contentType.map fieldValue, date := date,
    expires := hdrExpirationTime now cc date expHdr,
    refreshCachable := refreshIsCachable {} stockDotRule (sc.times now) immutable now Gen.Reusable.defaultMinimumExpiryTime sc.contentLengthHdr }

/-- the decision logged for request 1 -/
def Scenario.decision (sc : Scenario) : Decision :=
  reusableReply sc.cfg.config {} (createEntry sc.request1) sc.request1 (sc.reply T0)

/-- the entry after request 1 -/
def Scenario.entryAfter (sc : Scenario) : Entry :=
  applyDecision (createEntry sc.request1) sc.decision.answer true

def Scenario.request2Cc (sc : Scenario) : Option Cc :=
  match sc.second with
  | .identical => getCc (sc.reqCc.map fieldValue)
  | _ => none

/-- flags.noCache of request 2 (no Pragma is sent; reload_into_ims and refresh-pattern reload options are off) -/
def Scenario.request2NoCache (sc : Scenario) : Bool :=
  (match sc.request2Cc with | some c => c.noCache | none => false) || methodClass sc.method == "OTHER"

def observe (sc : Scenario) : Observation :=
  let now := T0
  let d := sc.decision
  let e := sc.entryAfter
  let t0 := sc.times now
  let neg := negativeCache now sc.cfg.config.negativeTtl t0.expires
  let t : Times := if e.negCached then { t0 with expires := neg.1 } else t0
  let negFlag := e.negCached && neg.2
  let rep := sc.reply now
  let reval := revalidateFlags {} rep sc.pragmaNoCache
  let immutable := match rep.cc with | some c => c.immutable | none => false
  let kind : Kind :=
    if sc.request2NoCache then .miss
    else if !e.isPublic || e.releaseRequest then .miss
    else if negFlag && t.expires ≤ now then .miss
    else if negFlag then .hit
    else if refreshCheckHTTP {} stockDotRule t reval immutable { cc := sc.request2Cc } now then .reval
    else .hit
  { decision := d, kind := kind, seq := match kind with | .miss => 2 | _ => 1 }

end SquidModel.Cache
