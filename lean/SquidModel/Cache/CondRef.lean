/-
C14 reference: RFC 9110 section 13 evaluation of a conditional GET/HEAD, written from the RFC text and independent of the
Squid list splitter (this is the specification the theorems compare the model with, and what the scripted origin of the
end-to-end rig computes; props/C14.py `ref_eval` is its python twin).

* list syntax (RFC 9110 5.6.1): elements separated by commas that are outside DQUOTE pairs (entity-tags have no escapes),
  optional whitespace (SP / HTAB) around elements, empty elements ignored
* entity-tag = [ "W/" ] DQUOTE *etagc DQUOTE, etagc = %x21 / %x23-7E / obs-text (8.8.3); "*" names any current representation
* If-Match uses the strong comparison, If-None-Match the weak one (13.1.1, 13.1.2)
* precedence (13.2.2): If-Match false ⇒ 412; If-None-Match present ⇒ 304 when it matches, else perform (If-Modified-Since
  ignored); else If-Modified-Since a valid date and last modification ≤ it ⇒ 304; else perform (200)
-/
import SquidModel.Cache.CondETag

namespace SquidModel.Cache.Cond.Ref

def isOws (b : UInt8) : Bool := b == 32 || b == 9
def isEtagc (b : UInt8) : Bool := b == 0x21 || (0x23 ≤ b && b ≤ 0x7e) || 0x80 ≤ b

def consHead (c : UInt8) : List Bytes → List Bytes
  | [] => [[c]]
  | h :: t => (c :: h) :: t

/-- split at commas outside DQUOTE pairs; the result is never empty (its head is the element being read) -/
def split : Bool → Bytes → List Bytes
  | _, [] => [[]]
  | q, c :: s =>
    if c == dq then consHead c (split (!q) s)
    else if c == comma && !q then [] :: split false s
    else consHead c (split q s)

def trimOws (s : Bytes) : Bytes := ((s.dropWhile isOws).reverse.dropWhile isOws).reverse

def joinComma : List Bytes → Bytes
  | [] => []
  | [f] => f
  | f :: g :: rest => f ++ [comma] ++ joinComma (g :: rest)

/-- the elements of a list-valued field given as several field lines -/
def elements (fields : List Bytes) : List Bytes :=
  ((split false (joinComma fields)).map trimOws).filter (fun e => !e.isEmpty)

inductive Tag
  | star
  | tag (weak : Bool) (opq : Bytes)
  deriving DecidableEq, Repr

/-- entity-tag / "*" recogniser -/
def parseTag (e : Bytes) : Option Tag :=
  if e == [star] then some .star
  else
    let weak := [87, 47].isPrefixOf e
    let r := if weak then e.drop 2 else e
    match r with
    | 34 :: rest =>
      if rest.getLast? = some dq ∧ rest.dropLast.all isEtagc then some (.tag weak rest.dropLast) else none
    | _ => none

/-- the representation's own entity-tag, from its ETag field value (surrounding whitespace is not part of the value) -/
def repTag (etag : Option Bytes) : Option (Bool × Bytes) :=
  match etag.bind (fun v => parseTag (trimValue v)) with
  | some (.tag w o) => some (w, o)
  | _ => none

/-- does one list element name the representation? -/
def elemMatches (rep : Option (Bool × Bytes)) (weakOk : Bool) (e : Bytes) : Bool :=
  match parseTag e with
  | some .star => true
  | some (.tag w o) =>
    match rep with
    | some (rw, ro) => o == ro && (weakOk || (!w && !rw))
    | none => false
  | none => false

def fieldMatches (fields : List Bytes) (etag : Option Bytes) (weakOk : Bool) : Bool :=
  (elements fields).any (elemMatches (repTag etag) weakOk)

inductive Verdict | preconditionFailed | notModified | perform
  deriving DecidableEq, Repr

/-- steps 3-5 of RFC 9110 13.2.2 (after If-Match): If-None-Match when present, else If-Modified-Since -/
def evalRest (inm : Option (List Bytes)) (ims : Option Int) (etag : Option Bytes) (modTime : Option Int) : Verdict :=
  match inm with
  | some f => if fieldMatches f etag true then .notModified else .perform
  | none =>
    match ims, modTime with
    | some t, some m => if m ≤ t then .notModified else .perform
    | _, _ => .perform

/-- RFC 9110 13.2.2 for GET/HEAD. `ims`: the If-Modified-Since date when present and valid; `modTime`: the representation's
last modification date when it has one -/
def eval (inm im : Option (List Bytes)) (ims : Option Int) (etag : Option Bytes) (modTime : Option Int) : Verdict :=
  if (match im with | some f => !fieldMatches f etag false | none => false) then .preconditionFailed
  else evalRest inm ims etag modTime

end SquidModel.Cache.Cond.Ref
