/-
Model of what a rock cache_dir keeps over a clean restart.

A rock db is an array of slots; a clean shutdown writes nothing (the index lives in shared memory and is lost), the start
re-reads every slot: `Rock::Rebuild` (src/fs/rock/RockRebuild.cc) `loadOneSlot`, `useNewSlot`, `startNewEntry`, `primeNewEntry`,
`addSlotToEntry`, `chainSlots`, `importEntry`, `mapSlot`, `finalizeOrThrow`/`finalizeOrFree`, `freeBadEntry`, `validateOneEntry`.
The run-time side (src/fs/rock/RockIoState.cc `writeToDisk`, src/fs/rock/RockSwapDir.cc `noteFreeMapSlice`) matters through one fact:
freeing an entry (PURGE, replacement by a newer response) returns its slots to the free list but leaves the cells on disk as they are.

This file models the rebuild per entry position: `fileNoByKey` is assumed injective on the keys present (the harness excludes
colliding URLs), so all cells with one key go through one `LoadingEntry`.  Cells are what clean runs leave behind: sane headers
(`DbCellHeader::sane`), inode payloads that parse as swap metadata.  Corrupted images are the subject of C57/C16.
-/
import SquidModel.Gen.RestartConsts

namespace SquidModel.Cache.RestartRock
open SquidModel.Gen.RestartConsts

abbrev Key := Nat

/-- one non-empty db cell: `DbCellHeader` + the piece of the entry it carries -/
structure Cell (β : Type) where
  slot : Nat
  key : Key
  /-- `firstSlot` -/
  first : Nat
  /-- `nextSlot` (`none` = -1) -/
  next : Option Nat
  /-- `payloadSize` -/
  payload : Nat
  /-- `entrySize` (0 = unknown: every write but the last one of an entry) -/
  entrySize : Nat
  data : β

inductive LState | empty | loading | loaded | corrupted
deriving DecidableEq, Repr

/-- `LoadingEntry` + the anchor fields the rebuild uses -/
structure LEntry where
  state : LState := .empty
  anchored : Bool := false
  /-- `le.size`: payload bytes of all slots added to the entry -/
  size : Nat := 0
  /-- `anchor.basics.swap_file_sz` (0 = unknown) -/
  total : Nat := 0
  /-- `anchor.start` -/
  start : Option Nat := none
deriving DecidableEq, Repr

/-- `Ipc::StoreMapSlice` of a mapped slot + the `finalized` flag of its `LoadingSlot` -/
structure Slice where
  slot : Nat
  size : Nat
  next : Option Nat
  finalized : Bool := false
deriving DecidableEq, Repr

structure St where
  le : LEntry := {}
  /-- the mapped slots of this entry (`mapSlot`) -/
  slices : List Slice := []
deriving DecidableEq, Repr

/-- `finalizeOrThrow`: walk the map-linked slots from `anchor.start`; every slot must be mapped and not finalised yet, the walk must
end at -1 having seen exactly `le.size` bytes.  `none` = one of the `Must`s throws (the caller frees the entry). -/
def walk (slices : List Slice) : Nat → Option Nat → Nat → Nat → Option (List Nat)
  | 0, _, _, _ => none
  | fuel + 1, cur, seen, size =>
    match cur with
    | none => if seen = size then some [] else none                    -- Must(slotId < 0); Must(mappedSize == le.size)
    | some id =>
      if seen < size then
        match slices.find? (fun s => s.slot == id) with
        | none => none                                                 -- Must(slot.mapped())
        | some s =>
          if s.finalized then none                                     -- Must(!slot.finalized())
          else if s.size = 0 then none                                 -- Must(mapSlice.size > 0)
          else (walk (slices.filter (fun x => !(x.slot == id))) fuel s.next (seen + s.size) size).map (id :: ·)
      else none                                                        -- the loop ends with slotId >= 0: Must(slotId < 0)

/-- `finalizeOrFree` -/
def finalizeOrFree (s : St) : St :=
  if s.le.size = 0 then { s with le := { s.le with state := .corrupted }, slices := [] }     -- Must(le.size > 0)
  else
    match walk s.slices (s.slices.length + 1) s.le.start 0 s.le.size with
    | some _ => { s with le := { s.le with state := .loaded, total := if s.le.total = 0 then s.le.size else s.le.total } }
    | none => { s with le := { s.le with state := .corrupted }, slices := [] }             -- freeBadEntry

/-- `freeBadEntry` -/
def freeBad (s : St) : St := { s with le := { s.le with state := .corrupted }, slices := [] }

/-- `addSlotToEntry` for a cell whose key is the entry's -/
def addSlotToEntry {β : Type} (s : St) (c : Cell β) : St :=
  -- chainSlots: before the inode is known anchor.start is the latest slot; afterwards it stays the inode
  let start := if s.le.anchored then s.le.start else some c.slot
  let le := { s.le with start := start, size := s.le.size + c.payload }
  let s := { s with le := le }
  let inode := c.first == c.slot
  if inode && s.le.anchored then freeBad s                                        -- "inode conflict"
  else
    -- importEntry (clean images: the metadata parses) + "set total entry size and/or check it for consistency"
    let s := if inode then
        { s with le := { s.le with anchored := true, total := if c.entrySize ≠ 0 then c.entrySize else s.le.total } }
      else s
    let total := s.le.total
    if total > 0 ∧ s.le.size > total then freeBad s                                 -- "overflowing"
    else
      let s := { s with slices := s.slices ++ [{ slot := c.slot, size := c.payload, next := c.next }] }   -- mapSlot
      if total > 0 ∧ s.le.size = total then finalizeOrFree s else s

/-- `useNewSlot` -/
def useNewSlot {β : Type} (s : St) (c : Cell β) : St :=
  match s.le.state with
  | .empty => addSlotToEntry { s with le := { state := .loading } } c         -- startNewEntry + primeNewEntry
  | .loading => addSlotToEntry s c                                           -- sameEntry: the keys are equal
  | .loaded => { s with le := { s.le with state := .corrupted }, slices := [] }   -- "either the previously loaded chain or this slot is stale": freeEntry
  | .corrupted => s

/-- `validateOneEntry` -/
def validate (s : St) : St :=
  match s.le.state with
  | .loading => finalizeOrFree s
  | _ => s

/-- the whole rebuild as far as key `k` is concerned: the cells in slot order, then the validation pass -/
def rebuildKey {β : Type} (cells : List (Cell β)) (k : Key) : St :=
  validate ((cells.filter (fun c => c.key == k)).foldl useNewSlot {})

/-- the pieces a hit on `k` reads after the rebuild (following the map from `anchor.start`), `none` = not indexed -/
def chainData {β : Type} (cells : List (Cell β)) : Nat → Option Nat → Option (List β)
  | 0, _ => none
  | _ + 1, none => some []
  | fuel + 1, some id =>
    match cells.find? (fun c => c.slot == id) with
    | none => none
    | some c => (chainData cells fuel c.next).map (c.data :: ·)

def serve {β : Type} (cells : List (Cell β)) (k : Key) : Option (List β) :=
  let s := rebuildKey cells k
  if s.le.state = .loaded then chainData (cells.filter (fun c => c.key == k)) (cells.length + 1) s.le.start else none

/-! ### run-time abstraction used for the scenario correspondence: which chains of a key are (possibly) still on disk -/

/-- per key: the version the in-memory index serves, and the versions whose complete chains may still sit in freed slots -/
structure KeyWorld where
  live : Option Nat := none
  stale : List Nat := []
deriving DecidableEq, Repr, Inhabited

/-- a store of version `v` (frees the old chain, writes a new one) -/
def KeyWorld.store (w : KeyWorld) (v : Nat) : KeyWorld := { live := some v, stale := w.stale ++ w.live.toList }
/-- PURGE / invalidation: the map entry goes, the cells stay -/
def KeyWorld.purge (w : KeyWorld) : KeyWorld := { live := none, stale := w.stale ++ w.live.toList }

/-- what a restart may make of the key.  Freed slots may have been overwritten by other entries in the meantime, so any subset of the
stale chains may be gone.  By `useNewSlot`/`finalizeOrThrow` an entry is indexed only when the cells of exactly one chain of its
key are left: a live chain survives iff all stale ones are gone; a purged key comes back iff exactly one stale chain is left. -/
def KeyWorld.restart (w : KeyWorld) : List KeyWorld :=
  match w.live with
  | some v => if w.stale.isEmpty then [w] else [{ live := some v, stale := [] }, { live := none, stale := w.stale ++ [v] }]
  | none => { live := none, stale := w.stale } :: w.stale.map (fun x => { live := some x, stale := w.stale.filter (· ≠ x) })

end SquidModel.Cache.RestartRock
