/-
C13 — the vary mark: `httpMakeVaryMark` / `assembleVaryKey` (src/http.cc) with its by-name combination of field lines
(`combinedByName`), and — for the record and for the `G` correspondence op — the lookup it used before /repo a1b669e:
`HttpHeader::getByName` → `hasNamed` → `getByIdIfPresent` → `getStrOrList` / `getList` / `findEntry` (src/HttpHeader.cc),
including the `String` copy that turns an empty value of a registered non-list header into an undefined String.
-/
import SquidModel.Cache.VaryEscape
import SquidModel.Cache.VaryList
import SquidModel.Gen.VaryHeaders

namespace SquidModel.Cache.Vary
open SquidModel

/-- `SBuf::toLower` / `strncasecmp` in the C locale -/
def lowerByte (c : UInt8) : UInt8 := if 65 ≤ c && c ≤ 90 then c + 32 else c
def lower (s : Bytes) : Bytes := s.map lowerByte

/-- request header entries in order: (name, value) -/
abbrev Hdrs := List (Bytes × Bytes)

inductive Kind where
  | other    -- not registered: `Http::HdrType::OTHER`, found by the linear name search of `hasNamed`
  | list     -- registered with `HdrKind::ListHeader`: `getList`
  | single   -- registered, not a list header: `findEntry` (first entry) and a `String` copy
  deriving DecidableEq, Repr

/-- `Http::HeaderLookupTable.lookup(name, len)` (case-insensitive) reduced to what `getStrOrList` needs -/
def kindOf (lname : Bytes) : Kind :=
  match Gen.VaryHeaders.registered.find? (fun r => r.1 == lname) with
  | some (_, true) => .list
  | some (_, false) => .single
  | none => .other

/-- values of the entries whose name equals `name` ignoring case, in order (for a registered name these are the
entries carrying its id: `HttpHeaderEntry::parse` assigns the id by the same case-insensitive lookup) -/
def valuesOf (h : Hdrs) (name : Bytes) : List Bytes :=
  (h.filter (fun e => lower e.1 == lower name)).map (·.2)

/-- `request.header.getByName(name)`; `none` = undefined String (`termedBuf() == nullptr`) -/
def getByName (h : Hdrs) (name : Bytes) : Option Bytes :=
  match kindOf (lower name) with
  | .single =>
    -- getStrOrList: `if ((e = findEntry(id))) return e->value;` — `String(String const &old)` allocates only
    -- `if (old.size() > 0)`, so an empty value comes back undefined
    match valuesOf h name with
    | [] => none
    | v :: _ => if v.isEmpty then none else some v
  | _ =>
    -- getList(id) / the linear search of hasNamed: strListAdd over every matching entry
    joinValues (valuesOf h name)

/-- the lookup `assembleVaryKey` performs since /repo a1b669e: every entry whose name equals `name` ignoring case
(`e->name.caseCmp(name) == 0`, registered or not) contributes its value through `strListAdd`; `none` = no such entry
(`present == false`), so an empty value is distinct from a missing field and all field lines count -/
def combinedByName (h : Hdrs) (name : Bytes) : Option Bytes := joinValues (valuesOf h name)

def star : Bytes := [42]

/-- the body of the `while` loop of `assembleVaryKey` after the `*` test, for the lower-cased `name` -/
def appendName (vstr name : Bytes) (v : Option Bytes) : Bytes :=
  (if vstr.isEmpty then vstr else vstr ++ [44, 32]) ++ name ++
    (match v with
     | some x => [61, 34] ++ escapePart x ++ [34]
     | none => [])

/-- the `while (strListGetItem(...))` loop of `assembleVaryKey` over the items, `vstr` threaded through -/
def assembleFrom (h : Hdrs) : List Bytes → Bytes → Bytes
  | [], vstr => vstr
  | name :: rest, vstr =>
    if name == star then star    -- `vstr = asterisk; break;`
    else assembleFrom h rest (appendName vstr (lower name) (combinedByName h (lower name)))

/-- `assembleVaryKey(vary, vstr, request)` with `vary` the joined field (possibly undefined) -/
def assembleVaryKey (vary : Option Bytes) (vstr : Bytes) (h : Hdrs) : Bytes :=
  assembleFrom h (items (vary.getD [])) vstr

/-- `httpMakeVaryMark(request, reply)`: `vary = reply->header.getList(VARY)` then `assembleVaryKey`
(`X_ACCELERATOR_VARY` is 0 in this build). `varyLines` = the values of the reply's Vary fields in order. -/
def makeMark (varyLines : List Bytes) (h : Hdrs) : Bytes :=
  assembleVaryKey (joinValues varyLines) [] h

end SquidModel.Cache.Vary
