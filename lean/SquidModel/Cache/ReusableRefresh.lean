/-
Freshness as far as the store decision and the fate of a second request need it:

* `HttpReply::hdrExpirationTime` (src/HttpReply.cc)            → `hdrExpirationTime`
* `StoreEntry::timestampsSet`, `StoreEntry::lastModified` (src/store.cc, src/Store.h) → `timestampsSet`, `Times.lastModified`
* `refreshStaleness`, `refreshCheck`, `refreshIsCachable`, `refreshCheckHTTP` (src/refresh.cc) → same names
* `StoreEntry::negativeCache`, `checkNegativeHit`, `validToSend` (src/store.cc), time part

Times are seconds (Int). `R->pct` is a double in the code; `lastmod_delta * R->pct` is modelled as the exact
`lastmod_delta * percent / 100` rounded down (equal to the double computation for the stock 20% and 0%).
-/
import SquidModel.Cache.Reusable

namespace SquidModel.Cache
open SquidModel

/-- HttpReply::hdrExpirationTime (vary_ignore_expire off). `expiresHdr` = `none` when there is no Expires field, else
    `getTime(EXPIRES)` (-1 when unparsable). -/
def hdrExpirationTime (now : Int) (cc : Option Cc) (date : Int) (expiresHdr : Option Int) : Int :=
  let ma : Option Int := match cc with
    | some c => (match c.sMaxage with | some v => some v | none => c.maxAge)
    | none => none
  match ma with
  | some maxAge => if date ≥ 0 then date + maxAge else now
  | none =>
    match expiresHdr with
    | some e => if e < 0 then now else e
    | none => -1

structure Times where
  timestamp : Int
  expires : Int
  lastModifiedRaw : Int     -- lastModified_
  deriving DecidableEq, Repr

/-- StoreEntry::lastModified() -/
def Times.lastModified (t : Times) : Int := if t.lastModifiedRaw < 0 then t.timestamp else t.lastModifiedRaw

/-- StoreEntry::timestampsSet for the first reply of an entry. `age` = getInt(AGE) (-1 when absent),
    `respTime` = hier.peerResponseTime seconds. -/
def timestampsSet (now date expires lastModified age respTime : Int) : Times :=
  let sd0 := if date < 0 || date > now then now else if date < now - 86400 then now else date
  let sd1 := if age > now - sd0 then (if now > age then now - age else sd0) else sd0
  let sd := sd1 - respTime
  let exp := if expires > 0 && date > -1 then sd + (expires - date) else expires
  { timestamp := sd, expires := exp, lastModifiedRaw := lastModified }

structure RefreshRule where
  min : Int
  pct : Nat          -- percent
  max : Int
  maxStale : Int := -1
  overrideExpire : Bool := false
  overrideLastmod : Bool := false
  ignoreReload : Bool := false
  reloadIntoIms : Bool := false
  refreshIms : Bool := false
  deriving DecidableEq, Repr

structure StaleFlags where
  expires : Bool := false
  min : Bool := false
  lmfactor : Bool := false
  max : Bool := false
  deriving DecidableEq, Repr

/-- refreshStaleness: -1 = fresh, else the amount of staleness (0 is stale) -/
def refreshStaleness (t : Times) (checkTime age : Int) (R : RefreshRule) : Int × StaleFlags :=
  if t.expires > -1 then
    if t.expires > checkTime then (-1, { expires := true }) else (checkTime - t.expires, { expires := true })
  else if age > R.max then (age - R.max, { max := true })
  else
    let lmd := t.timestamp - t.lastModified
    if lmd > 0 then
      let staleAge := (lmd * (R.pct : Int)) / 100
      if age ≥ staleAge then (age - staleAge, { lmfactor := true }) else (-1, { lmfactor := true })
    else if age < R.min then (-1, { min := true })
    else (age - R.min, {})

inductive Reason
  | freshRequestMaxStaleAll | freshRequestMaxStaleValue | freshExpires | freshLmfactorRule | freshMinRule
  | freshOverrideExpires | freshOverrideLastmod
  | staleMustRevalidate | staleReloadIntoIms | staleForcedReload | staleExceedsRequestMaxAgeValue | staleExpires
  | staleMaxRule | staleLmfactorRule | staleMaxStale | staleDefault
  deriving DecidableEq, Repr

def Reason.name : Reason → String
  | .freshRequestMaxStaleAll => "FRESH_REQUEST_MAX_STALE_ALL" | .freshRequestMaxStaleValue => "FRESH_REQUEST_MAX_STALE_VALUE"
  | .freshExpires => "FRESH_EXPIRES" | .freshLmfactorRule => "FRESH_LMFACTOR_RULE" | .freshMinRule => "FRESH_MIN_RULE"
  | .freshOverrideExpires => "FRESH_OVERRIDE_EXPIRES" | .freshOverrideLastmod => "FRESH_OVERRIDE_LASTMOD"
  | .staleMustRevalidate => "STALE_MUST_REVALIDATE" | .staleReloadIntoIms => "STALE_RELOAD_INTO_IMS"
  | .staleForcedReload => "STALE_FORCED_RELOAD" | .staleExceedsRequestMaxAgeValue => "STALE_EXCEEDS_REQUEST_MAX_AGE_VALUE"
  | .staleExpires => "STALE_EXPIRES" | .staleMaxRule => "STALE_MAX_RULE" | .staleLmfactorRule => "STALE_LMFACTOR_RULE"
  | .staleMaxStale => "STALE_MAX_STALE" | .staleDefault => "STALE_DEFAULT"

/-- the numeric value of the enumerator (from the generated table; 0 would mean the enumerator disappeared) -/
def Reason.code (r : Reason) : Nat :=
  match Gen.Reusable.refreshCodes.find? (fun e => e.1 == r.name) with
  | some e => e.2
  | none => 0

/-- what refreshCheck reads from the request -/
structure ReqView where
  cc : Option Cc
  ignoreCc : Bool := false
  ims : Bool := false
  noCacheHack : Bool := false
  deriving Repr

structure RefreshGlobals where
  refreshAllIms : Bool := false
  reloadIntoIms : Bool := false
  maxStale : Int := Gen.Reusable.defaultMaxStale
  deriving Repr

/-- refreshCheck(entry, request, delta). `revalidate` = the ENTRY_REVALIDATE_* flags of the entry,
    `replyImmutable` = the stored reply has Cache-Control: immutable. -/
def refreshCheck (g : RefreshGlobals) (R : RefreshRule) (t : Times) (revalidate : Revalidate) (replyImmutable : Bool)
    (req : Option ReqView) (now delta : Int) : Reason :=
  let checkTime0 := now + delta
  let age0 : Int := if checkTime0 > t.timestamp then checkTime0 - t.timestamp else 0
  let useReq : Option ReqView := match req with
    | some r => if r.ignoreCc then none else some r
    | none => none
  let minFresh : Option Int := match useReq with
    | some r => (match r.cc with | some c => c.minFresh | none => none)
    | none => none
  let age := match minFresh with | some m => age0 + m | none => age0
  let checkTime := match minFresh with | some m => checkTime0 + m | none => checkTime0
  let ss := refreshStaleness t checkTime age R
  let staleness := ss.1
  let sf := ss.2
  if revalidate == .always || (staleness > -1 && revalidate == .stale) then .staleMustRevalidate
  else
    -- request-specific checks: `some r` = the function returns r there
    let reqResult : Option Reason := match useReq with
      | none => none
      | some r =>
        if r.ims && (R.refreshIms || g.refreshAllIms) then some .staleForcedReload
        else
          let hack : Option Reason :=
            if Gen.Reusable.useHttpViolations && r.noCacheHack then
              if R.ignoreReload then none
              else if R.reloadIntoIms || g.reloadIntoIms then some .staleReloadIntoIms
              else some .staleForcedReload
            else none
          match hack with
          | some x => some x
          | none =>
            match r.cc with
            | none => none
            | some cc =>
              let byMaxAge : Option Reason := match cc.maxAge with
                | none => none
                | some maxAge =>
                  if replyImmutable then none
                  else if Gen.Reusable.useHttpViolations && R.ignoreReload && maxAge == 0 then none
                  else if age > maxAge || maxAge == 0 then some .staleExceedsRequestMaxAgeValue
                  else none
              match byMaxAge with
              | some x => some x
              | none =>
                match cc.maxStale with
                | none => none
                | some maxStale =>
                  if staleness > -1 then
                    if maxStale == MAX_STALE_ANY then some .freshRequestMaxStaleAll
                    else if staleness < maxStale then some .freshRequestMaxStaleValue
                    else none
                  else none
    match reqResult with
    | some x => x
    | none =>
      if staleness == -1 then
        if sf.expires then .freshExpires else if sf.lmfactor then .freshLmfactorRule else .freshMinRule
      else
        let ms := if R.maxStale ≥ 0 then R.maxStale else g.maxStale
        if ms ≥ 0 && staleness > ms then .staleMaxStale
        else if sf.expires then
          (if Gen.Reusable.useHttpViolations && R.overrideExpire && age < R.min then .freshOverrideExpires else .staleExpires)
        else if sf.max then .staleMaxRule
        else if sf.lmfactor then
          (if Gen.Reusable.useHttpViolations && R.overrideLastmod && age < R.min then .freshOverrideLastmod else .staleLmfactorRule)
        else .staleDefault

/-- refreshIsCachable(entry): at that point no ENTRY_REVALIDATE_* flag is set yet (they are set after the decision).
    `contentLength` = baseReply().content_length (-1 when absent). -/
def refreshIsCachable (g : RefreshGlobals) (R : RefreshRule) (t : Times) (replyImmutable : Bool) (now minimumExpiry contentLength : Int) : Bool :=
  let reason := refreshCheck g R t .none replyImmutable none now minimumExpiry
  if reason.code < (Reason.staleMustRevalidate).code then true
  else if t.lastModified < 0 then false
  else if contentLength == 0 then false
  else true

/-- refreshCheckHTTP (offline mode off): true = stale -/
def refreshCheckHTTP (g : RefreshGlobals) (R : RefreshRule) (t : Times) (revalidate : Revalidate) (replyImmutable : Bool)
    (req : ReqView) (now : Int) : Bool :=
  !((refreshCheck g R t revalidate replyImmutable (some req) now 0).code < 200)

/-- StoreEntry::negativeCache: new `expires` and whether ENTRY_NEGCACHED gets set -/
def negativeCache (now negativeTtl expires : Int) : Int × Bool :=
  let e := if expires ≤ 0 then (if Gen.Reusable.useHttpViolations then now + negativeTtl else now) else expires
  (e, e > now)

end SquidModel.Cache
