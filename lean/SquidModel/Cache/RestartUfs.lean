/-
Model of the ufs-family cache_dir (ufs / aufs / diskd: `Fs::Ufs::UFSSwapDir`) as far as it decides what a clean restart keeps.

Read out of
* src/fs/ufs/UFSSwapDir.cc   `mapBitAllocate`, `mapBitReset`, `evictCached`, `unlinkFile`, `logEntry`, `addDiskRestore`,
                             `openTmpSwapLog`, `closeTmpSwapLog`, `writeCleanStart`, `UFSCleanLog::write`, `writeCleanDone`
* src/fs/ufs/RebuildState.cc `RebuildState::RebuildState`, `rebuildFromSwapLog`, `rebuildFromDirectory`, `addIfFresh`,
                             `evictStaleAndContinue`
* src/store/Disks.cc         `Store::Disks::evictCached`, `storeDirSwapLog`, `storeDirWriteCleanLogs`
* src/store/Disk.cc          `Store::Disk::canLog`
* src/StoreSwapLogData.cc    `StoreSwapLogData::sane`
* src/store_rebuild.cc       `storeRebuildParseEntry`
* src/store_swapout.cc       `storeSwapOutFileClosed`;  src/store.cc `StoreEntry::setPublicKey` (release of the clashing entry)
* src/store_client.cc / src/store/SwapMetaIn.cc  `store_client::readHeader`, `Store::UnpackHitSwapMeta` (key and size checks of a hit)
* src/filemap.cc             `FileMap::allocate`
* src/repl/lru/store_repl_lru.cc  list order: `lru_add` appends, `lru_referenced` moves to the tail, the walker starts at the head
* src/unlinkd.cc             `unlinkdUnlink`: the unlink of a released file is only *queued*; the file number is free at once

The payload type `β` is what a cached object "is" (its status, headers and body bytes); the model never looks inside.
-/
import SquidModel.Gen.RestartConsts

namespace SquidModel.Cache.Restart
open SquidModel.Gen.RestartConsts

/-- `cache_key`: the MD5 of method and URL, abstractly -/
abbrev Key := Nat

/-- the `StoreEntry::flags` bits the disk layer looks at -/
structure Flags where
  keyPrivate : Bool := false
  releaseRequest : Bool := false
  special : Bool := false
deriving DecidableEq, Repr, Inhabited

/-- the four `time_t` members of a `StoreEntry` (and of a swap.state record) -/
structure Times where
  timestamp : Int
  lastref : Int
  expires : Int
  lastmod : Int
deriving DecidableEq, Repr, Inhabited

/-- one cache file `<cache_dir>/L1/L2/<fileno>`: swap metadata (STORE_META_KEY_MD5, the size of the metadata prefix) followed by
the stored reply -/
structure File (β : Type) where
  metaKey : Key
  /-- `swap_hdr_sz` -/
  hdrSz : Nat
  /-- number of bytes of the stored HTTP reply (headers + body) that follow the metadata -/
  objLen : Nat
  /-- what STORE_META_STD_LFS records about the entry at swap-out time (used by the directory scan only) -/
  metaTimes : Times
  metaSz : Nat
  metaFlags : Flags
  metaRefcount : Nat
  payload : β

/-- a `StoreEntry` attached to this cache_dir -/
structure Entry where
  key : Key
  /-- `swap_filen` -/
  filn : Nat
  /-- `swap_file_sz` -/
  sz : Nat
  t : Times
  refcount : Nat
  flags : Flags
  /-- `swap_status == SWAPOUT_DONE` -/
  swappedOut : Bool
deriving DecidableEq, Repr, Inhabited

/-- `StoreSwapLogData`: one swap.state record -/
structure Rec where
  op : Nat
  /-- whether the stored `SwapChecksum24` equals the one computed from `swap_filen` and `swap_file_sz` -/
  sumOk : Bool
  filn : Int
  t : Times
  sz : Nat
  refcount : Nat
  flags : Flags
  key : Key
deriving DecidableEq, Repr, Inhabited

/-- the cache_dir: in-core index, file number bitmap, the files, swap.state and its companion stamp file, the unlinkd queue -/
structure Ufs (β : Type) where
  /-- the entries of `store_table` that live in this dir, in the order of the dir's LRU list (head first) -/
  index : List Entry
  /-- set bits of `UFSSwapDir::map` -/
  map : List Nat
  /-- `UFSSwapDir::suggest` -/
  suggest : Nat
  files : Nat → Option (File β)
  /-- swap.state: `none` = missing or of zero length (as `openLog` creates it), `some recs` = the version header followed by `recs` -/
  log : Option (List Rec)
  /-- swap.state.last-clean exists and is not older than swap.state -/
  lastClean : Bool
  /-- file numbers whose unlink was handed to unlinkd (or an I/O thread) and has not happened yet -/
  pending : List Nat
  /-- `unlinkdUseful()`: unlinks are queued instead of executed -/
  unlinkd : Bool
  /-- a cache file was created under a number whose previous file still awaits its unlink -/
  raced : Bool
  /-- a file number beyond the 24 bits a swap.state record keeps was handed out -/
  overflow : Bool

def Ufs.empty {β : Type} (unlinkd : Bool) : Ufs β :=
  { index := [], map := [], suggest := 0, files := fun _ => none, log := none, lastClean := false, pending := [],
    unlinkd := unlinkd, raced := false, overflow := false }

/-! ### run time -/

/-- `Store::Disk::canLog` (entries of the model always have a disk file number) -/
def canLog (e : Entry) : Bool :=
  e.swappedOut && decide (0 < e.sz) && !e.flags.releaseRequest && !e.flags.keyPrivate && !e.flags.special

/-- `UFSSwapDir::logEntry` / `UFSCleanLog::write`: the record written for an entry -/
def toRec (op : Nat) (e : Entry) : Rec :=
  { op := op, sumOk := true, filn := (e.filn : Int), t := e.t, sz := e.sz, refcount := e.refcount, flags := e.flags, key := e.key }

def appendLog (log : Option (List Rec)) (r : Rec) : Option (List Rec) :=
  some ((log.getD []) ++ [r])

/-- first number ≥ `n` (looking at `fuel` candidates) that is not in the map -/
def firstFreeFrom (map : List Nat) : Nat → Nat → Nat
  | 0, n => n
  | fuel + 1, n => if n ∈ map then firstFreeFrom map fuel (n + 1) else n

/-- `FileMap::allocate(suggestion)`: the suggestion when its bit is clear, otherwise a clear bit found by scanning from the
start of the map (the scan of the C++ starts at the suggestion's word and wraps; with `grow()` as the last resort) -/
def allocate (map : List Nat) (suggest : Nat) : Nat :=
  if suggest ∈ map then
    let c := firstFreeFrom map map.length 0
    if c ∈ map then map.sum + 1 else c
  else suggest

/-- `UFSSwapDir::unlinkFile`: through unlinkd the unlink is only queued -/
def unlinkFile {β : Type} (s : Ufs β) (fn : Nat) : Ufs β :=
  if s.unlinkd then { s with pending := s.pending ++ [fn] }
  else { s with files := fun n => if n = fn then none else s.files n }

/-- unlinkd (or the I/O thread) executes the oldest queued unlink -/
def unlinkdStep {β : Type} (s : Ufs β) : Ufs β :=
  match s.pending with
  | [] => s
  | fn :: rest => { s with pending := rest, files := fun n => if n = fn then none else s.files n }

def unlinkdFlush {β : Type} (s : Ufs β) : Nat → Ufs β
  | 0 => s
  | n + 1 => unlinkdFlush (unlinkdStep s) n

/-- `StoreEntry::release` of the public entry with this key (if any): `Store::Disks::evictCached` logs SWAP_LOG_DEL unless the key
is private, `UFSSwapDir::evictCached` removes the entry from the LRU list, clears the map bit, unlinks the file -/
def release {β : Type} (s : Ufs β) (k : Key) : Ufs β :=
  match s.index.find? (fun e => e.key == k) with
  | none => s
  | some e =>
    let log := if e.flags.keyPrivate then s.log else appendLog s.log (toRec SWAP_LOG_DEL e)
    unlinkFile { s with index := s.index.filter (fun x => !(x.key == k)), map := s.map.filter (fun n => !(n == e.filn)), log := log } e.filn

/-- a complete swap-out of a new public object under `k`: `setPublicKey` releases the clashing entry; `createStoreIO` takes a file
number (`mapBitAllocate`) and puts the entry on the LRU list; the file is written and closed; `storeSwapOutFileClosed` sets
`swap_file_sz = objectLen + swap_hdr_sz`, SWAPOUT_DONE and logs SWAP_LOG_ADD -/
def storeObj {β : Type} (s : Ufs β) (k : Key) (b : β) (hdrSz objLen : Nat) (t : Times) : Ufs β :=
  let s := release s k
  let fn := allocate s.map s.suggest
  let e : Entry := { key := k, filn := fn, sz := objLen + hdrSz, t := t, refcount := 1, flags := {}, swappedOut := true }
  let f : File β := { metaKey := k, hdrSz := hdrSz, objLen := objLen, metaTimes := t, metaSz := 0, metaFlags := {}, metaRefcount := 1, payload := b }
  { s with index := s.index ++ [e], map := s.map ++ [fn], suggest := fn + 1,
           files := fun n => if n = fn then some f else s.files n,
           log := appendLog s.log (toRec SWAP_LOG_ADD e),
           raced := s.raced || decide (fn ∈ s.pending),
           overflow := s.overflow || decide (filenMask ≤ (fn : Int)) }

/-- a hit: `StoreEntry::touch` (lastref), `++refcount`, `lru_referenced` moves the entry to the tail of the list -/
def touch {β : Type} (s : Ufs β) (k : Key) (now : Int) : Ufs β :=
  match s.index.find? (fun e => e.key == k) with
  | none => s
  | some e =>
    { s with index := s.index.filter (fun x => !(x.key == k)) ++ [{ e with t := { e.t with lastref := now }, refcount := e.refcount + 1 }] }

/-- what a hit on `k` delivers: the index entry, its file, `Store::UnpackHitSwapMeta` (`CheckSwapMetaKey`;
`swap_file_sz >= swap_hdr_sz`, `object_sz = swap_file_sz - swap_hdr_sz`) and a stored reply of exactly `object_sz` bytes.
`none` = miss (no entry) or TCP_SWAPFAIL_MISS (file missing or refused) -/
def serve {β : Type} (s : Ufs β) (k : Key) : Option β :=
  match s.index.find? (fun e => e.key == k) with
  | none => none
  | some e =>
    match s.files e.filn with
    | none => none
    | some f => if f.metaKey = e.key ∧ f.hdrSz ≤ e.sz ∧ f.objLen = e.sz - f.hdrSz then some f.payload else none

/-! ### clean shutdown -/

/-- `storeDirWriteCleanLogs` + `writeCleanStart` / `UFSCleanLog::write` / `writeCleanDone`: swap.state is replaced by one ADD record
per loggable entry in LRU walker order; swap.state.last-clean is touched afterwards. `SquidShutdown` first lets unlinkd drain
(`Store::Root().sync()`, `unlinkdClose`). -/
def cleanShutdown {β : Type} (s : Ufs β) : Ufs β :=
  let s := unlinkdFlush s s.pending.length
  { s with log := some ((s.index.filter canLog).map (toRec SWAP_LOG_ADD)), lastClean := true }

/-! ### start: index rebuild -/

/-- `StoreSwapLogData::sane` -/
def Rec.sane (r : Rec) : Bool :=
  r.sumOk && decide (SWAP_LOG_NOP < r.op) && decide (r.op < SWAP_LOG_MAX) && decide (0 ≤ r.filn) &&
  decide (minTime ≤ r.t.timestamp) && decide (minTime ≤ r.t.lastref) && decide (minTime ≤ r.t.expires) && decide (minTime ≤ r.t.lastmod) &&
  decide (0 < r.sz)

/-- the rebuild's working state: the new index and map, the files (the directory scan unlinks), swap.state.new -/
structure Rb (β : Type) where
  index : List Entry
  map : List Nat
  files : Nat → Option (File β)
  newLog : List Rec

/-- `evictStaleAndContinue`: an indexed entry with the same key is kept (and the candidate dropped) when it was referenced at or
after `maxRef`; otherwise it is released (the directory is still rebuilding: the release unlinks directly) -/
def evictStaleAndContinue {β : Type} (r : Rb β) (k : Key) (maxRef : Int) : Rb β × Bool :=
  match r.index.find? (fun e => e.key == k) with
  | none => (r, true)
  | some e =>
    if maxRef ≤ e.t.lastref then (r, false)
    else
      ({ r with index := r.index.filter (fun x => !(x.key == k)), map := r.map.filter (fun n => !(n == e.filn)),
                files := fun n => if n = e.filn then none else r.files n,
                newLog := r.newLog ++ [toRec SWAP_LOG_DEL e] }, true)

/-- `addIfFresh` + `addDiskRestore` (+ the SWAP_LOG_ADD written to swap.state.new) -/
def addIfFresh {β : Type} (r : Rb β) (k : Key) (fn : Nat) (sz : Nat) (t : Times) (refcount : Nat) (flags : Flags) : Rb β :=
  let (r, go) := evictStaleAndContinue r k t.lastref
  if go then
    let e : Entry := { key := k, filn := fn, sz := sz, t := t, refcount := refcount, flags := flags, swappedOut := true }
    { r with index := r.index ++ [e], map := r.map ++ [fn], newLog := r.newLog ++ [toRec SWAP_LOG_ADD e] }
  else r

/-- `RebuildState::rebuildFromSwapLog`, one record -/
def rebuildFromSwapLog {β : Type} (r : Rb β) (d : Rec) : Rb β :=
  if !d.sane then r                                           -- ++counts.invalid
  else
    let filn := d.filn % filenMask                            -- swapData.swap_filen &= 0x00FFFFFF
    if d.op = SWAP_LOG_ADD then
      if filn < 0 then r                                      -- !validFileno(filn, 0)
      else if d.flags.keyPrivate then r                       -- ++counts.badflags
      else if filn.toNat ∈ r.map then r                       -- mapBitTest: ++counts.clashcount
      else addIfFresh r d.key filn.toNat d.sz d.t d.refcount d.flags
    else if d.op = SWAP_LOG_DEL then
      (evictStaleAndContinue r d.key (d.t.lastref + 1)).1
    else r                                                    -- ++counts.bad_log_op

/-- `storeRebuildParseEntry` on a cache file of `st_size` bytes: the size recorded in the metadata must be unknown (0), the object
size, or the file size -/
def parseEntry {β : Type} (f : File β) : Option Nat :=
  let expected := f.hdrSz + f.objLen
  if f.metaFlags.keyPrivate then none
  else if expected = 0 then (if f.metaSz = 0 then none else some f.metaSz)
  else if f.metaSz = 0 then some expected
  else if f.metaSz = expected - f.hdrSz then some expected
  else if f.metaSz ≠ expected then none
  else some expected

/-- `RebuildState::rebuildFromDirectory`, one file -/
def rebuildFromDirectory {β : Type} (r : Rb β) (fn : Nat) : Rb β :=
  if fn ∈ r.map then r                                        -- getNextFile: "Locked, continuing with next"
  else
    match r.files fn with
    | none => r
    | some f =>
      match parseEntry f with
      | none => { r with files := fun n => if n = fn then none else r.files n }     -- sd->unlinkFile(filn)
      | some sz => addIfFresh r f.metaKey fn sz f.metaTimes f.metaRefcount f.metaFlags

/-- start of the process: `RebuildState::RebuildState` picks the log (when swap.state exists and is not of zero length) or the directory
scan (`dirList` = the file numbers `readdir` yields); `closeTmpSwapLog` renames swap.state.new; `openTmpSwapLog` removed the stamp.
`UFSSwapDir::suggest` starts at 0 again. -/
def rebuild {β : Type} (s : Ufs β) (dirList : List Nat) : Ufs β :=
  let r0 : Rb β := { index := [], map := [], files := s.files, newLog := [] }
  let r := match s.log with
    | some recs => recs.foldl rebuildFromSwapLog r0
    | none => dirList.foldl rebuildFromDirectory r0
  { index := r.index, map := r.map, suggest := 0, files := r.files, log := some r.newLog, lastClean := false, pending := [],
    unlinkd := s.unlinkd, raced := s.raced, overflow := s.overflow }

/-! ### histories -/

inductive Op (β : Type)
  /-- a response for `k` is fetched and completely swapped out -/
  | store (k : Key) (b : β) (hdrSz objLen : Nat) (t : Times)
  /-- PURGE, or the invalidation after an unsafe method -/
  | purge (k : Key)
  /-- a hit -/
  | touch (k : Key) (now : Int)
  /-- unlinkd gets to run -/
  | unlinkd
  /-- clean shutdown and start -/
  | restart (dirList : List Nat)

def step {β : Type} (s : Ufs β) : Op β → Ufs β
  | .store k b h n t => storeObj s k b h n t
  | .purge k => release s k
  | .touch k now => touch s k now
  | .unlinkd => unlinkdStep s
  | .restart dl => rebuild (cleanShutdown s) dl

def run {β : Type} (s : Ufs β) (ops : List (Op β)) : Ufs β := ops.foldl step s

/-- the specification: what the cache should hold for `k` after the history (restarts and hits change nothing) -/
def specStep {β : Type} (m : Key → Option β) : Op β → (Key → Option β)
  | .store k b _ _ _ => fun x => if x = k then some b else m x
  | .purge k => fun x => if x = k then none else m x
  | _ => m

def spec {β : Type} (ops : List (Op β)) : Key → Option β := ops.foldl specStep (fun _ => none)

end SquidModel.Cache.Restart
