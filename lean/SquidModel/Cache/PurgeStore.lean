/-
C20 — the public store as the invalidation code and the hit path see it, and histories of client requests.

Model of
  src/store/Controller.cc  Store::Controller::evictIfFound (the entry under exactly that key goes away)
  src/store_client / client_side_reply.cc  clientReplyContext::identifyStoreObject + cacheHit's varyEvaluateMatch dispatch
                            (VARY_NONE / VARY_MATCH / VARY_OTHER restart / VARY_CANCEL), processMiss' METHOD_OTHER purge
  src/store.cc             storeGetPublicByRequest (HEAD falls back to GET), StoreEntry::setPublicKey + adjustVary (marker object)
  src/http.cc              httpMaybeRemovePublic for a 200 reply (previous entry and the HEAD entry are released)
for requests of one client at a time whose replies are cacheable and fresh (the scenarios keep them so).
The vary mark of a request is an opaque value computed from the request alone (`mark`, C13's subject).
`gen` is ghost state: the ordinal of the origin contact that produced the stored reply.
-/
import SquidModel.Cache.Purge

namespace SquidModel.Cache.Purge
open SquidModel SquidModel.Gen

structure Entry where
  mid : Nat                 -- method id of the key
  url : Bytes               -- URL text of the key
  mark : Option Bytes       -- vary mark of the key (`none` = base key)
  hasVary : Bool            -- the stored reply has a Vary header
  objMark : Option Bytes    -- mem_obj->vary_headers (empty for the marker object and for replies without Vary)
  gen : Nat                 -- ghost: origin contact that produced it
  deriving Repr, DecidableEq

abbrev Store := List Entry

def Entry.hasKey (e : Entry) (mid : Nat) (url : Bytes) (mark : Option Bytes) : Bool :=
  e.mid == mid && e.url == url && e.mark == mark

/-- `storeGetPublic` with an explicit vary mark -/
def storeGet (s : Store) (mid : Nat) (url : Bytes) (mark : Option Bytes) : Option Entry :=
  s.find? (fun e => e.hasKey mid url mark)

/-- the entry under that key is released -/
def storeRemove (s : Store) (mid : Nat) (url : Bytes) (mark : Option Bytes) : Store :=
  s.filter (fun e => !e.hasKey mid url mark)

/-- `Store::Root().evictIfFound(storeKeyPublic(url, m))` -/
def evictKey (s : Store) (k : Key) : Store := storeRemove s k.1 k.2 none

def evictAll (s : Store) (ks : List Key) : Store := ks.foldl evictKey s

/-- `storeGetPublicByRequest`: the request's method, then GET for a HEAD request -/
def getByRequest (s : Store) (mid : Nat) (url : Bytes) (mark : Option Bytes) : Option Entry :=
  match storeGet s mid url mark with
  | some e => some e
  | none => if mid = PurgeTables.methodHead then storeGet s PurgeTables.methodGet url mark else none

/-- outcome of the store lookup of a cacheable request; `reqMark` = `request->vary_headers` afterwards -/
inductive Look where
  | hit (e : Entry) (reqMark : Option Bytes)
  | miss (reqMark : Option Bytes)
  deriving Repr, DecidableEq

/-- identifyStoreObject + cacheHit's vary dispatch for a request with vary mark `mk` (computed from the request headers) -/
def lookup (s : Store) (mid : Nat) (url : Bytes) (mk : Bytes) : Look :=
  match getByRequest s mid url none with
  | none => .miss none
  | some e =>
    if !e.hasVary then .hit e none                           -- VARY_NONE
    else if e.objMark.isNone then
      -- marker object: VARY_OTHER, the lookup restarts with request->vary_headers = mk
      match getByRequest s mid url (some mk) with
      | none => .miss (some mk)
      | some v =>
        if !v.hasVary || v.objMark.isNone then .miss none     -- VARY_CANCEL ("we cannot handle this kind of variance")
        else if v.objMark = some mk then .hit v (some mk)     -- VARY_MATCH
        else .miss (some mk)                                   -- VARY_CANCEL (loop)
    else if e.objMark = some mk then .hit e (some mk)         -- VARY_MATCH on a variant found under the base key
    else .miss (some mk)                                       -- VARY_CANCEL

/-- `httpMaybeRemovePublic(entry, 200)`: `findPreviouslyCachedEntry` and the HEAD entry are released -/
def removePrevious (s : Store) (mid : Nat) (url : Bytes) (reqMark : Option Bytes) : Store :=
  let s1 := match getByRequest s mid url reqMark with
    | some pe => storeRemove s pe.mid pe.url pe.mark
    | none => s
  storeRemove s1 PurgeTables.methodHead url reqMark

/-- `adjustVary`, first half: a changed variance kills the base object -/
def killBaseOnChange (s : Store) (mid : Nat) (url : Bytes) (reqMark objMark : Option Bytes) : Store :=
  if objMark.isSome && reqMark.isSome && reqMark != objMark then storeRemove s mid url none else s

/-- `adjustVary`, second half: the marker object is created when the reply varies and the base key is free -/
def addMarker (s : Store) (mid : Nat) (url : Bytes) (objMark : Option Bytes) (gen : Nat) : Store :=
  if objMark.isSome && (storeGet s mid url none).isNone
  then { mid := mid, url := url, mark := none, hasVary := true, objMark := none, gen := gen : Entry } :: s else s

/-- a cacheable, fresh 200 reply to a miss is stored: httpMaybeRemovePublic, vary mark, adjustVary, setPublicKey (whatever sits
under the new key is replaced; the key's mark is the object's mark) -/
def storeReply (s : Store) (mid : Nat) (url : Bytes) (reqMark : Option Bytes) (mk : Bytes) (vary : Bool) (gen : Nat) : Store :=
  let objMark : Option Bytes := if vary then some mk else none
  let s4 := addMarker (killBaseOnChange (removePrevious s mid url reqMark) mid url reqMark objMark) mid url objMark gen
  { mid := mid, url := url, mark := objMark, hasVary := vary, objMark := objMark, gen := gen : Entry } :: storeRemove s4 mid url objMark

/-! ### histories -/

inductive Ev where
  /-- a GET/HEAD (method id `mid`, cacheable) for effective URL `url`, request vary mark `mk`; if it reaches the origin the
  reply is a cacheable 200, with `Vary` iff `vary` -/
  | fetch (mid : Nat) (url : Bytes) (mk : Bytes) (vary : Bool)
  /-- a request with a method that is never looked up (POST, PUT, unknown …): forwarded, answered with `status`,
  `Location`/`Content-Location` as given -/
  | forward (m : Nat) (u : Uri) (status : Nat) (loc cloc : Option Bytes)
  deriving Repr, DecidableEq

inductive Obs where
  | cached (gen : Nat)     -- served from the store: the reply of origin contact `gen`
  | origin (gen : Nat)     -- the origin was contacted (contact number `gen`)
  deriving Repr, DecidableEq

structure St where
  store : Store
  gen : Nat                -- ordinal of the next origin contact
  deriving Repr, DecidableEq

def step (st : St) : Ev → St × Obs
  | .fetch mid url mk vary =>
    match lookup st.store mid url mk with
    | .hit e _ => (st, .cached e.gen)
    | .miss reqMark => ({ store := storeReply st.store mid url reqMark mk vary st.gen, gen := st.gen + 1 }, .origin st.gen)
  | .forward m u status loc cloc =>
    -- clientReplyContext::processMiss: METHOD_OTHER purges before forwarding
    let s0 := if m = PurgeTables.methodOther && PurgeTables.otherPurgesAtRequestTime
      then evictAll st.store (purgeEntriesByUrl (effectiveRequestUri m u)) else st.store
    -- Client::haveParsedReplyHeaders -> maybePurgeOthers
    ({ store := evictAll s0 (maybePurgeOthers m status u loc cloc), gen := st.gen + 1 }, .origin st.gen)

def run : St → List Ev → St × List Obs
  | st, [] => (st, [])
  | st, e :: r =>
    let so := step st e
    let ro := run so.1 r
    (ro.1, so.2 :: ro.2)

end SquidModel.Cache.Purge
