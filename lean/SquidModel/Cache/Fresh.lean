/-
C12 model: HTTP freshness as Squid computes it, function by function.

* `HttpReply::hdrExpirationTime` (src/HttpReply.cc): s-maxage, else max-age (relative to Date, or "now" when Date is
  missing), else Expires (bad value = "now"), else -1; the `vary_ignore_expire` special case.
* `StoreEntry::timestampsSet` (src/store.cc): the served date (clamped to now when in the future, missing or more than
  24 hours old), compensated by Age and by the peer response time; the expiry rebased onto the served date.
* `HttpStateData::haveParsedReplyHeaders` (src/http.cc): ENTRY_REVALIDATE_ALWAYS / ENTRY_REVALIDATE_STALE.
* `refreshStaleness`, `refreshCheck`, `refreshIsCachable`, `refreshCheckHTTP`, `refreshIsStaleIfHit` (src/refresh.cc).
* `clientInterpretRequestHeaders` (src/client_side_request.cc): which requests get `flags.noCache` / `nocacheHack`.
* `clientReplyContext::identifyStoreObject` / `identifyFoundObject` / `cacheHit` / `processExpired`
  (src/client_side_reply.cc): what happens to a request given the store lookup result.

All times are seconds since the epoch as unbounded `Int` (time_t is 64 bit; the 32-bit `int` values that enter — Age,
max-age, ... — are bounded by their parsers and only ever added to a time_t).
`R->pct` is a double in the code; the model keeps it as a whole percentage and computes
`floor(delta * pct / 100)`; for the percentages that can be configured (integers) and deltas below 2^50 this equals
`static_cast<time_t>(delta * pct)` (the double nearest to p/100 times an integer never rounds below the exact product
by as much as the distance to the next lower integer).
-/
import SquidModel.Gen.FreshDefaults

namespace SquidModel.Cache.Fresh
open SquidModel.Gen

/-- the fields of a `refresh_pattern` rule (`RefreshPattern`) that `refreshCheck` reads -/
structure Rule where
  min : Int
  pct : Nat                 -- percent
  max : Int
  maxStale : Int            -- -1 = not given
  refreshIms : Bool
  storeStale : Bool
  overrideExpire : Bool
  overrideLastmod : Bool
  reloadIntoIms : Bool
  ignoreReload : Bool
  deriving DecidableEq, Repr

/-- the squid.conf globals read on the way -/
structure Config where
  minimumExpiryTime : Int
  maxStale : Int
  refreshAllIms : Bool
  reloadIntoIms : Bool
  offline : Bool
  varyIgnoreExpire : Bool
  /-- `refresh_nocache_hack`: some configured rule has ignore-reload or reload-into-ims -/
  refreshNocacheHack : Bool
  deriving DecidableEq, Repr

/-- `DefaultRefresh`, the implicit rule -/
def builtinRule : Rule :=
  { min := FreshDefaults.builtinMin, pct := FreshDefaults.builtinPct, max := FreshDefaults.builtinMax,
    maxStale := FreshDefaults.builtinMaxStale, refreshIms := false, storeStale := false, overrideExpire := false,
    overrideLastmod := false, reloadIntoIms := false, ignoreReload := false }

def defaultConfig : Config :=
  { minimumExpiryTime := FreshDefaults.minimumExpiryTime, maxStale := FreshDefaults.maxStale,
    refreshAllIms := FreshDefaults.refreshAllIms, reloadIntoIms := FreshDefaults.reloadIntoIms,
    offline := FreshDefaults.offlineMode, varyIgnoreExpire := FreshDefaults.varyIgnoreExpire,
    refreshNocacheHack := false }

/-- A rule as written in squid.conf without any option (what the shipped default lines are). -/
def plainRule (min : Int) (pct : Nat) (max : Int) : Rule :=
  { min := min, pct := pct, max := max, maxStale := -1, refreshIms := false, storeStale := false,
    overrideExpire := false, overrideLastmod := false, reloadIntoIms := false, ignoreReload := false }

/-- "no configured overrides": none of the refresh_pattern options that let Squid serve what the standard calls stale -/
def Rule.noOverrides (r : Rule) : Prop :=
  r.overrideExpire = false ∧ r.overrideLastmod = false ∧ r.reloadIntoIms = false ∧ r.ignoreReload = false

instance (r : Rule) : Decidable r.noOverrides := by unfold Rule.noOverrides; exact inferInstance

/-- The reply header fields as `HttpReply::hdrCacheInit` caches them (parsed values; -1 = absent or unparsable). -/
structure Reply where
  date : Int                -- header.getTime(DATE)
  hasExpires : Bool         -- header.has(EXPIRES)
  expiresHdr : Int          -- header.getTime(EXPIRES)
  lastModified : Int        -- header.getTime(LAST_MODIFIED)
  ageHdr : Int              -- header.getInt(AGE)
  hasCc : Bool              -- cache_control != nullptr
  sMaxAge : Option Int      -- cache_control->hasSMaxAge(&v)
  maxAge : Option Int       -- cache_control->hasMaxAge(&v)
  mustRevalidate : Bool
  proxyRevalidate : Bool
  noCacheNoParams : Bool    -- hasNoCacheWithoutParameters()
  ccPrivate : Bool
  immutable : Bool
  staleIfError : Option Int
  pragmaNoCache : Bool      -- reply Pragma: no-cache (looked at only without Cache-Control)
  hasVary : Bool
  contentLength : Int       -- -1 unknown
  deriving DecidableEq, Repr

/-- `HttpReply::hdrExpirationTime()` at time `now` -/
def hdrExpirationTime (cfg : Config) (now : Int) (r : Reply) : Int :=
  let viaCc : Option Int :=
    if r.hasCc then
      match r.sMaxAge with
      | some m => some m
      | none => r.maxAge
    else none
  match viaCc with
  | some maxAge => if r.date ≥ 0 then r.date + maxAge else now
  | none =>
    if cfg.varyIgnoreExpire && r.hasVary && r.date == r.expiresHdr then -1
    else if r.hasExpires then (if r.expiresHdr < 0 then now else r.expiresHdr)
    else -1

/-- the part of a `StoreEntry` (and of its stored reply) that the hit path reads -/
structure Entry where
  timestamp : Int
  expires : Int
  lastModifiedRaw : Int     -- lastModified_
  revalidateAlways : Bool   -- ENTRY_REVALIDATE_ALWAYS
  revalidateStale : Bool    -- ENTRY_REVALIDATE_STALE
  negCached : Bool          -- ENTRY_NEGCACHED
  immutable : Bool          -- reply->cache_control->hasImmutable()
  staleIfError : Option Int -- reply->cache_control->hasStaleIfError(&v)
  contentLength : Int
  deriving DecidableEq, Repr

/-- `StoreEntry::lastModified()` -/
def Entry.lastModified (e : Entry) : Int := if e.lastModifiedRaw < 0 then e.timestamp else e.lastModifiedRaw

/-- served date of `StoreEntry::timestampsSet()`; `respTime` = `hier.peerResponseTime().tv_sec` (0 when unknown) -/
def servedDate (now : Int) (r : Reply) (respTime : Int) : Int :=
  let s0 := r.date
  let s1 := if s0 < 0 ∨ s0 > now then now
            else if s0 < now - FreshDefaults.dateSanityWindow then now
            else s0
  let s2 := if r.ageHdr > now - s1 then (if now > r.ageHdr then now - r.ageHdr else s1) else s1
  s2 - respTime

/-- the `exp` of `StoreEntry::timestampsSet()`; `replyExpires` = `reply->expires` (from `hdrExpirationTime`) -/
def rebasedExpires (served : Int) (r : Reply) (replyExpires : Int) : Int :=
  if replyExpires > 0 ∧ r.date > -1 then served + (replyExpires - r.date) else replyExpires

/-- `timestampsSet()` + the flag setting of `haveParsedReplyHeaders()` for a reply parsed at `now` -/
def store (cfg : Config) (now : Int) (r : Reply) (respTime : Int) : Entry :=
  let replyExpires := hdrExpirationTime cfg now r
  let served := servedDate now r respTime
  let always := if r.hasCc then (r.noCacheNoParams || r.ccPrivate) else r.pragmaNoCache
  let stale := r.hasCc && !(r.noCacheNoParams || r.ccPrivate) && (r.mustRevalidate || r.proxyRevalidate || r.sMaxAge.isSome)
  { timestamp := served, expires := rebasedExpires served r replyExpires, lastModifiedRaw := r.lastModified,
    revalidateAlways := always, revalidateStale := stale, negCached := false,
    immutable := r.hasCc && r.immutable, staleIfError := if r.hasCc then r.staleIfError else none,
    contentLength := r.contentLength }

/-- which rule of `refreshStaleness` decided -/
structure StaleFlags where
  expires : Bool := false
  min : Bool := false
  lmfactor : Bool := false
  max : Bool := false
  deriving DecidableEq, Repr

/-- `refreshStaleness()`: -1 = fresh, otherwise the amount of staleness (0 is stale) -/
def refreshStaleness (e : Entry) (checkTime age : Int) (R : Rule) : Int × StaleFlags :=
  if e.expires > -1 then
    if e.expires > checkTime then (-1, { expires := true })
    else (checkTime - e.expires, { expires := true })
  else if age > R.max then (age - R.max, { max := true })
  else
    let lastmodDelta := e.timestamp - e.lastModified
    if lastmodDelta > 0 then
      let staleAge : Int := (lastmodDelta * (R.pct : Int)) / 100
      if age ≥ staleAge then (age - staleAge, { lmfactor := true })
      else (-1, { lmfactor := true })
    else if age < R.min then (-1, { min := true })
    else (age - R.min, {})

/-- the request as `refreshCheck` and the hit path see it -/
structure Request where
  ignoreCc : Bool := false        -- flags.ignoreCc (http_port ignore-cc)
  hasCc : Bool := false           -- cache_control != nullptr
  ccMaxAge : Option Int := none
  ccMaxStale : Option Int := none -- `max-stale` without value = MAX_STALE_ANY
  ccMinFresh : Option Int := none
  ccNoCache : Bool := false
  ccOnlyIfCached : Bool := false
  pragmaNoCache : Bool := false   -- Pragma has the list member no-cache
  ims : Bool := false             -- flags.ims (If-Modified-Since with a positive time)
  methodOther : Bool := false     -- METHOD_OTHER
  internal : Bool := false        -- flags.internal
  deriving DecidableEq, Repr

inductive Reason
  | freshRequestMaxStaleAll | freshRequestMaxStaleValue | freshExpires | freshLmfactorRule | freshMinRule
  | freshOverrideExpires | freshOverrideLastmod
  | staleMustRevalidate | staleReloadIntoIms | staleForcedReload | staleExceedsRequestMaxAgeValue | staleExpires
  | staleMaxRule | staleLmfactorRule | staleMaxStale | staleDefault
  deriving DecidableEq, Repr

def Reason.code : Reason → Nat
  | .freshRequestMaxStaleAll => FreshDefaults.freshRequestMaxStaleAll
  | .freshRequestMaxStaleValue => FreshDefaults.freshRequestMaxStaleValue
  | .freshExpires => FreshDefaults.freshExpires
  | .freshLmfactorRule => FreshDefaults.freshLmfactorRule
  | .freshMinRule => FreshDefaults.freshMinRule
  | .freshOverrideExpires => FreshDefaults.freshOverrideExpires
  | .freshOverrideLastmod => FreshDefaults.freshOverrideLastmod
  | .staleMustRevalidate => FreshDefaults.staleMustRevalidate
  | .staleReloadIntoIms => FreshDefaults.staleReloadIntoIms
  | .staleForcedReload => FreshDefaults.staleForcedReload
  | .staleExceedsRequestMaxAgeValue => FreshDefaults.staleExceedsRequestMaxAgeValue
  | .staleExpires => FreshDefaults.staleExpires
  | .staleMaxRule => FreshDefaults.staleMaxRule
  | .staleLmfactorRule => FreshDefaults.staleLmfactorRule
  | .staleMaxStale => FreshDefaults.staleMaxStale
  | .staleDefault => FreshDefaults.staleDefault

/-- `reason < 200` -/
def Reason.isFresh (r : Reason) : Bool := r.code < FreshDefaults.staleFrom

/-- flags of `clientInterpretRequestHeaders`: (noCache, nocacheHack) -/
def interpretNoCache (cfg : Config) (q : Request) : Bool × Bool :=
  let noCache0 :=
    if !q.ignoreCc then
      if q.hasCc then q.ccNoCache
      else q.pragmaNoCache
    else false
  let noCache := noCache0 || q.methodOther
  if noCache then
    if cfg.reloadIntoIms then (false, true)
    else if cfg.refreshNocacheHack then (false, true)
    else (true, false)
  else (false, false)

/-- result of `refreshCheck`: the reason and the request flags it sets on the way -/
structure Check where
  reason : Reason
  failOnValidationError : Bool
  setNoCache : Bool
  staleness : Int
  deriving DecidableEq, Repr

/-- USE_HTTP_VIOLATIONS: the `request->flags.noCacheHack()` block (a client reload under reload-into-ims/ignore-reload
configuration); the Bool is whether `request->flags.noCache` gets set -/
def hackPart (cfg : Config) (R : Rule) (hack : Bool) : Option (Reason × Bool) :=
  if hack then
    if R.ignoreReload then none
    else if R.reloadIntoIms || cfg.reloadIntoIms then some (.staleReloadIntoIms, false)
    else some (.staleForcedReload, true)
  else none

/-- the request `max-age` directive -/
def maxAgePart (R : Rule) (e : Entry) (r : Request) (age : Int) : Option (Reason × Bool) :=
  match r.ccMaxAge with
  | some maxAge =>
    if e.immutable then none                                  -- RFC 8246
    else if R.ignoreReload && maxAge == 0 then none
    else if age > maxAge || maxAge == 0 then some (.staleExceedsRequestMaxAgeValue, false)
    else none
  | none => none

/-- the request `max-stale` directive -/
def maxStalePart (r : Request) (staleness : Int) : Option (Reason × Bool) :=
  match r.ccMaxStale with
  | some maxStale =>
    if staleness > -1 then
      if maxStale == FreshDefaults.maxStaleAny then some (.freshRequestMaxStaleAll, false)
      else if staleness < maxStale then some (.freshRequestMaxStaleValue, false)
      else none
    else none
  | none => none

/-- The "request-specific checks" block of `refreshCheck` (entered only with a request whose `flags.ignoreCc` is off):
`some reason` = the block returned, `none` = control falls through to the response/config checks.
The Bool of the result is whether `request->flags.noCache` gets set. -/
def requestChecks (cfg : Config) (R : Rule) (e : Entry) (r : Request) (hack : Bool) (age staleness : Int) : Option (Reason × Bool) :=
  if r.ims && (R.refreshIms || cfg.refreshAllIms) then some (.staleForcedReload, false)
  else
    match hackPart cfg R hack with
    | some c => some c
    | none =>
      if r.hasCc then
        match maxAgePart R e r age with
        | some c => some c
        | none => maxStalePart r staleness
      else none

/-- The tail of `refreshCheck` after the request-specific block: (reason, sets failOnValidationError). -/
def finalChecks (cfg : Config) (R : Rule) (age staleness : Int) (sf : StaleFlags) : Reason × Bool :=
  if staleness == -1 then
    (if sf.expires then .freshExpires else if sf.lmfactor then .freshLmfactorRule else .freshMinRule, false)
  else
    let maxStaleCfg : Int := if R.maxStale ≥ 0 then R.maxStale else cfg.maxStale
    if maxStaleCfg ≥ 0 ∧ staleness > maxStaleCfg then (.staleMaxStale, true)
    else if sf.expires then
      if R.overrideExpire && decide (age < R.min) then (.freshOverrideExpires, false) else (.staleExpires, false)
    else if sf.max then (.staleMaxRule, false)
    else if sf.lmfactor then
      if R.overrideLastmod && decide (age < R.min) then (.freshOverrideLastmod, false) else (.staleLmfactorRule, false)
    else (.staleDefault, false)

/-- age and check time as `refreshCheck` computes them before calling `refreshStaleness`: (age, check_time) -/
def checkPoint (now : Int) (e : Entry) (q : Option Request) (delta : Int) : Int × Int :=
  let checkTime0 := now + delta
  let age0 : Int := if checkTime0 > e.timestamp then checkTime0 - e.timestamp else 0
  let minFresh : Int := match q with
    | some r => if !r.ignoreCc && r.hasCc then r.ccMinFresh.getD 0 else 0
    | none => 0
  (age0 + minFresh, checkTime0 + minFresh)

/-- `refreshCheck(entry, request, delta)` at time `now` with the matching rule `R`.
`q = none` is the request-less call of `refreshIsCachable`; `hack` = `request->flags.noCacheHack()`. -/
def refreshCheck (cfg : Config) (R : Rule) (now : Int) (e : Entry) (q : Option Request) (hack : Bool) (delta : Int) : Check :=
  let age := (checkPoint now e q delta).1
  let checkTime := (checkPoint now e q delta).2
  let staleness := (refreshStaleness e checkTime age R).1
  let sf := (refreshStaleness e checkTime age R).2
  -- stale-if-error
  let fove1 : Bool := match q, e.staleIfError with
    | some _, some sie => decide (sie < staleness)
    | _, _ => false
  if e.revalidateAlways || (decide (staleness > -1) && e.revalidateStale) then
    { reason := .staleMustRevalidate, failOnValidationError := fove1 || q.isSome, setNoCache := false, staleness := staleness }
  else
    let reqPart : Option (Reason × Bool) := match q with
      | some r => if r.ignoreCc then none else requestChecks cfg R e r hack age staleness
      | none => none
    match reqPart with
    | some (reason, snc) => { reason := reason, failOnValidationError := fove1, setNoCache := snc, staleness := staleness }
    | none =>
      let fin := finalChecks cfg R age staleness sf
      { reason := fin.1, failOnValidationError := fove1 || (fin.2 && q.isSome), setNoCache := false, staleness := staleness }

/-- `refreshIsCachable(entry)` right after `timestampsSet()` (the REVALIDATE flags are set only afterwards) -/
def refreshIsCachable (cfg : Config) (R : Rule) (now : Int) (e : Entry) : Bool :=
  let e0 := { e with revalidateAlways := false, revalidateStale := false }
  let c := refreshCheck cfg R now e0 none false cfg.minimumExpiryTime
  if c.reason.isFresh then true
  else if e.lastModified < 0 then false
  else if e.contentLength == 0 then false
  else true

/-- `refreshIsStaleIfHit(reason)` -/
def staleIfHit : Reason → Bool
  | .freshMinRule | .freshLmfactorRule | .freshExpires => false
  | _ => true

/-- `refreshCheckHTTP(entry, request)`: true = STALE -/
def refreshCheckHTTP (cfg : Config) (R : Rule) (now : Int) (e : Entry) (q : Request) (hack : Bool) : Bool × Check :=
  let c := refreshCheck cfg R now e (some q) hack 0
  (!(cfg.offline || c.reason.isFresh), c)

/-- what a request ends in, as far as the cache and the origin are concerned -/
inductive Outcome
  | hit                 -- answered from the cache, nothing sent upstream (TCP_HIT / TCP_MEM_HIT)
  | negativeHit         -- TCP_NEGATIVE_HIT, nothing sent upstream
  | revalidate          -- processExpired(): a conditional request goes upstream (TCP_REFRESH_*)
  | miss                -- processMiss(): an unconditional request goes upstream (TCP_MISS)
  | clientRefreshMiss   -- processMiss() because of the client's no-cache (TCP_CLIENT_REFRESH_MISS)
  | onlyIfCached504     -- processOnlyIfCachedMiss(): 504, nothing sent upstream, nothing served from the cache
  deriving DecidableEq, Repr

/-- nothing went upstream and the cached response was the answer -/
def Outcome.servedWithoutContact : Outcome → Bool
  | .hit | .negativeHit => true
  | _ => false

def Outcome.contactsOrigin : Outcome → Bool
  | .revalidate | .miss | .clientRefreshMiss => true
  | _ => false

/-- `processMiss()`: only-if-cached requests (`ClientHttpRequest::onlyIfCached()`, which does not look at
`flags.ignoreCc`) end in a 504, everything else goes upstream unconditionally -/
def missOutcome (q : Request) : Outcome :=
  if q.hasCc && q.ccOnlyIfCached then .onlyIfCached504 else .miss

/-- `cacheHit()` once `refreshCheckHTTP()` said STALE -/
def stalePath (e : Entry) (q : Request) (c : Check) : Outcome :=
  if e.lastModified < 0 then missOutcome q                               -- cannot revalidate without a modification time
  else if c.setNoCache then                                              -- r->flags.noCache: TCP_CLIENT_REFRESH_MISS
    (if q.hasCc && q.ccOnlyIfCached then .onlyIfCached504 else .clientRefreshMiss)
  else if q.hasCc && q.ccOnlyIfCached then .onlyIfCached504             -- processExpired(): onlyIfCached()
  else .revalidate

/-- `identifyFoundObject` → `doGetMoreData` → `cacheHit` for a found entry; `noCache`/`hack` = the request's
`flags.noCache` / `flags.noCacheHack()` -/
def hitPath (cfg : Config) (R : Rule) (now : Int) (e : Entry) (q : Request) (noCache hack : Bool) : Outcome :=
  if cfg.offline then .hit
  -- validToSend(): an expired negatively cached entry is not sent
  else if e.negCached && decide (e.expires ≤ now) then missOutcome q
  else if noCache then missOutcome q      -- identifyFoundObject: no-cache REFRESH MISS (internal requests only)
  -- cacheHit
  else if e.negCached && decide (e.expires > now) && !hack then .negativeHit
  else if q.internal then .hit
  else
    let sc := refreshCheckHTTP cfg R now e q hack
    if sc.1 then stalePath e q sc.2 else .hit

/-- `identifyStoreObject` → `identifyFoundObject` → `doGetMoreData` → `cacheHit` for a GET over http whose store lookup
found `cached` (a complete, shareable, non-special entry with matching Vary; `none` = nothing found).
Not modelled here: collapsed forwarding, Vary re-lookups, `send_hit` ACLs, swap-in failures, conditionals. -/
def lookup (cfg : Config) (R : Rule) (now : Int) (cached : Option Entry) (q : Request) : Outcome :=
  let nc := interpretNoCache cfg q
  -- identifyStoreObject: "external" no-cache requests skip the Store lookup
  match (if !nc.1 || q.internal then cached else none) with
  | none => missOutcome q
  | some e => hitPath cfg R now e q nc.1 nc.2

/-- Whether the first response is left in the cache: `reusableReply` for a 200 without no-store/private/authentication
(`refreshIsCachable(entry) || REFRESH_OVERRIDE(store_stale)`), then the flags. -/
def admitReply (cfg : Config) (R : Rule) (now : Int) (r : Reply) (respTime : Int) : Option Entry :=
  let e := store cfg now r respTime
  if refreshIsCachable cfg R now e || R.storeStale then some e else none

/-! ### revalidation: a 304 updates the stored headers and the timestamps

`clientReplyContext::handleIMSReply` → `Store::Controller::updateOnNotModified` → `StoreEntry::updateOnNotModified`
(src/store.cc) → `HttpReply::recreateOnNotModified` (src/HttpReply.cc: `HttpHeader::needUpdate`, `HttpHeader::update`,
`hdrCacheInit`) → `StoreEntry::timestampsSet`. The ENTRY_REVALIDATE_* flags are *not* recomputed there. -/

/-- the header fields of a 304 reply that matter here; `has*` = the field is present in the 304 -/
structure NotModified where
  hasDate : Bool
  date : Int
  hasCc : Bool
  sMaxAge : Option Int
  maxAge : Option Int
  mustRevalidate : Bool
  proxyRevalidate : Bool
  noCacheNoParams : Bool
  ccPrivate : Bool
  immutable : Bool
  staleIfError : Option Int
  hasExpires : Bool
  expiresHdr : Int
  hasLastModified : Bool
  lastModified : Int
  hasAge : Bool
  ageHdr : Int
  deriving DecidableEq, Repr

/-- a cached response: the stored reply header (as parsed), `reply->expires`, and the StoreEntry fields -/
structure Cached where
  reply : Reply
  replyExpires : Int
  entry : Entry
  deriving DecidableEq, Repr

/-- `HttpHeader::needUpdate`: some field of the 304 is absent from, or differs from, the stored header.
(Field values are compared as parsed values: the model assumes one spelling per value.) -/
def NotModified.differs (n : NotModified) (old : Reply) : Bool :=
  (n.hasDate && n.date != old.date) ||
  (n.hasCc && !(old.hasCc && n.sMaxAge == old.sMaxAge && n.maxAge == old.maxAge && n.mustRevalidate == old.mustRevalidate &&
                n.proxyRevalidate == old.proxyRevalidate && n.noCacheNoParams == old.noCacheNoParams && n.ccPrivate == old.ccPrivate &&
                n.immutable == old.immutable && n.staleIfError == old.staleIfError)) ||
  (n.hasExpires && !(old.hasExpires && n.expiresHdr == old.expiresHdr)) ||
  (n.hasLastModified && n.lastModified != old.lastModified) ||
  (n.hasAge && n.ageHdr != old.ageHdr)

/-- `HttpHeader::update`: every field present in the 304 replaces the stored field of that name, the others stay -/
def merge304 (old : Reply) (n : NotModified) : Reply :=
  { old with
    date := if n.hasDate then n.date else old.date,
    hasCc := n.hasCc || old.hasCc,
    sMaxAge := if n.hasCc then n.sMaxAge else old.sMaxAge,
    maxAge := if n.hasCc then n.maxAge else old.maxAge,
    mustRevalidate := if n.hasCc then n.mustRevalidate else old.mustRevalidate,
    proxyRevalidate := if n.hasCc then n.proxyRevalidate else old.proxyRevalidate,
    noCacheNoParams := if n.hasCc then n.noCacheNoParams else old.noCacheNoParams,
    ccPrivate := if n.hasCc then n.ccPrivate else old.ccPrivate,
    immutable := if n.hasCc then n.immutable else old.immutable,
    staleIfError := if n.hasCc then n.staleIfError else old.staleIfError,
    hasExpires := n.hasExpires || old.hasExpires,
    expiresHdr := if n.hasExpires then n.expiresHdr else old.expiresHdr,
    lastModified := if n.hasLastModified then n.lastModified else old.lastModified,
    ageHdr := if n.hasAge then n.ageHdr else old.ageHdr }

/-- the entry fields `timestampsSet()` (re)computes from a reply at time `now`, everything else kept from `e` -/
def setTimestamps (now : Int) (r : Reply) (replyExpires respTime : Int) (e : Entry) : Entry :=
  let served := servedDate now r respTime
  { e with timestamp := served, expires := rebasedExpires served r replyExpires, lastModifiedRaw := r.lastModified,
           immutable := r.hasCc && r.immutable, staleIfError := if r.hasCc then r.staleIfError else none }

/-- a freshly stored reply as a `Cached` -/
def storeCached (cfg : Config) (now : Int) (r : Reply) (respTime : Int) : Cached :=
  { reply := r, replyExpires := hdrExpirationTime cfg now r, entry := store cfg now r respTime }

/-- `StoreEntry::updateOnNotModified` at time `now` -/
def on304 (cfg : Config) (now : Int) (c : Cached) (n : NotModified) (respTime : Int) : Cached :=
  let upd := n.differs c.reply
  let reply' := if upd then merge304 c.reply n else c.reply
  let rexp := if upd then hdrExpirationTime cfg now reply' else c.replyExpires
  { reply := reply', replyExpires := rexp, entry := setTimestamps now reply' rexp respTime c.entry }

/-- admission as a `Cached` -/
def admitCached (cfg : Config) (R : Rule) (now : Int) (r : Reply) (respTime : Int) : Option Cached :=
  (admitReply cfg R now r respTime).map fun e => { reply := r, replyExpires := hdrExpirationTime cfg now r, entry := e }

/-- What is cached after a request: a hit or a 504 leaves the cache alone; a revalidation answered by `n` (a 304) updates
the entry; an unconditional fetch answered by an uncacheable 200 leaves nothing (`httpMaybeRemovePublic` releases the old
public entry, the new reply is not stored). -/
def afterRequest (cfg : Config) (now : Int) (cached : Option Cached) (out : Outcome) (n : NotModified) : Option Cached :=
  match out with
  | .hit | .negativeHit | .onlyIfCached504 => cached
  | .revalidate => cached.map fun c => on304 cfg now c n 0
  | .miss | .clientRefreshMiss => none

end SquidModel.Cache.Fresh
