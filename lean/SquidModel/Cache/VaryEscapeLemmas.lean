/-
C13 — facts about the escaper of the vary mark: agreement with the dumped graph of the running function on every octet,
no double quote in the output, injectivity.
-/
import SquidModel.Cache.VaryEscape
import SquidModel.Base.Finite

namespace SquidModel.Cache.Vary
open SquidModel

/-- The model and the running `rfc1738_escape_part()` agree on every one-octet C string
(`graph` is regenerated from the staged code every run). -/
theorem escByte_eq_graph : ∀ b : UInt8, b ≠ 0 →
    escByte Gen.VaryEscape.ALL b = Gen.VaryEscape.graph.getD b.toNat [] := by
  have h := forall_octet
    (fun b => b == 0 || (escByte Gen.VaryEscape.ALL b == Gen.VaryEscape.graph.getD b.toNat [])) (by decide +kernel)
  intro b hb
  have := h b
  simp only [Bool.or_eq_true, beq_iff_eq] at this
  rcases this with h0 | h1
  · exact absurd h0 hb
  · exact h1

/-- value of an upper-case hex digit as emitted by `%02X` (anything else maps to 0) -/
def unhexUpper (c : UInt8) : Nat :=
  if 48 ≤ c && c ≤ 57 then c.toNat - 48 else if 65 ≤ c && c ≤ 70 then c.toNat - 55 else 0

/-- shape of the per-octet output: the octet itself (then it is neither `"` nor `%`), or `%XX` with two upper-case
hex digits that decode to the octet -/
theorem escByte_shape : ∀ b : UInt8,
    (escByte Gen.VaryEscape.ALL b = [b] ∧ b ≠ 34 ∧ b ≠ 37) ∨
    (∃ x y : UInt8, escByte Gen.VaryEscape.ALL b = [37, x, y] ∧ x ≠ 34 ∧ y ≠ 34 ∧
      unhexUpper x * 16 + unhexUpper y = b.toNat) := by
  have h := forall_octet
    (fun b => (escByte Gen.VaryEscape.ALL b == [b] && b != 34 && b != 37) ||
      (match escByte Gen.VaryEscape.ALL b with
       | [p, x, y] => p == 37 && x != 34 && y != 34 && (unhexUpper x * 16 + unhexUpper y == b.toNat)
       | _ => false)) (by decide +kernel)
  intro b
  have hb := h b
  simp only [Bool.or_eq_true, Bool.and_eq_true, beq_iff_eq, bne_iff_ne, ne_eq] at hb
  rcases hb with ⟨⟨h1, h2⟩, h3⟩ | hb
  · exact Or.inl ⟨h1, h2, h3⟩
  · right
    split at hb
    · rename_i p x y heq
      simp only [Bool.and_eq_true, beq_iff_eq, bne_iff_ne, ne_eq] at hb
      obtain ⟨⟨⟨hp, hx⟩, hy⟩, hv⟩ := hb
      exact ⟨x, y, by rw [heq, hp], hx, hy, hv⟩
    · cases hb

/-- the escaped form never contains a double quote: the value field of the mark is self-delimiting -/
theorem escapePart_no_quote (s : Bytes) : (34 : UInt8) ∉ escapePart s := by
  unfold escapePart escape
  intro hmem
  rw [List.mem_flatMap] at hmem
  obtain ⟨b, _, hb⟩ := hmem
  rcases escByte_shape b with ⟨h1, h2, _⟩ | ⟨x, y, h1, hx, hy, _⟩
  · rw [h1] at hb; simp at hb; exact h2 hb.symm
  · rw [h1] at hb
    simp only [List.mem_cons, List.not_mem_nil, or_false] at hb
    rcases hb with hb | hb | hb
    · cases hb
    · exact hx hb.symm
    · exact hy hb.symm

theorem escapePart_nil : escapePart [] = [] := rfl

theorem escapePart_cons (b : UInt8) (s : Bytes) :
    escapePart (b :: s) = escByte Gen.VaryEscape.ALL b ++ escapePart s := by
  simp [escapePart, escape]

/-- `rfc1738_escape_part` is injective: different header values never escape to the same text -/
theorem escapePart_injective : ∀ s t : Bytes, escapePart s = escapePart t → s = t := by
  intro s
  induction s with
  | nil =>
    intro t h
    cases t with
    | nil => rfl
    | cons b t =>
      rw [escapePart_nil, escapePart_cons] at h
      rcases escByte_shape b with ⟨h1, _, _⟩ | ⟨x, y, h1, _⟩ <;> rw [h1] at h <;> simp at h
  | cons a s ih =>
    intro t h
    cases t with
    | nil =>
      rw [escapePart_nil, escapePart_cons] at h
      rcases escByte_shape a with ⟨h1, _, _⟩ | ⟨x, y, h1, _⟩ <;> rw [h1] at h <;> simp at h
    | cons b t =>
      rw [escapePart_cons, escapePart_cons] at h
      rcases escByte_shape a with ⟨ha, _, ha37⟩ | ⟨x, y, ha, _, _, hav⟩ <;>
        rcases escByte_shape b with ⟨hb, _, hb37⟩ | ⟨x', y', hb, _, _, hbv⟩ <;>
        rw [ha, hb] at h
      · simp only [List.cons_append, List.nil_append, List.cons.injEq] at h
        rw [h.1, ih t h.2]
      · simp only [List.cons_append, List.nil_append, List.cons.injEq] at h
        exact absurd h.1 ha37
      · simp only [List.cons_append, List.nil_append, List.cons.injEq] at h
        exact absurd h.1.symm hb37
      · simp only [List.cons_append, List.nil_append, List.cons.injEq, true_and] at h
        obtain ⟨hx, hy, hrest⟩ := h
        subst hx; subst hy
        have hab : a = b := by
          apply UInt8.toNat_inj.mp
          omega
        rw [hab, ih t hrest]

end SquidModel.Cache.Vary
