/-
Lemmas about the rock rebuild model.
-/
import SquidModel.Cache.RestartRock

namespace SquidModel.Cache.RestartRock

theorem single_slot_restored {β : Type} (cells : List (Cell β)) (k : Key) (c : Cell β)
    (honly : cells.filter (fun x => x.key == k) = [c]) (hin : c.first = c.slot) (hnx : c.next = none)
    (hsz : c.entrySize = c.payload) (hpos : 0 < c.payload) :
    serve cells k = some [c.data] := by
  have hne : c.payload ≠ 0 := Nat.pos_iff_ne_zero.mp hpos
  have hlen : 0 < cells.length := by
    cases cells with
    | nil => simp at honly
    | cons _ _ => simp
  obtain ⟨n, hn⟩ : ∃ n, cells.length + 1 = n + 2 := ⟨cells.length - 1, by omega⟩
  simp [serve, rebuildKey, honly, useNewSlot, addSlotToEntry, hin, hsz, hne, hpos, finalizeOrFree, walk, hnx, validate, chainData, hn]

end SquidModel.Cache.RestartRock
