/-
Lemmas about the rock rebuild model.
-/
import SquidModel.Cache.RestartRock

namespace SquidModel.Cache.RestartRock

theorem single_slot_restored {β : Type} (cells : List (Cell β)) (k : Key) (c : Cell β)
    (honly : cells.filter (fun x => x.key == k) = [c]) (hin : c.first = c.slot) (hnx : c.next = none)
    (hsz : c.entrySize = c.payload) (hpos : 0 < c.payload) :
    serve cells k = some [c.data] := by
  have hne : c.payload ≠ 0 := Nat.pos_iff_ne_zero.mp hpos
  have hlen : 0 < cells.length := by
    cases cells with
    | nil => simp at honly
    | cons _ _ => simp
  obtain ⟨n, hn⟩ : ∃ n, cells.length + 1 = n + 2 := ⟨cells.length - 1, by omega⟩
  simp [serve, rebuildKey, honly, useNewSlot, addSlotToEntry, hin, hsz, hne, hpos, finalizeOrFree, walk, hnx, validate, chainData, hn]

/-! ### complete multi-slot chains, in any positions of the file -/

def toSlice {β : Type} (c : Cell β) : Slice := { slot := c.slot, size := c.payload, next := c.next }

/-- the cells are linked in list order, the last one ends the chain -/
def linked {β : Type} : List (Cell β) → Prop
  | [] => True
  | [c] => c.next = none
  | c :: d :: rest => c.next = some d.slot ∧ linked (d :: rest)

/-- the state of the per-entry loading machine after the cells `pre` (in scan order) of one multi-slot chain -/
def foldState {β : Type} (inode : Nat) (pre : List (Cell β)) : St :=
  { le := { state := .loading, anchored := pre.any (fun c => c.slot == inode), size := (pre.map (·.payload)).sum, total := 0,
            start := if pre.any (fun c => c.slot == inode) then some inode else pre.getLast?.map (·.slot) },
    slices := pre.map toSlice }

theorem add_step {β : Type} (inode : Nat) (pre : List (Cell β)) (c : Cell β) (s : St)
    (hs : s = foldState inode pre ∨ (pre = [] ∧ s = { le := { state := .loading } }))
    (hfirst : c.first = inode) (hes : c.slot = inode → c.entrySize = 0)
    (hone : c.slot = inode → pre.any (fun x => x.slot == inode) = false) :
    addSlotToEntry s c = foldState inode (pre ++ [c]) := by
  have hs' : s = foldState inode pre := by
    rcases hs with h | ⟨h1, h2⟩
    · exact h
    · subst h1; rw [h2]; simp [foldState]
  subst hs'
  by_cases hi : c.slot = inode
  · have h0 := hes hi
    have h1 := hone hi
    simp [addSlotToEntry, foldState, hfirst, hi, h0, h1, toSlice, List.any_append]
  · have hne : (inode == c.slot) = false := by simp; exact fun h => hi h.symm
    have hne2 : (c.slot == inode) = false := by simp [hi]
    cases ha : pre.any (fun x => x.slot == inode) <;>
      simp [addSlotToEntry, foldState, hfirst, hne, hne2, ha, toSlice, List.any_append, List.getLast?_append]

/-- the cells a multi-slot entry consists of, in chain order -/
structure IsChain {β : Type} (k : Key) (cs : List (Cell β)) (inode : Nat) : Prop where
  keys : ∀ c ∈ cs, c.key = k
  pos : ∀ c ∈ cs, 0 < c.payload
  nodup : (cs.map (·.slot)).Nodup
  firsts : ∀ c ∈ cs, c.first = inode
  head : (cs.head?.map (·.slot)) = some inode
  /-- the first write of a multi-slot entry does not know the entry size yet -/
  inodeSize : ∀ c ∈ cs, c.slot = inode → c.entrySize = 0
  links : linked cs

theorem fold_cells {β : Type} (inode : Nat) (rest : List (Cell β)) :
    ∀ (pre : List (Cell β)) (s : St), (s = foldState inode pre ∨ (pre = [] ∧ s = {})) →
    (∀ c ∈ rest, c.first = inode) → (∀ c ∈ rest, c.slot = inode → c.entrySize = 0) →
    ((pre ++ rest).map (·.slot)).Nodup → (pre = [] → rest ≠ []) →
    rest.foldl useNewSlot s = foldState inode (pre ++ rest) := by
  induction rest with
  | nil =>
    intro pre s hs _ _ _ hne
    rcases hs with h | ⟨h1, _⟩
    · simp [h]
    · exact absurd rfl (hne h1)
  | cons c rest ih =>
    intro pre s hs hf he hn _
    simp only [List.foldl_cons]
    have hone : c.slot = inode → pre.any (fun x => x.slot == inode) = false := by
      intro hc
      rw [List.any_eq_false]
      intro x hx
      simp only [beq_iff_eq]
      intro hxi
      have hn' : ((pre ++ c :: rest).map (·.slot)).Nodup := hn
      rw [List.map_append, List.nodup_append] at hn'
      exact hn'.2.2 x.slot (List.mem_map.mpr ⟨x, hx, rfl⟩) c.slot (by simp) (hxi.trans hc.symm)
    have hstep : useNewSlot s c = foldState inode (pre ++ [c]) := by
      rcases hs with h | ⟨h1, h2⟩
      · subst h
        cases pre with
        | nil =>
          simp only [useNewSlot, foldState, List.any_nil, List.map_nil, List.sum_nil, Bool.false_eq_true, if_false, List.getLast?_nil, Option.map_none]
          exact add_step inode [] c _ (Or.inr ⟨rfl, rfl⟩) (hf c (by simp)) (he c (by simp)) hone
        | cons p ps =>
          have : (foldState inode (p :: ps)).le.state = .loading := rfl
          simp only [useNewSlot, this]
          exact add_step inode (p :: ps) c _ (Or.inl rfl) (hf c (by simp)) (he c (by simp)) hone
      · subst h1 h2
        simp only [useNewSlot]
        exact add_step inode [] c _ (Or.inr ⟨rfl, rfl⟩) (hf c (by simp)) (he c (by simp)) hone
    rw [hstep]
    have e1 : pre ++ c :: rest = (pre ++ [c]) ++ rest := by simp
    rw [e1]
    exact ih (pre ++ [c]) _ (Or.inl rfl) (fun x hx => hf x (List.mem_cons_of_mem _ hx)) (fun x hx => he x (List.mem_cons_of_mem _ hx))
      (by rw [← e1]; exact hn) (by intro h; simp at h)

theorem find_slice {β : Type} (P : List (Cell β)) (hn : (P.map (·.slot)).Nodup) (c : Cell β) (hc : c ∈ P) :
    (P.map toSlice).find? (fun s => s.slot == c.slot) = some (toSlice c) := by
  induction P with
  | nil => cases hc
  | cons p ps ih =>
    simp only [List.map_cons, List.nodup_cons, List.mem_map, not_exists, not_and] at hn
    rcases List.mem_cons.mp hc with h | h
    · subst h; simp [toSlice]
    · have hne : p.slot ≠ c.slot := fun hh => hn.1 c h hh.symm
      have : ((toSlice p).slot == c.slot) = false := by simp [toSlice, hne]
      simp only [List.map_cons, List.find?_cons, this]
      exact ih hn.2 h

theorem filter_slices {β : Type} (P : List (Cell β)) (id : Nat) :
    (P.map toSlice).filter (fun x => !(x.slot == id)) = (P.filter (fun c => !(c.slot == id))).map toSlice := by
  induction P with
  | nil => rfl
  | cons p ps ih =>
    by_cases h : p.slot = id <;> simp [toSlice, h] at ih ⊢ <;> exact ih

theorem walk_chain {β : Type} (suffix : List (Cell β)) :
    ∀ (P : List (Cell β)) (fuel seen size : Nat), suffix ≠ [] → linked suffix → (∀ c ∈ suffix, c ∈ P) → (P.map (·.slot)).Nodup →
    (suffix.map (·.slot)).Nodup → (∀ c ∈ suffix, 0 < c.payload) → seen + (suffix.map (·.payload)).sum = size → suffix.length < fuel →
    walk (P.map toSlice) fuel (suffix.head?.map (·.slot)) seen size = some (suffix.map (·.slot)) := by
  induction suffix with
  | nil => intro _ _ _ _ h; exact absurd rfl h
  | cons c rest ih =>
    intro P fuel seen size _ hl hsub hn hsn hpos hsum hfuel
    obtain ⟨f, hf⟩ : ∃ f, fuel = f + 1 := ⟨fuel - 1, by simp at hfuel; omega⟩
    subst hf
    have hcp := hpos c (by simp)
    have hlt : seen < size := by simp at hsum; omega
    have hfind := find_slice P hn c (hsub c (by simp))
    simp only [List.head?_cons, Option.map_some, walk, hlt, if_true, hfind]
    have hsz : (toSlice c).size ≠ 0 := by simp [toSlice]; omega
    simp only [toSlice, Bool.false_eq_true, if_false] at hsz ⊢
    simp only [hsz, if_false]
    rw [show (List.map toSlice P).filter (fun x => !(x.slot == c.slot)) = (P.filter (fun x => !(x.slot == c.slot))).map toSlice from filter_slices P c.slot]
    cases rest with
    | nil =>
      simp only [linked] at hl
      obtain ⟨f', hf'⟩ : ∃ f', f = f' + 1 := ⟨f - 1, by simp at hfuel; omega⟩
      subst hf'
      have : seen + c.payload = size := by simp at hsum; omega
      simp [hl, walk, this]
    | cons d rest' =>
      simp only [linked] at hl
      simp only [List.map_cons, List.nodup_cons, List.mem_cons, List.mem_map, not_or, not_exists, not_and] at hsn
      have hres := ih (P.filter (fun x => !(x.slot == c.slot))) f (seen + c.payload) size (by simp) hl.2
        (by
          intro x hx
          simp only [List.mem_filter, Bool.not_eq_true', beq_eq_false_iff_ne, ne_eq]
          refine ⟨hsub x (List.mem_cons_of_mem _ hx), ?_⟩
          intro hxc
          rcases List.mem_cons.mp hx with h1 | h1
          · subst h1; exact hsn.1.1 hxc.symm
          · exact hsn.1.2 x h1 hxc)
        (List.Nodup.sublist (List.Sublist.map _ List.filter_sublist) hn)
        (by simp only [List.map_cons, List.nodup_cons, List.mem_map, not_exists, not_and]; exact hsn.2)
        (fun x hx => hpos x (List.mem_cons_of_mem _ hx))
        (by simp at hsum ⊢; omega)
        (by simp at hfuel ⊢; omega)
      simp only [List.head?_cons, Option.map_some] at hres
      simp [hl.1, hres]

theorem chainData_chain {β : Type} (suffix : List (Cell β)) :
    ∀ (P : List (Cell β)) (fuel : Nat), suffix ≠ [] → linked suffix → (∀ c ∈ suffix, c ∈ P) → (P.map (·.slot)).Nodup → suffix.length < fuel →
    chainData P fuel (suffix.head?.map (·.slot)) = some (suffix.map (·.data)) := by
  induction suffix with
  | nil => intro _ _ h; exact absurd rfl h
  | cons c rest ih =>
    intro P fuel _ hl hsub hn hfuel
    obtain ⟨f, hf⟩ : ∃ f, fuel = f + 1 := ⟨fuel - 1, by simp at hfuel; omega⟩
    subst hf
    have hfind : P.find? (fun x => x.slot == c.slot) = some c := by
      have hc := hsub c (by simp)
      clear ih hl hsub hfuel
      induction P with
      | nil => cases hc
      | cons p ps ihp =>
        simp only [List.map_cons, List.nodup_cons, List.mem_map, not_exists, not_and] at hn
        rcases List.mem_cons.mp hc with h | h
        · subst h; simp [List.find?]
        · have hne : (p.slot == c.slot) = false := by simp; exact fun hh => hn.1 c h hh.symm
          simp only [List.find?_cons, hne]; exact ihp hn.2 h
    simp only [List.head?_cons, Option.map_some, chainData, hfind]
    cases rest with
    | nil =>
      simp only [linked] at hl
      obtain ⟨f', hf'⟩ : ∃ f', f = f' + 1 := ⟨f - 1, by simp at hfuel; omega⟩
      subst hf'
      simp [hl, chainData]
    | cons d rest' =>
      simp only [linked] at hl
      have hres := ih P f (by simp) hl.2 (fun x hx => hsub x (List.mem_cons_of_mem _ hx)) hn (by simp at hfuel ⊢; omega)
      simp only [List.head?_cons, Option.map_some] at hres
      simp [hl.1, hres]

/-- If the cells carrying key `k` are, in whatever positions of the file, exactly the cells of one complete multi-slot entry, the
rebuild indexes it and a hit reads its pieces in chain order. -/
theorem chain_restored {β : Type} (cells : List (Cell β)) (k : Key) (cs : List (Cell β)) (inode : Nat)
    (hch : IsChain k cs inode) (hlen : 2 ≤ cs.length) (hperm : (cells.filter (fun x => x.key == k)).Perm cs) :
    serve cells k = some (cs.map (·.data)) := by
  generalize hP : cells.filter (fun x => x.key == k) = P at hperm
  have hPn : (P.map (·.slot)).Nodup := ((hperm.map (·.slot)).nodup_iff).mpr hch.nodup
  have hPne : P ≠ [] := by
    intro h; rw [h] at hperm; have := hperm.length_eq; simp at this; omega
  have hmem : ∀ c, c ∈ P ↔ c ∈ cs := fun c => hperm.mem_iff
  have hfold : P.foldl useNewSlot {} = foldState inode P := by
    have := fold_cells inode P [] {} (Or.inr ⟨rfl, rfl⟩) (fun c hc => hch.firsts c ((hmem c).mp hc))
      (fun c hc => hch.inodeSize c ((hmem c).mp hc)) (by simpa using hPn) (fun _ => hPne)
    simpa using this
  obtain ⟨c0, rest, hcs⟩ : ∃ c0 rest, cs = c0 :: rest := by
    cases cs with
    | nil => simp at hlen
    | cons a b => exact ⟨a, b, rfl⟩
  have hinode : c0.slot = inode := by
    have := hch.head; rw [hcs] at this; simpa using this
  have hany : P.any (fun c => c.slot == inode) = true := by
    rw [List.any_eq_true]
    exact ⟨c0, (hmem c0).mpr (by rw [hcs]; simp), by simp [hinode]⟩
  have hsum : (P.map (·.payload)).sum = (cs.map (·.payload)).sum := (hperm.map (·.payload)).sum_nat
  have hpos0 : 0 < (cs.map (·.payload)).sum := by
    rw [hcs]; have := hch.pos c0 (by rw [hcs]; simp); simp; omega
  have hwalk := walk_chain cs P (P.length + 1) 0 (cs.map (·.payload)).sum (by rw [hcs]; simp) hch.links
    (fun c hc => (hmem c).mpr hc) hPn hch.nodup hch.pos (by simp) (by rw [hperm.length_eq]; omega)
  have hhead : cs.head?.map (·.slot) = some inode := hch.head
  rw [hhead] at hwalk
  have hcd := chainData_chain cs P (cells.length + 1) (by rw [hcs]; simp) hch.links (fun c hc => (hmem c).mpr hc) hPn
    (by
      have h1 : P.length ≤ cells.length := by rw [← hP]; exact List.length_filter_le _ _
      rw [← hperm.length_eq]; omega)
  rw [hhead] at hcd
  unfold serve rebuildKey
  rw [hP, hfold]
  have hsz : (foldState inode P).le.size ≠ 0 := by simp only [foldState]; omega
  have hval : validate (foldState inode P) = { foldState inode P with le := { (foldState inode P).le with state := .loaded, total := (foldState inode P).le.size } } := by
    have hsz2 : ¬ (cs.map (·.payload)).sum = 0 := by omega
    simp only [validate, foldState, finalizeOrFree]
    simp only [hany, if_true, List.length_map, hsum, hwalk, hsz2, if_false]
  rw [hval]
  simp only [foldState, hany, if_true]
  exact hcd

end SquidModel.Cache.RestartRock
