/-
A third request after a revalidation that the origin answered with 304:
`clientReplyContext::handleIMSReply` (src/client_side_reply.cc) calls `Store::Controller::updateOnNotModified`, i.e.
`HttpReply::recreateOnNotModified` (the header fields present in the 304 replace the stored fields of the same name) and
`StoreEntry::timestampsSet`; neither the key nor the ENTRY_REVALIDATE_* flags change and `reusableReply` is not consulted
for the updated entry. Whether the 304 branch releases the entry when the 304 itself carries no-store / private is a
generated flag (`Gen.Reusable.notModifiedHonoursNoStore`, read from the staged source).
-/
import SquidModel.Cache.ReusableScenario

namespace SquidModel.Cache
open SquidModel

/-- Cache-Control of the stored reply after the update: the 304's fields replace the stored ones when it has any -/
def updatedCc (sc : Scenario) (nmCc : List Bytes) : Option Cc :=
  if nmCc.isEmpty then sc.replyCc else getCc (nmCc.map fieldValue)

/-- timestamps after the update (the 304 carries `Date: now`; Expires, Last-Modified and Age stay as stored) -/
def updatedTimes (sc : Scenario) (nmCc : List Bytes) (now : Int) : Times :=
  let cc := updatedCc sc nmCc
  let expHdr : Option Int := match sc.expires with | .absent => none | f => some (f.value now)
  let expires := hdrExpirationTime now cc now expHdr
  let age : Int := match sc.age with | some a => a | none => -1
  timestampsSet now now expires (sc.lastModified.value now) age 0

/-- (what request 2 was, what request 3 is) for a plain third request; scenarios with the stock settings (no negative caching) -/
def observeNotModified (sc : Scenario) (nmCc : List Bytes) : Kind × Kind :=
  match (observe sc).kind with
  | .miss => (.miss, .miss)
  | .hit => (.hit, .hit)
  | .reval =>
    let now := T0
    let rep := sc.reply now
    let reval := revalidateFlags {} rep sc.pragmaNoCache      -- unchanged by the update
    let imm := match updatedCc sc nmCc with | some c => c.immutable | none => false
    -- `new_rep.cache_control` of the 304 itself
    let nmForbids := match getCc (nmCc.map fieldValue) with | some c => c.noStore || c.priv | none => false
    -- the entry keeps its public key: the decision is not taken again
    let k3 : Kind :=
      if Gen.Reusable.notModifiedHonoursNoStore && nmForbids then .miss      -- old_entry->releaseRequest()
      else if refreshCheckHTTP {} stockDotRule (updatedTimes sc nmCc now) reval imm { cc := none } now then .reval else .hit
    (.reval, k3)

end SquidModel.Cache
