/-
Invariant of the SMP sharing model (`SquidModel/Cache/Smp.lean`) and its preservation by every action.
-/
import SquidModel.Cache.Smp

namespace SquidModel.Cache.Smp

@[simp] theorem setA_anchors (s : State) (i : Nat) (a : Anchor) (x : Nat) :
    (setA s i a).anchors x = if x = i then a else s.anchors x := rfl
@[simp] theorem setA_readers (s : State) (i : Nat) (a : Anchor) : (setA s i a).readers = s.readers := rfl
@[simp] theorem setA_log (s : State) (i : Nat) (a : Anchor) : (setA s i a).log = s.log := rfl
@[simp] theorem setA_nextR (s : State) (i : Nat) (a : Anchor) : (setA s i a).nextR = s.nextR := rfl
@[simp] theorem setR_readers (s : State) (r : Nat) (rd : Reader) (x : Nat) :
    (setR s r rd).readers x = if x = r then some rd else s.readers x := rfl
@[simp] theorem setR_anchors (s : State) (r : Nat) (rd : Reader) : (setR s r rd).anchors = s.anchors := rfl
@[simp] theorem setR_log (s : State) (r : Nat) (rd : Reader) : (setR s r rd).log = s.log := rfl
@[simp] theorem setR_nextR (s : State) (r : Nat) (rd : Reader) : (setR s r rd).nextR = s.nextR := rfl

/-- an `opened` event is fine when the incarnation it names was not invalidated before (the log is newest first) -/
def okLog : List Event → Prop
  | [] => True
  | .opened _ i g :: rest => Event.invalidated i g ∉ rest ∧ okLog rest
  | .invalidated _ _ :: rest => okLog rest

structure AnchorOk (O : Key → Ver → List Nat) (a : Anchor) : Prop where
  pre : ∀ k, a.key = some k → a.data = (O k a.ver).take a.data.length
  comp : a.complete = true → a.writer = none ∧ ∀ k, a.key = some k → a.data = O k a.ver
  empty : a.key = none → a.readers = [] ∧ a.writer = none ∧ a.wtbf = false ∧ a.complete = false

structure ReaderOk (O : Key → Ver → List Nat) (s : State) (r : Nat) (rd : Reader) : Prop where
  pre : rd.got = (O rd.key rd.ver).take rd.got.length
  done : rd.done = some true → rd.got = O rd.key rd.ver
  att : rd.attached = true → (s.anchors rd.slot).gen = rd.gen ∧ (s.anchors rd.slot).key = some rd.key ∧
    (s.anchors rd.slot).ver = rd.ver ∧ r ∈ (s.anchors rd.slot).readers ∧ rd.got = (s.anchors rd.slot).data.take rd.got.length

/-- an invalidated incarnation is gone or marked -/
def Dead (a : Anchor) (g : Nat) : Prop := g < a.gen ∨ (a.gen = g ∧ (a.wtbf = true ∨ a.key = none))

structure Inv (O : Key → Ver → List Nat) (s : State) : Prop where
  anc : ∀ i, AnchorOk O (s.anchors i)
  rdr : ∀ r rd, s.readers r = some rd → ReaderOk O s r rd
  lg : ∀ i g, Event.invalidated i g ∈ s.log → Dead (s.anchors i) g
  ok : okLog s.log

theorem anchorOk_empty (O : Key → Ver → List Nat) (g : Nat) : AnchorOk O { gen := g } := by
  constructor <;> simp

/-- one anchor replaced: what the new record must satisfy -/
theorem inv_setA {O : Key → Ver → List Nat} {s : State} (h : Inv O s) (i : Nat) (b : Anchor) (hb : AnchorOk O b)
    (hr : ∀ r rd, s.readers r = some rd → rd.attached = true → rd.slot = i →
      b.gen = rd.gen ∧ b.key = some rd.key ∧ b.ver = rd.ver ∧ r ∈ b.readers ∧ rd.got = b.data.take rd.got.length)
    (hd : ∀ g, Dead (s.anchors i) g → Dead b g) : Inv O (setA s i b) := by
  constructor
  · intro x
    by_cases hx : x = i
    · subst hx; simp; exact hb
    · simp [hx]; exact h.anc x
  · intro r rd hrd
    have hrd' : s.readers r = some rd := hrd
    have ok := h.rdr r rd hrd'
    refine ⟨ok.pre, ok.done, ?_⟩
    intro ha
    by_cases hx : rd.slot = i
    · simp [hx]
      exact hr r rd hrd' ha hx
    · simp [hx]
      exact ok.att ha
  · intro x g hg
    have hg' : Event.invalidated x g ∈ s.log := hg
    by_cases hx : x = i
    · subst hx; simp; exact hd g (h.lg x g hg')
    · simp [hx]; exact h.lg x g hg'
  · exact h.ok

theorem mem_readers_locked {a : Anchor} {r : Nat} (h : r ∈ a.readers) : a.locked = true := by
  unfold Anchor.locked
  cases hl : a.readers with
  | nil => rw [hl] at h; cases h
  | cons x xs => simp

theorem inv_tryFree {O : Key → Ver → List Nat} {s : State} (h : Inv O s) (i : Nat) : Inv O (tryFree s i) := by
  unfold tryFree
  dsimp only
  split
  · rename_i hc
    simp only [Bool.and_eq_true, Bool.not_eq_true'] at hc
    apply inv_setA h i _ (anchorOk_empty O _)
    · intro r rd hrd ha hs
      have := (h.rdr r rd hrd).att ha
      rw [hs] at this
      have hl := mem_readers_locked this.2.2.2.1
      rw [hl] at hc
      cases hc.2
    · intro g hg
      rcases hg with hg | hg
      · exact Or.inl hg
      · exact Or.inr ⟨hg.1, Or.inr rfl⟩
  · exact h

/-- adding an `invalidated` event for an incarnation that is dead -/
theorem inv_logInval {O : Key → Ver → List Nat} {s : State} (h : Inv O s) (i g : Nat) (hd : Dead (s.anchors i) g) :
    Inv O { s with log := .invalidated i g :: s.log } := by
  refine ⟨h.anc, ?_, ?_, h.ok⟩
  · intro r rd hrd
    have ok := h.rdr r rd hrd
    exact ⟨ok.pre, ok.done, ok.att⟩
  · intro x y hy
    have hy' : Event.invalidated x y = Event.invalidated i g ∨ Event.invalidated x y ∈ s.log := by
      simpa using hy
    rcases hy' with hy' | hy'
    · cases hy'; exact hd
    · exact h.lg x y hy'

theorem inv_openW {O : Key → Ver → List Nat} (hh : Key → Nat) {s : State} (h : Inv O s) (w : Nat) (k : Key) (v : Ver) :
    Inv O (openW hh s w k v) := by
  unfold openW
  dsimp only
  split
  · exact h
  · rename_i hl
    have hunl : (s.anchors (hh k)).locked = false := by simpa using hl
    -- the new anchor
    have hnew : AnchorOk O { key := some k, ver := v, gen := (s.anchors (hh k)).gen + 1, writer := some w } := by
      constructor <;> simp
    have hnoReader : ∀ r rd, s.readers r = some rd → rd.attached = true → rd.slot = hh k → False := by
      intro r rd hrd ha hs
      have := (h.rdr r rd hrd).att ha
      rw [hs] at this
      have := mem_readers_locked this.2.2.2.1
      rw [hunl] at this
      cases this
    have hdead : ∀ g, Dead (s.anchors (hh k)) g →
        Dead ({ key := some k, ver := v, gen := (s.anchors (hh k)).gen + 1, writer := some w } : Anchor) g := by
      intro g hg
      left
      rcases hg with hg | hg
      · exact Nat.lt_succ_of_lt hg
      · show g < (s.anchors (hh k)).gen + 1
        omega
    split
    · -- an old entry is replaced: it is logged as invalidated; the new incarnation makes it dead
      have h1 : Inv O (setA s (hh k) { key := some k, ver := v, gen := (s.anchors (hh k)).gen + 1, writer := some w }) :=
        inv_setA h _ _ hnew (fun r rd hrd ha hs => (hnoReader r rd hrd ha hs).elim) hdead
      have h2 := inv_logInval h1 (hh k) (s.anchors (hh k)).gen (by
        left
        simp)
      exact h2
    · exact inv_setA h _ _ hnew (fun r rd hrd ha hs => (hnoReader r rd hrd ha hs).elim) hdead

/-- an anchor changed in fields that readers and the log do not depend on -/
theorem inv_setA_same {O : Key → Ver → List Nat} {s : State} (h : Inv O s) (i : Nat) (b : Anchor) (hb : AnchorOk O b)
    (h1 : b.gen = (s.anchors i).gen) (h2 : b.key = (s.anchors i).key) (h3 : b.ver = (s.anchors i).ver)
    (h4 : ∀ r, r ∈ (s.anchors i).readers → r ∈ b.readers) (h5 : ∃ t, b.data = (s.anchors i).data ++ t)
    (h6 : (s.anchors i).wtbf = true → b.wtbf = true) : Inv O (setA s i b) := by
  apply inv_setA h i b hb
  · intro r rd hrd ha hs
    have := (h.rdr r rd hrd).att ha
    rw [hs] at this
    obtain ⟨g1, g2, g3, g4, g5⟩ := this
    refine ⟨h1.trans g1, h2.trans g2, h3.trans g3, h4 r g4, ?_⟩
    obtain ⟨t, ht⟩ := h5
    rw [ht]
    have hl : rd.got.length ≤ (s.anchors i).data.length := by
      have := congrArg List.length g5
      simp at this
      omega
    rw [List.take_append_of_le_length hl]
    exact g5
  · intro g hg
    rcases hg with hg | hg
    · left; rw [h1]; exact hg
    · right
      refine ⟨h1.trans hg.1, ?_⟩
      rcases hg.2 with hw | hk
      · exact Or.inl (h6 hw)
      · exact Or.inr (h2.trans hk)

theorem inv_startApp {O : Key → Ver → List Nat} {s : State} (h : Inv O s) (w i : Nat) : Inv O (startApp s w i) := by
  unfold startApp
  dsimp only
  split
  · rename_i hw
    have ok := h.anc i
    apply inv_setA_same h i
    · constructor
      · exact ok.pre
      · intro hc
        have := (ok.comp hc).1
        rw [hw] at this
        cases this
      · intro hk
        have := (ok.empty hk).2.1
        rw [hw] at this
        cases this
    · rfl
    · rfl
    · rfl
    · intro r hr; exact hr
    · exact ⟨[], by simp⟩
    · intro hx; exact hx
  · exact h

theorem take_length_take' {α : Type} (l : List α) (k : Nat) : l.take (l.take k).length = l.take k := by
  rw [List.length_take]
  rcases Nat.le_total k l.length with h | h
  · rw [Nat.min_eq_left h]
  · rw [Nat.min_eq_right h, List.take_of_length_le (Nat.le_refl _), List.take_of_length_le h]

theorem prefix_extend' {α : Type} (l p : List α) (r : Nat) (hp : p = l.take p.length) :
    p ++ (l.drop p.length).take r = l.take (p ++ (l.drop p.length).take r).length := by
  have h1 : p ++ (l.drop p.length).take r = l.take (p.length + r) := by
    rw [List.take_add]
    rw [← hp]
  rw [h1]
  exact (take_length_take' l _).symm

theorem prefix_of_prefix {α : Type} (l a : List α) (ha : a = l.take a.length) (L : Nat) : a.take L = l.take (a.take L).length := by
  have h1 : a.take L = l.take (min L a.length) := by
    conv => lhs; rw [ha]
    rw [List.take_take]
  rw [h1]
  exact (take_length_take' l _).symm

theorem inv_append {O : Key → Ver → List Nat} {s : State} (h : Inv O s) (w i n : Nat) : Inv O (append O s w i n) := by
  unfold append
  dsimp only
  split
  · exact h
  · rename_i k hk
    split
    · rename_i hw
      have ok := h.anc i
      apply inv_setA_same h i
      · constructor
        · intro k' hk'
          have hk'' : (s.anchors i).key = some k' := hk'
          rw [hk] at hk''
          cases hk''
          exact prefix_extend' (O k (s.anchors i).ver) (s.anchors i).data n (ok.pre k hk)
        · intro hc
          have := (ok.comp hc).1
          rw [hw] at this
          cases this
        · intro hk'
          have hk'' : (s.anchors i).key = none := hk'
          rw [hk] at hk''
          cases hk''
      · rfl
      · rfl
      · rfl
      · intro r hr; exact hr
      · exact ⟨_, rfl⟩
      · intro hx; exact hx
    · exact h

theorem inv_closeW {O : Key → Ver → List Nat} {s : State} (h : Inv O s) (w i : Nat) : Inv O (closeW O s w i) := by
  unfold closeW
  dsimp only
  split
  · exact h
  · rename_i k hk
    split
    · rename_i hc
      simp only [Bool.and_eq_true, decide_eq_true_eq, beq_iff_eq] at hc
      have ok := h.anc i
      apply inv_tryFree
      apply inv_setA_same h i
      · constructor
        · exact ok.pre
        · intro _
          refine ⟨rfl, ?_⟩
          intro k' hk'
          have hk'' : (s.anchors i).key = some k' := hk'
          rw [hk] at hk''
          cases hk''
          have := ok.pre k hk
          rw [hc.2, List.take_of_length_le (Nat.le_refl _)] at this
          exact this
        · intro hk'
          have hk'' : (s.anchors i).key = none := hk'
          rw [hk] at hk''
          cases hk''
      · rfl
      · rfl
      · rfl
      · intro r hr; exact hr
      · exact ⟨[], by simp⟩
      · intro hx; exact hx
    · exact h

theorem inv_abortW {O : Key → Ver → List Nat} {s : State} (h : Inv O s) (w i : Nat) : Inv O (abortW s w i) := by
  unfold abortW
  dsimp only
  split
  · rename_i hw
    have ok := h.anc i
    apply inv_tryFree
    have h1 : Inv O (setA s i { (s.anchors i) with writer := none, appending := false, wtbf := true }) := by
      apply inv_setA_same h i
      · constructor
        · exact ok.pre
        · intro hc
          have := (ok.comp hc).1
          rw [hw] at this
          cases this
        · intro hk
          have := (ok.empty hk).2.1
          rw [hw] at this
          cases this
      · rfl
      · rfl
      · rfl
      · intro r hr; exact hr
      · exact ⟨[], by simp⟩
      · intro _; rfl
    exact inv_logInval h1 i (s.anchors i).gen (by
      right
      simp)
  · exact h

theorem inv_openR {O : Key → Ver → List Nat} (hh : Key → Nat) {s : State} (h : Inv O s) (w : Nat) (k : Key) :
    Inv O (openR hh s w k) := by
  unfold openR
  dsimp only
  split
  · rename_i hc
    simp only [Bool.and_eq_true, decide_eq_true_eq, Bool.not_eq_true'] at hc
    obtain ⟨⟨hk, hnw⟩, hwa⟩ := hc
    have ok := h.anc (hh k)
    have h1 : Inv O (setA s (hh k) { (s.anchors (hh k)) with readers := s.nextR :: (s.anchors (hh k)).readers }) := by
      apply inv_setA_same h (hh k)
      · constructor
        · exact ok.pre
        · exact ok.comp
        · intro hk'
          have hk'' : (s.anchors (hh k)).key = none := hk'
          rw [hk] at hk''
          cases hk''
      · rfl
      · rfl
      · rfl
      · intro r hr; exact List.mem_cons_of_mem _ hr
      · exact ⟨[], by simp⟩
      · intro hx; exact hx
    constructor
    · exact h1.anc
    · intro r rd hrd
      by_cases hr : r = s.nextR
      · subst hr
        simp at hrd
        subst hrd
        refine ⟨by simp, (by intro hx; cases hx), ?_⟩
        intro _
        simp [hk]
      · simp [hr] at hrd
        have ok' := h1.rdr r rd (by simpa using hrd)
        exact ⟨ok'.pre, ok'.done, ok'.att⟩
    · intro x g hg
      have hg' : Event.invalidated x g ∈ s.log := by
        have : Event.invalidated x g = Event.opened s.nextR (hh k) (s.anchors (hh k)).gen ∨ Event.invalidated x g ∈ s.log := by
          simpa using hg
        rcases this with hx | hx
        · cases hx
        · exact hx
      exact h1.lg x g hg'
    · refine ⟨?_, h.ok⟩
      intro hin
      have := h.lg (hh k) (s.anchors (hh k)).gen hin
      rcases this with hlt | ⟨_, hw | hkn⟩
      · exact Nat.lt_irrefl _ hlt
      · rw [hnw] at hw; cases hw
      · rw [hk] at hkn; cases hkn
  · exact h

theorem inv_setR {O : Key → Ver → List Nat} {s : State} (h : Inv O s) (r : Nat) (rd : Reader) (ok : ReaderOk O s r rd) :
    Inv O (setR s r rd) := by
  refine ⟨h.anc, ?_, h.lg, h.ok⟩
  intro x y hy
  by_cases hx : x = r
  · subst hx
    simp at hy
    subst hy
    exact ⟨ok.pre, ok.done, ok.att⟩
  · simp [hx] at hy
    have ok' := h.rdr x y hy
    exact ⟨ok'.pre, ok'.done, ok'.att⟩

theorem inv_read {O : Key → Ver → List Nat} {s : State} (h : Inv O s) (r n : Nat) : Inv O (read s r n) := by
  unfold read
  split
  · exact h
  · rename_i rd hrd
    split
    · exact h
    · rename_i hg
      simp only [Bool.not_eq_true', Bool.and_eq_false_iff, not_or] at hg
      have hatt : rd.attached = true := by
        cases hx : rd.attached with
        | true => rfl
        | false => simp [hx] at hg
      have ok := h.rdr r rd hrd
      obtain ⟨g1, g2, g3, g4, g5⟩ := ok.att hatt
      have aok := h.anc rd.slot
      have hpre := aok.pre rd.key g2
      dsimp only
      split
      · -- more bytes
        apply inv_setR h
        have hext := prefix_extend' (s.anchors rd.slot).data rd.got n g5
        refine ⟨?_, ?_, ?_⟩
        · -- a prefix of the anchor's data, which is a prefix of the response
          show rd.got ++ List.take n (List.drop rd.got.length (s.anchors rd.slot).data) = _
          have hA : (s.anchors rd.slot).data = (O rd.key rd.ver).take (s.anchors rd.slot).data.length := by
            rw [← g3]; exact hpre
          have := prefix_of_prefix (O rd.key rd.ver) (s.anchors rd.slot).data hA
            (rd.got ++ List.take n (List.drop rd.got.length (s.anchors rd.slot).data)).length
          rw [← hext] at this
          exact this
        · intro hd
          have hdn : rd.done = none := by
            cases hx : rd.done with
            | none => rfl
            | some b => simp [hx, hatt] at hg
          have : rd.done = some true := hd
          rw [hdn] at this
          cases this
        · intro _
          exact ⟨g1, g2, g3, g4, hext⟩
      · rename_i hlen
        split
        · -- the writer finished and everything was copied
          rename_i hc
          apply inv_setR h
          refine ⟨ok.pre, ?_, ok.att⟩
          intro _
          have hfull := (aok.comp hc).2 rd.key g2
          have hl : rd.got.length = (s.anchors rd.slot).data.length := by
            have := congrArg List.length g5
            simp at this
            omega
          show rd.got = O rd.key rd.ver
          rw [g5, hl, List.take_of_length_le (Nat.le_refl _), hfull, g3]
        · split
          · apply inv_setR h
            exact ⟨ok.pre, (by intro hx; cases hx), ok.att⟩
          · exact h

theorem inv_closeR {O : Key → Ver → List Nat} {s : State} (h : Inv O s) (r : Nat) : Inv O (closeR s r) := by
  unfold closeR
  split
  · exact h
  · rename_i rd hrd
    split
    · exact h
    · rename_i hatt
      have hatt' : rd.attached = true := by simpa using hatt
      have ok := h.rdr r rd hrd
      dsimp only
      apply inv_tryFree
      have h1 : Inv O (setR s r { rd with attached := false, done := if rd.done.isNone = true then some false else rd.done }) := by
        apply inv_setR h
        refine ⟨ok.pre, ?_, (by intro hx; cases hx)⟩
        intro hd
        have hd' : (if rd.done.isNone = true then some false else rd.done) = some true := hd
        split at hd'
        · cases hd'
        · exact ok.done hd'
      have aok := h.anc rd.slot
      apply inv_setA h1 rd.slot _
      · constructor
        · exact aok.pre
        · exact aok.comp
        · intro hk
          have := aok.empty hk
          refine ⟨?_, this.2.1, this.2.2.1, this.2.2.2⟩
          show List.filter (fun x => x != r) (s.anchors rd.slot).readers = []
          rw [this.1]
          rfl
      · intro r' rd' hrd' ha hs
        have hne : r' ≠ r := by
          intro heq
          subst heq
          simp at hrd'
          subst hrd'
          cases ha
        have hrd'' : s.readers r' = some rd' := by simpa [hne] using hrd'
        have := (h.rdr r' rd' hrd'').att ha
        rw [hs] at this
        obtain ⟨g1, g2, g3, g4, g5⟩ := this
        refine ⟨g1, g2, g3, ?_, g5⟩
        show r' ∈ List.filter (fun x => x != r) (s.anchors rd.slot).readers
        rw [List.mem_filter]
        exact ⟨g4, by simpa using hne⟩
      · intro g hg
        exact hg

theorem inv_freeKey {O : Key → Ver → List Nat} (hh : Key → Nat) {s : State} (h : Inv O s) (k : Key) : Inv O (freeKey hh s k) := by
  unfold freeKey
  dsimp only
  split
  · rename_i hc
    simp only [Bool.and_eq_true, decide_eq_true_eq, Bool.not_eq_true'] at hc
    have ok := h.anc (hh k)
    apply inv_tryFree
    have h1 : Inv O (setA s (hh k) { (s.anchors (hh k)) with wtbf := true }) := by
      apply inv_setA_same h (hh k)
      · constructor
        · exact ok.pre
        · exact ok.comp
        · intro hk'
          have hk'' : (s.anchors (hh k)).key = none := hk'
          rw [hc.1] at hk''
          cases hk''
      · rfl
      · rfl
      · rfl
      · intro r hr; exact hr
      · exact ⟨[], by simp⟩
      · intro _; rfl
    exact inv_logInval h1 (hh k) (s.anchors (hh k)).gen (by
      right
      simp)
  · exact h

theorem inv_evict {O : Key → Ver → List Nat} {s : State} (h : Inv O s) (i : Nat) : Inv O (evict s i) := by
  unfold evict
  dsimp only
  split
  · rename_i hc
    simp only [Bool.and_eq_true, Bool.not_eq_true'] at hc
    have ok := h.anc i
    apply inv_tryFree
    have h1 : Inv O (setA s i { (s.anchors i) with wtbf := true }) := by
      apply inv_setA_same h i
      · constructor
        · exact ok.pre
        · exact ok.comp
        · intro hk'
          have hk'' : (s.anchors i).key = none := hk'
          rw [hk''] at hc
          simp at hc
      · rfl
      · rfl
      · rfl
      · intro r hr; exact hr
      · exact ⟨[], by simp⟩
      · intro _; rfl
    exact inv_logInval h1 i (s.anchors i).gen (by
      right
      simp)
  · exact h

theorem inv_init (O : Key → Ver → List Nat) : Inv O State.init := by
  constructor
  · intro i; exact anchorOk_empty O 0
  · intro r rd hrd; cases hrd
  · intro i g hg; cases hg
  · trivial

theorem inv_step {O : Key → Ver → List Nat} (hh : Key → Nat) {s : State} (h : Inv O s) (a : Action) : Inv O (step hh O s a) := by
  cases a with
  | openW w k v => exact inv_openW hh h w k v
  | startApp w i => exact inv_startApp h w i
  | append w i n => exact inv_append h w i n
  | closeW w i => exact inv_closeW h w i
  | abortW w i => exact inv_abortW h w i
  | openR w k => exact inv_openR hh h w k
  | read r n => exact inv_read h r n
  | closeR r => exact inv_closeR h r
  | freeKey k => exact inv_freeKey hh h k
  | evict i => exact inv_evict h i

theorem inv_run {O : Key → Ver → List Nat} (hh : Key → Nat) {s : State} (h : Inv O s) (as : List Action) : Inv O (run hh O s as) := by
  induction as generalizing s with
  | nil => exact h
  | cons a as ih => exact ih (inv_step hh h a)

end SquidModel.Cache.Smp
