/-
C14 model, part 4: what a 304 does to the stored reply.

* `HttpHeader::update(fresh)` (src/HttpHeader.cc): for every field of the 304 that `skipUpdateHeader` does not exempt, all
  stored fields of that id (or, for unregistered headers, of that name) are deleted; then those fields of the 304 are
  appended in order
* `HttpHeader::needUpdate`: the update happens iff some non-exempt field of the 304 is absent from the stored header or
  has another value
* `HttpReply::recreateOnNotModified`, `StoreEntry::updateOnNotModified`, `MemObject::updateReply`: only the reply prefix
  (status line + header) is replaced; the stored body bytes are not touched
* what a later hit sends: the stored header and the stored body as far as the stored Content-Length says
  (`clientReplyContext::sendMoreData`/`replyStatus` stop at `reply->content_length`)

A field is (id, value); the id of a registered header is its `Http::HdrType` name, of another header its lower-cased name.
-/
import SquidModel.Base.Bytes
import SquidModel.Gen.CondConsts

namespace SquidModel.Cache.Cond

structure Field where
  id : String
  value : Bytes
  deriving DecidableEq, Repr

/-- `HttpHeader::skipUpdateHeader` -/
def skipUpdate (id : String) : Bool := Gen.CondConsts.skipUpdateHeaders.contains id

def hasId (l : List Field) (id : String) : Bool := l.any (·.id == id)

/-- the fields of the 304 that take part in the update -/
def updating (fresh : List Field) : List Field := fresh.filter (fun f => !skipUpdate f.id)

/-- `HttpHeader::update` -/
def update (old fresh : List Field) : List Field :=
  old.filter (fun f => !hasId (updating fresh) f.id) ++ updating fresh

/-- all values of one header, in order -/
def valuesOf (l : List Field) (id : String) : List Bytes := (l.filter (·.id == id)).map (·.value)

/-- `HttpHeader::needUpdate` -/
def needUpdate (old fresh : List Field) : Bool :=
  (updating fresh).any fun f => !hasId old f.id || valuesOf old f.id != valuesOf fresh f.id

/-- stored object: reply header and body bytes -/
structure Stored where
  header : List Field
  body : Bytes
  deriving DecidableEq, Repr

/-- `StoreEntry::updateOnNotModified` as far as the stored object goes -/
def Stored.on304 (s : Stored) (fresh : List Field) : Stored :=
  if needUpdate s.header fresh then { s with header := update s.header fresh } else s

def digitsVal : Bytes → Option Nat
  | [] => none
  | ds => ds.foldl (fun acc d => acc.bind fun a => if 48 ≤ d ∧ d ≤ 57 then some (a * 10 + (d.toNat - 48)) else none) (some 0)

/-- the Content-Length the stored header announces -/
def Stored.contentLength (s : Stored) : Option Nat :=
  match valuesOf s.header "CONTENT_LENGTH" with
  | v :: _ => digitsVal v
  | [] => none

/-- the body bytes a hit delivers: no more than the announced Content-Length -/
def Stored.servedBody (s : Stored) : Bytes :=
  match s.contentLength with
  | some n => s.body.take n
  | none => s.body

end SquidModel.Cache.Cond
